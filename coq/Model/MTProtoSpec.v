(* The MTProto key derivation functions transcribed from the public specification text,
   independently of the Go code (C06).  Definitions only.

   Sources:
   core.telegram.org/mtproto/description  "Defining AES Key and Initialization Vector" (2.0):
     msg_key_large = SHA256 (substr (auth_key, 88+x, 32) + plaintext + random_padding);
     msg_key = substr (msg_key_large, 8, 16);
     sha256_a = SHA256 (msg_key + substr (auth_key, x, 36));
     sha256_b = SHA256 (substr (auth_key, 40+x, 36) + msg_key);
     aes_key = substr (sha256_a, 0, 8) + substr (sha256_b, 8, 16) + substr (sha256_a, 24, 8);
     aes_iv = substr (sha256_b, 0, 8) + substr (sha256_a, 8, 16) + substr (sha256_b, 24, 8);
     where x = 0 for messages from client to server and x = 8 for those from server to client.
     auth_key_id = the 64 lower-order bits of the SHA1 hash of the authorization key.
   core.telegram.org/mtproto/description_v1 (1.0):
     msg_key = the 128 lower-order bits of SHA1 (plaintext without padding) = substr (SHA1 (..), 4, 16);
     sha1_a = SHA1 (msg_key + substr (auth_key, x, 32));
     sha1_b = SHA1 (substr (auth_key, 32+x, 16) + msg_key + substr (auth_key, 48+x, 16));
     sha1_c = SHA1 (substr (auth_key, 64+x, 32) + msg_key);
     sha1_d = SHA1 (msg_key + substr (auth_key, 96+x, 32));
     aes_key = substr (sha1_a, 0, 8) + substr (sha1_b, 8, 12) + substr (sha1_c, 4, 12);
     aes_iv = substr (sha1_a, 8, 12) + substr (sha1_b, 0, 8) + substr (sha1_c, 16, 4) + substr (sha1_d, 0, 8);
   core.telegram.org/api/pfs "Special binding message" / method auth.bindTempAuthKey:
     encrypted_message is the bind_auth_key_inner object encrypted with the PERMANENT key using
     MTProto 1.0: message_data = random:int128 + msg_id:long (that of the request) + seq_no:int (0)
     + msg_len:int + bind_auth_key_inner; msg_key = substr (SHA1 (message_data), 4, 16); padded with
     0..15 random bytes to a multiple of 16; AES-IGE with the 1.0 key/iv (x = 0);
     encrypted_message = perm_auth_key_id + msg_key + encrypted_data.
     bind_auth_key_inner#75a3f765 nonce:long temp_auth_key_id:long perm_auth_key_id:long
       temp_session_id:long expires_at:int = BindAuthKeyInner; *)
From Coq Require Import ZArith List Bool.
From TD Require Import Lib.Bytes Lib.GoSem Model.MsgCrypto.
Import ListNotations.
Open Scope Z_scope.

Module Spec.

(* substr (s, offset, length) *)
Definition substr (s : list Z) (off len : nat) : list Z := firstn len (skipn off s).

(* direction: x = 0 client -> server, x = 8 server -> client *)
Inductive direction := ClientToServer | ServerToClient.
Definition x_of_dir (d : direction) : nat := match d with ClientToServer => 0 | ServerToClient => 8 end.

Section WithHashes.
  Variable SHA256 SHA1 : list Z -> list Z.

  (* ---- MTProto 2.0 ---- *)
  Definition msg_key_large (auth_key plaintext_with_padding : list Z) (x : nat) : list Z :=
    SHA256 (substr auth_key (88 + x) 32 ++ plaintext_with_padding).
  Definition msg_key (auth_key plaintext_with_padding : list Z) (x : nat) : list Z :=
    substr (msg_key_large auth_key plaintext_with_padding x) 8 16.
  Definition sha256_a (auth_key msg_key : list Z) (x : nat) : list Z :=
    SHA256 (msg_key ++ substr auth_key x 36).
  Definition sha256_b (auth_key msg_key : list Z) (x : nat) : list Z :=
    SHA256 (substr auth_key (40 + x) 36 ++ msg_key).
  Definition aes_key (auth_key msg_key : list Z) (x : nat) : list Z :=
    let a := sha256_a auth_key msg_key x in let b := sha256_b auth_key msg_key x in
    substr a 0 8 ++ substr b 8 16 ++ substr a 24 8.
  Definition aes_iv (auth_key msg_key : list Z) (x : nat) : list Z :=
    let a := sha256_a auth_key msg_key x in let b := sha256_b auth_key msg_key x in
    substr b 0 8 ++ substr a 8 16 ++ substr b 24 8.

  (* 64 lower-order bits of SHA1(auth_key): SHA-1 is 20 bytes, the low 8 are the last ones *)
  Definition auth_key_id (auth_key : list Z) : list Z := substr (SHA1 auth_key) 12 8.

  (* ---- MTProto 1.0 ---- *)
  Definition msg_key_v1 (message_data : list Z) : list Z := substr (SHA1 message_data) 4 16.
  Definition sha1_a (auth_key msg_key : list Z) (x : nat) := SHA1 (msg_key ++ substr auth_key x 32).
  Definition sha1_b (auth_key msg_key : list Z) (x : nat) :=
    SHA1 (substr auth_key (32 + x) 16 ++ msg_key ++ substr auth_key (48 + x) 16).
  Definition sha1_c (auth_key msg_key : list Z) (x : nat) := SHA1 (substr auth_key (64 + x) 32 ++ msg_key).
  Definition sha1_d (auth_key msg_key : list Z) (x : nat) := SHA1 (msg_key ++ substr auth_key (96 + x) 32).
  Definition aes_key_v1 (auth_key msg_key : list Z) (x : nat) : list Z :=
    substr (sha1_a auth_key msg_key x) 0 8 ++ substr (sha1_b auth_key msg_key x) 8 12 ++
    substr (sha1_c auth_key msg_key x) 4 12.
  Definition aes_iv_v1 (auth_key msg_key : list Z) (x : nat) : list Z :=
    substr (sha1_a auth_key msg_key x) 8 12 ++ substr (sha1_b auth_key msg_key x) 0 8 ++
    substr (sha1_c auth_key msg_key x) 16 4 ++ substr (sha1_d auth_key msg_key x) 0 8.

  (* ---- the receiver's view of the special binding message ---- *)
  Variable aes_dec : list Z -> list Z -> list Z.

  (* AES-IGE decryption transcribed from the mode's definition (independently of the model of
     github.com/gotd/ige):  p_i = D (c_i xor p_(i-1)) xor c_(i-1),  iv = c_0 + p_0 (16 bytes each),
     written as a left-to-right pass carrying (c_(i-1), p_(i-1)) and the output so far *)
  Definition xor (a b : list Z) : list Z := map (fun q => Z.lxor (fst q) (snd q)) (combine a b).
  Definition ige_step (D : list Z -> list Z) (st : list Z * list Z * list Z) (c_i : list Z) : list Z * list Z * list Z :=
    let '(c_prev, p_prev, out) := st in
    let p_i := xor (D (xor c_i p_prev)) c_prev in
    (c_i, p_i, out ++ p_i).
  Definition ige_decrypt (D : list Z -> list Z) (iv data : list Z) : list Z :=
    snd (fold_left (ige_step D) (chunks16 data) (substr iv 0 16, skipn 16 iv, [])).

  Record bound := { bd_msg_id : Z; bd_seq_no : Z; bd_nonce : Z; bd_temp_key_id : Z; bd_perm_key_id : Z;
                    bd_temp_session : Z; bd_expires : Z }.

  Definition u_le (b : list Z) (off len : nat) : Z := le_dec (substr b off len).
  Definition s64 (b : list Z) (off : nat) : Z := to_signed 64 (u_le b off 8).
  Definition s32 (b : list Z) (off : nat) : Z := to_signed 32 (u_le b off 4).

  (* decrypt encrypted_message with the permanent key (value, id) under MTProto 1.0, x = 0 *)
  Definition open_bind (perm_key perm_key_id : list Z) (encrypted_message : list Z) : res err bound :=
    if (length encrypted_message <? 24 + 32)%nat then Err EBind else
    let kid := substr encrypted_message 0 8 in
    let mk := substr encrypted_message 8 16 in
    let data := skipn 24 encrypted_message in
    if negb (bytes_eqb kid perm_key_id) then Err EKeyId else
    if negb (Nat.eqb (length data mod 16) 0) then Err EAlign else
    let pt := ige_decrypt (aes_dec (aes_key_v1 perm_key mk 0)) (aes_iv_v1 perm_key mk 0) data in
    let msg_len := s32 pt 28 in
    if (msg_len <? 0) || (Z.of_nat (length pt) - 32 <? msg_len) || (15 <? Z.of_nat (length pt) - 32 - msg_len)
    then Err EBind else
    let message_data := firstn (32 + Z.to_nat msg_len) pt in
    if negb (bytes_eqb (msg_key_v1 message_data) mk) then Err EMsgKey else
    let inner := skipn 32 message_data in
    if negb ((msg_len =? 40) && (u_le inner 0 4 =? 0x75a3f765)) then Err EBind else
    Ok {| bd_msg_id := s64 pt 16; bd_seq_no := s32 pt 24;
          bd_nonce := s64 inner 4; bd_temp_key_id := s64 inner 12; bd_perm_key_id := s64 inner 20;
          bd_temp_session := s64 inner 28; bd_expires := s32 inner 36 |}.
End WithHashes.

End Spec.
