(* Independent transcription of the specification texts (no reference to Model/RsaPad.v):

   RSA_PAD(data, server_public_key), https://core.telegram.org/mtproto/auth_key (step 4.1):
    1) data_with_padding := data + random_padding_bytes;  -- 192 bytes, data at most 144 bytes
    2) data_pad_reversed := BYTE_REVERSE(data_with_padding);
    3) a random 32-byte temp_key is generated
    4) data_with_hash := data_pad_reversed + SHA256(temp_key + data_with_padding);  -- 224 bytes
    5) aes_encrypted := AES256_IGE(data_with_hash, temp_key, 0);   -- zero IV
    6) temp_key_xor := temp_key XOR SHA256(aes_encrypted);         -- 32 bytes
    7) key_aes_encrypted := temp_key_xor + aes_encrypted;          -- 256 bytes
    8) key_aes_encrypted is compared with the RSA modulus as a big-endian 2048-bit unsigned
       integer; if it is greater than or equal to the modulus, repeat from 3) with a new temp_key
    9) encrypted_data := RSA(key_aes_encrypted, server_pubkey);  -- the 256-byte big-endian
       integer raised to the public exponent modulo the modulus, stored big-endian in exactly
       256 bytes (leading zero bytes if required).

   Legacy scheme (MTProto 1.0 auth key creation):
      data_with_hash := SHA1(data) + data + (any random bytes);  -- 255 bytes
      encrypted_data := RSA(data_with_hash, server_public_key);  -- a 255-byte number (big endian)
                         raised to the requisite power over the requisite modulus, 256-byte result.

   IGE: c_i = E_K(p_i xor c_{i-1}) xor p_{i-1}, with (c_0, p_0) = the two halves of the IV. *)
From Coq Require Import ZArith List Bool Lia.
From TD Require Import Lib.Bytes.
Import ListNotations.
Open Scope Z_scope.

Section RsaPadSpec.
  Variable SHA256 : list Z -> list Z.
  Variable SHA1 : list Z -> list Z.
  Variable AES256 : list Z -> list Z -> list Z.   (* E_K(block) *)
  Variable N : Z.
  Variable e : Z.

  Definition BYTE_REVERSE (s : list Z) : list Z := rev s.
  Definition XOR (a b : list Z) : list Z := map (fun p => Z.lxor (fst p) (snd p)) (combine a b).
  (* unsigned big-endian integer denoted by a byte string (Horner) *)
  Definition as_uint (s : list Z) : Z := fold_left (fun acc b => acc * 256 + b) s 0.

  Fixpoint blocks16 (n : nat) (s : list Z) : list (list Z) :=
    match n with
    | O => []
    | S k => firstn 16 s :: blocks16 k (skipn 16 s)
    end.
  Fixpoint IGE_blocks (K cprev pprev : list Z) (ps : list (list Z)) : list (list Z) :=
    match ps with
    | [] => []
    | p :: t => let c := XOR (AES256 K (XOR p cprev)) pprev in c :: IGE_blocks K c p t
    end.
  Definition AES256_IGE (data K iv : list Z) : list Z :=
    concat (IGE_blocks K (firstn 16 iv) (skipn 16 iv) (blocks16 (length data / 16) data)).

  (* steps 1, 2, 4-7 for a given temp_key *)
  Definition spec_key_aes_encrypted (data random_padding_bytes temp_key : list Z) : list Z :=
    let data_with_padding := data ++ random_padding_bytes in
    let data_pad_reversed := BYTE_REVERSE data_with_padding in
    let data_with_hash := data_pad_reversed ++ SHA256 (temp_key ++ data_with_padding) in
    let aes_encrypted := AES256_IGE data_with_hash temp_key (repeat 0 32) in
    let temp_key_xor := XOR temp_key (SHA256 aes_encrypted) in
    temp_key_xor ++ aes_encrypted.

  (* step 9: RSA(x, key) stored big-endian in exactly 256 bytes *)
  Definition spec_RSA (x out : list Z) : Prop :=
    length out = 256%nat /\ bytes_ok out /\ as_uint out = as_uint x ^ e mod N.

  (* steps 3, 8, 9 over the sequence of temp keys drawn: the first whose key_aes_encrypted is
     below the modulus is used *)
  Inductive spec_rsa_pad (data padding : list Z) : list (list Z) -> list Z -> Prop :=
  | spec_pad_accept tk rest out :
      as_uint (spec_key_aes_encrypted data padding tk) < N ->
      spec_RSA (spec_key_aes_encrypted data padding tk) out ->
      spec_rsa_pad data padding (tk :: rest) out
  | spec_pad_retry tk rest out :
      N <= as_uint (spec_key_aes_encrypted data padding tk) ->
      spec_rsa_pad data padding rest out ->
      spec_rsa_pad data padding (tk :: rest) out.

  (* legacy scheme *)
  Definition spec_rsa_hashed (data any_random_bytes out : list Z) : Prop :=
    spec_RSA (SHA1 data ++ data ++ any_random_bytes) out.
End RsaPadSpec.

(* the complete 32-byte chunks of a random stream, in order: the temp keys drawn by step 3 *)
Fixpoint chunks_f (fuel : nat) (n : nat) (l : list Z) : list (list Z) :=
  match fuel with
  | O => []
  | S f => if (n <=? length l)%nat then firstn n l :: chunks_f f n (skipn n l) else []
  end.
Definition chunks (n : nat) (l : list Z) : list (list Z) := chunks_f (length l) n l.
