(* Model of crypto/srp: SRP.Hash (hash.go), computeXV / NewHash (new_hash.go), pad256 /
   pad256FromBig (pad.go), as the code is.  Definitions only.

   Abstract primitives (Section variables): H = SHA-256, pbkdf2 = PBKDF2-HMAC-SHA512 with 100000
   iterations and 64-byte output, big.Int.Exp, and the group check crypto.CheckDH (property C13)
   as a boolean [check_dh g p]. *)
From Coq Require Import ZArith List Bool Lia.
From TD Require Import Lib.Bytes Lib.GoSem Lib.BeBytes.
Import ListNotations.
Open Scope Z_scope.

Inductive srp_err : Type :=
| ERefuse        (* "validate algo": checkInput = crypto.CheckDH failed *)
| EGaTooBig      (* "g_a is too big" *)
| ESaTooBig      (* "s_a is too big" *)
| ERandom        (* NewHash: io.ReadFull on the random source failed *)
| EPTooBig.      (* "p is too big" (unreachable after the group check) *)

(* pad.go pad256: the last 256 bytes of a longer slice, else left-padded with zeros *)
Definition pad256 (b : list Z) : list Z :=
  if (256 <=? length b)%nat then skipn (length b - 256) b else repeat 0 (256 - length b) ++ b.
(* pad.go pad256FromBig = crypto.FillBytes into 256 bytes: fails when the number needs more *)
Definition pad256_from_big (v : Z) : option (list Z) :=
  if v <? 256 ^ 256 then Some (be_enc 256 v) else None.

Section SrpModel.
  Variable H : list Z -> list Z.                    (* sha256 *)
  Variable pbkdf2 : list Z -> list Z -> list Z.     (* pbkdf2.Key(ph1, salt1, 100000, 64, sha512.New) *)
  Variable modexp : Z -> Z -> Z -> Z.               (* big.Int.Exp *)
  Variable check_dh : Z -> Z -> bool.               (* crypto.CheckDH(g, p) == nil *)

  (* hash.go: saltHash, primary, secondary *)
  Definition salt_hash (data salt : list Z) : list Z := H (salt ++ data ++ salt).
  Definition ph1 (password salt1 salt2 : list Z) : list Z := salt_hash (salt_hash password salt1) salt2.
  Definition ph2 (password salt1 salt2 : list Z) : list Z :=
    salt_hash (pbkdf2 (ph1 password salt1 salt2) salt1) salt2.

  (* new_hash.go computeXV *)
  Definition compute_x (password salt1 salt2 : list Z) : Z := be_dec (ph2 password salt1 salt2).

  (* SRP.Hash(password, srpB, random, Input{Salt1, Salt2, G, P}) *)
  Definition srp_hash (password srpB random salt1 salt2 : list Z) (g : Z) (P : list Z)
    : res srp_err (list Z * list Z) :=
    let p := be_dec P in
    if negb (check_dh g p) then Err ERefuse else
    match pad256_from_big p with                    (* canonical 256-byte form of p *)
    | None => Err EPTooBig
    | Some pbytes =>
    let gbytes := be_enc 256 (Z.abs g) in           (* g.FillBytes(gBytes[:]) *)
    let a := be_dec random in
    match pad256_from_big (modexp g a p) with
    | None => Err EGaTooBig
    | Some ga =>
      let gb := pad256 srpB in
      let u := be_dec (H (ga ++ gb)) in
      let x := compute_x password salt1 salt2 in
      let v := modexp g x p in
      let k := be_dec (H (pbytes ++ gbytes)) in
      let kv := (k * v) mod p in
      let t0 := be_dec srpB - kv in
      let t := if t0 <? 0 then t0 + p else t0 in
      match pad256_from_big (modexp t (u * x + a) p) with
      | None => Err ESaTooBig
      | Some sa =>
        let ka := H sa in
        let m1 := H (xor_bytes (H pbytes) (H gbytes) ++ H salt1 ++ H salt2 ++ ga ++ gb ++ ka) in
        Ok (ga, m1)
      end
    end
    end.

  (* SRP.NewHash(password, Input) with the 32 bytes read from the random source: (hash, newSalt) *)
  Definition srp_new_hash (password salt1 salt2 : list Z) (g : Z) (P : list Z) (rnd : list Z)
    : res srp_err (list Z * list Z) :=
    let p := be_dec P in
    if negb (check_dh g p) then Err ERefuse else
    match read_full 32 rnd with
    | None => Err ERandom
    | Some (r32, _) =>
      let new_salt := salt1 ++ r32 in
      let v := modexp g (compute_x password new_salt salt2) p in
      (* "padded, _ := s.pad256FromBig(v)": the failure flag is dropped, the array stays zero *)
      match pad256_from_big v with
      | Some b => Ok (b, new_salt)
      | None => Ok (repeat 0 256, new_salt)
      end
    end.
End SrpModel.

(* ---- assumptions used as explicit hypotheses of the C15 theorems ---- *)
Definition hash_wf (H : list Z -> list Z) : Prop := forall x, length (H x) = 32%nat /\ bytes_ok (H x).
Definition exp_is_pow (modexp : Z -> Z -> Z -> Z) : Prop :=
  forall b x m, 0 <= x -> 0 < m -> modexp b x m = b ^ x mod m.
(* what the proofs need from an accepting crypto.CheckDH (C13 proves the exact characterisation) *)
Definition check_dh_bounds (check_dh : Z -> Z -> bool) : Prop :=
  forall g p, check_dh g p = true -> 2 <= g <= 7 /\ 2 ^ 2047 <= p < 2 ^ 2048.
