(* A small concrete instance of Model/Exchange.v used by the non-vacuity Examples of C09 / C10:
   "encryption" is the identity, exponentiation is real (square-and-multiply), the primality
   oracle accepts everything, p = 2^2047 + 3003 (2048 bits, p mod 3 = 2 so g = 3 passes the
   residue table), a = 1500, b = 1700.  Definitions only. *)
From Coq Require Import ZArith List Bool.
From TD Require Import Lib.GoSem Lib.RunLib Gen.DhCheck Model.DhCheck Model.Exchange.
Import ListNotations.
Open Scope Z_scope.

Definition d_p : Z := 2 ^ 2047 + 3003.
Definition d_nonce : nonce := repeat 1 16.
Definition d_new_nonce : nonce := repeat 2 32.
Definition d_server_nonce : nonce := repeat 3 16.
Definition d_prime (_ : Z) : bool := true.
Definition d_factor (_ : Z) : option (Z * Z) := Some (3, 5).
Definition d_hash1 (nn : nonce) (key : list Z) : list Z := firstn 16 (nn ++ key).
Definition d_keyid (key : list Z) : list Z := firstn 8 (rev key).

Definition d_ccf : cconf Z := {| cc_keys := [11; 7]; cc_dc := 2; cc_expires := None |}.
Definition d_cr : crand := {| cr_nonce := d_nonce; cr_new_nonce := d_new_nonce; cr_b := 1700 |}.
Definition d_scf : sconf Z := {| sc_key := 7; sc_dc := 2 |}.
Definition d_sr : srand := {| sr_server_nonce := d_server_nonce; sr_pq := 15; sr_p := d_p; sr_as := [1500]; sr_time := 0 |}.

(* identity crypto: ciphertext types are the plaintext records *)
Definition d_rsa_enc (_ : Z) (x : pq_inner) : pq_inner := x.
Definition d_rsa_dec (_ : Z) (x : pq_inner) : option pq_inner := Some x.
Definition d_ans_enc (_ _ : nonce) (x : sdh_inner) : sdh_inner := x.
Definition d_ans_dec (_ _ : nonce) (x : sdh_inner) : option sdh_inner := Some x.
Definition d_cin_enc (_ _ : nonce) (x : cdh_inner) : cdh_inner := x.
Definition d_cin_dec (_ _ : nonce) (x : cdh_inner) : option cdh_inner := Some x.

Definition d_honest : outcome :=
  honest_run Z Z pq_inner sdh_inner cdh_inner (fun k => k) (fun k => k) d_rsa_enc d_rsa_dec d_ans_enc d_ans_dec
             d_cin_enc d_cin_dec modpow d_prime d_factor d_hash1 d_keyid d_ccf d_cr d_scf d_sr.

Definition d_client (m2 : res_pq) (m5 : server_dh sdh_inner) (m7 : dh_gen) : res cerr kex_result :=
  client_run Z pq_inner sdh_inner cdh_inner (fun k => k) d_rsa_enc d_ans_dec d_cin_enc modpow d_prime d_factor
             d_hash1 d_keyid d_ccf d_cr m2 m5 m7.

(* the three messages an honest server sends in this instance *)
Definition d_m2 : res_pq := server_step2 Z Z (fun k => k) (fun k => k) d_scf d_sr d_nonce.
Definition d_ga : Z := modpow server_g 1500 d_p.
Definition d_inner : sdh_inner :=
  {| si_nonce := d_nonce; si_server_nonce := d_server_nonce; si_g := server_g; si_p := d_p; si_ga := d_ga; si_time := 0 |}.
Definition d_m5 : server_dh sdh_inner := SdhOk sdh_inner d_nonce d_server_nonce d_inner.
Definition d_key : list Z := be_enc 256 (modpow d_ga 1700 d_p).
Definition d_m7 : dh_gen := GenOk d_nonce d_server_nonce (d_hash1 d_new_nonce d_key).
