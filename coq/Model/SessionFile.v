(* C31 -- the system-call sequence of session.FileStorage.StoreSession
   (/repo/session/storage_file.go) over the crash model of Lib/CrashFS.v, and the
   classification of what session.Loader.Load makes of a file content.

   The sequence is not assumed: the harness observes it with strace on every run and the
   correspondence check compares it with [store_ops].  Names: 0 = the session file
   (FileStorage.Path), 1 = the temporary file; descriptor ids are numbered in the order
   the descriptors are opened.  Definitions only. *)
From Coq Require Import List ZArith Bool Arith.
From TD Require Import Lib.CrashFS.
Import ListNotations.

Definition tgt : name := 0.
Definition tmp : name := 1.

Definition writes (fd : fdn) (chunks : list bytes) : list op := map (OWrite fd) chunks.

(* StoreSession as repaired (writeFileAtomic): os.CreateTemp in the directory of Path
   (O_CREAT|O_EXCL), Write (one write(2) per chunk; Go issues a single one unless the
   kernel returns a short count), Sync, Close, os.Rename over Path, then a best-effort
   sync of the directory ([dirsync] = it could be opened and synced). *)
Definition store_ops_named (t : name) (chunks : list bytes) (dirsync : bool) : list op :=
  [OOpen 0 t true true false] ++ writes 0 chunks ++ [OFsync 0; OClose 0; ORename t tgt]
  ++ (if dirsync then [OOpenDir 1; OFsync 1; OClose 1] else []).
(* on a directory without leftovers the temporary file is the first other name *)
Definition store_ops (chunks : list bytes) (dirsync : bool) : list op := store_ops_named tmp chunks dirsync.
(* os.CreateTemp opens with O_EXCL and picks a name that does not exist: with k leftover
   files (names 1..k) the new temporary file is name k+1 *)

(* StoreSession before the repair: os.WriteFile(Path) = open(O_CREAT|O_TRUNC); write; close *)
Definition writefile_ops (chunks : list bytes) : list op :=
  [OOpen 0 tgt true false true] ++ writes 0 chunks ++ [OClose 0].

(* the repaired sequence with the fsync of the data left out *)
Definition store_ops_nofsync (chunks : list bytes) : list op :=
  [OOpen 0 tmp true true false] ++ writes 0 chunks ++ [OClose 0; ORename tmp tgt].

(* updating the file in place (no truncation, positional write, fsync): what an "optimised" save
   of a session of unchanged size would do *)
Definition inplace_ops (data : bytes) : list op :=
  [OOpen 0 tgt false false false; OWriteAt 0 0 data; OFsync 0; OClose 0].

(* ---- what Loader.Load / FileStorage.LoadSession make of a file ---- *)
Inductive load_res (S : Type) := LNotFound | LErr | LOk (s : S).
Arguments LNotFound {S}.
Arguments LErr {S}.
Arguments LOk {S} s.

(* [parse]: json.Unmarshal + version check of Loader.Load, abstract *)
Definition load {S} (parse : bytes -> option S) (c : option bytes) : load_res S :=
  match c with
  | None => LNotFound               (* os.IsNotExist -> ErrNotFound *)
  | Some [] => LNotFound            (* len(buf) == 0 -> ErrNotFound *)
  | Some b => match parse b with Some s => LOk s | None => LErr end
  end.

(* projected observation used by the correspondence: 0 no session, 1 the old session,
   2 the new session, 3 both (old = new), 4 error.  A non-empty content that is neither the
   old nor the new file is an error: both are complete JSON objects written by json.Marshal,
   and a proper prefix of a JSON object is not a JSON value. *)
Fixpoint bytes_eqb (a b : bytes) : bool :=
  match a, b with
  | [], [] => true
  | x :: a', y :: b' => Z.eqb x y && bytes_eqb a' b'
  | _, _ => false
  end.
Definition classify (old : option bytes) (new : bytes) (c : option bytes) : Z :=
  match c with
  | None => 0%Z
  | Some [] => 0%Z
  | Some b =>
      let is_old := match old with Some o => bytes_eqb o b | None => false end in
      let is_new := bytes_eqb new b in
      if is_old && is_new then 3%Z else if is_old then 1%Z else if is_new then 2%Z else 4%Z
  end.
