(* Model of package fileid: rleEncode/rleDecode (fileid/rle.go), base64.RawURLEncoding
   (stdlib, written out), FileID/PhotoSizeSource field layout over the TL primitives of
   Model/TlPrim.v (fileid/file_id.go, fileid/photo_size_source.go), EncodeFileID /
   DecodeFileID (fileid/encode.go, fileid/decode.go). Definitions only. Strings are lists
   of byte values. Constants come from Gen/FileIdConsts.v (regenerated from /repo). *)
From Coq Require Import ZArith List Bool.
From TD Require Import Lib.Bytes Lib.GoSem Lib.GoSlice Gen.FileIdConsts Model.TlPrim.
Import ListNotations.
Open Scope Z_scope.

(* ---------- RLE ---------- *)

(* rleEncode: [count] is the byte counter of the current zero run. The counter is flushed
   as (0, 255) when it reaches 255 (math.MaxUint8), so it never wraps. *)
Definition rle_flush (count : Z) : list Z := if count >? 0 then [0; count] else [].
Fixpoint rle_enc (s : list Z) (count : Z) : list Z :=
  match s with
  | [] => rle_flush count
  | cur :: t =>
    if cur =? 0 then
      let count := (count + 1) mod 256 in
      if count =? 255 then 0 :: count :: rle_enc t 0 else rle_enc t count
    else rle_flush count ++ cur :: rle_enc t 0
  end.
Definition rle_encode (s : list Z) : list Z := rle_enc s 0.

(* the encoder before the fix (kept for the regression witness): no flush at 255 *)
Fixpoint rle_enc_old (s : list Z) (count : Z) : list Z :=
  match s with
  | [] => rle_flush count
  | cur :: t =>
    if cur =? 0 then rle_enc_old t ((count + 1) mod 256)
    else rle_flush count ++ cur :: rle_enc_old t 0
  end.

(* rleDecode: [last] is the pending byte (nil / one byte) *)
Fixpoint rle_dec (s : list Z) (last : option Z) : list Z :=
  match s with
  | [] => match last with Some b => [b] | None => [] end
  | cur :: t =>
    match last with
    | Some 0 => repeat 0 (Z.to_nat cur) ++ rle_dec t None
    | Some b => b :: rle_dec t (Some cur)
    | None => rle_dec t (Some cur)
    end
  end.
Definition rle_decode (s : list Z) : list Z := rle_dec s None.

(* ---------- base64.RawURLEncoding ---------- *)

Definition b64_char (i : Z) : Z :=
  if i <? 26 then 65 + i else if i <? 52 then 71 + i else if i <? 62 then i - 4
  else if i =? 62 then 45 else 95.
Definition b64_index (c : Z) : option Z :=
  if (65 <=? c) && (c <=? 90) then Some (c - 65)
  else if (97 <=? c) && (c <=? 122) then Some (c - 71)
  else if (48 <=? c) && (c <=? 57) then Some (c + 4)
  else if c =? 45 then Some 62 else if c =? 95 then Some 63 else None.

Fixpoint b64_sext (s : list Z) : list Z :=
  match s with
  | b0 :: b1 :: b2 :: t =>
    (b0 / 4) :: ((b0 mod 4) * 16 + b1 / 16) :: ((b1 mod 16) * 4 + b2 / 64) :: (b2 mod 64) :: b64_sext t
  | [b0; b1] => [b0 / 4; (b0 mod 4) * 16 + b1 / 16; (b1 mod 16) * 4]
  | [b0] => [b0 / 4; (b0 mod 4) * 16]
  | [] => []
  end.
Definition b64_encode (s : list Z) : list Z := map b64_char (b64_sext s).

(* decoder: '\r' and '\n' are skipped anywhere, any other non-alphabet character
   (including '=') is an error, a single trailing character is an error, trailing bits
   are ignored (non-strict mode) *)
Fixpoint b64_sextets (s : list Z) : option (list Z) :=
  match s with
  | [] => Some []
  | c :: t =>
    if (c =? 10) || (c =? 13) then b64_sextets t
    else match b64_index c, b64_sextets t with
         | Some i, Some l => Some (i :: l)
         | _, _ => None
         end
  end.
Fixpoint b64_groups (x : list Z) : option (list Z) :=
  match x with
  | s0 :: s1 :: s2 :: s3 :: t =>
    match b64_groups t with
    | Some r => Some ((s0 * 4 + s1 / 16) :: ((s1 mod 16) * 16 + s2 / 4) :: ((s2 mod 4) * 64 + s3) :: r)
    | None => None
    end
  | [s0; s1; s2] => Some [s0 * 4 + s1 / 16; (s1 mod 16) * 16 + s2 / 4]
  | [s0; s1] => Some [s0 * 4 + s1 / 16]
  | [_] => None
  | [] => Some []
  end.
Definition b64_decode (s : list Z) : option (list Z) :=
  match b64_sextets s with Some x => b64_groups x | None => None end.

(* ---------- FileID ---------- *)

Record pss : Type := mkPss {
  p_type : Z; p_volume : Z; p_local : Z; p_secret : Z; p_ftype : Z; p_thumb : Z;
  p_dialog : Z; p_dialog_hash : Z; p_set_id : Z; p_set_hash : Z; p_version : Z }.
Definition pss0 : pss := mkPss 0 0 0 0 0 0 0 0 0 0 0.

Record file_id : Type := mkFileId {
  f_type : Z; f_dc : Z; f_id : Z; f_hash : Z; f_ref : list Z; f_url : list Z; f_pss : pss }.

Definition set_type (p : pss) v := mkPss v (p_volume p) (p_local p) (p_secret p) (p_ftype p) (p_thumb p) (p_dialog p) (p_dialog_hash p) (p_set_id p) (p_set_hash p) (p_version p).
Definition set_volume (p : pss) v := mkPss (p_type p) v (p_local p) (p_secret p) (p_ftype p) (p_thumb p) (p_dialog p) (p_dialog_hash p) (p_set_id p) (p_set_hash p) (p_version p).
Definition set_local (p : pss) v := mkPss (p_type p) (p_volume p) v (p_secret p) (p_ftype p) (p_thumb p) (p_dialog p) (p_dialog_hash p) (p_set_id p) (p_set_hash p) (p_version p).
Definition set_secret (p : pss) v := mkPss (p_type p) (p_volume p) (p_local p) v (p_ftype p) (p_thumb p) (p_dialog p) (p_dialog_hash p) (p_set_id p) (p_set_hash p) (p_version p).
Definition set_ftype (p : pss) v := mkPss (p_type p) (p_volume p) (p_local p) (p_secret p) v (p_thumb p) (p_dialog p) (p_dialog_hash p) (p_set_id p) (p_set_hash p) (p_version p).
Definition set_thumb (p : pss) v := mkPss (p_type p) (p_volume p) (p_local p) (p_secret p) (p_ftype p) v (p_dialog p) (p_dialog_hash p) (p_set_id p) (p_set_hash p) (p_version p).
Definition set_dialog (p : pss) v := mkPss (p_type p) (p_volume p) (p_local p) (p_secret p) (p_ftype p) (p_thumb p) v (p_dialog_hash p) (p_set_id p) (p_set_hash p) (p_version p).
Definition set_dialog_hash (p : pss) v := mkPss (p_type p) (p_volume p) (p_local p) (p_secret p) (p_ftype p) (p_thumb p) (p_dialog p) v (p_set_id p) (p_set_hash p) (p_version p).
Definition set_set_id (p : pss) v := mkPss (p_type p) (p_volume p) (p_local p) (p_secret p) (p_ftype p) (p_thumb p) (p_dialog p) (p_dialog_hash p) v (p_set_hash p) (p_version p).
Definition set_set_hash (p : pss) v := mkPss (p_type p) (p_volume p) (p_local p) (p_secret p) (p_ftype p) (p_thumb p) (p_dialog p) (p_dialog_hash p) (p_set_id p) v (p_version p).
Definition set_version (p : pss) v := mkPss (p_type p) (p_volume p) (p_local p) (p_secret p) (p_ftype p) (p_thumb p) (p_dialog p) (p_dialog_hash p) (p_set_id p) (p_set_hash p) v.

Inductive fid_err : Type :=
| FEmpty | FBase64 | FTooSmall | FUnsupported | FUnknownVersion
| FBody (e : tl_err) | FUnknownType | FUnknownPss.

Definition wrap {A} (r : res tl_err A) : res fid_err A := map_err FBody r.

Definition is_photo_type (t : Z) : bool := (t =? c_Thumbnail) || (t =? c_Photo) || (t =? c_ProfilePhoto).

(* PhotoSizeSource.encode *)
Definition encode_dialog (p : pss) := encode_long (p_dialog p) ++ encode_long (p_dialog_hash p).
Definition encode_sticker_set (p : pss) := encode_long (p_set_id p) ++ encode_long (p_set_hash p).
Definition encode_local_volume (p : pss) := encode_long (p_volume p) ++ encode_int (p_local p).
Definition encode_pss (p : pss) : list Z :=
  let t := p_type p in
  encode_int t ++
  (if t =? c_PhotoSizeSourceLegacy then encode_long (p_secret p)
   else if t =? c_PhotoSizeSourceThumbnail then encode_uint32 (p_ftype p) ++ encode_int32 (p_thumb p)
   else if (t =? c_PhotoSizeSourceDialogPhotoBig) || (t =? c_PhotoSizeSourceDialogPhotoSmall) then encode_dialog p
   else if t =? c_PhotoSizeSourceStickerSetThumbnail then encode_sticker_set p
   else if t =? c_PhotoSizeSourceFullLegacy then encode_long (p_volume p) ++ encode_long (p_secret p) ++ encode_int (p_local p)
   else if (t =? c_PhotoSizeSourceDialogPhotoBigLegacy) || (t =? c_PhotoSizeSourceDialogPhotoSmallLegacy) then encode_dialog p ++ encode_local_volume p
   else if t =? c_PhotoSizeSourceStickerSetThumbnailLegacy then encode_sticker_set p ++ encode_local_volume p
   else if t =? c_PhotoSizeSourceStickerSetThumbnailVersion then encode_sticker_set p ++ encode_int32 (p_version p)
   else []).

(* FileID.encodeLatestFileID *)
Definition encode_latest (f : file_id) : list Z :=
  let web := negb (len (f_url f) =? 0) in
  let ref := negb (len (f_ref f) =? 0) in
  let tid := Z.lor (Z.lor (f_type f) (if web then c_webLocationFlag else 0)) (if ref then c_fileReferenceFlag else 0) in
  encode_uint32 tid ++ encode_uint32 (f_dc f) ++
  (if ref then encode_bytes (f_ref f) else []) ++
  (if web then encode_string (f_url f)
   else encode_long (f_id f) ++ encode_long (f_hash f) ++
        (if is_photo_type (f_type f) then encode_pss (f_pss f) else []) ++ [c_latestSubVersion]).

(* EncodeFileID *)
Definition encode_file_id (f : file_id) : list Z :=
  b64_encode (rle_encode (encode_latest f ++ [c_persistentIDVersion])).

(* PhotoSizeSource.decode helpers: each returns the updated source and the rest *)
Definition rd_long (b : list Z) := wrap (decode_long b).
Definition rd_int (b : list Z) := wrap (decode_int b).
Definition read_dialog (p : pss) (b : list Z) : res fid_err (pss * list Z) :=
  do (v, b) <- rd_long b; let p := set_dialog p v in
  do (v, b) <- rd_long b; Ok (set_dialog_hash p v, b).
Definition read_sticker_set (p : pss) (b : list Z) : res fid_err (pss * list Z) :=
  do (v, b) <- rd_long b; let p := set_set_id p v in
  do (v, b) <- rd_long b; Ok (set_set_hash p v, b).
Definition read_local_volume (p : pss) (b : list Z) : res fid_err (pss * list Z) :=
  do (v, b) <- rd_long b; let p := set_volume p v in
  do (v, b) <- rd_int b; Ok (set_local p v, b).

Definition decode_pss_body (p : pss) (t : Z) (b : list Z) : res fid_err (pss * list Z) :=
  if t =? c_PhotoSizeSourceLegacy then do (v, b) <- rd_long b; Ok (set_secret p v, b)
  else if t =? c_PhotoSizeSourceThumbnail then
    do (v, b) <- wrap (decode_uint32 b); let p := set_ftype p v in
    do (v, b) <- wrap (decode_int32 b); Ok (set_thumb p v, b)
  else if (t =? c_PhotoSizeSourceDialogPhotoBig) || (t =? c_PhotoSizeSourceDialogPhotoSmall) then read_dialog p b
  else if t =? c_PhotoSizeSourceStickerSetThumbnail then read_sticker_set p b
  else if t =? c_PhotoSizeSourceFullLegacy then
    do (v, b) <- rd_long b; let p := set_volume p v in
    do (v, b) <- rd_long b; let p := set_secret p v in
    do (v, b) <- rd_int b; Ok (set_local p v, b)
  else if (t =? c_PhotoSizeSourceDialogPhotoBigLegacy) || (t =? c_PhotoSizeSourceDialogPhotoSmallLegacy) then
    do (p, b) <- read_dialog p b; read_local_volume p b
  else if t =? c_PhotoSizeSourceStickerSetThumbnailLegacy then
    do (p, b) <- read_sticker_set p b; read_local_volume p b
  else if t =? c_PhotoSizeSourceStickerSetThumbnailVersion then
    do (p, b) <- read_sticker_set p b;
    do (v, b) <- wrap (decode_int32 b); Ok (set_version p v, b)
  else Ok (p, b).

(* PhotoSizeSource.decode(b, subVersion) *)
Definition decode_pss (b : list Z) (sub : Z) : res fid_err pss :=
  do (p, b) <- (if sub <? 32 then do (v, b) <- rd_long b; Ok (set_volume pss0 v, b) else Ok (pss0, b));
  if (sub <? 32) && (sub <? 22) then
    do (v, b) <- rd_long b; let p := set_secret p v in
    do (v, b) <- rd_int b; Ok (set_local p v)
  else
    do (t, b) <- (if sub >=? 4 then rd_int b else Ok (0, b));
    if (t <? 0) || (t >=? c_lastPhotoSizeSourceType) then Err FUnknownPss else
    let p := set_type p t in
    do (p, b) <- decode_pss_body p t b;
    if (sub <? 32) && (sub >=? 22) then do (v, b) <- rd_int b; Ok (set_local p v) else Ok p.

(* FileID.decodeLatestFileID *)
Definition decode_latest (b : list Z) : res fid_err file_id :=
  if len b <? 1 then Err (FBody EEOF) else
  do sub <- go_index b (len b - 1);
  do (tid, b) <- wrap (decode_uint32 b);
  let web := negb (Z.land tid c_webLocationFlag =? 0) in
  let ref := negb (Z.land tid c_fileReferenceFlag =? 0) in
  let tid := Z.ldiff (Z.ldiff tid c_webLocationFlag) c_fileReferenceFlag in
  if tid >=? c_lastType then Err FUnknownType else
  do (dc, b) <- wrap (decode_int32 b);          (* dc_id: b.Int32(), f.DC = int(dcID) *)
  do (reference, b) <- (if ref then wrap (decode_bytes b) else Ok ([], b));
  if web then
    do (url, _) <- wrap (decode_string b); Ok (mkFileId tid dc 0 0 reference url pss0)
  else
    do (id, b) <- rd_long b;
    do (hash, b) <- rd_long b;
    if is_photo_type tid then
      do p <- decode_pss b sub; Ok (mkFileId tid dc id hash reference [] p)
    else Ok (mkFileId tid dc id hash reference [] pss0).

(* DecodeFileID *)
Definition decode_file_id (s : list Z) : res fid_err file_id :=
  if len s =? 0 then Err FEmpty else
  match b64_decode s with
  | None => Err FBase64
  | Some data =>
    let data := rle_decode data in
    if len data <? 2 then Err FTooSmall else
    do version <- go_index data (len data - 1);
    if (version =? c_persistentIDVersionOld) || (version =? c_persistentIDVersionMap) then Err FUnsupported
    else if version =? c_persistentIDVersion then
      do d <- go_slice data 0 (len data - 1); decode_latest d
    else Err FUnknownVersion
  end.
