(* Model of proto/message_id.go (MessageIDGen, MessageID.Time/Type) and of
   mtproto/write.go:nextMsgSeq.  C08 (outgoing ids and seqnos) and the id-related parts of C07.

   The arithmetic is NOT hand-written: gen_new_go, new_message_id_go, message_type_go and
   next_msg_seq_go are regenerated from /repo by xlate on every run (Gen/MsgIdGen.v); this
   file only threads the state through call sequences.  Integers are unbounded Z: the Go
   values are int64 (ids, nanoseconds) and int32 (seqno); the model equals the code while
   the clock is below 2^31 s (year 2038, where `intPart << 32` leaves int64) and fewer than
   2^30 content messages were sent (int32 seqno) -- both stated where they matter.
   Definitions only. *)
From Coq Require Import ZArith List Bool.
From TD Require Import Gen.MsgIdGen.
Import ListNotations.
Open Scope Z_scope.

(* ---- MessageIDGen.New for client ids: state = g.nano, input = one clock reading (ns) ---- *)
Definition gen_new (st clock : Z) : Z * Z := gen_new_go st clock c_MessageFromClient.

(* ids produced for a sequence of clock readings, starting from state st *)
Fixpoint gen_run (st : Z) (clocks : list Z) : list Z :=
  match clocks with
  | [] => []
  | c :: t => let '(id, st') := gen_new st c in id :: gen_run st' t
  end.
(* NewMessageIDGen: nano = 0 *)
Definition gen_init : Z := 0.

(* ---- the creation time used by the acceptance window: mtproto.messageIDCreated (read.go),
        time.Unix(sec, nsec) with both parts regenerated from the source (Gen/MsgIdGen.v), as
        unix nanoseconds.  It reads the low word as a binary fraction of a second (fixes
        ad4102cfc + bf52a6466). ---- *)
Definition id_time_lib (id : Z) : Z := id_time_sec_go id * 1000000000 + id_time_nsec_go id.

(* proto.MessageID.Time(), used only for display (String, log lines): low word read as int32
   NANOSECONDS; also regenerated from the source. *)
Definition id_time_display (id : Z) : Z := msgid_time_sec_go id * 1000000000 + msgid_time_nsec_go id.

(* the specification's reading of an id: unixtime * 2^32, i.e. id / 2^32 seconds as a
   rational.  To stay in Z it is kept scaled: (spec nanoseconds) * 2^32. *)
Definition id_time_spec_scaled (id : Z) : Z :=
  (id / 4294967296) * 1000000000 * 4294967296 + (id mod 4294967296) * 1000000000.

(* what newMessageID WRITES: seconds in the high word and the NANOSECONDS of the second
   (rounded to a multiple of 4, plus the type bits) in the low word.  This is the reading under
   which a client id reproduces the clock reading it was made from. *)
Definition id_time_enc (id : Z) : Z := (id / 4294967296) * 1000000000 + id mod 4294967296.

(* ---- C08 specification predicates (statement vocabulary, no code) ----
   one generation step: tprev = time encoded by the previous id (0 before the first),
   c = the clock reading of this call, id = the produced id. *)
Definition step_ok (tprev c id : Z) : Prop :=
  id mod 4 = 0 /\
  tprev < id_time_enc id /\
  c <= id_time_enc id + 3 /\
  id_time_enc id <= Z.max c (tprev + 13).

Fixpoint good_from (tprev : Z) (l : list (Z * Z)) : Prop :=
  match l with
  | [] => True
  | (c, id) :: t => step_ok tprev c id /\ good_from (id_time_enc id) t
  end.

(* ---- nextMsgSeq: state = sentContentMessages ---- *)
Definition next_seq (sent : Z) (content : bool) : Z * Z :=
  let '(_, seq, sent') := next_msg_seq_go sent content in (seq, sent').
Fixpoint seq_run (sent : Z) (kinds : list bool) : list Z :=
  match kinds with
  | [] => []
  | k :: t => let '(s, sent') := next_seq sent k in s :: seq_run sent' t
  end.

Fixpoint count_true (l : list bool) : Z :=
  match l with [] => 0 | b :: t => (if b then 1 else 0) + count_true t end.
