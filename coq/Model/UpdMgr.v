(* Model of telegram/updates at the Manager level (C02, C03, manager-level C01): the routing
   of internalState / channelState AS REPAIRED by the fix: commits 6065f08e5, 1f8c800bf,
   3ce78403e (state.go, state_apply.go, state_channel.go), on top of the sequenceBox model
   (Model/SeqBox.v, whose checkGap is generated).  Definitions only.

   Sequences are numbered like in the harness: 0 = common pts, 1 = qts, 2+i = pts of tracked
   channel i; -1 = no sequence (plain update).  The server owns a finite log and answers
   getDifference / getChannelDifference from it (whole, sliced, or too long, by
   configuration) relative to a visible horizon [vis] that every operation carries.

   What one operation does (each is processed to quiescence, as the harness does):
     MPushC       one update container (seq = 0: applyCombined directly; seq > 0: through the
                  seq box, applySeq applies the accepted containers in order); applyCombined:
                  sortUpdatesByPts, then pts -> pts box, qts -> qts box, channel -> that
                  channel's box (in reality on the channel goroutine), plain updates dispatched
                  at the end; box apply = dispatch, then Set*Pts; updatePtsChanged in an
                  applied container -> getDifference afterwards
     MTooLong / MTimerCommon     internalState.getDifference (recursive on slice / too long)
     MChanTooLong / MTimerChan   channelState.getDifference (recursive while not final)
     MStartup     startup getDifference + channel-subscribe getDifference of every channel
   Trace alphabet: Deliver seq id | Persist seq value | TooLong seq from to (the callback, with
   the position range (from, to] the too-long answer skips), in program order of the
   goroutine that owns the sequence (the real interleaving ACROSS sequences differs; every
   statement below is per sequence and insensitive to it).
   The seq sequence is box -2 (numbered containers, applySeq, updatePtsChanged); a channel
   that has no storage record yet becomes tracked by its first pushed update
   (handleChannel: SetChannelPts(pts - count), new worker, channel-subscribe difference).
   Not modelled: dates (all pushes carry date = 0), access-hash bookkeeping (peers known),
   a first update of an untracked channel that does not start at that channel's base
   (ignored), qts = 0 direct dispatch, the diffTimeout wait and sendOut's dropping of queued
   channel updates, affectedPts. *)
From Coq Require Import ZArith List Bool.
From TD Require Import Gen.GapCheck Model.SeqBox.
Import ListNotations.
Open Scope Z_scope.

Record entry := { eid : Z; ekind : Z; eseq : Z; epos : Z; ecnt : Z }.
(* kinds: 0 Msg, 1 Other(pts), 2 Enc, 3 QOther(qts), 4 CMsg, 5 COther, 6 Plain;
   even kinds < 6 travel in a difference's new_messages, odd ones in other_updates *)
Definition is_msg (e : entry) : bool := (ekind e =? 0) || (ekind e =? 2) || (ekind e =? 4).
Definition upd_of (e : entry) : upd :=
  {| uid := eid e; ust := epos e; ucnt := if eseq e =? 1 then 1 else ecnt e |}.   (* handleQts: Count 1 *)
(* the affectedPts marker of Manager.HandleAffected for the entry that is our own action: same
   position and count, nothing to dispatch (negative uid) *)
Definition mark_of (e : entry) : upd :=
  {| uid := - eid e - 1; ust := epos e; ucnt := if eseq e =? 1 then 1 else ecnt e |}.

Record config := {
  nseq : Z;                 (* sequences 0 .. nseq-1 exist (2 + number of channels) *)
  base : Z -> Z;            (* initially persisted = initial local position; for a channel without
                               storage record: the start of the first update pushed for it *)
  tracked0 : Z -> bool;     (* channels with a storage record and a worker at startup *)
  dormant : Z -> bool;      (* channels with a storage record but no worker at startup (their
                               access hash was missing when the state was loaded) *)
  (* the server's policy, arbitrary functions of the log, the horizon and the request:
     cutf log vis reqp reqq = (intermediate pts, intermediate qts, sliced?) of a common difference,
     tlf vis reqp           = answer updates.differenceTooLong?
     ccutf s pending vis_s  = (pts, not final?) of a channel difference,
     ctlf s vis_s req       = answer updates.channelDifferenceTooLong?
     Every answer carries exactly the log entries in (request, cut]: messages as new_messages,
     the rest as other_updates (the split is fixed by the TL schema). *)
  cutf : list entry -> (Z -> Z) -> Z -> Z -> Z * Z * bool;
  tlf : (Z -> Z) -> Z -> bool;
  ccutf : Z -> list entry -> Z -> Z * bool;
  ctlf : Z -> Z -> Z -> bool
}.
Definition SEQ : Z := -2.   (* key of the seq box; the server's seq horizon is vis (nseq c) *)

Inductive tev :=
| Deliver (s id : Z)
| Persist (s v : Z)
| TooLong (s from to : Z)
| Skip (s id : Z).      (* the position range of entry id was consumed by the result of our own
                           action (a messages.affected result): applyPts advances over the marker
                           without dispatching anything; not observable at the handler *)

Record mgr := { mbox : Z -> box; mtr : list tev; moof : bool;
                mtracked : Z -> bool;                          (* channel workers that exist *)
                mconts : list (Z * (list Z * bool)) }.          (* contents of the containers seen *)
Definition set_box (m : mgr) (s : Z) (b : box) : mgr :=
  {| mbox := fun s' => if s' =? s then b else mbox m s'; mtr := mtr m; moof := moof m;
     mtracked := mtracked m; mconts := mconts m |}.
Definition emit (m : mgr) (evs : list tev) : mgr :=
  {| mbox := mbox m; mtr := mtr m ++ evs; moof := moof m; mtracked := mtracked m; mconts := mconts m |}.
Definition set_oof (m : mgr) : mgr :=
  {| mbox := mbox m; mtr := mtr m; moof := true; mtracked := mtracked m; mconts := mconts m |}.
Definition set_tracked (m : mgr) (s : Z) : mgr :=
  {| mbox := mbox m; mtr := mtr m; moof := moof m;
     mtracked := fun s' => if s' =? s then true else mtracked m s'; mconts := mconts m |}.
Definition add_cont (m : mgr) (cid : Z) (ids : list Z) (p : bool) : mgr :=
  {| mbox := mbox m; mtr := mtr m; moof := moof m; mtracked := mtracked m;
     mconts := (cid, (ids, p)) :: mconts m |}.
Definition mgr_init (c : config) : mgr :=
  {| mbox := fun s => box_init (if s =? SEQ then 0 else base c s); mtr := []; moof := false;
     mtracked := tracked0 c; mconts := [] |}.

(* apply callback of the box of sequence s: dispatch, then SetPts / SetQts / SetChannelPts
   (applyQts does not store a zero qts) *)
Definition evs_trace (s : Z) (evs : list bev) : list tev :=
  flat_map (fun ev => match ev with
                      | Dlv st us => map (fun u => if uid u <? 0 then Skip s (- uid u - 1) else Deliver s (uid u)) us ++
                                     (if (s =? 1) && (st =? 0) then [] else [Persist s st])
                      | Pnc => []
                      end) evs.

(* ---- generic stable insertion sort by an integer key ---- *)
Section Isort.
  Context {A : Type} (key : A -> Z).
  Fixpoint ins_key (x : A) (l : list A) : list A :=
    match l with
    | [] => [x]
    | y :: t => if key x <? key y then x :: y :: t else y :: ins_key x t
    end.
  Definition isort (l : list A) : list A := fold_left (fun acc x => ins_key x acc) l [].
End Isort.

(* ---- the server oracle ---- *)
Definition pend (log : list entry) (s from to : Z) : list entry :=
  isort epos (filter (fun e => (eseq e =? s) && (from <? epos e) && (epos e <=? to)) log).

Definition dflt_entry : entry := {| eid := 0; ekind := 6; eseq := -1; epos := 0; ecnt := 0 |}.
(* channel difference: (cut, sliced); with a limit, the position of the lim-th pending entry *)
Definition slice_cut (lim : Z) (pp : list entry) (vis : Z) : Z * bool :=
  if (0 <? lim) && (lim <? Z.of_nat (length pp))
  then (epos (nth (Z.to_nat (lim - 1)) pp dflt_entry), true)
  else (vis, false).
(* common difference: the pending pts and qts entries in log (publication) order; a slice is
   a prefix of lim entries of that list, the intermediate state is the highest position taken *)
Definition in_range (vis : Z -> Z) (reqp reqq : Z) (e : entry) : bool :=
  ((eseq e =? 0) && (reqp <? epos e) && (epos e <=? vis 0)) ||
  ((eseq e =? 1) && (reqq <? epos e) && (epos e <=? vis 1)).
Definition max_pos (s : Z) (d : Z) (l : list entry) : Z :=
  fold_left (fun acc e => if eseq e =? s then Z.max acc (epos e) else acc) l d.
Definition slice_cut2 (lim : Z) (log : list entry) (vis : Z -> Z) (reqp reqq : Z) : Z * Z * bool :=
  let mg := filter (in_range vis reqp reqq) log in
  if (0 <? lim) && (lim <? Z.of_nat (length mg))
  then let pre := firstn (Z.to_nat lim) mg in (max_pos 0 reqp pre, max_pos 1 reqq pre, true)
  else (vis 0, vis 1, false).

(* the policy of the harness's fake server: limits and thresholds *)
Definition std_config (n : Z) (b : Z -> Z) (tr dm : Z -> bool) (sl tl csl ctl : Z) : config :=
  {| nseq := n; base := b; tracked0 := tr; dormant := dm;
     cutf := fun log vis rp rq => slice_cut2 sl log vis rp rq;
     tlf := fun vis rp => (0 <? tl) && (vis 0 - rp >? tl);
     ccutf := fun _ pp v => slice_cut csl pp v;
     ctlf := fun _ v req => (0 <? ctl) && (v - req >? ctl) |}.

Definition set_state (m : mgr) (s v : Z) : mgr :=
  set_box m s (fst (step (mbox m s) (SeqBox.SetState v))).
Definition clear_gaps (m : mgr) (s : Z) : mgr :=
  set_box m s (fst (step (mbox m s) ClearGaps)).
Definition delivers (es : list entry) : list tev := map (fun e => Deliver (eseq e) (eid e)) es.

(* internalState.getDifference *)
Fixpoint get_diff (fuel : nat) (c : config) (log : list entry) (vis : Z -> Z) (m : mgr) : mgr :=
  match fuel with
  | O => set_oof m
  | S f =>
    let m := clear_gaps (clear_gaps (clear_gaps m 0) 1) SEQ in
    let reqp := bstate (mbox m 0) in
    let reqq := bstate (mbox m 1) in
    let pp := pend log 0 reqp (vis 0) in
    let qq := pend log 1 reqq (vis 1) in
    match pp ++ qq with
    | [] => set_state m SEQ (vis (nseq c))                     (* updates.differenceEmpty *)
    | _ :: _ =>
      if tlf c vis reqp then                                    (* updates.differenceTooLong *)
        let m := emit m [TooLong 0 reqp (vis 0); Persist 0 (vis 0)] in
        get_diff f c log vis (set_state m 0 (vis 0))
      else
        let '(cut, cutq, sliced) := cutf c log vis reqp reqq in
        let pp' := pend log 0 reqp cut in
        let qq' := pend log 1 reqq cutq in
        let others := filter (fun e => negb (is_msg e)) pp' ++ filter (fun e => negb (is_msg e)) qq' in
        let msgs := filter is_msg pp' ++ filter is_msg qq' in
        (* other_updates dispatched directly, then new messages, then storage.SetState, then setState *)
        let m := emit m (delivers others ++ delivers msgs ++ [Persist 0 cut; Persist 1 cutq]) in
        let m := set_state (set_state (set_state m 0 cut) 1 cutq) SEQ (vis (nseq c)) in
        if sliced then get_diff f c log vis m else m
    end
  end.

(* channelState.getDifference for sequence s >= 2 *)
Fixpoint chan_diff (fuel : nat) (c : config) (log : list entry) (vis : Z -> Z) (s : Z) (m : mgr) : mgr :=
  match fuel with
  | O => set_oof m
  | S f =>
    let m := clear_gaps m s in
    let req := bstate (mbox m s) in
    let pp := pend log s req (vis s) in
    match pp with
    | [] => set_state (emit m [Persist s (vis s)]) s (vis s)          (* channelDifferenceEmpty *)
    | _ :: _ =>
      if ctlf c s (vis s) req then                                      (* channelDifferenceTooLong *)
        set_state (emit m [TooLong s req (vis s); Persist s (vis s)]) s (vis s)
      else
        let '(cut, sliced) := ccutf c s pp (vis s) in
        let pp' := pend log s req cut in
        let m := emit m (delivers (filter (fun e => negb (is_msg e)) pp') ++ delivers (filter is_msg pp')
                         ++ [Persist s cut]) in
        let m := set_state m s cut in
        if sliced then chan_diff f c log vis s m else m
    end
  end.

Definition fuel_of (log : list entry) : nat := S (S (S (length log))).

(* ---- applyCombined (fromDifference = false) ---- *)
(* sortUpdatesByPts: plain first, common pts by start, qts by qts, channels by (id, start);
   positions in the harness are far below 2^20 *)
Definition route_key (e : entry) : Z :=
  if eseq e <? 0 then 0
  else if eseq e =? 0 then 1048576 + (epos e - ecnt e)
  else if eseq e =? 1 then 2 * 1048576 + epos e
  else (1 + eseq e) * 1048576 + (epos e - ecnt e).

Definition box_upd (m : mgr) (s : Z) (u : upd) : mgr :=
  let '(b', evs) := handle (mbox m s) u in
  emit (set_box m s b') (evs_trace s evs).
Definition box_item (m : mgr) (s : Z) (e : entry) : mgr := box_upd m s (upd_of e).

(* Manager.HandleAffected(channel, pts, count) for the log entry id: internalState.handleAffected
   feeds the marker to the pts box; for a channel with a worker, to that channel's box (on the
   worker goroutine); a channel without worker: ignored *)
Definition affected (c : config) (m : mgr) (e : entry) : mgr :=
  let s := eseq e in
  if (s =? 0) || ((2 <=? s) && (s <? nseq c) && mtracked m s) then box_upd m s (mark_of e) else m.

Definition push_item (c : config) (log : list entry) (vis : Z -> Z) (m : mgr) (e : entry) : mgr :=
  let s := eseq e in
  if (0 <=? s) && (s <? nseq c) then
    if (s <? 2) || mtracked m s then box_item m s e
    else if dormant c s then
      (* handleChannel, record found: worker from the stored pts, channel-subscribe difference,
         then the update itself *)
      box_item (chan_diff (fuel_of log) c log vis s (set_tracked m s)) s e
    else if ustart (upd_of e) =? base c s then
      (* handleChannel, no record yet: SetChannelPts(pts - count), new worker, channel-subscribe
         difference, then the update itself *)
      let m := set_tracked (emit m [Persist s (base c s)]) s in
      box_item (chan_diff (fuel_of log) c log vis s m) s e
    else m            (* not modelled *)
  else m.             (* plain: collected and dispatched last; unknown channel: not modelled *)

Definition find_entry (log : list entry) (id : Z) : list entry :=
  match find (fun e => eid e =? id) log with Some e => [e] | None => [] end.

Definition push (c : config) (log : list entry) (vis : Z -> Z) (m : mgr) (ids : list Z) : mgr :=
  let items := isort route_key (flat_map (find_entry log) ids) in
  let m1 := fold_left (push_item c log vis) items m in
  emit m1 (map (fun e => Deliver (-1) (eid e)) (filter (fun e => eseq e <? 0) items)).

(* ---- one pushed container ---- *)
Definition cont_of (m : mgr) (cid : Z) : list Z * bool :=
  match find (fun x => fst x =? cid) (mconts m) with Some x => snd x | None => ([], false) end.
Definition dlv_upds (evs : list bev) : list upd :=
  flat_map (fun ev => match ev with Dlv _ us => us | Pnc => [] end) evs.

(* everything handleSeq / applySeq do before the optional getDifference:
   (manager after applying the accepted containers, recover?, final seq box) *)
Definition pushc_apply (c : config) (log : list entry) (vis : Z -> Z) (m : mgr)
           (cid sq : Z) (ids : list Z) (p : bool) : mgr * bool * option box :=
  if sq =? 0 then (push c log vis m ids, p, None)
  else
    let m := add_cont m cid ids p in
    let '(sb, evs) := handle (mbox m SEQ) {| uid := cid; ust := sq; ucnt := 1 |} in
    let us := dlv_upds evs in
    let m1 := fold_left (fun m u => push c log vis m (fst (cont_of m (uid u)))) us m in
    (m1, existsb (fun u => snd (cont_of m (uid u))) us, Some sb).

Inductive mop :=
| MPushC (vis : Z -> Z) (cid sq : Z) (ids : list Z) (p : bool)
| MTooLong (vis : Z -> Z)
| MChanTooLong (vis : Z -> Z) (s : Z)
| MTimerCommon (vis : Z -> Z)
| MTimerChan (vis : Z -> Z) (s : Z)
| MStartup (vis : Z -> Z)
| MFailCommon (vis : Z -> Z)             (* a getDifference whose RPC fails: gaps cleared, nothing else *)
| MFailChan (vis : Z -> Z) (s : Z)       (* a channel getDifference whose RPC fails *)
| MAffected (vis : Z -> Z) (id : Z).     (* Manager.HandleAffected for log entry id *)

Definition chan_seqs (c : config) : list Z := map (fun i => 2 + Z.of_nat i) (seq 0 (Z.to_nat (nseq c - 2))).

Definition mstep (c : config) (log : list entry) (m : mgr) (o : mop) : mgr :=
  match o with
  | MPushC vis cid sq ids p =>
    let '(m1, recover, sb) := pushc_apply c log vis m cid sq ids p in
    let m2 := if recover then get_diff (fuel_of log) c log vis m1 else m1 in
    match sb with Some b => set_box m2 SEQ b | None => m2 end       (* box.setState after apply returned *)
  | MTooLong vis | MTimerCommon vis => get_diff (fuel_of log) c log vis m
  | MChanTooLong vis s | MTimerChan vis s =>
    if (2 <=? s) && (s <? nseq c) && mtracked m s then chan_diff (fuel_of log) c log vis s m else m
  | MStartup vis =>
    fold_left (fun m s => chan_diff (fuel_of log) c log vis s m) (filter (tracked0 c) (chan_seqs c))
              (get_diff (fuel_of log) c log vis m)
  | MFailCommon _ => clear_gaps (clear_gaps (clear_gaps m 0) 1) SEQ
  | MFailChan _ s => if (2 <=? s) && (s <? nseq c) && mtracked m s then clear_gaps m s else m
  | MAffected _ id => fold_left (affected c) (find_entry log id) m
  end.
Definition mrun (c : config) (log : list entry) (ops : list mop) : mgr :=
  fold_left (mstep c log) ops (mgr_init c).

(* ---- specification vocabulary ---- *)
(* last persisted value of sequence s after a trace prefix *)
Definition persisted (c : config) (s : Z) (tr : list tev) : Z :=
  fold_left (fun acc ev => match ev with Persist s' v => if s' =? s then v else acc | _ => acc end) tr (base c s).
Definition accounted (s : Z) (e : entry) (tr : list tev) : Prop :=
  In (Deliver s (eid e)) tr \/ In (Skip s (eid e)) tr \/ exists f t, In (TooLong s f t) tr /\ f < epos e <= t.
(* C03: the persisted position of s covers only entries already delivered or reported too long *)
Definition safe_at (c : config) (log : list entry) (tr : list tev) : Prop :=
  forall s e, In e log -> eseq e = s -> 0 <= s -> base c s < epos e <= persisted c s tr -> accounted s e tr.
Definition seq_delivers (tr : list tev) : list (Z * Z) :=
  flat_map (fun ev => match ev with Deliver s id => if 0 <=? s then [(s, id)] else [] | _ => [] end) tr.
