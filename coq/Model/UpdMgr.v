(* Model of telegram/updates at the Manager level (C02, C03, manager-level C01): the routing
   of internalState / channelState AS REPAIRED by the fix: commits 6065f08e5, 1f8c800bf,
   3ce78403e (state.go, state_apply.go, state_channel.go), on top of the sequenceBox model
   (Model/SeqBox.v, whose checkGap is generated).  Definitions only.

   Sequences are numbered like in the harness: 0 = common pts, 1 = qts, 2+i = pts of tracked
   channel i; -1 = no sequence (plain update).  The server owns a finite log and answers
   getDifference / getChannelDifference from it (whole, sliced, or too long, by
   configuration) relative to a visible horizon [vis] that every operation carries.

   What one operation does (each is processed to quiescence, as the harness does):
     MPush        applyCombined: sortUpdatesByPts, then pts -> pts box, qts -> qts box,
                  channel -> that channel's box (in reality on the channel goroutine),
                  plain updates dispatched at the end; box apply = dispatch, then Set*Pts
     MTooLong / MTimerCommon     internalState.getDifference (recursive on slice / too long)
     MChanTooLong / MTimerChan   channelState.getDifference (recursive while not final)
     MStartup     startup getDifference + channel-subscribe getDifference of every channel
   Trace alphabet: Deliver seq id | Persist seq value | TooLong seq, in program order of the
   goroutine that owns the sequence (the real interleaving ACROSS sequences differs; every
   statement below is per sequence and insensitive to it).
   Not modelled: the seq box and dates (all pushes carry seq = 0, date = 0), access-hash
   bookkeeping (peers known), untracked channels (ignored), qts = 0 direct dispatch, the
   diffTimeout wait and sendOut's dropping of queued channel updates, affectedPts. *)
From Coq Require Import ZArith List Bool.
From TD Require Import Gen.GapCheck Model.SeqBox.
Import ListNotations.
Open Scope Z_scope.

Record entry := { eid : Z; ekind : Z; eseq : Z; epos : Z; ecnt : Z }.
(* kinds: 0 Msg, 1 Other(pts), 2 Enc, 3 QOther(qts), 4 CMsg, 5 COther, 6 Plain;
   even kinds < 6 travel in a difference's new_messages, odd ones in other_updates *)
Definition is_msg (e : entry) : bool := (ekind e =? 0) || (ekind e =? 2) || (ekind e =? 4).
Definition upd_of (e : entry) : upd :=
  {| uid := eid e; ust := epos e; ucnt := if eseq e =? 1 then 1 else ecnt e |}.   (* handleQts: Count 1 *)

Record config := {
  nseq : Z;                 (* sequences 0 .. nseq-1 exist (2 + number of tracked channels) *)
  base : Z -> Z;            (* initially persisted = initial local position *)
  slice_lim : Z; tl_thr : Z; cslice_lim : Z; ctl_thr : Z
}.

Inductive tev := Deliver (s id : Z) | Persist (s v : Z) | TooLong (s : Z).

Record mgr := { mbox : Z -> box; mtr : list tev; moof : bool }.
Definition set_box (m : mgr) (s : Z) (b : box) : mgr :=
  {| mbox := fun s' => if s' =? s then b else mbox m s'; mtr := mtr m; moof := moof m |}.
Definition emit (m : mgr) (evs : list tev) : mgr :=
  {| mbox := mbox m; mtr := mtr m ++ evs; moof := moof m |}.
Definition mgr_init (c : config) : mgr :=
  {| mbox := fun s => box_init (base c s); mtr := []; moof := false |}.

(* apply callback of the box of sequence s: dispatch, then SetPts / SetQts / SetChannelPts
   (applyQts does not store a zero qts) *)
Definition evs_trace (s : Z) (evs : list bev) : list tev :=
  flat_map (fun ev => match ev with
                      | Dlv st us => map (fun u => Deliver s (uid u)) us ++
                                     (if (s =? 1) && (st =? 0) then [] else [Persist s st])
                      | Pnc => []
                      end) evs.

(* ---- generic stable insertion sort by an integer key ---- *)
Section Isort.
  Context {A : Type} (key : A -> Z).
  Fixpoint ins_key (x : A) (l : list A) : list A :=
    match l with
    | [] => [x]
    | y :: t => if key x <? key y then x :: y :: t else y :: ins_key x t
    end.
  Definition isort (l : list A) : list A := fold_left (fun acc x => ins_key x acc) l [].
End Isort.

(* ---- push: applyCombined (fromDifference = false) ---- *)
(* sortUpdatesByPts: plain first, common pts by start, qts by qts, channels by (id, start);
   positions in the harness are far below 2^20 *)
Definition route_key (e : entry) : Z :=
  if eseq e <? 0 then 0
  else if eseq e =? 0 then 1048576 + (epos e - ecnt e)
  else if eseq e =? 1 then 2 * 1048576 + epos e
  else (1 + eseq e) * 1048576 + (epos e - ecnt e).

Definition push_item (c : config) (m : mgr) (e : entry) : mgr :=
  let s := eseq e in
  if (0 <=? s) && (s <? nseq c) then
    let '(b', evs) := handle (mbox m s) (upd_of e) in
    emit (set_box m s b') (evs_trace s evs)
  else m.      (* plain: collected and dispatched last; untracked channel: not modelled *)

Definition find_entry (log : list entry) (id : Z) : list entry :=
  match find (fun e => eid e =? id) log with Some e => [e] | None => [] end.

Definition push (c : config) (log : list entry) (m : mgr) (ids : list Z) : mgr :=
  let items := isort route_key (flat_map (find_entry log) ids) in
  let m1 := fold_left (push_item c) items m in
  emit m1 (map (fun e => Deliver (-1) (eid e)) (filter (fun e => eseq e <? 0) items)).

(* ---- the server oracle ---- *)
Definition pend (log : list entry) (s from to : Z) : list entry :=
  isort epos (filter (fun e => (eseq e =? s) && (from <? epos e) && (epos e <=? to)) log).

Definition dflt_entry : entry := {| eid := 0; ekind := 6; eseq := -1; epos := 0; ecnt := 0 |}.
(* (cut, sliced): with a limit, the position of the lim-th pending entry *)
Definition slice_cut (lim : Z) (pp : list entry) (vis : Z) : Z * bool :=
  if (0 <? lim) && (lim <? Z.of_nat (length pp))
  then (epos (nth (Z.to_nat (lim - 1)) pp dflt_entry), true)
  else (vis, false).

Definition set_state (m : mgr) (s v : Z) : mgr :=
  set_box m s (fst (step (mbox m s) (SeqBox.SetState v))).
Definition clear_gaps (m : mgr) (s : Z) : mgr :=
  set_box m s (fst (step (mbox m s) ClearGaps)).
Definition delivers (es : list entry) : list tev := map (fun e => Deliver (eseq e) (eid e)) es.

(* internalState.getDifference *)
Fixpoint get_diff (fuel : nat) (c : config) (log : list entry) (vis : Z -> Z) (m : mgr) : mgr :=
  match fuel with
  | O => {| mbox := mbox m; mtr := mtr m; moof := true |}
  | S f =>
    let m := clear_gaps (clear_gaps m 0) 1 in
    let reqp := bstate (mbox m 0) in
    let reqq := bstate (mbox m 1) in
    let pp := pend log 0 reqp (vis 0) in
    let qq := pend log 1 reqq (vis 1) in
    match pp ++ qq with
    | [] => m                                                  (* updates.differenceEmpty *)
    | _ :: _ =>
      if (0 <? tl_thr c) && (vis 0 - reqp >? tl_thr c) then     (* updates.differenceTooLong *)
        let m := emit m [TooLong 0; Persist 0 (vis 0)] in
        get_diff f c log vis (set_state m 0 (vis 0))
      else
        let '(cut, sliced) := slice_cut (slice_lim c) pp (vis 0) in
        let pp' := pend log 0 reqp cut in
        let others := filter (fun e => negb (is_msg e)) pp' ++ filter (fun e => negb (is_msg e)) qq in
        let msgs := filter is_msg pp' ++ filter is_msg qq in
        (* other_updates dispatched directly, then new messages, then storage.SetState, then setState *)
        let m := emit m (delivers others ++ delivers msgs ++ [Persist 0 cut; Persist 1 (vis 1)]) in
        let m := set_state (set_state m 0 cut) 1 (vis 1) in
        if sliced then get_diff f c log vis m else m
    end
  end.

(* channelState.getDifference for sequence s >= 2 *)
Fixpoint chan_diff (fuel : nat) (c : config) (log : list entry) (vis : Z -> Z) (s : Z) (m : mgr) : mgr :=
  match fuel with
  | O => {| mbox := mbox m; mtr := mtr m; moof := true |}
  | S f =>
    let m := clear_gaps m s in
    let req := bstate (mbox m s) in
    let pp := pend log s req (vis s) in
    match pp with
    | [] => set_state (emit m [Persist s (vis s)]) s (vis s)          (* channelDifferenceEmpty *)
    | _ :: _ =>
      if (0 <? ctl_thr c) && (vis s - req >? ctl_thr c) then            (* channelDifferenceTooLong *)
        set_state (emit m [TooLong s; Persist s (vis s)]) s (vis s)
      else
        let '(cut, sliced) := slice_cut (cslice_lim c) pp (vis s) in
        let pp' := pend log s req cut in
        let m := emit m (delivers (filter (fun e => negb (is_msg e)) pp') ++ delivers (filter is_msg pp')
                         ++ [Persist s cut]) in
        let m := set_state m s cut in
        if sliced then chan_diff f c log vis s m else m
    end
  end.

Inductive mop :=
| MPush (vis : Z -> Z) (ids : list Z)
| MTooLong (vis : Z -> Z)
| MChanTooLong (vis : Z -> Z) (s : Z)
| MTimerCommon (vis : Z -> Z)
| MTimerChan (vis : Z -> Z) (s : Z)
| MStartup (vis : Z -> Z).

Definition fuel_of (log : list entry) : nat := S (S (length log)).
Definition chan_seqs (c : config) : list Z := map (fun i => 2 + Z.of_nat i) (seq 0 (Z.to_nat (nseq c - 2))).

Definition mstep (c : config) (log : list entry) (m : mgr) (o : mop) : mgr :=
  match o with
  | MPush _ ids => push c log m ids
  | MTooLong vis | MTimerCommon vis => get_diff (fuel_of log) c log vis m
  | MChanTooLong vis s | MTimerChan vis s =>
    if (2 <=? s) && (s <? nseq c) then chan_diff (fuel_of log) c log vis s m else m
  | MStartup vis =>
    fold_left (fun m s => chan_diff (fuel_of log) c log vis s m) (chan_seqs c)
              (get_diff (fuel_of log) c log vis m)
  end.
Definition mrun (c : config) (log : list entry) (ops : list mop) : mgr :=
  fold_left (mstep c log) ops (mgr_init c).

(* ---- specification vocabulary ---- *)
(* last persisted value of sequence s after a trace prefix *)
Definition persisted (c : config) (s : Z) (tr : list tev) : Z :=
  fold_left (fun acc ev => match ev with Persist s' v => if s' =? s then v else acc | _ => acc end) tr (base c s).
Definition accounted (s : Z) (e : entry) (tr : list tev) : Prop :=
  In (Deliver s (eid e)) tr \/ In (TooLong s) tr.
(* C03: the persisted position of s covers only entries already delivered or reported too long *)
Definition safe_at (c : config) (log : list entry) (tr : list tev) : Prop :=
  forall s e, In e log -> eseq e = s -> 0 <= s -> base c s < epos e <= persisted c s tr -> accounted s e tr.
Definition seq_delivers (tr : list tev) : list (Z * Z) :=
  flat_map (fun ev => match ev with Deliver s id => if 0 <=? s then [(s, id)] else [] | _ => [] end) tr.
