(* Model of the MTProto transport codecs (proto/codec/*.go) and of the server-side codec
   detection (transport/detect_codec.go), as the code is after the fix commits recorded in
   known_findings.jsonl (C16, C17).

   A byte stream is a [list Z]; [io.ReadFull(r, buf)] delivers exactly len(buf) bytes or an
   error, independent of how the stream is chunked (trusted-base fact, exercised by the
   harness with a random-chunk reader).  Every constant, limit and comparison below comes
   from Gen/CodecConsts.v, which xlate regenerates from /repo on every run.

   Reads return [(alloc, outcome)]: [alloc] is the largest length the receive buffer
   (bin.Buffer.Buf) is grown to during the call. *)
From Coq Require Import ZArith List Bool Lia.
From TD Require Import Lib.Bytes Lib.GoSem Lib.RunLib Gen.CodecConsts.
Import ListNotations.
Open Scope Z_scope.

Definition bytes := list Z.
Definition zlen (l : bytes) : Z := Z.of_nat (length l).
Definition wrap32 := wrap_s32_CodecConsts.

Inductive codec := Abridged | Intermediate | Padded | Full.

Inductive cerr :=
| EEof                 (* io.EOF: the stream ended before the first byte of a ReadFull *)
| EUnexpEof            (* io.ErrUnexpectedEOF *)
| EInvalidLen (n : Z)  (* invalidMsgLenErr{n} *)
| EAlign               (* alignedPayloadExpectedErr *)
| ESeq                 (* errSeqNoMismatch *)
| ECrc                 (* errCRCMismatch *)
| EProto (code : Z)    (* *ProtocolErr{Code} *)
| EHeader.             (* ErrProtocolHeaderMismatch *)

(* io.ReadFull(r, buf) with len(buf) = k on the remaining stream s *)
Definition read_full (k : Z) (s : bytes) : res cerr (bytes * bytes) :=
  if k <=? 0 then Ok ([], s)
  else if k <=? zlen s then Ok (firstn (Z.to_nat k) s, skipn (Z.to_nat k) s)
  else match s with [] => Err EEof | _ => Err EUnexpEof end.

(* bin.Buffer.Int / Uint32 on a buffer: 4 little-endian bytes or io.ErrUnexpectedEOF *)
Definition buf_u32 (b : bytes) : res cerr (Z * bytes) :=
  if zlen b <? c_Word then Err EUnexpEof else Ok (le_dec (firstn 4 b), skipn 4 b).
Definition buf_int (b : bytes) : res cerr (Z * bytes) :=
  do (v, r) <- buf_u32 b; Ok (to_signed 32 v, r).

(* checkProtocolError: a 4-byte frame is a transport error code, reported negated (int32) *)
Definition check_proto (p : bytes) : res cerr bytes :=
  if not_proto_err_go (zlen p) then Ok p
  else do (code, _) <- buf_int p; Err (EProto (wrap32 (- code))).

(* readLen: also returns the four raw length bytes (they stay in the buffer) *)
Definition read_len (s : bytes) : res cerr (Z * bytes * bytes) :=
  do (h, s1) <- read_full c_Word s;
  let n := le_dec h in
  if readlen_bad_go n then Err (EInvalidLen n) else Ok (n, h, s1).

(* make([]byte, n) as far as it matters here: panics for n < 0 (GoSem.go_make also builds the
   zero-filled list, which the call-by-value VM would materialise for 16 MiB lengths) *)
Definition make_len (n : Z) : res cerr Z := if n <? 0 then Panic else Ok n.

Definition rd := (Z * res cerr (bytes * bytes))%type.   (* alloc, (payload, rest of stream) *)

Definition finish (r : res cerr (bytes * bytes)) : res cerr (bytes * bytes) :=
  do (p, s) <- r; do q <- check_proto p; Ok (q, s).

(* ---- abridged ---- *)
Definition read_abridged (s : bytes) : rd :=
  match read_full 1 s with
  | Ok (h1, s1) =>
    let b0 := hd 0 h1 in
    match (if abridged_long_go b0 then read_full 3 s1 else Ok ([b0], s1)) with
    | Ok (h, s2) =>
      (* b.Int(): h followed by zero bytes, top byte 0, so the int32 is non-negative *)
      let n := le_dec h in
      if abridged_bad_go n then (c_Word, Err (EInvalidLen (abridged_bytes_go n)))
      else
        let k := abridged_bytes_go n in              (* b.ResetN(n << 2) *)
        (Z.max c_Word k, finish (read_full k s2))
    | Err e => (c_Word, Err e)
    | Panic => (c_Word, Panic)
    end
  | Err e => (c_Word, Err e)
  | Panic => (c_Word, Panic)
  end.

(* ---- intermediate / padded intermediate ---- *)
Definition read_inter_raw (padding : bool) (s : bytes) : rd :=
  match read_len s with
  | Ok (n, _, s1) =>
    (Z.max c_Word n,                                  (* b.ResetN(n) *)
     do (p, s2) <- read_full n s1;
     do p1 <- (if padding then go_slice p 0 (n - pad_strip_go n) else Ok p);
     Ok (p1, s2))
  | Err e => (c_Word, Err e)
  | Panic => (c_Word, Panic)
  end.
Definition read_intermediate (s : bytes) : rd :=
  let '(a, r) := read_inter_raw false s in (a, finish r).
Definition read_padded (s : bytes) : rd :=
  let '(a, r) := read_inter_raw true s in
  (a, finish (do (p, s2) <- r;
              do p2 <- go_slice p 0 (zlen p - Z.rem (zlen p) 4);   (* readPaddedIntermediate *)
              Ok (p2, s2))).

Section WithCrc.
Variable crc : bytes -> Z.     (* hash/crc32.ChecksumIEEE *)

(* ---- full ---- *)
Definition read_fullc (seq : Z) (s : bytes) : rd :=
  match read_len s with
  | Ok (n, h, s1) =>
    if full_short_go n then (c_Word, Err (EInvalidLen n))
    else
      (* b.PutInt(n); b.Expand(n - Word): the buffer is h ++ 4 bytes ++ (n-4) zero bytes *)
      match make_len (n - c_Word) with
      | Ok _ =>
        (n + c_Word,
         do (inner, s2) <- read_full (n - c_Word) s1;        (* inner = b.Buf[Word:n] *)
         do (srv, inner1) <- buf_int inner;                  (* inner.Int() *)
         if full_seq_bad_go srv seq then Err ESeq
         else
           let pl := full_payload_len_go n in
           do inner2 <- go_slice inner1 pl (zlen inner1);     (* inner.Skip(payloadLength) *)
           do (c, _) <- buf_u32 inner2;                      (* inner.Uint32() *)
           do crcin <- go_slice (h ++ inner) 0 (n - c_Word);  (* b.Buf[0 : n-Word] *)
           if negb (c =? crc crcin) then Err ECrc
           else
             do p <- go_slice inner1 0 pl;                    (* copy + b.Buf[:payloadLength] *)
             do q <- check_proto p;
             Ok (q, s2))
      | Err e => (2 * c_Word, Err e)
      | Panic => (2 * c_Word, Panic)
      end
  | Err e => (c_Word, Err e)
  | Panic => (c_Word, Panic)
  end.

Definition read_c (c : codec) (seq : Z) (s : bytes) : rd :=
  match c with
  | Abridged => read_abridged s
  | Intermediate => read_intermediate s
  | Padded => read_padded s
  | Full => read_fullc seq s
  end.

(* ---- writers. [seq] is the frame number (used by Full only), [rnd] the four bytes the
   padded intermediate writer takes from the random source ---- *)
Definition write_c (c : codec) (seq : Z) (rnd : bytes) (p : bytes) : res cerr bytes :=
  let l := zlen p in
  if outgoing_bad_go l then Err (EInvalidLen l)                      (* checkOutgoingMessage *)
  else match c with
  | Full =>
    if full_wire_bad_go (full_wire_len_go l) then Err (EInvalidLen (full_wire_len_go l))
    else
      let body := le_enc 4 (full_frame_len_go l) ++ le_enc 4 seq ++ p in
      Ok (body ++ le_enc 4 (crc body))
  | Abridged =>
    if align_bad_go l 4 then Err EAlign
    else
      let w := abridged_words_go l in
      if abridged_short_go w then Ok ((w mod 256) :: p)
      else Ok (127 :: le_enc 3 w ++ p)
  | Intermediate =>
    if align_bad_go l 4 then Err EAlign else Ok (le_enc 4 l ++ p)
  | Padded =>
    if align_bad_go l 4 then Err EAlign
    else
      let n := pad_len_go (last p 0) in
      if padded_wire_bad_go l n then Err (EInvalidLen (l + n))
      else Ok (le_enc 4 (l + n) ++ p ++ firstn (Z.to_nat n) rnd)
  end.

(* a sequence of Write calls on one codec value: frame numbers count up from [seq] *)
Fixpoint write_all (c : codec) (seq : Z) (rnd : Z -> bytes) (ps : list bytes) : res cerr bytes :=
  match ps with
  | [] => Ok []
  | p :: t => do f <- write_c c seq (rnd seq) p; do r <- write_all c (seq + 1) rnd t; Ok (f ++ r)
  end.

(* Read calls until the first error; every call uses the next frame number *)
Inductive stop := StopErr (e : cerr) | StopPanic | StopFuel.
Fixpoint read_stream (c : codec) (seq : Z) (fuel : nat) (s : bytes) : list bytes * stop :=
  match fuel with
  | O => ([], StopFuel)
  | S f =>
    match snd (read_c c seq s) with
    | Ok (p, s') => let '(ps, st) := read_stream c (seq + 1) f s' in (p :: ps, st)
    | Err e => ([], StopErr e)
    | Panic => ([], StopPanic)
    end
  end.

End WithCrc.

(* ---- protocol tags and the server-side detection ---- *)
Definition header (c : codec) : bytes :=
  match c with
  | Abridged => v_AbridgedClientStart
  | Intermediate => v_IntermediateClientStart
  | Padded => v_PaddedIntermediateClientStart
  | Full => []
  end.

(* Codec.ReadHeader *)
Definition read_header (c : codec) (s : bytes) : res cerr bytes :=
  match c with
  | Full => Ok s
  | _ => do (h, s1) <- read_full (zlen (header c)) s;
         if zlist_eqb h (header c) then Ok s1 else Err EHeader
  end.

(* detectCodec: returns the codec and the stream the codec will read from *)
Definition detect (s : bytes) : res cerr (codec * bytes) :=
  do (h1, s1) <- read_full 1 s;
  if hd 0 h1 =? hd 0 v_AbridgedClientStart then Ok (Abridged, s1)
  else
    do (h3, s2) <- read_full 3 s1;
    let buf := h1 ++ h3 in
    if zlist_eqb buf v_IntermediateClientStart then Ok (Intermediate, s2)
    else if zlist_eqb buf v_PaddedIntermediateClientStart then Ok (Padded, s2)
    else Ok (Full, buf ++ s2).                       (* io.MultiReader(buffered, c) *)
