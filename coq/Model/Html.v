(* Model of telegram/message/html: htmlParser.parse / startTag / endTag / fillAttrs (parser.go),
   telegramUnescape / unescapeEntity (unescape.go, byte-exact), HTML() = parse; ShrinkPreCode,
   as they are after fix 670da85fb (text chunks must be valid UTF-8).  Definitions only.

   The third-party tokenizer golang.org/x/net/html is NOT modelled: the model consumes the token
   stream (the harness produces it with the same Tokenizer calls the parser makes).  getURLFormatter
   (net/url) is an oracle table [utab] from strings to 0 = rejected, 1 = text URL, 2 = mention;
   the theorems hold for every table. *)
From Coq Require Import ZArith List Bool String Ascii.
From TD Require Import Lib.GoSem Lib.Utf Lib.RunLib Model.EntitySort Model.Entity.
Import ListNotations.
Open Scope Z_scope.
Notation length := List.length (only parsing).   (* not String.length *)

Fixpoint bytes_of_string (s : string) : list Z :=
  match s with
  | EmptyString => []
  | String a t => Z.of_nat (nat_of_ascii a) :: bytes_of_string t
  end.
Definition beq (a b : list Z) : bool := zlist_eqb a b.
Definition is_str (a : list Z) (s : string) : bool := beq a (bytes_of_string s).

(* ---------------- unescape.go ---------------- *)
Definition wrap32 (x : Z) : Z := ((x + 2147483648) mod 4294967296) - 2147483648.
Definition is_dec (c : Z) : bool := (48 <=? c) && (c <=? 57).
Definition is_alnum (c : Z) : bool :=
  ((97 <=? c) && (c <=? 122)) || ((65 <=? c) && (c <=? 90)) || is_dec c.
Definition hex_val (c : Z) : option Z :=
  if is_dec c then Some (c - 48)
  else if (97 <=? c) && (c <=? 102) then Some (c - 97 + 10)
  else if (65 <=? c) && (c <=? 70) then Some (c - 65 + 10)
  else None.

(* the digit loop: returns (x, number of bytes of l consumed), x in int32 arithmetic *)
Fixpoint scan_num (hex : bool) (x : Z) (l : list Z) (n : nat) : Z * nat :=
  match l with
  | [] => (x, n)
  | c :: t =>
    match (if hex then hex_val c else if is_dec c then Some (c - 48) else None) with
    | Some d => scan_num hex (wrap32 ((if hex then 16 else 10) * x + d)) t (S n)
    | None => if c =? 59 then (x, S n) else (x, n)
    end
  end.
Fixpoint scan_name (l : list Z) (n : nat) : nat :=
  match l with
  | [] => n
  | c :: t => if is_alnum c then scan_name t (S n) else if c =? 59 then S n else n
  end.

(* unescapeEntity on s = b[src:] (s starts with '&'): (bytes written at dst, bytes consumed) *)
Definition unescape_entity (s : list Z) : list Z * nat :=
  let amp := ([38], 1%nat) in
  match s with
  | [] | [_] => amp
  | _ :: c1 :: t1 =>
    if c1 =? 35 then
      (if (length s <=? 3)%nat then amp
       else
         match t1 with
         | [] => amp
         | c2 :: t2 =>
           let hex := (c2 =? 120) || (c2 =? 88) in
           let '(x, n) := scan_num hex 0 (if hex then t2 else t1) 0 in
           let i := ((if hex then 3 else 2) + n)%nat in
           if (i <=? 3)%nat then amp
           else if (x =? 0) || (x >=? 1114111) then amp
           else (go_encode_rune x, i)
         end)
    else
      let i := (1 + scan_name (c1 :: t1) 0)%nat in
      let tag_end := if (nth (i - 1) s 0 =? 59) then (i - 1)%nat else i in
      let name := firstn (tag_end - 1) (skipn 1 s) in
      if is_str name "lt" then ([60], i)
      else if is_str name "gt" then ([62], i)
      else if is_str name "amp" then ([38], i)
      else if is_str name "quot" then ([34], i)
      else (firstn i s, i)
  end.

Fixpoint telegram_unescape_f (fuel : nat) (l : list Z) : list Z :=
  match fuel with
  | O => []
  | S f =>
    match l with
    | [] => []
    | c :: t =>
      if c =? 38 then let '(em, n) := unescape_entity l in em ++ telegram_unescape_f f (skipn n l)
      else c :: telegram_unescape_f f t
    end
  end.
Definition telegram_unescape (l : list Z) : list Z := telegram_unescape_f (length l) l.

(* ---------------- parser.go ---------------- *)
(* entity tags (kind + 64*haslang), numbering shared with the harness *)
Definition T_bold := 0. Definition T_code := 1. Definition T_pre := 2. Definition T_pre_lang := 66.
Definition T_italic := 3. Definition T_underline := 4. Definition T_strike := 5. Definition T_spoiler := 6.
Definition T_texturl := 7. Definition T_blockquote := 8. Definition T_emoji := 9. Definition T_mention := 10.
Definition T_date := 11.

Inductive htok :=
| HText (raw txt : list Z)                 (* TextToken: tokenizer.Raw(), tokenizer.Text() *)
| HStart (name : list Z) (hasattr : bool) (attrs : list (list Z * list Z))  (* TagName(), TagAttr() loop *)
| HEnd (name : list Z)
| HComment (raw : list Z)
| HOther                                   (* self-closing tag, doctype: not handled by parse *)
| HErr (eof : bool).                       (* ErrorToken; eof = errors.Is(Err(), io.EOF) *)

Record selem := { se_tok : tok; se_tag : list Z; se_attr : list Z; se_fmt : option Z }.
Record hstate := { h_b : bstate; h_stack : list selem; h_attr : list (list Z * list Z) }.

(* map[string]string: later insertions win, missing key = "" *)
Fixpoint lookup (m : list (list Z * list Z)) (k : list Z) : list Z :=
  match m with
  | [] => []
  | (k', v) :: t => if beq k k' then v else lookup t k
  end.
Definition fill_attrs (attrs : list (list Z * list Z)) : list (list Z * list Z) := rev attrs.
Definition look (m : list (list Z * list Z)) (k : string) : list Z := lookup m (bytes_of_string k).

Fixpoint utab_kind (utab : list (list Z * Z)) (s : list Z) : Z :=
  match utab with
  | [] => 0
  | (k, v) :: t => if beq s k then v else utab_kind t s
  end.
Definition url_fmt (utab : list (list Z * Z)) (s : list Z) : option Z :=
  match s with
  | [] => None                                   (* getURLFormatter("") = error *)
  | _ => let k := utab_kind utab s in
         if k =? 1 then Some T_texturl else if k =? 2 then Some T_mention else None
  end.

(* strconv.ParseInt(s, 10, 64) / strconv.Atoi succeed *)
Fixpoint dec_value (l : list Z) (acc : Z) : option Z :=
  match l with
  | [] => Some acc
  | c :: t => if is_dec c then dec_value t (10 * acc + (c - 48)) else None
  end.
Definition parse_int_ok (s : list Z) : bool :=
  let '(neg, digits) :=
    match s with
    | 43 :: t => (false, t)
    | 45 :: t => (true, t)
    | _ => (false, s)
    end in
  match digits with
  | [] => false
  | _ => match dec_value digits 0 with
         | Some v => if neg then v <=? 9223372036854775808 else v <=? 9223372036854775807
         | None => false
         end
  end.

Definition trim_prefix (p s : list Z) : list Z :=
  if beq (firstn (length p) s) p then skipn (length p) s else s.

Definition set_top_fmt (st : list selem) (f : option Z) : list selem :=
  match st with
  | [] => []
  | e :: t => {| se_tok := se_tok e; se_tag := se_tag e; se_attr := se_attr e; se_fmt := f |} :: t
  end.

Definition start_tag (utab : list (list Z * Z)) (st : hstate) (name : list Z) (hasattr : bool)
           (attrs : list (list Z * list Z)) : hstate :=
  let attr := if hasattr then fill_attrs attrs else h_attr st in
  let tk := b_token (h_b st) in
  let mk a f stack := {| h_b := h_b st;
                         h_stack := {| se_tok := tk; se_tag := name; se_attr := a; se_fmt := f |} :: stack;
                         h_attr := attr |} in
  let stack := h_stack st in
  if is_str name "b" || is_str name "strong" then mk [] (Some T_bold) stack
  else if is_str name "i" || is_str name "em" then mk [] (Some T_italic) stack
  else if is_str name "u" || is_str name "ins" then mk [] (Some T_underline) stack
  else if is_str name "s" || is_str name "strike" || is_str name "del" then mk [] (Some T_strike) stack
  else if is_str name "a" then
    let href := look attr "href" in mk href (url_fmt utab href) stack
  else if is_str name "code" then
    let lang := trim_prefix (bytes_of_string "language-") (look attr "class") in
    match stack with
    | top :: _ =>
      if is_str (se_tag top) "pre" && negb (beq lang [])
      then mk lang (Some T_code) (set_top_fmt stack (Some T_pre_lang))
      else mk lang (Some T_code) stack
    | [] => mk lang (Some T_code) stack
    end
  else if is_str name "pre" then
    match stack with
    | top :: _ =>
      if is_str (se_tag top) "code" && negb (beq (se_attr top) [])
      then mk [] (Some T_pre_lang) stack
      else mk [] (Some T_pre) stack
    | [] => mk [] (Some T_pre) stack
    end
  else if is_str name "span" then
    mk [] (if is_str (look attr "class") "tg-spoiler" then Some T_spoiler else None) stack
  else if is_str name "tg-spoiler" then mk [] (Some T_spoiler) stack
  else if is_str name "tg-emoji" then
    mk [] (if parse_int_ok (look attr "emoji-id") then Some T_emoji else None) stack
  else if is_str name "blockquote" then mk [] (Some T_blockquote) stack
  else if is_str name "tg-time" then
    mk [] (if parse_int_ok (look attr "unix") then Some T_date else None) stack
  else mk [] None stack.

Definition with_hb (st : hstate) (b : bstate) (stack : list selem) : hstate :=
  {| h_b := b; h_stack := stack; h_attr := h_attr st |}.

(* endTag; Err tt = the parser returns an error *)
Definition end_tag (utab : list (list Z * Z)) (st : hstate) (name : list Z) (check_name : bool) : res unit hstate :=
  match h_stack st with
  | [] => Err tt
  | s :: rest =>
    if check_name && negb (beq (se_tag s) name) then Err tt
    else
      let b := h_b st in
      let length := b_u16 b - t_u16 (se_tok s) in
      let done := Ok (with_hb st b rest) in
      let finish (f : option Z) :=
        match f with
        | Some t => if length =? 0 then done else Ok (with_hb st (b_apply b (se_tok s) [t]) rest)
        | None => done
        end in
      if is_str (se_tag s) "a" then
        (if beq (se_attr s) [] then
           (* token.Text(builder) = message[utf8offset:len] *)
           do msg <- go_slice (b_msg b) (t_u8 (se_tok s)) (len (b_msg b));
           match url_fmt utab msg with
           | Some t => finish (Some t)
           | None => finish (se_fmt s)
           end
         else finish (se_fmt s))
      else if is_str (se_tag s) "code" then
        match rev (b_ents b) with
        | l :: _ =>
          if (kind (e_tag l) =? KPre) && (e_off l =? t_u16 (se_tok s)) && (e_len l =? length)
          then done else finish (se_fmt s)
        | [] => finish (se_fmt s)
        end
      else finish (se_fmt s)
  end.

Definition is_empty_close (raw : list Z) : bool :=
  (3 <=? length raw)%nat && beq (firstn 2 raw) [60; 47] && (last raw 0 =? 62).

(* parse: Ok = nil error, Err = error *)
Fixpoint parse (disable_tg : bool) (utab : list (list Z * Z)) (st : hstate) (toks : list htok) : res unit hstate :=
  match toks with
  | [] => Ok st
  | t :: rest =>
    match t with
    | HErr eof => if eof then Ok st else Err tt
    | HText raw txt =>
      let text := if disable_tg then txt else telegram_unescape raw in
      if utf8_validb text then parse disable_tg utab (with_hb st (b_write (h_b st) text) (h_stack st)) rest
      else Err tt
    | HStart name hasattr attrs => parse disable_tg utab (start_tag utab st name hasattr attrs) rest
    | HEnd name => do st' <- end_tag utab st name true; parse disable_tg utab st' rest
    | HComment raw =>
      if is_empty_close raw then do st' <- end_tag utab st [] false; parse disable_tg utab st' rest
      else parse disable_tg utab st rest
    | HOther => parse disable_tg utab st rest
    end
  end.

(* html.HTML(r, b, opts) on builder b; then the caller's b.Complete() *)
Definition html_on (disable_tg : bool) (utab : list (list Z * Z)) (b : bstate) (toks : list htok) : res unit bstate :=
  do st <- parse disable_tg utab {| h_b := b; h_stack := []; h_attr := [] |} toks;
  Ok (b_shrink (h_b st)).
Definition html_complete (disable_tg : bool) (utab : list (list Z * Z)) (b : bstate) (toks : list htok)
  : res unit (list Z * list ent) :=
  do b' <- html_on disable_tg utab b toks; snd (b_complete b').

(* C37: entities within the text, with the UTF-16 length of the text as Go computes it *)
Definition within_text (text : list Z) (e : ent) : Prop :=
  0 <= e_off e /\ 0 <= e_len e /\ e_off e + e_len e <= compute_length text.
