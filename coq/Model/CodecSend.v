(* transport/connection.go: Send.  Several goroutines call Send on one connection; each call
   is  writeMux.Lock(); codec.Write(conn, b) -- which performs one or more conn.Write calls
   and, for the full codec, takes the next frame number --; writeMux.Unlock().

   Labelled transition system (Lib conventions of DESIGN 3.4): an event names a sender and one
   atomic action.  The mutex is the trusted fact "sync.Mutex gives mutual exclusion": Acquire
   is enabled only when nobody holds it, and only the holder performs conn.Write calls. *)
From Coq Require Import ZArith List Bool Lia.
From TD Require Import Lib.GoSem Model.Codec.
Import ListNotations.
Open Scope Z_scope.

Section Send.
Variable crc : bytes -> Z.
Variable c : codec.
Variable rnd : Z -> bytes.
(* how codec.Write splits a frame into conn.Write calls (length prefix / payload ...): any split *)
Variable split : bytes -> list bytes.

Inductive event :=
| Acquire (i : nat)      (* sender i locks writeMux and starts codec.Write on its next payload *)
| WriteChunk (i : nat)   (* one conn.Write call of the holder completes *)
| Release (i : nat)      (* codec.Write returned nil; writeMux.Unlock() *)
| WriteFail (i n : nat). (* a conn.Write of the holder fails (write deadline from ctx, closed
                            connection) after n bytes of the chunk: codec.Write returns the error,
                            Send unlocks -- the frame stays torn on the wire *)

Record state := {
  queue : nat -> list bytes;          (* payloads sender i still has to Send, in its program order *)
  holder : option (nat * list bytes); (* who holds writeMux and the conn.Write calls still to do *)
  nseq : Z;                           (* Full.wSeqNo *)
  stream : bytes;                     (* bytes written to the connection so far *)
  log : list (nat * bytes);           (* (sender, payload) of every codec.Write that reached the connection, in lock order *)
  intact : option nat;                (* None: no conn.Write has failed so far; Some n: the first failure tore frame number n of the log *)
}.

Definition upd (q : nat -> list bytes) (i : nat) (v : list bytes) : nat -> list bytes :=
  fun j => if Nat.eqb j i then v else q j.

Definition step (st : state) (e : event) : option state :=
  match e with
  | Acquire i =>
    match holder st, queue st i with
    | None, p :: t =>
      match write_c crc c (nseq st) (rnd (nseq st)) p with
      | Ok f => Some {| queue := upd (queue st) i t; holder := Some (i, split f); nseq := nseq st + 1;
                        stream := stream st; log := log st ++ [(i, p)]; intact := intact st |}
      | _ =>    (* Write returns an error before touching the connection or the frame counter:
                   lock and unlock with no effect on the wire *)
        Some {| queue := upd (queue st) i t; holder := None; nseq := nseq st;
                stream := stream st; log := log st; intact := intact st |}
      end
    | _, _ => None
    end
  | WriteChunk i =>
    match holder st with
    | Some (j, ch :: rest) =>
      if Nat.eqb i j
      then Some {| queue := queue st; holder := Some (j, rest); nseq := nseq st;
                   stream := stream st ++ ch; log := log st; intact := intact st |}
      else None
    | _ => None
    end
  | Release i =>
    match holder st with
    | Some (j, []) =>
      if Nat.eqb i j
      then Some {| queue := queue st; holder := None; nseq := nseq st; stream := stream st;
                   log := log st; intact := intact st |}
      else None
    | _ => None
    end
  | WriteFail i n =>
    match holder st with
    | Some (j, ch :: rest) =>
      if Nat.eqb i j
      then Some {| queue := queue st; holder := None; nseq := nseq st;
                   stream := stream st ++ firstn n ch; log := log st;
                   intact := match intact st with None => Some (pred (length (log st))) | s => s end |}
      else None
    | _ => None
    end
  end.

Fixpoint run (st : state) (es : list event) : option state :=
  match es with
  | [] => Some st
  | e :: t => match step st e with Some st' => run st' t | None => None end
  end.

Definition init (q : nat -> list bytes) (seq : Z) : state :=
  {| queue := q; holder := None; nseq := seq; stream := []; log := []; intact := None |}.

(* the payloads of sender i in a log *)
Definition sent_by (i : nat) (l : list (nat * bytes)) : list bytes :=
  map snd (filter (fun e => Nat.eqb (fst e) i) l).

End Send.
