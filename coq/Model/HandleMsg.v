(* C23 -- model of mtproto.Conn.handleMessage and the handlers it dispatches to
   (mtproto/handle_*.go, ping.go:handlePong), as a function from the decrypted payload to the
   list of effects on the rest of the connection plus a status.  Definitions only.

   The dispatch table is generated from the `switch id` of handleMessage on every run
   (Gen/HandleConsts.v: handle_dispatch, constructors named after the called methods); the
   type ids and proto.GZIP's decompression limit come from the same file.  The small service
   types are decoded with the primitives of Model/TlPrim.v exactly as the generated / hand
   written Decode methods do (proto.MessageContainer, proto.Message, proto.Result, proto.GZIP,
   mt.NewSessionCreated, mt.BadMsgNotification, mt.BadServerSalt, mt.FutureSalts, mt.MsgsAck,
   mt.Pong, mt.RPCError).

   Environment (Section variables, universally quantified in the theorems):
     gunzip          DEFLATE: packed bytes -> decompressed bytes, None when the gzip reader
                     fails (the model adds GZIP.Decode's own check: less than 10 MiB)
     notify_ok       whether rpc.Engine.NotifyResult(id, payload) returned nil
     on_message_ok   whether Handler.OnMessage(payload) returned nil
     on_session_ok   whether Handler.OnSession returned nil (argument: the new server salt)

   Recursion: a container recurses into its messages and a gzip_packed message into the
   decompressed content; handleNestedMessage carries the nesting depth and refuses to go deeper
   than maxMessageNesting (generated).  The model recurses structurally on the remaining budget
   (budget = maxMessageNesting - depth) and reports the deepest level it reached. *)
From Coq Require Import ZArith List Bool.
From TD Require Import Lib.Bytes Lib.GoSem Lib.GoSlice Gen.TlConsts Gen.HandleConsts Model.TlPrim.
Import ListNotations.
Open Scope Z_scope.

Inductive effect : Type :=
| ENotifyResult (id : Z) (payload : list Z)     (* c.rpc.NotifyResult(id, b) *)
| ENotifyError (id : Z) (code : Z)               (* c.rpc.NotifyError(id, err): rpc error code / bad msg code *)
| ENotifyAcks (ids : list Z)                     (* c.rpc.NotifyAcks(ids) *)
| EPong (ping_id : Z)                            (* close(c.ping[ping_id]) if registered *)
| EStoreSalts (n : Z)                            (* c.salts.Store(salts), n = len(salts) *)
| ESessionCreated (first_msg_id unique_id server_salt : Z)   (* gotSession, storeSalt, OnSession *)
| EOnMessage (payload : list Z).                 (* c.handler.OnMessage(b) *)

Inductive herr : Type :=
| HDecode       (* some Decode / PeekID returned an error *)
| HHandler      (* NotifyResult / OnMessage / OnSession returned an error *)
| HDepth.       (* "messages are nested more than maxMessageNesting levels deep" *)
Inductive status : Type := SOk | SErr (e : herr) | SPanic.
Definition hres : Type := (list effect * status)%type.
(* result of handleMessage: effects, status, deepest nesting level reached *)
Definition dres3 : Type := (hres * nat)%type.


(* ---------- decoders of the service types ---------- *)
(* fixed sequences of primitives go through TlPrim.decode_all *)
(* new_session_created#9ec20908 first_msg_id:long unique_id:long server_salt:long *)
Definition dec_session (b : list Z) : dres (Z * Z * Z) :=
  do b1 <- consume_id c_mt_NewSessionCreatedTypeID b;
  do (ps, r) <- decode_all [KLong; KLong; KLong] b1;
  match ps with
  | [PLong f; PLong u; PLong s] => Ok ((f, u, s), r)
  | _ => Err EEOF
  end.
(* bad_msg_notification#a7eff811 bad_msg_id:long bad_msg_seqno:int error_code:int *)
Definition dec_bad_msg (b : list Z) : dres (Z * Z) :=
  do b1 <- consume_id c_mt_BadMsgNotificationTypeID b;
  do (i, b2) <- decode_long b1;
  do (ps, r) <- decode_all [KInt; KInt] b2;
  match ps with
  | [PInt _; PInt c] => Ok ((i, c), r)
  | _ => Err EEOF
  end.
(* bad_server_salt#edab447b bad_msg_id:long bad_msg_seqno:int error_code:int new_server_salt:long *)
Definition dec_bad_salt (b : list Z) : dres (Z * Z) :=
  do b1 <- consume_id c_mt_BadServerSaltTypeID b;
  do (i, b2) <- decode_long b1;
  do (ps, r) <- decode_all [KInt; KInt; KLong] b2;
  match ps with
  | [PInt _; PInt c; PLong _] => Ok ((i, c), r)
  | _ => Err EEOF
  end.
(* pong#347773c5 msg_id:long ping_id:long *)
Definition dec_pong (b : list Z) : dres Z :=
  do b1 <- consume_id c_mt_PongTypeID b;
  do (ps, r) <- decode_all [KLong; KLong] b1;
  match ps with
  | [PLong _; PLong p] => Ok (p, r)
  | _ => Err EEOF
  end.
(* rpc_error#2144ca19 error_code:int error_message:string *)
Definition dec_rpc_error (b : list Z) : dres Z :=
  do b1 <- consume_id c_mt_RPCErrorTypeID b;
  do (ps, r) <- decode_all [KInt; KBytes] b1;
  match ps with
  | [PInt c; PBytes _] => Ok (c, r)
  | _ => Err EEOF
  end.
(* proto.Result.Decode: id, req_msg_id, the rest of the buffer *)
Definition dec_result (b : list Z) : dres (Z * list Z) :=
  do b1 <- consume_id c_ResultTypeID b;
  do (i, b2) <- decode_long b1;
  Ok ((i, b2), []).
(* k bounds the iterations by the remaining length + 1: every element consumes bytes *)
Fixpoint dec_longs (k : nat) (n : Z) (b : list Z) : dres (list Z) :=
  if n <=? 0 then Ok ([], b) else
  match k with
  | O => Err EEOF
  | S k' => do (v, b1) <- decode_long b; do (l, b2) <- dec_longs k' (n - 1) b1; Ok (v :: l, b2)
  end.
(* msgs_ack#62d6b459 msg_ids:Vector<long> *)
Definition dec_acks (b : list Z) : dres (list Z) :=
  do b1 <- consume_id c_mt_MsgsAckTypeID b;
  do (n, b2) <- decode_vector_header b1;
  dec_longs (S (length b2)) n b2.
(* future_salt valid_since:int valid_until:int salt:long, bare *)
Fixpoint dec_salts (k : nat) (n : Z) (b : list Z) : dres (list (Z * Z * Z)) :=
  if n <=? 0 then Ok ([], b) else
  match k with
  | O => Err EEOF
  | S k' =>
      do (ps, b3) <- decode_all [KInt; KInt; KLong] b;
      match ps with
      | [PInt vs; PInt vu; PLong s] => do (l, b4) <- dec_salts k' (n - 1) b3; Ok ((vs, vu, s) :: l, b4)
      | _ => Err EEOF
      end
  end.
(* future_salts#ae500895 req_msg_id:long now:int salts:vector<future_salt> *)
Definition dec_future_salts (b : list Z) : dres (list (Z * Z * Z)) :=
  do b1 <- consume_id c_mt_FutureSaltsTypeID b;
  do (ps, b4) <- decode_all [KLong; KInt; KInt] b1;
  match ps with
  | [PLong _; PInt _; PInt n] => dec_salts (S (length b4)) n b4
  | _ => Err EEOF
  end.
(* proto.Message.Decode: msg_id, seqno, bytes (range check generated: msg_bytes_invalid), body = make([]byte, bytes) + ConsumeN *)
Definition dec_msg (b : list Z) : dres (list Z) :=
  do (ps, b3) <- decode_all [KLong; KInt; KInt] b;
  match ps with
  | [PLong _; PInt _; PInt n] => if msg_bytes_invalid n then Err EInvalidLength else take n b3
  | _ => Err EEOF
  end.
Fixpoint dec_msgs (k : nat) (n : Z) (b : list Z) : dres (list (list Z)) :=
  if n <=? 0 then Ok ([], b) else
  match k with
  | O => Err EEOF
  | S k' => do (m, b1) <- dec_msg b; do (l, b2) <- dec_msgs k' (n - 1) b1; Ok (m :: l, b2)
  end.
(* proto.MessageContainer.Decode: id, n:int (negative: InvalidLengthError, since repo commit
   8e2c2ab76), n messages *)
Definition dec_container (b : list Z) : dres (list (list Z)) :=
  do b1 <- consume_id c_MessageContainerTypeID b;
  do (n, b2) <- decode_int b1;
  if n <? 0 then Err EInvalidLength else dec_msgs (S (length b2)) n b2.

Section Handle.
  Variable gunzip : list Z -> option (list Z).
  Variable notify_ok : Z -> list Z -> bool.
  Variable on_message_ok : list Z -> bool.
  Variable on_session_ok : Z -> bool.

  (* proto.GZIP.Decode: id, bytes, gzip reader, LimitReader(10 MiB), bomb check, checksum *)
  Definition dec_gzip (b : list Z) : res tl_err (list Z) :=
    do b1 <- consume_id c_GZIPTypeID b;
    do (z, _) <- decode_bytes b1;
    match gunzip z with
    | Some d => if bytes_okb d && (len d <? c_maxUncompressedSize) then Ok d else Err EInvalidLength
    | None => Err EInvalidLength
    end.

  Definition lift_status {A} (r : res tl_err A) (k : A -> hres) : hres :=
    match r with
    | Ok a => k a
    | Err _ => ([], SErr HDecode)
    | Panic => ([], SPanic)
    end.

  Definition handle_pong (b : list Z) : hres :=
    lift_status (dec_pong b) (fun '(p, _) => ([EPong p], SOk)).
  Definition handle_session (b : list Z) : hres :=
    lift_status (dec_session b) (fun '((f, u, s), _) =>
      ([ESessionCreated f u s], if on_session_ok s then SOk else SErr HHandler)).
  Definition handle_bad_msg (b : list Z) : hres :=
    lift_status (peek_id b) (fun id =>
      if id =? c_mt_BadMsgNotificationTypeID then
        lift_status (dec_bad_msg b) (fun '((i, c), _) => ([ENotifyError i c], SOk))
      else if id =? c_mt_BadServerSaltTypeID then
        lift_status (dec_bad_salt b) (fun '((i, c), _) => ([ENotifyError i c], SOk))
      else ([], SErr HDecode)).
  Definition handle_future_salts (b : list Z) : hres :=
    lift_status (dec_future_salts b) (fun '(l, _) => ([EStoreSalts (len l)], SOk)).
  Definition handle_ack (b : list Z) : hres :=
    lift_status (dec_acks b) (fun '(l, _) => ([ENotifyAcks l], SOk)).
  (* what handleResult does with the (possibly decompressed) result body *)
  Definition route_result (req id : Z) (content : list Z) : hres :=
    if id =? c_mt_RPCErrorTypeID then
      lift_status (dec_rpc_error content) (fun '(code, _) => ([ENotifyError req code], SOk))
    else if id =? c_mt_PongTypeID then handle_pong content
    else ([ENotifyResult req content], if notify_ok req content then SOk else SErr HHandler).
  Definition handle_result (b : list Z) : hres :=
    lift_status (dec_result b) (fun '((req, body), _) =>
      lift_status (peek_id body) (fun id =>
        if id =? c_GZIPTypeID then
          lift_status (dec_gzip body) (fun content =>
            lift_status (peek_id content) (fun id' => route_result req id' content))
        else route_result req id body)).

  (* for _, msg := range container.Messages { if err := ...; err != nil { return err } } *)
  (* ... also reporting the deepest level reached below *)
  Fixpoint run_msgs_d (h : list Z -> dres3) (msgs : list (list Z)) : dres3 :=
    match msgs with
    | [] => (([], SOk), O)
    | m :: t =>
        let '((e1, s1), d1) := h m in
        match s1 with
        | SOk => let '((e2, s2), d2) := run_msgs_d h t in ((e1 ++ e2, s2), Nat.max d1 d2)
        | _ => ((e1, s1), d1)
        end
    end.
  Definition leaf (r : hres) : dres3 := (r, O).
  Definition lift_status_d {A} (r : res tl_err A) (k : A -> dres3) : dres3 :=
    match r with
    | Ok a => k a
    | Err _ => (([], SErr HDecode), O)
    | Panic => (([], SPanic), O)
    end.

  (* handleNestedMessage(msgID, b, depth) with budget = maxMessageNesting - depth.  The depth
     check of handleContainer / handleGZIP comes before any decoding. *)
  Fixpoint handle (budget : nat) (msg_id : Z) (b : list Z) {struct budget} : dres3 :=
    lift_status_d (peek_id b) (fun id =>
      match handle_dispatch id with
      | T_handleSessionCreated => leaf (handle_session b)
      | T_handleBadMsg => leaf (handle_bad_msg b)
      | T_handleFutureSalts => leaf (handle_future_salts b)
      | T_handleContainer =>
          match budget with
          | O => leaf ([], SErr HDepth)
          | S k =>
              lift_status_d (dec_container b) (fun '(msgs, _) =>
                let '(r, d) := run_msgs_d (handle k msg_id) msgs in (r, S d))
          end
      | T_handleResult => leaf (handle_result b)
      | T_handlePong => leaf (handle_pong b)
      | T_handleAck => leaf (handle_ack b)
      | T_handleGZIP =>
          match budget with
          | O => leaf ([], SErr HDepth)
          | S k =>
              lift_status_d (dec_gzip b) (fun content =>
                let '(r, d) := handle k msg_id content in (r, S d))
          end
      | T_nil => leaf ([], SOk)
      | T_handler_OnMessage => leaf ([EOnMessage b], if on_message_ok b then SOk else SErr HHandler)
      end).
  (* Conn.handleMessage *)
  Definition handle_message (msg_id : Z) (b : list Z) : dres3 :=
    handle (Z.to_nat c_maxMessageNesting) msg_id b.

  (* ---------- specification vocabulary for C23_routing ---------- *)
  (* m is a (sub)message of b: b itself, a message of a container that is a submessage, or
     the decompressed content of a gzip_packed submessage *)
  Inductive submsg : list Z -> list Z -> Prop :=
  | sub_self b : submsg b b
  | sub_container b msgs rest m x :
      peek_id b = Ok c_MessageContainerTypeID -> dec_container b = Ok (msgs, rest) -> In m msgs ->
      submsg m x -> submsg b x
  | sub_gzip b content x :
      peek_id b = Ok c_GZIPTypeID -> dec_gzip b = Ok content -> submsg content x -> submsg b x.
  (* the (possibly decompressed) body that handleResult routes *)
  Definition result_content (body content : list Z) : Prop :=
    content = body \/ (peek_id body = Ok c_GZIPTypeID /\ dec_gzip body = Ok content).
  (* e is justified by the (sub)message m: m is the rpc_result / bad_msg_notification /
     bad_server_salt that carries exactly the id AND the payload / error code of e *)
  Definition caused_by (m : list Z) (e : effect) : Prop :=
    match e with
    | ENotifyResult id payload =>
        exists body rest, dec_result m = Ok ((id, body), rest) /\ result_content body payload
    | ENotifyError id code =>
        (exists body rest content rest', dec_result m = Ok ((id, body), rest) /\ result_content body content /\
                                        peek_id content = Ok c_mt_RPCErrorTypeID /\ dec_rpc_error content = Ok (code, rest')) \/
        (exists rest, dec_bad_msg m = Ok ((id, code), rest)) \/
        (exists rest, dec_bad_salt m = Ok ((id, code), rest))
    | _ => True
    end.
  Definition routed (b : list Z) (e : effect) : Prop :=
    match e with
    | ENotifyResult _ _ | ENotifyError _ _ => exists m, submsg b m /\ caused_by m e
    | _ => True
    end.
End Handle.

(* ---------- registries of waiters: handlePong (c.ping) and rpc.Engine.NotifyAcks (e.ack) ----------
   Both do, under their mutex:  ch, ok := m[id]; if ok { close(ch); delete(m, id) }.
   A registry maps an id to the state of its channel; closing a closed channel panics. *)
Inductive chan_state : Type := ChOpen | ChClosed.
Fixpoint reg_find (r : list (Z * chan_state)) (id : Z) : option chan_state :=
  match r with
  | [] => None
  | (i, s) :: t => if i =? id then Some s else reg_find t id
  end.
Fixpoint reg_delete (r : list (Z * chan_state)) (id : Z) : list (Z * chan_state) :=
  match r with
  | [] => []
  | (i, s) :: t => if i =? id then reg_delete t id else (i, s) :: reg_delete t id
  end.
Definition close_delete (r : list (Z * chan_state)) (id : Z) : res unit (list (Z * chan_state)) :=
  match reg_find r id with
  | None => Ok r
  | Some ChClosed => Panic                 (* close of closed channel *)
  | Some ChOpen => Ok (reg_delete r id)    (* close(ch); delete(m, id) *)
  end.
Fixpoint close_all (r : list (Z * chan_state)) (ids : list Z) : res unit (list (Z * chan_state)) :=
  match ids with
  | [] => Ok r
  | id :: t => match close_delete r id with Ok r' => close_all r' t | Err e => Err e | Panic => Panic end
  end.
Definition all_open (r : list (Z * chan_state)) : Prop := Forall (fun p => snd p = ChOpen) r.

