(* Model of crypto/data_with_hash.go (GuessDataWithHash, DataWithHash) and
   crypto/exchange.go (DecryptExchangeAnswer, EncryptExchangeAnswer)  -- C11.
   SHA-1 and AES-IGE are abstract (Section variables).  Definitions only.

   Go's nil / empty-slice distinction matters here: GuessDataWithHash returns nil for
   "not found" and a (possibly EMPTY, non-nil) sub-slice for "found"; the model uses
   [option (list Z)].  DecryptExchangeAnswer mirrors the code after the C11 fix
   (the result of the guess, not the input, is tested). *)
From Coq Require Import ZArith List Bool Lia.
From TD Require Import Lib.GoSem Lib.RunLib Gen.DataWithHash.
Import ListNotations.
Open Scope Z_scope.

Inductive aerr := EKey | ELen | EGuess.

Definition sha1_size : nat := 20.

Section Answer.
  Variable sha1 : list Z -> list Z.
  (* ige_dec key iv ciphertext, ige_enc key iv plaintext *)
  Variable ige_dec : list Z -> list Z -> list Z -> list Z.
  Variable ige_enc : list Z -> list Z -> list Z -> list Z.

  (* dataWithHash[sha1.Size : len(dataWithHash)-i] *)
  Definition cand (dwh : list Z) (i : nat) : list Z :=
    firstn (length dwh - i - sha1_size) (skipn sha1_size dwh).

  (* for i := 0; i < 16; i++ { if len-i < 20 {return nil}; if sha1(data)==v {return data} }; return nil
     [n] = remaining iterations, [i] = current index *)
  Fixpoint guess_loop (n i : nat) (dwh v : list Z) : option (list Z) :=
    match n with
    | O => None
    | S n' =>
        if (length dwh - i <? sha1_size)%nat then None
        else if zlist_eqb (sha1 (cand dwh i)) v then Some (cand dwh i)
        else guess_loop n' (S i) dwh v
    end.

  Definition guess_data_with_hash (dwh : list Z) : option (list Z) :=
    if (length dwh <=? sha1_size)%nat then None
    else guess_loop 16 0 dwh (firstn sha1_size dwh).

  (* aes.NewCipher accepts 16, 24 and 32 byte keys *)
  Definition aes_key_ok (k : list Z) : bool :=
    let n := length k in (n =? 16)%nat || (n =? 24)%nat || (n =? 32)%nat.

  Definition decrypt_answer (data key iv : list Z) : res aerr (list Z) :=
    if negb (aes_key_ok key) then Err EKey
    else if negb (Z.of_nat (length data) mod 16 =? 0) then Err ELen
    else if negb (length iv =? 32)%nat then Panic          (* ige.DecryptBlocks: checkIV panics *)
    else match guess_data_with_hash (ige_dec key iv data) with
         | Some (x :: t) => Ok (x :: t)
         | _ => Err EGuess                                  (* len(dst) == 0 *)
         end.

  (* DataWithHash(data, rand): SHA1(data) ++ data ++ padding, padding = the next
     padded_len16(len data + 20) - len data - 20 bytes of the random stream. *)
  Definition pad_len (data : list Z) : nat :=
    Z.to_nat (padded_len16 (Z.of_nat (length data) + 20) - Z.of_nat (length data) - 20).
  Definition data_with_hash (data rnd : list Z) : list Z :=
    sha1 data ++ data ++ firstn (pad_len data) rnd.
  Definition encrypt_answer (rnd answer key iv : list Z) : list Z :=
    ige_enc key iv (data_with_hash answer rnd).
End Answer.
