(* Model of pool.DC (pool/pool.go, pool/req_map.go, pool/pool_conn.go) as a labelled transition
   system: one event = one atomic action of one goroutine (a c.mu / reqMap.mux region, one channel
   operation, one select commit, one Dead() read) or of the environment (caller cancellation,
   connection becoming ready, Run returning, Close).  The model mirrors the code AFTER the repairs
   `fix: pool: ...` (release on cancel during creation, send under the lock in transfer, stuck
   channel taken under the lock, Dead() check on every hand-out path, connection creation under c.mu
   with a `closed` re-check so that Close never waits concurrently with Supervisor.Go).
   Decisions that are plain integer comparisons in the source are taken from Gen/PoolDecide.v,
   regenerated from /repo on every run.
   Definitions only; proofs are in Proof/Pool.v. *)
From Coq Require Import ZArith List Bool Arith.
From TD Require Import Gen.PoolDecide.
Import ListNotations.
Open Scope Z_scope.

Inductive why := WStuck | WErr.
Inductive result := ROk | RErr | RDead.
Inductive rel_out := Transferred (k : Z) | Freed.

(* program counter of a caller inside DC.Invoke / DC.acquire *)
Inductive pc :=
| PIdle                        (* not inside Invoke *)
| PRetry                       (* at `retry:` before c.mu.Lock *)
| PCheck (c : Z)               (* owns c, about to read c.Dead() before returning it *)
| PNew                         (* total++ done, connection not created yet *)
| PCreating (c : Z)            (* in the select on ctx / c.ctx / Ready / Dead *)
| PWaiting (k : Z) (g : nat)   (* request k registered, stuck channel of generation g taken, in the select *)
| PGiveDel (k : Z) (w : why)   (* left the select without a connection, before freeReq.delete(key) *)
| PGiveRecv (k : Z) (w : why)  (* after delete, before the non-blocking receive *)
| PHolding (c : Z)             (* acquire returned c; conn.Invoke in progress *)
| PMarkDead (c : Z)            (* Invoke failed retryably, ctx alive: about to call c.dead(conn) *)
| PRelease (c : Z).            (* about to call c.release(conn), then return *)

Record conn := { c_ready : bool; c_exited : bool; c_deleted : bool; c_dead : bool }.

Record state := {
  s_max : Z; s_total : Z;
  s_free : list Z;             (* free list, head = last appended (pop takes the head) *)
  s_reqs : list Z;             (* keys in reqMap.m *)
  s_chan : Z -> option Z;      (* request channel of key k holds a connection *)
  s_conns : Z -> option conn;
  s_created : list Z;          (* ghost: ids of created connections *)
  s_pc : nat -> pc;
  s_cancelled : nat -> bool;
  s_gen : nat;                 (* number of stuck.Reset() so far *)
  s_nextkey : Z;
  s_closedf : bool; s_ctxdone : bool;
  s_pending : list nat;        (* ghost: callers in PNew *)
  s_panicked : bool }.

Inductive event :=
| EStart (x : nat) | EStartClosed (x : nat)
| EPop (x : nat) (c : Z) | ECheck (x : nat) (alive : bool)
| ENew (x : nat) (t : Z) | ENewRefused (x : nat) | ECreate (x : nat) (c : Z)
| ENewReady (x : nat) | ENewCancel (x : nat) | ENewClosed (x : nat) | ENewDead (x : nat)
| EReg (x : nat) (k : Z)
| EWaitGot (x : nat) (c : Z) | EWaitStuck (x : nat) | EWaitCancel (x : nat) | EWaitClosed (x : nat)
| EGiveDel (x : nat) | EGiveEmpty (x : nat) | EGiveGot (x : nat) (c : Z)
| EInvRet (x : nat) (r : result) (md : bool)
| EDeadBy (x : nat) (c : Z) | ESkipDead (x : nat) | ESwapRun (c : Z) | ERunDead (c : Z)
| ERelease (x : nat) (c : Z) (o : rel_out)
| ECancel (x : nat) | EReady (c : Z) | ERunExit (c : Z) | ECloseFlag | ECloseCancel.

Definition init (max : Z) : state :=
  {| s_max := max; s_total := 0; s_free := []; s_reqs := []; s_chan := fun _ => None;
     s_conns := fun _ => None; s_created := []; s_pc := fun _ => PIdle; s_cancelled := fun _ => false;
     s_gen := 0; s_nextkey := 0; s_closedf := false; s_ctxdone := false; s_pending := [];
     s_panicked := false |}.

Definition updN {A} (f : nat -> A) (x : nat) (v : A) : nat -> A := fun y => if Nat.eqb y x then v else f y.
Definition updZ {A} (f : Z -> A) (x : Z) (v : A) : Z -> A := fun y => if Z.eqb y x then v else f y.

Definition set_pc (st : state) (x : nat) (p : pc) : state :=
  {| s_max := s_max st; s_total := s_total st; s_free := s_free st; s_reqs := s_reqs st; s_chan := s_chan st;
     s_conns := s_conns st; s_created := s_created st; s_pc := updN (s_pc st) x p; s_cancelled := s_cancelled st;
     s_gen := s_gen st; s_nextkey := s_nextkey st; s_closedf := s_closedf st; s_ctxdone := s_ctxdone st;
     s_pending := s_pending st; s_panicked := s_panicked st |}.
Definition set_free (st : state) (f : list Z) : state :=
  {| s_max := s_max st; s_total := s_total st; s_free := f; s_reqs := s_reqs st; s_chan := s_chan st;
     s_conns := s_conns st; s_created := s_created st; s_pc := s_pc st; s_cancelled := s_cancelled st;
     s_gen := s_gen st; s_nextkey := s_nextkey st; s_closedf := s_closedf st; s_ctxdone := s_ctxdone st;
     s_pending := s_pending st; s_panicked := s_panicked st |}.
Definition set_reqs (st : state) (r : list Z) : state :=
  {| s_max := s_max st; s_total := s_total st; s_free := s_free st; s_reqs := r; s_chan := s_chan st;
     s_conns := s_conns st; s_created := s_created st; s_pc := s_pc st; s_cancelled := s_cancelled st;
     s_gen := s_gen st; s_nextkey := s_nextkey st; s_closedf := s_closedf st; s_ctxdone := s_ctxdone st;
     s_pending := s_pending st; s_panicked := s_panicked st |}.
Definition set_chan (st : state) (k : Z) (v : option Z) : state :=
  {| s_max := s_max st; s_total := s_total st; s_free := s_free st; s_reqs := s_reqs st; s_chan := updZ (s_chan st) k v;
     s_conns := s_conns st; s_created := s_created st; s_pc := s_pc st; s_cancelled := s_cancelled st;
     s_gen := s_gen st; s_nextkey := s_nextkey st; s_closedf := s_closedf st; s_ctxdone := s_ctxdone st;
     s_pending := s_pending st; s_panicked := s_panicked st |}.
Definition set_conn (st : state) (c : Z) (r : conn) : state :=
  {| s_max := s_max st; s_total := s_total st; s_free := s_free st; s_reqs := s_reqs st; s_chan := s_chan st;
     s_conns := updZ (s_conns st) c (Some r); s_created := s_created st; s_pc := s_pc st; s_cancelled := s_cancelled st;
     s_gen := s_gen st; s_nextkey := s_nextkey st; s_closedf := s_closedf st; s_ctxdone := s_ctxdone st;
     s_pending := s_pending st; s_panicked := s_panicked st |}.
(* total++ under c.mu (2nd acquire case) *)
Definition count_new (st : state) (x : nat) : state :=
  {| s_max := s_max st; s_total := s_total st + 1; s_free := s_free st; s_reqs := s_reqs st; s_chan := s_chan st;
     s_conns := s_conns st; s_created := s_created st; s_pc := s_pc st; s_cancelled := s_cancelled st;
     s_gen := s_gen st; s_nextkey := s_nextkey st; s_closedf := s_closedf st; s_ctxdone := s_ctxdone st;
     s_pending := x :: s_pending st; s_panicked := s_panicked st |}.
Definition fresh_conn : conn := {| c_ready := false; c_exited := false; c_deleted := false; c_dead := false |}.
(* createConnection *)
Fixpoint removeN (x : nat) (l : list nat) : list nat :=
  match l with [] => [] | a :: t => if Nat.eqb a x then removeN x t else a :: removeN x t end.
Definition create (st : state) (x : nat) (c : Z) : state :=
  {| s_max := s_max st; s_total := s_total st; s_free := s_free st; s_reqs := s_reqs st; s_chan := s_chan st;
     s_conns := updZ (s_conns st) c (Some fresh_conn); s_created := c :: s_created st; s_pc := s_pc st;
     s_cancelled := s_cancelled st; s_gen := s_gen st; s_nextkey := s_nextkey st; s_closedf := s_closedf st;
     s_ctxdone := s_ctxdone st; s_pending := removeN x (s_pending st); s_panicked := s_panicked st |}.
(* freeReq.request() + taking the stuck channel, under c.mu *)
Definition register (st : state) (k : Z) : state :=
  {| s_max := s_max st; s_total := s_total st; s_free := s_free st; s_reqs := k :: s_reqs st; s_chan := s_chan st;
     s_conns := s_conns st; s_created := s_created st; s_pc := s_pc st; s_cancelled := s_cancelled st;
     s_gen := s_gen st; s_nextkey := k; s_closedf := s_closedf st; s_ctxdone := s_ctxdone st;
     s_pending := s_pending st; s_panicked := s_panicked st |}.

Fixpoint removeZ (c : Z) (l : list Z) : list Z :=
  match l with [] => [] | a :: t => if Z.eqb a c then removeZ c t else a :: removeZ c t end.
Fixpoint memZ (c : Z) (l : list Z) : bool :=
  match l with [] => false | a :: t => Z.eqb a c || memZ c t end.

(* the c.mu region of DC.dead: total--, panic if negative, remove from free, Signal, stuck.Reset *)
Definition dead_region (st : state) (c : Z) (r : conn) : state :=
  {| s_max := s_max st; s_total := s_total st - 1; s_free := removeZ c (s_free st); s_reqs := s_reqs st;
     s_chan := s_chan st;
     s_conns := updZ (s_conns st) c (Some {| c_ready := c_ready r; c_exited := c_exited r; c_deleted := true; c_dead := true |});
     s_created := s_created st; s_pc := s_pc st; s_cancelled := s_cancelled st;
     s_gen := S (s_gen st); s_nextkey := s_nextkey st; s_closedf := s_closedf st; s_ctxdone := s_ctxdone st;
     s_pending := s_pending st; s_panicked := dead_underflow_go (s_total st - 1) |}.

Definition set_cancelled (st : state) (x : nat) : state :=
  {| s_max := s_max st; s_total := s_total st; s_free := s_free st; s_reqs := s_reqs st; s_chan := s_chan st;
     s_conns := s_conns st; s_created := s_created st; s_pc := s_pc st; s_cancelled := updN (s_cancelled st) x true;
     s_gen := s_gen st; s_nextkey := s_nextkey st; s_closedf := s_closedf st; s_ctxdone := s_ctxdone st;
     s_pending := s_pending st; s_panicked := s_panicked st |}.
(* a new Invoke call comes with its own context *)
Definition set_uncancelled (st : state) (x : nat) : state :=
  {| s_max := s_max st; s_total := s_total st; s_free := s_free st; s_reqs := s_reqs st; s_chan := s_chan st;
     s_conns := s_conns st; s_created := s_created st; s_pc := s_pc st; s_cancelled := updN (s_cancelled st) x false;
     s_gen := s_gen st; s_nextkey := s_nextkey st; s_closedf := s_closedf st; s_ctxdone := s_ctxdone st;
     s_pending := s_pending st; s_panicked := s_panicked st |}.
Definition set_closed (st : state) (f d : bool) : state :=
  {| s_max := s_max st; s_total := s_total st; s_free := s_free st; s_reqs := s_reqs st; s_chan := s_chan st;
     s_conns := s_conns st; s_created := s_created st; s_pc := s_pc st; s_cancelled := s_cancelled st;
     s_gen := s_gen st; s_nextkey := s_nextkey st; s_closedf := f; s_ctxdone := d;
     s_pending := s_pending st; s_panicked := s_panicked st |}.

Definition is_dead (st : state) (c : Z) : bool :=
  match s_conns st c with Some r => c_dead r | None => false end.
Definition is_ready (st : state) (c : Z) : bool :=
  match s_conns st c with Some r => c_ready r | None => false end.
Definition is_dead_result (r : result) : bool := match r with RDead => true | _ => false end.

Definition step (st : state) (e : event) : option state :=
  if s_panicked st then None else
  match e with
  | EStart x =>
      match s_pc st x with
      | PIdle => if s_closedf st then None else Some (set_pc (set_uncancelled st x) x PRetry)
      | _ => None end
  | EStartClosed x =>
      match s_pc st x with
      | PIdle => if s_closedf st then Some st else None
      | _ => None end
  | EPop x c =>                                   (* 1st case: pop under c.mu *)
      match s_pc st x, s_free st with
      | PRetry, c' :: f => if Z.eqb c' c then Some (set_pc (set_free st f) x (PCheck c)) else None
      | _, _ => None end
  | ECheck x b =>                                 (* the Dead() read of a hand-out path *)
      match s_pc st x with
      | PCheck c => if Bool.eqb b (negb (is_dead st c))
                    then Some (set_pc st x (if b then PHolding c else PRetry)) else None
      | _ => None end
  | ENew x t =>                                   (* 2nd case: total++ under c.mu *)
      match s_pc st x, s_free st with
      | PRetry, [] => if can_create_go (s_max st) (s_total st) && negb (s_closedf st) && Z.eqb t (s_total st + 1)
                      then Some (set_pc (count_new st x) x PNew) else None
      | _, _ => None end
  | ENewRefused x =>                              (* 2nd case, but Close has begun: return errDCIsClosed *)
      match s_pc st x, s_free st with
      | PRetry, [] => if can_create_go (s_max st) (s_total st) && s_closedf st
                      then Some (set_pc st x PIdle) else None
      | _, _ => None end
  | ECreate x c =>
      match s_pc st x, s_conns st c with
      | PNew, None => Some (set_pc (create st x c) x (PCreating c))
      | _, _ => None end
  | ENewReady x =>
      match s_pc st x with
      | PCreating c => if is_ready st c then Some (set_pc st x (PCheck c)) else None
      | _ => None end
  | ENewCancel x =>
      match s_pc st x with
      | PCreating c => if s_cancelled st x then Some (set_pc st x (PRelease c)) else None
      | _ => None end
  | ENewClosed x =>
      match s_pc st x with
      | PCreating c => if s_ctxdone st then Some (set_pc st x PIdle) else None
      | _ => None end
  | ENewDead x =>
      match s_pc st x with
      | PCreating c => if is_dead st c then Some (set_pc st x PRetry) else None
      | _ => None end
  | EReg x k =>                                   (* 3rd case: request + stuck channel under c.mu *)
      match s_pc st x, s_free st with
      | PRetry, [] => if negb (can_create_go (s_max st) (s_total st)) && Z.eqb k (s_nextkey st + 1)
                      then Some (set_pc (register st k) x (PWaiting k (s_gen st))) else None
      | _, _ => None end
  | EWaitGot x c =>
      match s_pc st x with
      | PWaiting k g => match s_chan st k with
                        | Some c' => if Z.eqb c' c then Some (set_pc (set_chan st k None) x (PCheck c)) else None
                        | None => None end
      | _ => None end
  | EWaitStuck x =>
      match s_pc st x with
      | PWaiting k g => if Nat.ltb g (s_gen st) then Some (set_pc st x (PGiveDel k WStuck)) else None
      | _ => None end
  | EWaitCancel x =>
      match s_pc st x with
      | PWaiting k g => if s_cancelled st x then Some (set_pc st x (PGiveDel k WErr)) else None
      | _ => None end
  | EWaitClosed x =>
      match s_pc st x with
      | PWaiting k g => if s_ctxdone st then Some (set_pc st x (PGiveDel k WErr)) else None
      | _ => None end
  | EGiveDel x =>                                 (* freeReq.delete(key) under reqMap.mux *)
      match s_pc st x with
      | PGiveDel k w => Some (set_pc (set_reqs st (removeZ k (s_reqs st))) x (PGiveRecv k w))
      | _ => None end
  | EGiveEmpty x =>
      match s_pc st x with
      | PGiveRecv k w => match s_chan st k with
                         | None => Some (set_pc st x (match w with WStuck => PRetry | WErr => PIdle end))
                         | Some _ => None end
      | _ => None end
  | EGiveGot x c =>
      match s_pc st x with
      | PGiveRecv k w => match s_chan st k with
                         | Some c' => if Z.eqb c' c
                                      then Some (set_pc (set_chan st k None) x (match w with WStuck => PCheck c | WErr => PRelease c end))
                                      else None
                         | None => None end
      | _ => None end
  | EInvRet x r md =>                             (* conn.Invoke returned; `retryable && ctx.Err() == nil` *)
      match s_pc st x with
      | PHolding c => if Bool.eqb md (is_dead_result r && negb (s_cancelled st x))
                      then Some (set_pc st x (if md then PMarkDead c else PRelease c)) else None
      | _ => None end
  | EDeadBy x c =>                                (* c.dead(conn) by the caller: deleted.Swap wins, region *)
      match s_pc st x, s_conns st c with
      | PMarkDead c', Some r => if Z.eqb c' c && negb (c_deleted r)
                                then Some (set_pc (dead_region st c r) x PRetry) else None
      | _, _ => None end
  | ESkipDead x =>                                (* c.dead(conn) by the caller: already deleted *)
      match s_pc st x with
      | PMarkDead c => match s_conns st c with
                       | Some r => if c_deleted r then Some (set_pc st x PRetry) else None
                       | None => None end
      | _ => None end
  | ESwapRun c =>                                 (* deleted.Swap(true) by the connection's Run goroutine *)
      match s_conns st c with
      | Some r => if c_exited r && negb (c_deleted r)
                  then Some (set_conn st c {| c_ready := c_ready r; c_exited := c_exited r; c_deleted := true; c_dead := c_dead r |})
                  else None
      | None => None end
  | ERunDead c =>                                 (* the c.mu region of dead() run by the Run goroutine *)
      match s_conns st c with
      | Some r => if c_deleted r && negb (c_dead r) then Some (dead_region st c r) else None
      | None => None end
  | ERelease x c o =>                             (* c.release(conn): c.mu region incl. reqMap.transfer *)
      match s_pc st x with
      | PRelease c' =>
          if Z.eqb c' c then
            match o with
            | Transferred k => if memZ k (s_reqs st)
                               then Some (set_pc (set_chan (set_reqs st (removeZ k (s_reqs st))) k (Some c)) x PIdle)
                               else None
            | Freed => if no_requests_go (Z.of_nat (length (s_reqs st)))
                       then Some (set_pc (set_free st (c :: s_free st)) x PIdle) else None
            end
          else None
      | _ => None end
  | ECancel x => Some (set_cancelled st x)
  | EReady c =>
      match s_conns st c with
      | Some r => Some (set_conn st c {| c_ready := true; c_exited := c_exited r; c_deleted := c_deleted r; c_dead := c_dead r |})
      | None => None end
  | ERunExit c =>
      match s_conns st c with
      | Some r => if c_exited r then None
                  else Some (set_conn st c {| c_ready := c_ready r; c_exited := true; c_deleted := c_deleted r; c_dead := c_dead r |})
      | None => None end
  | ECloseFlag => if s_closedf st then None else Some (set_closed st true (s_ctxdone st))
  | ECloseCancel => if s_closedf st && negb (s_ctxdone st) then Some (set_closed st true true) else None
  end.

Fixpoint run (st : state) (l : list event) : option state :=
  match l with
  | [] => Some st
  | e :: t => match step st e with Some st' => run st' t | None => None end
  end.

(* number of events of l that replay (used to report where a trace stops being enabled) *)
Fixpoint run_prefix (st : state) (l : list event) (n : nat) : nat :=
  match l with
  | [] => n
  | e :: t => match step st e with Some st' => run_prefix st' t (S n) | None => n end
  end.

Definition reachable (max : Z) (st : state) : Prop := exists l, run (init max) l = Some st.

(* ---------- vocabulary of the property statements (Prop/C27.v, Prop/C28.v) ---------- *)
(* death recorded (dead region done) / being recorded (deleted.Swap won) *)
Definition dead_in (cs : Z -> option conn) (c : Z) : bool :=
  match cs c with Some r => c_dead r | None => false end.
Definition deleted_in (cs : Z -> option conn) (c : Z) : bool :=
  match cs c with Some r => c_deleted r | None => false end.
(* number of created connections whose death is not recorded *)
Fixpoint live (cs : Z -> option conn) (l : list Z) : Z :=
  match l with [] => 0 | c :: t => (if dead_in cs c then 0 else 1) + live cs t end.
(* the connection a caller owns exclusively / the request key it waits on / its registered key *)
Definition held_conn (p : pc) : option Z :=
  match p with PCheck c | PCreating c | PHolding c | PMarkDead c | PRelease c => Some c | _ => None end.
Definition wait_key (p : pc) : option Z :=
  match p with PWaiting k _ | PGiveDel k _ | PGiveRecv k _ => Some k | _ => None end.
Definition reg_key (p : pc) : option Z :=
  match p with PWaiting k _ | PGiveDel k _ => Some k | _ => None end.
(* ---------- running connections (C27, "live" in the physical sense) ---------- *)
(* the connection's Run has returned *)
Definition exited_in (cs : Z -> option conn) (c : Z) : bool :=
  match cs c with Some r => c_exited r | None => false end.
(* number of created connections whose Run has not returned *)
Fixpoint running (cs : Z -> option conn) (l : list Z) : Z :=
  match l with [] => 0 | c :: t => (if exited_in cs c then 0 else 1) + running cs t end.
(* environment premise: a connection makes Invoke fail with a retryable "dead" error only after its Run
   has returned.  NOT guaranteed by pool.Conn implementations (see Prop/C27.v). *)
Definition strict_ok (st : state) (e : event) : Prop :=
  match e with
  | EInvRet x RDead _ => forall c, s_pc st x = PHolding c -> exited_in (s_conns st) c = true
  | _ => True
  end.
Fixpoint strict_run (st : state) (l : list event) : Prop :=
  match l with
  | [] => True
  | e :: t => strict_ok st e /\ match step st e with Some st' => strict_run st' t | None => True end
  end.
