(* Model of mtproxy/faketls: TLS-looking records (record.go), the FakeTLS connection
   (faketls.go: Write / Read) and the acceptance of the server hello (server_hello.go), as the
   code is after fix commit 4ab891d2f (Write splits payloads above 65535 bytes).

   Byte streams are lists (io.ReadFull fact, trusted base).  HMAC-SHA256 is a Section variable.
   Record types, versions and limits come from Gen/FakeTlsConsts.v (xlate, every run). *)
From Coq Require Import ZArith List Bool Lia.
From TD Require Import Lib.Bytes Lib.GoSem Lib.RunLib Gen.FakeTlsConsts.
Import ListNotations.
Open Scope Z_scope.

Definition bytes := list Z.
Definition zlen (l : bytes) : Z := Z.of_nat (length l).

Inductive terr :=
| TEof | TUnexpEof            (* io.EOF / io.ErrUnexpectedEOF from io.ReadFull *)
| TVersion                    (* unknown protocol version *)
| TRecordType                 (* unexpected / unsupported record type *)
| TTooShort                   (* handshake record is too short *)
| TDigest                     (* hmac digest mismatch *)
| TOutOfFuel.

Definition read_full (k : Z) (s : bytes) : res terr (bytes * bytes) :=
  if k <=? 0 then Ok ([], s)
  else if k <=? zlen s then Ok (firstn (Z.to_nat k) s, skipn (Z.to_nat k) s)
  else match s with [] => Err TEof | _ => Err TUnexpEof end.

(* ---------- records ---------- *)
Definition be16 (v : Z) : bytes := [(v / 256) mod 256; v mod 256].
Definition be16_dec (b : bytes) : Z := nth 0 b 0 * 256 + nth 1 b 0.

(* writeRecord: type, version, uint16(len(Data)) big-endian, data *)
Definition write_record (typ : Z) (ver data : bytes) : bytes :=
  (typ mod 256) :: ver ++ be16 (zlen data mod 65536) ++ data.

Definition version_ok (v : bytes) : bool :=
  zlist_eqb v v_Version13Bytes || zlist_eqb v v_Version12Bytes ||
  zlist_eqb v v_Version11Bytes || zlist_eqb v v_Version10Bytes.

(* readRecord: (type, data, header+data as read, rest of the stream) *)
Definition read_record (s : bytes) : res terr (Z * bytes * bytes * bytes) :=
  do (h, s1) <- read_full 5 s;
  if negb (version_ok (firstn 2 (skipn 1 h))) then Err TVersion
  else
    let len := be16_dec (skipn 3 h) in
    do (d, s2) <- read_full len s1;
    Ok (nth 0 h 0, d, h ++ d, s2).

(* ---------- FakeTLS.Write ---------- *)
Definition version12 := v_Version12Bytes.     (* NewFakeTLS: version = Version12Bytes *)

(* the chunk loop of Write; fuel = number of iterations allowed *)
Fixpoint write_chunks (fuel : nat) (b : bytes) : res terr bytes :=
  match fuel with
  | O => Err TOutOfFuel
  | S f =>
    let chunk := if chunk_too_long_go (zlen b) then firstn (Z.to_nat c_maxTLSRecordDataLength) b else b in
    let rest := skipn (length chunk) b in
    let r := write_record c_RecordTypeApplication version12 chunk in
    match rest with
    | [] => Ok r
    | _ => do t <- write_chunks f rest; Ok (r ++ t)
    end
  end.

(* one Write call: (bytes put on the wire, firstPacket afterwards) *)
Definition ftls_write (first_done : bool) (b : bytes) : res terr bytes :=
  do w <- write_chunks (S (length b)) b;
  Ok ((if first_done then [] else write_record c_RecordTypeChangeCipherSpec version12 [1]) ++ w).

Fixpoint ftls_write_all (first_done : bool) (ws : list bytes) : res terr bytes :=
  match ws with
  | [] => Ok []
  | b :: t => do w <- ftls_write first_done b; do r <- ftls_write_all true t; Ok (w ++ r)
  end.

(* ---------- FakeTLS.Read ---------- *)
(* state: buffered application data, remaining stream.  One Read(buf) with len(buf) = k > 0:
   returns (data, new state) or an error; the record loop has fuel (each record consumes at
   least its 5 header bytes). *)
Fixpoint fill (fuel : nat) (s : bytes) : res terr (bytes * bytes) :=
  match fuel with
  | O => Err TOutOfFuel
  | S f =>
    do (typ, d, _, s') <- read_record s;
    if typ =? c_RecordTypeChangeCipherSpec then fill f s'
    else if typ =? c_RecordTypeApplication then
      match d with [] => fill f s' | _ => Ok (d, s') end
    else Err TRecordType
  end.

Definition ftls_read (k : Z) (st : bytes * bytes) : res terr (bytes * (bytes * bytes)) :=
  let '(buf, s) := st in
  do (buf1, s1) <- (match buf with [] => fill (S (length s)) s | _ => Ok (buf, s) end);
  Ok (firstn (Z.to_nat k) buf1, (skipn (Z.to_nat k) buf1, s1)).

(* Read calls with buffer sizes ks(i) until the first error: all data, final error *)
Fixpoint drain (fuel : nat) (ks : nat -> Z) (i : nat) (st : bytes * bytes) : bytes * terr :=
  match fuel with
  | O => ([], TOutOfFuel)
  | S f =>
    match ftls_read (ks i) st with
    | Ok (d, st') => let '(ds, e) := drain f ks (S i) st' in (d ++ ds, e)
    | Err e => ([], e)
    | Panic => ([], TOutOfFuel)
    end
  end.

(* all records on a wire (for the "every record length fits 16 bits" clause) *)
Fixpoint parse_records (fuel : nat) (s : bytes) : list (Z * bytes) * option terr :=
  match fuel with
  | O => ([], Some TOutOfFuel)
  | S f =>
    match s with
    | [] => ([], None)
    | _ =>
      match read_record s with
      | Ok (typ, d, _, s') => let '(rs, e) := parse_records f s' in ((typ, d) :: rs, e)
      | Err e => ([], Some e)
      | Panic => ([], Some TOutOfFuel)
      end
    end
  end.

(* ---------- readServerHello ---------- *)
Section Hello.
Variable hmac : bytes -> bytes -> bytes.       (* HMAC-SHA256 key message *)

(* the loop over extra handshake records: up to maxHandshakeRecords iterations, stops at the
   ChangeCipherSpec record; returns the bytes consumed and the rest *)
Fixpoint hello_loop (n : nat) (s : bytes) : res terr (bytes * bytes) :=
  match n with
  | O => Err TRecordType                        (* changeCipherFound = false *)
  | S m =>
    do (typ, _, raw, s') <- read_record s;
    if typ =? c_RecordTypeHandshake then
      do (raw', s'') <- hello_loop m s'; Ok (raw ++ raw', s'')
    else if typ =? c_RecordTypeChangeCipherSpec then Ok (raw, s')
    else Err TRecordType
  end.

Definition zero_digest (packet : bytes) : bytes :=
  firstn (Z.to_nat c_serverRandomOffset) packet ++ repeat 0 32 ++ skipn (Z.to_nat c_serverRandomOffset + 32) packet.
Definition digest_of (packet : bytes) : bytes :=
  firstn 32 (skipn (Z.to_nat c_serverRandomOffset) packet).

(* returns the rest of the stream after the three parts of the server hello *)
Definition read_server_hello (client_random secret : bytes) (s : bytes) : res terr bytes :=
  do (typ, _, raw1, s1) <- read_record s;
  if negb (typ =? c_RecordTypeHandshake) then Err TRecordType
  else if hello_too_short_go (zlen raw1) then Err TTooShort
  else
    do (raw2, s2) <- hello_loop (Z.to_nat c_maxHandshakeRecords) s1;
    do (typ3, _, raw3, s3) <- read_record s2;
    if negb (typ3 =? c_RecordTypeApplication) then Err TRecordType
    else
      let packet := raw1 ++ raw2 ++ raw3 in
      if zlist_eqb (hmac secret (client_random ++ zero_digest packet)) (digest_of packet)
      then Ok s3 else Err TDigest.
End Hello.
