(* Model of the CDN data path of telegram/downloader (C34): request plan (cdn_plan.go, pieces
   generated in Gen/CdnPlan.v), CTR counter of cdn.decrypt, cdn.verifyChunk and the hash queue
   of verifier.  Definitions only. *)
From Coq Require Import ZArith List Bool.
From TD Require Import Gen.CdnPlan.
Import ListNotations.
Open Scope Z_scope.

(* ---------- largestCDNValidLimit: the generated search loop, iterated with fuel ---------- *)
Fixpoint lcv_loop (fuel : nat) (size max : Z) : option Z :=
  match fuel with
  | O => None
  | S f => if lcv_cond size max
           then if lcv_found size max then Some (lcv_result size max)
                else lcv_loop f (lcv_post size max) max
           else Some (lcv_default size max)
  end.
Definition largest_valid (max : Z) : option Z :=
  lcv_loop (Z.to_nat (max / c_cdnMinChunk) + 2) (lcv_init 0 max) max.

(* ---------- buildCDNRequestPlan ---------- *)
Inductive plan_res :=
| PlanErr (code : Z)        (* 1 limit <= 0, 2 offset < 0, 3 offset unaligned, 4 limit unaligned, 5 no step *)
| PlanFuel                  (* never (Proof/Cdn.v) *)
| PlanOk (steps : list (Z * Z)).

Fixpoint plan_loop (fuel : nat) (remaining current : Z) : plan_res :=
  if remaining >? 0 then
    match fuel with
    | O => PlanFuel
    | S f =>
        let mbUsed := plan_mb_used current in
        let mbLeft := plan_mb_left mbUsed in
        let maxForStep := if plan_clip remaining mbLeft then mbLeft else remaining in
        match largest_valid maxForStep with
        | None => PlanFuel
        | Some step =>
            if plan_no_step step then PlanErr 5
            else match plan_loop f (remaining - step) (current + step) with
                 | PlanOk l => PlanOk ((current, step) :: l)
                 | r => r
                 end
        end
    end
  else PlanOk [].

Definition build_plan (offset limit : Z) : plan_res :=
  if plan_bad_limit limit then PlanErr 1
  else if plan_bad_offset offset then PlanErr 2
  else if plan_unaligned_offset offset then PlanErr 3
  else if plan_unaligned_limit limit then PlanErr 4
  else plan_loop (Z.to_nat (limit / c_cdnMinChunk) + 1) limit offset.

(* ---------- cdn.decrypt: the CTR counter ---------- *)
(* The 16-byte IV and the counter blocks are read as 128-bit big-endian numbers.  decrypt copies
   the IV, overwrites its last 4 bytes with uint32(offset/16) and hands it to cipher.NewCTR,
   which increments the WHOLE 128-bit block (carry included) for every 16 bytes. *)
Definition two32 : Z := 4294967296.
Definition two128 : Z := 340282366920938463463374607431768211456.
Definition iv_with_offset (ivz offset : Z) : Z := (ivz / two32) * two32 + ctr_low32 offset.
Definition code_counter (ivz offset k : Z) : Z := (iv_with_offset ivz offset + k) mod two128.
(* Telegram CDN documentation: block j of the file uses the IV with its last 4 bytes = j *)
Definition spec_counter (ivz j : Z) : Z := (ivz / two32) * two32 + j.

Section Decrypt.
Variable E : Z -> list Z.     (* AES-256 encryption of the counter block under the file key *)
Fixpoint xor_bytes (a b : list Z) : list Z :=
  match a, b with
  | x :: a', y :: b' => Z.lxor x y :: xor_bytes a' b'
  | _, _ => []
  end.
Fixpoint keystream (nblocks : nat) (ctr0 : Z) (k : Z) : list Z :=
  match nblocks with
  | O => []
  | S n => E ((ctr0 + k) mod two128) ++ keystream n ctr0 (k + 1)
  end.
Definition decrypt (ivz offset : Z) (src : list Z) : list Z :=
  xor_bytes src (keystream (S (length src / 16)) (iv_with_offset ivz offset) 0).
End Decrypt.

(* ---------- cdn.verifyChunk ---------- *)
Record hwin := { w_off : Z; w_limit : Z; w_hash : list Z }.

Section Verify.
Variable sha : list Z -> list Z.
Variable hash_for : Z -> option hwin.       (* hashForOffset: the window the client uses for an offset (None = error) *)
Variable fetch : hwin -> list Z.            (* c.Chunk(window.Offset, window.Limit): whatever the CDN answers *)

Definition zlen (l : list Z) : Z := Z.of_nat (length l).
Definition slice (l : list Z) (from to : Z) : list Z := firstn (Z.to_nat (to - from)) (skipn (Z.to_nat from) l).
Fixpoint bytes_eqb (a b : list Z) : bool :=
  match a, b with
  | [], [] => true
  | x :: a', y :: b' => (x =? y) && bytes_eqb a' b'
  | _, _ => false
  end.
(* copy(data[from:], patch) *)
Definition patch (data : list Z) (from : Z) (p : list Z) : list Z :=
  firstn (Z.to_nat from) data ++ p ++ skipn (Z.to_nat from + length p) data.

(* loadAndVerifyWindow (cache and singleflight are transparent) *)
Definition load_window (w : hwin) : option (list Z) :=
  let d := fetch w in
  if (zlen d =? 0) || (zlen d >? w_limit w) then None
  else if bytes_eqb (sha d) (w_hash w) then Some d else None.

Fixpoint vc_loop (fuel : nat) (cs ce : Z) (short : bool) (current : Z) (data : list Z) : option (list Z) :=
  if current <? ce then
    match fuel with
    | O => None
    | S f =>
        match hash_for current with
        | None => None
        | Some w =>
            if w_limit w <=? 0 then None else
            let ws := w_off w in
            let we := w_off w + w_limit w in
            if we <=? current then None else
            if (ws >=? cs) && (we <=? ce) then
              (* the whole window is inside the chunk *)
              if bytes_eqb (sha (slice data (ws - cs) (we - cs))) (w_hash w) then vc_loop f cs ce short we data else None
            else if short && (ws >=? cs) && (ws <? ce) && (we >? ce) then
              (* final short chunk: the hash covers the remaining tail *)
              if bytes_eqb (sha (skipn (Z.to_nat (ws - cs)) data)) (w_hash w) then Some data else None
            else
              (* the window crosses the chunk: fetch and verify it as a whole, patch the overlap *)
              match load_window w with
              | None => None
              | Some wd =>
                  let os := Z.max cs ws in
                  let wde := ws + zlen wd in
                  let oe := Z.min ce wde in
                  if oe <=? os then None else
                  if (wde <? we) && (ce >? wde) then None else          (* fix ed0666765 *)
                  if short && (wde >? ce) then None else                (* fix fcda6d0cb *)
                  vc_loop f cs ce short we (patch data (os - cs) (slice wd (os - ws) (oe - ws)))
              end
        end
    end
  else Some data.

Definition verify_chunk (offset requestedLimit : Z) (data : list Z) : option (list Z) :=
  match data with
  | [] => Some []
  | _ =>
      let short := (requestedLimit >? 0) && (zlen data <? requestedLimit) in
      vc_loop (length data) offset (offset + zlen data) short offset data
  end.
End Verify.

(* ---------- verifier.verify (WithVerify(true)): the WHOLE received chunk is hashed ---------- *)
Definition vq_verify (sha : list Z -> list Z) (h : hwin) (data : list Z) : bool :=
  bytes_eqb (sha data) (w_hash h).

(* ---------- verifier: the hash queue ---------- *)
Record vstate := { q_hashes : list hwin; q_offset : Z }.

(* stable insertion sort by offset (sort.SliceStable) *)
Fixpoint ins_off (x : hwin) (l : list hwin) : list hwin :=
  match l with
  | [] => [x]
  | y :: t => if w_off x <=? w_off y then x :: y :: t else y :: ins_off x t
  end.
Definition sort_off (l : list hwin) : list hwin := fold_right ins_off [] l.

Definition new_verifier (hs : list hwin) : vstate :=
  let r := sort_off hs in
  {| q_hashes := r;
     q_offset := fold_left (fun acc h => if w_limit h <=? 0 then acc else Z.max acc (w_off h + w_limit h)) r 0 |}.

Definition v_pop (v : vstate) : option hwin * vstate :=
  match q_hashes v with
  | [] => (None, v)
  | h :: t => (Some h, {| q_hashes := t; q_offset := q_offset v |})
  end.

Definition v_update (v : vstate) (hs : list hwin) : option hwin * vstate :=
  match sort_off hs with
  | [] => (None, v)
  | s =>
      let last := List.last s {| w_off := 0; w_limit := 0; w_hash := [] |} in
      if w_off last =? q_offset v - w_limit last then (None, v)
      else v_pop {| q_hashes := q_hashes v ++ s; q_offset := w_off last + w_limit last |}
  end.

(* verifier.next against a hash server: pop, or ask for the windows at the current offset *)
Definition v_next (server : Z -> list hwin) (v : vstate) : option hwin * vstate :=
  match q_hashes v with
  | _ :: _ => v_pop v
  | [] => v_update v (server (q_offset v))
  end.

Fixpoint v_drain (server : Z -> list hwin) (fuel : nat) (v : vstate) : list hwin * bool :=
  match fuel with
  | O => ([], false)
  | S f => match v_next server v with
           | (Some h, v') => let '(l, fin) := v_drain server f v' in (h :: l, fin)
           | (None, _) => ([], true)
           end
  end.

(* ---------- cdn.Chunk in CDN mode: walking the request plan ---------- *)
(* cdn_state_machine.go, partLoop: for every step of the plan one upload.getCdnFile; an answer longer
   than the step's limit is an error (fix 833ec1650); the decrypted part is appended; the first part
   shorter than its limit ends the walk ("reached file tail").  Redirect refresh, reupload and
   fingerprint events restart the whole chunk and are not part of this model. *)
Section Chunk.
Variable E : Z -> list Z.                       (* AES-256 under the file key *)
Variable ivz : Z.
Variable answers : Z -> Z -> list Z.            (* the CDN's (encrypted) answer to getCdnFile(offset, limit): anything *)

Fixpoint assemble (steps : list (Z * Z)) (data : list Z) : option (list Z) :=
  match steps with
  | [] => Some data
  | (o, l) :: t =>
      let a := answers o l in
      if Z.of_nat (length a) >? l then None
      else let part := decrypt E ivz o a in
           if Z.of_nat (length part) <? l then Some (data ++ part) else assemble t (data ++ part)
  end.

Variable sha : list Z -> list Z.
Variable hash_for : Z -> option hwin.
Variable fetch : hwin -> list Z.

Definition cdn_chunk (offset limit : Z) : option (list Z) :=
  match build_plan offset limit with
  | PlanOk steps =>
      match assemble steps [] with
      | Some data => verify_chunk sha hash_for fetch offset limit data
      | None => None
      end
  | _ => None
  end.
End Chunk.

(* the same walk on lengths only: which requests are made for one chunk, given the lengths of the answers
   (taken from a list in order); result: requests, length of the chunk, error flag, remaining lengths *)
Fixpoint walk_lens (steps : list (Z * Z)) (lens : list Z) (acc : Z) : list (Z * Z) * Z * bool * list Z :=
  match steps with
  | [] => ([], acc, false, lens)
  | (o, l) :: t =>
      match lens with
      | [] => ([], acc, true, [])           (* the log ends here *)
      | n :: lens' =>
          if n >? l then ([(o, l)], acc, true, lens')
          else if n <? l then ([(o, l)], acc + n, false, lens')
          else let '(rs, a, e, r) := walk_lens t lens' (acc + n) in ((o, l) :: rs, a, e, r)
      end
  end.
(* a streaming download with part size p: chunk k is requested at k*p; a short (or empty) chunk is the last *)
Fixpoint walk_download (fuel : nat) (p : Z) (k : Z) (lens : list Z) : list (Z * Z) :=
  match fuel with
  | O => []
  | S f =>
      match lens with
      | [] => []
      | _ =>
        match build_plan (k * p) p with
        | PlanOk steps =>
            let '(rs, a, e, r) := walk_lens steps lens 0 in
            if e then rs else if a <? p then rs else rs ++ walk_download f p (k + 1) r
        | _ => []
        end
      end
  end.
