(* Model of package crypto (message encryption): keys.go, kdf_v1.go, keys_old.go,
   cipher_encrypt.go, cipher_decrypt.go, encrypted_message_data.go, encrypted_message.go,
   bind.go and github.com/gotd/ige (C04, C05, C06).  Definitions only.

   The hash functions and the AES-256 block functions are Section variables; everything
   here follows the Go code AS WRITTEN: Go slice expressions s[lo:hi] are [gslice s lo hi],
   `copy(dst[off:], src)` into a fixed-size array is [copy_at], fixed-size arrays
   (bin.Int128 / bin.Int256) start as zero arrays.  Constants and the pure decision
   functions countPadding / getX / Side.DecryptSide / minPadding / maxPadding come from the translator
   (Gen/CipherConsts.v). *)
From Coq Require Import ZArith List Bool.
From TD Require Import Lib.Bytes Lib.GoSem Gen.CipherConsts.
Import ListNotations.
Open Scope Z_scope.

(* ---------- sides ---------- *)
Inductive side := Client | Server.
Definition side_z (s : side) : Z := match s with Client => c_Client | Server => c_Server end.
Definition side_of_z (z : Z) : side := if z =? c_Server then Server else Client.
(* Side.DecryptSide (generated) *)
Definition other (s : side) : side := side_of_z (decrypt_side_go (side_z s)).
(* getX (generated) *)
Definition x_of (s : side) : Z := get_x_go (side_z s).

(* ---------- Go slices, copy, byte equality ---------- *)
(* s[lo:hi]; all uses below have constant in-range bounds on fixed-size arrays/hashes *)
Definition gslice (s : list Z) (lo hi : Z) : list Z :=
  firstn (Z.to_nat (hi - lo)) (skipn (Z.to_nat lo) s).

Fixpoint overwrite (dst src : list Z) : list Z :=
  match dst, src with
  | _ :: dt, s :: st => s :: overwrite dt st
  | _, _ => dst
  end.
(* copy(dst[off:], src) : copies min(len(dst)-off, len(src)) bytes *)
Definition copy_at (dst : list Z) (off : nat) (src : list Z) : list Z :=
  firstn off dst ++ overwrite (skipn off dst) src.
(* number of bytes copied by copy(dst[off:], src) *)
Definition copied (dst : list Z) (off : nat) (src : list Z) : nat :=
  Nat.min (length dst - off) (length src).

Definition zeros (n : nat) : list Z := repeat 0 n.

Fixpoint bytes_eqb (a b : list Z) : bool :=
  match a, b with
  | [], [] => true
  | x :: a', y :: b' => (x =? y) && bytes_eqb a' b'
  | _, _ => false
  end.

Fixpoint xor_bytes (a b : list Z) : list Z :=
  match a, b with
  | x :: a', y :: b' => Z.lxor x y :: xor_bytes a' b'
  | _, _ => []
  end.

(* ---------- AES-IGE (github.com/gotd/ige EncryptBlocks / DecryptBlocks) ---------- *)
Section Ige.
  Variable f : list Z -> list Z.          (* block.Encrypt / block.Decrypt *)

  (* c = previous ciphertext block, m = previous plaintext block *)
  Fixpoint ige_enc_blocks (c m : list Z) (bs : list (list Z)) : list (list Z) :=
    match bs with
    | [] => []
    | p :: t => let y := xor_bytes (f (xor_bytes p c)) m in y :: ige_enc_blocks y p t
    end.
  Fixpoint ige_dec_blocks (c m : list Z) (bs : list (list Z)) : list (list Z) :=
    match bs with
    | [] => []
    | y :: t => let p := xor_bytes (f (xor_bytes y m)) c in p :: ige_dec_blocks y p t
    end.
End Ige.

Fixpoint chunks_f (fuel : nat) (l : list Z) : list (list Z) :=
  match fuel with
  | O => []
  | S k => match l with
           | [] => []
           | _ => firstn 16 l :: chunks_f k (skipn 16 l)
           end
  end.
Definition chunks16 (l : list Z) : list (list Z) := chunks_f (length l) l.

(* the loops without the panic guards *)
Definition ige_enc_raw (f : list Z -> list Z) (iv src : list Z) : list Z :=
  concat (ige_enc_blocks f (firstn 16 iv) (skipn 16 iv) (chunks16 src)).
Definition ige_dec_raw (f : list Z -> list Z) (iv src : list Z) : list Z :=
  concat (ige_dec_blocks f (firstn 16 iv) (skipn 16 iv) (chunks16 src)).

Inductive err :=
| ERand        (* random source exhausted (io.ReadFull error) *)
| EShort       (* io.ErrUnexpectedEOF while decoding envelope or header *)
| EKeyId       (* "unknown auth key id" *)
| EAlign       (* "invalid encrypted data padding" *)
| EMsgKey      (* "msg_key is invalid" *)
| ELenBig      (* "MessageDataLen field is bigger then MessageDataWithPadding length" *)
| ELenNeg      (* "message length is invalid: %d less than zero" *)
| ELenMod4     (* "message length is invalid: %d is not divisible by 4" *)
| EPadBig      (* "padding %d of message is too big" *)
| EPadSmall    (* "padding %d of message is too small" *)
| EZeroKey     (* bind: "permanent key is zero" *)
| EBind.       (* bind envelope / inner object does not parse (spec-side decryption only) *)

(* EncryptBlocks / DecryptBlocks panic unless len(iv) = 32 and len(src) % 16 = 0 *)
Definition ige_guard (iv src : list Z) : bool :=
  (Z.of_nat (length iv) =? 32) && (Z.rem (Z.of_nat (length src)) 16 =? 0).
Definition ige_enc (f : list Z -> list Z) (iv src : list Z) : res err (list Z) :=
  if ige_guard iv src then Ok (ige_enc_raw f iv src) else Panic.
Definition ige_dec (f : list Z -> list Z) (iv src : list Z) : res err (list Z) :=
  if ige_guard iv src then Ok (ige_dec_raw f iv src) else Panic.

(* ---------- header (EncryptedMessageData) ---------- *)
Record hdr := { h_salt : Z; h_session : Z; h_msg_id : Z; h_seq_no : Z }.   (* int64 x3, int32 *)
(* decoded EncryptedMessageData: header, MessageDataLen, MessageDataWithPadding *)
Record dec := { d_hdr : hdr; d_len : Z; d_body : list Z }.
(* EncryptedMessageData.Data() *)
Definition d_data (d : dec) : list Z := firstn (Z.to_nat (d_len d)) (d_body d).

Definition hdr_ok (h : hdr) : Prop :=
  - 2 ^ 63 <= h_salt h < 2 ^ 63 /\ - 2 ^ 63 <= h_session h < 2 ^ 63 /\
  - 2 ^ 63 <= h_msg_id h < 2 ^ 63 /\ - 2 ^ 31 <= h_seq_no h < 2 ^ 31.

(* Encode: PutLong x3, PutInt32 x2 (two's complement little endian), Put(body) *)
Definition encode_data (h : hdr) (mlen : Z) (body : list Z) : list Z :=
  le_enc 8 (h_salt h) ++ le_enc 8 (h_session h) ++ le_enc 8 (h_msg_id h) ++
  le_enc 4 (h_seq_no h) ++ le_enc 4 mlen ++ body.

Definition get_i64 (b : list Z) (off : nat) : Z := to_signed 64 (le_dec (firstn 8 (skipn off b))).
Definition get_i32 (b : list Z) (off : nat) : Z := to_signed 32 (le_dec (firstn 4 (skipn off b))).
(* field extraction of DecodeWithoutCopy on a buffer of at least 32 bytes *)
Definition parse_data (pt : list Z) : dec :=
  {| d_hdr := {| h_salt := get_i64 pt 0; h_session := get_i64 pt 8; h_msg_id := get_i64 pt 16;
                 h_seq_no := get_i32 pt 24 |};
     d_len := get_i32 pt 28; d_body := skipn 32 pt |}.
(* DecodeWithoutCopy: five reads (each fails with io.ErrUnexpectedEOF when the buffer is
   too short: jointly, when fewer than 32 bytes are present), then the length check *)
Definition decode_data (pt : list Z) : res err dec :=
  if Z.of_nat (length pt) <? 32 then Err EShort else
  let d := parse_data pt in
  if d_len d >? Z.of_nat (length (d_body d)) then Err ELenBig else Ok d.
(* the switch at the end of Cipher.Decrypt *)
Definition check_lengths (d : dec) : res err dec :=
  let n := d_len d in
  let padding_len := Z.of_nat (length (d_body d)) - n in
  if n <? 0 then Err ELenNeg
  else if negb (Z.rem n 4 =? 0) then Err ELenMod4
  else if padding_len <? c_minPadding then Err EPadSmall
  else if padding_len >? c_maxPadding then Err EPadBig
  else Ok d.

(* AuthKey{Value, ID} *)
Record authkey := { ak_value : list Z; ak_id : list Z }.
Definition authkey_ok (k : authkey) : Prop :=
  length (ak_value k) = 256%nat /\ length (ak_id k) = 8%nat.

Section WithPrimitives.
  Variable sha256 : list Z -> list Z.
  Variable sha1 : list Z -> list Z.
  Variable aes_enc aes_dec : list Z -> list Z -> list Z.     (* key -> block -> block *)

  (* ---------- keys.go (MTProto 2.0) ---------- *)
  (* msgKeyLarge: h.Write(authKey[88+x : 32+88+x]); h.Write(plaintextPadded) *)
  Definition msg_key_large (key pt : list Z) (s : side) : list Z :=
    let x := x_of s in sha256 (gslice key (88 + x) (32 + 88 + x) ++ pt).
  (* messageKey: b := messageKeyLarge[8:16+8]; copy(v[:len(b)], b), v bin.Int128 *)
  Definition message_key_of_large (large : list Z) : list Z :=
    let b := gslice large 8 (16 + 8) in copy_at (zeros 16) 0 b.
  Definition message_key (key pt : list Z) (s : side) : list Z :=
    message_key_of_large (msg_key_large key pt s).
  (* sha256a: h.Write(msgKey[:]); h.Write(authKey[x : x+36]) *)
  Definition sha256a (key mk : list Z) (x : Z) : list Z := sha256 (mk ++ gslice key x (x + 36)).
  (* sha256b: h.Write(authKey[40+x : 40+x+36]); h.Write(msgKey[:]) *)
  Definition sha256b (key mk : list Z) (x : Z) : list Z := sha256 (gslice key (40 + x) (40 + x + 36) ++ mk).
  (* aesKey: copy(v[:8], a[:8]); copy(v[8:], b[8:16+8]); copy(v[24:], a[24:24+8]), v bin.Int256 *)
  Definition aes_key_go (a b : list Z) : list Z :=
    let v := copy_at (firstn 8 (zeros 32)) 0 (gslice a 0 8) ++ skipn 8 (zeros 32) in
    let v := copy_at v 8 (gslice b 8 (16 + 8)) in
    copy_at v 24 (gslice a 24 (24 + 8)).
  (* aesIV = aesKey with swapped arguments *)
  Definition aes_iv_go (a b : list Z) : list Z := aes_key_go b a.
  Definition keys (key mk : list Z) (s : side) : list Z * list Z :=
    let x := x_of s in
    let a := sha256a key mk x in
    let b := sha256b key mk x in
    (aes_key_go a b, aes_iv_go a b).

  (* ---------- kdf_v1.go / keys_old.go (MTProto 1.0) ---------- *)
  (* MessageKeyV1: sum := sha1.Sum(plaintext); copy(v[:], sum[4:20]) *)
  Definition message_key_v1 (pt : list Z) : list Z := copy_at (zeros 16) 0 (gslice (sha1 pt) 4 20).
  Definition sha1a (key mk : list Z) (x : Z) : list Z := sha1 (mk ++ gslice key x (x + 32)).
  Definition sha1b (key mk : list Z) (x : Z) : list Z :=
    sha1 (gslice key (32 + x) (32 + x + 16) ++ mk ++ gslice key (48 + x) (48 + x + 16)).
  Definition sha1c (key mk : list Z) (x : Z) : list Z := sha1 (gslice key (64 + x) (64 + x + 32) ++ mk).
  Definition sha1d (key mk : list Z) (x : Z) : list Z := sha1 (mk ++ gslice key (96 + x) (96 + x + 32)).
  (* n := copy(key[:], a[:8]); n += copy(key[n:], b[8:20]); copy(key[n:], c[4:16]) *)
  Definition aes_key_v1_go (a b c : list Z) : list Z :=
    let v := zeros 32 in
    let s1 := gslice a 0 8 in
    let n := copied v 0 s1 in let v := copy_at v 0 s1 in
    let s2 := gslice b 8 20 in
    let n2 := (n + copied v n s2)%nat in let v := copy_at v n s2 in
    copy_at v n2 (gslice c 4 16).
  (* n = copy(iv[:], a[8:20]); n += copy(iv[n:], b[:8]); n += copy(iv[n:], c[16:20]); copy(iv[n:], d[:8]) *)
  Definition aes_iv_v1_go (a b c d : list Z) : list Z :=
    let v := zeros 32 in
    let s1 := gslice a 8 20 in
    let n := copied v 0 s1 in let v := copy_at v 0 s1 in
    let s2 := gslice b 0 8 in
    let n2 := (n + copied v n s2)%nat in let v := copy_at v n s2 in
    let s3 := gslice c 16 20 in
    let n3 := (n2 + copied v n2 s3)%nat in let v := copy_at v n2 s3 in
    copy_at v n3 (gslice d 0 8).
  (* OldKeys(authKey, msgKey, mode): the same copies with slice bounds written as [8:8+12] etc. *)
  Definition old_keys (key mk : list Z) (s : side) : list Z * list Z :=
    let x := x_of s in
    let a := sha1a key mk x in let b := sha1b key mk x in
    let c := sha1c key mk x in let d := sha1d key mk x in
    (aes_key_v1_go a b c, aes_iv_v1_go a b c d).
  (* KeysV1: x = 0 *)
  Definition keys_v1 (key mk : list Z) : list Z * list Z :=
    let a := sha1a key mk 0 in let b := sha1b key mk 0 in
    let c := sha1c key mk 0 in let d := sha1d key mk 0 in
    (aes_key_v1_go a b c, aes_iv_v1_go a b c d).

  (* ---------- cipher_encrypt.go ---------- *)
  (* encryptMessage on the already encoded plaintext [pt0]: one random byte, countPadding,
     random fill, MessageKey, Keys, IGE; then EncryptedMessage.Encode *)
  Definition seal (s : side) (k : authkey) (padded : list Z) : res err (list Z) :=
    let mk := message_key (ak_value k) padded s in
    let '(key, iv) := keys (ak_value k) mk s in
    do ct <- ige_enc (aes_enc key) iv padded;
    Ok (ak_id k ++ mk ++ ct).
  Definition padding_for (pt0 rnd : list Z) : res err (list Z) :=
    match rnd with
    | [] => Err ERand
    | rb :: rnd' =>
      let n := count_padding_go (Z.of_nat (length pt0)) rb in
      if Z.of_nat (length rnd') <? n then Err ERand else Ok (firstn (Z.to_nat n) rnd')
    end.
  Definition encrypt_plain (s : side) (k : authkey) (pt0 rnd : list Z) : res err (list Z) :=
    do pad <- padding_for pt0 rnd;
    seal s k (pt0 ++ pad).
  (* Cipher.Encrypt with EncryptedMessageData{Message: payload}: length field = len(payload) *)
  Definition encrypt (s : side) (k : authkey) (h : hdr) (payload rnd : list Z) : res err (list Z) :=
    encrypt_plain s k (encode_data h (Z.of_nat (length payload)) payload) rnd.
  (* Cipher.Encrypt with explicit MessageDataLen / MessageDataWithPadding (Message == nil) *)
  Definition encrypt_data (s : side) (k : authkey) (h : hdr) (mlen : Z) (body rnd : list Z) : res err (list Z) :=
    encrypt_plain s k (encode_data h mlen body) rnd.

  (* ---------- mtproto/new_encrypted_msg.go: Conn.newEncryptedMessage ---------- *)
  (* The connection (always the client side) fills the header from its session (salt, session id)
     and the caller's (msg_id, seq_no) on each of its three branches:
       compressThreshold <= 0                   : EncryptedMessageData{Message: payload}
       len(encoded payload) > compressThreshold : EncryptedMessageData{Message: proto.GZIP{Data: encoded}}
       otherwise                                : explicit MessageDataLen / MessageDataWithPadding.
     [gz] is the TL encoding of proto.GZIP{Data: payload} (DEFLATE itself is not modelled: the bytes
     are an input). *)
  Definition conn_body (threshold : Z) (payload gz : list Z) : list Z :=
    if threshold <=? 0 then payload
    else if Z.of_nat (length payload) >? threshold then gz else payload.
  Definition conn_encrypt (threshold : Z) (k : authkey) (salt session msg_id seq_no : Z)
             (payload gz rnd : list Z) : res err (list Z) :=
    let h := {| h_salt := salt; h_session := session; h_msg_id := msg_id; h_seq_no := seq_no |} in
    if threshold <=? 0 then encrypt Client k h payload rnd
    else if Z.of_nat (length payload) >? threshold then encrypt Client k h gz rnd
    else encrypt_data Client k h (Z.of_nat (length payload)) payload rnd.

  (* ---------- cipher_decrypt.go ---------- *)
  (* EncryptedMessage.DecodeWithoutCopy: ConsumeN(8), Int128, rest *)
  Definition open_envelope (buf : list Z) : option (list Z * list Z * list Z) :=
    if Z.of_nat (length buf) <? 24 then None
    else Some (firstn 8 buf, firstn 16 (skipn 8 buf), skipn 24 buf).
  (* Cipher.DecryptFromBuffer on the cipher of side [s] (keys use s.DecryptSide()) *)
  Definition decrypt (s : side) (k : authkey) (buf : list Z) : res err dec :=
    match open_envelope buf with
    | None => Err EShort
    | Some (kid, mk, body) =>
      if negb (bytes_eqb (ak_id k) kid) then Err EKeyId
      else if negb (Z.rem (Z.of_nat (length body)) 16 =? 0) then Err EAlign
      else
        let ds := other s in
        let '(key, iv) := keys (ak_value k) mk ds in
        do pt <- ige_dec (aes_dec key) iv body;
        if negb (bytes_eqb (message_key (ak_value k) pt ds) mk) then Err EMsgKey
        else do d <- decode_data pt; check_lengths d
    end.
  (* what the caller gets: header fields and Data() *)
  Definition decrypt_msg (s : side) (k : authkey) (buf : list Z) : res err (hdr * list Z) :=
    do d <- decrypt s k buf; Ok (d_hdr d, d_data d).

  (* the specification's acceptance conditions, spelled out (C05) *)
  Definition accept_spec (s : side) (k : authkey) (c : list Z) (d : dec) : Prop :=
    let kid := firstn 8 c in let mk := firstn 16 (skipn 8 c) in let body := skipn 24 c in
    let kv := ak_value k in
    let pt := ige_dec_raw (aes_dec (fst (keys kv mk (other s)))) (snd (keys kv mk (other s))) body in
    24 <= Z.of_nat (length c) /\
    kid = ak_id k /\
    Z.of_nat (length body) mod 16 = 0 /\
    message_key kv pt (other s) = mk /\
    32 <= Z.of_nat (length pt) /\
    d = parse_data pt /\
    0 <= d_len d <= Z.of_nat (length (d_body d)) /\
    d_len d mod 4 = 0 /\
    c_minPadding <= Z.of_nat (length (d_body d)) - d_len d <= c_maxPadding.


  (* ---------- statement vocabulary (used by the theorems of C04/C05) ---------- *)
  (* what seal returns on a block-aligned plaintext: key id, msg_key, IGE ciphertext *)
  Definition sealed (s : side) (k : authkey) (padded : list Z) : list Z :=
    let mk := message_key (ak_value k) padded s in
    ak_id k ++ mk ++
    ige_enc_raw (aes_enc (fst (keys (ak_value k) mk s))) (snd (keys (ak_value k) mk s)) padded.

  (* the plaintext a receiver of side [s] obtains from the body of [c] (before any check) *)
  Definition decrypted_plaintext (s : side) (k : authkey) (c : list Z) : list Z :=
    let mk := firstn 16 (skipn 8 c) in
    ige_dec_raw (aes_dec (fst (keys (ak_value k) mk (other s))))
                (snd (keys (ak_value k) mk (other s))) (skipn 24 c).


  (* ---------- bind.go ---------- *)
  Record bind_inner := { b_nonce : Z; b_temp_key_id : Z; b_perm_key_id : Z; b_temp_session : Z; b_expires : Z }.
  Definition bind_inner_ok (b : bind_inner) : Prop :=
    - 2 ^ 63 <= b_nonce b < 2 ^ 63 /\ - 2 ^ 63 <= b_temp_key_id b < 2 ^ 63 /\
    - 2 ^ 63 <= b_perm_key_id b < 2 ^ 63 /\ - 2 ^ 63 <= b_temp_session b < 2 ^ 63 /\
    - 2 ^ 31 <= b_expires b < 2 ^ 31.
  Definition c_BindAuthKeyInnerTypeID : Z := 0x75a3f765.
  (* BindAuthKeyInner.Encode *)
  Definition encode_bind_inner (b : bind_inner) : list Z :=
    le_enc 4 c_BindAuthKeyInnerTypeID ++ le_enc 8 (b_nonce b) ++ le_enc 8 (b_temp_key_id b) ++
    le_enc 8 (b_perm_key_id b) ++ le_enc 8 (b_temp_session b) ++ le_enc 4 (b_expires b).
  (* AuthKey.Zero *)
  Definition authkey_zero (k : authkey) : bool :=
    forallb (Z.eqb 0) (ak_value k) && forallb (Z.eqb 0) (ak_id k).
  (* EncryptBindMessage(rand, permKey, msgID, inner) *)
  Definition encrypt_bind (rnd : list Z) (k : authkey) (msg_id : Z) (b : bind_inner) : res err (list Z) :=
    if authkey_zero k then Err EZeroKey else
    let payload := encode_bind_inner b in
    if Z.of_nat (length rnd) <? 16 then Err ERand else
    let random := firstn 16 rnd in
    let rnd' := skipn 16 rnd in
    let pt := random ++ le_enc 8 msg_id ++ le_enc 4 0 ++ le_enc 4 (Z.of_nat (length payload)) ++ payload in
    let mk := message_key_v1 pt in
    let rem := Z.rem (Z.of_nat (length pt)) 16 in
    do padded <- (if negb (rem =? 0)
                  then (let padding_len := 16 - rem in
                        if Z.of_nat (length rnd') <? padding_len then Err ERand
                        else Ok (pt ++ firstn (Z.to_nat padding_len) rnd'))
                  else Ok pt);
    let '(key, iv) := keys_v1 (ak_value k) mk in
    do ct <- ige_enc (aes_enc key) iv padded;
    Ok (ak_id k ++ mk ++ ct).
End WithPrimitives.

(* ---------- hypotheses about the primitives, as predicates (never axioms) ---------- *)
(* behaviour assumed of the block cipher (hypotheses of the theorems, never axioms) *)
Definition aes_inverse (aes_enc aes_dec : list Z -> list Z -> list Z) : Prop :=
  forall k b, length b = 16%nat -> aes_dec k (aes_enc k b) = b /\ length (aes_enc k b) = 16%nat.
(* the other direction (AES is a permutation), needed only for the C05 corollaries *)
Definition aes_inverse' (aes_enc aes_dec : list Z -> list Z -> list Z) : Prop :=
  forall k b, length b = 16%nat -> aes_enc k (aes_dec k b) = b /\ length (aes_dec k b) = 16%nat.

(* the random stream is long enough for the plaintext of length n *)
Definition rnd_enough (n : Z) (rnd : list Z) : Prop :=
  match rnd with
  | [] => False
  | rb :: rnd' => count_padding_go n rb <= Z.of_nat (length rnd')
  end.

(* the input of the msg_key hash and the collision-freedom hypothesis used by the corollaries *)
Definition mac_input (key pt : list Z) (s : side) : list Z :=
  gslice key (88 + x_of s) (32 + 88 + x_of s) ++ pt.
(* the 128 middle bits of SHA-256 do not collide on the two given inputs *)
Definition no_collision (sha256 : list Z -> list Z) (a b : list Z) : Prop :=
  message_key_of_large (sha256 a) = message_key_of_large (sha256 b) -> a = b.
(* an explicit collision of the 128 middle bits of SHA-256: two DIFFERENT inputs with the same msg_key *)
Definition collision (sha256 : list Z -> list Z) (a b : list Z) : Prop :=
  a <> b /\ message_key_of_large (sha256 a) = message_key_of_large (sha256 b).
