(* C29 -- one invocation through telegram.Client.invokeConn (/repo/telegram/invoke.go)
   composed with the outcome classes of an RPC on a connection that dies
   (/repo/rpc/engine.go: Do / retryUntilAck; /repo/telegram/internal/manager/conn.go:
   waitSession) and with the reconnect loop replacing the primary connection
   (/repo/telegram/connect.go: reconnectUntilClosed -> replaceConn).  Definitions only.

   Outcome classes of conn.Invoke when its connection dies (rpc/engine.go):
   * not sent yet, or sent but not acknowledged (client's view: the ack was not processed)
     -> pool.ErrConnDead / rpc.ErrEngineClosed, or the write itself failed on the closed /
     reset connection (net.ErrClosed, EPIPE, ECONNRESET; retryable since fix 95d0cca43 --
     before it the caller got the write error: finding "unacked-request-failed:send-error"):
     RETRYABLE (errRetryableOnNewConn);
   * acknowledged, result not received -> "engine forcibly closed" wrapping
     context.Canceled: NOT retryable, returned to the caller.
   invokeConn: snapshot (conn, connChanged) under connMux; Invoke; on a retryable error wait
   for connChanged | caller ctx | client ctx; on connChanged loop.

   A labelled transition system; connections are generations 0,1,2,...; the reconnect
   machinery (dialing, key exchange, init) is the pair of environment events [EReplace]
   (the notify callback of backoff.RetryNotify installs the new connection) and [EStart] (after
   the backoff pause the loop runs it) -- exercised by the harness, not modelled further.  Every send that reaches the
   server executes the request there (a re-sent request has a new msg_id). *)
From Coq Require Import List ZArith Bool Arith.
Import ListNotations.

Inductive cstate := Unsent | SentLost | SentUnacked | Acked.
(* SentLost: written by the client, never received by the server *)

Inductive result :=
| RRes (v : Z)        (* the RPC result *)
| RErrAcked           (* engine forcibly closed after the ack: not retried *)
| RCtx                (* caller's context done *)
| RClosed.            (* client closed while waiting for a reconnect *)

Inductive phase :=
| Idle                               (* top of the invokeConn loop *)
| OnConn (g : nat) (s : cstate)      (* inside conn.Invoke on generation g *)
| Waiting (g : nat)                  (* select on connChanged of generation g | ctx | client ctx *)
| Returned (r : result).

Record state := mkSt {
  ph : phase;
  cur_gen : nat;                (* c.conn is generation cur_gen *)
  dead : list nat;              (* generations whose connection died *)
  closed : bool;                (* client ctx done *)
  cancelled : bool;             (* caller ctx done *)
  nsends : nat;                 (* executions of the request on the server *)
  acked : bool;                 (* ghost: the client processed an ack for some send *)
  sends_at_ack : nat;           (* ghost: nsends when that happened *)
  paused : bool                 (* the current generation was installed by the reconnect loop's notify callback
                                   and is NOT running yet: backoff.RetryNotify sleeps before it calls conn.Run *)
}.

Inductive event :=
| ESnapshot                 (* invocation: read c.conn / c.connChanged, call conn.Invoke *)
| ESend                     (* invocation: request written and received by the server (executes) *)
| ESendLost                 (* invocation: request written, lost with the connection *)
| EAck                      (* network+client: msgs_ack processed by the rpc engine *)
| EResult (v : Z)           (* network+client: rpc_result processed *)
| EObserveDead              (* invocation: conn.Invoke returns because its connection died *)
| EWake                     (* invocation: select chose connChanged *)
| EWakeClosed               (* invocation: select chose client ctx *)
| EWakeCtx                  (* invocation: select / Do chose the caller's ctx *)
| EKill (g : nat)           (* environment: connection of generation g dies *)
| EReplace                  (* environment: reconnect loop installs a new connection (replaceConn); it is not run yet *)
| EStart                    (* environment: the backoff pause ends, the loop calls Run of the installed connection;
                               with the client already closed its context is cancelled and it dies at once *)
| EClose                    (* environment: client closed (every RUNNING connection dies) *)
| ECancel.                  (* environment: caller cancels its ctx *)

Definition is_dead (st : state) (g : nat) : bool := existsb (Nat.eqb g) (dead st).
(* generation g cannot carry traffic: dead, or installed and not yet running (an invocation on it
   sits in manager.Conn.waitSession: neither gotConfig nor dead is signalled) *)
Definition unusable (st : state) (g : nat) : bool := is_dead st g || (paused st && Nat.eqb g (cur_gen st)).
Definition set_ph (st : state) (p : phase) : state :=
  mkSt p (cur_gen st) (dead st) (closed st) (cancelled st) (nsends st) (acked st) (sends_at_ack st) (paused st).

Definition step (st : state) (e : event) : option state :=
  match e, ph st with
  | ESnapshot, Idle => Some (set_ph st (OnConn (cur_gen st) Unsent))
  | ESend, OnConn g Unsent =>
      if unusable st g then None
      else Some (mkSt (OnConn g SentUnacked) (cur_gen st) (dead st) (closed st) (cancelled st) (S (nsends st)) (acked st) (sends_at_ack st) (paused st))
  | ESendLost, OnConn g Unsent =>
      if unusable st g then None else Some (set_ph st (OnConn g SentLost))
  | EAck, OnConn g SentUnacked =>
      if unusable st g then None
      else Some (mkSt (OnConn g Acked) (cur_gen st) (dead st) (closed st) (cancelled st) (nsends st) true (nsends st) (paused st))
  | EResult v, OnConn g SentUnacked | EResult v, OnConn g Acked =>
      if unusable st g then None else Some (set_ph st (Returned (RRes v)))
  | EObserveDead, OnConn g s =>
      if is_dead st g then
        match s with
        | Acked => Some (set_ph st (Returned RErrAcked))
        | _ => Some (set_ph st (Waiting g))           (* retryable error: wait for a new connection *)
        end
      else None
  | EWake, Waiting g => if Nat.ltb g (cur_gen st) then Some (set_ph st Idle) else None
  | EWakeClosed, Waiting g => if closed st then Some (set_ph st (Returned RClosed)) else None
  | EWakeCtx, Waiting g | EWakeCtx, OnConn g _ => if cancelled st then Some (set_ph st (Returned RCtx)) else None
  | EKill g, _ => if unusable st g || negb (Nat.leb g (cur_gen st)) then None
                  else Some (mkSt (ph st) (cur_gen st) (g :: dead st) (closed st) (cancelled st) (nsends st) (acked st) (sends_at_ack st) (paused st))
  | EReplace, _ =>
      (* the loop replaces the connection only after it died, and never after close *)
      if is_dead st (cur_gen st) && negb (closed st)
      then Some (mkSt (ph st) (S (cur_gen st)) (dead st) (closed st) (cancelled st) (nsends st) (acked st) (sends_at_ack st) true)
      else None
  | EStart, _ =>
      if paused st
      then Some (mkSt (ph st) (cur_gen st) (if closed st then cur_gen st :: dead st else dead st)
                      (closed st) (cancelled st) (nsends st) (acked st) (sends_at_ack st) false)
      else None
  | EClose, _ =>
      Some (mkSt (ph st) (cur_gen st) (seq 0 (if paused st then cur_gen st else S (cur_gen st)) ++ dead st) true
                 (cancelled st) (nsends st) (acked st) (sends_at_ack st) (paused st))
  | ECancel, _ =>
      Some (mkSt (ph st) (cur_gen st) (dead st) (closed st) true (nsends st) (acked st) (sends_at_ack st) (paused st))
  | _, _ => None
  end.

Fixpoint run (st : state) (es : list event) : option state :=
  match es with
  | [] => Some st
  | e :: t => match step st e with Some st' => run st' t | None => None end
  end.

Definition init : state := mkSt Idle 0 [] false false 0 false 0 false.

(* the invocation's own next step once the client is closed (no environment help needed);
   [prefer_wake]: which ready case the select picks when connChanged is ready too *)
Definition own_next (prefer_wake : bool) (st : state) : option event :=
  match ph st with
  | Idle => Some ESnapshot
  | OnConn _ _ => Some EObserveDead
  | Waiting g => if prefer_wake && Nat.ltb g (cur_gen st) then Some EWake else Some EWakeClosed
  | Returned _ => None
  end.
Fixpoint run_own (prefer_wake : bool) (fuel : nat) (st : state) : state :=
  match fuel with
  | O => st
  | S k => match own_next prefer_wake st with
           | Some e => match step st e with Some st' => run_own prefer_wake k st' | None => st end
           | None => st
           end
  end.
Definition returned (st : state) : bool := match ph st with Returned _ => true | _ => false end.

