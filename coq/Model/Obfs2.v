(* Model of mtproxy/obfuscated2 (keys_util.go generateInit, keys.go createStreams/generateKeys,
   obfuscated2.go Handshake/Write/Read, server.go Accept) and of the tag replay of
   transport/obfuscated.go, as the code is after fix commit 7d0ada58d (Read decrypts data that
   arrives together with an error).

   AES-256-CTR is an abstract keystream [ks key iv pos] (byte at stream position pos) and SHA-256
   an abstract function: Section variables.  In the correspondence run the harness passes the
   keystream bytes and derived keys it computed with crypto/aes, cipher.NewCTR and crypto/sha256
   as oracle input (modelled, not verified).  The reserved-prefix tests come from
   Gen/Obfs2Consts.v (xlate of generateInit, every run). *)
From Coq Require Import ZArith List Bool Lia.
From TD Require Import Lib.Bytes Lib.GoSem Lib.RunLib Gen.Obfs2Consts.
Import ListNotations.
Open Scope Z_scope.

Definition bytes := list Z.
Definition zlen (l : bytes) : Z := Z.of_nat (length l).

Inductive oerr := OEof | OUnexpEof | OSecretSize | OOutOfFuel.

Definition read_full (k : Z) (s : bytes) : res oerr (bytes * bytes) :=
  if k <=? 0 then Ok ([], s)
  else if k <=? zlen s then Ok (firstn (Z.to_nat k) s, skipn (Z.to_nat k) s)
  else match s with [] => Err OEof | _ => Err OUnexpEof end.

(* generateInit: a 64-byte candidate is rejected when it starts with a reserved pattern *)
Definition acceptable (cand : bytes) : bool :=
  negb (reserved_first_byte_go (nth 0 cand 0)) &&
  negb (reserved_first_int_go (le_dec (firstn 4 cand))) &&
  negb (reserved_second_int_go (le_dec (firstn 4 (skipn 4 cand)))).

Fixpoint gen_init (fuel : nat) (rnd : bytes) : res oerr (bytes * bytes) :=
  match fuel with
  | O => Err OOutOfFuel
  | S f =>
    do (cand, rest) <- read_full 64 rnd;
    if acceptable cand then Ok (cand, rest) else gen_init f rest
  end.

Section Obfs.
Variable ks : bytes -> bytes -> Z -> Z.   (* AES-256-CTR keystream byte: key, iv, position *)
Variable sha256 : bytes -> bytes.

(* cipher.Stream.XORKeyStream on a stream positioned at [pos] *)
Fixpoint xor_from (key iv : bytes) (pos : Z) (data : bytes) : bytes :=
  match data with
  | [] => []
  | b :: t => Z.lxor b (ks key iv pos) :: xor_from key iv (pos + 1) t
  end.

Record keys := { ek : bytes; eiv : bytes; dk : bytes; div : bytes }.

Definition rev48 (init : bytes) : bytes := rev (firstn 48 (skipn 8 init)).   (* getDecryptInit *)
Definition derive (secret key : bytes) : bytes :=
  match secret with [] => key | _ => sha256 (key ++ firstn 16 secret) end.

(* createStreams(init, secret): key material only depends on init[8:56] *)
Definition create_streams (init secret : bytes) : res oerr keys :=
  if (0 <? zlen secret) && (zlen secret <? 16) then Err OSecretSize
  else Ok {| ek := derive secret (firstn 32 (skipn 8 init)); eiv := firstn 16 (skipn 40 init);
             dk := derive secret (firstn 32 (rev48 init)); div := firstn 16 (skipn 32 (rev48 init)) |}.

(* a cipher.Stream (createCTR key iv): key, iv and the number of keystream bytes consumed *)
Record cstream := { s_key : bytes; s_iv : bytes; s_pos : Z }.
Definition new_ctr (key iv : bytes) : cstream := {| s_key := key; s_iv := iv; s_pos := 0 |}.
(* XORKeyStream(dst, src): output and the advanced stream *)
Definition xor_stream (st : cstream) (data : bytes) : bytes * cstream :=
  (xor_from (s_key st) (s_iv st) (s_pos st) data,
   {| s_key := s_key st; s_iv := s_iv st; s_pos := s_pos st + zlen data |}).
(* Obfuscated2.keys: the encrypt and the decrypt stream of one side *)
Record endpoint := { enc : cstream; dec : cstream }.

(* generateKeys + Handshake: (header written to the connection, the client's two streams AS THEY
   STAND after the handshake, unread randomness).  k.encrypt.XORKeyStream(encryptedInit, init)
   runs all 64 bytes of init through the encrypt stream. *)
Definition client_handshake (fuel : nat) (rnd protocol : bytes) (dc : Z) (secret : bytes)
  : res oerr (bytes * endpoint * bytes) :=
  do (init, rest) <- gen_init fuel rnd;
  do k <- create_streams init secret;
  let init' := firstn 56 init ++ protocol ++ le_enc 2 dc ++ skipn 62 init in   (* uint16(dc) *)
  let '(encd, e1) := xor_stream (new_ctr (ek k) (eiv k)) init' in
  Ok (firstn 56 init ++ firstn 8 (skipn 56 encd),
      {| enc := e1; dec := new_ctr (dk k) (div k) |}, rest).

(* Accept: ((protocol, dc), the server's two streams after Accept, rest of the stream).
   createStreams on the received header, "k.encrypt, k.decrypt = k.decrypt, k.encrypt", then
   k.decrypt.XORKeyStream(decrypted, buf) runs the 64 header bytes through the decrypt stream. *)
Definition server_accept (s secret : bytes) : res oerr ((bytes * Z) * endpoint * bytes) :=
  do (hdr, rest) <- read_full 64 s;
  do k <- create_streams hdr secret;
  let srv_decrypt := new_ctr (ek k) (eiv k) in       (* after the swap *)
  let srv_encrypt := new_ctr (dk k) (div k) in
  let '(decd, d1) := xor_stream srv_decrypt hdr in
  Ok ((firstn 4 (skipn 56 decd), le_dec (firstn 2 (skipn 60 decd))),
      {| enc := srv_encrypt; dec := d1 |}, rest).

(* Write calls: every call encrypts its argument and advances the stream *)
Fixpoint send_all (key iv : bytes) (pos : Z) (ws : list bytes) : bytes :=
  match ws with
  | [] => []
  | w :: t => xor_from key iv pos w ++ send_all key iv (pos + zlen w) t
  end.

(* Read calls: the underlying reader delivers chunks, each possibly together with an error
   (n > 0 and err != nil); the n bytes are decrypted in either case, reading stops at an error *)
Fixpoint recv_all (key iv : bytes) (pos : Z) (chunks : list (bytes * bool)) : bytes :=
  match chunks with
  | [] => []
  | (c, err) :: t =>
    xor_from key iv pos c ++ (if err then [] else recv_all key iv (pos + zlen c) t)
  end.

(* Obfuscated2.Write / Read on a stream state: all Write calls complete (a conn.Write that fails
   or writes fewer bytes ends the session: the key stream has advanced by len(b) regardless) *)
Definition send_on (st : cstream) (ws : list bytes) : bytes := send_all (s_key st) (s_iv st) (s_pos st) ws.
Definition recv_on (st : cstream) (chunks : list (bytes * bool)) : bytes := recv_all (s_key st) (s_iv st) (s_pos st) chunks.

End Obfs.

(* transport/obfuscated.go: the accepted connection replays the protocol tag in front of the
   decrypted stream -- one byte for abridged, four bytes otherwise *)
Definition replay_tag (protocol : bytes) : bytes :=
  if obf_tag_is_abridged_go (nth 0 protocol 0) then firstn 1 protocol else protocol.
