(* Model of mtproxy/obfuscated2 (keys_util.go generateInit, keys.go createStreams/generateKeys,
   obfuscated2.go Handshake/Write/Read, server.go Accept) and of the tag replay of
   transport/obfuscated.go, as the code is after fix commit 7d0ada58d (Read decrypts data that
   arrives together with an error).

   AES-256-CTR is an abstract keystream [ks key iv pos] (byte at stream position pos) and SHA-256
   an abstract function: Section variables.  In the correspondence run the harness passes the
   keystream bytes and derived keys it computed with crypto/aes, cipher.NewCTR and crypto/sha256
   as oracle input (modelled, not verified).  The reserved-prefix tests come from
   Gen/Obfs2Consts.v (xlate of generateInit, every run). *)
From Coq Require Import ZArith List Bool Lia.
From TD Require Import Lib.Bytes Lib.GoSem Lib.RunLib Gen.Obfs2Consts.
Import ListNotations.
Open Scope Z_scope.

Definition bytes := list Z.
Definition zlen (l : bytes) : Z := Z.of_nat (length l).

Inductive oerr := OEof | OUnexpEof | OSecretSize | OOutOfFuel.

Definition read_full (k : Z) (s : bytes) : res oerr (bytes * bytes) :=
  if k <=? 0 then Ok ([], s)
  else if k <=? zlen s then Ok (firstn (Z.to_nat k) s, skipn (Z.to_nat k) s)
  else match s with [] => Err OEof | _ => Err OUnexpEof end.

(* generateInit: a 64-byte candidate is rejected when it starts with a reserved pattern *)
Definition acceptable (cand : bytes) : bool :=
  negb (reserved_first_byte_go (nth 0 cand 0)) &&
  negb (reserved_first_int_go (le_dec (firstn 4 cand))) &&
  negb (reserved_second_int_go (le_dec (firstn 4 (skipn 4 cand)))).

Fixpoint gen_init (fuel : nat) (rnd : bytes) : res oerr (bytes * bytes) :=
  match fuel with
  | O => Err OOutOfFuel
  | S f =>
    do (cand, rest) <- read_full 64 rnd;
    if acceptable cand then Ok (cand, rest) else gen_init f rest
  end.

Section Obfs.
Variable ks : bytes -> bytes -> Z -> Z.   (* AES-256-CTR keystream byte: key, iv, position *)
Variable sha256 : bytes -> bytes.

(* cipher.Stream.XORKeyStream on a stream positioned at [pos] *)
Fixpoint xor_from (key iv : bytes) (pos : Z) (data : bytes) : bytes :=
  match data with
  | [] => []
  | b :: t => Z.lxor b (ks key iv pos) :: xor_from key iv (pos + 1) t
  end.

Record keys := { ek : bytes; eiv : bytes; dk : bytes; div : bytes }.

Definition rev48 (init : bytes) : bytes := rev (firstn 48 (skipn 8 init)).   (* getDecryptInit *)
Definition derive (secret key : bytes) : bytes :=
  match secret with [] => key | _ => sha256 (key ++ firstn 16 secret) end.

(* createStreams(init, secret): key material only depends on init[8:56] *)
Definition create_streams (init secret : bytes) : res oerr keys :=
  if (0 <? zlen secret) && (zlen secret <? 16) then Err OSecretSize
  else Ok {| ek := derive secret (firstn 32 (skipn 8 init)); eiv := firstn 16 (skipn 40 init);
             dk := derive secret (firstn 32 (rev48 init)); div := firstn 16 (skipn 32 (rev48 init)) |}.

(* generateKeys + Handshake: (header written to the connection, keys, unread randomness).
   Afterwards the client's encrypt stream stands at position 64, its decrypt stream at 0. *)
Definition client_handshake (fuel : nat) (rnd protocol : bytes) (dc : Z) (secret : bytes)
  : res oerr (bytes * keys * bytes) :=
  do (init, rest) <- gen_init fuel rnd;
  do k <- create_streams init secret;
  let init' := firstn 56 init ++ protocol ++ le_enc 2 dc ++ skipn 62 init in   (* uint16(dc) *)
  let enc := xor_from (ek k) (eiv k) 0 init' in
  Ok (firstn 56 init ++ firstn 8 (skipn 56 enc), k, rest).

(* Accept: ((protocol, dc), keys as the CLIENT names them, rest of the stream).  The server
   decrypts with (ek, eiv) -- positioned at 64 afterwards -- and encrypts with (dk, div) from 0. *)
Definition server_accept (s secret : bytes) : res oerr ((bytes * Z) * keys * bytes) :=
  do (hdr, rest) <- read_full 64 s;
  do k <- create_streams hdr secret;
  let dec := xor_from (ek k) (eiv k) 0 hdr in
  Ok ((firstn 4 (skipn 56 dec), le_dec (firstn 2 (skipn 60 dec))), k, rest).

(* Write calls: every call encrypts its argument and advances the stream *)
Fixpoint send_all (key iv : bytes) (pos : Z) (ws : list bytes) : bytes :=
  match ws with
  | [] => []
  | w :: t => xor_from key iv pos w ++ send_all key iv (pos + zlen w) t
  end.

(* Read calls: the underlying reader delivers chunks, each possibly together with an error
   (n > 0 and err != nil); the n bytes are decrypted in either case, reading stops at an error *)
Fixpoint recv_all (key iv : bytes) (pos : Z) (chunks : list (bytes * bool)) : bytes :=
  match chunks with
  | [] => []
  | (c, err) :: t =>
    xor_from key iv pos c ++ (if err then [] else recv_all key iv (pos + zlen c) t)
  end.

End Obfs.

(* transport/obfuscated.go: the accepted connection replays the protocol tag in front of the
   decrypted stream -- one byte for abridged, four bytes otherwise *)
Definition replay_tag (protocol : bytes) : bytes :=
  if obf_tag_is_abridged_go (nth 0 protocol 0) then firstn 1 protocol else protocol.
