(* Byte level of the key exchange (extension of Model/Exchange.v, C09 / C10): the PLAINTEXT
   exchange messages as TL values of the generated mt schema (Gen/SchemaMt.v, interpreted by the
   generic Model/TlSchema.v of C21) inside the unencrypted_message framing of Model/ProtoMsg.v
   (C22), and the client as a function of the BYTES it receives.  The encrypted blobs
   (encrypted_data, encrypted_answer) are opaque byte strings here: cipher types = list Z.
   Definitions only. *)
From Coq Require Import ZArith List Bool Lia.
From TD Require Import Lib.GoSem Lib.Bytes Lib.RunLib Lib.BigIntSem Model.TlPrim Model.TlSchema Gen.SchemaMt
                       Model.ProtoMsg Gen.DhCheck Model.Exchange.
Import ListNotations.
Open Scope Z_scope.

(* big.Int.Bytes / SetBytes *)
Definition be_min (z : Z) : list Z := be_enc (Z.to_nat ((bitlen z + 7) / 8)) z.
Definition be_val (l : list Z) : Z := le_dec (rev l).

(* a Go []byte field: empty = nil *)
Definition vbytes (b : list Z) : value := match b with [] => VNil | _ => VBy b end.
Definition of_vbytes (v : value) : option (list Z) :=
  match v with VNil => Some [] | VBy b => Some b | _ => None end.
Definition vlongs (l : list Z) : value := match l with [] => VNil | _ => VVec (map VZ l) end.
Definition of_vlongs (v : value) : option (list Z) :=
  match v with
  | VNil => Some []
  | VVec l => Some (map (fun x => match x with VZ z => z | _ => 0 end) l)
  | _ => None
  end.

(* positions of the exchange constructors in the generated schema (pinned by
   Proof/ExchangeWire.v wire_ctor_ids against the constructor ids of mt.tl) *)
Definition ci_respq : Z := 0.
Definition ci_sdh_fail : Z := 4.
Definition ci_sdh_ok : Z := 5.
Definition ci_gen_ok : Z := 8.
Definition ci_gen_retry : Z := 9.
Definition ci_gen_fail : Z := 10.
Definition ci_req_pq_multi : Z := 36.
Definition ci_req_dh : Z := 37.
Definition ci_set_dh : Z := 38.
Definition id_of (ci : Z) : Z := match ctor_at mt_schema ci with Some c => c_id c | None => -1 end.
Definition cls_of (ci : Z) : Z := match ctor_at mt_schema ci with Some c => c_cls c | None => -1 end.

(* ---------- records <-> TL values ---------- *)
Definition v_req_pq (n : nonce) : value := VObj (id_of ci_req_pq_multi) [VBy n].
Definition v_respq (m : res_pq) : value :=
  VObj (id_of ci_respq) [VBy (rp_nonce m); VBy (rp_server_nonce m); vbytes (be_min (rp_pq m)); vlongs (rp_fps m)].
Definition of_v_respq (v : value) : option res_pq :=
  match v with
  | VObj _ [VBy n; VBy sn; pq; fps] =>
      match of_vbytes pq, of_vlongs fps with
      | Some b, Some l => Some {| rp_nonce := n; rp_server_nonce := sn; rp_pq := be_val b; rp_fps := l |}
      | _, _ => None
      end
  | _ => None
  end.
Definition v_req_dh (m : req_dh (list Z)) : value :=
  VObj (id_of ci_req_dh) [VBy (rd_nonce _ m); VBy (rd_server_nonce _ m); vbytes (be_min (rd_p _ m)); vbytes (be_min (rd_q _ m));
                          VZ (rd_fp _ m); vbytes (rd_enc _ m)].
Definition v_sdh_ok (n sn : nonce) (enc : list Z) : value := VObj (id_of ci_sdh_ok) [VBy n; VBy sn; vbytes enc].
Definition of_v_sdh (v : value) : server_dh (list Z) :=
  match v with
  | VObj id [VBy n; VBy sn; e] =>
      if id =? id_of ci_sdh_ok then match of_vbytes e with Some b => SdhOk _ n sn b | None => SdhOther _ end
      else if id =? id_of ci_sdh_fail then SdhFail _ else SdhOther _
  | _ => SdhOther _
  end.
Definition v_set_dh (m : set_dh (list Z)) : value :=
  VObj (id_of ci_set_dh) [VBy (sd_nonce _ m); VBy (sd_server_nonce _ m); vbytes (sd_enc _ m)].
Definition v_gen_ok (n sn : nonce) (h : list Z) : value := VObj (id_of ci_gen_ok) [VBy n; VBy sn; VBy h].
Definition of_v_gen (v : value) : dh_gen :=
  match v with
  | VObj id [VBy n; VBy sn; VBy h] =>
      if id =? id_of ci_gen_ok then GenOk n sn h
      else if id =? id_of ci_gen_retry then GenRetry
      else if id =? id_of ci_gen_fail then GenFail else GenOther
  | _ => GenOther
  end.

(* ---------- bytes ---------- *)
(* TL body of a message / an unencrypted_message carrying it *)
Definition body_of (t : ty) (v : value) : res TlSchema.serr (list Z) := encode mt_schema t v.
Definition wire_of (msg_id : Z) (t : ty) (v : value) : res TlSchema.serr (list Z) :=
  match body_of t v with Ok b => Ok (encode_unencrypted msg_id b) | Err e => Err e | Panic => Panic end.
(* decoding what arrives: framing, then the TL body, which must be consumed entirely *)
Definition value_of_body (t : ty) (body : list Z) : option value :=
  match decode mt_schema t (std_fuel body) body with
  | Ok (v, []) => Some v
  | _ => None
  end.
Definition value_of_wire (t : ty) (payload : list Z) : option value :=
  match decode_unencrypted payload with
  | Ok (_, body, _) => value_of_body t body
  | _ => None
  end.

Section BytesClient.
  Variables pubkey cipher1 cipher3 : Type.
  Variable fp : pubkey -> Z.
  Variable rsa_enc : pubkey -> pq_inner -> cipher1.
  Variable ans_dec : nonce -> nonce -> list Z -> option sdh_inner.
  Variable cin_enc : nonce -> nonce -> cdh_inner -> cipher3.
  Variable powmod : Z -> Z -> Z -> Z.
  Variable prime : Z -> bool.
  Variable factor : Z -> option (Z * Z).
  Variable nonce_hash1 : nonce -> list Z -> list Z.
  Variable key_id : list Z -> list Z.

  (* the client of Model/Exchange.v fed with the TL BODIES of the three server messages
     (mt.ResPQ.Decode; mt.DecodeServerDHParams; mt.DecodeSetClientDHParamsAnswer) *)
  Definition client_run_bodies (cf : cconf pubkey) (r : crand) (b2 b5 b7 : list Z) : res cerr kex_result :=
    match option_map of_v_respq (value_of_body (TBoxed ci_respq) b2) with
    | Some (Some m2) =>
        let m5 := match value_of_body (TClass (cls_of ci_sdh_ok)) b5 with Some v => of_v_sdh v | None => SdhOther _ end in
        let m7 := match value_of_body (TClass (cls_of ci_gen_ok)) b7 with Some v => of_v_gen v | None => GenOther end in
        client_run pubkey cipher1 (list Z) cipher3 fp rsa_enc ans_dec cin_enc powmod prime factor nonce_hash1 key_id cf r m2 m5 m7
    | _ => Err EUnexpected
    end.
End BytesClient.
