(* Model of telegram/message/entity: Builder (write.go, format.go, options.go, token.go,
   fix.go) as it is after the C35 fix (fixEntities clamps every entity).  Definitions only.

   Text is a byte list; Go's string decoding (range over string, utf8.DecodeRune) is
   Lib/Utf.go_decode; utf16RuneLen and entitySorter.Less are GENERATED from the source
   (Gen/EntityUtf.v, Gen/EntityLess.v).  Entities are Model.EntitySort.ent records
   (offset, length, tag); a tag is kind + 64*haslang + 128*uid with kind 1 = Code,
   2 = Pre (the only kinds ShrinkPreCode looks at); formatter payloads are opaque. *)
From Coq Require Import ZArith List Bool Permutation.
From TD Require Import Lib.GoSem Lib.Utf Gen.EntityLess Gen.EntityUtf Model.EntitySort.
Import ListNotations.
Open Scope Z_scope.

Definition len {A} (l : list A) : Z := Z.of_nat (length l).

(* ComputeLength / ComputeLengthBytes: sum of utf16RuneLen over the decoded runes *)
Fixpoint sum_u16_go (rs : list Z) : Z :=
  match rs with [] => 0 | r :: t => utf16_rune_len_go r + sum_u16_go t end.
Definition compute_length (s : list Z) : Z := sum_u16_go (go_decode s).

Record uent := { u_off : Z; u_len : Z }.          (* utf8entity *)
Record tok := { t_u8 : Z; t_u16 : Z }.            (* Token *)
Record bstate := {
  b_msg : list Z;        (* message strings.Builder *)
  b_ents : list ent;     (* entities *)
  b_lens : list uent;    (* lengths *)
  b_lfi : Z;             (* lastFormatIndex *)
  b_u16 : Z              (* utf16length *)
}.
Definition b_init : bstate := {| b_msg := []; b_ents := []; b_lens := []; b_lfi := 0; b_u16 := 0 |}.

Definition mk_ent (off l tag : Z) : ent := {| e_off := off; e_len := l; e_tag := tag |}.

(* Write / WriteString *)
Definition b_write (st : bstate) (s : list Z) : bstate :=
  {| b_msg := b_msg st ++ s; b_ents := b_ents st; b_lens := b_lens st; b_lfi := b_lfi st;
     b_u16 := b_u16 st + compute_length s |}.
(* WriteByte *)
Definition b_write_byte (st : bstate) (b : Z) : bstate :=
  {| b_msg := b_msg st ++ [b]; b_ents := b_ents st; b_lens := b_lens st; b_lfi := b_lfi st;
     b_u16 := b_u16 st + 1 |}.
(* WriteRune: strings.Builder.WriteRune writes U+FFFD for invalid runes *)
Definition b_write_rune (st : bstate) (r : Z) : bstate :=
  {| b_msg := b_msg st ++ go_encode_rune r; b_ents := b_ents st; b_lens := b_lens st; b_lfi := b_lfi st;
     b_u16 := b_u16 st + utf16_rune_len_go r |}.

(* appendEntities *)
Definition b_append_entities (st : bstate) (off l : Z) (u : uent) (tags : list Z) : bstate :=
  {| b_msg := b_msg st;
     b_ents := b_ents st ++ map (mk_ent off l) tags;
     b_lens := b_lens st ++ map (fun _ => u) tags;
     b_lfi := len (b_ents st);
     b_u16 := b_u16 st |}.

(* Plain *)
Definition b_plain (st : bstate) (s : list Z) : bstate :=
  let st1 := b_write st s in
  {| b_msg := b_msg st1; b_ents := b_ents st1; b_lens := b_lens st1; b_lfi := len (b_ents st1); b_u16 := b_u16 st1 |}.
(* Format = appendMessage *)
Definition b_format (st : bstate) (s : list Z) (tags : list Z) : bstate :=
  match s with
  | [] => st
  | _ => b_write (b_append_entities st (b_u16 st) (compute_length s)
                                    {| u_off := len (b_msg st); u_len := len s |} tags) s
  end.
(* Token / Token.Apply *)
Definition b_token (st : bstate) : tok := {| t_u8 := len (b_msg st); t_u16 := b_u16 st |}.
Definition b_apply (st : bstate) (t : tok) (tags : list Z) : bstate :=
  b_append_entities st (t_u16 t) (b_u16 st - t_u16 t)
                    {| u_off := t_u8 t; u_len := len (b_msg st) - t_u8 t |} tags.

(* ---- ShrinkPreCode ---- *)
Definition kind (t : Z) : Z := t mod 64.
Definition lang_bit (t : Z) : Z := (t / 64) mod 2.
Definition KCode : Z := 1.
Definition KPre : Z := 2.
Definition is_pre_code (e : ent) : bool := (kind (e_tag e) =? KCode) || (kind (e_tag e) =? KPre).
Definition has_lang (e : ent) : bool := (kind (e_tag e) =? KPre) && (lang_bit (e_tag e) =? 1).
Definition reset_lang (e : ent) : ent :=
  if has_lang e then mk_ent (e_off e) (e_len e) (e_tag e - 64) else e.
Definition equal_range (a b : ent) : bool := (e_len a =? e_len b) && (e_off a =? e_off b).

(* the filter loop: [prev] is entities[i-1] (already mutated by earlier steps), [kp] whether it was kept *)
Fixpoint shrink_loop (prev : ent) (kp : bool) (rest : list ent) : list (ent * bool) :=
  match rest with
  | [] => [(prev, kp)]
  | cur :: rest' =>
    if negb (is_pre_code prev) || negb (is_pre_code cur) || (kind (e_tag prev) =? kind (e_tag cur))
    then (prev, kp) :: shrink_loop cur true rest'
    else if negb (equal_range prev cur)
    then (reset_lang prev, kp) :: shrink_loop (reset_lang cur) true rest'
    else (prev, kp) :: shrink_loop cur (negb (has_lang prev)) rest'
  end.
Definition shrink_pre_code (es : list ent) : list ent :=
  match rev es with
  | [] => []
  | e0 :: rest => map fst (filter snd (shrink_loop e0 true rest))
  end.
Definition b_shrink (st : bstate) : bstate :=
  {| b_msg := b_msg st; b_ents := shrink_pre_code (b_ents st); b_lens := b_lens st; b_lfi := b_lfi st; b_u16 := b_u16 st |}.

(* ---- Reset / Raw / fixEntities / Complete ---- *)
Definition b_reset (st : bstate) : bstate :=
  {| b_msg := []; b_ents := []; b_lens := b_lens st; b_lfi := b_lfi st; b_u16 := 0 |}.

Definition clamp (total : Z) (e : ent) : ent :=
  let off := if e_off e >? total then total else e_off e in
  let l := if off + e_len e >? total then total - off else e_len e in
  mk_ent off l (e_tag e).

Definition fix_entities (st : bstate) (msg : list Z) (ents : list ent) : res unit (list Z * list ent) :=
  if (len (b_lens st) =? 0) || (b_lfi st >=? len ents) then Ok (msg, ents)
  else
    let u := last (b_lens st) {| u_off := 0; u_len := 0 |} in
    do lastBlock <- go_slice msg (u_off u) (len msg);
    let trimmed := trim_bytes lastBlock in
    if (u_len u >=? len lastBlock) && negb (len trimmed =? len lastBlock)
    then do msg' <- go_slice msg 0 (u_off u + len trimmed);
         Ok (msg', map (clamp (compute_length msg')) ents)
    else Ok (msg, ents).

Definition b_raw (st : bstate) : bstate * (list Z * list ent) := (b_reset st, (b_msg st, b_ents st)).
(* Complete: Raw; fixEntities; deferred SortEntities (Go's sort.Sort is insertion sort up to 12
   elements; beyond that the order produced with the non-transitive Less is not modelled, only
   the multiset is -- see C36). *)
Definition b_complete (st : bstate) : bstate * res unit (list Z * list ent) :=
  let '(st', (msg, ents)) := b_raw st in
  (st', do r <- fix_entities st' msg ents; Ok (fst r, go_isort less_go (snd r))).

(* ---- operation sequences through the public API ---- *)
Inductive op :=
| OPlain (s : list Z)
| OFormat (s : list Z) (tags : list Z)
| OWrite (s : list Z)
| OWriteByte (b : Z)
| OWriteRune (r : Z)
| OToken                          (* b.Token(): appended to the table of tokens the caller holds *)
| OApply (k : nat) (tags : list Z) (* k-th token .Apply(b, tags...) *)
| OShrink
| OComplete
| ORaw.

Record mstate := { m_b : bstate; m_toks : list tok }.
Definition m_init : mstate := {| m_b := b_init; m_toks := [] |}.
Definition with_b (m : mstate) (b : bstate) : mstate := {| m_b := b; m_toks := m_toks m |}.

Definition out := res unit (list Z * list ent).
Definition step (m : mstate) (o : op) : mstate * option out :=
  match o with
  | OPlain s => (with_b m (b_plain (m_b m) s), None)
  | OFormat s tags => (with_b m (b_format (m_b m) s tags), None)
  | OWrite s => (with_b m (b_write (m_b m) s), None)
  | OWriteByte b => (with_b m (b_write_byte (m_b m) b), None)
  | OWriteRune r => (with_b m (b_write_rune (m_b m) r), None)
  | OToken => ({| m_b := m_b m; m_toks := m_toks m ++ [b_token (m_b m)] |}, None)
  | OApply k tags =>
    match nth_error (m_toks m) k with
    | Some t => (with_b m (b_apply (m_b m) t tags), None)
    | None => (m, None)
    end
  | OShrink => (with_b m (b_shrink (m_b m)), None)
  | OComplete => let '(b', r) := b_complete (m_b m) in (with_b m b', Some r)
  | ORaw => let '(b', r) := b_raw (m_b m) in (with_b m b', Some (Ok r))
  end.

(* all outputs, in order; execution stops at the first panic (the Go program would have died) *)
Fixpoint exec (m : mstate) (ops : list op) : mstate * list out :=
  match ops with
  | [] => (m, [])
  | o :: rest =>
    let '(m', r) := step m o in
    match r with
    | Some Panic => (m', [Panic])
    | Some x => let '(m'', outs) := exec m' rest in (m'', x :: outs)
    | None => exec m' rest
    end
  end.

(* ====================================================================== *)
(* Specification side of C35 (no reference to the builder's counters).     *)
(* One build = operations over CODE-POINT strings between two Complete.    *)
(* ====================================================================== *)
Inductive uop :=
| UPlain (s : list Z)
| UFormat (s : list Z) (tags : list Z)
| UWrite (s : list Z)
| UWriteByte (b : Z)
| UWriteRune (r : Z)
| UToken
| UApply (k : nat) (tags : list Z)   (* k-th token created in THIS build *)
| UShrink.

(* the builder operation performed; n0 = number of (stale) tokens the caller held before the build *)
Definition enc_uop (n0 : nat) (o : uop) : op :=
  match o with
  | UPlain s => OPlain (utf8_encode s)
  | UFormat s tags => OFormat (utf8_encode s) tags
  | UWrite s => OWrite (utf8_encode s)
  | UWriteByte b => OWriteByte b
  | UWriteRune r => OWriteRune r
  | UToken => OToken
  | UApply k tags => OApply (n0 + k) tags
  | UShrink => OShrink
  end.

(* what the specification tracks: the text written so far, for every token the text before it,
   for every formatted piece (tag, text before the piece, the piece itself) *)
Record sstate := {
  s_text : list Z;
  s_toks : list (list Z);
  s_pieces : list (Z * list Z * list Z);
  s_shrunk : bool
}.
Definition s_init : sstate := {| s_text := []; s_toks := []; s_pieces := []; s_shrunk := false |}.
Definition written_rune (r : Z) : Z := if cp_validb r then r else rune_error.
Definition s_app (s : sstate) (x : list Z) : sstate :=
  {| s_text := s_text s ++ x; s_toks := s_toks s; s_pieces := s_pieces s; s_shrunk := s_shrunk s |}.
Definition s_add (s : sstate) (ps : list (Z * list Z * list Z)) : sstate :=
  {| s_text := s_text s; s_toks := s_toks s; s_pieces := s_pieces s ++ ps; s_shrunk := s_shrunk s |}.
Definition sstep (s : sstate) (o : uop) : sstate :=
  match o with
  | UPlain x | UWrite x => s_app s x
  | UFormat x tags =>
    match x with
    | [] => s
    | _ => s_app (s_add s (map (fun t => (t, s_text s, x)) tags)) x
    end
  | UWriteByte b => s_app s [b]
  | UWriteRune r => s_app s [written_rune r]
  | UToken => {| s_text := s_text s; s_toks := s_toks s ++ [s_text s]; s_pieces := s_pieces s; s_shrunk := s_shrunk s |}
  | UApply k tags =>
    match nth_error (s_toks s) k with
    | Some pre => s_add s (map (fun t => (t, pre, skipn (length pre) (s_text s))) tags)
    | None => s
    end
  | UShrink => {| s_text := s_text s; s_toks := s_toks s; s_pieces := s_pieces s; s_shrunk := true |}
  end.
Definition srun (ops : list uop) : sstate := fold_left sstep ops s_init.

(* well-formed builds: valid Unicode, ASCII WriteByte, tokens of this build *)
Definition uop_ok (s : sstate) (o : uop) : Prop :=
  match o with
  | UPlain x | UWrite x | UFormat x _ => Forall cp_valid x
  | UWriteByte b => 0 <= b < 128
  | UApply k _ => (k < length (s_toks s))%nat
  | _ => True
  end.
Fixpoint build_ok (s : sstate) (ops : list uop) : Prop :=
  match ops with
  | [] => True
  | o :: rest => uop_ok s o /\ build_ok (sstep s o) rest
  end.

(* the entity a piece must yield when the final text consists of the first nT code points *)
Definition expected (nT : nat) (p : Z * list Z * list Z) : ent :=
  let '(tag, pre, mid) := p in
  mk_ent (u16c (firstn nT pre)) (u16c (firstn (nT - length pre) mid)) tag.
Definition same_range_kind (e e' : ent) : Prop :=
  e_off e = e_off e' /\ e_len e = e_len e' /\ kind (e_tag e) = kind (e_tag e').

(* a builder as left behind by Complete/Raw/zero value: empty text, no entities; lengths and
   lastFormatIndex are whatever earlier builds left (Reset does not clear them) *)
Definition fresh (b : bstate) : Prop := b_msg b = [] /\ b_ents b = [] /\ b_u16 b = 0 /\ 0 <= b_lfi b.

(* what C35 requires of a completed build whose final text is the first nT code points *)
Definition complete_spec (s : sstate) (nT : nat) (es : list ent) : Prop :=
  (nT <= length (s_text s))%nat /\
  Forall is_space (skipn nT (s_text s)) /\                        (* only trailing white space is cut *)
  (s_shrunk s = false -> Permutation es (map (expected nT) (s_pieces s))) /\   (* nothing lost or invented *)
  Forall (fun e => exists p, In p (s_pieces s) /\ same_range_kind e (expected nT p)) es /\
  Forall (fun e => 0 <= e_off e /\ 0 <= e_len e /\
                   e_off e + e_len e <= u16c (firstn nT (s_text s))) es.  (* within the text *)

(* a caller that performs one well-formed build after the other on the same builder *)
Fixpoint run_builds (m : mstate) (builds : list (list uop)) : list out :=
  match builds with
  | [] => []
  | ops :: rest =>
    let '(m', outs) := exec m (map (enc_uop (length (m_toks m))) ops ++ [OComplete]) in
    outs ++ run_builds m' rest
  end.
