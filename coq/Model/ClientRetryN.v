(* C29, N invocations in flight: the state is one single-invocation state (Model/ClientRetry.v)
   per invocation; all of them carry the same environment (current generation, dead
   generations, backoff pause, client closed) because environment events are applied to every
   component at once, while an invocation's own events (including the network delivering ITS ack
   or result, and ITS caller cancelling) touch only its component.  Definitions only. *)
From Coq Require Import List ZArith Bool Arith.
From TD Require Import Model.ClientRetry.
Import ListNotations.

Definition env_event (e : event) : bool :=
  match e with EKill _ | EReplace | EStart | EClose => true | _ => false end.

Inductive mevent :=
| MOwn (i : nat) (e : event)     (* a step of invocation i (e is not an environment event) *)
| MEnv (e : event).              (* connection dies / is replaced / is started, client closed *)

Definition mstate := list state.

Fixpoint step_all (ms : mstate) (e : event) : option mstate :=
  match ms with
  | [] => Some []
  | s :: t => match step s e, step_all t e with
              | Some s', Some t' => Some (s' :: t')
              | _, _ => None
              end
  end.
Fixpoint step_nth (ms : mstate) (i : nat) (e : event) : option mstate :=
  match ms, i with
  | [], _ => None
  | s :: t, O => match step s e with Some s' => Some (s' :: t) | None => None end
  | s :: t, S j => match step_nth t j e with Some t' => Some (s :: t') | None => None end
  end.

Definition mstep (ms : mstate) (me : mevent) : option mstate :=
  match me with
  | MOwn i e => if env_event e then None else step_nth ms i e
  | MEnv e => if env_event e then step_all ms e else None
  end.
Fixpoint mrun (ms : mstate) (mes : list mevent) : option mstate :=
  match mes with
  | [] => Some ms
  | me :: t => match mstep ms me with Some ms' => mrun ms' t | None => None end
  end.
Definition minit (n : nat) : mstate := repeat init n.

(* what invocation i sees of a joint run: its own events and every environment event *)
Fixpoint proj (i : nat) (mes : list mevent) : list event :=
  match mes with
  | [] => []
  | MOwn j e :: t => if Nat.eqb i j then e :: proj i t else proj i t
  | MEnv e :: t => e :: proj i t
  end.

(* the shared environment of a component *)
Definition env_of (s : state) : nat * list nat * bool * bool := (cur_gen s, dead s, closed s, paused s).
