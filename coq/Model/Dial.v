(* Model of plain.connect (telegram/dcs/plain.go) for n >= 2 addresses: n tryDial goroutines, one
   unbuffered `results` channel, dialCtx (cancelled when the caller's ctx is cancelled or when connect
   returns, by the deferred dialCancel).  One event = one atomic action: a dial returning, the
   rendezvous on `results` (send and receive complete together on an unbuffered channel) including the
   receiver's bookkeeping up to its next select or return, a dialer taking its <-ctx.Done() branch
   (closing its connection if it has one), the caller cancelling, connect taking its <-ctx.Done() branch.
   Definitions only; proofs in Proof/Dial.v. *)
From Coq Require Import List Arith Bool.
Import ListNotations.

Inductive dstat :=
| Dialing                 (* dialTransport has not returned *)
| Done (ok : bool)        (* dial returned (connection established iff ok); in the select *)
| Delivered (ok : bool)   (* result handed to connect *)
| Left (ok : bool).       (* took <-ctx.Done(): connection closed if ok, nothing to close otherwise *)

Inductive mstat :=
| Running (errs : list nat)   (* in the select; errs = failed dialers received so far (multierr, newest first) *)
| RetConn (i : nat)           (* returned result.conn of dialer i, nil *)
| RetErr (errs : list nat)    (* returned nil, combined error *)
| RetCtx.                     (* returned nil, ctx.Err() *)

Record state := { d_n : nat; d_st : nat -> dstat; d_main : mstat; d_ctx : bool; d_dialctx : bool }.

Inductive event :=
| EDialDone (i : nat) (ok : bool)
| EDeliver (i : nat)
| ELeave (i : nat)
| ECallerCancel
| EMainCtx.

Definition init (n : nat) : state :=
  {| d_n := n; d_st := fun _ => Dialing; d_main := Running []; d_ctx := false; d_dialctx := false |}.

Definition upd (f : nat -> dstat) (i : nat) (v : dstat) : nat -> dstat := fun j => if Nat.eqb j i then v else f j.

Definition set_st (s : state) (i : nat) (v : dstat) : state :=
  {| d_n := d_n s; d_st := upd (d_st s) i v; d_main := d_main s; d_ctx := d_ctx s; d_dialctx := d_dialctx s |}.
Definition set_main (s : state) (m : mstat) (dc : bool) : state :=
  {| d_n := d_n s; d_st := d_st s; d_main := m; d_ctx := d_ctx s; d_dialctx := dc |}.

Definition step (s : state) (e : event) : option state :=
  match e with
  | EDialDone i ok =>
      if Nat.ltb i (d_n s) then
        match d_st s i with Dialing => Some (set_st s i (Done ok)) | _ => None end
      else None
  | EDeliver i =>                              (* results <- r  ||  result := <-results *)
      match d_st s i, d_main s with
      | Done true, Running errs => Some (set_main (set_st s i (Delivered true)) (RetConn i) true)
      | Done false, Running errs =>
          let errs' := i :: errs in
          (* remain-- ; if remain == 0 return nil, rErr *)
          if Nat.eqb (d_n s - length errs') 0
          then Some (set_main (set_st s i (Delivered false)) (RetErr errs') true)
          else Some (set_main (set_st s i (Delivered false)) (Running errs') (d_dialctx s))
      | _, _ => None
      end
  | ELeave i =>                                (* case <-ctx.Done(): if conn != nil { conn.Close() } *)
      match d_st s i with
      | Done ok => if d_dialctx s then Some (set_st s i (Left ok)) else None
      | _ => None
      end
  | ECallerCancel =>
      Some {| d_n := d_n s; d_st := d_st s; d_main := d_main s; d_ctx := true; d_dialctx := true |}
  | EMainCtx =>
      match d_main s with
      | Running _ => if d_ctx s then Some (set_main s RetCtx true) else None
      | _ => None
      end
  end.

Fixpoint run (s : state) (l : list event) : option state :=
  match l with
  | [] => Some s
  | e :: t => match step s e with Some s' => run s' t | None => None end
  end.
Definition reachable (n : nat) (s : state) : Prop := exists l, run (init n) l = Some s.

(* vocabulary of the statements *)
Definition established (s : state) (i : nat) : Prop :=
  d_st s i = Done true \/ d_st s i = Delivered true \/ d_st s i = Left true.
Definition open_conn (s : state) (i : nat) : Prop := d_st s i = Done true \/ d_st s i = Delivered true.
Definition closed_conn (s : state) (i : nat) : Prop := d_st s i = Left true.
(* nothing but dials that may never return (and the caller's cancel) is left to happen *)
Definition quiescent (s : state) : Prop := forall e s', step s e = Some s' -> (exists i ok, e = EDialDone i ok) \/ e = ECallerCancel.

(* ---- deterministic scheduler used by the correspondence: after each scripted action every enabled
   internal step is taken (the harness waits for the goroutines to settle between actions) ---- *)
Inductive action := ADial (i : nat) (ok : bool) | ACancel.
Definition settle1 (s : state) (i : nat) : state :=
  match step s (EDeliver i) with
  | Some s' => s'
  | None => match step s (ELeave i) with Some s' => s' | None => s end
  end.
Definition act (s : state) (a : action) : state :=
  match a with
  | ADial i ok => match step s (EDialDone i ok) with Some s' => settle1 s' i | None => s end
  | ACancel =>
      match step s ECallerCancel with
      | Some s' => match step s' EMainCtx with Some s'' => s'' | None => s' end
      | None => s
      end
  end.
Definition play (n : nat) (l : list action) : state := fold_left act l (init n).

(* ---- all fair completions of a state: every maximal sequence of internal steps (rendezvous, dialers
   leaving, connect taking its ctx.Done branch); used by the correspondence for racy releases, where the
   implementation's select may commit to any ready case ---- *)
Definition internal_next (s : state) : list state :=
  flat_map (fun i => (match step s (EDeliver i) with Some s' => [s'] | None => [] end) ++
                     (match step s (ELeave i) with Some s' => [s'] | None => [] end)) (seq 0 (d_n s))
  ++ (match step s EMainCtx with Some s' => [s'] | None => [] end).
Fixpoint explore (fuel : nat) (s : state) : list state :=
  match fuel with
  | O => [s]
  | S f => match internal_next s with
           | [] => [s]
           | nx => flat_map (explore f) nx
           end
  end.
Definition dial_all (s : state) (l : list (nat * bool)) : state :=
  fold_left (fun s p => match step s (EDialDone (fst p) (snd p)) with Some s' => s' | None => s end) l s.
