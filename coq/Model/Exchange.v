(* Model of the auth-key exchange (exchange/client_flow.go, exchange/server_flow.go,
   crypto/salt.go) for C09 and C10.  Client and server are functions from their random
   inputs and the messages they receive to the messages they send / their result.
   Messages are records (byte encodings: C21/C22); cryptography is abstract
   (Section variables): RSA_PAD (C14), the data_with_hash + AES-IGE answers (C11), SHA-1
   based nonce_hash1 / key id, modular exponentiation (math/big), primality, DecomposePQ.
   The DH checks are the GENERATED functions of Gen/DhCheck.v (C13).  Definitions only. *)
From Coq Require Import ZArith List Bool Lia.
From TD Require Import Lib.GoSem Lib.Bytes Lib.RunLib Lib.BigIntSem Gen.DhCheck.
Import ListNotations.
Open Scope Z_scope.

Definition nonce := list Z.                       (* 16 / 32 bytes *)
Definition neq (a b : nonce) : bool := negb (zlist_eqb a b).

(* big-endian fixed-width encoding (big.Int.FillBytes) *)
Definition be_enc (n : nat) (v : Z) : list Z := rev (le_enc n v).

Fixpoint xor_bytes (a b : list Z) : list Z :=
  match a, b with
  | x :: a', y :: b' => Z.lxor x y :: xor_bytes a' b'
  | _, _ => []
  end.
(* crypto.ServerSalt: int64(little-endian(new_nonce[0:8] xor server_nonce[0:8])) *)
Definition server_salt (new_nonce server_nonce : nonce) : Z :=
  to_signed 64 (le_dec (xor_bytes (firstn 8 new_nonce) (firstn 8 server_nonce))).

(* ---------- messages ---------- *)
Record res_pq := { rp_nonce : nonce; rp_server_nonce : nonce; rp_pq : Z; rp_fps : list Z }.
Record pq_inner := { pi_pq : Z; pi_p : Z; pi_q : Z; pi_nonce : nonce; pi_server_nonce : nonce;
                     pi_new_nonce : nonce; pi_dc : Z; pi_expires : option Z }.
Record sdh_inner := { si_nonce : nonce; si_server_nonce : nonce; si_g : Z; si_p : Z; si_ga : Z; si_time : Z }.
Record cdh_inner := { ci_nonce : nonce; ci_server_nonce : nonce; ci_retry : Z; ci_gb : Z }.

Inductive cerr :=
| ENonce2 | EFingerprint | EBadPQ | EFactor
| ENonce5 | ESNonce5 | EAnswer | EInnerNonce | EInnerSNonce
| ECheckDH (code : Z) | EDHParams (code : Z)
| ENonce7 | ESNonce7 | EHash | ERetry | EGenFail | EDHFail | EUnexpected.
Inductive serr := SRsa | SWrongDC | SNoA | SCheckGP (code : Z) | SClientAnswer | SKeyTooBig.

Record kex_result := { kr_key : list Z; kr_id : list Z; kr_salt : Z }.

Section Exchange.
  Variables pubkey privkey cipher1 cipher2 cipher3 : Type.
  Variable pub_of : privkey -> pubkey.
  Variable fp : pubkey -> Z.
  (* encrypted_data = RSA_PAD(TL(p_q_inner_data)) and the server-side decoder *)
  Variable rsa_enc : pubkey -> pq_inner -> cipher1.
  Variable rsa_dec : privkey -> cipher1 -> option pq_inner.
  (* encrypted_answer / encrypted_data of steps 5 and 6: data_with_hash + AES-IGE under the
     temporary keys derived from (new_nonce, server_nonce); None = decrypt or decode failure *)
  Variable ans_enc : nonce -> nonce -> sdh_inner -> cipher2.
  Variable ans_dec : nonce -> nonce -> cipher2 -> option sdh_inner.
  Variable cin_enc : nonce -> nonce -> cdh_inner -> cipher3.
  Variable cin_dec : nonce -> nonce -> cipher3 -> option cdh_inner.
  Variable powmod : Z -> Z -> Z -> Z.                (* big.Int.Exp(g, e, p) *)
  Variable prime : Z -> bool.                        (* big.Int.ProbablyPrime(64) *)
  Variable factor : Z -> option (Z * Z).             (* DecomposePQ with its randomness *)
  Variable nonce_hash1 : nonce -> list Z -> list Z.  (* crypto.NonceHash1 *)
  Variable key_id : list Z -> list Z.                (* crypto.Key.ID *)

  Record req_dh := { rd_nonce : nonce; rd_server_nonce : nonce; rd_p : Z; rd_q : Z; rd_fp : Z; rd_enc : cipher1 }.
  Inductive server_dh := SdhOk (n sn : nonce) (enc : cipher2) | SdhFail | SdhOther.
  Record set_dh := { sd_nonce : nonce; sd_server_nonce : nonce; sd_enc : cipher3 }.
  Inductive dh_gen := GenOk (n sn : nonce) (hash1 : list Z) | GenRetry | GenFail | GenOther.

  (* ================= client (exchange/client_flow.go) ================= *)
  Record crand := { cr_nonce : nonce; cr_new_nonce : nonce; cr_b : Z }.
  Record cconf := { cc_keys : list pubkey; cc_dc : Z; cc_expires : option Z (* Some = temporary mode *) }.

  (* first client key whose fingerprint the server offers *)
  Definition select_key (keys : list pubkey) (fps : list Z) : option pubkey :=
    find (fun k => existsb (Z.eqb (fp k)) fps) keys.

  Record cstate3 := { c3_key : pubkey; c3_server_nonce : nonce }.

  (* steps 2-4: check ResPQ, factor pq, send req_DH_params *)
  Definition client_step3 (cf : cconf) (r : crand) (m2 : res_pq) : res cerr (req_dh * cstate3) :=
    if neq (rp_nonce m2) (cr_nonce r) then Err ENonce2 else
    match select_key (cc_keys cf) (rp_fps m2) with
    | None => Err EFingerprint
    | Some k =>
        if rp_pq m2 >? 2 ^ 63 then Err EBadPQ else
        match factor (rp_pq m2) with
        | None => Err EFactor
        | Some (p, q) =>
            let sn := rp_server_nonce m2 in
            let inner := {| pi_pq := rp_pq m2; pi_p := p; pi_q := q; pi_nonce := cr_nonce r;
                            pi_server_nonce := sn; pi_new_nonce := cr_new_nonce r;
                            pi_dc := cc_dc cf; pi_expires := cc_expires cf |} in
            Ok ({| rd_nonce := cr_nonce r; rd_server_nonce := sn; rd_p := p; rd_q := q;
                   rd_fp := fp k; rd_enc := rsa_enc k inner |},
                {| c3_key := k; c3_server_nonce := sn |})
        end
    end.

  Record cstate6 := { c6_server_nonce : nonce; c6_p : Z; c6_ga : Z }.

  (* steps 5-6: check Server_DH_Params, pick b, send set_client_DH_params *)
  Definition client_step6 (r : crand) (st : cstate3) (m5 : server_dh) : res cerr (set_dh * cstate6) :=
    match m5 with
    | SdhOk n sn enc =>
        let nonce0 := cr_nonce r in
        let sn0 := c3_server_nonce st in
        if neq n nonce0 then Err ENonce5 else
        if neq sn sn0 then Err ESNonce5 else
        match ans_dec (cr_new_nonce r) sn0 enc with
        | None => Err EAnswer
        | Some inner =>
            if neq (si_nonce inner) nonce0 then Err EInnerNonce else
            if neq (si_server_nonce inner) sn0 then Err EInnerSNonce else
            let p := si_p inner in
            let g := si_g inner in
            let c := check_dh prime g p in
            if negb (c =? 0) then Err (ECheckDH c) else
            let ga := si_ga inner in
            let gb := powmod g (cr_b r) p in
            let c2 := check_dh_params p g ga gb in
            if negb (c2 =? 0) then Err (EDHParams c2) else
            let ci := {| ci_nonce := si_nonce inner; ci_server_nonce := si_server_nonce inner;
                         ci_retry := 0; ci_gb := gb |} in
            Ok ({| sd_nonce := nonce0; sd_server_nonce := sn0; sd_enc := cin_enc (cr_new_nonce r) sn0 ci |},
                {| c6_server_nonce := sn0; c6_p := p; c6_ga := ga |})
        end
    | SdhFail => Err EDHFail
    | SdhOther => Err EUnexpected
    end.

  (* steps 7-9: auth_key = g_a^b mod p, check dh_gen_ok *)
  Definition client_step8 (r : crand) (st : cstate6) (m7 : dh_gen) : res cerr kex_result :=
    match m7 with
    | GenOk n sn h =>
        if neq n (cr_nonce r) then Err ENonce7 else
        if neq sn (c6_server_nonce st) then Err ESNonce7 else
        let k := powmod (c6_ga st) (cr_b r) (c6_p st) in
        if bitlen k >? 2048 then Panic else            (* big.Int.FillBytes on a [256]byte *)
        let key := be_enc 256 k in
        if negb (zlist_eqb (nonce_hash1 (cr_new_nonce r) key) h) then Err EHash else
        Ok {| kr_key := key; kr_id := key_id key; kr_salt := server_salt (cr_new_nonce r) sn |}
    | GenRetry => Err ERetry
    | GenFail => Err EGenFail
    | GenOther => Err EUnexpected
    end.

  (* the client against ARBITRARY incoming messages (C10) *)
  Definition client_run (cf : cconf) (r : crand) (m2 : res_pq) (m5 : server_dh) (m7 : dh_gen)
    : res cerr kex_result :=
    match client_step3 cf r m2 with
    | Ok (_, st3) =>
        match client_step6 r st3 m5 with
        | Ok (_, st6) => client_step8 r st6 m7
        | Err e => Err e
        | Panic => Panic
        end
    | Err e => Err e
    | Panic => Panic
    end.

  (* ================= server (exchange/server_flow.go, exchange/generator.go) ================= *)
  Record srand := { sr_server_nonce : nonce; sr_pq : Z; sr_p : Z; sr_as : list Z (* candidates for a *); sr_time : Z }.
  Record sconf := { sc_key : privkey; sc_dc : Z }.
  Definition server_g : Z := 3.

  Definition server_step2 (cf : sconf) (r : srand) (m1 : nonce) : res_pq :=
    {| rp_nonce := m1; rp_server_nonce := sr_server_nonce r; rp_pq := sr_pq r;
       rp_fps := [fp (pub_of (sc_key cf))] |}.

  (* TestServerRNG.GA: first candidate a with g^a mod p in both ranges *)
  Definition ga_ok (p ga : Z) : bool :=
    in_range ga 1 (p - 1) && in_range ga (2 ^ (c_RSAKeyBits - 64)) (p - 2 ^ (c_RSAKeyBits - 64)).
  Fixpoint pick_a (p : Z) (cands : list Z) : option (Z * Z) :=
    match cands with
    | [] => None
    | a :: t => let ga := powmod server_g a p in if ga_ok p ga then Some (a, ga) else pick_a p t
    end.

  Record sstate := { ss_nonce : nonce; ss_new_nonce : nonce; ss_a : Z }.

  Definition server_step5 (cf : sconf) (r : srand) (m1 : nonce) (m4 : req_dh) : res serr (server_dh * sstate) :=
    match rsa_dec (sc_key cf) (rd_enc m4) with
    | None => Err SRsa
    | Some inner =>
        if negb (pi_dc inner =? sc_dc cf) then Err SWrongDC else
        let p := sr_p r in
        let c := check_gp server_g p in
        if negb (c =? 0) then Err (SCheckGP c) else
        match pick_a p (sr_as r) with
        | None => Err SNoA
        | Some (a, ga) =>
            let data := {| si_nonce := m1; si_server_nonce := sr_server_nonce r; si_g := server_g;
                           si_p := p; si_ga := ga; si_time := sr_time r |} in
            Ok (SdhOk m1 (sr_server_nonce r) (ans_enc (pi_new_nonce inner) (sr_server_nonce r) data),
                {| ss_nonce := m1; ss_new_nonce := pi_new_nonce inner; ss_a := a |})
        end
    end.

  Definition server_step8 (r : srand) (st : sstate) (m6 : set_dh) : res serr (dh_gen * kex_result) :=
    match cin_dec (ss_new_nonce st) (sr_server_nonce r) (sd_enc m6) with
    | None => Err SClientAnswer
    | Some ci =>
        let k := powmod (ci_gb ci) (ss_a st) (sr_p r) in
        if (bitlen k + 7) / 8 >? 256 then Err SKeyTooBig else
        let key := be_enc 256 k in
        Ok (GenOk (ss_nonce st) (sr_server_nonce r) (nonce_hash1 (ss_new_nonce st) key),
            {| kr_key := key; kr_id := key_id key; kr_salt := server_salt (ss_new_nonce st) (sr_server_nonce r) |})
    end.

  (* ================= the honest run over a faithful transport ================= *)
  Inductive outcome :=
  | Done (c s : kex_result)
  | ClientErr (e : cerr)
  | ServerErr (e : serr)
  | ClientPanic.

  Definition honest_run (ccf : cconf) (cr : crand) (scf : sconf) (sr : srand) : outcome :=
    let m1 := cr_nonce cr in
    let m2 := server_step2 scf sr m1 in
    match client_step3 ccf cr m2 with
    | Ok (m4, st3) =>
        match server_step5 scf sr m1 m4 with
        | Ok (m5, sst) =>
            match client_step6 cr st3 m5 with
            | Ok (m6, st6) =>
                match server_step8 sr sst m6 with
                | Ok (m7, sres) =>
                    match client_step8 cr st6 m7 with
                    | Ok cres => Done cres sres
                    | Err e => ClientErr e
                    | Panic => ClientPanic
                    end
                | Err e => ServerErr e
                | Panic => ClientPanic
                end
            | Err e => ClientErr e
            | Panic => ClientPanic
            end
        | Err e => ServerErr e
        | Panic => ClientPanic
        end
    | Err e => ClientErr e
    | Panic => ClientPanic
    end.
End Exchange.
