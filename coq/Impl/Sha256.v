(* Executable SHA-256 (FIPS 180-4) over byte lists (list Z, values 0..255).
   Executable instantiation ONLY: no theorem of the development depends on this file;
   it is used by the correspondence checkers in Run/ to run the models against Go's
   crypto/sha256. Validated by the known-answer Examples at the end.
   Words are Z in [0, 2^32); every wrap is an explicit [Z.land _ mask32]. *)
From Coq Require Import ZArith List.
Import ListNotations.
Open Scope Z_scope.

Module Sha256.

Definition mask32 : Z := 4294967295.
Definition w32 (x : Z) : Z := Z.land x mask32.
Definition rotr (n x : Z) : Z := w32 (Z.lor (Z.shiftr x n) (Z.shiftl x (32 - n))).

Definition Ch (x y z : Z) : Z := Z.lxor z (Z.land x (Z.lxor y z)).
Definition Maj (x y z : Z) : Z := Z.lor (Z.land x y) (Z.land z (Z.lor x y)).
Definition bsig0 (x : Z) : Z := Z.lxor (Z.lxor (rotr 2 x) (rotr 13 x)) (rotr 22 x).
Definition bsig1 (x : Z) : Z := Z.lxor (Z.lxor (rotr 6 x) (rotr 11 x)) (rotr 25 x).
Definition ssig0 (x : Z) : Z := Z.lxor (Z.lxor (rotr 7 x) (rotr 18 x)) (Z.shiftr x 3).
Definition ssig1 (x : Z) : Z := Z.lxor (Z.lxor (rotr 17 x) (rotr 19 x)) (Z.shiftr x 10).

Definition K : list Z := [
  0x428a2f98; 0x71374491; 0xb5c0fbcf; 0xe9b5dba5; 0x3956c25b; 0x59f111f1; 0x923f82a4; 0xab1c5ed5;
  0xd807aa98; 0x12835b01; 0x243185be; 0x550c7dc3; 0x72be5d74; 0x80deb1fe; 0x9bdc06a7; 0xc19bf174;
  0xe49b69c1; 0xefbe4786; 0x0fc19dc6; 0x240ca1cc; 0x2de92c6f; 0x4a7484aa; 0x5cb0a9dc; 0x76f988da;
  0x983e5152; 0xa831c66d; 0xb00327c8; 0xbf597fc7; 0xc6e00bf3; 0xd5a79147; 0x06ca6351; 0x14292967;
  0x27b70a85; 0x2e1b2138; 0x4d2c6dfc; 0x53380d13; 0x650a7354; 0x766a0abb; 0x81c2c92e; 0x92722c85;
  0xa2bfe8a1; 0xa81a664b; 0xc24b8b70; 0xc76c51a3; 0xd192e819; 0xd6990624; 0xf40e3585; 0x106aa070;
  0x19a4c116; 0x1e376c08; 0x2748774c; 0x34b0bcb5; 0x391c0cb3; 0x4ed8aa4a; 0x5b9cca4f; 0x682e6ff3;
  0x748f82ee; 0x78a5636f; 0x84c87814; 0x8cc70208; 0x90befffa; 0xa4506ceb; 0xbef9a3f7; 0xc67178f2 ].

Definition H0 : list Z := [
  0x6a09e667; 0xbb67ae85; 0x3c6ef372; 0xa54ff53a; 0x510e527f; 0x9b05688c; 0x1f83d9ab; 0x5be0cd19 ].

(* one round on the working variables, plus sliding 16-word schedule window *)
Fixpoint rounds (ks : list Z) (w : list Z) (st : list Z) : list Z :=
  match ks with
  | [] => st
  | k :: ks' =>
    match w, st with
    | [w0; w1; w2; w3; w4; w5; w6; w7; w8; w9; w10; w11; w12; w13; w14; w15], [a; b; c; d; e; f; g; h] =>
      let t1 := h + bsig1 e + Ch e f g + k + w0 in
      let t2 := bsig0 a + Maj a b c in
      let wn := w32 (ssig1 w14 + w9 + ssig0 w1 + w0) in
      rounds ks' [w1; w2; w3; w4; w5; w6; w7; w8; w9; w10; w11; w12; w13; w14; w15; wn]
             [w32 (t1 + t2); a; b; c; w32 (d + t1); e; f; g]
    | _, _ => st
    end
  end.

Fixpoint be_words (bs : list Z) : list Z :=
  match bs with
  | b0 :: b1 :: b2 :: b3 :: t => (((b0 * 256 + b1) * 256 + b2) * 256 + b3) :: be_words t
  | _ => []
  end.

Definition compress (st : list Z) (block : list Z) : list Z :=
  map (fun p => w32 (fst p + snd p)) (combine st (rounds K (be_words block) st)).

(* fold over 64-byte blocks; fuel = number of blocks *)
Fixpoint blocks (fuel : nat) (st : list Z) (bs : list Z) : list Z :=
  match fuel with
  | O => st
  | S n => match bs with
           | [] => st
           | _ => blocks n (compress st (firstn 64 bs)) (skipn 64 bs)
           end
  end.

Fixpoint be_bytes (n : nat) (v : Z) (acc : list Z) : list Z :=
  match n with
  | O => acc
  | S k => be_bytes k (Z.shiftr v 8) (Z.land v 255 :: acc)
  end.

Definition pad (msg : list Z) : list Z :=
  let l := Z.of_nat (length msg) in
  msg ++ 128 :: repeat 0 (Z.to_nat ((55 - l) mod 64)) ++ be_bytes 8 (l * 8) [].

Definition hash (msg : list Z) : list Z :=
  let p := pad msg in
  let st := blocks (S (length p / 64)) H0 p in
  flat_map (fun w => be_bytes 4 w []) st.

End Sha256.

Definition sha256 : list Z -> list Z := Sha256.hash.

(* ---- known answers (FIPS 180-4 / NIST examples) ---- *)
Definition of_words32 (ws : list Z) : list Z := flat_map (fun w => Sha256.be_bytes 4 w []) ws.

(* "abc" *)
Example sha256_abc :
  sha256 [97; 98; 99] =
  of_words32 [0xba7816bf; 0x8f01cfea; 0x414140de; 0x5dae2223; 0xb00361a3; 0x96177a9c; 0xb410ff61; 0xf20015ad].
Proof. vm_compute. reflexivity. Qed.

(* empty string *)
Example sha256_empty :
  sha256 [] =
  of_words32 [0xe3b0c442; 0x98fc1c14; 0x9afbf4c8; 0x996fb924; 0x27ae41e4; 0x649b934c; 0xa495991b; 0x7852b855].
Proof. vm_compute. reflexivity. Qed.

(* "abcdbcdecdefdefgefghfghighijhijkijkljklmklmnlmnomnopnopq" (56 bytes -> 2 blocks) *)
Definition msg_2block : list Z :=
  [97;98;99;100; 98;99;100;101; 99;100;101;102; 100;101;102;103; 101;102;103;104; 102;103;104;105;
   103;104;105;106; 104;105;106;107; 105;106;107;108; 106;107;108;109; 107;108;109;110; 108;109;110;111;
   109;110;111;112; 110;111;112;113].
Example sha256_2block :
  sha256 msg_2block =
  of_words32 [0x248d6a61; 0xd20638b8; 0xe5c02693; 0x0c3e6039; 0xa33ce459; 0x64ff2167; 0xf6ecedd4; 0x19db06c1].
Proof. vm_compute. reflexivity. Qed.

(* 64 bytes of 'a' (exactly one block of data -> padding spills into a second block) *)
Example sha256_64a :
  sha256 (repeat 97 64) =
  of_words32 [0xffe054fe; 0x7ae0cb6d; 0xc65c3af9; 0xb61d5209; 0xf439851d; 0xb43d0ba5; 0x997337df; 0x154668eb].
Proof. vm_compute. reflexivity. Qed.

Example sha256_length : length (sha256 msg_2block) = 32%nat.
Proof. vm_compute. reflexivity. Qed.
