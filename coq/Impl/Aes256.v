(* Executable AES-256 (FIPS 197): key expansion, block encryption and decryption over
   byte lists (list Z, values 0..255; key = 32 bytes, block = 16 bytes).
   Executable instantiation ONLY (see Impl/Sha256.v): used by the correspondence checkers to
   run the models against Go's crypto/aes; validated by the FIPS-197 C.3 vector below.
   [aes_enc k] / [aes_dec k] expand the key once when partially applied (call-by-value VM). *)
From Coq Require Import ZArith List.
Import ListNotations.
Open Scope Z_scope.

Module Aes256.

Definition sbox (x : Z) : Z :=
  match x with
  | 0 => 99 | 1 => 124 | 2 => 119 | 3 => 123 | 4 => 242 | 5 => 107 | 6 => 111 | 7 => 197
  | 8 => 48 | 9 => 1 | 10 => 103 | 11 => 43 | 12 => 254 | 13 => 215 | 14 => 171 | 15 => 118
  | 16 => 202 | 17 => 130 | 18 => 201 | 19 => 125 | 20 => 250 | 21 => 89 | 22 => 71 | 23 => 240
  | 24 => 173 | 25 => 212 | 26 => 162 | 27 => 175 | 28 => 156 | 29 => 164 | 30 => 114 | 31 => 192
  | 32 => 183 | 33 => 253 | 34 => 147 | 35 => 38 | 36 => 54 | 37 => 63 | 38 => 247 | 39 => 204
  | 40 => 52 | 41 => 165 | 42 => 229 | 43 => 241 | 44 => 113 | 45 => 216 | 46 => 49 | 47 => 21
  | 48 => 4 | 49 => 199 | 50 => 35 | 51 => 195 | 52 => 24 | 53 => 150 | 54 => 5 | 55 => 154
  | 56 => 7 | 57 => 18 | 58 => 128 | 59 => 226 | 60 => 235 | 61 => 39 | 62 => 178 | 63 => 117
  | 64 => 9 | 65 => 131 | 66 => 44 | 67 => 26 | 68 => 27 | 69 => 110 | 70 => 90 | 71 => 160
  | 72 => 82 | 73 => 59 | 74 => 214 | 75 => 179 | 76 => 41 | 77 => 227 | 78 => 47 | 79 => 132
  | 80 => 83 | 81 => 209 | 82 => 0 | 83 => 237 | 84 => 32 | 85 => 252 | 86 => 177 | 87 => 91
  | 88 => 106 | 89 => 203 | 90 => 190 | 91 => 57 | 92 => 74 | 93 => 76 | 94 => 88 | 95 => 207
  | 96 => 208 | 97 => 239 | 98 => 170 | 99 => 251 | 100 => 67 | 101 => 77 | 102 => 51 | 103 => 133
  | 104 => 69 | 105 => 249 | 106 => 2 | 107 => 127 | 108 => 80 | 109 => 60 | 110 => 159 | 111 => 168
  | 112 => 81 | 113 => 163 | 114 => 64 | 115 => 143 | 116 => 146 | 117 => 157 | 118 => 56 | 119 => 245
  | 120 => 188 | 121 => 182 | 122 => 218 | 123 => 33 | 124 => 16 | 125 => 255 | 126 => 243 | 127 => 210
  | 128 => 205 | 129 => 12 | 130 => 19 | 131 => 236 | 132 => 95 | 133 => 151 | 134 => 68 | 135 => 23
  | 136 => 196 | 137 => 167 | 138 => 126 | 139 => 61 | 140 => 100 | 141 => 93 | 142 => 25 | 143 => 115
  | 144 => 96 | 145 => 129 | 146 => 79 | 147 => 220 | 148 => 34 | 149 => 42 | 150 => 144 | 151 => 136
  | 152 => 70 | 153 => 238 | 154 => 184 | 155 => 20 | 156 => 222 | 157 => 94 | 158 => 11 | 159 => 219
  | 160 => 224 | 161 => 50 | 162 => 58 | 163 => 10 | 164 => 73 | 165 => 6 | 166 => 36 | 167 => 92
  | 168 => 194 | 169 => 211 | 170 => 172 | 171 => 98 | 172 => 145 | 173 => 149 | 174 => 228 | 175 => 121
  | 176 => 231 | 177 => 200 | 178 => 55 | 179 => 109 | 180 => 141 | 181 => 213 | 182 => 78 | 183 => 169
  | 184 => 108 | 185 => 86 | 186 => 244 | 187 => 234 | 188 => 101 | 189 => 122 | 190 => 174 | 191 => 8
  | 192 => 186 | 193 => 120 | 194 => 37 | 195 => 46 | 196 => 28 | 197 => 166 | 198 => 180 | 199 => 198
  | 200 => 232 | 201 => 221 | 202 => 116 | 203 => 31 | 204 => 75 | 205 => 189 | 206 => 139 | 207 => 138
  | 208 => 112 | 209 => 62 | 210 => 181 | 211 => 102 | 212 => 72 | 213 => 3 | 214 => 246 | 215 => 14
  | 216 => 97 | 217 => 53 | 218 => 87 | 219 => 185 | 220 => 134 | 221 => 193 | 222 => 29 | 223 => 158
  | 224 => 225 | 225 => 248 | 226 => 152 | 227 => 17 | 228 => 105 | 229 => 217 | 230 => 142 | 231 => 148
  | 232 => 155 | 233 => 30 | 234 => 135 | 235 => 233 | 236 => 206 | 237 => 85 | 238 => 40 | 239 => 223
  | 240 => 140 | 241 => 161 | 242 => 137 | 243 => 13 | 244 => 191 | 245 => 230 | 246 => 66 | 247 => 104
  | 248 => 65 | 249 => 153 | 250 => 45 | 251 => 15 | 252 => 176 | 253 => 84 | 254 => 187 | 255 => 22
  | _ => 0
  end.

Definition inv_sbox (x : Z) : Z :=
  match x with
  | 0 => 82 | 1 => 9 | 2 => 106 | 3 => 213 | 4 => 48 | 5 => 54 | 6 => 165 | 7 => 56
  | 8 => 191 | 9 => 64 | 10 => 163 | 11 => 158 | 12 => 129 | 13 => 243 | 14 => 215 | 15 => 251
  | 16 => 124 | 17 => 227 | 18 => 57 | 19 => 130 | 20 => 155 | 21 => 47 | 22 => 255 | 23 => 135
  | 24 => 52 | 25 => 142 | 26 => 67 | 27 => 68 | 28 => 196 | 29 => 222 | 30 => 233 | 31 => 203
  | 32 => 84 | 33 => 123 | 34 => 148 | 35 => 50 | 36 => 166 | 37 => 194 | 38 => 35 | 39 => 61
  | 40 => 238 | 41 => 76 | 42 => 149 | 43 => 11 | 44 => 66 | 45 => 250 | 46 => 195 | 47 => 78
  | 48 => 8 | 49 => 46 | 50 => 161 | 51 => 102 | 52 => 40 | 53 => 217 | 54 => 36 | 55 => 178
  | 56 => 118 | 57 => 91 | 58 => 162 | 59 => 73 | 60 => 109 | 61 => 139 | 62 => 209 | 63 => 37
  | 64 => 114 | 65 => 248 | 66 => 246 | 67 => 100 | 68 => 134 | 69 => 104 | 70 => 152 | 71 => 22
  | 72 => 212 | 73 => 164 | 74 => 92 | 75 => 204 | 76 => 93 | 77 => 101 | 78 => 182 | 79 => 146
  | 80 => 108 | 81 => 112 | 82 => 72 | 83 => 80 | 84 => 253 | 85 => 237 | 86 => 185 | 87 => 218
  | 88 => 94 | 89 => 21 | 90 => 70 | 91 => 87 | 92 => 167 | 93 => 141 | 94 => 157 | 95 => 132
  | 96 => 144 | 97 => 216 | 98 => 171 | 99 => 0 | 100 => 140 | 101 => 188 | 102 => 211 | 103 => 10
  | 104 => 247 | 105 => 228 | 106 => 88 | 107 => 5 | 108 => 184 | 109 => 179 | 110 => 69 | 111 => 6
  | 112 => 208 | 113 => 44 | 114 => 30 | 115 => 143 | 116 => 202 | 117 => 63 | 118 => 15 | 119 => 2
  | 120 => 193 | 121 => 175 | 122 => 189 | 123 => 3 | 124 => 1 | 125 => 19 | 126 => 138 | 127 => 107
  | 128 => 58 | 129 => 145 | 130 => 17 | 131 => 65 | 132 => 79 | 133 => 103 | 134 => 220 | 135 => 234
  | 136 => 151 | 137 => 242 | 138 => 207 | 139 => 206 | 140 => 240 | 141 => 180 | 142 => 230 | 143 => 115
  | 144 => 150 | 145 => 172 | 146 => 116 | 147 => 34 | 148 => 231 | 149 => 173 | 150 => 53 | 151 => 133
  | 152 => 226 | 153 => 249 | 154 => 55 | 155 => 232 | 156 => 28 | 157 => 117 | 158 => 223 | 159 => 110
  | 160 => 71 | 161 => 241 | 162 => 26 | 163 => 113 | 164 => 29 | 165 => 41 | 166 => 197 | 167 => 137
  | 168 => 111 | 169 => 183 | 170 => 98 | 171 => 14 | 172 => 170 | 173 => 24 | 174 => 190 | 175 => 27
  | 176 => 252 | 177 => 86 | 178 => 62 | 179 => 75 | 180 => 198 | 181 => 210 | 182 => 121 | 183 => 32
  | 184 => 154 | 185 => 219 | 186 => 192 | 187 => 254 | 188 => 120 | 189 => 205 | 190 => 90 | 191 => 244
  | 192 => 31 | 193 => 221 | 194 => 168 | 195 => 51 | 196 => 136 | 197 => 7 | 198 => 199 | 199 => 49
  | 200 => 177 | 201 => 18 | 202 => 16 | 203 => 89 | 204 => 39 | 205 => 128 | 206 => 236 | 207 => 95
  | 208 => 96 | 209 => 81 | 210 => 127 | 211 => 169 | 212 => 25 | 213 => 181 | 214 => 74 | 215 => 13
  | 216 => 45 | 217 => 229 | 218 => 122 | 219 => 159 | 220 => 147 | 221 => 201 | 222 => 156 | 223 => 239
  | 224 => 160 | 225 => 224 | 226 => 59 | 227 => 77 | 228 => 174 | 229 => 42 | 230 => 245 | 231 => 176
  | 232 => 200 | 233 => 235 | 234 => 187 | 235 => 60 | 236 => 131 | 237 => 83 | 238 => 153 | 239 => 97
  | 240 => 23 | 241 => 43 | 242 => 4 | 243 => 126 | 244 => 186 | 245 => 119 | 246 => 214 | 247 => 38
  | 248 => 225 | 249 => 105 | 250 => 20 | 251 => 99 | 252 => 85 | 253 => 33 | 254 => 12 | 255 => 125
  | _ => 0
  end.

Definition xtime (x : Z) : Z := let y := x * 2 in if y <? 256 then y else Z.lxor y 283.

Fixpoint xor_bytes (a b : list Z) : list Z :=
  match a, b with
  | x :: a', y :: b' => Z.lxor x y :: xor_bytes a' b'
  | _, _ => []
  end.

(* ---- key expansion (Nk = 8, Nr = 14): 8 words at a time ---- *)
Definition sub_word (w : list Z) : list Z := map sbox w.
Definition rot_word (w : list Z) : list Z :=
  match w with [a; b; c; d] => [b; c; d; a] | _ => w end.

Definition next8 (rcon : Z) (ws : list (list Z)) : list (list Z) :=
  match ws with
  | [w0; w1; w2; w3; w4; w5; w6; w7] =>
    let n0 := xor_bytes w0 (xor_bytes (sub_word (rot_word w7)) [rcon; 0; 0; 0]) in
    let n1 := xor_bytes w1 n0 in
    let n2 := xor_bytes w2 n1 in
    let n3 := xor_bytes w3 n2 in
    let n4 := xor_bytes w4 (sub_word n3) in
    let n5 := xor_bytes w5 n4 in
    let n6 := xor_bytes w6 n5 in
    let n7 := xor_bytes w7 n6 in
    [n0; n1; n2; n3; n4; n5; n6; n7]
  | _ => ws
  end.

Fixpoint words4 (bs : list Z) : list (list Z) :=
  match bs with
  | a :: b :: c :: d :: t => [a; b; c; d] :: words4 t
  | _ => []
  end.

Fixpoint expand_loop (rcons : list Z) (cur : list (list Z)) : list (list Z) :=
  match rcons with
  | [] => cur
  | r :: rs => cur ++ expand_loop rs (next8 r cur)
  end.

Fixpoint group4 (ws : list (list Z)) : list (list Z) :=
  match ws with
  | a :: b :: c :: d :: t => (a ++ b ++ c ++ d) :: group4 t
  | _ => []
  end.

(* 15 round keys of 16 bytes *)
Definition expand_key (key : list Z) : list (list Z) :=
  firstn 15 (group4 (expand_loop [1; 2; 4; 8; 16; 32; 64] (words4 key))).

(* ---- cipher ---- *)
Definition mix_col (a0 a1 a2 a3 : Z) : list Z :=
  let x01 := Z.lxor a0 a1 in let x12 := Z.lxor a1 a2 in
  let x23 := Z.lxor a2 a3 in let x30 := Z.lxor a3 a0 in
  let all := Z.lxor x01 x23 in
  [ Z.lxor (Z.lxor a0 all) (xtime x01); Z.lxor (Z.lxor a1 all) (xtime x12);
    Z.lxor (Z.lxor a2 all) (xtime x23); Z.lxor (Z.lxor a3 all) (xtime x30) ].

(* SubBytes + ShiftRows *)
Definition sub_shift (s : list Z) : list Z :=
  match s with
  | [s0; s1; s2; s3; s4; s5; s6; s7; s8; s9; s10; s11; s12; s13; s14; s15] =>
    [sbox s0; sbox s5; sbox s10; sbox s15; sbox s4; sbox s9; sbox s14; sbox s3;
     sbox s8; sbox s13; sbox s2; sbox s7; sbox s12; sbox s1; sbox s6; sbox s11]
  | _ => s
  end.

Definition mix_columns (s : list Z) : list Z :=
  match s with
  | [s0; s1; s2; s3; s4; s5; s6; s7; s8; s9; s10; s11; s12; s13; s14; s15] =>
    mix_col s0 s1 s2 s3 ++ mix_col s4 s5 s6 s7 ++ mix_col s8 s9 s10 s11 ++ mix_col s12 s13 s14 s15
  | _ => s
  end.

Fixpoint enc_rounds (rks : list (list Z)) (s : list Z) : list Z :=
  match rks with
  | [] => s
  | [last] => xor_bytes (sub_shift s) last
  | rk :: rest => enc_rounds rest (xor_bytes (mix_columns (sub_shift s)) rk)
  end.

Definition encrypt_block (rks : list (list Z)) (b : list Z) : list Z :=
  match rks with
  | [] => b
  | rk0 :: rest => enc_rounds rest (xor_bytes b rk0)
  end.

(* inverse cipher (FIPS 197 5.3) *)
Definition inv_mix_col (a0 a1 a2 a3 : Z) : list Z :=
  (* InvMixColumns = MixColumns applied to the column pre-multiplied by {04}-terms:
     u = xtime(xtime(a0 ^ a2)), v = xtime(xtime(a1 ^ a3)) *)
  let u := xtime (xtime (Z.lxor a0 a2)) in
  let v := xtime (xtime (Z.lxor a1 a3)) in
  mix_col (Z.lxor a0 u) (Z.lxor a1 v) (Z.lxor a2 u) (Z.lxor a3 v).

Definition inv_mix_columns (s : list Z) : list Z :=
  match s with
  | [s0; s1; s2; s3; s4; s5; s6; s7; s8; s9; s10; s11; s12; s13; s14; s15] =>
    inv_mix_col s0 s1 s2 s3 ++ inv_mix_col s4 s5 s6 s7 ++ inv_mix_col s8 s9 s10 s11 ++ inv_mix_col s12 s13 s14 s15
  | _ => s
  end.

(* InvShiftRows + InvSubBytes *)
Definition inv_sub_shift (s : list Z) : list Z :=
  match s with
  | [s0; s1; s2; s3; s4; s5; s6; s7; s8; s9; s10; s11; s12; s13; s14; s15] =>
    [inv_sbox s0; inv_sbox s13; inv_sbox s10; inv_sbox s7; inv_sbox s4; inv_sbox s1; inv_sbox s14; inv_sbox s11;
     inv_sbox s8; inv_sbox s5; inv_sbox s2; inv_sbox s15; inv_sbox s12; inv_sbox s9; inv_sbox s6; inv_sbox s3]
  | _ => s
  end.

(* rks given in REVERSE order (rk14 first) *)
Fixpoint dec_rounds (rrks : list (list Z)) (s : list Z) : list Z :=
  match rrks with
  | [] => s
  | [rk0] => xor_bytes (inv_sub_shift s) rk0
  | rk :: rest => dec_rounds rest (inv_mix_columns (xor_bytes (inv_sub_shift s) rk))
  end.

Definition decrypt_block (rrks : list (list Z)) (b : list Z) : list Z :=
  match rrks with
  | [] => b
  | rk14 :: rest => dec_rounds rest (xor_bytes b rk14)
  end.

End Aes256.

(* key: 32 bytes; block: 16 bytes *)
Definition aes_enc (key : list Z) : list Z -> list Z :=
  let rks := Aes256.expand_key key in fun b => Aes256.encrypt_block rks b.
Definition aes_dec (key : list Z) : list Z -> list Z :=
  let rrks := rev (Aes256.expand_key key) in fun b => Aes256.decrypt_block rrks b.

(* ---- known answers: FIPS-197 Appendix C.3 (AES-256), both directions ---- *)
Definition fips_key : list Z := map Z.of_nat (seq 0 32).
Definition fips_pt : list Z := map (fun i => Z.of_nat i * 17) (seq 0 16).   (* 00 11 22 .. ff *)
Definition fips_ct : list Z :=
  [0x8e; 0xa2; 0xb7; 0xca; 0x51; 0x67; 0x45; 0xbf; 0xea; 0xfc; 0x49; 0x90; 0x4b; 0x49; 0x60; 0x89].

Example aes256_fips197_c3_enc : aes_enc fips_key fips_pt = fips_ct.
Proof. vm_compute. reflexivity. Qed.
Example aes256_fips197_c3_dec : aes_dec fips_key fips_ct = fips_pt.
Proof. vm_compute. reflexivity. Qed.

(* FIPS-197 A.3: last expanded word w59 = 706c631e for the key 603deb10 ... *)
Definition a3_key : list Z :=
  [0x60; 0x3d; 0xeb; 0x10; 0x15; 0xca; 0x71; 0xbe; 0x2b; 0x73; 0xae; 0xf0; 0x85; 0x7d; 0x77; 0x81;
   0x1f; 0x35; 0x2c; 0x07; 0x3b; 0x61; 0x08; 0xd7; 0x2d; 0x98; 0x10; 0xa3; 0x09; 0x14; 0xdf; 0xf4].
Example aes256_fips197_a3_w59 :
  skipn 12 (nth 14 (Aes256.expand_key a3_key) []) = [0x70; 0x6c; 0x63; 0x1e].
Proof. vm_compute. reflexivity. Qed.

(* NIST SP 800-38A F.1.5 ECB-AES256 block 1, same key *)
Example aes256_sp800_38a_ecb :
  aes_enc a3_key [0x6b; 0xc1; 0xbe; 0xe2; 0x2e; 0x40; 0x9f; 0x96; 0xe9; 0x3d; 0x7e; 0x11; 0x73; 0x93; 0x17; 0x2a]
  = [0xf3; 0xee; 0xd1; 0xbd; 0xb5; 0xd2; 0xa0; 0x3c; 0x06; 0x4b; 0x5a; 0x7e; 0x3d; 0xb1; 0x81; 0xf8].
Proof. vm_compute. reflexivity. Qed.
Example aes256_sp800_38a_ecb_dec :
  aes_dec a3_key [0xf3; 0xee; 0xd1; 0xbd; 0xb5; 0xd2; 0xa0; 0x3c; 0x06; 0x4b; 0x5a; 0x7e; 0x3d; 0xb1; 0x81; 0xf8]
  = [0x6b; 0xc1; 0xbe; 0xe2; 0x2e; 0x40; 0x9f; 0x96; 0xe9; 0x3d; 0x7e; 0x11; 0x73; 0x93; 0x17; 0x2a].
Proof. vm_compute. reflexivity. Qed.
