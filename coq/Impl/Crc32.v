(* Executable CRC-32 (IEEE 802.3, reflected polynomial 0xEDB88320) = Go's hash/crc32.ChecksumIEEE.
   Used only to RUN the codec model against the implementation; the theorems treat the checksum
   as an arbitrary function (Section variable). *)
From Coq Require Import ZArith List.
Import ListNotations.
Open Scope Z_scope.

Definition crc_step (c : Z) : Z :=
  if Z.testbit c 0 then Z.lxor (Z.shiftr c 1) 3988292384 else Z.shiftr c 1.
Definition crc_entry (i : Z) : Z :=
  crc_step (crc_step (crc_step (crc_step (crc_step (crc_step (crc_step (crc_step i))))))).
Definition crc_table : list Z := Eval vm_compute in map (fun n => crc_entry (Z.of_nat n)) (seq 0 256).
Definition crc_upd (c b : Z) : Z :=
  Z.lxor (nth (Z.to_nat (Z.land (Z.lxor c b) 255)) crc_table 0) (Z.shiftr c 8).
Definition crc32 (l : list Z) : Z := Z.lxor (fold_left crc_upd l 4294967295) 4294967295.

(* known answers: the standard check value of "123456789", the empty string, "a" *)
Example crc32_kat_check : crc32 [49; 50; 51; 52; 53; 54; 55; 56; 57] = 3421780262.
Proof. vm_compute. reflexivity. Qed.
Example crc32_kat_empty : crc32 [] = 0.
Proof. vm_compute. reflexivity. Qed.
Example crc32_kat_a : crc32 [97] = 3904355907.
Proof. vm_compute. reflexivity. Qed.
