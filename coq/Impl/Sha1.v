(* Executable SHA-1 (FIPS 180-4) over byte lists (list Z, values 0..255).
   Executable instantiation ONLY (see Impl/Sha256.v): used by the correspondence checkers
   to run the models against Go's crypto/sha1; validated by the known answers below. *)
From Coq Require Import ZArith List.
Import ListNotations.
Open Scope Z_scope.

Module Sha1.

Definition mask32 : Z := 4294967295.
Definition w32 (x : Z) : Z := Z.land x mask32.
Definition rotl (n x : Z) : Z := w32 (Z.lor (Z.shiftl x n) (Z.shiftr x (32 - n))).

Definition H0 : list Z := [0x67452301; 0xefcdab89; 0x98badcfe; 0x10325476; 0xc3d2e1f0].

Definition f_k (t : Z) (b c d : Z) : Z * Z :=
  if t <? 20 then (Z.lxor d (Z.land b (Z.lxor c d)), 0x5a827999)
  else if t <? 40 then (Z.lxor (Z.lxor b c) d, 0x6ed9eba1)
  else if t <? 60 then (Z.lor (Z.land b c) (Z.land d (Z.lor b c)), 0x8f1bbcdc)
  else (Z.lxor (Z.lxor b c) d, 0xca62c1d6).

(* n rounds starting at round index t, sliding 16-word schedule window *)
Fixpoint rounds (n : nat) (t : Z) (w : list Z) (st : list Z) : list Z :=
  match n with
  | O => st
  | S n' =>
    match w, st with
    | [w0; w1; w2; w3; w4; w5; w6; w7; w8; w9; w10; w11; w12; w13; w14; w15], [a; b; c; d; e] =>
      let '(f, k) := f_k t b c d in
      let tmp := w32 (rotl 5 a + f + e + k + w0) in
      let wn := rotl 1 (Z.lxor (Z.lxor w13 w8) (Z.lxor w2 w0)) in
      rounds n' (t + 1) [w1; w2; w3; w4; w5; w6; w7; w8; w9; w10; w11; w12; w13; w14; w15; wn]
             [tmp; a; rotl 30 b; c; d]
    | _, _ => st
    end
  end.

Fixpoint be_words (bs : list Z) : list Z :=
  match bs with
  | b0 :: b1 :: b2 :: b3 :: t => (((b0 * 256 + b1) * 256 + b2) * 256 + b3) :: be_words t
  | _ => []
  end.

Definition compress (st : list Z) (block : list Z) : list Z :=
  map (fun p => w32 (fst p + snd p)) (combine st (rounds 80 0 (be_words block) st)).

Fixpoint blocks (fuel : nat) (st : list Z) (bs : list Z) : list Z :=
  match fuel with
  | O => st
  | S n => match bs with
           | [] => st
           | _ => blocks n (compress st (firstn 64 bs)) (skipn 64 bs)
           end
  end.

Fixpoint be_bytes (n : nat) (v : Z) (acc : list Z) : list Z :=
  match n with
  | O => acc
  | S k => be_bytes k (Z.shiftr v 8) (Z.land v 255 :: acc)
  end.

Definition pad (msg : list Z) : list Z :=
  let l := Z.of_nat (length msg) in
  msg ++ 128 :: repeat 0 (Z.to_nat ((55 - l) mod 64)) ++ be_bytes 8 (l * 8) [].

Definition hash (msg : list Z) : list Z :=
  let p := pad msg in
  let st := blocks (S (length p / 64)) H0 p in
  flat_map (fun w => be_bytes 4 w []) st.

End Sha1.

Definition sha1 : list Z -> list Z := Sha1.hash.

(* ---- known answers (FIPS 180 / RFC 3174 examples) ---- *)
Definition sha1_of_words32 (ws : list Z) : list Z := flat_map (fun w => Sha1.be_bytes 4 w []) ws.

Example sha1_abc :
  sha1 [97; 98; 99] = sha1_of_words32 [0xa9993e36; 0x4706816a; 0xba3e2571; 0x7850c26c; 0x9cd0d89d].
Proof. vm_compute. reflexivity. Qed.

Example sha1_empty :
  sha1 [] = sha1_of_words32 [0xda39a3ee; 0x5e6b4b0d; 0x3255bfef; 0x95601890; 0xafd80709].
Proof. vm_compute. reflexivity. Qed.

(* "abcdbcdecdefdefgefghfghighijhijkijkljklmklmnlmnomnopnopq" (56 bytes -> 2 blocks) *)
Definition sha1_msg_2block : list Z :=
  [97;98;99;100; 98;99;100;101; 99;100;101;102; 100;101;102;103; 101;102;103;104; 102;103;104;105;
   103;104;105;106; 104;105;106;107; 105;106;107;108; 106;107;108;109; 107;108;109;110; 108;109;110;111;
   109;110;111;112; 110;111;112;113].
Example sha1_2block :
  sha1 sha1_msg_2block = sha1_of_words32 [0x84983e44; 0x1c3bd26e; 0xbaae4aa1; 0xf95129e5; 0xe54670f1].
Proof. vm_compute. reflexivity. Qed.

Example sha1_64a :
  sha1 (repeat 97 64) = sha1_of_words32 [0x0098ba82; 0x4b5c1642; 0x7bd7a112; 0x2a5a442a; 0x25ec644d].
Proof. vm_compute. reflexivity. Qed.

Example sha1_length : length (sha1 sha1_msg_2block) = 20%nat.
Proof. vm_compute. reflexivity. Qed.
