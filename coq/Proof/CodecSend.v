(* Concurrent senders on one connection (Model/CodecSend.v): under every schedule the byte
   stream is the concatenation of whole frames in lock order, frame numbers included. *)
From Coq Require Import ZArith List Bool Lia.
From TD Require Import Lib.Bytes Lib.GoSem Model.Codec Model.CodecSend Proof.Codec Proof.CodecRT.
Import ListNotations.
Open Scope Z_scope.

Section Send.
Variable crc : bytes -> Z.
Variable c : codec.
Variable rnd : Z -> bytes.
Variable split : bytes -> list bytes.
Hypothesis split_ok : forall f, concat (split f) = f.

Variable q0 : nat -> list bytes.
Variable seq0 : Z.
(* every payload handed to Send is one the codec accepts *)
Hypothesis writable : forall i p seq r, In p (q0 i) -> exists f, write_c crc c seq r p = Ok f.

Definition pending (st : state) : bytes :=
  match holder st with Some (_, chs) => concat chs | None => [] end.

Definition inv (st : state) : Prop :=
  nseq st = seq0 + Z.of_nat (length (log st)) /\
  (forall i, sent_by i (log st) ++ queue st i = q0 i) /\
  match intact st with
  | None =>
    write_all crc c seq0 rnd (map snd (log st)) = Ok (stream st ++ pending st) /\
    (forall j chs, holder st = Some (j, chs) ->
       exists l' p w0 donep, log st = l' ++ [(j, p)] /\
                             write_all crc c seq0 rnd (map snd l') = Ok w0 /\ stream st = w0 ++ donep)
  | Some n =>
    (n <= length (log st))%nat /\
    exists w tail, write_all crc c seq0 rnd (firstn n (map snd (log st))) = Ok w /\ stream st = w ++ tail
  end.

Lemma inv_init : inv (init q0 seq0).
Proof.
  unfold inv, init, pending, sent_by; cbn. repeat split; try lia. intros j chs H; discriminate.
Qed.

Lemma sent_by_snoc i j p l :
  sent_by i (l ++ [(j, p)]) = sent_by i l ++ (if Nat.eqb j i then [p] else []).
Proof.
  unfold sent_by. rewrite filter_app, map_app. cbn. destruct (Nat.eqb j i); reflexivity.
Qed.

Lemma firstn_snoc_le {A} n (l : list A) x : (n <= length l)%nat -> firstn n (l ++ [x]) = firstn n l.
Proof.
  intros H. rewrite firstn_app. replace (n - length l)%nat with 0%nat by lia. cbn. apply app_nil_r.
Qed.

Lemma step_inv st e st' : inv st -> step crc c rnd split st e = Some st' -> inv st'.
Proof.
  intros (Hn & Hq & Hi) Hs. destruct e as [i|i|i|i n]; cbn [step] in Hs.
  - (* Acquire *)
    destruct (holder st) as [[j chs]|] eqn:Hh; [discriminate|].
    destruct (queue st i) as [|p t] eqn:Hqi; [discriminate|].
    assert (In p (q0 i)) as Hin by (rewrite <- (Hq i), Hqi, in_app_iff; right; left; reflexivity).
    destruct (writable i p (nseq st) (rnd (nseq st)) Hin) as (f & Hf). rewrite Hf in Hs.
    inversion Hs; subst st'; clear Hs. unfold inv, pending in *; cbn [nseq log stream holder queue intact].
    split; [rewrite app_length; cbn; lia|]. split.
    { intros k. rewrite sent_by_snoc. unfold upd. rewrite Nat.eqb_sym.
      destruct (Nat.eqb_spec k i) as [->|Hk].
      - rewrite <- app_assoc. cbn [app]. rewrite <- Hqi. apply Hq.
      - rewrite app_nil_r. apply Hq. }
    destruct (intact st) as [m|].
    + destruct Hi as (Hm & w & tail & Hw & Hst). split; [rewrite app_length; lia|].
      exists w, tail. rewrite map_app. cbn [map snd]. rewrite firstn_snoc_le by (rewrite map_length; exact Hm). auto.
    + destruct Hi as (Hw & _). rewrite Hh, app_nil_r in Hw. split.
      * rewrite map_app. cbn [map snd]. rewrite (write_all_app crc c rnd _ _ p _ Hw).
        rewrite map_length, <- Hn, Hf. cbn [bind]. rewrite split_ok. reflexivity.
      * intros j chs E. inversion E; subst. exists (log st), p, (stream st), []. rewrite app_nil_r. auto.
  - (* WriteChunk *)
    destruct (holder st) as [[j [|ch rest]]|] eqn:Hh; try discriminate.
    destruct (Nat.eqb i j); [|discriminate].
    inversion Hs; subst st'; clear Hs. unfold inv, pending in *; cbn [nseq log stream holder queue intact].
    split; [exact Hn|]. split; [exact Hq|].
    destruct (intact st) as [m|].
    + destruct Hi as (Hm & w & tail & Hw & Hst). split; [exact Hm|]. exists w, (tail ++ ch). rewrite Hst, app_assoc. auto.
    + destruct Hi as (Hw & Hb). rewrite Hh in Hw. cbn [concat] in Hw. split; [rewrite <- app_assoc; exact Hw|].
      intros j' chs E. destruct (Hb j (ch :: rest) eq_refl) as (l' & p & w0 & dn & A & B & C).
      inversion E; subst j' chs. exists l', p, w0, (dn ++ ch). rewrite C, app_assoc. auto.
  - (* Release *)
    destruct (holder st) as [[j [|ch rest]]|] eqn:Hh; try discriminate.
    destruct (Nat.eqb i j); [|discriminate].
    inversion Hs; subst st'; clear Hs. unfold inv, pending in *; cbn [nseq log stream holder queue intact].
    split; [exact Hn|]. split; [exact Hq|].
    destruct (intact st) as [m|]; [exact Hi|]. destruct Hi as (Hw & _). rewrite Hh in Hw. split; [exact Hw|].
    intros j' chs E; discriminate.
  - (* WriteFail *)
    destruct (holder st) as [[j [|ch rest]]|] eqn:Hh; try discriminate.
    destruct (Nat.eqb i j); [|discriminate].
    inversion Hs; subst st'; clear Hs. unfold inv, pending in *; cbn [nseq log stream holder queue intact].
    split; [exact Hn|]. split; [exact Hq|].
    destruct (intact st) as [m|].
    + destruct Hi as (Hm & w & tail & Hw & Hst). split; [exact Hm|]. exists w, (tail ++ firstn n ch). rewrite Hst, app_assoc. auto.
    + destruct Hi as (_ & Hb). destruct (Hb j (ch :: rest) eq_refl) as (l' & p & w0 & dn & A & B & C).
      rewrite A, app_length. cbn [length]. replace (pred (length l' + 1)) with (length l') by lia.
      split; [lia|]. exists w0, (dn ++ firstn n ch).
      rewrite map_app, firstn_app, map_length, Nat.sub_diag. cbn [firstn]. rewrite app_nil_r.
      rewrite <- (map_length snd l'), firstn_all. rewrite C, app_assoc. auto.
Qed.

Lemma run_inv es : forall st st', inv st -> run crc c rnd split st es = Some st' -> inv st'.
Proof.
  induction es as [|e t IH]; intros st st' Hi Hr; cbn [run] in Hr.
  - inversion Hr; subst; exact Hi.
  - destruct (step crc c rnd split st e) as [st1|] eqn:Hs; [|discriminate].
    eapply IH; [eapply step_inv; eauto|exact Hr].
Qed.

(* Every schedule in which no conn.Write has failed: whenever the mutex is free, the connection
   carries exactly the frames of the Sends, whole, in lock order and numbered consecutively;
   each sender's payloads appear in its program order. *)
Lemma send_atomic es st :
  run crc c rnd split (init q0 seq0) es = Some st -> holder st = None -> intact st = None ->
  write_all crc c seq0 rnd (map snd (log st)) = Ok (stream st) /\
  (forall i, sent_by i (log st) ++ queue st i = q0 i).
Proof.
  intros Hr Hh Hi. destruct (run_inv es _ _ inv_init Hr) as (_ & Hq & Hw).
  rewrite Hi in Hw. destruct Hw as (Hw & _). unfold pending in Hw. rewrite Hh, app_nil_r in Hw. split; assumption.
Qed.

(* Every schedule whatsoever (any state, mutex held or not): after a first failed conn.Write
   tore frame number n, the n frames before it are still on the wire, whole and in lock order,
   at the head of the stream.  Nothing is claimed about what follows the torn frame. *)
Lemma send_until_failure es st n :
  run crc c rnd split (init q0 seq0) es = Some st -> intact st = Some n ->
  (n <= length (log st))%nat /\
  exists w tail, write_all crc c seq0 rnd (firstn n (map snd (log st))) = Ok w /\ stream st = w ++ tail.
Proof.
  intros Hr Hi. destruct (run_inv es _ _ inv_init Hr) as (_ & _ & Hw). rewrite Hi in Hw. exact Hw.
Qed.

End Send.

(* ... and the receiver reads exactly that sequence of payloads. *)
Lemma senders_delivered (crc : bytes -> Z) (c : codec) (rnd : Z -> bytes) (split : bytes -> list bytes)
      (q0 : nat -> list bytes) (seq0 : Z) es st fuel :
  (forall x, 0 <= crc x < 2 ^ 32) ->
  (forall i, length (rnd i) = 4%nat) ->
  (forall f, concat (split f) = f) ->
  (forall i p, In p (q0 i) -> frame_ok c p) ->
  run crc c rnd split (init q0 seq0) es = Some st -> holder st = None -> intact st = None ->
  (length (log st) < fuel)%nat ->
  read_stream crc c seq0 fuel (stream st) = (map snd (log st), StopErr EEof) /\
  (forall i, sent_by i (log st) ++ queue st i = q0 i).
Proof.
  intros Hcrc Hrnd Hsplit Hok Hrun Hfree Hint Hfuel.
  assert (forall i p seq r, In p (q0 i) -> exists f, write_c crc c seq r p = Ok f) as Hwr.
  { intros i p seq r Hin. destruct (Hok i p Hin) as (Hs & _ & Hf). apply (write_ok_iff_fits crc c p seq r Hs); exact Hf. }
  destruct (send_atomic crc c rnd split Hsplit q0 seq0 Hwr es st Hrun Hfree Hint) as (Hw & Hq).
  split; [|exact Hq].
  assert (Forall (frame_ok c) (map snd (log st))) as Hall.
  { apply Forall_forall. intros p Hin. apply in_map_iff in Hin. destruct Hin as ([i p'] & E & Hin); cbn in E; subst p'.
    apply (Hok i). rewrite <- (Hq i), in_app_iff. left. unfold sent_by.
    apply in_map_iff. exists (i, p); split; [reflexivity|]. apply filter_In; split; [exact Hin|cbn; apply Nat.eqb_refl]. }
  destruct (stream_roundtrip crc Hcrc c rnd Hrnd (map snd (log st)) seq0 fuel Hall ltac:(rewrite map_length; exact Hfuel))
    as (w & Hw' & Hr).
  rewrite Hw in Hw'. apply ok_inj in Hw'. subst w. exact Hr.
Qed.

(* ... and when a conn.Write failed: the receiver still reads the n frames sent before the torn
   one, in lock order; what it reads afterwards ([tail]) is unspecified. *)
Lemma senders_until_failure (crc : bytes -> Z) (c : codec) (rnd : Z -> bytes) (split : bytes -> list bytes)
      (q0 : nat -> list bytes) (seq0 : Z) es st n fuel :
  (forall x, 0 <= crc x < 2 ^ 32) ->
  (forall i, length (rnd i) = 4%nat) ->
  (forall f, concat (split f) = f) ->
  (forall i p, In p (q0 i) -> frame_ok c p) ->
  run crc c rnd split (init q0 seq0) es = Some st -> intact st = Some n ->
  exists tail,
    read_stream crc c seq0 (n + fuel) (stream st) =
    (firstn n (map snd (log st)) ++ fst (read_stream crc c (seq0 + Z.of_nat n) fuel tail),
     snd (read_stream crc c (seq0 + Z.of_nat n) fuel tail)).
Proof.
  intros Hcrc Hrnd Hsplit Hok Hrun Hint.
  assert (forall i p seq r, In p (q0 i) -> exists f, write_c crc c seq r p = Ok f) as Hwr.
  { intros i p seq r Hin. destruct (Hok i p Hin) as (Hs & _ & Hf). apply (write_ok_iff_fits crc c p seq r Hs); exact Hf. }
  destruct (run_inv crc c rnd split Hsplit q0 seq0 Hwr es _ _ (inv_init crc c rnd q0 seq0) Hrun) as (_ & Hq & Hw).
  rewrite Hint in Hw. destruct Hw as (Hn & w & tail & Hw & Hst).
  assert (Forall (frame_ok c) (firstn n (map snd (log st)))) as Hall.
  { apply Forall_forall. intros p Hin. apply in_firstn_in in Hin. apply in_map_iff in Hin.
    destruct Hin as ([i p'] & E & Hin); cbn in E; subst p'.
    apply (Hok i). rewrite <- (Hq i), in_app_iff. left. unfold sent_by.
    apply in_map_iff. exists (i, p); split; [reflexivity|]. apply filter_In; split; [exact Hin|cbn; apply Nat.eqb_refl]. }
  assert (length (firstn n (map snd (log st))) = n) as Hl by (rewrite firstn_length, map_length; lia).
  destruct (read_stream_frames crc Hcrc c rnd Hrnd (firstn n (map snd (log st))) seq0 tail fuel Hall) as (w' & Hw' & Hr).
  rewrite Hw in Hw'. apply ok_inj in Hw'. subst w'. rewrite Hl in Hr.
  exists tail. rewrite Hst. exact Hr.
Qed.
