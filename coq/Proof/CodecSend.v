(* Concurrent senders on one connection (Model/CodecSend.v): under every schedule the byte
   stream is the concatenation of whole frames in lock order, frame numbers included. *)
From Coq Require Import ZArith List Bool Lia.
From TD Require Import Lib.GoSem Model.Codec Model.CodecSend Proof.Codec Proof.CodecRT.
Import ListNotations.
Open Scope Z_scope.

Section Send.
Variable crc : bytes -> Z.
Variable c : codec.
Variable rnd : Z -> bytes.
Variable split : bytes -> list bytes.
Hypothesis split_ok : forall f, concat (split f) = f.

Variable q0 : nat -> list bytes.
Variable seq0 : Z.
(* every payload handed to Send is one the codec accepts *)
Hypothesis writable : forall i p seq r, In p (q0 i) -> exists f, write_c crc c seq r p = Ok f.

Definition pending (st : state) : bytes :=
  match holder st with Some (_, chs) => concat chs | None => [] end.

Definition inv (st : state) : Prop :=
  nseq st = seq0 + Z.of_nat (length (log st)) /\
  write_all crc c seq0 rnd (map snd (log st)) = Ok (stream st ++ pending st) /\
  (forall i, sent_by i (log st) ++ queue st i = q0 i).

Lemma inv_init : inv (init q0 seq0).
Proof. unfold inv, init, pending, sent_by; cbn. repeat split; lia. Qed.

Lemma sent_by_snoc i j p l :
  sent_by i (l ++ [(j, p)]) = sent_by i l ++ (if Nat.eqb j i then [p] else []).
Proof.
  unfold sent_by. rewrite filter_app, map_app. cbn. destruct (Nat.eqb j i); reflexivity.
Qed.

Lemma step_inv st e st' : inv st -> step crc c rnd split st e = Some st' -> inv st'.
Proof.
  intros (Hn & Hw & Hq) Hs. destruct e as [i|i|i]; cbn [step] in Hs.
  - destruct (holder st) as [[j chs]|] eqn:Hh; [discriminate|].
    destruct (queue st i) as [|p t] eqn:Hqi; [discriminate|].
    assert (In p (q0 i)) as Hin by (rewrite <- (Hq i), Hqi, in_app_iff; right; left; reflexivity).
    destruct (writable i p (nseq st) (rnd (nseq st)) Hin) as (f & Hf). rewrite Hf in Hs.
    inversion Hs; subst st'; clear Hs. unfold inv, pending in *; cbn [nseq log stream holder queue].
    rewrite Hh in Hw. rewrite app_nil_r in Hw.
    split; [rewrite app_length; cbn; lia|]. split.
    + rewrite map_app. cbn [map snd]. rewrite (write_all_app crc c rnd _ _ p _ Hw).
      rewrite map_length, <- Hn, Hf. cbn [bind]. rewrite split_ok. reflexivity.
    + intros k. rewrite sent_by_snoc. unfold upd. rewrite Nat.eqb_sym.
      destruct (Nat.eqb_spec k i) as [->|Hk].
      * rewrite <- app_assoc. cbn [app]. rewrite <- Hqi. apply Hq.
      * rewrite app_nil_r. apply Hq.
  - destruct (holder st) as [[j [|ch rest]]|] eqn:Hh; try discriminate.
    destruct (Nat.eqb i j); [|discriminate].
    inversion Hs; subst st'; clear Hs. unfold inv, pending in *; cbn [nseq log stream holder queue].
    rewrite Hh in Hw. cbn [concat] in Hw. rewrite <- app_assoc. auto.
  - destruct (holder st) as [[j [|ch rest]]|] eqn:Hh; try discriminate.
    destruct (Nat.eqb i j); [|discriminate].
    inversion Hs; subst st'; clear Hs. unfold inv, pending in *; cbn [nseq log stream holder queue].
    rewrite Hh in Hw. auto.
Qed.

Lemma run_inv es : forall st st', inv st -> run crc c rnd split st es = Some st' -> inv st'.
Proof.
  induction es as [|e t IH]; intros st st' Hi Hr; cbn [run] in Hr.
  - inversion Hr; subst; exact Hi.
  - destruct (step crc c rnd split st e) as [st1|] eqn:Hs; [|discriminate].
    eapply IH; [eapply step_inv; eauto|exact Hr].
Qed.

(* Every schedule: whenever the mutex is free, the connection carries exactly the frames of
   the successful Sends, whole, in lock order and numbered consecutively; each sender's
   payloads appear in its program order. *)
Lemma send_atomic es st :
  run crc c rnd split (init q0 seq0) es = Some st -> holder st = None ->
  write_all crc c seq0 rnd (map snd (log st)) = Ok (stream st) /\
  (forall i, sent_by i (log st) ++ queue st i = q0 i).
Proof.
  intros Hr Hh. destruct (run_inv es _ _ inv_init Hr) as (_ & Hw & Hq).
  unfold pending in Hw. rewrite Hh, app_nil_r in Hw. split; assumption.
Qed.

End Send.

(* ... and the receiver reads exactly that sequence of payloads. *)
Lemma senders_delivered (crc : bytes -> Z) (c : codec) (rnd : Z -> bytes) (split : bytes -> list bytes)
      (q0 : nat -> list bytes) (seq0 : Z) es st fuel :
  (forall x, 0 <= crc x < 2 ^ 32) ->
  (forall i, length (rnd i) = 4%nat) ->
  (forall f, concat (split f) = f) ->
  (forall i p, In p (q0 i) -> frame_ok c p) ->
  run crc c rnd split (init q0 seq0) es = Some st -> holder st = None ->
  (length (log st) < fuel)%nat ->
  read_stream crc c seq0 fuel (stream st) = (map snd (log st), StopErr EEof) /\
  (forall i, sent_by i (log st) ++ queue st i = q0 i).
Proof.
  intros Hcrc Hrnd Hsplit Hok Hrun Hfree Hfuel.
  assert (forall i p seq r, In p (q0 i) -> exists f, write_c crc c seq r p = Ok f) as Hwr.
  { intros i p seq r Hin. destruct (Hok i p Hin) as (Hs & _ & Hf). apply (write_ok_iff_fits crc c p seq r Hs); exact Hf. }
  destruct (send_atomic crc c rnd split Hsplit q0 seq0 Hwr es st Hrun Hfree) as (Hw & Hq).
  split; [|exact Hq].
  assert (Forall (frame_ok c) (map snd (log st))) as Hall.
  { apply Forall_forall. intros p Hin. apply in_map_iff in Hin. destruct Hin as ([i p'] & E & Hin); cbn in E; subst p'.
    apply (Hok i). rewrite <- (Hq i), in_app_iff. left. unfold sent_by.
    apply in_map_iff. exists (i, p); split; [reflexivity|]. apply filter_In; split; [exact Hin|cbn; apply Nat.eqb_refl]. }
  destruct (stream_roundtrip crc Hcrc c rnd Hrnd (map snd (log st)) seq0 fuel Hall ltac:(rewrite map_length; exact Hfuel))
    as (w & Hw' & Hr).
  rewrite Hw in Hw'. apply ok_inj in Hw'. subst w. exact Hr.
Qed.
