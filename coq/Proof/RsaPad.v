(* Proofs for C14: RSA_PAD / legacy hashed RSA round-trips, model = specification, acceptance
   characterisations. *)
From Coq Require Import ZArith List Bool Lia.
From TD Require Import Lib.Bytes Lib.GoSem Lib.BeBytes Gen.RsaConsts Model.RsaPad Model.RsaPadSpec.
Import ListNotations.
Open Scope Z_scope.

Lemma firstn_all_len {A} n (l : list A) : length l = n -> firstn n l = l.
Proof. intros <-; apply firstn_all. Qed.
Lemma skipn_all_len {A} n (l : list A) : length l = n -> skipn n l = [].
Proof. intros <-; apply skipn_all. Qed.
Lemma firstn_app_len {A} n (a b : list A) : length a = n -> firstn n (a ++ b) = a.
Proof. intros <-; apply firstn_app_exact. Qed.
Lemma skipn_app_len {A} n (a b : list A) : length a = n -> skipn n (a ++ b) = b.
Proof. intros <-; apply skipn_app_exact. Qed.
Lemma bytes_ok_app_intro a b : bytes_ok a -> bytes_ok b -> bytes_ok (a ++ b).
Proof. intros; apply bytes_ok_app; split; assumption. Qed.

Section RsaProofs.
  Variable sha256 : list Z -> list Z.
  Variable sha1 : list Z -> list Z.
  Variable aes_enc : list Z -> list Z -> list Z.
  Variable aes_dec : list Z -> list Z -> list Z.
  Variable modexp : Z -> Z -> Z -> Z.
  Variable N : Z.
  Variable e : Z.
  Variable d : Z.

  Notation sha256_wf := (RsaPad.sha256_wf sha256).
  Notation sha1_wf := (RsaPad.sha1_wf sha1).
  Notation aes_wf := (RsaPad.aes_wf aes_enc).
  Notation aes_inverse := (RsaPad.aes_inverse aes_enc aes_dec).
  Notation aes_dec_wf := (RsaPad.aes_dec_wf aes_dec).
  Notation aes_inverse_r := (RsaPad.aes_inverse_r aes_enc aes_dec).
  Notation modexp_is_pow := (RsaPad.modexp_is_pow modexp N).
  Notation rsa_key_pair := (RsaPad.rsa_key_pair N e d).

  Notation ige_enc := (ige_enc aes_enc).
  Notation ige_dec := (ige_dec aes_dec).
  Notation pad_kae := (pad_key_aes_encrypted sha256 aes_enc).
  Notation rsa_pad := (rsa_pad sha256 aes_enc modexp N e).
  Notation rsa_pad_loop := (rsa_pad_loop sha256 aes_enc modexp N e).
  Notation decode_rsa_pad := (decode_rsa_pad sha256 aes_dec modexp N d).
  Notation rsa_encrypt := (rsa_encrypt modexp N e).
  Notation rsa_decrypt := (rsa_decrypt modexp N d).
  Notation rsa_encrypt_hashed := (rsa_encrypt_hashed sha1 modexp N e).
  Notation rsa_decrypt_hashed := (rsa_decrypt_hashed sha1 modexp N d).

  (* ---------- IGE ---------- *)
  Lemma xor16 a b : length a = 16%nat -> length b = 16%nat -> bytes_ok a -> bytes_ok b ->
    length (xor_bytes a b) = 16%nat /\ bytes_ok (xor_bytes a b).
  Proof. intros Ha Hb Hao Hbo; split; [rewrite xor_bytes_length; lia|apply xor_bytes_ok; assumption]. Qed.

  Lemma ige_block_wf k p c m : aes_wf -> length p = 16%nat -> length c = 16%nat -> length m = 16%nat ->
    bytes_ok p -> bytes_ok c -> bytes_ok m ->
    length (xor_bytes (aes_enc k (xor_bytes p c)) m) = 16%nat /\ bytes_ok (xor_bytes (aes_enc k (xor_bytes p c)) m).
  Proof.
    intros Hw Hp Hc Hm Hpo Hco Hmo.
    destruct (xor16 p c Hp Hc Hpo Hco) as [H1 H2]. destruct (Hw k _ H1 H2) as [H3 H4].
    apply xor16; assumption.
  Qed.

  Lemma ige_enc_wf k : aes_wf -> forall n c m src, length c = 16%nat -> length m = 16%nat ->
    bytes_ok c -> bytes_ok m -> bytes_ok src -> (16 * n <= length src)%nat ->
    length (ige_enc k c m n src) = (16 * n)%nat /\ bytes_ok (ige_enc k c m n src).
  Proof.
    intros Hw; induction n as [|n IH]; intros c m src Hc Hm Hco Hmo Hso Hs; [split; [reflexivity|constructor]|].
    cbn [RsaPad.ige_enc].
    assert (length (firstn 16 src) = 16%nat) as Hp by (rewrite firstn_length; lia).
    pose proof (bytes_ok_firstn 16 _ Hso) as Hpo.
    destruct (ige_block_wf k (firstn 16 src) c m Hw Hp Hc Hm Hpo Hco Hmo) as [Hol Hoo].
    destruct (IH _ (firstn 16 src) (skipn 16 src) Hol Hp Hoo Hpo (bytes_ok_skipn 16 _ Hso)
                 ltac:(rewrite skipn_length; lia)) as [IHl IHo].
    split; [rewrite app_length, Hol, IHl; lia|apply bytes_ok_app_intro; assumption].
  Qed.

  Lemma ige_roundtrip k : aes_wf -> aes_inverse -> forall n c m src, length c = 16%nat -> length m = 16%nat ->
    bytes_ok c -> bytes_ok m -> bytes_ok src ->
    (16 * n <= length src)%nat -> ige_dec k c m n (ige_enc k c m n src) = firstn (16 * n) src.
  Proof.
    intros Hw Hi; induction n as [|n IH]; intros c m src Hc Hm Hco Hmo Hso Hs; [reflexivity|].
    cbn [RsaPad.ige_enc RsaPad.ige_dec].
    assert (length (firstn 16 src) = 16%nat) as Hp by (rewrite firstn_length; lia).
    pose proof (bytes_ok_firstn 16 _ Hso) as Hpo.
    set (p := firstn 16 src) in *.
    destruct (ige_block_wf k p c m Hw Hp Hc Hm Hpo Hco Hmo) as [Ho Hoo].
    set (o := xor_bytes (aes_enc k (xor_bytes p c)) m) in *.
    destruct (xor16 p c Hp Hc Hpo Hco) as [Hpc Hpco].
    rewrite (firstn_app_len 16 o) by exact Ho. rewrite (skipn_app_len 16 o) by exact Ho.
    assert (xor_bytes (aes_dec k (xor_bytes o m)) c = p) as E.
    { unfold o. rewrite xor_bytes_invol by (destruct (Hw k (xor_bytes p c) Hpc Hpco) as [-> _]; lia).
      rewrite Hi by assumption. apply xor_bytes_invol; lia. }
    rewrite !E.
    rewrite IH by (try assumption; try (apply bytes_ok_skipn; assumption); rewrite skipn_length; lia).
    replace (16 * S n)%nat with (16 + 16 * n)%nat by lia.
    rewrite <- (firstn_skipn 16 src) at 2. fold p.
    rewrite firstn_app, Hp.
    replace (16 + 16 * n - 16)%nat with (16 * n)%nat by lia.
    rewrite (firstn_all2 (n:=16 + 16 * n) p) by lia. reflexivity.
  Qed.

  (* ---------- RSAPad: steps 4-7 ---------- *)
  Definition pad_ae (tk dwp : list Z) : list Z :=
    ige_enc tk (repeat 0 16) (repeat 0 16) 14 (rev dwp ++ sha256 (tk ++ dwp)).
  Definition pad_block (tk dwp : list Z) : list Z :=
    xor_bytes tk (sha256 (pad_ae tk dwp)) ++ pad_ae tk dwp.

  Lemma zeros16 : length (repeat 0 16) = 16%nat /\ bytes_ok (repeat 0 16).
  Proof. split; [apply repeat_length|apply bytes_ok_repeat; unfold byte_ok; lia]. Qed.

  Lemma pad_ae_wf tk dwp : sha256_wf -> aes_wf -> length dwp = 192%nat -> bytes_ok dwp ->
    length (pad_ae tk dwp) = 224%nat /\ bytes_ok (pad_ae tk dwp).
  Proof.
    intros Hs Hw Hl Ho. unfold pad_ae.
    assert (length (rev dwp ++ sha256 (tk ++ dwp)) = 224%nat) as HL
      by (rewrite app_length, rev_length, Hl; destruct (Hs (tk ++ dwp)) as [-> _]; reflexivity).
    destruct zeros16 as [Hz Hzo].
    apply (ige_enc_wf tk Hw 14); try assumption; [|rewrite HL; cbn; lia].
    apply bytes_ok_app_intro; [apply bytes_ok_rev; rewrite rev_involutive; exact Ho|apply Hs].
  Qed.
  Lemma pad_ae_len tk dwp : sha256_wf -> aes_wf -> length dwp = 192%nat -> bytes_ok dwp ->
    length (pad_ae tk dwp) = 224%nat.
  Proof. intros; apply pad_ae_wf; assumption. Qed.

  Lemma pad_kae_eq tk dwp : sha256_wf -> length dwp = 192%nat -> pad_kae tk dwp = Ok (pad_block tk dwp).
  Proof.
    intros Hs Hl. unfold pad_key_aes_encrypted, ige_encrypt.
    change (Z.to_nat c_dataWithHashLength) with 224%nat.
    assert (length (rev dwp ++ sha256 (tk ++ dwp)) = 224%nat) as HL
      by (rewrite app_length, rev_length, Hl; destruct (Hs (tk ++ dwp)) as [-> _]; reflexivity).
    rewrite (firstn_all_len 224) by exact HL. rewrite HL.
    change (Z.of_nat 224 mod 16 =? 0) with true. cbv iota.
    change (224 / 16)%nat with 14%nat.
    change (firstn 16 zero_iv) with (repeat 0 16). change (skipn 16 zero_iv) with (repeat 0 16).
    reflexivity.
  Qed.

  Lemma pad_block_wf tk dwp : sha256_wf -> aes_wf -> length tk = 32%nat -> bytes_ok tk ->
    length dwp = 192%nat -> bytes_ok dwp ->
    length (pad_block tk dwp) = 256%nat /\ bytes_ok (pad_block tk dwp) /\
    length (xor_bytes tk (sha256 (pad_ae tk dwp))) = 32%nat.
  Proof.
    intros Hs Hw Hlk Hok Hl Ho. destruct (pad_ae_wf tk dwp Hs Hw Hl Ho) as [HL HO].
    assert (length (xor_bytes tk (sha256 (pad_ae tk dwp))) = 32%nat) as HX
      by (rewrite xor_bytes_length, Hlk; destruct (Hs (pad_ae tk dwp)) as [-> _]; reflexivity).
    unfold pad_block; repeat split; [rewrite app_length, HX, HL; reflexivity| |exact HX].
    apply bytes_ok_app_intro; [apply xor_bytes_ok; [exact Hok|apply Hs]|exact HO].
  Qed.

  (* ---------- rsaEncrypt / rsaDecrypt ---------- *)
  Lemma rsa_encrypt_eq x : modexp_is_pow -> 0 <= e -> 0 < N <= 256 ^ 256 ->
    rsa_encrypt x = Ok (be_enc 256 (be_dec x ^ e mod N)).
  Proof.
    intros He He0 HN. unfold RsaPad.rsa_encrypt. unfold RsaPad.modexp_is_pow in He. rewrite He by exact He0.
    change c_rsaLen with 256. change (Z.to_nat 256) with 256%nat.
    pose proof (Z.mod_pos_bound (be_dec x ^ e) N ltac:(lia)) as Hb.
    set (B := 256 ^ 256) in *.
    destruct (Z.ltb_spec (be_dec x ^ e mod N) B); [reflexivity|lia].
  Qed.

  Lemma rsa_roundtrip x n : modexp_is_pow -> rsa_key_pair -> 0 < N <= 256 ^ 256 ->
    bytes_ok x -> length x = n -> be_dec x < N ->
    rsa_decrypt (be_enc 256 (be_dec x ^ e mod N)) n = Some x.
  Proof.
    intros He [He0 [Hd0 Hk]] HN Hx Hl Hlt. unfold RsaPad.rsa_decrypt. unfold RsaPad.modexp_is_pow in He.
    pose proof (Z.mod_pos_bound (be_dec x ^ e) N ltac:(lia)) as Hb.
    pose proof (be_dec_range x Hx) as Hr.
    rewrite be_enc_length. change (Z.of_nat 256 =? c_rsaLen) with true. cbv [negb].
    rewrite be_dec_enc by (change (Z.of_nat 256) with 256; set (B := 256 ^ 256) in *; lia).
    destruct (Z.leb_spec N (be_dec x ^ e mod N)); [lia|].
    rewrite He by exact Hd0. rewrite Hk by lia.
    rewrite Hl in Hr. destruct (Z.ltb_spec (be_dec x) (256 ^ Z.of_nat n)); [|lia].
    rewrite <- Hl, be_enc_dec by exact Hx. reflexivity.
  Qed.

  (* ---------- DecodeRSAPad on a well-formed RSA_PAD block ---------- *)
  Lemma decode_of_block tk dwp c : sha256_wf -> aes_wf -> aes_inverse ->
    length tk = 32%nat -> length dwp = 192%nat -> bytes_ok dwp ->
    rsa_decrypt c 256 = Some (pad_block tk dwp) ->
    decode_rsa_pad c = Ok dwp.
  Proof.
    intros Hs Hw Hi Hlk Hl Ho Hd. unfold RsaPad.decode_rsa_pad. rewrite Hd.
    pose proof (pad_ae_len tk dwp Hs Hw Hl Ho) as HAL.
    assert (length (xor_bytes tk (sha256 (pad_ae tk dwp))) = 32%nat) as HX
      by (rewrite xor_bytes_length, Hlk; destruct (Hs (pad_ae tk dwp)) as [-> _]; reflexivity).
    change (Z.to_nat c_tempKeySize) with 32%nat. change (Z.to_nat c_dataWithPaddingLength) with 192%nat.
    unfold pad_block.
    rewrite (firstn_app_len 32) by exact HX. rewrite (skipn_app_len 32) by exact HX.
    rewrite xor_bytes_invol by (rewrite Hlk; destruct (Hs (pad_ae tk dwp)) as [-> _]; lia).
    unfold ige_decrypt. rewrite HAL.
    change (Z.of_nat 224 mod 16 =? 0) with true. cbv iota.
    change (224 / 16)%nat with 14%nat.
    change (firstn 16 zero_iv) with (repeat 0 16). change (skipn 16 zero_iv) with (repeat 0 16).
    unfold pad_ae at 1.
    assert (length (rev dwp ++ sha256 (tk ++ dwp)) = 224%nat) as HDL
      by (rewrite app_length, rev_length, Hl; destruct (Hs (tk ++ dwp)) as [-> _]; reflexivity).
    destruct zeros16 as [Hz Hzo].
    rewrite ige_roundtrip; try assumption;
      [|apply bytes_ok_app_intro; [apply bytes_ok_rev; rewrite rev_involutive; exact Ho|apply Hs]|rewrite HDL; cbn; lia].
    change (16 * 14)%nat with 224%nat. rewrite (firstn_all_len 224) by exact HDL.
    cbn [bind].
    rewrite (firstn_app_len 192) by (rewrite rev_length; exact Hl).
    rewrite (skipn_app_len 192) by (rewrite rev_length; exact Hl).
    rewrite rev_involutive, beqb_refl. reflexivity.
  Qed.

  (* ---------- the retry loop = first accepted temp key among the 32-byte chunks ---------- *)
  Fixpoint try_keys (dwp : list Z) (tks : list (list Z)) : rres :=
    match tks with
    | [] => Err ERand
    | tk :: t => if N <=? be_dec (pad_block tk dwp) then try_keys dwp t else rsa_encrypt (pad_block tk dwp)
    end.

  Lemma pad_loop_chunks dwp : sha256_wf -> length dwp = 192%nat ->
    forall fuel fuel' r, (length r < fuel)%nat -> (length r <= fuel')%nat ->
    rsa_pad_loop fuel dwp r = try_keys dwp (chunks_f fuel' 32 r).
  Proof.
    intros Hs Hl; induction fuel as [|f IH]; intros fuel' r Hf Hf'; [lia|].
    cbn [RsaPad.rsa_pad_loop]. change (Z.to_nat c_tempKeySize) with 32%nat.
    unfold read_full. destruct fuel' as [|f'].
    - destruct r; [|cbn in Hf'; lia]. reflexivity.
    - cbn [chunks_f]. destruct (Nat.leb_spec 32 (length r)) as [H32|H32]; [|reflexivity].
      rewrite pad_kae_eq by assumption. cbn [bind try_keys].
      rewrite (IH f' (skipn 32 r)) by (rewrite skipn_length; lia). reflexivity.
  Qed.

  Lemma chunks_f_wf n : forall fuel l x, bytes_ok l -> In x (chunks_f fuel n l) -> length x = n /\ bytes_ok x.
  Proof.
    induction fuel as [|f IH]; intros l x Hl Hx; [destruct Hx|].
    cbn [chunks_f] in Hx. destruct (Nat.leb_spec n (length l)) as [H|H]; [|destruct Hx].
    destruct Hx as [<-|Hx].
    - split; [apply firstn_length_le; exact H|apply bytes_ok_firstn; exact Hl].
    - apply (IH (skipn n l)); [apply bytes_ok_skipn; exact Hl|exact Hx].
  Qed.

  Lemma rsa_pad_eq data r : sha256_wf -> (length data <= 144)%nat ->
    rsa_pad data r =
      if (192 - length data <=? length r)%nat
      then try_keys (data ++ firstn (192 - length data) r) (chunks 32 (skipn (192 - length data) r))
      else Err ERand.
  Proof.
    intros Hs Hd. unfold RsaPad.rsa_pad.
    change c_rsaPadDataLimit with 144. change (Z.to_nat c_dataWithPaddingLength) with 192%nat.
    destruct (Z.ltb_spec 144 (Z.of_nat (length data))); [lia|].
    unfold read_full. destruct (Nat.leb_spec (192 - length data) (length r)) as [H1|H1]; [|reflexivity].
    unfold chunks. apply pad_loop_chunks; [exact Hs| |lia|lia].
    rewrite app_length, firstn_length_le by exact H1. lia.
  Qed.

  Lemma rsa_pad_too_big data r : (144 < length data)%nat -> rsa_pad data r = Err ETooBig.
  Proof.
    intros H. unfold RsaPad.rsa_pad. change c_rsaPadDataLimit with 144.
    destruct (Z.ltb_spec 144 (Z.of_nat (length data))); [reflexivity|lia].
  Qed.

  Lemma try_keys_ok dwp tks c : try_keys dwp tks = Ok c ->
    exists tk, In tk tks /\ be_dec (pad_block tk dwp) < N /\ rsa_encrypt (pad_block tk dwp) = Ok c.
  Proof.
    induction tks as [|tk t IH]; cbn [try_keys]; [discriminate|].
    destruct (Z.leb_spec N (be_dec (pad_block tk dwp))) as [H|H]; intros E.
    - destruct (IH E) as [tk' [Hin Hr]]. exists tk'; split; [right; exact Hin|exact Hr].
    - exists tk; split; [left; reflexivity|split; assumption].
  Qed.

  (* C14_pad_roundtrip *)
  Theorem pad_roundtrip : sha256_wf -> aes_wf -> aes_inverse -> modexp_is_pow -> rsa_key_pair ->
    0 < N <= 256 ^ 256 ->
    forall data r c, bytes_ok data -> bytes_ok r -> (length data <= 144)%nat ->
      rsa_pad data r = Ok c ->
      decode_rsa_pad c = Ok (data ++ firstn (192 - length data) r).
  Proof.
    intros Hs Hw Hi He Hk HN data r c Hdo Hro Hdl H.
    rewrite rsa_pad_eq in H by assumption.
    destruct (Nat.leb_spec (192 - length data) (length r)) as [H1|H1]; [|discriminate].
    apply try_keys_ok in H. destruct H as [tk [Hin [Hlt Henc]]].
    set (dwp := data ++ firstn (192 - length data) r) in *.
    assert (length dwp = 192%nat) as Hl by (unfold dwp; rewrite app_length, firstn_length_le by exact H1; lia).
    assert (bytes_ok dwp) as Ho by (apply bytes_ok_app_intro; [exact Hdo|apply bytes_ok_firstn; exact Hro]).
    destruct (chunks_f_wf 32 _ _ tk (bytes_ok_skipn _ _ Hro) Hin) as [Hlk Hok].
    destruct (pad_block_wf tk dwp Hs Hw Hlk Hok Hl Ho) as [HL [HO HX]].
    rewrite rsa_encrypt_eq in Henc by (try assumption; apply Hk). inversion Henc; subst c.
    apply (decode_of_block tk dwp _ Hs Hw Hi Hlk Hl Ho).
    apply rsa_roundtrip; assumption.
  Qed.

  (* never a panic, never out of fuel; errors only for oversize data / exhausted random stream *)
  Theorem pad_total : sha256_wf -> modexp_is_pow -> 0 <= e -> 0 < N <= 256 ^ 256 ->
    forall data r, match rsa_pad data r with
                   | Ok c => length c = 256%nat /\ bytes_ok c
                   | Err ETooBig => (144 < length data)%nat
                   | Err ERand => (length data <= 144)%nat
                   | _ => False
                   end.
  Proof.
    intros Hs He He0 HN data r.
    destruct (Nat.leb_spec (length data) 144) as [Hd|Hd].
    - rewrite rsa_pad_eq by assumption.
      destruct (Nat.leb_spec (192 - length data) (length r)); [|exact Hd].
      generalize (chunks 32 (skipn (192 - length data) r)) as tks.
      induction tks as [|tk t IH]; cbn [try_keys]; [exact Hd|].
      destruct (Z.leb_spec N (be_dec (pad_block tk (data ++ firstn (192 - length data) r)))); [exact IH|].
      rewrite rsa_encrypt_eq by assumption. split; [apply be_enc_length|apply be_enc_ok].
    - rewrite rsa_pad_too_big by exact Hd. exact Hd.
  Qed.

  (* the first accepted temp key is used *)
  Theorem pad_first_accepted : sha256_wf -> modexp_is_pow -> 0 <= e -> 0 < N <= 256 ^ 256 ->
    forall data r, (length data <= 144)%nat -> (192 - length data <= length r)%nat ->
    let dwp := data ++ firstn (192 - length data) r in
    forall pre tk post, chunks 32 (skipn (192 - length data) r) = pre ++ tk :: post ->
      (forall k, In k pre -> N <= be_dec (pad_block k dwp)) -> be_dec (pad_block tk dwp) < N ->
      rsa_pad data r = Ok (be_enc 256 (be_dec (pad_block tk dwp) ^ e mod N)).
  Proof.
    intros Hs He He0 HN data r Hd Hr dwp pre tk post Hc Hpre Htk.
    rewrite rsa_pad_eq by assumption.
    destruct (Nat.leb_spec (192 - length data) (length r)); [|lia].
    fold dwp. rewrite Hc. clear Hc. induction pre as [|k pre IH]; cbn [app try_keys].
    - destruct (Z.leb_spec N (be_dec (pad_block tk dwp))); [lia|]. apply rsa_encrypt_eq; assumption.
    - destruct (Z.leb_spec N (be_dec (pad_block k dwp))) as [_|Hk]; [apply IH; intros; apply Hpre; right; assumption|].
      specialize (Hpre k (or_introl eq_refl)). lia.
  Qed.

  (* ---------- model = specification ---------- *)
  Lemma XOR_eq a b : XOR a b = xor_bytes a b.
  Proof. unfold XOR; revert b; induction a as [|x a IH]; intros [|y b]; cbn; try reflexivity. f_equal; apply IH. Qed.
  Lemma IGE_eq k : forall n c m s, concat (IGE_blocks aes_enc k c m (blocks16 n s)) = ige_enc k c m n s.
  Proof.
    induction n as [|n IH]; intros c m s; [reflexivity|].
    cbn [blocks16 IGE_blocks concat RsaPad.ige_enc]. rewrite !XOR_eq, IH. reflexivity.
  Qed.
  Lemma as_uint_eq s : as_uint s = be_dec s.
  Proof. change (as_uint s) with (be_horner s); apply be_horner_dec. Qed.

  Lemma spec_kae_eq data pad tk : sha256_wf -> length (data ++ pad) = 192%nat ->
    spec_key_aes_encrypted sha256 aes_enc data pad tk = pad_block tk (data ++ pad).
  Proof.
    intros Hs Hl. unfold spec_key_aes_encrypted, AES256_IGE, BYTE_REVERSE, pad_block, pad_ae.
    assert (length (rev (data ++ pad) ++ sha256 (tk ++ data ++ pad)) = 224%nat) as HL
      by (rewrite app_length, rev_length, Hl; destruct (Hs (tk ++ data ++ pad)) as [-> _]; reflexivity).
    rewrite HL. change (224 / 16)%nat with 14%nat.
    change (firstn 16 (repeat 0 32)) with (repeat 0 16). change (skipn 16 (repeat 0 32)) with (repeat 0 16).
    rewrite IGE_eq, XOR_eq. reflexivity.
  Qed.

  Lemma spec_RSA_iff x out : 0 < N <= 256 ^ 256 ->
    spec_RSA N e x out <-> out = be_enc 256 (be_dec x ^ e mod N).
  Proof.
    intros HN. unfold spec_RSA. rewrite !as_uint_eq.
    pose proof (Z.mod_pos_bound (be_dec x ^ e) N ltac:(lia)) as Hb.
    split.
    - intros [Hl [Ho Hv]]. rewrite <- Hv, <- Hl. symmetry; apply be_enc_dec; exact Ho.
    - intros ->. split; [apply be_enc_length|split; [apply be_enc_ok|]].
      apply be_dec_enc. change (Z.of_nat 256) with 256. set (B := 256 ^ 256) in *. lia.
  Qed.

  Lemma try_keys_spec data pad : sha256_wf -> modexp_is_pow -> 0 <= e -> 0 < N <= 256 ^ 256 ->
    length (data ++ pad) = 192%nat ->
    forall tks c, try_keys (data ++ pad) tks = Ok c <-> spec_rsa_pad sha256 aes_enc N e data pad tks c.
  Proof.
    intros Hs He He0 HN Hl; induction tks as [|tk t IH]; intros c; cbn [try_keys].
    - split; [discriminate|intros H; inversion H].
    - destruct (Z.leb_spec N (be_dec (pad_block tk (data ++ pad)))) as [Hge|Hlt].
      + rewrite IH. split; intros H.
        * apply spec_pad_retry; [rewrite as_uint_eq, spec_kae_eq by assumption; exact Hge|exact H].
        * inversion H as [? ? ? Hacc _|? ? ? _ Hrest]; subst; [|exact Hrest].
          rewrite as_uint_eq, spec_kae_eq in Hacc by assumption. lia.
      + rewrite rsa_encrypt_eq by assumption. split; intros H.
        * apply spec_pad_accept; [rewrite as_uint_eq, spec_kae_eq by assumption; exact Hlt|].
          rewrite spec_kae_eq by assumption. apply spec_RSA_iff; [exact HN|]. inversion H; reflexivity.
        * inversion H as [? ? ? _ Hrsa|? ? ? Hrej _]; subst.
          -- rewrite spec_kae_eq in Hrsa by assumption. apply spec_RSA_iff in Hrsa; [|exact HN]. rewrite Hrsa; reflexivity.
          -- rewrite as_uint_eq, spec_kae_eq in Hrej by assumption. lia.
  Qed.

  (* C14_pad_is_spec *)
  Theorem pad_is_spec : sha256_wf -> modexp_is_pow -> 0 <= e -> 0 < N <= 256 ^ 256 ->
    forall data r c, (length data <= 144)%nat ->
      (rsa_pad data r = Ok c <->
       (192 - length data <= length r)%nat /\
       spec_rsa_pad sha256 aes_enc N e data (firstn (192 - length data) r)
                    (chunks 32 (skipn (192 - length data) r)) c).
  Proof.
    intros Hs He He0 HN data r c Hd. rewrite rsa_pad_eq by assumption.
    destruct (Nat.leb_spec (192 - length data) (length r)) as [H1|H1].
    - rewrite try_keys_spec by (try assumption; rewrite app_length, firstn_length_le by exact H1; lia).
      split; [intros H; split; [exact H1|exact H]|intros [_ H]; exact H].
    - split; [discriminate|intros [H _]; lia].
  Qed.

  (* ---------- acceptance characterisation of DecodeRSAPad ---------- *)
  Lemma ige_dec_block_wf k t c m : aes_dec_wf -> length t = 16%nat -> length c = 16%nat -> length m = 16%nat ->
    bytes_ok t -> bytes_ok c -> bytes_ok m ->
    length (xor_bytes (aes_dec k (xor_bytes t m)) c) = 16%nat /\ bytes_ok (xor_bytes (aes_dec k (xor_bytes t m)) c).
  Proof.
    intros Hw Ht Hc Hm Hto Hco Hmo.
    destruct (xor16 t m Ht Hm Hto Hmo) as [H1 H2]. destruct (Hw k _ H1 H2) as [H3 H4].
    apply xor16; assumption.
  Qed.
  Lemma ige_dec_wf k : aes_dec_wf -> forall n c m src, length c = 16%nat -> length m = 16%nat ->
    bytes_ok c -> bytes_ok m -> bytes_ok src -> (16 * n <= length src)%nat ->
    length (ige_dec k c m n src) = (16 * n)%nat /\ bytes_ok (ige_dec k c m n src).
  Proof.
    intros Hw; induction n as [|n IH]; intros c m src Hc Hm Hco Hmo Hso Hs; [split; [reflexivity|constructor]|].
    cbn [RsaPad.ige_dec].
    assert (length (firstn 16 src) = 16%nat) as Ht by (rewrite firstn_length; lia).
    pose proof (bytes_ok_firstn 16 _ Hso) as Hto.
    destruct (ige_dec_block_wf k (firstn 16 src) c m Hw Ht Hc Hm Hto Hco Hmo) as [Hol Hoo].
    destruct (IH (firstn 16 src) _ (skipn 16 src) Ht Hol Hto Hoo (bytes_ok_skipn 16 _ Hso)
                 ltac:(rewrite skipn_length; lia)) as [IHl IHo].
    split; [rewrite app_length, Hol, IHl; lia|apply bytes_ok_app_intro; assumption].
  Qed.
  Lemma ige_roundtrip_r k : aes_dec_wf -> aes_inverse_r -> forall n c m src, length c = 16%nat -> length m = 16%nat ->
    bytes_ok c -> bytes_ok m -> bytes_ok src ->
    (16 * n <= length src)%nat -> ige_enc k c m n (ige_dec k c m n src) = firstn (16 * n) src.
  Proof.
    intros Hw Hi; induction n as [|n IH]; intros c m src Hc Hm Hco Hmo Hso Hs; [reflexivity|].
    cbn [RsaPad.ige_enc RsaPad.ige_dec].
    assert (length (firstn 16 src) = 16%nat) as Ht by (rewrite firstn_length; lia).
    pose proof (bytes_ok_firstn 16 _ Hso) as Hto.
    set (t := firstn 16 src) in *.
    destruct (ige_dec_block_wf k t c m Hw Ht Hc Hm Hto Hco Hmo) as [Ho Hoo].
    set (o := xor_bytes (aes_dec k (xor_bytes t m)) c) in *.
    destruct (xor16 t m Ht Hm Hto Hmo) as [Htm Htmo].
    rewrite (firstn_app_len 16 o) by exact Ho. rewrite (skipn_app_len 16 o) by exact Ho.
    assert (xor_bytes (aes_enc k (xor_bytes o c)) m = t) as E.
    { unfold o. rewrite xor_bytes_invol by (destruct (Hw k (xor_bytes t m) Htm Htmo) as [-> _]; lia).
      rewrite Hi by assumption. apply xor_bytes_invol; lia. }
    rewrite !E.
    rewrite IH by (try assumption; try (apply bytes_ok_skipn; assumption); rewrite skipn_length; lia).
    replace (16 * S n)%nat with (16 + 16 * n)%nat by lia.
    rewrite <- (firstn_skipn 16 src) at 2. fold t.
    rewrite firstn_app, Ht.
    replace (16 + 16 * n - 16)%nat with (16 * n)%nat by lia.
    rewrite (firstn_all2 (n:=16 + 16 * n) t) by lia. reflexivity.
  Qed.

  Lemma rsa_decrypt_wf c n ed : rsa_decrypt c n = Some ed -> length ed = n /\ bytes_ok ed.
  Proof.
    unfold RsaPad.rsa_decrypt. destruct (negb _); [discriminate|]. destruct (N <=? _); [discriminate|].
    destruct (_ <? _); [|discriminate]. intros E; inversion E; subst.
    split; [apply be_enc_length|apply be_enc_ok].
  Qed.

  (* DecodeRSAPad accepts exactly the ciphertexts whose RSA plaintext is a well-formed RSA_PAD
     block (steps 4-7 of some 32-byte temp key and 192 bytes), and returns those 192 bytes. *)
  Theorem pad_accept_iff : sha256_wf -> aes_wf -> aes_inverse -> aes_dec_wf -> aes_inverse_r ->
    forall c x, decode_rsa_pad c = Ok x <->
      exists tk, length tk = 32%nat /\ length x = 192%nat /\ bytes_ok x /\
                 rsa_decrypt c 256 = Some (pad_block tk x).
  Proof.
    intros Hs Hw Hi Hdw Hir c x. split.
    - unfold RsaPad.decode_rsa_pad.
      destruct (rsa_decrypt c 256) as [ed|] eqn:Ed; [|discriminate].
      destruct (rsa_decrypt_wf _ _ _ Ed) as [Hel Heo].
      change (Z.to_nat c_tempKeySize) with 32%nat. change (Z.to_nat c_dataWithPaddingLength) with 192%nat.
      set (tkx := firstn 32 ed). set (ae := skipn 32 ed).
      assert (length tkx = 32%nat) as Htkx by (unfold tkx; rewrite firstn_length; lia).
      assert (length ae = 224%nat) as Hae by (unfold ae; rewrite skipn_length; lia).
      assert (bytes_ok ae) as Haeo by (apply bytes_ok_skipn; exact Heo).
      set (tk := xor_bytes tkx (sha256 ae)).
      assert (length tk = 32%nat) as Htk by (unfold tk; rewrite xor_bytes_length, Htkx; destruct (Hs ae) as [-> _]; reflexivity).
      unfold ige_decrypt. rewrite Hae.
      change (Z.of_nat 224 mod 16 =? 0) with true. cbv iota. change (224 / 16)%nat with 14%nat.
      change (firstn 16 zero_iv) with (repeat 0 16). change (skipn 16 zero_iv) with (repeat 0 16).
      cbn [bind]. set (dwh := ige_dec tk (repeat 0 16) (repeat 0 16) 14 ae).
      destruct zeros16 as [Hz Hzo].
      destruct (ige_dec_wf tk Hdw 14 _ _ ae Hz Hz Hzo Hzo Haeo ltac:(rewrite Hae; cbn; lia)) as [Hdwh Hdwho].
      fold dwh in Hdwh, Hdwho. change (16 * 14)%nat with 224%nat in Hdwh.
      destruct (beqb _ _) eqn:Eb; [|discriminate]. apply beqb_eq in Eb.
      intros E. assert (rev (firstn 192 dwh) = x) as Ex by congruence. clear E. exists tk.
      assert (length (rev (firstn 192 dwh)) = 192%nat) as Hxl by (rewrite rev_length, firstn_length; lia).
      assert (bytes_ok (rev (firstn 192 dwh))) as Hxo
        by (apply bytes_ok_rev; rewrite rev_involutive; apply bytes_ok_firstn; exact Hdwho).
      assert (pad_ae tk (rev (firstn 192 dwh)) = ae) as Epa.
      { unfold pad_ae. rewrite rev_involutive, <- Eb, firstn_skipn. unfold dwh.
        rewrite ige_roundtrip_r; try assumption; [|rewrite Hae; cbn; lia].
        change (16 * 14)%nat with 224%nat. apply firstn_all_len; exact Hae. }
      assert (pad_block tk (rev (firstn 192 dwh)) = ed) as Epb.
      { unfold pad_block. rewrite Epa. unfold tk.
        rewrite xor_bytes_invol by (rewrite Htkx; destruct (Hs ae) as [-> _]; lia).
        unfold tkx, ae; apply firstn_skipn. }
      subst x. rewrite Epb. repeat split; assumption.
    - intros [tk [Hlk [Hl [Ho Hd]]]]. eapply decode_of_block; eassumption.
  Qed.

  (* DecodeRSAPad never panics: it returns data, "invalid encrypted_data" or "hash mismatch" *)
  Theorem pad_decode_total : forall c,
    match decode_rsa_pad c with Ok x => True | Err EInvalid => True | Err EHashMismatch => True | _ => False end.
  Proof.
    intros c. unfold RsaPad.decode_rsa_pad.
    destruct (rsa_decrypt c 256) as [ed|] eqn:Ed; [|exact I].
    destruct (rsa_decrypt_wf _ _ _ Ed) as [Hel _].
    change (Z.to_nat c_tempKeySize) with 32%nat.
    unfold ige_decrypt. rewrite skipn_length, Hel.
    change (Z.of_nat (256 - 32) mod 16 =? 0) with true. cbv iota. cbn [bind].
    destruct (beqb _ _); exact I.
  Qed.

  (* ---------- legacy hashed scheme ---------- *)
  Notation guess_data := (guess_data sha1).

  Lemma hashed_too_big data r : (235 < length data)%nat -> rsa_encrypt_hashed data r = Err ETooBig.
  Proof.
    intros H. unfold RsaPad.rsa_encrypt_hashed. change c_rsaDataLen with 235.
    destruct (Z.ltb_spec 235 (Z.of_nat (length data))); [reflexivity|lia].
  Qed.

  Definition hashed_block (data r : list Z) : list Z :=
    sha1 data ++ data ++ skipn (20 + length data) (firstn 255 r).

  Lemma hashed_block_wf data r : sha1_wf -> bytes_ok data -> bytes_ok r -> (length data <= 235)%nat ->
    (255 <= length r)%nat -> length (hashed_block data r) = 255%nat /\ bytes_ok (hashed_block data r).
  Proof.
    intros Hs Hdo Hro Hd Hr. unfold hashed_block. split.
    - rewrite !app_length, skipn_length, firstn_length_le by exact Hr. destruct (Hs data) as [-> _]. lia.
    - apply bytes_ok_app_intro; [apply Hs|apply bytes_ok_app_intro; [exact Hdo|]].
      apply bytes_ok_skipn, bytes_ok_firstn; exact Hro.
  Qed.

  Lemma hashed_encrypt_eq data r : sha1_wf -> modexp_is_pow -> 0 <= e -> 0 < N <= 256 ^ 256 ->
    (length data <= 235)%nat ->
    rsa_encrypt_hashed data r =
      if (255 <=? length r)%nat then Ok (be_enc 256 (be_dec (hashed_block data r) ^ e mod N)) else Err ERand.
  Proof.
    intros Hs He He0 HN Hd. unfold RsaPad.rsa_encrypt_hashed. change c_rsaDataLen with 235.
    destruct (Z.ltb_spec 235 (Z.of_nat (length data))); [lia|].
    change (Z.to_nat c_rsaWithHashLen) with 255%nat. unfold read_full.
    destruct (Nat.leb_spec 255 (length r)); [|reflexivity].
    rewrite rsa_encrypt_eq by assumption. unfold hashed_block.
    rewrite (firstn_all_len 20) by apply Hs. reflexivity.
  Qed.

  (* model = specification: data_with_hash := SHA1(data) + data + (any random bytes), RSA *)
  Theorem hashed_is_spec : sha1_wf -> modexp_is_pow -> 0 <= e -> 0 < N <= 256 ^ 256 ->
    forall data r c, (length data <= 235)%nat ->
      (rsa_encrypt_hashed data r = Ok c <->
       (255 <= length r)%nat /\
       spec_rsa_hashed sha1 N e data (skipn (20 + length data) (firstn 255 r)) c).
  Proof.
    intros Hs He He0 HN data r c Hd. rewrite hashed_encrypt_eq by assumption. unfold spec_rsa_hashed.
    rewrite spec_RSA_iff by exact HN. fold (hashed_block data r).
    destruct (Nat.leb_spec 255 (length r)) as [H|H].
    - split; [intros E; split; [exact H|congruence]|intros [_ ->]; reflexivity].
    - split; [discriminate|intros [H' _]; lia].
  Qed.

  (* the guessing loop returns the longest prefix (of length <= n) whose SHA-1 is the hash *)
  Lemma guess_none hash padded : forall n, guess_data hash padded n = None <->
    forall j, (j <= n)%nat -> sha1 (firstn j padded) <> hash.
  Proof.
    induction n as [|n IH]; cbn [RsaPad.guess_data].
    - destruct (beqb _ _) eqn:Eb.
      + apply beqb_eq in Eb. split; [discriminate|]. intros H; exfalso; apply (H 0%nat); [lia|exact Eb].
      + apply beqb_neq in Eb. split; [|reflexivity]. intros _ j Hj. replace j with 0%nat by lia. exact Eb.
    - destruct (beqb _ _) eqn:Eb.
      + apply beqb_eq in Eb. split; [discriminate|]. intros H; exfalso; apply (H (S n)); [lia|exact Eb].
      + apply beqb_neq in Eb. rewrite IH. split; intros H j Hj.
        * destruct (Nat.eq_dec j (S n)) as [->|]; [exact Eb|apply H; lia].
        * apply H; lia.
  Qed.
  Lemma guess_some hash padded : forall n x, guess_data hash padded n = Some x <->
    exists j, (j <= n)%nat /\ x = firstn j padded /\ sha1 x = hash /\
              forall i, (j < i <= n)%nat -> sha1 (firstn i padded) <> hash.
  Proof.
    induction n as [|n IH]; intros x; cbn [RsaPad.guess_data].
    - destruct (beqb _ _) eqn:Eb.
      + apply beqb_eq in Eb. split.
        * intros E. assert (x = firstn 0 padded) as -> by congruence. exists 0%nat. repeat split; [lia|exact Eb|intros; lia].
        * intros [j [Hj [-> _]]]. replace j with 0%nat by lia. reflexivity.
      + apply beqb_neq in Eb. split; [discriminate|].
        intros [j [Hj [-> [Hh _]]]]. replace j with 0%nat in Hh by lia. contradiction.
    - destruct (beqb _ _) eqn:Eb.
      + apply beqb_eq in Eb. split.
        * intros E. assert (x = firstn (S n) padded) as -> by congruence. exists (S n). repeat split; [lia|exact Eb|intros; lia].
        * intros [j [Hj [-> [Hh Hmax]]]]. destruct (Nat.eq_dec j (S n)) as [->|Hne]; [reflexivity|].
          exfalso; apply (Hmax (S n)); [lia|exact Eb].
      + apply beqb_neq in Eb. rewrite IH. split.
        * intros [j [Hj [-> [Hh Hmax]]]]. exists j. repeat split; [lia|exact Hh|].
          intros i Hi. destruct (Nat.eq_dec i (S n)) as [->|]; [exact Eb|apply Hmax; lia].
        * intros [j [Hj [-> [Hh Hmax]]]]. destruct (Nat.eq_dec j (S n)) as [->|Hne]; [contradiction|].
          exists j. repeat split; [lia|exact Hh|intros; apply Hmax; lia].
  Qed.

  (* acceptance characterisation of RSADecryptHashed *)
  Theorem hashed_accept_iff : forall c x,
    rsa_decrypt_hashed c = Ok x <->
    exists dwh, rsa_decrypt c 255 = Some dwh /\
      exists j, (j <= 235)%nat /\ x = firstn j (skipn 20 dwh) /\ sha1 x = firstn 20 dwh /\
                forall i, (j < i <= 235)%nat -> sha1 (firstn i (skipn 20 dwh)) <> firstn 20 dwh.
  Proof.
    intros c x. unfold RsaPad.rsa_decrypt_hashed. change (Z.to_nat c_rsaWithHashLen) with 255%nat.
    destruct (rsa_decrypt c 255) as [dwh|] eqn:Ed.
    - destruct (rsa_decrypt_wf _ _ _ Ed) as [Hl _].
      assert (length (skipn 20 dwh) = 235%nat) as Hp by (rewrite skipn_length; lia). rewrite Hp.
      destruct (guess_data (firstn 20 dwh) (skipn 20 dwh) 235) as [y|] eqn:Eg.
      + apply guess_some in Eg. split.
        * intros E; assert (y = x) by congruence; subst y. exists dwh; split; [reflexivity|exact Eg].
        * intros [dwh' [E' Hx]]. assert (dwh' = dwh) by congruence; subst dwh'.
          apply guess_some in Hx. apply guess_some in Eg. congruence.
      + split; [discriminate|]. intros [dwh' [E' Hx]]. assert (dwh' = dwh) by congruence; subst dwh'.
        apply guess_some in Hx. congruence.
    - split; [discriminate|intros [dwh [E _]]; discriminate].
  Qed.

  Theorem hashed_reject_iff : forall c,
    (rsa_decrypt_hashed c = Err EInvalid <-> rsa_decrypt c 255 = None) /\
    (rsa_decrypt_hashed c = Err EHashMismatch <->
       exists dwh, rsa_decrypt c 255 = Some dwh /\
         forall j, (j <= 235)%nat -> sha1 (firstn j (skipn 20 dwh)) <> firstn 20 dwh) /\
    match rsa_decrypt_hashed c with Ok _ => True | Err EInvalid => True | Err EHashMismatch => True | _ => False end.
  Proof.
    intros c. unfold RsaPad.rsa_decrypt_hashed. change (Z.to_nat c_rsaWithHashLen) with 255%nat.
    destruct (rsa_decrypt c 255) as [dwh|] eqn:Ed.
    - destruct (rsa_decrypt_wf _ _ _ Ed) as [Hl _].
      assert (length (skipn 20 dwh) = 235%nat) as Hp by (rewrite skipn_length; lia). rewrite Hp.
      destruct (guess_data (firstn 20 dwh) (skipn 20 dwh) 235) as [y|] eqn:Eg.
      + repeat split; try discriminate; try exact I.
        intros [dwh' [E' Hx]]. assert (dwh' = dwh) by congruence; subst dwh'.
        apply guess_none in Hx. congruence.
      + repeat split; try discriminate; try exact I.
        * intros _. exists dwh; split; [reflexivity|apply guess_none; exact Eg].
    - repeat split; try discriminate; try exact I; try reflexivity.
      intros [dwh [E _]]; discriminate.
  Qed.

  (* round trip; the guessing loop may stop at a longer prefix only on a SHA-1 collision *)
  Theorem hashed_roundtrip_weak : sha1_wf -> modexp_is_pow -> rsa_key_pair -> 256 ^ 255 <= N <= 256 ^ 256 ->
    forall data r c, bytes_ok data -> bytes_ok r -> (length data <= 235)%nat ->
      rsa_encrypt_hashed data r = Ok c ->
      exists j, (length data <= j <= 235)%nat /\
        rsa_decrypt_hashed c = Ok (firstn j (data ++ skipn (20 + length data) (firstn 255 r))) /\
        sha1 (firstn j (data ++ skipn (20 + length data) (firstn 255 r))) = sha1 data /\
        forall i, (j < i <= 235)%nat -> sha1 (firstn i (data ++ skipn (20 + length data) (firstn 255 r))) <> sha1 data.
  Proof.
    intros Hs He Hk HN data r c Hdo Hro Hd H.
    assert (0 < 256 ^ 255) as Hpos by (apply Z.pow_pos_nonneg; lia).
    assert (0 < N <= 256 ^ 256) as HN' by lia.
    rewrite hashed_encrypt_eq in H by (try assumption; apply Hk).
    destruct (Nat.leb_spec 255 (length r)) as [Hr|Hr]; [|discriminate].
    assert (c = be_enc 256 (be_dec (hashed_block data r) ^ e mod N)) by congruence; subst c. clear H.
    destruct (hashed_block_wf data r Hs Hdo Hro Hd Hr) as [HL HO].
    assert (rsa_decrypt (be_enc 256 (be_dec (hashed_block data r) ^ e mod N)) 255 = Some (hashed_block data r)) as Edec.
    { apply rsa_roundtrip; try assumption.
      pose proof (be_dec_range _ HO) as Hrg. rewrite HL in Hrg. change (Z.of_nat 255) with 255 in Hrg. lia. }
    set (tail := skipn (20 + length data) (firstn 255 r)) in *.
    assert (firstn 20 (hashed_block data r) = sha1 data) as Eh
      by (unfold hashed_block; apply firstn_app_len; apply Hs).
    assert (skipn 20 (hashed_block data r) = data ++ tail) as Ep
      by (unfold hashed_block; apply skipn_app_len; apply Hs).
    unfold RsaPad.rsa_decrypt_hashed. change (Z.to_nat c_rsaWithHashLen) with 255%nat.
    rewrite Edec, Eh, Ep.
    assert (length (data ++ tail) = 235%nat) as Hp by (rewrite <- Ep, skipn_length, HL; reflexivity). rewrite Hp.
    destruct (guess_data (sha1 data) (data ++ tail) 235) as [y|] eqn:Eg.
    - apply guess_some in Eg. destruct Eg as [j [Hj [-> [Hh Hmax]]]].
      exists j. repeat split; try assumption; try lia.
      destruct (Nat.le_gt_cases (length data) j) as [|Hlt]; [assumption|].
      exfalso. apply (Hmax (length data)); [lia|]. rewrite firstn_app_exact. reflexivity.
    - exfalso. rewrite guess_none in Eg. apply (Eg (length data)); [lia|]. rewrite firstn_app_exact. reflexivity.
  Qed.

  (* C14_hashed_roundtrip: collision hypothesis explicit (no longer prefix of data||padding collides with data) *)
  Theorem hashed_roundtrip : sha1_wf -> modexp_is_pow -> rsa_key_pair -> 256 ^ 255 <= N <= 256 ^ 256 ->
    forall data r c, bytes_ok data -> bytes_ok r -> (length data <= 235)%nat ->
      (forall i, (length data < i <= 235)%nat ->
                 sha1 (firstn i (data ++ skipn (20 + length data) (firstn 255 r))) <> sha1 data) ->
      rsa_encrypt_hashed data r = Ok c ->
      rsa_decrypt_hashed c = Ok data.
  Proof.
    intros Hs He Hk HN data r c Hdo Hro Hd Hnc H.
    destruct (hashed_roundtrip_weak Hs He Hk HN data r c Hdo Hro Hd H) as [j [Hj [Hdec [Hh _]]]].
    destruct (Nat.eq_dec j (length data)) as [->|Hne].
    - rewrite firstn_app_exact in Hdec. exact Hdec.
    - exfalso. apply (Hnc j); [lia|exact Hh].
  Qed.

  Theorem hashed_total : sha1_wf -> modexp_is_pow -> 0 <= e -> 0 < N <= 256 ^ 256 ->
    forall data r, match rsa_encrypt_hashed data r with
                   | Ok c => length c = 256%nat /\ bytes_ok c
                   | Err ETooBig => (235 < length data)%nat
                   | Err ERand => (length data <= 235)%nat /\ (length r < 255)%nat
                   | _ => False
                   end.
  Proof.
    intros Hs He He0 HN data r. destruct (Nat.leb_spec (length data) 235) as [Hd|Hd].
    - rewrite hashed_encrypt_eq by assumption. destruct (Nat.leb_spec 255 (length r)).
      + split; [apply be_enc_length|apply be_enc_ok].
      + split; assumption.
    - rewrite hashed_too_big by exact Hd. exact Hd.
  Qed.

  (* ---------- statements phrased with the model's own functions only (used by Prop/C14.v) ---------- *)
  Theorem pad_accept_iff_model : sha256_wf -> aes_wf -> aes_inverse -> aes_dec_wf -> aes_inverse_r ->
    forall c x, decode_rsa_pad c = Ok x <->
      exists tk blk, length tk = 32%nat /\ length x = 192%nat /\ bytes_ok x /\
                     pad_kae tk x = Ok blk /\ rsa_decrypt c 256 = Some blk.
  Proof.
    intros Hs Hw Hi Hdw Hir c x. rewrite pad_accept_iff by assumption. split.
    - intros [tk [Hlk [Hl [Ho Hd]]]]. exists tk, (pad_block tk x). repeat split; try assumption.
      apply pad_kae_eq; assumption.
    - intros [tk [blk [Hlk [Hl [Ho [Hb Hd]]]]]]. exists tk. repeat split; try assumption.
      rewrite pad_kae_eq in Hb by assumption. congruence.
  Qed.

  Theorem pad_reject : sha256_wf -> aes_wf -> aes_inverse -> aes_dec_wf -> aes_inverse_r ->
    forall c,
      (forall tk x blk, length tk = 32%nat -> length x = 192%nat -> bytes_ok x ->
                        pad_kae tk x = Ok blk -> rsa_decrypt c 256 <> Some blk) ->
      decode_rsa_pad c = Err EInvalid \/ decode_rsa_pad c = Err EHashMismatch.
  Proof.
    intros Hs Hw Hi Hdw Hir c Hno. pose proof (pad_decode_total c) as Ht.
    destruct (decode_rsa_pad c) as [x|[]|] eqn:E; try contradiction; auto.
    exfalso. apply pad_accept_iff_model in E; try assumption.
    destruct E as [tk [blk [Hlk [Hl [Ho [Hb Hd]]]]]]. exact (Hno tk x blk Hlk Hl Ho Hb Hd).
  Qed.

  Theorem pad_first_accepted_model : sha256_wf -> modexp_is_pow -> 0 <= e -> 0 < N <= 256 ^ 256 ->
    forall data r, (length data <= 144)%nat -> (192 - length data <= length r)%nat ->
    let dwp := data ++ firstn (192 - length data) r in
    forall pre tk post blk, chunks 32 (skipn (192 - length data) r) = pre ++ tk :: post ->
      (forall k, In k pre -> exists b, pad_kae k dwp = Ok b /\ N <= be_dec b) ->
      pad_kae tk dwp = Ok blk -> be_dec blk < N ->
      rsa_pad data r = Ok (be_enc 256 (be_dec blk ^ e mod N)).
  Proof.
    intros Hs He He0 HN data r Hd Hr dwp pre tk post blk Hc Hpre Htk Hlt.
    assert (length dwp = 192%nat) as Hl by (unfold dwp; rewrite app_length, firstn_length_le by exact Hr; lia).
    rewrite pad_kae_eq in Htk by assumption. assert (blk = pad_block tk dwp) by congruence; subst blk.
    apply (pad_first_accepted Hs He He0 HN data r Hd Hr pre tk post Hc); [|exact Hlt].
    intros k Hk. destruct (Hpre k Hk) as [b [Hb Hge]]. fold dwp.
    rewrite pad_kae_eq in Hb by assumption. congruence.
  Qed.

  (* ---------- altered ciphertexts ---------- *)
  Notation rsa_key_pair_r := (RsaPad.rsa_key_pair_r N e d).

  (* only canonical ciphertexts (exactly 256 bytes, value below the modulus) are ever decrypted *)
  Lemma rsa_decrypt_canonical c n blk : rsa_decrypt c n = Some blk ->
    length c = 256%nat /\ be_dec c < N /\ blk = be_enc n (modexp (be_dec c) d N) /\
    modexp (be_dec c) d N < 256 ^ Z.of_nat n.
  Proof.
    unfold RsaPad.rsa_decrypt. change c_rsaLen with 256.
    destruct (Z.eqb_spec (Z.of_nat (length c)) 256) as [Hl|Hl]; cbn [negb]; [|discriminate].
    destruct (Z.leb_spec N (be_dec c)); [discriminate|].
    destruct (Z.ltb_spec (modexp (be_dec c) d N) (256 ^ Z.of_nat n)); [|discriminate].
    intros E; inversion E. repeat split; try assumption; lia.
  Qed.

  (* two different byte strings that both decrypt have different plaintext blocks *)
  Theorem rsa_decrypt_injective : modexp_is_pow -> rsa_key_pair_r -> 0 <= d -> 0 < N ->
    forall c c' n blk blk', bytes_ok c -> bytes_ok c' -> c <> c' ->
      rsa_decrypt c n = Some blk -> rsa_decrypt c' n = Some blk' -> blk <> blk'.
  Proof.
    intros He Hr Hd0 HN c c' n blk blk' Hco Hco' Hne H1 H2 Heq.
    unfold RsaPad.modexp_is_pow in He.
    apply rsa_decrypt_canonical in H1. destruct H1 as [Hl [Hlt [-> Hf]]].
    apply rsa_decrypt_canonical in H2. destruct H2 as [Hl' [Hlt' [-> Hf']]].
    rewrite !He in * by exact Hd0.
    pose proof (Z.mod_pos_bound (be_dec c ^ d) N HN) as Hb.
    pose proof (Z.mod_pos_bound (be_dec c' ^ d) N HN) as Hb'.
    apply be_enc_inj in Heq; [|lia|lia].
    pose proof (be_dec_range c Hco) as Hrg. pose proof (be_dec_range c' Hco') as Hrg'.
    assert (be_dec c = be_dec c') as E.
    { rewrite <- (Hr (be_dec c)) by lia. rewrite <- (Hr (be_dec c')) by lia. rewrite Heq. reflexivity. }
    apply Hne. rewrite <- (be_enc_dec c Hco), <- (be_enc_dec c' Hco'), Hl, Hl', E. reflexivity.
  Qed.

  (* C14_pad_altered: a ciphertext different from an accepted one is accepted only through a
     different RSA plaintext block; in particular never as an alias of the same block *)
  Theorem pad_altered : sha256_wf -> aes_wf -> aes_inverse -> aes_dec_wf -> aes_inverse_r ->
    modexp_is_pow -> rsa_key_pair_r -> 0 <= d -> 0 < N ->
    forall c c' x x', bytes_ok c -> bytes_ok c' -> c <> c' ->
      decode_rsa_pad c = Ok x -> decode_rsa_pad c' = Ok x' ->
      exists tk tk' blk blk', pad_kae tk x = Ok blk /\ pad_kae tk' x' = Ok blk' /\
        rsa_decrypt c 256 = Some blk /\ rsa_decrypt c' 256 = Some blk' /\ blk <> blk' /\
        length c' = 256%nat /\ be_dec c' < N.
  Proof.
    intros Hs Hw Hi Hdw Hir He Hr Hd0 HN c c' x x' Hco Hco' Hne H1 H2.
    apply pad_accept_iff_model in H1; try assumption. apply pad_accept_iff_model in H2; try assumption.
    destruct H1 as [tk [blk [_ [_ [_ [Hb Hd]]]]]]. destruct H2 as [tk' [blk' [_ [_ [_ [Hb' Hd']]]]]].
    exists tk, tk', blk, blk'.
    pose proof (rsa_decrypt_canonical _ _ _ Hd') as [Hl' [Hlt' _]].
    pose proof (rsa_decrypt_injective He Hr Hd0 HN c c' 256%nat blk blk' Hco Hco' Hne Hd Hd') as Hinj.
    repeat split; assumption.
  Qed.

  (* non-canonical forms (wrong length, value >= N: c + k*N, zero-prefixed, truncated) are rejected *)
  Theorem noncanonical_rejected : forall c,
    length c <> 256%nat \/ N <= be_dec c ->
    decode_rsa_pad c = Err EInvalid /\ rsa_decrypt_hashed c = Err EInvalid.
  Proof.
    intros c Hc.
    assert (forall n, rsa_decrypt c n = None) as Hn.
    { intros n. destruct (rsa_decrypt c n) as [b|] eqn:E; [|reflexivity].
      apply rsa_decrypt_canonical in E. destruct E as [Hl [Hlt _]]. destruct Hc; [contradiction|lia]. }
    unfold RsaPad.decode_rsa_pad, RsaPad.rsa_decrypt_hashed. rewrite !Hn. split; reflexivity.
  Qed.

  (* ---------- foreign key ---------- *)
  (* a ciphertext made by RSAPad under ANOTHER public key (N', e') and decoded under (N, d) *)
  Theorem pad_foreign_key : sha256_wf -> aes_wf -> aes_inverse -> aes_dec_wf -> aes_inverse_r ->
    forall modexp' N' e' data r c,
      RsaPad.rsa_pad sha256 aes_enc modexp' N' e' data r = Ok c ->
      (forall tk x blk, length tk = 32%nat -> length x = 192%nat -> bytes_ok x ->
                        pad_kae tk x = Ok blk -> rsa_decrypt c 256 <> Some blk) ->
      decode_rsa_pad c = Err EInvalid \/ decode_rsa_pad c = Err EHashMismatch.
  Proof. intros Hs Hw Hi Hdw Hir modexp' N' e' data r c _ Hno. apply pad_reject; assumption. Qed.
End RsaProofs.

(* ---------- non-vacuity: the hypothesis sets are satisfiable (degenerate but legal instance) ---------- *)
Definition nv_sha256 (_ : list Z) : list Z := repeat 0 32.
Definition nv_sha1 (_ : list Z) : list Z := repeat 0 20.
Definition nv_aes (_ b : list Z) : list Z := b.
Definition nv_N : Z := 256 ^ 255.

Lemma nv_hyps :
  sha256_wf nv_sha256 /\ sha1_wf nv_sha1 /\ aes_wf nv_aes /\ aes_inverse nv_aes nv_aes /\
  aes_dec_wf nv_aes /\ aes_inverse_r nv_aes nv_aes /\ modexp_is_pow modexp_sm nv_N /\
  rsa_key_pair nv_N 1 1 /\ 256 ^ 255 <= nv_N <= 256 ^ 256 /\ 0 < nv_N /\ rsa_key_pair_r nv_N 1 1.
Proof.
  assert (0 < 256 ^ 255) as Hp by (apply Z.pow_pos_nonneg; lia).
  repeat split; try (apply repeat_length); try (apply bytes_ok_repeat; unfold byte_ok; lia);
    try assumption; try reflexivity; try lia; unfold nv_N.
  - intros b x Hx; apply modexp_sm_spec; exact Hx.
  - intros m Hm. rewrite !Z.pow_1_r, Z.mod_mod, Z.mod_small by lia. reflexivity.
  - apply Z.pow_le_mono_r; lia.
  - intros m Hm. rewrite !Z.pow_1_r, Z.mod_mod, Z.mod_small by lia. reflexivity.
Qed.
