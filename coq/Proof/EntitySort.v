From Coq Require Import ZArith List Bool Lia Permutation Sorted.
From TD Require Import Model.EntitySort.
Import ListNotations.
Open Scope Z_scope.

Section WithLess.
Variable less : less_t.
Hypothesis less_spec : forall ao al bo bl, less ao al bo bl = true <-> lt_spec ao al bo bl.

Lemma lessb_false_le a b : lessb less a b = false -> le_key b a.
Proof.
  unfold lessb, le_key; intros H.
  destruct (Z_lt_ge_dec (e_off b) (e_off a)) as [Hlt|Hge]; [left; exact Hlt|].
  destruct (Z.eq_dec (e_off a) (e_off b)) as [He|Hne].
  - right; split; [lia|].
    destruct (Z_gt_le_dec (e_len a) (e_len b)) as [Hg|Hl]; [|lia].
    assert (less (e_off a) (e_len a) (e_off b) (e_len b) = true) as Ht
      by (apply less_spec; right; split; assumption).
    congruence.
  - assert (less (e_off a) (e_len a) (e_off b) (e_len b) = true) as Ht
      by (apply less_spec; left; lia).
    congruence.
Qed.

Lemma lessb_true_le a b : lessb less a b = true -> le_key a b.
Proof.
  unfold lessb, le_key; intros H; apply less_spec in H; unfold lt_spec in H; lia.
Qed.

Lemma le_key_trans a b c : le_key a b -> le_key b c -> le_key a c.
Proof. unfold le_key; lia. Qed.

(* the reversed left part is sorted descending: each element is >= the ones after it *)
Definition desc (l : list ent) : Prop := StronglySorted (fun x y => le_key y x) l.

Lemma bubble_perm x l : Permutation (bubble less x l) (x :: l).
Proof.
  induction l as [|y ys IH]; cbn [bubble]; [reflexivity|].
  destruct (lessb less x y); [|reflexivity].
  rewrite IH; apply perm_swap.
Qed.

Lemma bubble_desc x l : desc l -> desc (bubble less x l).
Proof.
  unfold desc; induction l as [|y ys IH]; intros Hs; cbn [bubble].
  - repeat constructor.
  - inversion Hs as [|? ? Hys Hall]; subst.
    destruct (lessb less x y) eqn:E.
    + constructor; [apply IH; exact Hys|].
      apply lessb_true_le in E.
      rewrite Forall_forall; intros z Hz.
      apply (Permutation_in _ (bubble_perm x ys)) in Hz; destruct Hz as [->|Hz]; [exact E|].
      rewrite Forall_forall in Hall; apply Hall; exact Hz.
    + apply lessb_false_le in E.
      constructor; [exact Hs|].
      constructor; [exact E|].
      rewrite Forall_forall in Hall |- *; intros z Hz.
      eapply le_key_trans; [apply Hall; exact Hz|exact E].
Qed.

Lemma isort_rev_inv l acc :
  desc acc -> desc (fold_left (fun a x => bubble less x a) l acc)
  /\ Permutation (fold_left (fun a x => bubble less x a) l acc) (rev l ++ acc).
Proof.
  revert acc; induction l as [|x xs IH]; intros acc Hd; cbn [fold_left rev].
  - split; [exact Hd|reflexivity].
  - destruct (IH (bubble less x acc) (bubble_desc x acc Hd)) as [H1 H2]; split; [exact H1|].
    rewrite H2, bubble_perm, <- app_assoc; cbn [app].
    apply Permutation_app_head; reflexivity.
Qed.

Lemma desc_rev_sorted l : desc l -> StronglySorted le_key (rev l).
Proof.
  unfold desc; induction l as [|x xs IH]; intros H; cbn [rev]; [constructor|].
  inversion H as [|? ? Hxs Hall]; subst.
  specialize (IH Hxs).
  assert (forall l1, StronglySorted le_key l1 -> Forall (fun y => le_key y x) l1 ->
                     StronglySorted le_key (l1 ++ [x])) as Happ.
  { induction l1 as [|a l1 IH1]; intros Hs Hf; cbn [app]; [repeat constructor|].
    inversion Hs; inversion Hf; subst; constructor; [apply IH1; assumption|].
    apply Forall_app; split; [assumption|constructor; [assumption|constructor]]. }
  apply Happ; [exact IH|].
  rewrite Forall_forall in Hall |- *; intros y Hy; apply Hall, in_rev; exact Hy.
Qed.

Theorem go_isort_sorted_perm l :
  StronglySorted le_key (go_isort less l) /\ Permutation (go_isort less l) l.
Proof.
  unfold go_isort, go_isort_rev.
  destruct (isort_rev_inv l [] (SSorted_nil _)) as [H1 H2]; split.
  - apply desc_rev_sorted; exact H1.
  - rewrite <- Permutation_rev, H2, app_nil_r, <- Permutation_rev; reflexivity.
Qed.
End WithLess.

(* Uniqueness: the (offset,length) sequence of a sorted permutation does not depend on
   the sorting algorithm. *)
Definition key_le (a b : Z * Z) : Prop :=
  fst a < fst b \/ (fst a = fst b /\ snd a >= snd b).

Lemma key_le_antisym a b : key_le a b -> key_le b a -> a = b.
Proof. destruct a, b; unfold key_le; cbn; intros; f_equal; lia. Qed.

Lemma sorted_perm_unique (l1 l2 : list (Z * Z)) :
  StronglySorted key_le l1 -> StronglySorted key_le l2 -> Permutation l1 l2 -> l1 = l2.
Proof.
  revert l2; induction l1 as [|a t1 IH]; intros l2 H1 H2 HP.
  - apply Permutation_nil in HP; subst; reflexivity.
  - destruct l2 as [|b t2]; [apply Permutation_sym, Permutation_nil in HP; discriminate|].
    inversion H1 as [|? ? Ht1 Ha]; inversion H2 as [|? ? Ht2 Hb]; subst.
    assert (a = b) as ->.
    { assert (In a (b :: t2)) as Hin by (eapply Permutation_in; [exact HP|left; reflexivity]).
      assert (In b (a :: t1)) as Hin' by (eapply Permutation_in; [apply Permutation_sym; exact HP|left; reflexivity]).
      destruct Hin as [->|Hin]; [reflexivity|].
      destruct Hin' as [->|Hin']; [reflexivity|].
      rewrite Forall_forall in Ha, Hb.
      apply key_le_antisym; [apply Ha; exact Hin'|apply Hb; exact Hin]. }
    f_equal; apply IH; [exact Ht1|exact Ht2|eapply Permutation_cons_inv; exact HP].
Qed.

Lemma keys_sorted l : StronglySorted le_key l -> StronglySorted key_le (keys l).
Proof.
  induction 1 as [|a l Hs IH Hall]; cbn; constructor; [exact IH|].
  unfold keys; rewrite Forall_map. exact Hall.
Qed.

Theorem sorted_keys_unique l1 l2 :
  StronglySorted le_key l1 -> StronglySorted le_key l2 -> Permutation l1 l2 -> keys l1 = keys l2.
Proof.
  intros H1 H2 HP; apply sorted_perm_unique; [apply keys_sorted, H1|apply keys_sorted, H2|].
  unfold keys; apply Permutation_map; exact HP.
Qed.

Lemma sortedb_sound l : sortedb l = true <-> Sorted le_key l.
Proof.
  induction l as [|a [|b t] IH]; cbn [sortedb].
  - split; constructor.
  - split; intros; [repeat constructor|reflexivity].
  - rewrite andb_true_iff, IH; unfold le_keyb, le_key.
    split.
    + intros [H1 H2]; constructor; [exact H2|constructor]; lia.
    + intros H; inversion H as [|? ? H2 H3]; subst; inversion H3; subst; split; [|exact H2].
      unfold le_key in *; lia.
Qed.

(* permutation always, whatever the comparison function does *)
Theorem go_isort_perm_any less l : Permutation (go_isort less l) l.
Proof.
  unfold go_isort, go_isort_rev.
  assert (forall l acc, Permutation (fold_left (fun a x => bubble less x a) l acc) (rev l ++ acc)) as H.
  { induction l0 as [|x xs IH]; intros acc; cbn [fold_left rev]; [reflexivity|].
    rewrite IH, bubble_perm, <- app_assoc; reflexivity. }
  rewrite <- Permutation_rev, H, app_nil_r, <- Permutation_rev; reflexivity.
Qed.
