(* Round-trip proofs for Model/Codec.v (C16): one frame, streams of frames, protocol error
   frames, codec detection. *)
From Coq Require Import ZArith List Bool Lia.
From TD Require Import Lib.Bytes Lib.GoSem Lib.RunLib Gen.CodecConsts Model.Codec Proof.Codec.
Import ListNotations.
Open Scope Z_scope.
Arguments skipn : simpl never.
Arguments firstn : simpl never.
Arguments le_dec : simpl never.
Arguments le_enc : simpl never.

Lemma zlen_le_enc n v : zlen (le_enc n v) = Z.of_nat n.
Proof. unfold zlen; rewrite le_enc_length; reflexivity. Qed.

Lemma read_full_app (a b : bytes) : 0 < zlen a -> read_full (zlen a) (a ++ b) = Ok (a, b).
Proof.
  intros H. rewrite read_full_ok by (rewrite zlen_app; pose proof (zlen_nonneg b); lia).
  unfold zlen; rewrite Nat2Z.id, firstn_app_exact, skipn_app_exact; reflexivity.
Qed.
Lemma read_full_app_k k (a b : bytes) : k = zlen a -> 0 < k -> read_full k (a ++ b) = Ok (a, b).
Proof. intros -> H; apply read_full_app; exact H. Qed.

Lemma go_slice_prefix (a b : bytes) k : k = zlen a -> @go_slice cerr Z (a ++ b) 0 k = Ok a.
Proof.
  intros ->. rewrite go_slice_ok; try lia; [|apply zlen_nonneg|fold (zlen (a ++ b)); rewrite zlen_app; pose proof (zlen_nonneg b); lia].
  f_equal. rewrite Z.sub_0_r. unfold zlen; rewrite Nat2Z.id. change (Z.to_nat 0) with 0%nat.
  unfold skipn. apply firstn_app_exact.
Qed.
Lemma go_slice_all (a : bytes) k : k = zlen a -> @go_slice cerr Z a 0 k = Ok a.
Proof. intros H. rewrite <- (app_nil_r a) at 1. apply go_slice_prefix; exact H. Qed.
Lemma go_slice_suffix (a b : bytes) lo hi :
  lo = zlen a -> hi = zlen a + zlen b -> @go_slice cerr Z (a ++ b) lo hi = Ok b.
Proof.
  intros -> ->. pose proof (zlen_nonneg a); pose proof (zlen_nonneg b).
  rewrite go_slice_ok; try lia; [|fold (zlen (a ++ b)); rewrite zlen_app; lia].
  f_equal. replace (zlen a + zlen b - zlen a) with (zlen b) by lia.
  unfold zlen; rewrite !Nat2Z.id, skipn_app_exact. apply firstn_all.
Qed.

Lemma firstn4_app (a b : bytes) : length a = 4%nat -> firstn 4 (a ++ b) = a.
Proof. intros H; rewrite <- H; apply firstn_app_exact. Qed.
Lemma skipn4_app (a b : bytes) : length a = 4%nat -> skipn 4 (a ++ b) = b.
Proof. intros H; rewrite <- H; apply skipn_app_exact. Qed.

Lemma buf_u32_app (a b : bytes) : length a = 4%nat -> buf_u32 (a ++ b) = Ok (le_dec a, b).
Proof.
  intros H. rewrite buf_u32_ok.
  - rewrite firstn4_app, skipn4_app by exact H; reflexivity.
  - rewrite zlen_app; unfold zlen at 1; rewrite H; pose proof (zlen_nonneg b); cbv [c_Word]; lia.
Qed.

(* what a frame carrying payload p delivers: the payload, or the protocol error it encodes *)
Definition deliver (p rest : bytes) : res cerr (bytes * bytes) := finish (Ok (p, rest)).

Lemma deliver_payload p rest : zlen p <> c_Word -> deliver p rest = Ok (p, rest).
Proof.
  intros H; unfold deliver, finish, check_proto, not_proto_err_go; cbn.
  destruct (Z.eqb_spec (zlen p) c_Word); [contradiction|reflexivity].
Qed.
Lemma deliver_proto p rest :
  zlen p = c_Word -> deliver p rest = Err (EProto (wrap32 (- to_signed 32 (le_dec p)))).
Proof.
  intros H; unfold deliver, finish, check_proto, not_proto_err_go; cbn.
  destruct (Z.eqb_spec (zlen p) c_Word); [|contradiction]. cbn.
  unfold buf_int. rewrite <- (app_nil_r p) at 1.
  rewrite buf_u32_app by (unfold zlen in H; cbv [c_Word] in H; lia). reflexivity.
Qed.

(* alignment as the code tests it *)
Lemma align_ok l : 0 <= l -> align_bad_go l 4 = false <-> Z.rem l 4 = 0.
Proof. intros _; unfold align_bad_go; rewrite negb_false_iff, Z.eqb_eq; tauto. Qed.
Lemma aligned_div l : 0 <= l -> Z.rem l 4 = 0 -> l = 4 * (l / 4).
Proof. intros H R. rewrite Z.rem_mod_nonneg in R by lia. pose proof (Z.div_mod l 4); lia. Qed.

Definition fits (c : codec) (p : bytes) : Prop :=
  match c with
  | Abridged | Intermediate => zlen p <= c_maxMessageSize
  | Padded => zlen p + Z.rem (last p 0) 4 <= c_maxMessageSize
  | Full => zlen p + 3 * c_Word <= c_maxMessageSize
  end.

(* a payload the MTProto layer hands to the transport: non-empty, whole words *)
Definition sendable (p : bytes) : Prop := 0 < zlen p /\ Z.rem (zlen p) 4 = 0 /\ bytes_ok p.

Lemma outgoing_ok l : 0 < l <= c_maxMessageSize -> outgoing_bad_go l = false.
Proof.
  intros H; unfold outgoing_bad_go. rewrite orb_false_iff, Z.gtb_ltb, Z.ltb_ge, Z.eqb_neq; lia.
Qed.

Section WithCrc.
Variable crc : bytes -> Z.
Hypothesis crc_range : forall x, 0 <= crc x < 2 ^ 32.

(* ---------- single frame, per codec ---------- *)
Lemma rt_abridged p rest seq rnd :
  sendable p -> fits Abridged p ->
  exists f, write_c crc Abridged seq rnd p = Ok f /\ snd (read_abridged (f ++ rest)) = deliver p rest.
Proof.
  intros (Hl & Ha & _) Hf; cbn [fits] in Hf. unfold write_c; cbv zeta.
  rewrite outgoing_ok by lia. rewrite (proj2 (align_ok (zlen p) ltac:(lia)) Ha).
  pose proof (aligned_div (zlen p) ltac:(lia) Ha) as Hd.
  unfold abridged_words_go, abridged_short_go. rewrite Z.shiftr_div_pow2 by lia. change (2 ^ 2) with 4.
  set (w := zlen p / 4) in *.
  assert (Hk : Z.shiftl w 2 = zlen p) by (rewrite Z.shiftl_mul_pow2 by lia; change (2 ^ 2) with 4; lia).
  destruct (Z.ltb_spec w 127) as [Hw|Hw].
  - exists ((w mod 256) :: p); split; [reflexivity|].
    rewrite Z.mod_small by lia. unfold read_abridged.
    change ((w :: p) ++ rest) with ([w] ++ (p ++ rest)).
    rewrite (read_full_app_k 1 [w]) by (cbn; lia). cbn [hd].
    unfold abridged_long_go. destruct (Z.geb_spec w 127); [lia|].
    replace (le_dec [w]) with w by (cbv [le_dec]; lia).
    unfold abridged_bad_go, abridged_bytes_go. rewrite Hk.
    destruct (Z.gtb_spec (zlen p) c_maxMessageSize); [lia|]. cbn [snd].
    rewrite read_full_app by lia. reflexivity.
  - exists (127 :: le_enc 3 w ++ p); split; [reflexivity|].
    unfold read_abridged.
    change ((127 :: le_enc 3 w ++ p) ++ rest) with ([127] ++ (le_enc 3 w ++ p ++ rest)) .
    rewrite (read_full_app_k 1 [127]) by (cbn; lia). cbn [hd].
    change (abridged_long_go 127) with true. cbv iota.
    rewrite (read_full_app_k 3 (le_enc 3 w)) by (rewrite ?zlen_le_enc; lia).
    rewrite le_dec_enc by (cbv [c_maxMessageSize] in Hf; change (256 ^ Z.of_nat 3) with 16777216; lia).
    unfold abridged_bad_go, abridged_bytes_go. rewrite Hk.
    destruct (Z.gtb_spec (zlen p) c_maxMessageSize); [lia|]. cbn [snd].
    rewrite read_full_app by lia. reflexivity.
Qed.

Lemma read_len_frame l (t : bytes) :
  0 < l <= c_maxMessageSize -> read_len (le_enc 4 l ++ t) = Ok (l, le_enc 4 l, t).
Proof.
  intros H. unfold read_len.
  rewrite (read_full_app_k c_Word (le_enc 4 l)) by (rewrite ?zlen_le_enc; cbv [c_Word]; lia). cbn [bind].
  rewrite le_dec_enc by (cbv [c_maxMessageSize] in H; change (256 ^ Z.of_nat 4) with 4294967296; lia).
  unfold readlen_bad_go. destruct (Z.leb_spec l 0); [lia|]. destruct (Z.gtb_spec l c_maxMessageSize); [lia|].
  reflexivity.
Qed.

Lemma rt_intermediate p rest seq rnd :
  sendable p -> fits Intermediate p ->
  exists f, write_c crc Intermediate seq rnd p = Ok f /\ snd (read_intermediate (f ++ rest)) = deliver p rest.
Proof.
  intros (Hl & Ha & _) Hf; cbn [fits] in Hf. unfold write_c; cbv zeta.
  rewrite outgoing_ok by lia. rewrite (proj2 (align_ok (zlen p) ltac:(lia)) Ha).
  eexists; split; [reflexivity|].
  unfold read_intermediate, read_inter_raw. rewrite <- app_assoc.
  rewrite read_len_frame by lia. cbn [snd].
  rewrite read_full_app by lia. reflexivity.
Qed.

Lemma rem_add4 w n : 0 <= w -> 0 <= n < 4 -> Z.rem (4 * w + n) 4 = n.
Proof.
  intros Hw Hn. rewrite Z.rem_mod_nonneg by lia.
  replace (4 * w + n) with (n + w * 4) by lia. rewrite Z.mod_add by lia. apply Z.mod_small; lia.
Qed.

Lemma rt_padded p rest seq rnd :
  sendable p -> fits Padded p -> length rnd = 4%nat ->
  exists f, write_c crc Padded seq rnd p = Ok f /\ snd (read_padded (f ++ rest)) = deliver p rest.
Proof.
  intros (Hl & Ha & Hb) Hf Hr; cbn [fits] in Hf. unfold write_c; cbv zeta.
  assert (0 <= last p 0) as Hlast.
  { destruct p as [|x p']; [cbn in Hl; lia|].
    assert (In (last (x :: p') 0) (x :: p')) as Hin.
    { destruct (exists_last (l := x :: p') ltac:(discriminate)) as (l' & a & E). rewrite E, last_last, in_app_iff; cbn; auto. }
    unfold bytes_ok in Hb; rewrite Forall_forall in Hb. apply Hb in Hin. unfold byte_ok in Hin; lia. }
  pose proof (rem4_bounds _ Hlast) as (Hn1 & Hn2).
  unfold pad_len_go, padded_wire_bad_go. set (n := Z.rem (last p 0) 4) in *.
  rewrite outgoing_ok by lia. rewrite (proj2 (align_ok (zlen p) ltac:(lia)) Ha).
  destruct (Z.gtb_spec (zlen p + n) c_maxMessageSize); [lia|].
  eexists; split; [reflexivity|].
  set (pad := firstn (Z.to_nat n) rnd).
  assert (zlen pad = n) as Hpad by (unfold pad, zlen; rewrite firstn_length, Hr; lia).
  unfold read_padded, read_inter_raw.
  replace ((le_enc 4 (zlen p + n) ++ p ++ pad) ++ rest) with (le_enc 4 (zlen p + n) ++ ((p ++ pad) ++ rest))
    by (rewrite <- !app_assoc; reflexivity).
  rewrite read_len_frame by lia. cbn [snd].
  rewrite (read_full_app_k (zlen p + n) (p ++ pad)) by (rewrite ?zlen_app; lia). cbn [bind].
  pose proof (aligned_div (zlen p) ltac:(lia) Ha) as Hd.
  unfold pad_strip_go. replace (Z.rem (zlen p + n) 4) with n
    by (rewrite Hd; symmetry; apply rem_add4; [apply Z.div_pos; lia|lia]).
  rewrite go_slice_prefix by lia. cbn [bind].
  rewrite Ha, Z.sub_0_r, go_slice_all by reflexivity. reflexivity.
Qed.

Lemma wrap32_signed_mod seq : wrap32 (to_signed 32 (seq mod 2 ^ 32)) = wrap32 seq.
Proof.
  unfold wrap32, wrap_s32_CodecConsts, to_signed. change 4294967296 with (2 ^ 32). change 2147483648 with (2 ^ 31).
  pose proof (Z.mod_pos_bound seq (2 ^ 32) ltac:(lia)) as Hb.
  f_equal.
  destruct (Z.ltb_spec (seq mod 2 ^ 32) (2 ^ (32 - 1))).
  - rewrite Z.add_mod_idemp_l by lia; reflexivity.
  - replace (seq mod 2 ^ 32 - 2 ^ 32 + 2 ^ 31) with (seq mod 2 ^ 32 + 2 ^ 31 + (-1) * 2 ^ 32) by lia.
    rewrite Z.mod_add by lia. rewrite Z.add_mod_idemp_l by lia; reflexivity.
Qed.

Lemma rt_full p rest seq rnd :
  sendable p -> fits Full p ->
  exists f, write_c crc Full seq rnd p = Ok f /\ snd (read_fullc crc seq (f ++ rest)) = deliver p rest.
Proof.
  intros (Hl & _ & _) Hf; cbn [fits] in Hf. unfold write_c; cbv zeta.
  rewrite outgoing_ok by (cbv [c_Word] in Hf; lia).
  unfold full_wire_bad_go, full_wire_len_go, full_frame_len_go.
  destruct (Z.gtb_spec (zlen p + 3 * c_Word) c_maxMessageSize); [lia|].
  eexists; split; [reflexivity|].
  set (n := 4 + 4 + zlen p + 4).
  set (cb := le_enc 4 (crc (le_enc 4 n ++ le_enc 4 seq ++ p))).
  unfold read_fullc.
  replace (((le_enc 4 n ++ le_enc 4 seq ++ p) ++ cb) ++ rest)
    with (le_enc 4 n ++ ((le_enc 4 seq ++ p ++ cb) ++ rest)) by (rewrite <- !app_assoc; reflexivity).
  rewrite read_len_frame by (subst n; cbv [c_Word] in Hf; lia).
  unfold full_short_go. destruct (Z.ltb_spec n (3 * c_Word)); [subst n; cbv [c_Word] in *; lia|].
  unfold make_len. destruct (Z.ltb_spec (n - c_Word) 0); [subst n; cbv [c_Word] in *; lia|]. cbn [snd].
  rewrite (read_full_app_k (n - c_Word) (le_enc 4 seq ++ p ++ cb))
    by (rewrite ?zlen_app, ?zlen_le_enc; subst cb; rewrite ?zlen_le_enc; subst n; cbv [c_Word]; lia).
  cbn [bind]. unfold buf_int.
  rewrite buf_u32_app by apply le_enc_length. cbn [bind].
  rewrite le_dec_enc_mod. change (256 ^ Z.of_nat 4) with (2 ^ 32).
  unfold full_seq_bad_go. fold wrap32. rewrite wrap32_signed_mod, Z.eqb_refl. cbn [negb].
  unfold full_payload_len_go. replace (n - 3 * c_Word) with (zlen p) by (subst n; cbv [c_Word]; lia).
  rewrite go_slice_suffix by (rewrite ?zlen_app; reflexivity). cbn [bind].
  rewrite <- (app_nil_r cb) at 1. rewrite buf_u32_app by (subst cb; apply le_enc_length). cbn [bind].
  replace (le_enc 4 n ++ le_enc 4 seq ++ p ++ cb) with ((le_enc 4 n ++ le_enc 4 seq ++ p) ++ cb)
    by (rewrite <- !app_assoc; reflexivity).
  rewrite go_slice_prefix by (rewrite ?zlen_app, ?zlen_le_enc; subst n; cbv [c_Word]; lia). cbn [bind].
  subst cb. rewrite le_dec_enc by (change (256 ^ Z.of_nat 4) with (2 ^ 32); apply crc_range).
  rewrite Z.eqb_refl. cbn [negb].
  rewrite go_slice_prefix by reflexivity. reflexivity.
Qed.

Lemma rt_frame c p rest seq rnd :
  sendable p -> fits c p -> length rnd = 4%nat ->
  exists f, write_c crc c seq rnd p = Ok f /\ snd (read_c crc c seq (f ++ rest)) = deliver p rest.
Proof.
  intros Hs Hf Hr. destruct c; cbn [read_c].
  - apply rt_abridged; auto.
  - apply rt_intermediate; auto.
  - apply rt_padded; auto.
  - apply rt_full; auto.
Qed.


(* ---------- streams of frames ---------- *)
Definition frame_ok (c : codec) (p : bytes) : Prop := sendable p /\ 2 * c_Word <= zlen p /\ fits c p.

Lemma write_all_app c rnd : forall ps seq p w,
  write_all crc c seq rnd ps = Ok w ->
  write_all crc c seq rnd (ps ++ [p]) =
  (do f <- write_c crc c (seq + Z.of_nat (length ps)) (rnd (seq + Z.of_nat (length ps))) p; Ok (w ++ f)).
Proof.
  induction ps as [|q t IH]; intros seq p w H; cbn [write_all app length] in *.
  - inversion H; subst. rewrite Z.add_0_r. destruct (write_c crc c seq (rnd seq) p); cbn; try reflexivity.
    rewrite app_nil_r; reflexivity.
  - destruct (write_c crc c seq (rnd seq) q) as [f| |]; cbn [bind] in *; try discriminate.
    destruct (write_all crc c (seq + 1) rnd t) as [r| |] eqn:E; cbn [bind] in *; try discriminate.
    inversion H; subst. rewrite (IH _ p r E).
    replace (seq + 1 + Z.of_nat (length t)) with (seq + Z.of_nat (S (length t))) by lia.
    destruct (write_c crc c _ _ p); cbn; try reflexivity. rewrite app_assoc; reflexivity.
Qed.

Lemma read_stream_frames c rnd (Hrnd : forall i, length (rnd i) = 4%nat) :
  forall ps seq rest fuel,
    Forall (frame_ok c) ps ->
    exists w, write_all crc c seq rnd ps = Ok w /\
      read_stream crc c seq (length ps + fuel) (w ++ rest) =
      (ps ++ fst (read_stream crc c (seq + Z.of_nat (length ps)) fuel rest),
       snd (read_stream crc c (seq + Z.of_nat (length ps)) fuel rest)).
Proof.
  induction ps as [|p t IH]; intros seq rest fuel Hok.
  - exists []; split; [reflexivity|]. cbn [length app Nat.add]. rewrite Z.add_0_r.
    destruct (read_stream crc c seq fuel rest); reflexivity.
  - inversion Hok as [|? ? (Hs & H8 & Hf) Ht]; subst.
    destruct (IH (seq + 1) rest fuel Ht) as (r & Hr & Hread).
    destruct (rt_frame c p (r ++ rest) seq (rnd seq) Hs Hf (Hrnd seq)) as (f & Hw & Hrd).
    exists (f ++ r); split; [cbn [write_all]; rewrite Hw; cbn [bind]; rewrite Hr; reflexivity|].
    cbn [length Nat.add read_stream]. rewrite <- app_assoc, Hrd.
    rewrite deliver_payload by (cbv [c_Word] in *; lia).
    rewrite Hread. replace (seq + 1 + Z.of_nat (length t)) with (seq + Z.of_nat (S (length t))) by lia.
    reflexivity.
Qed.

Lemma read_empty c seq : snd (read_c crc c seq []) = Err EEof.
Proof. destruct c; reflexivity. Qed.

Lemma stream_roundtrip c rnd (Hrnd : forall i, length (rnd i) = 4%nat) ps seq fuel :
  Forall (frame_ok c) ps -> (length ps < fuel)%nat ->
  exists w, write_all crc c seq rnd ps = Ok w /\
            read_stream crc c seq fuel w = (ps, StopErr EEof).
Proof.
  intros Hok Hfuel.
  destruct (read_stream_frames c rnd Hrnd ps seq [] (fuel - length ps) Hok) as (w & Hw & Hr).
  exists w; split; [exact Hw|].
  rewrite app_nil_r in Hr. replace (length ps + (fuel - length ps))%nat with fuel in Hr by lia.
  rewrite Hr. destruct (fuel - length ps)%nat as [|k] eqn:E; [lia|].
  cbn [read_stream]. rewrite read_empty. cbn [fst snd]. rewrite app_nil_r; reflexivity.
Qed.

(* ---------- four-byte frames are transport error codes ---------- *)
Lemma last_nonneg (p : bytes) : bytes_ok p -> 0 <= last p 0.
Proof.
  intros Hb. destruct p as [|x p']; [cbn; lia|].
  assert (In (last (x :: p') 0) (x :: p')) as Hin.
  { destruct (exists_last (l := x :: p') ltac:(discriminate)) as (l' & a & E). rewrite E, last_last, in_app_iff; cbn; auto. }
  unfold bytes_ok in Hb; rewrite Forall_forall in Hb. apply Hb in Hin. unfold byte_ok in Hin; lia.
Qed.
Lemma fits_small c p : bytes_ok p -> zlen p <= 1024 -> fits c p.
Proof.
  intros Hb Hl. destruct c; cbn [fits]; cbv [c_maxMessageSize c_Word]; try lia.
  pose proof (rem4_bounds _ (last_nonneg p Hb)). lia.
Qed.

Lemma proto_err_frame c p rest seq rnd :
  bytes_ok p -> zlen p = c_Word -> length rnd = 4%nat ->
  exists f, write_c crc c seq rnd p = Ok f /\
            snd (read_c crc c seq (f ++ rest)) = Err (EProto (wrap32 (- to_signed 32 (le_dec p)))).
Proof.
  intros Hb Hl Hr.
  assert (sendable p) as Hs by (unfold sendable; rewrite Hl; cbv [c_Word]; repeat split; auto; lia).
  destruct (rt_frame c p rest seq rnd Hs (fits_small c p Hb ltac:(rewrite Hl; cbv [c_Word]; lia)) Hr) as (f & Hw & Hrd).
  exists f; split; [exact Hw|]. rewrite Hrd. apply deliver_proto; exact Hl.
Qed.

(* ---------- the writer accepts exactly the frames the reader accepts ---------- *)
Lemma write_ok_iff_fits c p seq rnd :
  sendable p -> ((exists f, write_c crc c seq rnd p = Ok f) <-> fits c p).
Proof.
  intros (Hl & Ha & Hb). unfold write_c; cbv zeta.
  rewrite (proj2 (align_ok (zlen p) ltac:(lia)) Ha).
  unfold outgoing_bad_go, full_wire_bad_go, full_wire_len_go, padded_wire_bad_go, pad_len_go.
  pose proof (rem4_bounds _ (last_nonneg p Hb)).
  destruct (Z.gtb_spec (zlen p) c_maxMessageSize); destruct (Z.eqb_spec (zlen p) 0); cbn [orb]; try lia.
  - split; [intros (f & E); discriminate|]. destruct c; cbn [fits]; cbv [c_Word]; lia.
  - destruct c; cbn [fits].
    + split; [lia|]. intros _. destruct (abridged_short_go _); eexists; reflexivity.
    + split; [lia|]. intros _; eexists; reflexivity.
    + destruct (Z.gtb_spec (zlen p + Z.rem (last p 0) 4) c_maxMessageSize);
        (split; [intros (f & E); try discriminate; lia|intros; try lia; eexists; reflexivity]).
    + destruct (Z.gtb_spec (zlen p + 3 * c_Word) c_maxMessageSize);
        (split; [intros (f & E); try discriminate; lia|intros; try lia; eexists; reflexivity]).
Qed.

End WithCrc.

(* ---------- server-side codec detection ---------- *)
Lemma zlist_eqb_eq (a b : list Z) : zlist_eqb a b = true -> a = b.
Proof.
  revert b; induction a as [|x a IH]; intros [|y b]; cbn; try discriminate; auto.
  rewrite andb_true_iff, Z.eqb_eq. intros [-> H]; f_equal; auto.
Qed.

Lemma detect_tagged c s : c <> Full -> detect (header c ++ s) = Ok (c, s).
Proof.
  intros Hc. unfold detect. destruct c; try contradiction; cbn [header].
  - change (v_AbridgedClientStart ++ s) with ([239] ++ s).
    rewrite (read_full_app_k 1 [239]) by (cbn; lia). reflexivity.
  - change (v_IntermediateClientStart ++ s) with ([238] ++ ([238; 238; 238] ++ s)).
    rewrite (read_full_app_k 1 [238]) by (cbn; lia). cbn [bind hd]. change (238 =? hd 0 v_AbridgedClientStart) with false. cbv iota.
    rewrite (read_full_app_k 3 [238; 238; 238]) by (cbn; lia). reflexivity.
  - change (v_PaddedIntermediateClientStart ++ s) with ([221] ++ ([221; 221; 221] ++ s)).
    rewrite (read_full_app_k 1 [221]) by (cbn; lia). cbn [bind hd]. change (221 =? hd 0 v_AbridgedClientStart) with false. cbv iota.
    rewrite (read_full_app_k 3 [221; 221; 221]) by (cbn; lia). reflexivity.
Qed.

Lemma le_enc_S n v : le_enc (S n) v = (v mod 256) :: le_enc n (v / 256).
Proof. reflexivity. Qed.

(* a stream that starts with a full-codec frame length word: whole words, within the limit *)
Lemma detect_full_len n t :
  0 < n <= c_maxMessageSize -> n mod 4 = 0 ->
  detect (le_enc 4 n ++ t) = Ok (Full, le_enc 4 n ++ t).
Proof.
  intros Hn Hm. unfold detect. rewrite le_enc_S.
  change (((n mod 256) :: le_enc 3 (n / 256)) ++ t) with ([n mod 256] ++ (le_enc 3 (n / 256) ++ t)).
  rewrite (read_full_app_k 1 [n mod 256]) by (cbn; lia). cbn [bind hd].
  change (hd 0 v_AbridgedClientStart) with 239.
  destruct (Z.eqb_spec (n mod 256) 239) as [E|_].
  { exfalso. assert ((n mod 256) mod 4 = n mod 4) as X.
    { replace 256 with (4 * 64) by lia. rewrite Z.rem_mul_r by lia.
      replace (n mod 4 + 4 * ((n / 4) mod 64)) with (n mod 4 + ((n / 4) mod 64) * 4) by lia.
      rewrite Z.mod_add by lia. apply Z.mod_mod; lia. }
    rewrite E, Hm in X. cbv in X; discriminate. }
  rewrite (read_full_app_k 3 (le_enc 3 (n / 256))) by (rewrite ?zlen_le_enc; lia). cbn [bind].
  change ([n mod 256] ++ le_enc 3 (n / 256)) with (le_enc 4 n).
  assert (le_dec (le_enc 4 n) = n) as Hd
    by (apply le_dec_enc; cbv [c_maxMessageSize] in Hn; change (256 ^ Z.of_nat 4) with 4294967296; lia).
  destruct (zlist_eqb (le_enc 4 n) v_IntermediateClientStart) eqn:E1.
  { apply zlist_eqb_eq in E1. rewrite E1 in Hd. cbv [c_maxMessageSize] in Hn. vm_compute in Hd. lia. }
  destruct (zlist_eqb (le_enc 4 n) v_PaddedIntermediateClientStart) eqn:E2.
  { apply zlist_eqb_eq in E2. rewrite E2 in Hd. cbv [c_maxMessageSize] in Hn. vm_compute in Hd. lia. }
  reflexivity.
Qed.

Lemma ok_inj {E A} (a b : A) : @Ok E A a = Ok b -> a = b.
Proof. intros H; congruence. Qed.

Lemma detect_full_frame crc p seq rnd rest f :
  sendable p -> write_c crc Full seq rnd p = Ok f -> detect (f ++ rest) = Ok (Full, f ++ rest).
Proof.
  intros (Hl & Ha & _). unfold write_c; cbv zeta.
  destruct (outgoing_bad_go (zlen p)); [discriminate|].
  unfold full_wire_bad_go, full_wire_len_go, full_frame_len_go.
  destruct (Z.gtb_spec (zlen p + 3 * c_Word) c_maxMessageSize); [discriminate|].
  intros E; apply ok_inj in E; subst f. rewrite <- !app_assoc.
  apply detect_full_len; [cbv [c_Word] in *; lia|].
  rewrite Z.rem_mod_nonneg in Ha by lia.
  replace (4 + 4 + zlen p + 4) with (zlen p + 3 * 4) by lia. rewrite Z.mod_add by lia. exact Ha.
Qed.

(* ---------- Codec.ReadHeader (Listener with an explicit codec: ListenCodec) ---------- *)
Lemma zlist_eqb_refl (a : list Z) : zlist_eqb a a = true.
Proof. induction a as [|x a IH]; cbn; [reflexivity|]. rewrite Z.eqb_refl, IH; reflexivity. Qed.

Lemma read_header_ok c s : read_header c (header c ++ s) = Ok s.
Proof.
  destruct c; cbn [read_header]; try reflexivity;
    (rewrite read_full_app by (cbv; reflexivity); cbn [bind]; rewrite zlist_eqb_refl; reflexivity).
Qed.

Lemma read_header_mismatch c h s :
  c <> Full -> length h = length (header c) -> h <> header c -> read_header c (h ++ s) = Err EHeader.
Proof.
  intros Hc Hl Hne.
  assert (read_full (zlen (header c)) (h ++ s) = Ok (h, s)) as E.
  { apply read_full_app_k; [unfold zlen; rewrite Hl; reflexivity|destruct c; try contradiction; cbv; reflexivity]. }
  destruct c; try contradiction; cbn [read_header]; rewrite E; cbn [bind];
    (destruct (zlist_eqb h _) eqn:Eq; [apply zlist_eqb_eq in Eq; contradiction|reflexivity]).
Qed.

(* Full.Write has no alignment check: an unaligned payload may produce a frame that the
   listener's detection takes for another protocol (here 227 bytes: length word 239 = 0xef) *)
Lemma detect_full_unaligned :
  exists f, write_c (fun _ => 0) Full 0 [] (repeat 0 227) = Ok f /\
            exists s, detect f = Ok (Abridged, s).
Proof. eexists; split; [vm_compute; reflexivity|]. eexists; vm_compute; reflexivity. Qed.
