(* Proofs for C30 (Model/Session.v). *)
From Coq Require Import List ZArith Bool Lia.
From TD Require Import Lib.GoSem Gen.SessionGuard Model.Session.
Import ListNotations.
Open Scope Z_scope.

(* the generated guard, in words *)
Lemma guard_false_iff this p :
  ignore_non_primary this p = false <-> this = 0 \/ p = 0 \/ p = this.
Proof.
  unfold ignore_non_primary.
  destruct (Z.eqb_spec this 0), (Z.eqb_spec p 0), (Z.eqb_spec p this); cbn; split; intros H; auto; try discriminate;
    destruct H as [H|[H|H]]; congruence.
Qed.
Lemma guard_true_iff this p :
  ignore_non_primary this p = true <-> this <> 0 /\ p <> 0 /\ p <> this.
Proof.
  destruct (ignore_non_primary this p) eqn:E.
  - split; auto; intros _. assert (~ (this = 0 \/ p = 0 \/ p = this)) by (rewrite <- guard_false_iff; congruence). lia.
  - apply guard_false_iff in E. split; [discriminate|lia].
Qed.

Section Proofs.
  Context {K : Type}.
  Variable kzero kvalid : K -> bool.
  Variable k0 : K.
  Notation on_session := (@on_session K kzero).
  Notation step := (@step K kzero kvalid k0).
  Notation run := (@run K kzero kvalid k0).
  Notation save_key := (@save_key K kzero).
  Notation mem_key := (@mem_key K kzero).

  Lemma on_session_saved st n st' sv :
    on_session st n = (st', Some sv) ->
    n_h n = HRegular /\ ignore_non_primary (n_dc n) (s_dc (cur st)) = false /\
    sv = mkSess (n_dc n) (save_key n) (n_salt n) /\
    stored st' = Some sv /\ cur st' = mkSess (n_dc n) (mem_key n) (n_salt n).
  Proof.
    unfold Session.on_session. destruct (n_h n); [|intros H; inversion H].
    destruct (ignore_non_primary (n_dc n) (s_dc (cur st))); intros H; inversion H; subst; cbn; auto.
  Qed.

  Lemma on_session_not_saved st n st' :
    on_session st n = (st', None) -> stored st' = stored st /\ cur st' = cur st.
  Proof.
    unfold Session.on_session. destruct (n_h n).
    - destruct (ignore_non_primary (n_dc n) (s_dc (cur st))); intros H; inversion H; subst; cbn; auto.
    - intros H; inversion H; subst; cbn; auto.
  Qed.

  (* CDN notifications never touch the storage nor the primary session *)
  Lemma cdn_never_saved st n :
    n_h n = HCdn -> snd (on_session st n) = None /\
                    stored (fst (on_session st n)) = stored st /\ cur (fst (on_session st n)) = cur st.
  Proof. intros H; unfold Session.on_session; rewrite H; cbn; auto. Qed.

  (* the permanent key is the one persisted whenever there is one (PFS) *)
  Lemma save_key_pfs n :
    (kzero (n_perm n) = false -> save_key n = n_perm n) /\ (kzero (n_perm n) = true -> save_key n = n_key n).
  Proof. unfold Session.save_key, save_uses_perm; destruct (kzero (n_perm n)); cbn; split; congruence. Qed.

  Definition state_at (st : @state K) (h : list (@event K)) (i : nat) : @state K := fst (run st (firstn i h)).

  Lemma run_cons st e t :
    run st (e :: t) = (fst (run (fst (fst (step st e))) t), snd (fst (step st e)) :: snd (run (fst (fst (step st e))) t)).
  Proof.
    cbn [Session.run]. destruct (step st e) as [[st' sv] b]. cbn.
    destruct (run st' t) as [st'' out]; reflexivity.
  Qed.

  Lemma step_saved st e st' sv b :
    step st e = (st', Some sv, b) ->
    exists n st1, ev_notif e = Some n /\ on_session st n = (st1, Some sv).
  Proof.
    destruct e as [n|n dc|dc|]; cbn.
    - destruct (on_session st n) as [s o] eqn:E. intros H; inversion H; subst. exists n, st'; auto.
    - destruct (on_session st n) as [s [o|]] eqn:E; intros H; inversion H; subst. exists n, s; auto.
    - intros H; inversion H.
    - destruct (restore kvalid st); intros H; inversion H.
  Qed.

  (* every save, in every history: it is the (ThisDC, key to persist, salt) of the
     notification delivered at that very step, on the regular handler, and the guard was
     open: ThisDC is the primary DC at that time, or one of the two is 0 *)
  Lemma saved_in_history : forall (h : list (@event K)) (st : @state K) (i : nat) (sv : @sess K),
    nth_error (snd (run st h)) i = Some (Some sv) ->
    exists e n, nth_error h i = Some e /\ ev_notif e = Some n /\ n_h n = HRegular /\
              sv = mkSess (n_dc n) (save_key n) (n_salt n) /\
              (n_dc n = 0 \/ s_dc (cur (state_at st h i)) = 0 \/ s_dc (cur (state_at st h i)) = n_dc n).
  Proof.
    induction h as [|e t IH]; intros st i sv H.
    - destruct i; discriminate.
    - rewrite run_cons in H. cbn [snd] in H. destruct i as [|i].
      + cbn in H. destruct (step st e) as [[st' o] b] eqn:E. cbn in H. inversion H; subst o.
        destruct (step_saved _ _ _ _ _ E) as [n [st1 [He Hn]]].
        destruct (on_session_saved _ _ _ _ Hn) as [H1 [H2 [H3 _]]].
        exists e, n; repeat split; auto. unfold state_at; cbn. apply guard_false_iff; exact H2.
      + cbn [nth_error] in H. destruct (IH _ _ _ H) as [e' [n [Hn [He [H1 [H2 H3]]]]]].
        exists e', n; repeat split; auto.
        unfold state_at in *. cbn [firstn]. rewrite run_cons. cbn [fst]. exact H3.
  Qed.

  (* the storage holds the last save (or what it held initially) *)
  Fixpoint last_save (outs : list (option (@sess K))) (d : option (@sess K)) : option (@sess K) :=
    match outs with
    | [] => d
    | Some s :: t => last_save t (Some s)
    | None :: t => last_save t d
    end.
  Lemma step_stored st e :
    stored (fst (fst (step st e))) = match snd (fst (step st e)) with Some s => Some s | None => stored st end.
  Proof.
    destruct e as [n|n dc0|dc|]; cbn.
    - destruct (on_session st n) as [st' [sv|]] eqn:E; cbn.
      + apply on_session_saved in E; tauto.
      + apply on_session_not_saved in E; tauto.
    - destruct (on_session st n) as [st' [sv|]] eqn:E; cbn.
      + apply on_session_saved in E; tauto.
      + apply on_session_not_saved in E; tauto.
    - reflexivity.
    - unfold restore. destruct (stored st) as [s|] eqn:E; [destruct (kvalid (s_key s))|]; cbn; rewrite ?E; reflexivity.
  Qed.
  Lemma stored_is_last_save : forall h st, stored (fst (run st h)) = last_save (snd (run st h)) (stored st).
  Proof.
    induction h as [|e t IH]; intros st; [reflexivity|].
    rewrite run_cons; cbn [fst snd]. rewrite IH, step_stored.
    destruct (snd (fst (step st e))); reflexivity.
  Qed.

  (* ---- when no DC id is ever 0 ---- *)
  Definition nz_event (e : @event K) : Prop :=
    match e with
    | ENotify n => n_h n = HRegular -> n_dc n <> 0
    | ENotifyMig n dc => (n_h n = HRegular -> n_dc n <> 0) /\ dc <> 0
    | EMigrate dc => dc <> 0
    | ERestore => True
    end.

  Lemma step_primary_nz st e : nz_event e -> s_dc (cur st) <> 0 -> s_dc (cur (fst (fst (step st e)))) <> 0.
  Proof.
    destruct e as [n|n dc0|dc|]; cbn; intros Hn Hc.
    - destruct (on_session st n) as [st' [sv|]] eqn:E; cbn.
      + apply on_session_saved in E. destruct E as [H1 [_ [_ [_ H5]]]]. rewrite H5; cbn; auto.
      + apply on_session_not_saved in E. destruct E as [_ H2]; rewrite H2; auto.
    - destruct Hn as [Hn Hd]. destruct (on_session st n) as [st' [sv|]] eqn:E; cbn; auto.
      apply on_session_not_saved in E. destruct E as [_ H2]; rewrite H2; auto.
    - auto.
    - unfold restore. destruct (stored st) as [sv|]; cbn; auto.
      destruct (kvalid (s_key sv)); cbn; auto.
      unfold restore_dc_missing. destruct (Z.eqb_spec (s_dc sv) 0); cbn; auto.
  Qed.
  Lemma run_primary_nz : forall h st, Forall nz_event h -> s_dc (cur st) <> 0 -> s_dc (cur (fst (run st h))) <> 0.
  Proof.
    induction h as [|e t IH]; intros st Hh Hc; [exact Hc|].
    inversion Hh; subst. rewrite run_cons; cbn [fst]. apply IH; auto. apply step_primary_nz; auto.
  Qed.
  Lemma Forall_firstn {A} (P : A -> Prop) n l : Forall P l -> Forall P (firstn n l).
  Proof. revert l; induction n; intros [|x l] H; cbn; auto. inversion H; subst; constructor; auto. Qed.

  Lemma saved_dc_is_primary : forall h st i sv,
    s_dc (cur st) <> 0 -> Forall nz_event h ->
    nth_error (snd (run st h)) i = Some (Some sv) ->
    s_dc sv = s_dc (cur (state_at st h i)) /\ s_dc sv <> 0.
  Proof.
    intros h st i sv Hc Hh H.
    destruct (saved_in_history _ _ _ _ H) as [e [n [Hn [He [H1 [-> H3]]]]]]. cbn.
    assert (Hnz : n_dc n <> 0).
    { apply nth_error_In in Hn. rewrite Forall_forall in Hh. specialize (Hh _ Hn).
      destruct e; cbn in He; inversion He; subst; cbn in Hh; [apply Hh|apply Hh]; exact H1. }
    assert (Hp : s_dc (cur (state_at st h i)) <> 0)
      by (unfold state_at; apply run_primary_nz; [apply Forall_firstn; exact Hh|exact Hc]).
    split; [lia|exact Hnz].
  Qed.

  (* the clause "key and salt of a connection to that same DC": when the server reports its own
     DC (honest), the saved DC is the DC of the connection the key came from *)
  Lemma saved_is_connection_dc : forall (h : list (@event K)) (st : @state K) (i : nat) (sv : @sess K),
    nth_error (snd (run st h)) i = Some (Some sv) ->
    exists e n, nth_error h i = Some e /\ ev_notif e = Some n /\ n_h n = HRegular /\
              s_key sv = save_key n /\ s_salt sv = n_salt n /\
              (honest n -> s_dc sv = n_conn n).
  Proof.
    intros h st i sv H. destruct (saved_in_history _ _ _ _ H) as [e [n [Hn [He [H1 [-> _]]]]]].
    exists e, n; repeat split; auto.
  Qed.
  Lemma save_key_under_pfs n : n_pfs n = true -> pfs_has_perm kzero n -> save_key n = n_perm n.
  Proof. intros P E. apply (proj1 (save_key_pfs n)). apply E; exact P. Qed.

  (* restoring what was saved gives back the saved key, salt and DC *)
  Lemma restore_after_save st sv :
    stored st = Some sv -> kvalid (s_key sv) = true ->
    exists st', restore kvalid st = Ok st' /\ s_key (cur st') = s_key sv /\ s_salt (cur st') = s_salt sv /\
                (s_dc sv <> 0 -> s_dc (cur st') = s_dc sv) /\ (s_dc sv = 0 -> s_dc (cur st') = s_dc (cur st)).
  Proof.
    intros Hs Hv. unfold restore. rewrite Hs, Hv. eexists; split; [reflexivity|]. cbn.
    unfold restore_dc_missing. destruct (Z.eqb_spec (s_dc sv) 0); repeat split; auto; intros; congruence.
  Qed.
  Lemma restore_invalid_refused st sv :
    stored st = Some sv -> kvalid (s_key sv) = false -> restore kvalid st = Err tt.
  Proof. intros Hs Hv; unfold restore; rewrite Hs, Hv; reflexivity. Qed.
End Proofs.

(* ---- byte level key-id check ---- *)
Lemma zlist_eqb_spec a b : zlist_eqb a b = true <-> a = b.
Proof.
  revert b; induction a as [|x a IH]; intros [|y b]; cbn; split; intros H; try discriminate; auto.
  - apply andb_true_iff in H; destruct H as [H1 H2]. apply Z.eqb_eq in H1. apply IH in H2. congruence.
  - inversion H; subst. rewrite Z.eqb_refl. cbn. apply IH; reflexivity.
Qed.

Section RestoreProofs.
  Variable key_id : list Z -> list Z.

  Lemma restore_bytes_ok prev d dc kv kid salt :
    restore_bytes key_id prev d = Ok (dc, kv, kid, salt) ->
    kv = copy_into 256 (b_key d) /\ kid = copy_into 8 (b_id d) /\ key_id kv = kid /\ salt = b_salt d /\
    dc = (if b_dc d =? 0 then prev else b_dc d).
  Proof.
    unfold restore_bytes, restore_dc_missing.
    destruct (zlist_eqb (key_id (copy_into 256 (b_key d))) (copy_into 8 (b_id d))) eqn:E; intros H; inversion H; subst.
    apply zlist_eqb_spec in E. repeat split; auto.
  Qed.
  Lemma restore_bytes_refuses prev d :
    key_id (copy_into 256 (b_key d)) <> copy_into 8 (b_id d) -> restore_bytes key_id prev d = Err tt.
  Proof.
    intros H; unfold restore_bytes.
    destruct (zlist_eqb (key_id (copy_into 256 (b_key d))) (copy_into 8 (b_id d))) eqn:E; [|reflexivity].
    apply zlist_eqb_spec in E; contradiction.
  Qed.
  Lemma copy_into_exact n src : length src = n -> copy_into n src = src.
  Proof. intros <-; unfold copy_into. rewrite firstn_app, Nat.sub_diag, firstn_all; cbn. apply app_nil_r. Qed.
  (* for a well-sized record the check is literally "id = key_id key" *)
  Lemma restore_bytes_refuses_sized prev d :
    length (b_key d) = 256%nat -> length (b_id d) = 8%nat -> key_id (b_key d) <> b_id d ->
    restore_bytes key_id prev d = Err tt.
  Proof. intros Hk Hi H; apply restore_bytes_refuses; rewrite (copy_into_exact _ _ Hk), (copy_into_exact _ _ Hi); exact H. Qed.
End RestoreProofs.
