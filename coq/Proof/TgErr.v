(* Proofs about the tgerr model. *)
From Coq Require Import ZArith List Bool Lia.
From TD Require Import Lib.RunLib Gen.TgErrConsts Model.TgErr.
Import ListNotations.
Open Scope Z_scope.

(* a word: contains a non-digit byte and no underscore; a number: non-empty, all digits,
   value fits int *)
Definition no_us (p : list Z) : Prop := ~ In underscore p.
Definition is_word (p : list Z) : Prop := all_digits p = false /\ no_us p.
Definition is_num (p : list Z) (n : Z) : Prop := p <> [] /\ all_digits p = true /\ dec_value p = n /\ n <= max_int.

Lemma all_digits_no_us p : all_digits p = true -> no_us p.
Proof.
  unfold all_digits, no_us. rewrite forallb_forall. intros H I. specialize (H _ I). vm_compute in H. discriminate.
Qed.

(* ---- split / join ---- *)
Lemma split_nonempty s : split s <> [].
Proof. destruct s as [|c t]; cbn [split]; [discriminate|]. destruct (c =? underscore); [discriminate|]. destruct (split t); discriminate. Qed.

Lemma split_no_us p : no_us p -> split p = [p].
Proof.
  induction p as [|c t IH]; intros H; [reflexivity|]. cbn [split].
  destruct (Z.eqb_spec c underscore) as [->|N]; [exfalso; apply H; left; reflexivity|].
  rewrite IH; [reflexivity|]. intros I; apply H; right; exact I.
Qed.
Lemma split_app p rest : no_us p -> split (p ++ underscore :: rest) = p :: split rest.
Proof.
  induction p as [|c t IH]; intros H; cbn [app split].
  - rewrite Z.eqb_refl. reflexivity.
  - destruct (Z.eqb_spec c underscore) as [->|N]; [exfalso; apply H; left; reflexivity|].
    rewrite IH; [reflexivity|]. intros I; apply H; right; exact I.
Qed.
Lemma split_join ps : ps <> [] -> Forall no_us ps -> split (join ps) = ps.
Proof.
  induction ps as [|p t IH]; intros NE F; [congruence|].
  inversion F as [|? ? Hp Ht]; subst. destruct t as [|q t'].
  - cbn [join]. apply split_no_us, Hp.
  - change (join (p :: q :: t')) with (p ++ underscore :: join (q :: t')).
    rewrite split_app by exact Hp. rewrite IH; [reflexivity|discriminate|exact Ht].
Qed.
Lemma join_nil_iff ps : join ps = [] -> ps = [] \/ ps = [[]].
Proof.
  destruct ps as [|p [|q t]]; cbn [join]; auto.
  - intros ->; auto.
  - intros H. apply app_eq_nil in H. destruct H; discriminate.
Qed.

(* ---- scan over parts that are words or valid numbers ---- *)
Definition good (p : list Z) : Prop := is_word p \/ exists n, is_num p n.
Definition words_of (ps : list (list Z)) : list (list Z) := filter (fun p => negb (all_digits p)) ps.
Fixpoint last_num (ps : list (list Z)) (a : Z) : Z :=
  match ps with
  | [] => a
  | p :: t => if all_digits p then last_num t (dec_value p) else last_num t a
  end.

Lemma atoi_num p n : is_num p n -> atoi p = Some n.
Proof.
  intros (NE & _ & V & B). unfold atoi. destruct p; [congruence|]. rewrite V.
  destruct (Z.leb_spec n max_int); [reflexivity|lia].
Qed.

Lemma scan_good ps : Forall good ps -> forall nd a, scan ps nd a = (Some (nd ++ words_of ps), last_num ps a).
Proof.
  induction 1 as [|p t Hp _ IH]; intros nd a; cbn [scan words_of filter last_num].
  - rewrite app_nil_r. reflexivity.
  - destruct Hp as [[W _]|[n N]].
    + rewrite W. cbn [negb]. rewrite IH, <- app_assoc. reflexivity.
    + pose proof N as (_ & D & V & _). rewrite D, (atoi_num p n N). cbn [negb]. rewrite IH, V. reflexivity.
Qed.

Lemma good_no_us p : good p -> no_us p.
Proof. intros [[_ H]|[n (_ & D & _)]]; [exact H|apply all_digits_no_us, D]. Qed.

(* General form: any message made of >= 2 parts, each a word or a valid number. Type is
   the words joined, Argument the last number (0 if none). *)
Lemma parse_good ps : (2 <= length ps)%nat -> Forall good ps ->
  parse (join ps) = (join (words_of ps), last_num ps 0).
Proof.
  intros L F.
  assert (NE : ps <> []) by (destruct ps; [cbn in L; lia|discriminate]).
  assert (S : split (join ps) = ps).
  { apply split_join; [exact NE|]. eapply Forall_impl; [|exact F]. apply good_no_us. }
  unfold parse. destruct (join ps) as [|c m] eqn:J.
  - apply join_nil_iff in J. destruct J as [->| ->]; cbn in L; lia.
  - rewrite S. destruct (Z.ltb_spec (Z.of_nat (length ps)) 2); [lia|].
    rewrite scan_good by exact F. reflexivity.
Qed.

(* The stated shape: words w1..wk (k >= 1) and exactly one number at any position. *)
Lemma words_of_words ws : Forall is_word ws -> words_of ws = ws.
Proof.
  induction 1 as [|w t [W _] _ IH]; [reflexivity|]. cbn [words_of filter]. rewrite W. cbn [negb]. f_equal. exact IH.
Qed.
Lemma last_num_words ws a : Forall is_word ws -> last_num ws a = a.
Proof. induction 1 as [|w t [W _] _ IH]; [reflexivity|]. cbn [last_num]. rewrite W. exact IH. Qed.
Lemma words_of_app a b : words_of (a ++ b) = words_of a ++ words_of b.
Proof. apply filter_app. Qed.
Lemma last_num_app a b x : last_num (a ++ b) x = last_num b (last_num a x).
Proof. revert x; induction a as [|p t IH]; intros x; [reflexivity|]. cbn [app last_num]. destruct (all_digits p); apply IH. Qed.

Lemma parse_shape ws1 ws2 num n :
  Forall is_word ws1 -> Forall is_word ws2 -> ws1 ++ ws2 <> [] -> is_num num n ->
  parse (join (ws1 ++ [num] ++ ws2)) = (join (ws1 ++ ws2), n).
Proof.
  intros W1 W2 NE N.
  assert (F : Forall good (ws1 ++ [num] ++ ws2)).
  { apply Forall_app; split; [eapply Forall_impl; [|exact W1]; intros; left; assumption|].
    constructor; [right; exists n; exact N|eapply Forall_impl; [|exact W2]; intros; left; assumption]. }
  rewrite parse_good; [|rewrite !app_length; cbn [length]; destruct ws1, ws2; cbn [length app] in *; try lia; exfalso; apply NE; reflexivity|exact F].
  pose proof N as (_ & D & V & _).
  rewrite !words_of_app, !last_num_app. cbn [words_of filter last_num app]. rewrite D. cbn [negb].
  rewrite (words_of_words ws1 W1), (words_of_words ws2 W2), (last_num_words ws2 _ W2), V. reflexivity.
Qed.

(* upper-case words as in the property text are words *)
Definition is_upper (c : Z) : bool := (65 <=? c) && (c <=? 90).
Definition upper_word (w : list Z) : Prop :=
  Forall (fun c => is_upper c = true \/ is_digit c = true) w /\ Exists (fun c => is_upper c = true) w.
Lemma upper_word_is_word w : upper_word w -> is_word w.
Proof.
  intros [A E]. split.
  - unfold all_digits. apply not_true_is_false. intros H. rewrite forallb_forall in H.
    apply Exists_exists in E. destruct E as (c & I & U). specialize (H c I).
    unfold is_upper, is_digit in *. apply andb_true_iff in U, H. rewrite !Z.leb_le in *. lia.
  - intros I. rewrite Forall_forall in A. destruct (A _ I) as [U|U]; vm_compute in U; discriminate.
Qed.

(* messages without underscore, and the empty message *)
Lemma parse_no_us m : no_us m -> parse m = (m, 0).
Proof. intros H. unfold parse. destruct m; [reflexivity|]. rewrite split_no_us by exact H. reflexivity. Qed.

(* ---- flood wait ---- *)
Lemma wrap64_small x : - 2 ^ 63 <= x < 2 ^ 63 -> wrap64 x = x.
Proof. intros H. unfold wrap64. rewrite Z.mod_small by lia. lia. Qed.

Lemma flood_timer_shape ws1 ws2 num n :
  Forall is_word ws1 -> Forall is_word ws2 -> is_num num n ->
  is_flood_type (join (ws1 ++ ws2)) = true -> 0 <= n -> (n + 1) * second_ns < 2 ^ 63 ->
  flood_timer (join (ws1 ++ [num] ++ ws2)) = Some ((n + 1) * second_ns).
Proof.
  intros W1 W2 N T N0 B. unfold flood_timer.
  assert (NE : ws1 ++ ws2 <> []).
  { intros E. rewrite E in T. vm_compute in T. discriminate. }
  rewrite (parse_shape ws1 ws2 num n W1 W2 NE N). rewrite T.
  unfold second_ns in *. rewrite (wrap64_small (1000000000 * n)) by lia.
  rewrite wrap64_small by lia. f_equal. lia.
Qed.

(* ---- FloodWait control flow ---- *)
Definition advances (dts : list Z) : list fw_step := map FwAdvance dts.
Definition zsum (l : list Z) : Z := fold_right Z.add 0 l.

Lemma zsum_cons x t : zsum (x :: t) = x + zsum t.
Proof. reflexivity. Qed.
Lemma zsum_nonneg l : Forall (fun dt => 0 <= dt) l -> 0 <= zsum l.
Proof. induction 1 as [|x t Hx _ IH]; [cbn; lia|rewrite zsum_cons; lia]. Qed.

Lemma fw_wait_pre d dts : forall e rest i, Forall (fun dt => 0 <= dt) dts -> e + zsum dts < d ->
  fw_wait d e (advances dts ++ rest) i = fw_wait d (e + zsum dts) rest (i + Z.of_nat (length dts)).
Proof.
  induction dts as [|dt t IH]; intros e rest i P L.
  - change (zsum []) with 0. cbn [advances map app length]. f_equal; lia.
  - inversion P as [|? ? P0 Pt]; subst. rewrite zsum_cons in *. pose proof (zsum_nonneg t Pt).
    change (advances (dt :: t) ++ rest) with (FwAdvance dt :: (advances t ++ rest)). cbn [fw_wait].
    destruct (Z.leb_spec d (e + dt)); [lia|].
    rewrite IH by (auto; lia). cbn [length]. f_equal; lia.
Qed.

Lemma fw_blocks d dts : Forall (fun dt => 0 <= dt) dts -> zsum dts < d -> fw_wait d 0 (advances dts) 0 = None.
Proof.
  intros P L. rewrite <- (app_nil_r (advances dts)), fw_wait_pre by (auto; lia). reflexivity.
Qed.
Lemma fw_retries d dts dt rest : Forall (fun x => 0 <= x) dts -> zsum dts < d -> d <= zsum dts + dt ->
  fw_wait d 0 (advances dts ++ FwAdvance dt :: rest) 0 = Some (Z.of_nat (length dts), FwRetry).
Proof.
  intros P L G. rewrite fw_wait_pre by (auto; lia). cbn [fw_wait].
  destruct (Z.leb_spec d (0 + zsum dts + dt)); [reflexivity|lia].
Qed.
Lemma fw_cancelled d dts rest : Forall (fun x => 0 <= x) dts -> zsum dts < d ->
  fw_wait d 0 (advances dts ++ FwCancel :: rest) 0 = Some (Z.of_nat (length dts), FwCtxErr).
Proof. intros P L. rewrite fw_wait_pre by (auto; lia). reflexivity. Qed.

Section FloodRun.
  Variables (ws1 ws2 : list (list Z)) (num : list Z) (n : Z).
  Hypothesis W1 : Forall is_word ws1.
  Hypothesis W2 : Forall is_word ws2.
  Hypothesis N : is_num num n.
  Hypothesis T : is_flood_type (join (ws1 ++ ws2)) = true.
  Hypothesis N0 : 0 <= n.
  Hypothesis B : (n + 1) * second_ns < 2 ^ 63.
  Let msg := join (ws1 ++ [num] ++ ws2).
  Let d := (n + 1) * second_ns.

  Lemma run_timer steps : flood_wait_run msg steps = (Some d, fw_wait d 0 steps 0).
  Proof. unfold flood_wait_run, msg. rewrite (flood_timer_shape ws1 ws2 num n W1 W2 N T N0 B). reflexivity. Qed.

  Lemma run_blocks dts : Forall (fun dt => 0 <= dt) dts -> zsum dts < d ->
    flood_wait_run msg (advances dts) = (Some d, None).
  Proof. intros P L. rewrite run_timer, fw_blocks; auto. Qed.
  Lemma run_retries dts dt rest : Forall (fun x => 0 <= x) dts -> zsum dts < d -> d <= zsum dts + dt ->
    flood_wait_run msg (advances dts ++ FwAdvance dt :: rest) = (Some d, Some (Z.of_nat (length dts), FwRetry)).
  Proof. intros P L G. rewrite run_timer, fw_retries; auto. Qed.
  Lemma run_cancelled dts rest : Forall (fun x => 0 <= x) dts -> zsum dts < d ->
    flood_wait_run msg (advances dts ++ FwCancel :: rest) = (Some d, Some (Z.of_nat (length dts), FwCtxErr)).
  Proof. intros P L. rewrite run_timer, fw_cancelled; auto. Qed.
End FloodRun.

Lemma run_not_flood msg steps : flood_timer msg = None ->
  flood_wait_run msg steps = (None, Some (-1, FwNotFlood)).
Proof. intros H. unfold flood_wait_run. rewrite H. reflexivity. Qed.
