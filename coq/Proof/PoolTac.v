(* Invariant, helper lemmas and tactics for Proof/Pool.v.
   Proofs about Model/Pool.v: one inductive invariant over all event lists (any number of callers,
   connections and requests, any max), from which the C27 / C28 theorems follow. *)
From Coq Require Import ZArith List Bool Arith Lia.
From TD Require Import Gen.PoolDecide Model.Pool.
Import ListNotations.
Open Scope Z_scope.

(* ---------- lists ---------- *)
Lemma removeZ_In : forall c l x, In x (removeZ c l) <-> In x l /\ x <> c.
Proof.
  induction l as [|a t IH]; simpl; intros.
  - tauto.
  - destruct (Z.eqb_spec a c).
    + rewrite IH. subst. intuition congruence.
    + simpl. rewrite IH. intuition congruence.
Qed.
Lemma removeZ_NoDup : forall c l, NoDup l -> NoDup (removeZ c l).
Proof.
  induction l as [|a t IH]; simpl; intros H.
  - constructor.
  - inversion H; subst. destruct (Z.eqb_spec a c); auto.
    constructor; auto. rewrite removeZ_In. tauto.
Qed.
Lemma memZ_In : forall c l, memZ c l = true <-> In c l.
Proof.
  induction l as [|a t IH]; simpl.
  - split; [discriminate | tauto].
  - rewrite orb_true_iff, IH, Z.eqb_eq. tauto.
Qed.
Lemma removeZ_nil_or : forall c l, removeZ c l <> [] -> l <> [].
Proof. intros c l H E. subst. simpl in H. congruence. Qed.

Lemma removeN_In : forall x l y, In y (removeN x l) <-> In y l /\ y <> x.
Proof.
  induction l as [|a t IH]; simpl; intros.
  - tauto.
  - destruct (Nat.eqb_spec a x).
    + rewrite IH. subst. intuition congruence.
    + simpl. rewrite IH. intuition congruence.
Qed.
Lemma removeN_NoDup : forall x l, NoDup l -> NoDup (removeN x l).
Proof.
  induction l as [|a t IH]; simpl; intros H.
  - constructor.
  - inversion H; subst. destruct (Nat.eqb_spec a x); auto.
    constructor; auto. rewrite removeN_In. tauto.
Qed.
Lemma removeN_notin : forall x l, ~ In x l -> removeN x l = l.
Proof.
  induction l as [|a t IH]; simpl; intros H; auto.
  destruct (Nat.eqb_spec a x); [subst; tauto|]. rewrite IH; tauto.
Qed.
Lemma removeN_length : forall x l, NoDup l -> In x l -> Z.of_nat (length (removeN x l)) = Z.of_nat (length l) - 1.
Proof.
  induction l as [|a t IH]; intros ND I; [inversion I|].
  cbn [removeN]. inversion ND; subst. destruct (Nat.eqb_spec a x).
  - subst. rewrite removeN_notin by assumption. cbn [length]. lia.
  - destruct I as [E|I]; [congruence|]. cbn [length]. rewrite !Nat2Z.inj_succ. rewrite IH by assumption. lia.
Qed.
(* ---------- counting living connections ---------- *)
Lemma live_nonneg : forall cs l, 0 <= live cs l.
Proof. induction l; simpl; [lia | destruct (dead_in cs a); lia]. Qed.
Lemma live_ext : forall cs cs' l, (forall c, In c l -> dead_in cs' c = dead_in cs c) -> live cs' l = live cs l.
Proof.
  induction l as [|a t IH]; simpl; intros H; auto.
  rewrite (H a) by auto. rewrite IH; auto.
Qed.
Lemma live_pos : forall cs l c, In c l -> dead_in cs c = false -> 1 <= live cs l.
Proof.
  induction l as [|a t IH]; simpl; intros c I D; [tauto|]. destruct I as [E|I].
  - subst. rewrite D. pose proof (live_nonneg cs t). lia.
  - specialize (IH c I D). destruct (dead_in cs a); lia.
Qed.
Lemma live_kill : forall cs cs' l c,
  NoDup l -> In c l -> dead_in cs c = false -> dead_in cs' c = true ->
  (forall c', c' <> c -> dead_in cs' c' = dead_in cs c') -> live cs' l = live cs l - 1.
Proof.
  induction l as [|a t IH]; simpl; intros c ND I D D' O; [tauto|].
  inversion ND; subst. destruct I as [E|I].
  - subst. rewrite D, D'. rewrite (live_ext cs cs' t); [lia|].
    intros c' I'. apply O. intro; subst; tauto.
  - assert (a <> c) by (intro; subst; tauto).
    rewrite (O a) by auto. rewrite (IH c); auto. lia.
Qed.

(* ---------- projections of the program counter ---------- *)

Record Inv (st : state) : Prop := {
  i_nopanic : s_panicked st = false;
  i_free_nodup : NoDup (s_free st);
  i_free_held : forall c x, In c (s_free st) -> held_conn (s_pc st x) <> Some c;
  i_free_chan : forall c k, In c (s_free st) -> s_chan st k <> Some c;
  i_free_created : forall c, In c (s_free st) -> s_conns st c <> None;
  i_chan_held : forall k c x, s_chan st k = Some c -> held_conn (s_pc st x) <> Some c;
  i_chan_uniq : forall k k' c, s_chan st k = Some c -> s_chan st k' = Some c -> k' = k;
  i_chan_reqs : forall k c, s_chan st k = Some c -> ~ In k (s_reqs st);
  i_chan_waiter : forall k c, s_chan st k = Some c -> exists x, wait_key (s_pc st x) = Some k;
  i_chan_created : forall k c, s_chan st k = Some c -> s_conns st c <> None;
  i_held_uniq : forall x y c, held_conn (s_pc st x) = Some c -> held_conn (s_pc st y) = Some c -> x = y;
  i_held_created : forall x c, held_conn (s_pc st x) = Some c -> s_conns st c <> None;
  i_wait_uniq : forall x y k, wait_key (s_pc st x) = Some k -> wait_key (s_pc st y) = Some k -> x = y;
  i_wait_key : forall x k, wait_key (s_pc st x) = Some k -> k <= s_nextkey st;
  i_reqs_key : forall k, In k (s_reqs st) -> k <= s_nextkey st;
  i_reqs_nodup : NoDup (s_reqs st);
  i_reqs_waiter : forall k, In k (s_reqs st) -> exists x, reg_key (s_pc st x) = Some k;
  i_waiting : forall x k g, s_pc st x = PWaiting k g -> In k (s_reqs st) \/ exists c, s_chan st k = Some c;
  i_giverecv : forall x k w, s_pc st x = PGiveRecv k w -> ~ In k (s_reqs st);
  i_reqs_free : s_reqs st <> [] -> s_free st = [];
  i_account : forall c, s_ctxdone st = false -> s_conns st c <> None -> deleted_in (s_conns st) c = false ->
                In c (s_free st) \/ (exists k, s_chan st k = Some c) \/ (exists x, held_conn (s_pc st x) = Some c);
  i_count : s_total st = Z.of_nat (length (s_pending st)) + live (s_conns st) (s_created st);
  i_pending : forall x, In x (s_pending st) <-> s_pc st x = PNew;
  i_pending_nodup : NoDup (s_pending st);
  i_created_nodup : NoDup (s_created st);
  i_created : forall c, s_conns st c <> None <-> In c (s_created st);
  i_limit : 1 <= s_max st -> s_total st <= s_max st;
  i_flags : forall c, dead_in (s_conns st) c = true -> deleted_in (s_conns st) c = true;
  i_pulse_le : forall x k g, s_pc st x = PWaiting k g -> (g <= s_gen st)%nat;
  i_pulse : forall x k g, s_pc st x = PWaiting k g -> In k (s_reqs st) ->
              (g < s_gen st)%nat \/ can_create_go (s_max st) (s_total st) = false
}.

Lemma inv_init : forall max, Inv (init max).
Proof.
  intros; constructor; simpl; intros; try tauto; try congruence; try constructor; try lia;
    try (unfold dead_in, deleted_in in *; simpl in *; congruence).
Qed.

(* ---------- tactics ---------- *)
Ltac inv_step H :=
  unfold step in H;
  repeat match type of H with
  | (if ?X then _ else _) = Some _ => let E := fresh "G" in destruct X eqn:E; try discriminate H
  | match ?X with _ => _ end = Some _ => let E := fresh "G" in destruct X eqn:E; try discriminate H
  end;
  try (injection H as H; subst).

Ltac split_eqb :=
  repeat match goal with
  | H : context [Nat.eqb ?a ?b] |- _ => destruct (Nat.eqb_spec a b); subst
  | |- context [Nat.eqb ?a ?b] => destruct (Nat.eqb_spec a b); subst
  | H : context [Z.eqb ?a ?b] |- _ => destruct (Z.eqb_spec a b); subst
  | |- context [Z.eqb ?a ?b] => destruct (Z.eqb_spec a b); subst
  end.

Lemma ex_upd_keep : forall (f : pc -> option Z) pcs x p' k,
  (exists x0, f (pcs x0) = Some k) -> f (pcs x) <> Some k -> exists x0, f (updN pcs x p' x0) = Some k.
Proof.
  intros f pcs x p' k [x0 H] N. exists x0. unfold updN. destruct (Nat.eqb_spec x0 x); subst; congruence.
Qed.
Lemma ex_upd_new : forall (f : pc -> option Z) pcs x p' k,
  f p' = Some k -> exists x0, f (updN pcs x p' x0) = Some k.
Proof. intros. exists x. unfold updN. rewrite Nat.eqb_refl. auto. Qed.



Lemma deleted_upd : forall cs c r c', deleted_in (updZ cs c (Some r)) c' = if Z.eqb c' c then c_deleted r else deleted_in cs c'.
Proof. intros. unfold deleted_in, updZ. destruct (Z.eqb c' c); reflexivity. Qed.
Lemma dead_upd : forall cs c r c', dead_in (updZ cs c (Some r)) c' = if Z.eqb c' c then c_dead r else dead_in cs c'.
Proof. intros. unfold dead_in, updZ. destruct (Z.eqb c' c); reflexivity. Qed.
Lemma deleted_some : forall cs c r, cs c = Some r -> deleted_in cs c = c_deleted r.
Proof. intros. unfold deleted_in. rewrite H. reflexivity. Qed.
Lemma dead_some : forall cs c r, cs c = Some r -> dead_in cs c = c_dead r.
Proof. intros. unfold dead_in. rewrite H. reflexivity. Qed.
Lemma no_req_nil : forall l : list Z, no_requests_go (Z.of_nat (length l)) = true -> l = [].
Proof. intros l H. unfold no_requests_go in H. apply Z.ltb_lt in H. destruct l; simpl in *; [reflexivity | lia]. Qed.
Lemma reg_wait : forall p k, reg_key p = Some k -> wait_key p = Some k.
Proof. destruct p; simpl; congruence. Qed.
Lemma NoDup_tail : forall (a : Z) l, NoDup (a :: l) -> NoDup l /\ ~ In a l.
Proof. intros a l H; inversion H; auto. Qed.

Ltac pcfacts :=
  repeat match goal with
  | G : s_pc ?st ?x = ?P |- _ =>
      lazymatch goal with
      | _ : held_conn (s_pc st x) = _ |- _ => fail
      | _ => let h := eval cbn in (held_conn P) in let w := eval cbn in (wait_key P) in let r := eval cbn in (reg_key P) in
             assert (held_conn (s_pc st x) = h) by (rewrite G; reflexivity);
             assert (wait_key (s_pc st x) = w) by (rewrite G; reflexivity);
             assert (reg_key (s_pc st x) = r) by (rewrite G; reflexivity)
      end
  end.
Ltac somes :=
  repeat match goal with
  | H : Some _ = Some _ |- _ => injection H as H; subst
  | H : PWaiting _ _ = PWaiting _ _ |- _ => injection H as ? ?; subst
  | H : PGiveRecv _ _ = PGiveRecv _ _ |- _ => injection H as ? ?; subst
  | H : Some _ = None |- _ => discriminate H
  | H : None = Some _ |- _ => discriminate H
  end.
Lemma is_dead_in : forall st c, is_dead st c = dead_in (s_conns st) c.
Proof. reflexivity. Qed.
Ltac prep :=
  rewrite ?is_dead_in in *;
  repeat match goal with
  | G : memZ _ _ = true |- _ => apply memZ_In in G
  | G : Bool.eqb _ _ = true |- _ => apply eqb_prop in G
  | G : _ && _ = true |- _ => apply andb_prop in G; destruct G
  | G : negb _ = true |- _ => apply negb_true_iff in G
  | G : negb _ = false |- _ => apply negb_false_iff in G
  | G : true = negb _ |- _ => symmetry in G
  | G : false = negb _ |- _ => symmetry in G
  | G : (_ =? _) = true |- _ => apply Z.eqb_eq in G; subst
  | G : no_requests_go (Z.of_nat (length _)) = true |- _ => apply no_req_nil in G
  | H : _ = _ \/ In _ _ |- _ => destruct H as [H|H]; [subst|]
  | G : s_conns ?st ?c = Some ?r |- _ =>
      lazymatch goal with _ : deleted_in (s_conns st) c = c_deleted r |- _ => fail
      | _ => pose proof (deleted_some _ _ _ G); pose proof (dead_some _ _ _ G) end
  | H : removeZ _ _ <> [] |- _ => apply removeZ_nil_or in H
  | H : In _ (removeZ _ _) |- _ => rewrite removeZ_In in H; destruct H
  | H : s_reqs ?st <> [], U : s_reqs ?st <> [] -> _ |- _ => specialize (U H)
  | H : dead_in (s_conns ?st) ?c = true, U : forall c, dead_in (s_conns ?st) c = true -> deleted_in (s_conns ?st) c = true |- _ =>
      lazymatch goal with _ : deleted_in (s_conns st) c = true |- _ => fail | _ => pose proof (U c H) end
  | G : s_free ?st = ?z :: ?l |- _ =>
      lazymatch goal with
      | _ : In z (s_free st) |- _ => fail
      | _ => assert (In z (s_free st)) by (rewrite G; left; reflexivity);
             assert (forall c, In c l -> In c (s_free st)) by (intros; rewrite G; right; assumption);
             match goal with N : NoDup (s_free st) |- _ =>
               let N' := fresh "N" in pose proof N as N'; rewrite G in N'; apply NoDup_tail in N'; destruct N' end
      end
  | H : In ?c ?l, U : forall c, In c ?l -> In c (s_free ?st) |- _ =>
      lazymatch goal with _ : In c (s_free st) |- _ => fail | _ => pose proof (U c H) end
  end;
  try match goal with G : s_free ?st = [] |- _ => rewrite G in * end.
Ltac sat :=
  repeat match goal with
  | H1 : held_conn (s_pc ?st ?a) = Some ?c, H2 : held_conn (s_pc ?st ?b) = Some ?c,
    U : forall x y c, held_conn (s_pc ?st x) = Some c -> held_conn (s_pc ?st y) = Some c -> x = y |- _ =>
      lazymatch a with b => fail | _ => assert (a = b) by (eapply U; eassumption); subst end
  | H1 : wait_key (s_pc ?st ?a) = Some ?c, H2 : wait_key (s_pc ?st ?b) = Some ?c,
    U : forall x y c, wait_key (s_pc ?st x) = Some c -> wait_key (s_pc ?st y) = Some c -> x = y |- _ =>
      lazymatch a with b => fail | _ => assert (a = b) by (eapply U; eassumption); subst end
  | H : reg_key (s_pc ?st ?a) = Some ?k |- _ =>
      lazymatch goal with _ : wait_key (s_pc st a) = Some k |- _ => fail | _ => pose proof (reg_wait _ _ H) end
  | H : In ?k (s_reqs ?st), U : forall k, In k (s_reqs ?st) -> exists x, reg_key (s_pc ?st x) = Some k |- _ =>
      lazymatch goal with _ : reg_key (s_pc st _) = Some k |- _ => fail | _ => let w := fresh "w" in destruct (U k H) as [w ?] end
  | H : s_chan ?st ?k = Some ?c, U : forall k c, s_chan ?st k = Some c -> exists x, wait_key (s_pc ?st x) = Some k |- _ =>
      lazymatch goal with _ : wait_key (s_pc st _) = Some k |- _ => fail | _ => let w := fresh "w" in destruct (U k c H) as [w ?] end
  | P : s_pc ?st ?a = PWaiting ?k ?g, H : In ?k (s_reqs ?st),
    U : forall x k g, s_pc ?st x = PWaiting k g -> In k (s_reqs ?st) -> (g < s_gen ?st)%nat \/ can_create_go (s_max ?st) (s_total ?st) = false |- _ =>
      lazymatch goal with
      | _ : (g < s_gen st)%nat |- _ => fail
      | _ : can_create_go (s_max st) (s_total st) = false |- _ => fail
      | _ => destruct (U a k g P H) end
  | P : s_pc ?st ?a = PWaiting ?k ?g,
    U : forall x k g, s_pc ?st x = PWaiting k g -> In k (s_reqs ?st) \/ (exists c, s_chan ?st k = Some c) |- _ =>
      lazymatch goal with
      | _ : In k (s_reqs st) |- _ => fail
      | _ : s_chan st k = Some _ |- _ => fail
      | _ => destruct (U a k g P) as [?|[? ?]] end
  | P : s_pc ?st ?a = PGiveRecv ?k ?w, H : In ?k (s_reqs ?st),
    U : forall x k w, s_pc ?st x = PGiveRecv k w -> ~ In k (s_reqs ?st) |- _ => exfalso; exact (U a k w P H)
  | H1 : In ?c (s_free ?st), H2 : held_conn (s_pc ?st _) = Some ?c, U : forall c x, In c (s_free ?st) -> held_conn (s_pc ?st x) <> Some c |- _ =>
      exfalso; eapply U; eassumption
  | H1 : In ?c (s_free ?st), H2 : s_chan ?st _ = Some ?c, U : forall c k, In c (s_free ?st) -> s_chan ?st k <> Some c |- _ =>
      exfalso; eapply U; eassumption
  | H1 : s_chan ?st _ = Some ?c, H2 : held_conn (s_pc ?st _) = Some ?c, U : forall k c x, s_chan ?st k = Some c -> held_conn (s_pc ?st x) <> Some c |- _ =>
      exfalso; eapply U; eassumption
  | H1 : s_chan ?st ?k = Some ?c, H2 : s_chan ?st ?k' = Some ?c, U : forall k k' c, s_chan ?st k = Some c -> s_chan ?st k' = Some c -> k' = k |- _ =>
      lazymatch k with k' => fail | _ => assert (k' = k) by (eapply U; eassumption); subst end
  | H1 : s_chan ?st ?k = Some _, H2 : In ?k (s_reqs ?st), U : forall k c, s_chan ?st k = Some c -> ~ In k (s_reqs ?st) |- _ =>
      exfalso; eapply U; eassumption
  end.
Ltac base := try congruence; try tauto; try lia; try solve [eauto].
Ltac rwpc := repeat match goal with P : ?f (s_pc ?st ?x) = _, E : ?f (s_pc ?st ?x) = _ |- _ =>
                lazymatch P with E => fail | _ => rewrite P in E end end.
Ltac ex_keep := eapply ex_upd_keep; [ solve [eauto] | solve [congruence | intro; rwpc; somes; sat; base] ].
Ltac ex1 :=
  match goal with
  | |- exists x0, ?f (updN ?pcs ?x ?p x0) = Some ?k =>
      let v := eval cbn in (f p) in
      lazymatch v with
      | Some k => solve [eapply ex_upd_new; reflexivity]
      | Some ?k' => destruct (Z.eq_dec k' k); [subst; solve [eapply ex_upd_new; reflexivity] | ex_keep]
      | _ => ex_keep
      end
  end.
Ltac zb := unfold can_create_go, no_requests_go, dead_underflow_go in *;
  rewrite ?orb_true_iff, ?orb_false_iff, ?andb_true_iff, ?Z.ltb_lt, ?Z.ltb_ge, ?Z.eqb_eq, ?Nat.ltb_lt in *.
Ltac norm := rewrite ?deleted_upd, ?dead_upd in *; unfold updN, updZ in *; split_eqb;
  try match goal with G : s_conns ?st ?c = Some _ |- _ => rewrite ?G in * end;
  idtac;
  cbn [held_conn wait_key reg_key c_dead c_deleted c_ready c_exited] in *; somes;
  rewrite ?removeZ_In in *.
Ltac acct :=
  match goal with
  | A : forall c, s_ctxdone ?st = false -> s_conns ?st c <> None -> deleted_in (s_conns ?st) c = false -> In c _ \/ (exists k, s_chan ?st k = Some c) \/ (exists x, held_conn (s_pc ?st x) = Some c) |- _ \/ _ \/ (exists x0, held_conn _ = Some ?c) =>
      let F := fresh "F" in
      destruct (A c) as [F|[[? F]|[? F]]]; [ solve [norm; base] .. | | | ];
      try (match goal with G : s_free _ = _ :: _ |- _ => rewrite G in F; destruct F as [F|F]; [subst|] end);
      try (match goal with
           | F1 : s_chan ?st1 ?k1 = Some _, G : s_chan ?st1 ?k2 = Some _ |- context [updZ (s_chan ?st1) ?k2 _] =>
               lazymatch k1 with k2 => fail | _ => destruct (Z.eq_dec k1 k2); [subst; rewrite G in F1; somes|] end
           end);
      sat;
      try match goal with
          | F1 : held_conn (s_pc ?st1 ?a) = Some _, P : held_conn (s_pc ?st1 ?x1) = _ |- context [updN _ ?x1] =>
              lazymatch a with x1 => fail | _ => destruct (Nat.eq_dec a x1); [subst; rewrite P in F1; somes|] end
          end;
      first [ solve [left; norm; simpl in *; base]
            | solve [right; left; norm; eauto]
            | solve [right; right; ex1]
            | solve [right; left; eexists; norm; eauto]
            | solve [right; left; match goal with F1 : s_chan _ ?k1 = Some _ |- _ => exists k1; norm; base end] ]
  end.
Ltac normH := rewrite ?deleted_upd, ?dead_upd in * |-; unfold updN, updZ in * |-; split_eqb;
  try match goal with G : s_conns ?st ?c = Some _ |- _ => rewrite ?G in * |- end;
  cbn [held_conn wait_key reg_key c_dead c_deleted c_ready c_exited] in * |-; somes.
Ltac t0 := pcfacts; prep; try apply removeZ_NoDup; try (apply NoDup_cons; [intro|assumption]); normH; pcfacts; prep; sat;
  first [ solve [ex1] | solve [acct] | idtac ];
  norm; base;
  try (match goal with |- _ <> _ => intro | |- ~ _ => intro end; somes; prep); sat; base; try solve [simpl in *; base];
  try solve [zb; base]; try solve [zb; left; lia]; try solve [zb; right; lia];
  try solve [match goal with |- context [?a <> ?b] => destruct (Z.eq_dec a b); [subst|] end; sat; base; eauto].

Ltac keys := repeat match goal with
  | H : wait_key (s_pc ?st ?a) = Some ?k, U : forall x k, wait_key (s_pc ?st x) = Some k -> k <= s_nextkey ?st |- _ =>
      lazymatch goal with _ : k <= s_nextkey st |- _ => fail | _ => pose proof (U a k H) end
  | H : In ?k (s_reqs ?st), U : forall k, In k (s_reqs ?st) -> k <= s_nextkey ?st |- _ =>
      lazymatch goal with _ : k <= s_nextkey st |- _ => fail | _ => pose proof (U k H) end
  end.
Ltac pend :=
  match goal with
  | U : forall x, In x (s_pending ?st) <-> s_pc ?st x = PNew |- In ?y _ <-> updN _ ?x ?p ?y = PNew =>
      let HP := fresh "HP" in
      unfold updN; destruct (Nat.eqb_spec y x);
      [ subst; split; [ intro HP; try (apply U in HP); congruence | intro HP; discriminate HP ] | apply U ]
  end.
Ltac go := constructor; cbn -[Z.of_nat Z.add Z.sub]; intros; try solve [t0]; try solve [pend].
Ltac t1 := try solve [intro HH; prep; pcfacts; normH; pcfacts; prep; sat; base].
Ltac dI I := destruct I as [Ipanic Ifnd Ifheld Ifchan Ifcre Ichheld Ichuniq Ichreqs Ichwait Ichcre Ihuniq Ihcre Iwuniq Iwkey Irkey Irnd
                             Irwait Iwaiting Igrecv Irfree Iacct Icount Ipend Ipnd Icnd Icre Ilimit Iflags Iple Ipulse].
