(* The read_full functions of the transport models are io.ReadFull over ANY delivery schedule
   of the underlying reader (Lib/ReadFull.v). *)
From Coq Require Import ZArith List.
From TD Require Import Lib.GoSem Lib.ReadFull.
From TD Require Model.Codec Model.FakeTls Model.Obfs2.
Open Scope Z_scope.

Lemma codec_read_full_chunking k s szs :
  read_full_sched Codec.EEof Codec.EUnexpEof k s szs = Codec.read_full k s.
Proof. rewrite read_full_any_schedule. reflexivity. Qed.
Lemma faketls_read_full_chunking k s szs :
  read_full_sched FakeTls.TEof FakeTls.TUnexpEof k s szs = FakeTls.read_full k s.
Proof. rewrite read_full_any_schedule. reflexivity. Qed.
Lemma obfs2_read_full_chunking k s szs :
  read_full_sched Obfs2.OEof Obfs2.OUnexpEof k s szs = Obfs2.read_full k s.
Proof. rewrite read_full_any_schedule. reflexivity. Qed.
