(* Proofs about Model/UpdMgr.v (C02, C03, manager-level C01). *)
From Coq Require Import ZArith List Bool Lia Permutation.
From TD Require Import Gen.GapCheck Model.SeqBox Proof.SeqBox Model.UpdMgr.
Import ListNotations.
Open Scope Z_scope.

(* ---------- generic: insertion sort is a permutation ---------- *)
Lemma ins_key_perm : forall A (key : A -> Z) x l, Permutation (ins_key key x l) (x :: l).
Proof.
  induction l as [|y t IH]; simpl; auto.
  destruct (key x <? key y); auto.
  eapply perm_trans; [apply perm_skip, IH|apply perm_swap].
Qed.
Lemma isort_perm_gen : forall A (key : A -> Z) l acc,
  Permutation (fold_left (fun acc x => ins_key key x acc) l acc) (acc ++ l).
Proof.
  induction l as [|u t IH]; intros acc; simpl.
  - rewrite app_nil_r; auto.
  - eapply perm_trans; [apply IH|].
    eapply perm_trans; [apply Permutation_app_tail, ins_key_perm|].
    simpl. apply Permutation_middle.
Qed.
Lemma isort_perm : forall A (key : A -> Z) l, Permutation (isort key l) l.
Proof. intros; unfold isort. apply (isort_perm_gen A key l []). Qed.
Lemma isort_in : forall A (key : A -> Z) l x, In x (isort key l) <-> In x l.
Proof.
  intros; split; intro H.
  - eapply Permutation_in; [apply isort_perm|exact H].
  - eapply Permutation_in; [apply Permutation_sym, isort_perm|exact H].
Qed.

(* ---------- boxes as a function ---------- *)
Lemma set_box_same : forall m s b, mbox (set_box m s b) s = b.
Proof. intros; simpl. rewrite Z.eqb_refl; auto. Qed.
Lemma set_box_other : forall m s b s', s' <> s -> mbox (set_box m s b) s' = mbox m s'.
Proof. intros; simpl. destruct (Z.eqb_spec s' s); [contradiction|auto]. Qed.

(* ---------- persisted / accounted ---------- *)
Lemma persisted_app : forall c s tr x,
  persisted c s (tr ++ x) =
  fold_left (fun acc ev => match ev with Persist s' v => if s' =? s then v else acc | _ => acc end) x (persisted c s tr).
Proof. intros; unfold persisted; apply fold_left_app. Qed.
Lemma accounted_app : forall s e tr x, accounted s e tr -> accounted s e (tr ++ x).
Proof. intros s e tr x [H|H]; [left|right]; apply in_or_app; auto. Qed.

Definition all_safe (c : config) (log : list entry) (tr : list tev) : Prop :=
  forall pre post, tr = pre ++ post -> safe_at c log pre.
Definition is_persist (ev : tev) : bool := match ev with Persist _ _ => true | _ => false end.

Lemma all_safe_snoc : forall c log tr ev,
  all_safe c log tr -> safe_at c log (tr ++ [ev]) -> all_safe c log (tr ++ [ev]).
Proof.
  intros c log tr ev Ha Hs pre post E.
  induction post as [|x l _] using rev_ind.
  - rewrite app_nil_r in E. subst pre. exact Hs.
  - rewrite app_assoc in E. apply app_inj_tail in E. destruct E as [E _].
    eapply Ha; eauto.
Qed.

Lemma safe_at_nonpersist : forall c log tr ev,
  is_persist ev = false -> safe_at c log tr -> safe_at c log (tr ++ [ev]).
Proof.
  intros c log tr ev Hn Hs s e Hin Hes Hs0 Hr.
  apply accounted_app. apply Hs; auto.
  rewrite persisted_app in Hr. simpl in Hr. destruct ev; try discriminate; auto.
Qed.

Lemma all_safe_nonpersist : forall c log x tr,
  forallb (fun ev => negb (is_persist ev)) x = true -> all_safe c log tr -> all_safe c log (tr ++ x).
Proof.
  induction x as [|ev x IH]; intros tr Hx Ha.
  - rewrite app_nil_r; auto.
  - simpl in Hx. apply andb_prop in Hx. destruct Hx as [H1 H2].
    replace (tr ++ ev :: x) with ((tr ++ [ev]) ++ x) by (rewrite <- app_assoc; reflexivity).
    apply IH; auto. apply all_safe_snoc; auto.
    apply safe_at_nonpersist; [destruct ev; simpl in *; auto; discriminate|].
    apply (Ha tr []). rewrite app_nil_r; auto.
Qed.

Lemma all_safe_persist : forall c log tr s v,
  all_safe c log tr ->
  (forall e, In e log -> eseq e = s -> 0 <= s -> base c s < epos e <= v -> accounted s e tr) ->
  all_safe c log (tr ++ [Persist s v]).
Proof.
  intros c log tr s v Ha Hc. apply all_safe_snoc; auto.
  intros s' e Hin Hes Hs0 Hr. rewrite persisted_app in Hr. simpl in Hr.
  destruct (Z.eqb_spec s s') as [->|Hne].
  - apply accounted_app. apply Hc; auto.
  - apply accounted_app. apply (Ha tr []); auto. rewrite app_nil_r; auto.
Qed.

Lemma all_safe_nil : forall c log, all_safe c log [].
Proof.
  intros c log pre post E. symmetry in E. apply app_eq_nil in E. destruct E as [-> _].
  intros s e _ _ _ Hr. unfold persisted in Hr. simpl in Hr. lia.
Qed.

(* ---------- well-formed logs and the invariant ---------- *)
Definition wf_entry (e : entry) : Prop :=
  0 <= eseq e -> 1 <= ecnt e /\ (eseq e = 1 -> ecnt e = 1) /\ epos e <> 0.
(* distinct entries of one sequence occupy disjoint position ranges (pos - cnt, pos] *)
Definition wf_log (log : list entry) : Prop :=
  (forall e, In e log -> wf_entry e) /\
  (forall e1 e2, In e1 log -> In e2 log -> eseq e1 = eseq e2 -> 0 <= eseq e1 ->
                 e1 = e2 \/ epos e1 <= epos e2 - ecnt e2 \/ epos e2 <= epos e1 - ecnt e1).

Definition from_log (log : list entry) (s : Z) (u : upd) : Prop :=
  exists e, In e log /\ eseq e = s /\ u = upd_of e.

Record Inv (c : config) (log : list entry) (m : mgr) : Prop := {
  inv_pend : forall s, 0 <= s -> Forall (from_log log s) (bpending (mbox m s));
  inv_cov  : forall s e, In e log -> eseq e = s -> 0 <= s ->
                         base c s < epos e <= bstate (mbox m s) -> accounted s e (mtr m);
  inv_safe : all_safe c log (mtr m)
}.

Lemma from_log_nz : forall log s u, wf_log log -> 0 <= s -> from_log log s u -> nz u.
Proof.
  intros log s u [Hw _] Hs (e & Hin & Hes & ->). unfold nz; simpl.
  destruct (Hw e Hin) as (_ & _ & H); [lia|exact H].
Qed.
Lemma upd_of_cnt : forall log e, wf_log log -> In e log -> 0 <= eseq e -> ucnt (upd_of e) = ecnt e /\ 1 <= ecnt e.
Proof.
  intros log e [Hw _] Hin Hs. destruct (Hw e Hin Hs) as (H1 & H2 & _). simpl.
  destruct (Z.eqb_spec (eseq e) 1) as [E|E]; split; auto. rewrite (H2 E); reflexivity.
Qed.

(* a contiguous chain of log entries of sequence s contains every log entry of s in its span *)
Lemma chain_covers_log : forall log s us st st' e,
  wf_log log -> 0 <= s -> Forall (from_log log s) us -> chain st us st' ->
  In e log -> eseq e = s -> st < epos e <= st' ->
  exists u, In u us /\ uid u = eid e.
Proof.
  intros log s us st st' e Hwf Hs Hf Hc Hin Hes Hr.
  pose proof (chain_cov_all us st st' (epos e) Hc Hr) as Hcov.
  unfold cov in Hcov. rewrite Exists_exists in Hcov. destruct Hcov as (x & Hx & Hcv).
  rewrite in_map_iff in Hx. destruct Hx as (u & <- & Hu). simpl in Hcv.
  exists u. split; auto.
  rewrite Forall_forall in Hf. destruct (Hf u Hu) as (e' & Hin' & Hes' & ->).
  destruct (upd_of_cnt log e' Hwf Hin' ltac:(lia)) as [Hc1 Hc2].
  destruct (upd_of_cnt log e Hwf Hin ltac:(lia)) as [_ Hc3].
  unfold ustart, uend in Hcv. rewrite Hc1 in Hcv. simpl in Hcv.
  destruct Hwf as [_ Hd].
  destruct (Hd e' e Hin' Hin ltac:(lia) ltac:(lia)) as [->|[H|H]]; auto; lia.
Qed.

Lemma mgr_init_inv : forall c log, Inv c log (mgr_init c).
Proof.
  intros c log. constructor; simpl.
  - intros; constructor.
  - intros; lia.
  - apply all_safe_nil.
Qed.

(* ---------- a box apply segment ---------- *)
Lemma delivers_nonpersist : forall s (us : list upd),
  forallb (fun ev => negb (is_persist ev)) (map (fun u => Deliver s (uid u)) us) = true.
Proof. induction us; simpl; auto. Qed.

Lemma push_item_inv : forall c log m e,
  wf_log log -> In e log -> Inv c log m -> Inv c log (push_item c m e).
Proof.
  intros c log m e Hwf Hin HI. unfold push_item.
  destruct ((0 <=? eseq e) && (eseq e <? nseq c)) eqn:Hrange; [|exact HI].
  apply andb_prop in Hrange. destruct Hrange as [Hr0 _]. apply Z.leb_le in Hr0.
  set (s := eseq e) in *.
  assert (Hfl : from_log log s (upd_of e)) by (exists e; auto).
  assert (Hpn : pend_nz (mbox m s)).
  { unfold pend_nz. eapply Forall_impl; [|apply (inv_pend _ _ _ HI s Hr0)].
    intros u Hu. eapply from_log_nz; eauto. }
  pose proof (handle_spec (mbox m s) (upd_of e) Hpn (from_log_nz _ _ _ Hwf Hr0 Hfl)) as HS.
  destruct (handle (mbox m s) (upd_of e)) as [b' evs]. destruct HS as [Hok Hpend].
  assert (Hp' : Forall (from_log log s) (bpending b')).
  { apply Hpend; auto. apply (inv_pend _ _ _ HI s Hr0). }
  destruct Hok as [[-> Hst]|(s' & us & -> & Hne & Hch & Hst & _ & Hall)].
  - (* nothing delivered, position unchanged *)
    destruct Hst as [Hst|(z & Hz & _)]; [|discriminate].
    constructor; simpl; rewrite ?app_nil_r.
    + intros s1 Hs1. destruct (Z.eqb_spec s1 s) as [->|]; auto. apply (inv_pend _ _ _ HI); auto.
    + intros s1 e1 H1 H2 H3 H4. destruct (Z.eqb_spec s1 s) as [->|].
      * rewrite Hst in H4. apply (inv_cov _ _ _ HI); auto.
      * apply (inv_cov _ _ _ HI); auto.
    + apply (inv_safe _ _ _ HI).
  - (* a chain is dispatched, then the new position is stored *)
    assert (Hus : Forall (from_log log s) us).
    { apply Hall; [apply (inv_pend _ _ _ HI s Hr0)|exact Hfl]. }
    assert (Hacc : forall e1, In e1 log -> eseq e1 = s -> base c s < epos e1 <= s' ->
                   accounted s e1 (mtr m ++ map (fun u => Deliver s (uid u)) us)).
    { intros e1 H1 H2 H4. destruct (Z_le_gt_dec (epos e1) (bstate (mbox m s))).
      - apply accounted_app. apply (inv_cov _ _ _ HI); auto. lia.
      - destruct (chain_covers_log log s us _ _ e1 Hwf Hr0 Hus Hch H1 H2 ltac:(lia)) as (u & Hu & Hid).
        left. apply in_or_app. right. rewrite in_map_iff. exists u. rewrite Hid. auto. }
    assert (Hsafe1 : all_safe c log (mtr m ++ map (fun u => Deliver s (uid u)) us)).
    { apply all_safe_nonpersist; [apply delivers_nonpersist|apply (inv_safe _ _ _ HI)]. }
    simpl evs_trace. rewrite app_nil_r.
    constructor; simpl.
    + intros s1 Hs1. destruct (Z.eqb_spec s1 s) as [->|]; auto. apply (inv_pend _ _ _ HI); auto.
    + intros s1 e1 H1 H2 H3 H4. destruct (Z.eqb_spec s1 s) as [->|].
      * rewrite Hst in H4. rewrite app_assoc. apply accounted_app. apply Hacc; auto.
      * apply accounted_app. apply (inv_cov _ _ _ HI); auto.
    + destruct ((s =? 1) && (s' =? 0)).
      * rewrite app_nil_r. exact Hsafe1.
      * rewrite app_assoc. apply all_safe_persist; auto.
Qed.

Lemma emit_nonpersist_inv : forall c log m x,
  forallb (fun ev => negb (is_persist ev)) x = true -> Inv c log m -> Inv c log (emit m x).
Proof.
  intros c log m x Hx HI. constructor; simpl.
  - apply (inv_pend _ _ _ HI).
  - intros. apply accounted_app. apply (inv_cov _ _ _ HI); auto.
  - apply all_safe_nonpersist; auto. apply (inv_safe _ _ _ HI).
Qed.

Lemma find_entry_in : forall log id e, In e (find_entry log id) -> In e log.
Proof.
  intros log id e H. unfold find_entry in H. destruct (find _ log) eqn:F; simpl in H; [|tauto].
  destruct H as [<-|[]]. apply find_some in F. tauto.
Qed.

Lemma push_inv : forall c log m ids, wf_log log -> Inv c log m -> Inv c log (push c log m ids).
Proof.
  intros c log m ids Hwf HI. unfold push.
  set (items := isort route_key (flat_map (find_entry log) ids)).
  assert (Hitems : forall e, In e items -> In e log).
  { intros e He. unfold items in He. rewrite isort_in in He. rewrite in_flat_map in He.
    destruct He as (id & _ & He). eapply find_entry_in; eauto. }
  apply emit_nonpersist_inv.
  - induction (filter (fun e => eseq e <? 0) items); simpl; auto.
  - clearbody items. revert m HI. induction items as [|e t IH]; intros m HI; simpl; auto.
    apply IH.
    + intros; apply Hitems; simpl; auto.
    + apply push_item_inv; auto. apply Hitems; simpl; auto.
Qed.

(* ---------- differences ---------- *)
Lemma pend_in : forall log s from to e,
  In e (pend log s from to) <-> In e log /\ eseq e = s /\ from < epos e <= to.
Proof.
  intros. unfold pend. rewrite isort_in, filter_In.
  rewrite !andb_true_iff, Z.eqb_eq, Z.ltb_lt, Z.leb_le. tauto.
Qed.
Lemma delivers_in : forall es e, In e es -> In (Deliver (eseq e) (eid e)) (delivers es).
Proof. intros es e H. unfold delivers. rewrite in_map_iff. eauto. Qed.
Lemma delivers_nonpersist' : forall es, forallb (fun ev => negb (is_persist ev)) (delivers es) = true.
Proof. induction es; simpl; auto. Qed.
Lemma forallb_app' : forall A (f : A -> bool) a b, forallb f a = true -> forallb f b = true -> forallb f (a ++ b) = true.
Proof. intros. rewrite forallb_app, H, H0. reflexivity. Qed.

Lemma mtr_emit : forall m x, mtr (emit m x) = mtr m ++ x.
Proof. reflexivity. Qed.
Lemma mtr_set_state : forall m s v, mtr (set_state m s v) = mtr m.
Proof. reflexivity. Qed.
Lemma emit_emit : forall m a b, emit (emit m a) b = emit m (a ++ b).
Proof. intros. unfold emit; simpl. rewrite app_assoc. reflexivity. Qed.

Lemma emit_persist_inv : forall c log m s v,
  Inv c log m ->
  (forall e, In e log -> eseq e = s -> 0 <= s -> base c s < epos e <= v -> accounted s e (mtr m)) ->
  Inv c log (emit m [Persist s v]).
Proof.
  intros c log m s v HI Hc. constructor; simpl.
  - apply (inv_pend _ _ _ HI).
  - intros. apply accounted_app. apply (inv_cov _ _ _ HI); auto.
  - apply all_safe_persist; auto. apply (inv_safe _ _ _ HI).
Qed.

Lemma set_state_inv : forall c log m s v,
  Inv c log m ->
  (forall e, In e log -> eseq e = s -> 0 <= s -> base c s < epos e <= v -> accounted s e (mtr m)) ->
  Inv c log (set_state m s v).
Proof.
  intros c log m s v HI Hc. constructor; simpl.
  - intros s1 Hs1. destruct (Z.eqb_spec s1 s) as [->|]; simpl; apply (inv_pend _ _ _ HI); auto.
  - intros s1 e1 H1 H2 H3 H4. destruct (Z.eqb_spec s1 s) as [->|]; simpl in H4.
    + apply Hc; auto.
    + apply (inv_cov _ _ _ HI); auto.
  - apply (inv_safe _ _ _ HI).
Qed.

Lemma clear_gaps_inv : forall c log m s, Inv c log m -> Inv c log (clear_gaps m s).
Proof.
  intros c log m s HI. constructor; simpl.
  - intros s1 Hs1. destruct (Z.eqb_spec s1 s) as [->|]; simpl; apply (inv_pend _ _ _ HI); auto.
  - intros s1 e1 H1 H2 H3 H4. destruct (Z.eqb_spec s1 s) as [->|]; simpl in H4; apply (inv_cov _ _ _ HI); auto.
  - apply (inv_safe _ _ _ HI).
Qed.

Lemma toolong_inv : forall c log m s v,
  Inv c log m -> Inv c log (set_state (emit m [TooLong s; Persist s v]) s v).
Proof.
  intros c log m s v HI.
  assert (H1 : Inv c log (emit m [TooLong s])) by (apply emit_nonpersist_inv; auto).
  assert (Hacc : forall e, accounted s e (mtr (emit m [TooLong s]))).
  { intros e. right. simpl. apply in_or_app. right. simpl; auto. }
  assert (H2 : Inv c log (emit (emit m [TooLong s]) [Persist s v])) by (apply emit_persist_inv; auto).
  rewrite emit_emit in H2. simpl in H2.
  apply set_state_inv; auto. intros. simpl.
  replace (mtr m ++ [TooLong s; Persist s v]) with ((mtr m ++ [TooLong s]) ++ [Persist s v])
    by (rewrite <- app_assoc; reflexivity).
  apply accounted_app. apply Hacc.
Qed.

(* deliver every pending entry of sequence s up to cut, store cut, move the box to cut *)
Lemma diff_cov : forall c log m s cut D,
  Inv c log m ->
  (forall e, In e (pend log s (bstate (mbox m s)) cut) -> In (Deliver s (eid e)) D) ->
  forall e, In e log -> eseq e = s -> 0 <= s -> base c s < epos e <= cut -> accounted s e (mtr m ++ D).
Proof.
  intros c log m s cut D HI HD e H1 H2 H3 H4.
  destruct (Z_le_gt_dec (epos e) (bstate (mbox m s))).
  - apply accounted_app. apply (inv_cov _ _ _ HI); auto. lia.
  - left. apply in_or_app. right. apply HD. rewrite pend_in. repeat split; auto; lia.
Qed.

Lemma filter_split_in : forall A (f : A -> bool) l x, In x l -> In x (filter (fun e => negb (f e)) l) \/ In x (filter f l).
Proof.
  intros A f l x H. destruct (f x) eqn:E; [right|left]; rewrite filter_In; split; auto. rewrite E; auto.
Qed.

Lemma get_diff_inv : forall fuel c log vis m,
  wf_log log -> Inv c log m -> Inv c log (get_diff fuel c log vis m).
Proof.
  induction fuel as [|f IH]; intros c log vis m Hwf HI.
  - constructor; simpl; apply HI.
  - cbn [get_diff]. cbv zeta.
    set (m1 := clear_gaps (clear_gaps m 0) 1).
    assert (H1 : Inv c log m1) by (apply clear_gaps_inv, clear_gaps_inv, HI).
    set (reqp := bstate (mbox m1 0)). set (reqq := bstate (mbox m1 1)).
    destruct (pend log 0 reqp (vis 0) ++ pend log 1 reqq (vis 1)) as [|e0 l0] eqn:Epq; [exact H1|].
    destruct ((0 <? tl_thr c) && (vis 0 - reqp >? tl_thr c)).
    + apply IH; auto. apply toolong_inv; auto.
    + destruct (slice_cut (slice_lim c) (pend log 0 reqp (vis 0)) (vis 0)) as [cut sliced].
      set (pp' := pend log 0 reqp cut). set (qq := pend log 1 reqq (vis 1)).
      set (D := delivers (filter (fun e => negb (is_msg e)) pp' ++ filter (fun e => negb (is_msg e)) qq)
                ++ delivers (filter is_msg pp' ++ filter is_msg qq)).
      assert (HD0 : forall e, In e pp' -> In (Deliver 0 (eid e)) D).
      { intros e He. assert (Hs : eseq e = 0) by (unfold pp' in He; rewrite pend_in in He; tauto).
        rewrite <- Hs. unfold D. apply in_or_app.
        destruct (filter_split_in _ is_msg pp' e He); [left|right]; apply delivers_in, in_or_app; auto. }
      assert (HD1 : forall e, In e qq -> In (Deliver 1 (eid e)) D).
      { intros e He. assert (Hs : eseq e = 1) by (unfold qq in He; rewrite pend_in in He; tauto).
        rewrite <- Hs. unfold D. apply in_or_app.
        destruct (filter_split_in _ is_msg qq e He); [left|right]; apply delivers_in, in_or_app; auto. }
      assert (H2 : Inv c log (emit m1 D)).
      { apply emit_nonpersist_inv; auto. unfold D. apply forallb_app'; apply delivers_nonpersist'. }
      assert (H3 : Inv c log (emit (emit m1 D) [Persist 0 cut])).
      { apply emit_persist_inv; auto. intros. simpl. eapply diff_cov; eauto. }
      assert (H4 : Inv c log (emit (emit (emit m1 D) [Persist 0 cut]) [Persist 1 (vis 1)])).
      { apply emit_persist_inv; auto. intros. simpl. apply accounted_app. eapply diff_cov; eauto. }
      rewrite !emit_emit in H4.
      replace (D ++ [Persist 0 cut] ++ [Persist 1 (vis 1)]) with
          (delivers (filter (fun e => negb (is_msg e)) pp' ++ filter (fun e => negb (is_msg e)) qq)
           ++ delivers (filter is_msg pp' ++ filter is_msg qq) ++ [Persist 0 cut; Persist 1 (vis 1)]) in H4
        by (unfold D; rewrite <- app_assoc; reflexivity).
      match goal with |- Inv _ _ (if sliced then get_diff f c log vis ?M else ?M) => assert (H5 : Inv c log M) end.
      { assert (HA : forall s1 e, (forall e1, In e1 (pend log s1 (bstate (mbox m1 s1)) (if s1 =? 0 then cut else vis 1)) -> In (Deliver s1 (eid e1)) D) ->
                 In e log -> eseq e = s1 -> 0 <= s1 -> base c s1 < epos e <= (if s1 =? 0 then cut else vis 1) ->
                 accounted s1 e (mtr m1 ++ delivers (filter (fun e => negb (is_msg e)) pp' ++ filter (fun e => negb (is_msg e)) qq)
                                 ++ delivers (filter is_msg pp' ++ filter is_msg qq) ++ [Persist 0 cut; Persist 1 (vis 1)])).
        { intros s1 e HDs Ha Hb Hc Hd.
          replace (mtr m1 ++ delivers (filter (fun e => negb (is_msg e)) pp' ++ filter (fun e => negb (is_msg e)) qq)
                   ++ delivers (filter is_msg pp' ++ filter is_msg qq) ++ [Persist 0 cut; Persist 1 (vis 1)])
            with ((mtr m1 ++ D) ++ [Persist 0 cut; Persist 1 (vis 1)])
            by (unfold D; rewrite <- !app_assoc; reflexivity).
          apply accounted_app. eapply diff_cov; eauto. }
        apply set_state_inv; [apply set_state_inv; [exact H4|]|].
        - intros e Ha Hb Hc Hd. rewrite mtr_emit. apply (HA 0 e); auto.
        - intros e Ha Hb Hc Hd. rewrite mtr_set_state, mtr_emit. apply (HA 1 e); auto. }
      destruct sliced; auto.
Qed.

Lemma chan_diff_inv : forall fuel c log vis s m,
  wf_log log -> Inv c log m -> Inv c log (chan_diff fuel c log vis s m).
Proof.
  induction fuel as [|f IH]; intros c log vis s m Hwf HI.
  - constructor; simpl; apply HI.
  - cbn [chan_diff]. cbv zeta.
    set (m1 := clear_gaps m s).
    assert (H1 : Inv c log m1) by (apply clear_gaps_inv, HI).
    set (req := bstate (mbox m1 s)).
    destruct (pend log s req (vis s)) as [|e0 l0] eqn:Ep.
    + (* empty: no entry in (req, vis s] *)
      assert (Hc : forall e, In e log -> eseq e = s -> 0 <= s -> base c s < epos e <= vis s -> accounted s e (mtr m1)).
      { intros e H2 H3 H4 H5. apply (inv_cov _ _ _ H1); auto.
        destruct (Z_le_gt_dec (epos e) req); [lia|].
        assert (In e (pend log s req (vis s))) by (rewrite pend_in; repeat split; auto; lia).
        rewrite Ep in H. destruct H. }
      apply set_state_inv; [apply emit_persist_inv; auto|].
      intros. simpl. apply accounted_app. apply Hc; auto.
    + rewrite <- Ep. clear Ep.
      destruct ((0 <? ctl_thr c) && (vis s - req >? ctl_thr c)).
      * apply toolong_inv; auto.
      * destruct (slice_cut (cslice_lim c) (pend log s req (vis s)) (vis s)) as [cut sliced].
        set (pp' := pend log s req cut).
        set (D := delivers (filter (fun e => negb (is_msg e)) pp') ++ delivers (filter is_msg pp')).
        assert (HD : forall e, In e pp' -> In (Deliver s (eid e)) D).
        { intros e He. assert (Hs : eseq e = s) by (unfold pp' in He; rewrite pend_in in He; tauto).
          rewrite <- Hs. unfold D. apply in_or_app.
          destruct (filter_split_in _ is_msg pp' e He); [left|right]; apply delivers_in; auto. }
        assert (H2 : Inv c log (emit m1 D)).
        { apply emit_nonpersist_inv; auto. unfold D. apply forallb_app'; apply delivers_nonpersist'. }
        assert (H3 : Inv c log (emit (emit m1 D) [Persist s cut])).
        { apply emit_persist_inv; auto. intros. rewrite mtr_emit. eapply (diff_cov c log m1 s cut D); eauto. }
        rewrite emit_emit in H3.
        replace (D ++ [Persist s cut]) with
            (delivers (filter (fun e => negb (is_msg e)) pp') ++ delivers (filter is_msg pp') ++ [Persist s cut]) in H3
          by (unfold D; rewrite <- app_assoc; reflexivity).
        match goal with |- Inv _ _ (if sliced then chan_diff f c log vis s ?M else ?M) => assert (H5 : Inv c log M) end.
        { apply set_state_inv; [exact H3|].
          intros e Ha Hb Hc Hd. rewrite mtr_emit.
          replace (mtr m1 ++ delivers (filter (fun e => negb (is_msg e)) pp') ++ delivers (filter is_msg pp') ++ [Persist s cut])
            with ((mtr m1 ++ D) ++ [Persist s cut]) by (unfold D; rewrite <- !app_assoc; reflexivity).
          apply accounted_app. eapply diff_cov; eauto. }
        destruct sliced; auto.
Qed.

Lemma mstep_inv : forall c log m o, wf_log log -> Inv c log m -> Inv c log (mstep c log m o).
Proof.
  intros c log m o Hwf HI. destruct o; cbn [mstep].
  - apply push_inv; auto.
  - apply get_diff_inv; auto.
  - destruct ((2 <=? s) && (s <? nseq c)); auto. apply chan_diff_inv; auto.
  - apply get_diff_inv; auto.
  - destruct ((2 <=? s) && (s <? nseq c)); auto. apply chan_diff_inv; auto.
  - assert (H : Inv c log (get_diff (fuel_of log) c log vis m)) by (apply get_diff_inv; auto).
    revert H. generalize (get_diff (fuel_of log) c log vis m). induction (chan_seqs c); intros m0 H0; cbn [fold_left]; auto.
    apply IHl. apply chan_diff_inv; auto.
Qed.

Lemma mrun_from_inv : forall c log ops m, wf_log log -> Inv c log m -> Inv c log (fold_left (mstep c log) ops m).
Proof.
  intros c log ops. induction ops as [|o t IH]; intros m Hwf HI; simpl; auto.
  apply IH; auto. apply mstep_inv; auto.
Qed.
Lemma mrun_inv : forall c log ops, wf_log log -> Inv c log (mrun c log ops).
Proof. intros. apply mrun_from_inv; auto. apply mgr_init_inv. Qed.

(* ---------- a completed recovery leaves nothing pending ---------- *)
Lemma pend_same_nil : forall log s v, pend log s v v = [].
Proof.
  intros. destruct (pend log s v v) as [|e l] eqn:E; auto.
  assert (H : In e (pend log s v v)) by (rewrite E; left; auto).
  rewrite pend_in in H. lia.
Qed.
Lemma slice_cut_final : forall lim pp vis cut, slice_cut lim pp vis = (cut, false) -> cut = vis.
Proof.
  intros lim pp vis cut H. unfold slice_cut in H.
  destruct ((0 <? lim) && (lim <? Z.of_nat (length pp))); inversion H; auto.
Qed.

Lemma get_diff_drained : forall fuel c log vis m,
  moof (get_diff fuel c log vis m) = false ->
  pend log 0 (bstate (mbox (get_diff fuel c log vis m) 0)) (vis 0) ++
  pend log 1 (bstate (mbox (get_diff fuel c log vis m) 1)) (vis 1) = [].
Proof.
  induction fuel as [|f IH]; intros c log vis m.
  - simpl. discriminate.
  - cbn [get_diff]. cbv zeta.
    set (m1 := clear_gaps (clear_gaps m 0) 1).
    set (reqp := bstate (mbox m1 0)). set (reqq := bstate (mbox m1 1)).
    destruct (pend log 0 reqp (vis 0) ++ pend log 1 reqq (vis 1)) as [|e0 l0] eqn:Epq; [intros _; exact Epq|].
    destruct ((0 <? tl_thr c) && (vis 0 - reqp >? tl_thr c)); [apply IH|].
    destruct (slice_cut (slice_lim c) (pend log 0 reqp (vis 0)) (vis 0)) as [cut sliced] eqn:Ec.
    destruct sliced; [apply IH|].
    intros _. apply slice_cut_final in Ec. subst cut. simpl. rewrite !pend_same_nil. reflexivity.
Qed.

Lemma chan_diff_drained : forall fuel c log vis s m,
  moof (chan_diff fuel c log vis s m) = false ->
  pend log s (bstate (mbox (chan_diff fuel c log vis s m) s)) (vis s) = [].
Proof.
  induction fuel as [|f IH]; intros c log vis s m.
  - simpl. discriminate.
  - cbn [chan_diff]. cbv zeta.
    set (m1 := clear_gaps m s). set (req := bstate (mbox m1 s)).
    destruct (pend log s req (vis s)) as [|e0 l0] eqn:Ep.
    + intros _. simpl. rewrite Z.eqb_refl. simpl. apply pend_same_nil.
    + rewrite <- Ep. clear Ep.
      destruct ((0 <? ctl_thr c) && (vis s - req >? ctl_thr c)).
      * intros _. simpl. rewrite Z.eqb_refl. simpl. apply pend_same_nil.
      * destruct (slice_cut (cslice_lim c) (pend log s req (vis s)) (vis s)) as [cut sliced] eqn:Ec.
        destruct sliced; [apply IH|].
        intros _. apply slice_cut_final in Ec. subst cut. simpl. rewrite Z.eqb_refl. simpl. apply pend_same_nil.
Qed.

Lemma drained_cov : forall c log m s v e,
  Inv c log m -> pend log s (bstate (mbox m s)) v = [] ->
  In e log -> eseq e = s -> 0 <= s -> base c s < epos e <= v -> accounted s e (mtr m).
Proof.
  intros c log m s v e HI Hp H1 H2 H3 H4.
  apply (inv_cov _ _ _ HI); auto.
  destruct (Z_le_gt_dec (epos e) (bstate (mbox m s))); [lia|].
  assert (H : In e (pend log s (bstate (mbox m s)) v)) by (rewrite pend_in; repeat split; auto; lia).
  rewrite Hp in H. destruct H.
Qed.

Lemma mrun_snoc : forall c log ops o, mrun c log (ops ++ [o]) = mstep c log (mrun c log ops) o.
Proof. intros. unfold mrun. rewrite fold_left_app. reflexivity. Qed.

(* C02, common sequences: after a completed getDifference at horizon vis every log entry of
   pts / qts up to vis has reached the handler or was reported too long *)
Theorem no_loss_common : forall c log ops vis,
  wf_log log ->
  let m := mrun c log (ops ++ [MTooLong vis]) in
  moof m = false ->
  forall s e, (s = 0 \/ s = 1) -> In e log -> eseq e = s -> base c s < epos e <= vis s -> accounted s e (mtr m).
Proof.
  intros c log ops vis Hwf m Hf s e Hs H1 H2 H4.
  assert (HI : Inv c log m) by (apply mrun_inv; auto).
  unfold m in *. rewrite mrun_snoc in *. cbn [mstep] in *.
  pose proof (get_diff_drained _ _ _ _ _ Hf) as Hd. apply app_eq_nil in Hd. destruct Hd as [Hd0 Hd1].
  destruct Hs as [->| ->]; eapply drained_cov; eauto; lia.
Qed.

(* C02, channels *)
Theorem no_loss_channel : forall c log ops vis s,
  wf_log log -> 2 <= s < nseq c ->
  let m := mrun c log (ops ++ [MChanTooLong vis s]) in
  moof m = false ->
  forall e, In e log -> eseq e = s -> base c s < epos e <= vis s -> accounted s e (mtr m).
Proof.
  intros c log ops vis s Hwf Hs m Hf e H1 H2 H4.
  assert (HI : Inv c log m) by (apply mrun_inv; auto).
  unfold m in *. rewrite mrun_snoc in *. cbn [mstep] in *.
  assert (E : (2 <=? s) && (s <? nseq c) = true) by (rewrite andb_true_iff, Z.leb_le, Z.ltb_lt; lia).
  rewrite E in *.
  pose proof (chan_diff_drained _ _ _ _ _ _ Hf) as Hd.
  eapply drained_cov; eauto; lia.
Qed.

(* C02, push path alone (no recovery needed): whatever the box position has moved past
   has been delivered *)
Theorem no_loss_position : forall c log ops s e,
  wf_log log -> In e log -> eseq e = s -> 0 <= s ->
  base c s < epos e <= bstate (mbox (mrun c log ops) s) -> accounted s e (mtr (mrun c log ops)).
Proof. intros. apply (inv_cov c log _ (mrun_inv c log ops H)); auto. Qed.

(* C03: every prefix of every reachable trace is safe *)
Theorem prefix_safe : forall c log ops pre post,
  wf_log log -> mtr (mrun c log ops) = pre ++ post -> safe_at c log pre.
Proof. intros c log ops pre post Hwf E. eapply (inv_safe c log _ (mrun_inv c log ops Hwf)); eauto. Qed.

(* C03 restart: crash after any prefix, restart from the persisted positions of that prefix,
   recover: both runs together account for the whole log up to the horizon *)
Definition rebase (c : config) (b : Z -> Z) : config :=
  {| nseq := nseq c; base := b; slice_lim := slice_lim c; tl_thr := tl_thr c;
     cslice_lim := cslice_lim c; ctl_thr := ctl_thr c |}.

Theorem restart_common : forall c log ops pre post ops2 vis,
  wf_log log -> mtr (mrun c log ops) = pre ++ post ->
  let c2 := rebase c (fun s => persisted c s pre) in
  let m2 := mrun c2 log (ops2 ++ [MTooLong vis]) in
  moof m2 = false ->
  forall s e, (s = 0 \/ s = 1) -> In e log -> eseq e = s -> base c s < epos e <= vis s ->
              accounted s e pre \/ accounted s e (mtr m2).
Proof.
  intros c log ops pre post ops2 vis Hwf E c2 m2 Hf s e Hs H1 H2 H4.
  destruct (Z_le_gt_dec (epos e) (persisted c s pre)).
  - left. eapply prefix_safe; eauto; lia.
  - right. apply (no_loss_common c2 log ops2 vis Hwf Hf s e Hs H1 H2). simpl. lia.
Qed.

Theorem restart_channel : forall c log ops pre post ops2 vis s,
  wf_log log -> 2 <= s < nseq c -> mtr (mrun c log ops) = pre ++ post ->
  let c2 := rebase c (fun s => persisted c s pre) in
  let m2 := mrun c2 log (ops2 ++ [MChanTooLong vis s]) in
  moof m2 = false ->
  forall e, In e log -> eseq e = s -> base c s < epos e <= vis s ->
            accounted s e pre \/ accounted s e (mtr m2).
Proof.
  intros c log ops pre post ops2 vis s Hwf Hs E c2 m2 Hf e H1 H2 H4.
  destruct (Z_le_gt_dec (epos e) (persisted c s pre)).
  - left. eapply prefix_safe; eauto; lia.
  - right. apply (no_loss_channel c2 log ops2 vis s Hwf Hs Hf e H1 H2). simpl. lia.
Qed.

(* ---------- manager-level at most once (C01 at the handler) ---------- *)
Definition op_vis (o : mop) : Z -> Z :=
  match o with MPush v _ | MTooLong v | MChanTooLong v _ | MTimerCommon v | MTimerChan v _ | MStartup v => v end.
(* the server's horizon is never behind the client's position *)
Fixpoint vis_ok (c : config) (log : list entry) (m : mgr) (ops : list mop) : Prop :=
  match ops with
  | [] => True
  | o :: t => (forall s, 0 <= s < Z.max 2 (nseq c) -> bstate (mbox m s) <= op_vis o s) /\ vis_ok c log (mstep c log m o) t
  end.

Record Inv2 (log : list entry) (m : mgr) : Prop := {
  inv2_old : forall s id, 0 <= s -> In (Deliver s id) (mtr m) ->
                          exists e, In e log /\ eid e = id /\ eseq e = s /\ epos e <= bstate (mbox m s);
  inv2_nodup : NoDup (seq_delivers (mtr m))
}.

Lemma seq_delivers_app : forall a b, seq_delivers (a ++ b) = seq_delivers a ++ seq_delivers b.
Proof. intros; unfold seq_delivers; apply flat_map_app. Qed.
Lemma in_seq_delivers : forall tr s id, In (s, id) (seq_delivers tr) <-> 0 <= s /\ In (Deliver s id) tr.
Proof.
  intros tr s id. unfold seq_delivers. rewrite in_flat_map. split.
  - intros (ev & Hin & H). destruct ev; simpl in H; try tauto.
    destruct (Z.leb_spec 0 s0); simpl in H; [|tauto]. destruct H as [H|[]]. inversion H; subst. auto.
  - intros [Hs Hin]. exists (Deliver s id). split; auto. simpl.
    destruct (Z.leb_spec 0 s); [left; auto|lia].
Qed.

Lemma eid_inj : forall log e1 e2, NoDup (map eid log) -> In e1 log -> In e2 log -> eid e1 = eid e2 -> e1 = e2.
Proof.
  induction log as [|a t IH]; intros e1 e2 Hn H1 H2 E; [destruct H1|].
  simpl in Hn. inversion Hn as [|? ? Hna Hnt]; subst.
  destruct H1 as [<-|H1], H2 as [<-|H2]; auto.
  - exfalso. apply Hna. rewrite E. apply in_map; auto.
  - exfalso. apply Hna. rewrite <- E. apply in_map; auto.
Qed.

Lemma NoDup_map_eid : forall log l, NoDup (map eid log) -> NoDup l -> incl l log -> NoDup (map eid l).
Proof.
  intros log l Hn Hl Hi. induction l as [|a t IH]; simpl; [constructor|].
  inversion Hl; subst. constructor.
  - rewrite in_map_iff. intros (b & E & Hb). assert (b = a).
    { eapply eid_inj; eauto; apply Hi; simpl; auto. }
    subst; contradiction.
  - apply IH; auto. intros x Hx; apply Hi; simpl; auto.
Qed.

Lemma NoDup_app_intro : forall A (a b : list A),
  NoDup a -> NoDup b -> (forall x, In x a -> ~ In x b) -> NoDup (a ++ b).
Proof.
  induction a as [|x t IH]; intros b Ha Hb Hd; simpl; auto.
  inversion Ha; subst. constructor.
  - rewrite in_app_iff. intros [H|H]; [contradiction|]. apply (Hd x); simpl; auto.
  - apply IH; auto. intros y Hy. apply Hd; simpl; auto.
Qed.

(* appending fresh deliveries keeps the trace duplicate-free *)
Lemma nodup_append : forall log m X,
  NoDup (map eid log) -> Inv2 log m -> NoDup (seq_delivers X) ->
  (forall s id, In (s, id) (seq_delivers X) ->
                exists e, In e log /\ eid e = id /\ eseq e = s /\ bstate (mbox m s) < epos e) ->
  NoDup (seq_delivers (mtr m ++ X)).
Proof.
  intros log m X Hu HI Hx Hf. rewrite seq_delivers_app.
  apply NoDup_app_intro; [apply (inv2_nodup _ _ HI)|auto|].
  intros [s id] H1 H2. apply in_seq_delivers in H1. destruct H1 as [Hs H1].
  destruct (inv2_old _ _ HI s id Hs H1) as (e1 & A1 & A2 & A3 & A4).
  destruct (Hf s id H2) as (e2 & B1 & B2 & B3 & B4).
  assert (e1 = e2) by (eapply eid_inj; eauto; congruence). subst. lia.
Qed.

Lemma inv2_step : forall log m m' X,
  NoDup (map eid log) -> Inv2 log m ->
  (forall s, 0 <= s -> bstate (mbox m s) <= bstate (mbox m' s)) ->
  mtr m' = mtr m ++ X -> NoDup (seq_delivers X) ->
  (forall s id, In (s, id) (seq_delivers X) ->
     exists e, In e log /\ eid e = id /\ eseq e = s /\ bstate (mbox m s) < epos e <= bstate (mbox m' s)) ->
  Inv2 log m'.
Proof.
  intros log m m' X Hu HI Hmono Etr Hx Hf. constructor.
  - intros s id Hs Hin. rewrite Etr in Hin. apply in_app_or in Hin. destruct Hin as [Hin|Hin].
    + destruct (inv2_old _ _ HI s id Hs Hin) as (e & A1 & A2 & A3 & A4).
      exists e. repeat split; auto. specialize (Hmono s Hs). lia.
    + destruct (Hf s id) as (e & A1 & A2 & A3 & A4); [apply in_seq_delivers; auto|].
      exists e. repeat split; auto. lia.
  - rewrite Etr. apply (nodup_append log m X); auto.
    intros s id H. destruct (Hf s id H) as (e & A1 & A2 & A3 & A4). exists e. repeat split; auto. lia.
Qed.

Lemma seq_delivers_nondeliver : forall X, forallb (fun ev => match ev with Deliver _ _ => false | _ => true end) X = true ->
  seq_delivers X = [].
Proof.
  induction X as [|ev t IH]; simpl; auto. intros H. apply andb_prop in H. destruct H as [H1 H2].
  destruct ev; try discriminate; simpl; auto.
Qed.

(* chains of log entries have pairwise distinct ids *)
Lemma chain_ids : forall log s us st st',
  wf_log log -> NoDup (map eid log) -> 0 <= s -> Forall (from_log log s) us -> chain st us st' ->
  NoDup (map uid us) /\ st <= st' /\
  forall u, In u us -> exists e, In e log /\ eid e = uid u /\ eseq e = s /\ st < epos e <= st'.
Proof.
  intros log s us. induction us as [|u t IH]; intros st st' Hwf Hu Hs Hf Hc; simpl in *.
  - subst. split; [constructor|]. split; [lia|]. intros u [].
  - inversion Hf as [|? ? Hfu Hft]; subst. destruct Hc as [Ha Hb].
    destruct (IH _ _ Hwf Hu Hs Hft Hb) as (N & M & B).
    destruct Hfu as (e & He1 & He2 & ->).
    destruct (upd_of_cnt log e Hwf He1 ltac:(lia)) as [C1 C2].
    unfold ustart, uend in *. rewrite C1 in *. simpl in *.
    split; [|split; [lia|]].
    + constructor; auto. rewrite in_map_iff. intros (v & Ev & Hv).
      destruct (B v Hv) as (e' & D1 & D2 & D3 & D4).
      assert (e' = e) by (eapply eid_inj; eauto; congruence). subst. lia.
    + intros v [<-|Hv].
      * exists e. simpl. repeat split; auto; lia.
      * destruct (B v Hv) as (e' & D1 & D2 & D3 & D4). exists e'. repeat split; auto; lia.
Qed.

Lemma push_item_inv2 : forall c log m e,
  wf_log log -> NoDup (map eid log) -> In e log -> Inv c log m -> Inv2 log m -> Inv2 log (push_item c m e).
Proof.
  intros c log m e Hwf Hu Hin HI H2. unfold push_item.
  destruct ((0 <=? eseq e) && (eseq e <? nseq c)) eqn:Hrange; [|exact H2].
  apply andb_prop in Hrange. destruct Hrange as [Hr0 _]. apply Z.leb_le in Hr0.
  set (s := eseq e) in *.
  assert (Hfl : from_log log s (upd_of e)) by (exists e; auto).
  assert (Hpn : pend_nz (mbox m s)).
  { unfold pend_nz. eapply Forall_impl; [|apply (inv_pend _ _ _ HI s Hr0)].
    intros u Hu0. eapply from_log_nz; eauto. }
  pose proof (handle_spec (mbox m s) (upd_of e) Hpn (from_log_nz _ _ _ Hwf Hr0 Hfl)) as HS.
  destruct (handle (mbox m s) (upd_of e)) as [b' evs]. destruct HS as [Hok _].
  destruct Hok as [[-> Hst]|(s' & us & -> & Hne & Hch & Hst & _ & Hall)].
  - destruct Hst as [Hst|(z & Hz & _)]; [|discriminate].
    apply (inv2_step log m _ []); auto.
    + intros s1 Hs1. simpl. destruct (Z.eqb_spec s1 s) as [->|]; lia.
    + simpl. constructor.
    + intros s1 id [].
  - assert (Hus : Forall (from_log log s) us).
    { apply Hall; [apply (inv_pend _ _ _ HI s Hr0)|exact Hfl]. }
    destruct (chain_ids log s us _ _ Hwf Hu Hr0 Hus Hch) as (N & M & B).
    assert (Esd : seq_delivers (evs_trace s [Dlv s' us]) = map (fun u => (s, uid u)) us).
    { simpl. rewrite app_nil_r, seq_delivers_app.
      replace (seq_delivers (if (s =? 1) && (s' =? 0) then [] else [Persist s s'])) with (@nil (Z * Z))
        by (destruct ((s =? 1) && (s' =? 0)); reflexivity).
      rewrite app_nil_r. clear - Hr0. induction us; simpl; auto.
      destruct (Z.leb_spec 0 s); [|lia]. simpl. f_equal. exact IHus. }
    apply (inv2_step log m _ (evs_trace s [Dlv s' us])); auto.
    + intros s1 Hs1. simpl. destruct (Z.eqb_spec s1 s) as [->|]; lia.
    + rewrite Esd. clear - N. induction us; simpl in *; [constructor|].
      inversion N; subst. constructor; auto. rewrite in_map_iff. intros (v & Ev & Hv).
      inversion Ev. apply H1. rewrite in_map_iff. eauto.
    + intros s1 id Hi. rewrite Esd in Hi. rewrite in_map_iff in Hi. destruct Hi as (u & Eu & Hu1).
      inversion Eu; subst. destruct (B u Hu1) as (e' & D1 & D2 & D3 & D4).
      exists e'. simpl. rewrite Z.eqb_refl. repeat split; auto; lia.
Qed.

Lemma push_inv2 : forall c log m ids,
  wf_log log -> NoDup (map eid log) -> Inv c log m -> Inv2 log m -> Inv2 log (push c log m ids).
Proof.
  intros c log m ids Hwf Hu HI H2. unfold push.
  set (items := isort route_key (flat_map (find_entry log) ids)).
  assert (Hitems : forall e, In e items -> In e log).
  { intros e He. unfold items in He. rewrite isort_in in He. rewrite in_flat_map in He.
    destruct He as (id & _ & He). eapply find_entry_in; eauto. }
  assert (Hfold : Inv c log (fold_left (push_item c) items m) /\ Inv2 log (fold_left (push_item c) items m)).
  { clearbody items. revert m HI H2. induction items as [|e t IH]; intros m HI H2; simpl; auto.
    apply IH.
    - intros; apply Hitems; simpl; auto.
    - apply push_item_inv; auto. apply Hitems; simpl; auto.
    - apply push_item_inv2; auto. apply Hitems; simpl; auto. }
  destruct Hfold as [_ HF].
  apply (inv2_step log (fold_left (push_item c) items m) _ (map (fun e => Deliver (-1) (eid e)) (filter (fun e => eseq e <? 0) items))); auto.
  - intros; simpl; lia.
  - assert (E : seq_delivers (map (fun e => Deliver (-1) (eid e)) (filter (fun e => eseq e <? 0) items)) = []).
    { induction (filter (fun e => eseq e <? 0) items); simpl; auto. }
    rewrite E. constructor.
  - intros s id Hi.
    assert (E : seq_delivers (map (fun e => Deliver (-1) (eid e)) (filter (fun e => eseq e <? 0) items)) = []).
    { induction (filter (fun e => eseq e <? 0) items); simpl; auto. }
    rewrite E in Hi. destruct Hi.
Qed.

Lemma filter_perm : forall A (f : A -> bool) l, Permutation (filter (fun e => negb (f e)) l ++ filter f l) l.
Proof.
  induction l as [|a t IH]; simpl; auto.
  destruct (f a); simpl.
  - apply Permutation_sym. apply Permutation_cons_app. apply Permutation_sym. exact IH.
  - apply perm_skip. exact IH.
Qed.
Lemma seq_delivers_delivers : forall L, (forall e, In e L -> 0 <= eseq e) ->
  seq_delivers (delivers L) = map (fun e => (eseq e, eid e)) L.
Proof.
  induction L as [|a t IH]; intros H; simpl; auto.
  destruct (Z.leb_spec 0 (eseq a)); [|specialize (H a (or_introl eq_refl)); lia].
  simpl. f_equal. apply IH. intros; apply H; simpl; auto.
Qed.
Lemma nodup_pairs : forall L, NoDup (map eid L) -> NoDup (map (fun e => (eseq e, eid e)) L).
Proof.
  induction L as [|a t IH]; simpl; intros H; [constructor|]. inversion H; subst. constructor; auto.
  rewrite in_map_iff. intros (b & E & Hb). inversion E. apply H2. rewrite in_map_iff. eauto.
Qed.
Lemma NoDup_of_ids : forall log, NoDup (map eid log) -> NoDup log.
Proof. intros. eapply NoDup_map_inv; eauto. Qed.
Lemma pend_nodup : forall log s a b, NoDup log -> NoDup (pend log s a b).
Proof.
  intros. unfold pend. eapply Permutation_NoDup; [apply Permutation_sym, isort_perm|]. apply NoDup_filter; auto.
Qed.

(* the entries handed over by one difference of sequences sa (up to cut) [and sb (up to vb)] *)
Lemma diff_batch_fresh : forall log m L X,
  NoDup (map eid log) -> NoDup L ->
  (forall e, In e L -> In e log /\ 0 <= eseq e /\ bstate (mbox m (eseq e)) < epos e) ->
  seq_delivers X = map (fun e => (eseq e, eid e)) L ->
  NoDup (seq_delivers X) /\
  (forall s id, In (s, id) (seq_delivers X) -> exists e, In e L /\ In e log /\ eid e = id /\ eseq e = s /\ bstate (mbox m s) < epos e).
Proof.
  intros log m L X Hu HL HLp E. rewrite E. split.
  - apply nodup_pairs. apply (NoDup_map_eid log); auto. intros e He. apply HLp; auto.
  - intros s id Hi. rewrite in_map_iff in Hi. destruct Hi as (e & Ee & He). inversion Ee; subst.
    exists e. destruct (HLp e He) as (A & B & C). repeat split; auto.
Qed.

Lemma bstate_set_state : forall m s v s1,
  bstate (mbox (set_state m s v) s1) = if s1 =? s then v else bstate (mbox m s1).
Proof. intros. unfold set_state, set_box. simpl. destruct (s1 =? s); reflexivity. Qed.
Lemma mbox_emit : forall m x, mbox (emit m x) = mbox m.
Proof. reflexivity. Qed.
Ltac bst := rewrite ?bstate_set_state, ?mbox_emit, ?bstate_set_state, ?mbox_emit.

Lemma get_diff_inv2 : forall fuel c log vis m,
  wf_log log -> NoDup (map eid log) -> Inv2 log m ->
  bstate (mbox m 0) <= vis 0 -> bstate (mbox m 1) <= vis 1 ->
  Inv2 log (get_diff fuel c log vis m).
Proof.
  induction fuel as [|f IH]; intros c log vis m Hwf Hu H2 Hv0 Hv1.
  - constructor; simpl; apply H2.
  - cbn [get_diff]. cbv zeta.
    set (m1 := clear_gaps (clear_gaps m 0) 1).
    assert (Hb : forall s, bstate (mbox m1 s) = bstate (mbox m s)).
    { intros s. unfold m1. simpl. destruct (Z.eqb_spec s 1); simpl; [subst; reflexivity|].
      destruct (Z.eqb_spec s 0); simpl; [subst; reflexivity|reflexivity]. }
    assert (H1 : Inv2 log m1).
    { apply (inv2_step log m m1 []); auto.
      - intros s _. rewrite Hb. lia.
      - simpl. rewrite app_nil_r. reflexivity.
      - simpl. constructor.
      - intros s id []. }
    set (reqp := bstate (mbox m1 0)). set (reqq := bstate (mbox m1 1)).
    assert (Hrp : reqp <= vis 0) by (unfold reqp; rewrite Hb; auto).
    assert (Hrq : reqq <= vis 1) by (unfold reqq; rewrite Hb; auto).
    destruct (pend log 0 reqp (vis 0) ++ pend log 1 reqq (vis 1)) as [|e0 l0] eqn:Epq; [exact H1|].
    destruct ((0 <? tl_thr c) && (vis 0 - reqp >? tl_thr c)).
    + apply IH; auto; try (bst; simpl; try fold reqq; lia).
      apply (inv2_step log m1 _ [TooLong 0; Persist 0 (vis 0)]); auto.
      * intros s _. bst. destruct (Z.eqb_spec s 0); [subst; fold reqp; lia|lia].
      * simpl. constructor.
      * intros s id [].
    + destruct (slice_cut (slice_lim c) (pend log 0 reqp (vis 0)) (vis 0)) as [cut sliced] eqn:Ec.
      assert (Hcut : reqp <= cut <= vis 0).
      { unfold slice_cut in Ec.
        destruct ((0 <? slice_lim c) && (slice_lim c <? Z.of_nat (length (pend log 0 reqp (vis 0))))) eqn:Eb;
          inversion Ec; subst; [|lia].
        apply andb_prop in Eb. destruct Eb as [Eb1 Eb2]. apply Z.ltb_lt in Eb1, Eb2.
        assert (Hn : In (nth (Z.to_nat (slice_lim c - 1)) (pend log 0 reqp (vis 0)) dflt_entry) (pend log 0 reqp (vis 0))).
        { apply nth_In. lia. }
        rewrite pend_in in Hn. lia. }
      set (pp' := pend log 0 reqp cut). set (qq := pend log 1 reqq (vis 1)).
      set (Lo := filter (fun e => negb (is_msg e)) pp' ++ filter (fun e => negb (is_msg e)) qq).
      set (Lm := filter is_msg pp' ++ filter is_msg qq).
      assert (HP : Permutation (Lo ++ Lm) (pp' ++ qq)).
      { unfold Lo, Lm.
        eapply perm_trans; [|apply Permutation_app; [apply (filter_perm _ is_msg pp')|apply (filter_perm _ is_msg qq)]].
        rewrite <- !app_assoc. apply Permutation_app_head. rewrite !app_assoc. apply Permutation_app_tail.
        apply Permutation_app_comm. }
      assert (Hlog : NoDup log) by (apply NoDup_of_ids; auto).
      assert (HN : NoDup (Lo ++ Lm)).
      { eapply Permutation_NoDup; [apply Permutation_sym, HP|].
        apply NoDup_app_intro; try (apply pend_nodup; auto).
        intros x Hx Hy. unfold pp' in Hx. unfold qq in Hy. rewrite pend_in in Hx, Hy. lia. }
      assert (HL : forall e, In e (Lo ++ Lm) -> In e log /\ 0 <= eseq e /\ bstate (mbox m1 (eseq e)) < epos e
                                        /\ ((eseq e = 0 /\ epos e <= cut) \/ (eseq e = 1 /\ epos e <= vis 1))).
      { intros e He. eapply Permutation_in in He; [|exact HP]. apply in_app_or in He.
        destruct He as [He|He]; [unfold pp' in He|unfold qq in He]; rewrite pend_in in He;
          destruct He as (A & B & C); rewrite B; fold reqp; fold reqq; repeat split; auto; try lia. }
      set (X := delivers Lo ++ delivers Lm ++ [Persist 0 cut; Persist 1 (vis 1)]).
      assert (EX : seq_delivers X = map (fun e => (eseq e, eid e)) (Lo ++ Lm)).
      { unfold X. rewrite !seq_delivers_app. simpl. rewrite app_nil_r.
        rewrite map_app. f_equal; apply seq_delivers_delivers; intros e He; apply (HL e); apply in_or_app; auto. }
      destruct (diff_batch_fresh log m1 (Lo ++ Lm) X Hu HN) as [F1 F2]; auto.
      { intros e He. destruct (HL e He) as (A & B & C & _). auto. }
      match goal with |- Inv2 _ (if sliced then get_diff f c log vis ?M else ?M) => assert (H5 : Inv2 log M) end.
      { apply (inv2_step log m1 _ X); auto.
        - intros s _. bst. destruct (Z.eqb_spec s 1); [subst; fold reqq; lia|].
          destruct (Z.eqb_spec s 0); [subst; fold reqp; lia|lia].
        - intros s id Hi. destruct (F2 s id Hi) as (e & A0 & A1 & A2 & A3 & A4).
          exists e. repeat split; auto. destruct (HL e A0) as (_ & _ & _ & [[B1 B2]|[B1 B2]]); bst.
          + assert (Es : s = 0) by lia. rewrite Es in A4 |- *.
            change (0 =? 1) with false. change (0 =? 0) with true. cbv iota. lia.
          + assert (Es : s = 1) by lia. rewrite Es in A4 |- *.
            change (1 =? 1) with true. cbv iota. lia. }
      destruct sliced; auto. apply IH; auto; bst; simpl; lia.
Qed.

Lemma chan_diff_inv2 : forall fuel c log vis s m,
  wf_log log -> NoDup (map eid log) -> 0 <= s -> Inv2 log m ->
  bstate (mbox m s) <= vis s ->
  Inv2 log (chan_diff fuel c log vis s m).
Proof.
  induction fuel as [|f IH]; intros c log vis s m Hwf Hu Hs H2 Hv.
  - constructor; simpl; apply H2.
  - cbn [chan_diff]. cbv zeta.
    set (m1 := clear_gaps m s).
    assert (Hb : forall s1, bstate (mbox m1 s1) = bstate (mbox m s1)).
    { intros s1. unfold m1. simpl. destruct (Z.eqb_spec s1 s); simpl; [subst; reflexivity|reflexivity]. }
    assert (H1 : Inv2 log m1).
    { apply (inv2_step log m m1 []); auto.
      - intros s1 _. rewrite Hb. lia.
      - simpl. rewrite app_nil_r. reflexivity.
      - simpl. constructor.
      - intros s1 id []. }
    set (req := bstate (mbox m1 s)).
    assert (Hr : req <= vis s) by (unfold req; rewrite Hb; auto).
    destruct (pend log s req (vis s)) as [|e0 l0] eqn:Ep.
    + apply (inv2_step log m1 _ [Persist s (vis s)]); auto.
      * intros s1 _. bst. destruct (Z.eqb_spec s1 s); [subst; fold req; lia|lia].
      * simpl. constructor.
      * intros s1 id [].
    + rewrite <- Ep. clear Ep.
      destruct ((0 <? ctl_thr c) && (vis s - req >? ctl_thr c)).
      * apply (inv2_step log m1 _ [TooLong s; Persist s (vis s)]); auto.
        -- intros s1 _. bst. destruct (Z.eqb_spec s1 s); [subst; fold req; lia|lia].
        -- simpl. constructor.
        -- intros s1 id [].
      * destruct (slice_cut (cslice_lim c) (pend log s req (vis s)) (vis s)) as [cut sliced] eqn:Ec.
        assert (Hcut : req <= cut <= vis s).
        { unfold slice_cut in Ec.
          destruct ((0 <? cslice_lim c) && (cslice_lim c <? Z.of_nat (length (pend log s req (vis s))))) eqn:Eb;
            inversion Ec; subst; [|lia].
          apply andb_prop in Eb. destruct Eb as [Eb1 Eb2]. apply Z.ltb_lt in Eb1, Eb2.
          assert (Hn : In (nth (Z.to_nat (cslice_lim c - 1)) (pend log s req (vis s)) dflt_entry) (pend log s req (vis s))).
          { apply nth_In. lia. }
          rewrite pend_in in Hn. lia. }
        set (pp' := pend log s req cut).
        set (L := filter (fun e => negb (is_msg e)) pp' ++ filter is_msg pp').
        assert (HP : Permutation L pp') by apply filter_perm.
        assert (Hlog : NoDup log) by (apply NoDup_of_ids; auto).
        assert (HN : NoDup L).
        { eapply Permutation_NoDup; [apply Permutation_sym, HP|]. apply pend_nodup; auto. }
        assert (HL : forall e, In e L -> In e log /\ eseq e = s /\ req < epos e <= cut).
        { intros e He. eapply Permutation_in in He; [|exact HP]. unfold pp' in He. rewrite pend_in in He. tauto. }
        set (X := delivers (filter (fun e => negb (is_msg e)) pp') ++ delivers (filter is_msg pp') ++ [Persist s cut]).
        assert (EX : seq_delivers X = map (fun e => (eseq e, eid e)) L).
        { unfold X, L. rewrite !seq_delivers_app. simpl. rewrite app_nil_r.
          rewrite map_app. f_equal; apply seq_delivers_delivers; intros e He;
            (assert (He' : In e L) by (unfold L; apply in_or_app; auto)); destruct (HL e He') as (_ & B & _); lia. }
        destruct (diff_batch_fresh log m1 L X Hu HN) as [F1 F2]; auto.
        { intros e He. destruct (HL e He) as (A & B & C). rewrite B. fold req. repeat split; auto; lia. }
        match goal with |- Inv2 _ (if sliced then chan_diff f c log vis s ?M else ?M) => assert (H5 : Inv2 log M) end.
        { apply (inv2_step log m1 _ X); auto.
          - intros s1 _. bst. destruct (Z.eqb_spec s1 s); [subst; fold req; lia|lia].
          - intros s1 id Hi. destruct (F2 s1 id Hi) as (e & A0 & A1 & A2 & A3 & A4).
            exists e. repeat split; auto. destruct (HL e A0) as (_ & B & C).
            assert (Es : s1 = s) by lia. rewrite Es in A4 |- *. bst. rewrite Z.eqb_refl. fold req. lia. }
        destruct sliced; auto. apply IH; auto. bst. rewrite Z.eqb_refl. lia.
Qed.

Lemma mbox_set_state_other : forall m s v s1, s1 <> s -> mbox (set_state m s v) s1 = mbox m s1.
Proof. intros. unfold set_state. apply set_box_other; auto. Qed.
Lemma mbox_clear_gaps_other : forall m s s1, s1 <> s -> mbox (clear_gaps m s) s1 = mbox m s1.
Proof. intros. unfold clear_gaps. apply set_box_other; auto. Qed.

Lemma get_diff_other : forall fuel c log vis m s, 2 <= s -> mbox (get_diff fuel c log vis m) s = mbox m s.
Proof.
  induction fuel as [|f IH]; intros c log vis m s Hs; [reflexivity|].
  cbn [get_diff]. cbv zeta.
  assert (E1 : mbox (clear_gaps (clear_gaps m 0) 1) s = mbox m s).
  { rewrite mbox_clear_gaps_other, mbox_clear_gaps_other; auto; lia. }
  destruct (_ ++ _); [exact E1|].
  destruct (_ && _).
  - rewrite IH; auto. rewrite mbox_set_state_other; [|lia]. rewrite mbox_emit. exact E1.
  - destruct (slice_cut _ _ _) as [cut sliced].
    destruct sliced; [rewrite IH; auto|];
      rewrite mbox_set_state_other, mbox_set_state_other; try lia; rewrite mbox_emit; exact E1.
Qed.

Lemma chan_diff_other : forall fuel c log vis s m s1, s1 <> s -> mbox (chan_diff fuel c log vis s m) s1 = mbox m s1.
Proof.
  induction fuel as [|f IH]; intros c log vis s m s1 Hs; [reflexivity|].
  cbn [chan_diff]. cbv zeta.
  assert (E1 : mbox (clear_gaps m s) s1 = mbox m s1) by (apply mbox_clear_gaps_other; auto).
  destruct (pend log s _ (vis s)) eqn:Ep.
  - rewrite mbox_set_state_other; auto.
  - destruct (_ && _).
    + rewrite mbox_set_state_other; auto.
    + destruct (slice_cut _ _ _) as [cut sliced].
      destruct sliced; [rewrite IH; auto|]; rewrite mbox_set_state_other; auto.
Qed.

Lemma mstep_inv2 : forall c log m o,
  wf_log log -> NoDup (map eid log) -> Inv c log m -> Inv2 log m ->
  (forall s, 0 <= s < Z.max 2 (nseq c) -> bstate (mbox m s) <= op_vis o s) -> Inv2 log (mstep c log m o).
Proof.
  intros c log m o Hwf Hu HI H2 Hv. destruct o; cbn [mstep]; simpl in Hv.
  - apply push_inv2; auto.
  - apply get_diff_inv2; auto; apply Hv; lia.
  - destruct ((2 <=? s) && (s <? nseq c)) eqn:E; auto. apply andb_prop in E. destruct E as [E E']. apply Z.leb_le in E. apply Z.ltb_lt in E'.
    apply chan_diff_inv2; auto; try lia. apply Hv; lia.
  - apply get_diff_inv2; auto; apply Hv; lia.
  - destruct ((2 <=? s) && (s <? nseq c)) eqn:E; auto. apply andb_prop in E. destruct E as [E E']. apply Z.leb_le in E. apply Z.ltb_lt in E'.
    apply chan_diff_inv2; auto; try lia. apply Hv; lia.
  - assert (H : Inv2 log (get_diff (fuel_of log) c log vis m)) by (apply get_diff_inv2; auto; apply Hv; lia).
    assert (Hv' : forall s, In s (chan_seqs c) -> 2 <= s /\ bstate (mbox (get_diff (fuel_of log) c log vis m) s) <= vis s).
    { intros s Hs. unfold chan_seqs in Hs. rewrite in_map_iff in Hs. destruct Hs as (i & <- & Hi).
      apply in_seq in Hi.
      split; [lia|]. rewrite get_diff_other; [|lia]. apply Hv; lia. }
    assert (Hnd : NoDup (chan_seqs c)).
    { unfold chan_seqs. apply FinFun.Injective_map_NoDup; [|apply seq_NoDup]. intros a b E. lia. }
    revert H Hv' Hnd. generalize (get_diff (fuel_of log) c log vis m). induction (chan_seqs c) as [|s t IHl]; intros m0 H0 Hv0 Hnd; cbn [fold_left]; auto.
    inversion Hnd; subst. apply IHl; auto.
    + apply chan_diff_inv2; auto; [destruct (Hv0 s (or_introl eq_refl)); lia|apply Hv0; simpl; auto].
    + intros s1 Hs1. destruct (Hv0 s1 (or_intror Hs1)) as [A B]. split; auto.
      rewrite chan_diff_other; auto. intros ->; contradiction.
Qed.

Lemma mrun_from_inv2 : forall c log ops m,
  wf_log log -> NoDup (map eid log) -> Inv c log m -> Inv2 log m -> vis_ok c log m ops ->
  Inv2 log (fold_left (mstep c log) ops m).
Proof.
  intros c log ops. induction ops as [|o t IH]; intros m Hwf Hu HI H2 Hv; simpl; auto.
  destruct Hv as [Hv1 Hv2]. apply IH; auto.
  - apply mstep_inv; auto.
  - apply mstep_inv2; auto.
Qed.

(* C01 at the handler of the Manager: no sequenced update is delivered twice *)
Theorem manager_at_most_once : forall c log ops,
  wf_log log -> NoDup (map eid log) -> vis_ok c log (mgr_init c) ops ->
  NoDup (seq_delivers (mtr (mrun c log ops))).
Proof.
  intros c log ops Hwf Hu Hv. apply (inv2_nodup log).
  apply mrun_from_inv2; auto.
  - apply mgr_init_inv.
  - constructor; simpl; [intros s id _ []|constructor].
Qed.
(* ---------- the difference recursion terminates within its fuel ---------- *)
Lemma filter_len_le : forall A (f g : A -> bool) l,
  (forall x, g x = true -> f x = true) -> (length (filter g l) <= length (filter f l))%nat.
Proof.
  induction l as [|a t IH]; intros H; simpl; auto.
  destruct (g a) eqn:G.
  - rewrite (H a G). simpl. apply le_n_S. apply IH; auto.
  - destruct (f a); simpl; [apply le_S|]; apply IH; auto.
Qed.
Lemma filter_len_lt : forall A (f g : A -> bool) l x,
  (forall x, g x = true -> f x = true) -> In x l -> f x = true -> g x = false ->
  (length (filter g l) < length (filter f l))%nat.
Proof.
  induction l as [|a t IH]; intros x H Hin Hf Hg; [destruct Hin|]. simpl.
  destruct Hin as [->|Hin].
  - rewrite Hf, Hg. simpl. apply le_n_S. apply filter_len_le; auto.
  - destruct (g a) eqn:G.
    + rewrite (H a G). simpl. assert (length (filter g t) < length (filter f t))%nat by (eapply IH; eauto). lia.
    + assert (length (filter g t) < length (filter f t))%nat by (eapply IH; eauto). destruct (f a); simpl; lia.
Qed.
Lemma pend_length : forall log s a b,
  length (pend log s a b) = length (filter (fun e => (eseq e =? s) && (a <? epos e) && (epos e <=? b)) log).
Proof. intros. unfold pend. apply Permutation_length, isort_perm. Qed.

Lemma pend_shrinks : forall log s a b lim cut,
  slice_cut lim (pend log s a b) b = (cut, true) ->
  (length (pend log s cut b) < length (pend log s a b))%nat.
Proof.
  intros log s a b lim cut H. unfold slice_cut in H.
  destruct ((0 <? lim) && (lim <? Z.of_nat (length (pend log s a b)))) eqn:Eb; inversion H; subst; clear H.
  apply andb_prop in Eb. destruct Eb as [Eb1 Eb2]. apply Z.ltb_lt in Eb1, Eb2.
  set (x := nth (Z.to_nat (lim - 1)) (pend log s a b) dflt_entry).
  assert (Hx : In x (pend log s a b)) by (apply nth_In; lia).
  rewrite pend_in in Hx. destruct Hx as (X1 & X2 & X3).
  rewrite !pend_length. apply (filter_len_lt _ _ _ log x); auto.
  - intros y Hy. rewrite !andb_true_iff in *. rewrite Z.eqb_eq, Z.ltb_lt, Z.leb_le in *. lia.
  - rewrite !andb_true_iff, Z.eqb_eq, Z.ltb_lt, Z.leb_le. lia.
  - rewrite !andb_false_iff, Z.ltb_ge. left. right. lia.
Qed.

Lemma bstate_clear_gaps : forall m s s1, bstate (mbox (clear_gaps m s) s1) = bstate (mbox m s1).
Proof. intros. unfold clear_gaps, set_box. simpl. destruct (s1 =? s) eqn:E; [apply Z.eqb_eq in E; subst|]; reflexivity. Qed.

(* once the pts position equals the horizon one more fetch finishes *)
Lemma get_diff_fuel_at_horizon : forall f c log vis m,
  moof m = false -> bstate (mbox m 0) = vis 0 -> moof (get_diff (S f) c log vis m) = false.
Proof.
  intros f c log vis m Hm Hs. cbn [get_diff]. cbv zeta.
  rewrite !bstate_clear_gaps, Hs, pend_same_nil. simpl app.
  destruct (pend log 1 _ (vis 1)); [exact Hm|].
  replace ((0 <? tl_thr c) && (vis 0 - vis 0 >? tl_thr c)) with false.
  - unfold slice_cut. simpl length. replace ((0 <? slice_lim c) && (slice_lim c <? Z.of_nat 0)) with false; [exact Hm|].
    symmetry. apply andb_false_iff. destruct (Z.ltb_spec 0 (slice_lim c)); [right; apply Z.ltb_ge; simpl; lia|left; reflexivity].
  - symmetry. apply andb_false_iff. destruct (Z.ltb_spec 0 (tl_thr c)); [right|left; reflexivity].
    rewrite Z.sub_diag. rewrite Z.gtb_ltb. apply Z.ltb_ge. lia.
Qed.

Lemma get_diff_fuel : forall fuel c log vis m,
  moof m = false -> (length (pend log 0%Z (bstate (mbox m 0%Z)) (vis 0%Z)) + 2 <= fuel)%nat ->
  moof (get_diff fuel c log vis m) = false.
Proof.
  induction fuel as [|f IH]; intros c log vis m Hm Hf; [lia|].
  cbn [get_diff]. cbv zeta.
  set (m1 := clear_gaps (clear_gaps m 0) 1).
  assert (E0 : bstate (mbox m1 0) = bstate (mbox m 0)) by (unfold m1; rewrite !bstate_clear_gaps; reflexivity).
  rewrite E0.
  destruct (_ ++ _); [exact Hm|].
  destruct (_ && _).
  - destruct f as [|f']; [lia|]. apply get_diff_fuel_at_horizon; [exact Hm|].
    rewrite bstate_set_state. reflexivity.
  - destruct (slice_cut (slice_lim c) (pend log 0 (bstate (mbox m 0)) (vis 0)) (vis 0)) as [cut sliced] eqn:Ec.
    destruct sliced; [|exact Hm].
    apply IH; [exact Hm|].
    rewrite bstate_set_state. change (0 =? 1) with false. cbv iota. rewrite bstate_set_state. rewrite Z.eqb_refl.
    apply pend_shrinks in Ec. lia.
Qed.

Lemma chan_diff_fuel : forall fuel c log vis s m,
  moof m = false -> (length (pend log s (bstate (mbox m s)) (vis s)) + 1 <= fuel)%nat ->
  moof (chan_diff fuel c log vis s m) = false.
Proof.
  induction fuel as [|f IH]; intros c log vis s m Hm Hf; [lia|].
  cbn [chan_diff]. cbv zeta.
  rewrite !bstate_clear_gaps.
  destruct (pend log s (bstate (mbox m s)) (vis s)) as [|e0 l0] eqn:Ep; [exact Hm|].
  rewrite <- Ep in Hf |- *.
  destruct (_ && _); [exact Hm|].
  destruct (slice_cut (cslice_lim c) (pend log s (bstate (mbox m s)) (vis s)) (vis s)) as [cut sliced] eqn:Ec.
  destruct sliced; [|exact Hm].
  apply IH; [exact Hm|].
  rewrite bstate_set_state, Z.eqb_refl. apply pend_shrinks in Ec. lia.
Qed.

Lemma pend_le_log : forall log s a b, (length (pend log s a b) <= length log)%nat.
Proof.
  intros. rewrite pend_length. generalize (fun e : entry => (eseq e =? s) && (a <? epos e) && (epos e <=? b)).
  intros f. induction log as [|x t IH]; simpl; auto. destruct (f x); simpl; lia.
Qed.

Lemma push_moof : forall c log m ids, moof (push c log m ids) = moof m.
Proof.
  intros. unfold push. simpl.
  generalize (isort route_key (flat_map (find_entry log) ids)). intros items. revert m.
  induction items as [|e t IH]; intros m; simpl; auto. rewrite IH. unfold push_item.
  destruct (_ && _); auto. destruct (handle _ _); reflexivity.
Qed.

Lemma mstep_moof : forall c log m o, moof m = false -> moof (mstep c log m o) = false.
Proof.
  intros c log m o Hm. destruct o; cbn [mstep].
  - rewrite push_moof; auto.
  - apply get_diff_fuel; auto. unfold fuel_of. pose proof (pend_le_log log 0 (bstate (mbox m 0)) (vis 0)). lia.
  - destruct (_ && _); auto. apply chan_diff_fuel; auto. unfold fuel_of. pose proof (pend_le_log log s (bstate (mbox m s)) (vis s)). lia.
  - apply get_diff_fuel; auto. unfold fuel_of. pose proof (pend_le_log log 0 (bstate (mbox m 0)) (vis 0)). lia.
  - destruct (_ && _); auto. apply chan_diff_fuel; auto. unfold fuel_of. pose proof (pend_le_log log s (bstate (mbox m s)) (vis s)). lia.
  - assert (H : moof (get_diff (fuel_of log) c log vis m) = false).
    { apply get_diff_fuel; auto. unfold fuel_of. pose proof (pend_le_log log 0 (bstate (mbox m 0)) (vis 0)). lia. }
    revert H. generalize (get_diff (fuel_of log) c log vis m). induction (chan_seqs c) as [|s t IHl]; intros m0 H0; cbn [fold_left]; auto.
    apply IHl. apply chan_diff_fuel; auto. unfold fuel_of. pose proof (pend_le_log log s (bstate (mbox m0 s)) (vis s)). lia.
Qed.

Theorem never_out_of_fuel : forall c log ops, moof (mrun c log ops) = false.
Proof.
  intros c log ops. unfold mrun. generalize (eq_refl : moof (mgr_init c) = false). generalize (mgr_init c).
  induction ops as [|o t IH]; intros m Hm; simpl; auto. apply IH. apply mstep_moof; auto.
Qed.

(* unconditional forms *)
Theorem no_loss_common_total : forall c log ops vis,
  wf_log log ->
  forall s e, (s = 0 \/ s = 1) -> In e log -> eseq e = s -> base c s < epos e <= vis s ->
              accounted s e (mtr (mrun c log (ops ++ [MTooLong vis]))).
Proof. intros. eapply no_loss_common; eauto. apply never_out_of_fuel. Qed.
Theorem no_loss_channel_total : forall c log ops vis s,
  wf_log log -> 2 <= s < nseq c ->
  forall e, In e log -> eseq e = s -> base c s < epos e <= vis s ->
            accounted s e (mtr (mrun c log (ops ++ [MChanTooLong vis s]))).
Proof. intros. eapply no_loss_channel; eauto. apply never_out_of_fuel. Qed.
Theorem restart_common_total : forall c log ops pre post ops2 vis,
  wf_log log -> mtr (mrun c log ops) = pre ++ post ->
  forall s e, (s = 0 \/ s = 1) -> In e log -> eseq e = s -> base c s < epos e <= vis s ->
              accounted s e pre \/
              accounted s e (mtr (mrun (rebase c (fun s => persisted c s pre)) log (ops2 ++ [MTooLong vis]))).
Proof. intros. eapply restart_common; eauto. apply never_out_of_fuel. Qed.
Theorem restart_channel_total : forall c log ops pre post ops2 vis s,
  wf_log log -> 2 <= s < nseq c -> mtr (mrun c log ops) = pre ++ post ->
  forall e, In e log -> eseq e = s -> base c s < epos e <= vis s ->
            accounted s e pre \/
            accounted s e (mtr (mrun (rebase c (fun s => persisted c s pre)) log (ops2 ++ [MChanTooLong vis s]))).
Proof. intros. eapply restart_channel; eauto. apply never_out_of_fuel. Qed.
