(* Proofs about Model/UpdMgr.v (C02, C03, manager-level C01). *)
From Coq Require Import ZArith List Bool Lia Permutation.
From TD Require Import Gen.GapCheck Model.SeqBox Proof.SeqBox Model.UpdMgr.
Import ListNotations.
Open Scope Z_scope.

(* ---------- generic: insertion sort is a permutation ---------- *)
Lemma ins_key_perm : forall A (key : A -> Z) x l, Permutation (ins_key key x l) (x :: l).
Proof.
  induction l as [|y t IH]; simpl; auto.
  destruct (key x <? key y); auto.
  eapply perm_trans; [apply perm_skip, IH|apply perm_swap].
Qed.
Lemma isort_perm_gen : forall A (key : A -> Z) l acc,
  Permutation (fold_left (fun acc x => ins_key key x acc) l acc) (acc ++ l).
Proof.
  induction l as [|u t IH]; intros acc; simpl.
  - rewrite app_nil_r; auto.
  - eapply perm_trans; [apply IH|].
    eapply perm_trans; [apply Permutation_app_tail, ins_key_perm|].
    simpl. apply Permutation_middle.
Qed.
Lemma isort_perm : forall A (key : A -> Z) l, Permutation (isort key l) l.
Proof. intros; unfold isort. apply (isort_perm_gen A key l []). Qed.
Lemma isort_in : forall A (key : A -> Z) l x, In x (isort key l) <-> In x l.
Proof.
  intros; split; intro H.
  - eapply Permutation_in; [apply isort_perm|exact H].
  - eapply Permutation_in; [apply Permutation_sym, isort_perm|exact H].
Qed.

(* ---------- boxes as a function ---------- *)
Lemma set_box_same : forall m s b, mbox (set_box m s b) s = b.
Proof. intros; simpl. rewrite Z.eqb_refl; auto. Qed.
Lemma set_box_other : forall m s b s', s' <> s -> mbox (set_box m s b) s' = mbox m s'.
Proof. intros; simpl. destruct (Z.eqb_spec s' s); [contradiction|auto]. Qed.

Lemma bstate_set_state : forall m s v s1,
  bstate (mbox (set_state m s v) s1) = if s1 =? s then v else bstate (mbox m s1).
Proof. intros. unfold set_state, set_box. simpl. destruct (s1 =? s); reflexivity. Qed.
Lemma mbox_emit : forall m x, mbox (emit m x) = mbox m.
Proof. reflexivity. Qed.
Ltac bst := rewrite ?bstate_set_state, ?mbox_emit, ?bstate_set_state, ?mbox_emit.


(* ---------- persisted / accounted ---------- *)
Lemma persisted_app : forall c s tr x,
  persisted c s (tr ++ x) =
  fold_left (fun acc ev => match ev with Persist s' v => if s' =? s then v else acc | _ => acc end) x (persisted c s tr).
Proof. intros; unfold persisted; apply fold_left_app. Qed.
Lemma accounted_app : forall s e tr x, accounted s e tr -> accounted s e (tr ++ x).
Proof.
  intros s e tr x [H|[H|(f & t & H & Hr)]]; [left; apply in_or_app; auto|right; left; apply in_or_app; auto|].
  right. right. exists f, t. split; auto. apply in_or_app; auto.
Qed.

Definition all_safe (c : config) (log : list entry) (tr : list tev) : Prop :=
  forall pre post, tr = pre ++ post -> safe_at c log pre.
Definition is_persist (ev : tev) : bool := match ev with Persist _ _ => true | _ => false end.

Lemma all_safe_snoc : forall c log tr ev,
  all_safe c log tr -> safe_at c log (tr ++ [ev]) -> all_safe c log (tr ++ [ev]).
Proof.
  intros c log tr ev Ha Hs pre post E.
  induction post as [|x l _] using rev_ind.
  - rewrite app_nil_r in E. subst pre. exact Hs.
  - rewrite app_assoc in E. apply app_inj_tail in E. destruct E as [E _].
    eapply Ha; eauto.
Qed.

Lemma safe_at_nonpersist : forall c log tr ev,
  is_persist ev = false -> safe_at c log tr -> safe_at c log (tr ++ [ev]).
Proof.
  intros c log tr ev Hn Hs s e Hin Hes Hs0 Hr.
  apply accounted_app. apply Hs; auto.
  rewrite persisted_app in Hr. simpl in Hr. destruct ev; try discriminate; auto.
Qed.

Lemma all_safe_nonpersist : forall c log x tr,
  forallb (fun ev => negb (is_persist ev)) x = true -> all_safe c log tr -> all_safe c log (tr ++ x).
Proof.
  induction x as [|ev x IH]; intros tr Hx Ha.
  - rewrite app_nil_r; auto.
  - simpl in Hx. apply andb_prop in Hx. destruct Hx as [H1 H2].
    replace (tr ++ ev :: x) with ((tr ++ [ev]) ++ x) by (rewrite <- app_assoc; reflexivity).
    apply IH; auto. apply all_safe_snoc; auto.
    apply safe_at_nonpersist; [destruct ev; simpl in *; auto; discriminate|].
    apply (Ha tr []). rewrite app_nil_r; auto.
Qed.

Lemma all_safe_persist : forall c log tr s v,
  all_safe c log tr ->
  (forall e, In e log -> eseq e = s -> 0 <= s -> base c s < epos e <= v -> accounted s e tr) ->
  all_safe c log (tr ++ [Persist s v]).
Proof.
  intros c log tr s v Ha Hc. apply all_safe_snoc; auto.
  intros s' e Hin Hes Hs0 Hr. rewrite persisted_app in Hr. simpl in Hr.
  destruct (Z.eqb_spec s s') as [->|Hne].
  - apply accounted_app. apply Hc; auto.
  - apply accounted_app. apply (Ha tr []); auto. rewrite app_nil_r; auto.
Qed.

Lemma all_safe_nil : forall c log, all_safe c log [].
Proof.
  intros c log pre post E. symmetry in E. apply app_eq_nil in E. destruct E as [-> _].
  intros s e _ _ _ Hr. unfold persisted in Hr. simpl in Hr. lia.
Qed.

(* ---------- well-formed logs and the invariant ---------- *)
Definition wf_entry (e : entry) : Prop :=
  0 <= eseq e -> 1 <= ecnt e /\ (eseq e = 1 -> ecnt e = 1) /\ epos e <> 0 /\ 0 <= eid e.
(* distinct entries of one sequence occupy disjoint position ranges (pos - cnt, pos] *)
Definition wf_log (log : list entry) : Prop :=
  (forall e, In e log -> wf_entry e) /\
  (forall e1 e2, In e1 log -> In e2 log -> eseq e1 = eseq e2 -> 0 <= eseq e1 ->
                 e1 = e2 \/ epos e1 <= epos e2 - ecnt e2 \/ epos e2 <= epos e1 - ecnt e1).

Definition from_log (log : list entry) (s : Z) (u : upd) : Prop :=
  exists e, In e log /\ eseq e = s /\ (u = upd_of e \/ u = mark_of e).

Record Inv (c : config) (log : list entry) (m : mgr) : Prop := {
  inv_pend : forall s, 0 <= s -> Forall (from_log log s) (bpending (mbox m s));
  inv_cov  : forall s e, In e log -> eseq e = s -> 0 <= s ->
                         base c s < epos e <= bstate (mbox m s) -> accounted s e (mtr m);
  inv_safe : all_safe c log (mtr m)
}.

Lemma from_log_nz : forall log s u, wf_log log -> 0 <= s -> from_log log s u -> nz u.
Proof.
  intros log s u [Hw _] Hs (e & Hin & Hes & [->| ->]); unfold nz; simpl;
    (destruct (Hw e Hin) as (_ & _ & H & _); [lia|exact H]).
Qed.
Lemma upd_of_cnt : forall log e, wf_log log -> In e log -> 0 <= eseq e -> ucnt (upd_of e) = ecnt e /\ 1 <= ecnt e.
Proof.
  intros log e [Hw _] Hin Hs. destruct (Hw e Hin Hs) as (H1 & H2 & _ & _). simpl.
  destruct (Z.eqb_spec (eseq e) 1) as [E|E]; split; auto. rewrite (H2 E); reflexivity.
Qed.

(* a contiguous chain of log entries of sequence s contains every log entry of s in its span *)
Lemma chain_covers_log : forall log s us st st' e,
  wf_log log -> 0 <= s -> Forall (from_log log s) us -> chain st us st' ->
  In e log -> eseq e = s -> st < epos e <= st' ->
  exists u, In u us /\ (u = upd_of e \/ u = mark_of e).
Proof.
  intros log s us st st' e Hwf Hs Hf Hc Hin Hes Hr.
  pose proof (chain_cov_all us st st' (epos e) Hc Hr) as Hcov.
  unfold cov in Hcov. rewrite Exists_exists in Hcov. destruct Hcov as (x & Hx & Hcv).
  rewrite in_map_iff in Hx. destruct Hx as (u & <- & Hu). simpl in Hcv.
  exists u. split; auto.
  rewrite Forall_forall in Hf. destruct (Hf u Hu) as (e' & Hin' & Hes' & Hu').
  destruct (upd_of_cnt log e' Hwf Hin' ltac:(lia)) as [Hc1 Hc2].
  destruct (upd_of_cnt log e Hwf Hin ltac:(lia)) as [_ Hc3].
  assert (Hrng : epos e' - ecnt e' < epos e <= epos e').
  { destruct Hu' as [->| ->]; unfold ustart, uend in Hcv; simpl in *; rewrite Hc1 in Hcv; lia. }
  assert (e' = e).
  { destruct Hwf as [_ Hd]. destruct (Hd e' e Hin' Hin ltac:(lia) ltac:(lia)) as [E|[H|H]]; auto; lia. }
  subst e'. exact Hu'.
Qed.

Lemma mgr_init_inv : forall c log, Inv c log (mgr_init c).
Proof.
  intros c log. constructor; simpl.
  - intros; constructor.
  - intros s e _ _ Hs H. destruct (Z.eqb_spec s SEQ); unfold SEQ in *; simpl in H; lia.
  - apply all_safe_nil.
Qed.

(* changes that do not touch boxes >= 0 or the trace *)
Lemma set_tracked_inv : forall c log m s, Inv c log m -> Inv c log (set_tracked m s).
Proof. intros c log m s HI. constructor; simpl; apply HI. Qed.
Lemma set_oof_inv : forall c log m, Inv c log m -> Inv c log (set_oof m).
Proof. intros c log m HI. constructor; simpl; apply HI. Qed.
Lemma add_cont_inv : forall c log m cid ids p, Inv c log m -> Inv c log (add_cont m cid ids p).
Proof. intros c log m cid ids p HI. constructor; simpl; apply HI. Qed.
Lemma set_box_seq_inv : forall c log m b, Inv c log m -> Inv c log (set_box m SEQ b).
Proof.
  intros c log m b HI. constructor; simpl.
  - intros s Hs. destruct (Z.eqb_spec s SEQ); [unfold SEQ in *; lia|]. apply (inv_pend _ _ _ HI); auto.
  - intros s e H1 H2 H3 H4. destruct (Z.eqb_spec s SEQ); [unfold SEQ in *; lia|]. apply (inv_cov _ _ _ HI); auto.
  - apply (inv_safe _ _ _ HI).
Qed.

(* ---------- a box apply segment ---------- *)
Definition dl (s : Z) (u : upd) : tev := if uid u <? 0 then Skip s (- uid u - 1) else Deliver s (uid u).
Lemma delivers_nonpersist : forall s (us : list upd),
  forallb (fun ev => negb (is_persist ev)) (map (dl s) us) = true.
Proof. induction us; simpl; auto. unfold dl at 1. destruct (uid a <? 0); simpl; auto. Qed.

Lemma box_upd_inv : forall c log m s u,
  wf_log log -> 0 <= s -> from_log log s u -> Inv c log m -> Inv c log (box_upd m s u).
Proof.
  intros c log m s u Hwf Hr0 Hfl HI. unfold box_upd.
  assert (Hpn : pend_nz (mbox m s)).
  { unfold pend_nz. eapply Forall_impl; [|apply (inv_pend _ _ _ HI s Hr0)].
    intros u0 Hu. eapply from_log_nz; eauto. }
  pose proof (handle_spec (mbox m s) u Hpn (from_log_nz _ _ _ Hwf Hr0 Hfl)) as HS.
  destruct (handle (mbox m s) u) as [b' evs]. destruct HS as [Hok Hpend].
  assert (Hp' : Forall (from_log log s) (bpending b')).
  { apply Hpend; auto. apply (inv_pend _ _ _ HI s Hr0). }
  destruct Hok as [[-> Hst]|(s' & us & -> & Hne & Hch & Hst & _ & Hall)].
  - (* nothing delivered, position unchanged *)
    destruct Hst as [Hst|(z & Hz & _)]; [|discriminate].
    constructor; simpl; rewrite ?app_nil_r.
    + intros s1 Hs1. destruct (Z.eqb_spec s1 s) as [->|]; auto. apply (inv_pend _ _ _ HI); auto.
    + intros s1 e1 H1 H2 H3 H4. destruct (Z.eqb_spec s1 s) as [->|].
      * rewrite Hst in H4. apply (inv_cov _ _ _ HI); auto.
      * apply (inv_cov _ _ _ HI); auto.
    + apply (inv_safe _ _ _ HI).
  - (* a chain is dispatched (markers skipped), then the new position is stored *)
    assert (Hus : Forall (from_log log s) us).
    { apply Hall; [apply (inv_pend _ _ _ HI s Hr0)|exact Hfl]. }
    assert (Hacc : forall e1, In e1 log -> eseq e1 = s -> base c s < epos e1 <= s' ->
                   accounted s e1 (mtr m ++ map (dl s) us)).
    { intros e1 H1 H2 H4. destruct (Z_le_gt_dec (epos e1) (bstate (mbox m s))).
      - apply accounted_app. apply (inv_cov _ _ _ HI); auto. lia.
      - destruct (chain_covers_log log s us _ _ e1 Hwf Hr0 Hus Hch H1 H2 ltac:(lia)) as (u0 & Hu & Hid).
        destruct Hwf as [Hw _]. destruct (Hw e1 H1 ltac:(lia)) as (_ & _ & _ & Hid0).
        destruct Hid as [->| ->].
        + left. apply in_or_app. right. rewrite in_map_iff. exists (upd_of e1). split; auto.
          unfold dl. simpl. destruct (Z.ltb_spec (eid e1) 0); [lia|reflexivity].
        + right. left. apply in_or_app. right. rewrite in_map_iff. exists (mark_of e1). split; auto.
          unfold dl. simpl. destruct (Z.ltb_spec (- eid e1 - 1) 0); [f_equal; lia|lia]. }
    assert (Hsafe1 : all_safe c log (mtr m ++ map (dl s) us)).
    { apply all_safe_nonpersist; [apply delivers_nonpersist|apply (inv_safe _ _ _ HI)]. }
    simpl evs_trace. rewrite app_nil_r. fold (dl s).
    constructor; simpl.
    + intros s1 Hs1. destruct (Z.eqb_spec s1 s) as [->|]; auto. apply (inv_pend _ _ _ HI); auto.
    + intros s1 e1 H1 H2 H3 H4. destruct (Z.eqb_spec s1 s) as [->|].
      * rewrite Hst in H4. rewrite app_assoc. apply accounted_app. apply Hacc; auto.
      * apply accounted_app. apply (inv_cov _ _ _ HI); auto.
    + destruct ((s =? 1) && (s' =? 0)).
      * rewrite app_nil_r. exact Hsafe1.
      * rewrite app_assoc. apply all_safe_persist; auto.
Qed.
Lemma box_item_inv : forall c log m e,
  wf_log log -> In e log -> 0 <= eseq e -> Inv c log m -> Inv c log (box_item m (eseq e) e).
Proof. intros. unfold box_item. apply box_upd_inv; auto. exists e. auto. Qed.

Lemma emit_nonpersist_inv : forall c log m x,
  forallb (fun ev => negb (is_persist ev)) x = true -> Inv c log m -> Inv c log (emit m x).
Proof.
  intros c log m x Hx HI. constructor; simpl.
  - apply (inv_pend _ _ _ HI).
  - intros. apply accounted_app. apply (inv_cov _ _ _ HI); auto.
  - apply all_safe_nonpersist; auto. apply (inv_safe _ _ _ HI).
Qed.

Lemma find_entry_in : forall log id e, In e (find_entry log id) -> In e log.
Proof.
  intros log id e H. unfold find_entry in H. destruct (find _ log) eqn:F; simpl in H; [|tauto].
  destruct H as [<-|[]]. apply find_some in F. tauto.
Qed.

(* ---------- differences ---------- *)
Lemma pend_in : forall log s from to e,
  In e (pend log s from to) <-> In e log /\ eseq e = s /\ from < epos e <= to.
Proof.
  intros. unfold pend. rewrite isort_in, filter_In.
  rewrite !andb_true_iff, Z.eqb_eq, Z.ltb_lt, Z.leb_le. tauto.
Qed.
Lemma delivers_in : forall es e, In e es -> In (Deliver (eseq e) (eid e)) (delivers es).
Proof. intros es e H. unfold delivers. rewrite in_map_iff. eauto. Qed.
Lemma delivers_nonpersist' : forall es, forallb (fun ev => negb (is_persist ev)) (delivers es) = true.
Proof. induction es; simpl; auto. Qed.
Lemma forallb_app' : forall A (f : A -> bool) a b, forallb f a = true -> forallb f b = true -> forallb f (a ++ b) = true.
Proof. intros. rewrite forallb_app, H, H0. reflexivity. Qed.

Lemma mtr_emit : forall m x, mtr (emit m x) = mtr m ++ x.
Proof. reflexivity. Qed.
Lemma mtr_set_state : forall m s v, mtr (set_state m s v) = mtr m.
Proof. reflexivity. Qed.
Lemma emit_emit : forall m a b, emit (emit m a) b = emit m (a ++ b).
Proof. intros. unfold emit; simpl. rewrite app_assoc. reflexivity. Qed.

Lemma emit_persist_inv : forall c log m s v,
  Inv c log m ->
  (forall e, In e log -> eseq e = s -> 0 <= s -> base c s < epos e <= v -> accounted s e (mtr m)) ->
  Inv c log (emit m [Persist s v]).
Proof.
  intros c log m s v HI Hc. constructor; simpl.
  - apply (inv_pend _ _ _ HI).
  - intros. apply accounted_app. apply (inv_cov _ _ _ HI); auto.
  - apply all_safe_persist; auto. apply (inv_safe _ _ _ HI).
Qed.

Lemma set_state_inv : forall c log m s v,
  Inv c log m ->
  (forall e, In e log -> eseq e = s -> 0 <= s -> base c s < epos e <= v -> accounted s e (mtr m)) ->
  Inv c log (set_state m s v).
Proof.
  intros c log m s v HI Hc. constructor; simpl.
  - intros s1 Hs1. destruct (Z.eqb_spec s1 s) as [->|]; simpl; apply (inv_pend _ _ _ HI); auto.
  - intros s1 e1 H1 H2 H3 H4. destruct (Z.eqb_spec s1 s) as [->|]; simpl in H4.
    + apply Hc; auto.
    + apply (inv_cov _ _ _ HI); auto.
  - apply (inv_safe _ _ _ HI).
Qed.

Lemma clear_gaps_inv : forall c log m s, Inv c log m -> Inv c log (clear_gaps m s).
Proof.
  intros c log m s HI. constructor; simpl.
  - intros s1 Hs1. destruct (Z.eqb_spec s1 s) as [->|]; simpl; apply (inv_pend _ _ _ HI); auto.
  - intros s1 e1 H1 H2 H3 H4. destruct (Z.eqb_spec s1 s) as [->|]; simpl in H4; apply (inv_cov _ _ _ HI); auto.
  - apply (inv_safe _ _ _ HI).
Qed.

Lemma toolong_inv : forall c log m s v,
  Inv c log m -> Inv c log (set_state (emit m [TooLong s (bstate (mbox m s)) v; Persist s v]) s v).
Proof.
  intros c log m s v HI.
  assert (H1 : Inv c log (emit m [TooLong s (bstate (mbox m s)) v])) by (apply emit_nonpersist_inv; auto).
  assert (Hacc : forall e, In e log -> eseq e = s -> 0 <= s -> base c s < epos e <= v ->
                           accounted s e (mtr (emit m [TooLong s (bstate (mbox m s)) v]))).
  { intros e A B C D. rewrite mtr_emit. destruct (Z_le_gt_dec (epos e) (bstate (mbox m s))).
    - apply accounted_app. apply (inv_cov _ _ _ HI); auto. lia.
    - right. right. exists (bstate (mbox m s)), v. split; [apply in_or_app; right; simpl; auto|lia]. }
  assert (H2 : Inv c log (emit (emit m [TooLong s (bstate (mbox m s)) v]) [Persist s v])) by (apply emit_persist_inv; auto).
  rewrite emit_emit in H2. simpl in H2.
  apply set_state_inv; auto. intros e A B C D. rewrite mtr_emit.
  replace (mtr m ++ [TooLong s (bstate (mbox m s)) v; Persist s v]) with ((mtr m ++ [TooLong s (bstate (mbox m s)) v]) ++ [Persist s v])
    by (rewrite <- app_assoc; reflexivity).
  apply accounted_app. rewrite <- mtr_emit. apply Hacc; auto.
Qed.

(* deliver every pending entry of sequence s up to cut, store cut, move the box to cut *)
Lemma diff_cov : forall c log m s cut D,
  Inv c log m ->
  (forall e, In e (pend log s (bstate (mbox m s)) cut) -> In (Deliver s (eid e)) D) ->
  forall e, In e log -> eseq e = s -> 0 <= s -> base c s < epos e <= cut -> accounted s e (mtr m ++ D).
Proof.
  intros c log m s cut D HI HD e H1 H2 H3 H4.
  destruct (Z_le_gt_dec (epos e) (bstate (mbox m s))).
  - apply accounted_app. apply (inv_cov _ _ _ HI); auto. lia.
  - left. apply in_or_app. right. apply HD. rewrite pend_in. repeat split; auto; lia.
Qed.

Lemma filter_split_in : forall A (f : A -> bool) l x, In x l -> In x (filter (fun e => negb (f e)) l) \/ In x (filter f l).
Proof.
  intros A f l x H. destruct (f x) eqn:E; [right|left]; rewrite filter_In; split; auto. rewrite E; auto.
Qed.

Lemma seq_cond : forall (P : Prop), 0 <= SEQ -> P.
Proof. unfold SEQ; intros; lia. Qed.

Lemma get_diff_inv : forall fuel c log vis m,
  wf_log log -> Inv c log m -> Inv c log (get_diff fuel c log vis m).
Proof.
  induction fuel as [|f IH]; intros c log vis m Hwf HI.
  - apply set_oof_inv; auto.
  - cbn [get_diff]. cbv zeta.
    set (m1 := clear_gaps (clear_gaps (clear_gaps m 0) 1) SEQ).
    assert (H1 : Inv c log m1) by (repeat apply clear_gaps_inv; exact HI).
    set (reqp := bstate (mbox m1 0)). set (reqq := bstate (mbox m1 1)).
    destruct (pend log 0 reqp (vis 0) ++ pend log 1 reqq (vis 1)) as [|e0 l0] eqn:Epq.
    { apply set_state_inv; auto. intros e _ _ H0. apply (seq_cond _ H0). }
    destruct (tlf c vis reqp).
    + apply IH; auto. apply toolong_inv; auto.
    + destruct (cutf c log vis reqp reqq) as [[cut cutq] sliced].
      set (pp' := pend log 0 reqp cut). set (qq := pend log 1 reqq cutq).
      set (D := delivers (filter (fun e => negb (is_msg e)) pp' ++ filter (fun e => negb (is_msg e)) qq)
                ++ delivers (filter is_msg pp' ++ filter is_msg qq)).
      assert (HD0 : forall e, In e pp' -> In (Deliver 0 (eid e)) D).
      { intros e He. assert (Hs : eseq e = 0) by (unfold pp' in He; rewrite pend_in in He; tauto).
        rewrite <- Hs. unfold D. apply in_or_app.
        destruct (filter_split_in _ is_msg pp' e He); [left|right]; apply delivers_in, in_or_app; auto. }
      assert (HD1 : forall e, In e qq -> In (Deliver 1 (eid e)) D).
      { intros e He. assert (Hs : eseq e = 1) by (unfold qq in He; rewrite pend_in in He; tauto).
        rewrite <- Hs. unfold D. apply in_or_app.
        destruct (filter_split_in _ is_msg qq e He); [left|right]; apply delivers_in, in_or_app; auto. }
      assert (H2 : Inv c log (emit m1 D)).
      { apply emit_nonpersist_inv; auto. unfold D. apply forallb_app'; apply delivers_nonpersist'. }
      assert (H3 : Inv c log (emit (emit m1 D) [Persist 0 cut])).
      { apply emit_persist_inv; auto. intros. rewrite mtr_emit. eapply (diff_cov c log m1 0 cut D); eauto. }
      assert (H4 : Inv c log (emit (emit (emit m1 D) [Persist 0 cut]) [Persist 1 cutq])).
      { apply emit_persist_inv; auto. intros. rewrite !mtr_emit. apply accounted_app.
        eapply (diff_cov c log m1 1 cutq D); eauto. }
      rewrite !emit_emit in H4.
      replace (D ++ [Persist 0 cut] ++ [Persist 1 cutq]) with
          (delivers (filter (fun e => negb (is_msg e)) pp' ++ filter (fun e => negb (is_msg e)) qq)
           ++ delivers (filter is_msg pp' ++ filter is_msg qq) ++ [Persist 0 cut; Persist 1 cutq]) in H4
        by (unfold D; rewrite <- app_assoc; reflexivity).
      match goal with |- Inv _ _ (if sliced then get_diff f c log vis ?M else ?M) => assert (H5 : Inv c log M) end.
      { assert (HA : forall s1 e, (forall e1, In e1 (pend log s1 (bstate (mbox m1 s1)) (if s1 =? 0 then cut else cutq)) -> In (Deliver s1 (eid e1)) D) ->
                 In e log -> eseq e = s1 -> 0 <= s1 -> base c s1 < epos e <= (if s1 =? 0 then cut else cutq) ->
                 accounted s1 e (mtr m1 ++ delivers (filter (fun e => negb (is_msg e)) pp' ++ filter (fun e => negb (is_msg e)) qq)
                                 ++ delivers (filter is_msg pp' ++ filter is_msg qq) ++ [Persist 0 cut; Persist 1 cutq])).
        { intros s1 e HDs Ha Hb Hc Hd.
          replace (mtr m1 ++ delivers (filter (fun e => negb (is_msg e)) pp' ++ filter (fun e => negb (is_msg e)) qq)
                   ++ delivers (filter is_msg pp' ++ filter is_msg qq) ++ [Persist 0 cut; Persist 1 cutq])
            with ((mtr m1 ++ D) ++ [Persist 0 cut; Persist 1 cutq])
            by (unfold D; rewrite <- !app_assoc; reflexivity).
          apply accounted_app. eapply diff_cov; eauto. }
        apply set_state_inv; [apply set_state_inv; [apply set_state_inv; [exact H4|]|]|].
        - intros e Ha Hb Hc Hd. rewrite mtr_emit. apply (HA 0 e); auto.
        - intros e Ha Hb Hc Hd. rewrite mtr_set_state, mtr_emit. apply (HA 1 e); auto.
        - intros e _ _ H0. apply (seq_cond _ H0). }
      destruct sliced; auto.
Qed.

Lemma chan_diff_inv : forall fuel c log vis s m,
  wf_log log -> Inv c log m -> Inv c log (chan_diff fuel c log vis s m).
Proof.
  induction fuel as [|f IH]; intros c log vis s m Hwf HI.
  - apply set_oof_inv; auto.
  - cbn [chan_diff]. cbv zeta.
    set (m1 := clear_gaps m s).
    assert (H1 : Inv c log m1) by (apply clear_gaps_inv, HI).
    set (req := bstate (mbox m1 s)).
    destruct (pend log s req (vis s)) as [|e0 l0] eqn:Ep.
    + (* empty: no entry in (req, vis s] *)
      assert (Hc : forall e, In e log -> eseq e = s -> 0 <= s -> base c s < epos e <= vis s -> accounted s e (mtr m1)).
      { intros e H2 H3 H4 H5. apply (inv_cov _ _ _ H1); auto.
        destruct (Z_le_gt_dec (epos e) req); [lia|].
        assert (In e (pend log s req (vis s))) by (rewrite pend_in; repeat split; auto; lia).
        rewrite Ep in H. destruct H. }
      apply set_state_inv; [apply emit_persist_inv; auto|].
      intros. simpl. apply accounted_app. apply Hc; auto.
    + rewrite <- Ep. clear Ep.
      destruct (ctlf c s (vis s) req).
      * apply toolong_inv; auto.
      * destruct (ccutf c s (pend log s req (vis s)) (vis s)) as [cut sliced].
        set (pp' := pend log s req cut).
        set (D := delivers (filter (fun e => negb (is_msg e)) pp') ++ delivers (filter is_msg pp')).
        assert (HD : forall e, In e pp' -> In (Deliver s (eid e)) D).
        { intros e He. assert (Hs : eseq e = s) by (unfold pp' in He; rewrite pend_in in He; tauto).
          rewrite <- Hs. unfold D. apply in_or_app.
          destruct (filter_split_in _ is_msg pp' e He); [left|right]; apply delivers_in; auto. }
        assert (H2 : Inv c log (emit m1 D)).
        { apply emit_nonpersist_inv; auto. unfold D. apply forallb_app'; apply delivers_nonpersist'. }
        assert (H3 : Inv c log (emit (emit m1 D) [Persist s cut])).
        { apply emit_persist_inv; auto. intros. rewrite mtr_emit. eapply (diff_cov c log m1 s cut D); eauto. }
        rewrite emit_emit in H3.
        replace (D ++ [Persist s cut]) with
            (delivers (filter (fun e => negb (is_msg e)) pp') ++ delivers (filter is_msg pp') ++ [Persist s cut]) in H3
          by (unfold D; rewrite <- app_assoc; reflexivity).
        match goal with |- Inv _ _ (if sliced then chan_diff f c log vis s ?M else ?M) => assert (H5 : Inv c log M) end.
        { apply set_state_inv; [exact H3|].
          intros e Ha Hb Hc Hd. rewrite mtr_emit.
          replace (mtr m1 ++ delivers (filter (fun e => negb (is_msg e)) pp') ++ delivers (filter is_msg pp') ++ [Persist s cut])
            with ((mtr m1 ++ D) ++ [Persist s cut]) by (unfold D; rewrite <- !app_assoc; reflexivity).
          apply accounted_app. eapply diff_cov; eauto. }
        destruct sliced; auto.
Qed.

Lemma push_item_inv : forall c log vis m e,
  wf_log log -> In e log -> Inv c log m -> Inv c log (push_item c log vis m e).
Proof.
  intros c log vis m e Hwf Hin HI. unfold push_item.
  destruct ((0 <=? eseq e) && (eseq e <? nseq c)) eqn:Hrange; [|exact HI].
  apply andb_prop in Hrange. destruct Hrange as [Hr0 _]. apply Z.leb_le in Hr0.
  destruct ((eseq e <? 2) || mtracked m (eseq e)).
  - apply box_item_inv; auto.
  - destruct (dormant c (eseq e)).
    { apply box_item_inv; auto. apply chan_diff_inv; auto. apply set_tracked_inv; auto. }
    destruct (ustart (upd_of e) =? base c (eseq e)); [|exact HI].
    apply box_item_inv; auto. apply chan_diff_inv; auto. apply set_tracked_inv.
    apply emit_persist_inv; auto. intros; lia.
Qed.

Lemma push_inv : forall c log vis m ids, wf_log log -> Inv c log m -> Inv c log (push c log vis m ids).
Proof.
  intros c log vis m ids Hwf HI. unfold push.
  set (items := isort route_key (flat_map (find_entry log) ids)).
  assert (Hitems : forall e, In e items -> In e log).
  { intros e He. unfold items in He. rewrite isort_in in He. rewrite in_flat_map in He.
    destruct He as (id & _ & He). eapply find_entry_in; eauto. }
  apply emit_nonpersist_inv.
  - induction (filter (fun e => eseq e <? 0) items); simpl; auto.
  - clearbody items. revert m HI. induction items as [|e t IH]; intros m HI; simpl; auto.
    apply IH.
    + intros; apply Hitems; simpl; auto.
    + apply push_item_inv; auto. apply Hitems; simpl; auto.
Qed.

Lemma pushc_apply_inv : forall c log vis m cid sq ids p,
  wf_log log -> Inv c log m -> Inv c log (fst (fst (pushc_apply c log vis m cid sq ids p))).
Proof.
  intros c log vis m cid sq ids p Hwf HI. unfold pushc_apply.
  destruct (sq =? 0); [simpl; apply push_inv; auto|].
  destruct (handle _ _) as [sb evs]. simpl.
  assert (H0 : Inv c log (add_cont m cid ids p)) by (apply add_cont_inv; auto).
  revert H0. generalize (add_cont m cid ids p). induction (dlv_upds evs) as [|u t IHl]; intros m0 H0; simpl; auto.
  apply IHl. apply push_inv; auto.
Qed.

Lemma affected_inv : forall c log m e, wf_log log -> In e log -> Inv c log m -> Inv c log (affected c m e).
Proof.
  intros c log m e Hwf Hin HI. unfold affected.
  destruct ((eseq e =? 0) || ((2 <=? eseq e) && (eseq e <? nseq c) && mtracked m (eseq e))) eqn:E; auto.
  assert (0 <= eseq e).
  { apply orb_true_iff in E. destruct E as [E|E]; [apply Z.eqb_eq in E; lia|].
    rewrite !andb_true_iff, Z.leb_le in E. lia. }
  apply box_upd_inv; auto. exists e. auto.
Qed.

Lemma mstep_inv : forall c log m o, wf_log log -> Inv c log m -> Inv c log (mstep c log m o).
Proof.
  intros c log m o Hwf HI. destruct o; cbn [mstep].
  - pose proof (pushc_apply_inv c log vis m cid sq ids p Hwf HI) as H.
    destruct (pushc_apply c log vis m cid sq ids p) as [[m1 rc] sb]. simpl in H.
    assert (H2 : Inv c log (if rc then get_diff (fuel_of log) c log vis m1 else m1)).
    { destruct rc; auto. apply get_diff_inv; auto. }
    destruct sb; auto. apply set_box_seq_inv; auto.
  - apply get_diff_inv; auto.
  - destruct (_ && _); auto. apply chan_diff_inv; auto.
  - apply get_diff_inv; auto.
  - destruct (_ && _); auto. apply chan_diff_inv; auto.
  - assert (H : Inv c log (get_diff (fuel_of log) c log vis m)) by (apply get_diff_inv; auto).
    revert H. generalize (get_diff (fuel_of log) c log vis m). induction (filter (tracked0 c) (chan_seqs c)); intros m0 H0; cbn [fold_left]; auto.
    apply IHl. apply chan_diff_inv; auto.
  - repeat apply clear_gaps_inv. exact HI.
  - destruct (_ && _); auto. apply clear_gaps_inv; auto.
  - assert (Hl : forall e, In e (find_entry log id) -> In e log) by (intros; eapply find_entry_in; eauto).
    revert m HI. induction (find_entry log id) as [|e t IHl]; intros m HI; simpl; auto.
    apply IHl; [intros; apply Hl; simpl; auto|]. apply affected_inv; auto. apply Hl; simpl; auto.
Qed.

Lemma mrun_from_inv : forall c log ops m, wf_log log -> Inv c log m -> Inv c log (fold_left (mstep c log) ops m).
Proof.
  intros c log ops. induction ops as [|o t IH]; intros m Hwf HI; simpl; auto.
  apply IH; auto. apply mstep_inv; auto.
Qed.
Lemma mrun_inv : forall c log ops, wf_log log -> Inv c log (mrun c log ops).
Proof. intros. apply mrun_from_inv; auto. apply mgr_init_inv. Qed.

(* ---------- what is assumed of the server's policy ---------- *)
(* final answers bring the client to the horizon; cuts lie between the request and the
   horizon; a non-final answer makes progress; too long is not answered to a client that is
   already at the horizon, nor after it was refused for a lower request *)
Record server_ok (c : config) : Prop := {
  cut_final : forall log vis rp rq a b, cutf c log vis rp rq = (a, b, false) -> a = vis 0 /\ b = vis 1;
  cut_bounds : forall log vis rp rq a b sl, rp <= vis 0 -> rq <= vis 1 -> cutf c log vis rp rq = (a, b, sl) ->
               rp <= a <= vis 0 /\ rq <= b <= vis 1;
  cut_progress : forall log vis rp rq a b, cutf c log vis rp rq = (a, b, true) ->
               rp <= a /\ rq <= b /\
               (length (pend log 0%Z a (vis 0%Z)) + length (pend log 1%Z b (vis 1%Z)) <
                length (pend log 0%Z rp (vis 0%Z)) + length (pend log 1%Z rq (vis 1%Z)))%nat;
  tl_horizon : forall vis, tlf c vis (vis 0) = false;
  tl_mono : forall vis rp a, tlf c vis rp = false -> rp <= a -> tlf c vis a = false;
  ccut_final : forall s pp v a, ccutf c s pp v = (a, false) -> a = v;
  ccut_bounds : forall log s req v a sl, req <= v -> ccutf c s (pend log s req v) v = (a, sl) -> req <= a <= v;
  ccut_progress : forall log s req v a, ccutf c s (pend log s req v) v = (a, true) ->
               (length (pend log s a v) < length (pend log s req v))%nat
}.

(* ---------- a completed recovery leaves nothing pending ---------- *)
Lemma pend_same_nil : forall log s v, pend log s v v = [].
Proof.
  intros. destruct (pend log s v v) as [|e l] eqn:E; auto.
  assert (H : In e (pend log s v v)) by (rewrite E; left; auto).
  rewrite pend_in in H. lia.
Qed.
Lemma slice_cut_final : forall lim pp vis cut, slice_cut lim pp vis = (cut, false) -> cut = vis.
Proof.
  intros lim pp vis cut H. unfold slice_cut in H.
  destruct ((0 <? lim) && (lim <? Z.of_nat (length pp))); inversion H; auto.
Qed.
Lemma slice_cut2_final : forall lim log vis rp rq cut cutq,
  slice_cut2 lim log vis rp rq = (cut, cutq, false) -> cut = vis 0 /\ cutq = vis 1.
Proof.
  intros lim log vis rp rq cut cutq H. unfold slice_cut2 in H.
  destruct ((0 <? lim) && _); inversion H; auto.
Qed.

Lemma get_diff_drained : forall fuel c log vis m,
  server_ok c ->
  moof (get_diff fuel c log vis m) = false ->
  pend log 0 (bstate (mbox (get_diff fuel c log vis m) 0)) (vis 0) ++
  pend log 1 (bstate (mbox (get_diff fuel c log vis m) 1)) (vis 1) = [].
Proof.
  induction fuel as [|f IH]; intros c log vis m Hok.
  - simpl. discriminate.
  - cbn [get_diff]. cbv zeta.
    set (m1 := clear_gaps (clear_gaps (clear_gaps m 0) 1) SEQ).
    set (reqp := bstate (mbox m1 0)). set (reqq := bstate (mbox m1 1)).
    destruct (pend log 0 reqp (vis 0) ++ pend log 1 reqq (vis 1)) as [|e0 l0] eqn:Epq.
    { intros _. rewrite !bstate_set_state. change (0 =? SEQ) with false. change (1 =? SEQ) with false. exact Epq. }
    destruct (tlf c vis reqp); [apply IH; auto|].
    destruct (cutf c log vis reqp reqq) as [[cut cutq] sliced] eqn:Ec.
    destruct sliced; [apply IH; auto|].
    intros _. apply (cut_final c Hok) in Ec. destruct Ec as [-> ->]. rewrite !bstate_set_state, !mbox_emit.
    change (0 =? SEQ) with false. change (1 =? SEQ) with false. change (0 =? 1) with false.
    change (1 =? 1) with true. change (0 =? 0) with true. cbv iota.
    rewrite !pend_same_nil. reflexivity.
Qed.

Lemma chan_diff_drained : forall fuel c log vis s m,
  server_ok c ->
  moof (chan_diff fuel c log vis s m) = false ->
  pend log s (bstate (mbox (chan_diff fuel c log vis s m) s)) (vis s) = [].
Proof.
  induction fuel as [|f IH]; intros c log vis s m Hok.
  - simpl. discriminate.
  - cbn [chan_diff]. cbv zeta.
    set (m1 := clear_gaps m s). set (req := bstate (mbox m1 s)).
    destruct (pend log s req (vis s)) as [|e0 l0] eqn:Ep.
    + intros _. simpl. rewrite Z.eqb_refl. simpl. apply pend_same_nil.
    + rewrite <- Ep. clear Ep.
      destruct (ctlf c s (vis s) req).
      * intros _. simpl. rewrite Z.eqb_refl. simpl. apply pend_same_nil.
      * destruct (ccutf c s (pend log s req (vis s)) (vis s)) as [cut sliced] eqn:Ec.
        destruct sliced; [apply IH; auto|].
        intros _. apply (ccut_final c Hok) in Ec. subst cut. simpl. rewrite Z.eqb_refl. simpl. apply pend_same_nil.
Qed.

Lemma drained_cov : forall c log m s v e,
  Inv c log m -> pend log s (bstate (mbox m s)) v = [] ->
  In e log -> eseq e = s -> 0 <= s -> base c s < epos e <= v -> accounted s e (mtr m).
Proof.
  intros c log m s v e HI Hp H1 H2 H3 H4.
  apply (inv_cov _ _ _ HI); auto.
  destruct (Z_le_gt_dec (epos e) (bstate (mbox m s))); [lia|].
  assert (H : In e (pend log s (bstate (mbox m s)) v)) by (rewrite pend_in; repeat split; auto; lia).
  rewrite Hp in H. destruct H.
Qed.

Lemma mrun_snoc : forall c log ops o, mrun c log (ops ++ [o]) = mstep c log (mrun c log ops) o.
Proof. intros. unfold mrun. rewrite fold_left_app. reflexivity. Qed.

(* C02, common sequences: after a completed getDifference at horizon vis every log entry of
   pts / qts up to vis has reached the handler or was reported too long *)
Theorem no_loss_common : forall c log ops vis,
  wf_log log -> server_ok c ->
  let m := mrun c log (ops ++ [MTooLong vis]) in
  moof m = false ->
  forall s e, (s = 0 \/ s = 1) -> In e log -> eseq e = s -> base c s < epos e <= vis s -> accounted s e (mtr m).
Proof.
  intros c log ops vis Hwf Hok m Hf s e Hs H1 H2 H4.
  assert (HI : Inv c log m) by (apply mrun_inv; auto).
  unfold m in *. rewrite mrun_snoc in *. cbn [mstep] in *.
  pose proof (get_diff_drained _ _ _ _ _ Hok Hf) as Hd. apply app_eq_nil in Hd. destruct Hd as [Hd0 Hd1].
  destruct Hs as [->| ->]; eapply drained_cov; eauto; lia.
Qed.

(* C02, channels *)
Theorem no_loss_channel : forall c log ops vis s,
  wf_log log -> server_ok c -> 2 <= s < nseq c -> mtracked (mrun c log ops) s = true ->
  let m := mrun c log (ops ++ [MChanTooLong vis s]) in
  moof m = false ->
  forall e, In e log -> eseq e = s -> base c s < epos e <= vis s -> accounted s e (mtr m).
Proof.
  intros c log ops vis s Hwf Hok Hs Htr m Hf e H1 H2 H4.
  assert (HI : Inv c log m) by (apply mrun_inv; auto).
  unfold m in *. rewrite mrun_snoc in *. cbn [mstep] in *.
  assert (E : (2 <=? s) && (s <? nseq c) && mtracked (mrun c log ops) s = true)
    by (rewrite Htr, !andb_true_iff, Z.leb_le, Z.ltb_lt; repeat split; auto; lia).
  rewrite E in *.
  pose proof (chan_diff_drained _ _ _ _ _ _ Hok Hf) as Hd.
  eapply drained_cov; eauto; lia.
Qed.

(* C02, push path alone (no recovery needed): whatever the box position has moved past
   has been delivered *)
Theorem no_loss_position : forall c log ops s e,
  wf_log log -> In e log -> eseq e = s -> 0 <= s ->
  base c s < epos e <= bstate (mbox (mrun c log ops) s) -> accounted s e (mtr (mrun c log ops)).
Proof. intros. apply (inv_cov c log _ (mrun_inv c log ops H)); auto. Qed.

(* C03: every prefix of every reachable trace is safe *)
Theorem prefix_safe : forall c log ops pre post,
  wf_log log -> mtr (mrun c log ops) = pre ++ post -> safe_at c log pre.
Proof. intros c log ops pre post Hwf E. eapply (inv_safe c log _ (mrun_inv c log ops Hwf)); eauto. Qed.

(* C03 restart: crash after any prefix, restart from the persisted positions of that prefix,
   recover: both runs together account for the whole log up to the horizon *)
Definition rebase (c : config) (b : Z -> Z) : config :=
  {| nseq := nseq c; base := b; tracked0 := tracked0 c; dormant := dormant c; cutf := cutf c; tlf := tlf c; ccutf := ccutf c; ctlf := ctlf c |}.
Lemma rebase_ok : forall c b, server_ok c -> server_ok (rebase c b).
Proof. intros c b H. constructor; simpl; apply H. Qed.

Theorem restart_common : forall c log ops pre post ops2 vis,
  wf_log log -> server_ok c -> mtr (mrun c log ops) = pre ++ post ->
  let c2 := rebase c (fun s => persisted c s pre) in
  let m2 := mrun c2 log (ops2 ++ [MTooLong vis]) in
  moof m2 = false ->
  forall s e, (s = 0 \/ s = 1) -> In e log -> eseq e = s -> base c s < epos e <= vis s ->
              accounted s e pre \/ accounted s e (mtr m2).
Proof.
  intros c log ops pre post ops2 vis Hwf Hok E c2 m2 Hf s e Hs H1 H2 H4.
  destruct (Z_le_gt_dec (epos e) (persisted c s pre)).
  - left. eapply prefix_safe; eauto; lia.
  - right. apply (no_loss_common c2 log ops2 vis Hwf (rebase_ok _ _ Hok) Hf s e Hs H1 H2). simpl. lia.
Qed.

Theorem restart_channel : forall c log ops pre post ops2 vis s,
  wf_log log -> server_ok c -> 2 <= s < nseq c -> mtr (mrun c log ops) = pre ++ post ->
  let c2 := rebase c (fun s => persisted c s pre) in
  mtracked (mrun c2 log ops2) s = true ->
  let m2 := mrun c2 log (ops2 ++ [MChanTooLong vis s]) in
  moof m2 = false ->
  forall e, In e log -> eseq e = s -> base c s < epos e <= vis s ->
            accounted s e pre \/ accounted s e (mtr m2).
Proof.
  intros c log ops pre post ops2 vis s Hwf Hok Hs E c2 Htr m2 Hf e H1 H2 H4.
  destruct (Z_le_gt_dec (epos e) (persisted c s pre)).
  - left. eapply prefix_safe; eauto; lia.
  - right. apply (no_loss_channel c2 log ops2 vis s Hwf (rebase_ok _ _ Hok) Hs Htr Hf e H1 H2). simpl. lia.
Qed.

(* ---------- manager-level at most once (C01 at the handler) ---------- *)
Definition op_vis (o : mop) : Z -> Z :=
  match o with MPushC v _ _ _ _ | MTooLong v | MChanTooLong v _ | MTimerCommon v | MTimerChan v _ | MStartup v
                | MFailCommon v | MFailChan v _ | MAffected v _ => v end.
(* a container that triggers a recovery (updatePtsChanged) does so with positions not beyond the horizon *)
Definition mid_ok (c : config) (log : list entry) (m : mgr) (o : mop) : Prop :=
  match o with
  | MPushC vis cid sq ids p =>
    snd (fst (pushc_apply c log vis m cid sq ids p)) = true ->
    bstate (mbox (fst (fst (pushc_apply c log vis m cid sq ids p))) 0) <= vis 0 /\
    bstate (mbox (fst (fst (pushc_apply c log vis m cid sq ids p))) 1) <= vis 1
  | _ => True
  end.
(* the server's horizon is never behind the client's position *)
Fixpoint vis_ok (c : config) (log : list entry) (m : mgr) (ops : list mop) : Prop :=
  match ops with
  | [] => True
  | o :: t => (forall s, 0 <= s < Z.max 2 (nseq c) -> bstate (mbox m s) <= op_vis o s) /\ mid_ok c log m o /\
              vis_ok c log (mstep c log m o) t
  end.

Record Inv2 (log : list entry) (m : mgr) : Prop := {
  inv2_old : forall s id, 0 <= s -> In (Deliver s id) (mtr m) ->
                          exists e, In e log /\ eid e = id /\ eseq e = s /\ epos e <= bstate (mbox m s);
  inv2_nodup : NoDup (seq_delivers (mtr m))
}.

Lemma seq_delivers_app : forall a b, seq_delivers (a ++ b) = seq_delivers a ++ seq_delivers b.
Proof. intros; unfold seq_delivers; apply flat_map_app. Qed.
Lemma in_seq_delivers : forall tr s id, In (s, id) (seq_delivers tr) <-> 0 <= s /\ In (Deliver s id) tr.
Proof.
  intros tr s id. unfold seq_delivers. rewrite in_flat_map. split.
  - intros (ev & Hin & H). destruct ev; simpl in H; try tauto.
    destruct (Z.leb_spec 0 s0); simpl in H; [|tauto]. destruct H as [H|[]]. inversion H; subst. auto.
  - intros [Hs Hin]. exists (Deliver s id). split; auto. simpl.
    destruct (Z.leb_spec 0 s); [left; auto|lia].
Qed.

Lemma eid_inj : forall log e1 e2, NoDup (map eid log) -> In e1 log -> In e2 log -> eid e1 = eid e2 -> e1 = e2.
Proof.
  induction log as [|a t IH]; intros e1 e2 Hn H1 H2 E; [destruct H1|].
  simpl in Hn. inversion Hn as [|? ? Hna Hnt]; subst.
  destruct H1 as [<-|H1], H2 as [<-|H2]; auto.
  - exfalso. apply Hna. rewrite E. apply in_map; auto.
  - exfalso. apply Hna. rewrite <- E. apply in_map; auto.
Qed.

Lemma NoDup_map_eid : forall log l, NoDup (map eid log) -> NoDup l -> incl l log -> NoDup (map eid l).
Proof.
  intros log l Hn Hl Hi. induction l as [|a t IH]; simpl; [constructor|].
  inversion Hl; subst. constructor.
  - rewrite in_map_iff. intros (b & E & Hb). assert (b = a).
    { eapply eid_inj; eauto; apply Hi; simpl; auto. }
    subst; contradiction.
  - apply IH; auto. intros x Hx; apply Hi; simpl; auto.
Qed.

Lemma NoDup_app_intro : forall A (a b : list A),
  NoDup a -> NoDup b -> (forall x, In x a -> ~ In x b) -> NoDup (a ++ b).
Proof.
  induction a as [|x t IH]; intros b Ha Hb Hd; simpl; auto.
  inversion Ha; subst. constructor.
  - rewrite in_app_iff. intros [H|H]; [contradiction|]. apply (Hd x); simpl; auto.
  - apply IH; auto. intros y Hy. apply Hd; simpl; auto.
Qed.

(* appending fresh deliveries keeps the trace duplicate-free *)
Lemma nodup_append : forall log m X,
  NoDup (map eid log) -> Inv2 log m -> NoDup (seq_delivers X) ->
  (forall s id, In (s, id) (seq_delivers X) ->
                exists e, In e log /\ eid e = id /\ eseq e = s /\ bstate (mbox m s) < epos e) ->
  NoDup (seq_delivers (mtr m ++ X)).
Proof.
  intros log m X Hu HI Hx Hf. rewrite seq_delivers_app.
  apply NoDup_app_intro; [apply (inv2_nodup _ _ HI)|auto|].
  intros [s id] H1 H2. apply in_seq_delivers in H1. destruct H1 as [Hs H1].
  destruct (inv2_old _ _ HI s id Hs H1) as (e1 & A1 & A2 & A3 & A4).
  destruct (Hf s id H2) as (e2 & B1 & B2 & B3 & B4).
  assert (e1 = e2) by (eapply eid_inj; eauto; congruence). subst. lia.
Qed.

Lemma inv2_step : forall log m m' X,
  NoDup (map eid log) -> Inv2 log m ->
  (forall s, 0 <= s -> bstate (mbox m s) <= bstate (mbox m' s)) ->
  mtr m' = mtr m ++ X -> NoDup (seq_delivers X) ->
  (forall s id, In (s, id) (seq_delivers X) ->
     exists e, In e log /\ eid e = id /\ eseq e = s /\ bstate (mbox m s) < epos e <= bstate (mbox m' s)) ->
  Inv2 log m'.
Proof.
  intros log m m' X Hu HI Hmono Etr Hx Hf. constructor.
  - intros s id Hs Hin. rewrite Etr in Hin. apply in_app_or in Hin. destruct Hin as [Hin|Hin].
    + destruct (inv2_old _ _ HI s id Hs Hin) as (e & A1 & A2 & A3 & A4).
      exists e. repeat split; auto. specialize (Hmono s Hs). lia.
    + destruct (Hf s id) as (e & A1 & A2 & A3 & A4); [apply in_seq_delivers; auto|].
      exists e. repeat split; auto. lia.
  - rewrite Etr. apply (nodup_append log m X); auto.
    intros s id H. destruct (Hf s id H) as (e & A1 & A2 & A3 & A4). exists e. repeat split; auto. lia.
Qed.

Lemma seq_delivers_nondeliver : forall X, forallb (fun ev => match ev with Deliver _ _ => false | _ => true end) X = true ->
  seq_delivers X = [].
Proof.
  induction X as [|ev t IH]; simpl; auto. intros H. apply andb_prop in H. destruct H as [H1 H2].
  destruct ev; try discriminate; simpl; auto.
Qed.

(* chains of log entries / markers: the dispatched ones have pairwise distinct ids *)
Definition dpairs (s : Z) (us : list upd) : list (Z * Z) :=
  flat_map (fun u => if uid u <? 0 then [] else [(s, uid u)]) us.
Lemma chain_ids : forall log s us st st',
  wf_log log -> NoDup (map eid log) -> 0 <= s -> Forall (from_log log s) us -> chain st us st' ->
  NoDup (dpairs s us) /\ st <= st' /\
  forall id, In (s, id) (dpairs s us) -> exists e, In e log /\ eid e = id /\ eseq e = s /\ st < epos e <= st'.
Proof.
  intros log s us. induction us as [|u t IH]; intros st st' Hwf Hu Hs Hf Hc; simpl in *.
  - subst. split; [constructor|]. split; [lia|]. intros id [].
  - inversion Hf as [|? ? Hfu Hft]; subst. destruct Hc as [Ha Hb].
    destruct (IH _ _ Hwf Hu Hs Hft Hb) as (N & M & B).
    destruct Hfu as (e & He1 & He2 & Hue).
    destruct (upd_of_cnt log e Hwf He1 ltac:(lia)) as [C1 C2].
    assert (Hw : 0 <= eid e) by (destruct Hwf as [Hw _]; destruct (Hw e He1 ltac:(lia)) as (_ & _ & _ & H); exact H).
    assert (Hpos : ustart u = epos e - ecnt e /\ uend u = epos e).
    { destruct Hue as [->| ->]; unfold ustart, uend; simpl in *; rewrite C1; auto. }
    destruct Hpos as [Hp1 Hp2]. rewrite Hp1 in Ha. rewrite Hp2 in *.
    split; [|split; [lia|]].
    + destruct Hue as [->| ->]; simpl.
      * destruct (Z.ltb_spec (eid e) 0); [lia|]. simpl. constructor; auto. intros Hin.
        destruct (B _ Hin) as (e' & D1 & D2 & D3 & D4).
        assert (e' = e) by (eapply eid_inj; eauto). subst. lia.
      * destruct (Z.ltb_spec (- eid e - 1) 0); [|lia]. simpl. exact N.
    + intros id Hin. apply in_app_or in Hin. destruct Hin as [Hin|Hin].
      * destruct Hue as [->| ->]; simpl in Hin.
        -- destruct (Z.ltb_spec (eid e) 0); simpl in Hin; [destruct Hin|]. destruct Hin as [E|[]]. inversion E; subst.
           exists e. repeat split; auto; lia.
        -- destruct (Z.ltb_spec (- eid e - 1) 0); simpl in Hin; [destruct Hin|lia].
      * destruct (B _ Hin) as (e' & D1 & D2 & D3 & D4). exists e'. repeat split; auto; lia.
Qed.

Lemma filter_perm : forall A (f : A -> bool) l, Permutation (filter (fun e => negb (f e)) l ++ filter f l) l.
Proof.
  induction l as [|a t IH]; simpl; auto.
  destruct (f a); simpl.
  - apply Permutation_sym. apply Permutation_cons_app. apply Permutation_sym. exact IH.
  - apply perm_skip. exact IH.
Qed.
Lemma seq_delivers_delivers : forall L, (forall e, In e L -> 0 <= eseq e) ->
  seq_delivers (delivers L) = map (fun e => (eseq e, eid e)) L.
Proof.
  induction L as [|a t IH]; intros H; simpl; auto.
  destruct (Z.leb_spec 0 (eseq a)); [|specialize (H a (or_introl eq_refl)); lia].
  simpl. f_equal. apply IH. intros; apply H; simpl; auto.
Qed.
Lemma nodup_pairs : forall L, NoDup (map eid L) -> NoDup (map (fun e => (eseq e, eid e)) L).
Proof.
  induction L as [|a t IH]; simpl; intros H; [constructor|]. inversion H; subst. constructor; auto.
  rewrite in_map_iff. intros (b & E & Hb). inversion E. apply H2. rewrite in_map_iff. eauto.
Qed.
Lemma NoDup_of_ids : forall log, NoDup (map eid log) -> NoDup log.
Proof. intros. eapply NoDup_map_inv; eauto. Qed.
Lemma pend_nodup : forall log s a b, NoDup log -> NoDup (pend log s a b).
Proof.
  intros. unfold pend. eapply Permutation_NoDup; [apply Permutation_sym, isort_perm|]. apply NoDup_filter; auto.
Qed.

(* the entries handed over by one difference of sequences sa (up to cut) [and sb (up to vb)] *)
Lemma diff_batch_fresh : forall log m L X,
  NoDup (map eid log) -> NoDup L ->
  (forall e, In e L -> In e log /\ 0 <= eseq e /\ bstate (mbox m (eseq e)) < epos e) ->
  seq_delivers X = map (fun e => (eseq e, eid e)) L ->
  NoDup (seq_delivers X) /\
  (forall s id, In (s, id) (seq_delivers X) -> exists e, In e L /\ In e log /\ eid e = id /\ eseq e = s /\ bstate (mbox m s) < epos e).
Proof.
  intros log m L X Hu HL HLp E. rewrite E. split.
  - apply nodup_pairs. apply (NoDup_map_eid log); auto. intros e He. apply HLp; auto.
  - intros s id Hi. rewrite in_map_iff in Hi. destruct Hi as (e & Ee & He). inversion Ee; subst.
    exists e. destruct (HLp e He) as (A & B & C). repeat split; auto.
Qed.

Lemma bstate_clear_gaps : forall m s s1, bstate (mbox (clear_gaps m s) s1) = bstate (mbox m s1).
Proof. intros. unfold clear_gaps, set_box. simpl. destruct (s1 =? s) eqn:E; [apply Z.eqb_eq in E; subst|]; reflexivity. Qed.

Lemma max_pos_bounds : forall s l d hi,
  d <= hi -> (forall e, In e l -> eseq e = s -> epos e <= hi) -> d <= max_pos s d l <= hi.
Proof.
  unfold max_pos. induction l as [|a t IH]; intros d hi Hd Hl; simpl; [lia|].
  destruct (Z.eqb_spec (eseq a) s).
  - assert (epos a <= hi) by (apply Hl; simpl; auto).
    assert (Z.max d (epos a) <= fold_left (fun acc e => if eseq e =? s then Z.max acc (epos e) else acc) t (Z.max d (epos a)) <= hi); [|lia].
    apply IH; [lia|]. intros; apply Hl; simpl; auto.
  - apply IH; auto. intros; apply Hl; simpl; auto.
Qed.
Lemma firstn_In' : forall A n (l : list A) x, In x (firstn n l) -> In x l.
Proof. induction n; intros l x H; simpl in H; [destruct H|]. destruct l; simpl in *; [destruct H|]. destruct H; auto. Qed.
Lemma slice_cut2_bounds : forall lim log vis rp rq cut cutq sl,
  rp <= vis 0 -> rq <= vis 1 -> slice_cut2 lim log vis rp rq = (cut, cutq, sl) ->
  rp <= cut <= vis 0 /\ rq <= cutq <= vis 1.
Proof.
  intros lim log vis rp rq cut cutq sl H0 H1 H. unfold slice_cut2 in H.
  destruct ((0 <? lim) && _); inversion H; subst; [|lia].
  assert (Hin : forall e, In e (firstn (Z.to_nat lim) (filter (in_range vis rp rq) log)) -> in_range vis rp rq e = true).
  { intros e He. apply firstn_In' in He. rewrite filter_In in He. tauto. }
  split; apply max_pos_bounds; auto; intros e He Hs; specialize (Hin e He); unfold in_range in Hin;
    rewrite Hs in Hin; simpl in Hin; rewrite ?orb_true_iff, ?andb_true_iff in Hin;
    rewrite ?Z.ltb_lt, ?Z.leb_le in Hin; intuition (try discriminate; lia).
Qed.

Lemma get_diff_inv2 : forall fuel c log vis m,
  wf_log log -> NoDup (map eid log) -> server_ok c -> Inv2 log m ->
  bstate (mbox m 0) <= vis 0 -> bstate (mbox m 1) <= vis 1 ->
  Inv2 log (get_diff fuel c log vis m).
Proof.
  induction fuel as [|f IH]; intros c log vis m Hwf Hu Hok H2 Hv0 Hv1.
  - constructor; simpl; apply H2.
  - cbn [get_diff]. cbv zeta.
    set (m1 := clear_gaps (clear_gaps (clear_gaps m 0) 1) SEQ).
    assert (Hb : forall s, bstate (mbox m1 s) = bstate (mbox m s)).
    { intros s. unfold m1. rewrite !bstate_clear_gaps. reflexivity. }
    assert (H1 : Inv2 log m1).
    { apply (inv2_step log m m1 []); auto.
      - intros s _. rewrite Hb. lia.
      - simpl. rewrite app_nil_r. reflexivity.
      - simpl. constructor.
      - intros s id []. }
    set (reqp := bstate (mbox m1 0)). set (reqq := bstate (mbox m1 1)).
    assert (Hrp : reqp <= vis 0) by (unfold reqp; rewrite Hb; auto).
    assert (Hrq : reqq <= vis 1) by (unfold reqq; rewrite Hb; auto).
    destruct (pend log 0 reqp (vis 0) ++ pend log 1 reqq (vis 1)) as [|e0 l0] eqn:Epq.
    { apply (inv2_step log m1 _ []); auto.
      - intros s Hs. bst. destruct (Z.eqb_spec s SEQ); [unfold SEQ in *; lia|lia].
      - simpl. rewrite app_nil_r. reflexivity.
      - simpl. constructor.
      - intros s id []. }
    destruct (tlf c vis reqp).
    + apply IH; auto; try (bst; simpl; try fold reqq; lia).
      apply (inv2_step log m1 _ [TooLong 0 reqp (vis 0); Persist 0 (vis 0)]); auto.
      * intros s _. bst. destruct (Z.eqb_spec s 0); [subst; fold reqp; lia|lia].
      * simpl. constructor.
      * intros s id [].
    + destruct (cutf c log vis reqp reqq) as [[cut cutq] sliced] eqn:Ec.
      destruct (cut_bounds c Hok _ _ _ _ _ _ _ Hrp Hrq Ec) as [Hcut Hcutq].
      set (pp' := pend log 0 reqp cut). set (qq := pend log 1 reqq cutq).
      set (Lo := filter (fun e => negb (is_msg e)) pp' ++ filter (fun e => negb (is_msg e)) qq).
      set (Lm := filter is_msg pp' ++ filter is_msg qq).
      assert (HP : Permutation (Lo ++ Lm) (pp' ++ qq)).
      { unfold Lo, Lm.
        eapply perm_trans; [|apply Permutation_app; [apply (filter_perm _ is_msg pp')|apply (filter_perm _ is_msg qq)]].
        rewrite <- !app_assoc. apply Permutation_app_head. rewrite !app_assoc. apply Permutation_app_tail.
        apply Permutation_app_comm. }
      assert (Hlog : NoDup log) by (apply NoDup_of_ids; auto).
      assert (HN : NoDup (Lo ++ Lm)).
      { eapply Permutation_NoDup; [apply Permutation_sym, HP|].
        apply NoDup_app_intro; try (apply pend_nodup; auto).
        intros x Hx Hy. unfold pp' in Hx. unfold qq in Hy. rewrite pend_in in Hx, Hy. lia. }
      assert (HL : forall e, In e (Lo ++ Lm) -> In e log /\ 0 <= eseq e /\ bstate (mbox m1 (eseq e)) < epos e
                                        /\ ((eseq e = 0 /\ epos e <= cut) \/ (eseq e = 1 /\ epos e <= cutq))).
      { intros e He. eapply Permutation_in in He; [|exact HP]. apply in_app_or in He.
        destruct He as [He|He]; [unfold pp' in He|unfold qq in He]; rewrite pend_in in He;
          destruct He as (A & B & C); rewrite B; fold reqp; fold reqq; repeat split; auto; try lia. }
      set (X := delivers Lo ++ delivers Lm ++ [Persist 0 cut; Persist 1 cutq]).
      assert (EX : seq_delivers X = map (fun e => (eseq e, eid e)) (Lo ++ Lm)).
      { unfold X. rewrite !seq_delivers_app. simpl. rewrite app_nil_r.
        rewrite map_app. f_equal; apply seq_delivers_delivers; intros e He; apply (HL e); apply in_or_app; auto. }
      destruct (diff_batch_fresh log m1 (Lo ++ Lm) X Hu HN) as [F1 F2]; auto.
      { intros e He. destruct (HL e He) as (A & B & C & _). auto. }
      match goal with |- Inv2 _ (if sliced then get_diff f c log vis ?M else ?M) => assert (H5 : Inv2 log M) end.
      { apply (inv2_step log m1 _ X); auto.
        - intros s Hs. bst. destruct (Z.eqb_spec s SEQ); [unfold SEQ in *; lia|].
          destruct (Z.eqb_spec s 1); [subst; fold reqq; lia|].
          destruct (Z.eqb_spec s 0); [subst; fold reqp; lia|lia].
        - intros s id Hi. destruct (F2 s id Hi) as (e & A0 & A1 & A2 & A3 & A4).
          exists e. repeat split; auto. destruct (HL e A0) as (_ & _ & _ & [[B1 B2]|[B1 B2]]); bst.
          + assert (Es : s = 0) by lia. rewrite Es in A4 |- *.
            change (0 =? SEQ) with false. change (0 =? 1) with false. change (0 =? 0) with true. cbv iota. lia.
          + assert (Es : s = 1) by lia. rewrite Es in A4 |- *.
            change (1 =? SEQ) with false. change (1 =? 1) with true. cbv iota. lia. }
      destruct sliced; auto. apply IH; auto; bst; simpl; lia.
Qed.

Lemma chan_diff_inv2 : forall fuel c log vis s m,
  wf_log log -> NoDup (map eid log) -> server_ok c -> 0 <= s -> Inv2 log m ->
  bstate (mbox m s) <= vis s ->
  Inv2 log (chan_diff fuel c log vis s m).
Proof.
  induction fuel as [|f IH]; intros c log vis s m Hwf Hu Hok Hs H2 Hv.
  - constructor; simpl; apply H2.
  - cbn [chan_diff]. cbv zeta.
    set (m1 := clear_gaps m s).
    assert (Hb : forall s1, bstate (mbox m1 s1) = bstate (mbox m s1)).
    { intros s1. unfold m1. simpl. destruct (Z.eqb_spec s1 s); simpl; [subst; reflexivity|reflexivity]. }
    assert (H1 : Inv2 log m1).
    { apply (inv2_step log m m1 []); auto.
      - intros s1 _. rewrite Hb. lia.
      - simpl. rewrite app_nil_r. reflexivity.
      - simpl. constructor.
      - intros s1 id []. }
    set (req := bstate (mbox m1 s)).
    assert (Hr : req <= vis s) by (unfold req; rewrite Hb; auto).
    destruct (pend log s req (vis s)) as [|e0 l0] eqn:Ep.
    + apply (inv2_step log m1 _ [Persist s (vis s)]); auto.
      * intros s1 _. bst. destruct (Z.eqb_spec s1 s); [subst; fold req; lia|lia].
      * simpl. constructor.
      * intros s1 id [].
    + rewrite <- Ep. clear Ep.
      destruct (ctlf c s (vis s) req).
      * apply (inv2_step log m1 _ [TooLong s req (vis s); Persist s (vis s)]); auto.
        -- intros s1 _. bst. destruct (Z.eqb_spec s1 s); [subst; fold req; lia|lia].
        -- simpl. constructor.
        -- intros s1 id [].
      * destruct (ccutf c s (pend log s req (vis s)) (vis s)) as [cut sliced] eqn:Ec.
        assert (Hcut : req <= cut <= vis s) by (eapply (ccut_bounds c Hok); eauto).
        set (pp' := pend log s req cut).
        set (L := filter (fun e => negb (is_msg e)) pp' ++ filter is_msg pp').
        assert (HP : Permutation L pp') by apply filter_perm.
        assert (Hlog : NoDup log) by (apply NoDup_of_ids; auto).
        assert (HN : NoDup L).
        { eapply Permutation_NoDup; [apply Permutation_sym, HP|]. apply pend_nodup; auto. }
        assert (HL : forall e, In e L -> In e log /\ eseq e = s /\ req < epos e <= cut).
        { intros e He. eapply Permutation_in in He; [|exact HP]. unfold pp' in He. rewrite pend_in in He. tauto. }
        set (X := delivers (filter (fun e => negb (is_msg e)) pp') ++ delivers (filter is_msg pp') ++ [Persist s cut]).
        assert (EX : seq_delivers X = map (fun e => (eseq e, eid e)) L).
        { unfold X, L. rewrite !seq_delivers_app. simpl. rewrite app_nil_r.
          rewrite map_app. f_equal; apply seq_delivers_delivers; intros e He;
            (assert (He' : In e L) by (unfold L; apply in_or_app; auto)); destruct (HL e He') as (_ & B & _); lia. }
        destruct (diff_batch_fresh log m1 L X Hu HN) as [F1 F2]; auto.
        { intros e He. destruct (HL e He) as (A & B & C). rewrite B. fold req. repeat split; auto; lia. }
        match goal with |- Inv2 _ (if sliced then chan_diff f c log vis s ?M else ?M) => assert (H5 : Inv2 log M) end.
        { apply (inv2_step log m1 _ X); auto.
          - intros s1 _. bst. destruct (Z.eqb_spec s1 s); [subst; fold req; lia|lia].
          - intros s1 id Hi. destruct (F2 s1 id Hi) as (e & A0 & A1 & A2 & A3 & A4).
            exists e. repeat split; auto. destruct (HL e A0) as (_ & B & C).
            assert (Es : s1 = s) by lia. rewrite Es in A4 |- *. bst. rewrite Z.eqb_refl. fold req. lia. }
        destruct sliced; auto. apply IH; auto. bst. rewrite Z.eqb_refl. lia.
Qed.

Lemma box_upd_inv2 : forall c log m s u,
  wf_log log -> NoDup (map eid log) -> 0 <= s -> from_log log s u -> Inv c log m -> Inv2 log m ->
  Inv2 log (box_upd m s u).
Proof.
  intros c log m s u Hwf Hu Hr0 Hfl HI H2. unfold box_upd.
  assert (Hpn : pend_nz (mbox m s)).
  { unfold pend_nz. eapply Forall_impl; [|apply (inv_pend _ _ _ HI s Hr0)].
    intros u0 Hu0. eapply from_log_nz; eauto. }
  pose proof (handle_spec (mbox m s) u Hpn (from_log_nz _ _ _ Hwf Hr0 Hfl)) as HS.
  destruct (handle (mbox m s) u) as [b' evs]. destruct HS as [Hok _].
  destruct Hok as [[-> Hst]|(s' & us & -> & Hne & Hch & Hst & _ & Hall)].
  - destruct Hst as [Hst|(z & Hz & _)]; [|discriminate].
    apply (inv2_step log m _ []); auto.
    + intros s1 Hs1. simpl. destruct (Z.eqb_spec s1 s) as [->|]; lia.
    + simpl. constructor.
    + intros s1 id [].
  - assert (Hus : Forall (from_log log s) us).
    { apply Hall; [apply (inv_pend _ _ _ HI s Hr0)|exact Hfl]. }
    destruct (chain_ids log s us _ _ Hwf Hu Hr0 Hus Hch) as (N & M & B).
    assert (Esd : seq_delivers (evs_trace s [Dlv s' us]) = dpairs s us).
    { simpl. rewrite app_nil_r, seq_delivers_app.
      replace (seq_delivers (if (s =? 1) && (s' =? 0) then [] else [Persist s s'])) with (@nil (Z * Z))
        by (destruct ((s =? 1) && (s' =? 0)); reflexivity).
      rewrite app_nil_r. clear - Hr0. unfold dpairs. induction us as [|a t IHus]; simpl; auto.
      destruct (uid a <? 0); simpl; [exact IHus|].
      destruct (Z.leb_spec 0 s); [|lia]. simpl. f_equal. exact IHus. }
    apply (inv2_step log m _ (evs_trace s [Dlv s' us])); auto.
    + intros s1 Hs1. simpl. destruct (Z.eqb_spec s1 s) as [->|]; lia.
    + rewrite Esd. exact N.
    + intros s1 id Hi. rewrite Esd in Hi.
      assert (s1 = s).
      { unfold dpairs in Hi. rewrite in_flat_map in Hi. destruct Hi as (x & _ & Hx).
        destruct (uid x <? 0); simpl in Hx; [destruct Hx|]. destruct Hx as [E|[]]. inversion E; auto. }
      subst s1. destruct (B id Hi) as (e' & D1 & D2 & D3 & D4).
      exists e'. simpl. rewrite Z.eqb_refl. repeat split; auto; lia.
Qed.
Lemma box_item_inv2 : forall c log m e,
  wf_log log -> NoDup (map eid log) -> In e log -> 0 <= eseq e -> Inv c log m -> Inv2 log m ->
  Inv2 log (box_item m (eseq e) e).
Proof. intros. unfold box_item. eapply box_upd_inv2; eauto. exists e. auto. Qed.


Lemma mbox_set_state_other : forall m s v s1, s1 <> s -> mbox (set_state m s v) s1 = mbox m s1.
Proof. intros. unfold set_state. apply set_box_other; auto. Qed.
Lemma mbox_clear_gaps_other : forall m s s1, s1 <> s -> mbox (clear_gaps m s) s1 = mbox m s1.
Proof. intros. unfold clear_gaps. apply set_box_other; auto. Qed.

Lemma get_diff_other : forall fuel c log vis m s, 2 <= s -> mbox (get_diff fuel c log vis m) s = mbox m s.
Proof.
  induction fuel as [|f IH]; intros c log vis m s Hs; [reflexivity|].
  cbn [get_diff]. cbv zeta.
  assert (E1 : mbox (clear_gaps (clear_gaps (clear_gaps m 0) 1) SEQ) s = mbox m s).
  { rewrite !mbox_clear_gaps_other; auto; unfold SEQ; lia. }
  destruct (_ ++ _).
  { rewrite mbox_set_state_other; [exact E1|unfold SEQ; lia]. }
  destruct (tlf _ _ _).
  - rewrite IH; auto. rewrite mbox_set_state_other; [|lia]. rewrite mbox_emit. exact E1.
  - destruct (cutf _ _ _ _ _) as [[cut cutq] sliced].
    destruct sliced; [rewrite IH; auto|];
      rewrite !mbox_set_state_other; try (unfold SEQ; lia); rewrite mbox_emit; exact E1.
Qed.

Lemma chan_diff_other : forall fuel c log vis s m s1, s1 <> s -> mbox (chan_diff fuel c log vis s m) s1 = mbox m s1.
Proof.
  induction fuel as [|f IH]; intros c log vis s m s1 Hs; [reflexivity|].
  cbn [chan_diff]. cbv zeta.
  assert (E1 : mbox (clear_gaps m s) s1 = mbox m s1) by (apply mbox_clear_gaps_other; auto).
  destruct (pend log s _ (vis s)) eqn:Ep.
  - rewrite mbox_set_state_other; auto.
  - destruct (ctlf _ _ _ _).
    + rewrite mbox_set_state_other; auto.
    + destruct (ccutf _ _ _ _) as [cut sliced].
      destruct sliced; [rewrite IH; auto|]; rewrite mbox_set_state_other; auto.
Qed.

Lemma mtracked_chan_diff : forall fuel c log vis s m, mtracked (chan_diff fuel c log vis s m) = mtracked m.
Proof.
  induction fuel as [|f IH]; intros c log vis s m; [reflexivity|].
  cbn [chan_diff]. cbv zeta.
  destruct (pend log s _ (vis s)); [reflexivity|].
  destruct (ctlf _ _ _ _); [reflexivity|].
  destruct (ccutf _ _ _ _) as [cut sliced]. destruct sliced; [rewrite IH|]; reflexivity.
Qed.
Lemma mtracked_get_diff : forall fuel c log vis m, mtracked (get_diff fuel c log vis m) = mtracked m.
Proof.
  induction fuel as [|f IH]; intros c log vis m; [reflexivity|].
  cbn [get_diff]. cbv zeta.
  destruct (_ ++ _); [reflexivity|].
  destruct (tlf _ _ _); [rewrite IH; reflexivity|].
  destruct (cutf _ _ _ _ _) as [[cut cutq] sliced]. destruct sliced; [rewrite IH|]; reflexivity.
Qed.
Lemma mtracked_box_item : forall m s e, mtracked (box_item m s e) = mtracked m.
Proof. intros. unfold box_item, box_upd. destruct (handle _ _). reflexivity. Qed.
Lemma mbox_box_item_other : forall m s e s1, s1 <> s -> mbox (box_item m s e) s1 = mbox m s1.
Proof. intros. unfold box_item, box_upd. destruct (handle _ _). rewrite mbox_emit. apply set_box_other; auto. Qed.

(* channels without a worker still sit at their base, which is not beyond the horizon *)
Definition Hun (c : config) (vis : Z -> Z) (m : mgr) : Prop :=
  forall s, 2 <= s < nseq c -> mtracked m s = false -> bstate (mbox m s) <= vis s.

Lemma set_tracked_inv2 : forall log m s, Inv2 log m -> Inv2 log (set_tracked m s).
Proof. intros log m s H. constructor; simpl; apply H. Qed.
Lemma add_cont_inv2 : forall log m cid ids p, Inv2 log m -> Inv2 log (add_cont m cid ids p).
Proof. intros log m cid ids p H. constructor; simpl; apply H. Qed.
Lemma set_box_seq_inv2 : forall log m b, Inv2 log m -> Inv2 log (set_box m SEQ b).
Proof.
  intros log m b H. constructor; simpl; [|apply H].
  intros s id Hs Hin. destruct (Z.eqb_spec s SEQ); [unfold SEQ in *; lia|]. apply (inv2_old _ _ H); auto.
Qed.

Lemma push_item_inv2 : forall c log vis m e,
  wf_log log -> NoDup (map eid log) -> server_ok c -> In e log -> Inv c log m -> Inv2 log m -> Hun c vis m ->
  Inv2 log (push_item c log vis m e).
Proof.
  intros c log vis m e Hwf Hu Hok Hin HI H2 Hn. unfold push_item.
  destruct ((0 <=? eseq e) && (eseq e <? nseq c)) eqn:Hrange; [|exact H2].
  apply andb_prop in Hrange. destruct Hrange as [Hr0 Hr1]. apply Z.leb_le in Hr0. apply Z.ltb_lt in Hr1.
  destruct ((eseq e <? 2) || mtracked m (eseq e)) eqn:Et.
  - apply (box_item_inv2 c); auto.
  - apply orb_false_elim in Et. destruct Et as [Et1 Et2]. apply Z.ltb_ge in Et1.
    destruct (dormant c (eseq e)).
    { apply (box_item_inv2 c); auto.
      - apply chan_diff_inv; auto. apply set_tracked_inv; auto.
      - apply chan_diff_inv2; auto; [apply set_tracked_inv2; auto|]. apply (Hn (eseq e)); auto; lia. }
    destruct (ustart (upd_of e) =? base c (eseq e)); [|exact H2].
    set (m0 := set_tracked (emit m [Persist (eseq e) (base c (eseq e))]) (eseq e)).
    assert (HI0 : Inv c log m0).
    { apply set_tracked_inv. apply emit_persist_inv; auto. intros; lia. }
    assert (H20 : Inv2 log m0).
    { apply set_tracked_inv2. apply (inv2_step log m _ [Persist (eseq e) (base c (eseq e))]); auto.
      - intros; simpl; lia.
      - simpl. constructor.
      - intros s id []. }
    apply (box_item_inv2 c); auto.
    + apply chan_diff_inv; auto.
    + apply chan_diff_inv2; auto. apply (Hn (eseq e)); auto; lia.
Qed.

Lemma push_item_Hun : forall c log vis m e, Hun c vis m -> Hun c vis (push_item c log vis m e).
Proof.
  intros c log vis m e Hn s Hs Ht. unfold push_item in *.
  destruct ((0 <=? eseq e) && (eseq e <? nseq c)); [|apply Hn; auto].
  destruct (Z.eq_dec s (eseq e)) as [->|Hne].
  - destruct ((eseq e <? 2) || mtracked m (eseq e)) eqn:Et.
    + rewrite mtracked_box_item in Ht. apply orb_true_iff in Et. destruct Et as [Et|Et]; [apply Z.ltb_lt in Et; lia|congruence].
    + destruct (dormant c (eseq e)).
      { rewrite mtracked_box_item, mtracked_chan_diff in Ht. simpl in Ht. rewrite Z.eqb_refl in Ht. discriminate. }
      destruct (ustart (upd_of e) =? base c (eseq e)); [|apply Hn; auto].
      rewrite mtracked_box_item, mtracked_chan_diff in Ht. simpl in Ht. rewrite Z.eqb_refl in Ht. discriminate.
  - destruct ((eseq e <? 2) || mtracked m (eseq e)).
    + rewrite mtracked_box_item in Ht. rewrite mbox_box_item_other; auto.
    + destruct (dormant c (eseq e)).
      { rewrite mtracked_box_item, mtracked_chan_diff in Ht. simpl in Ht.
        destruct (Z.eqb_spec s (eseq e)); [contradiction|].
        rewrite mbox_box_item_other, chan_diff_other; auto. simpl. apply Hn; auto. }
      destruct (ustart (upd_of e) =? base c (eseq e)); [|apply Hn; auto].
      rewrite mtracked_box_item, mtracked_chan_diff in Ht. simpl in Ht.
      destruct (Z.eqb_spec s (eseq e)); [contradiction|].
      rewrite mbox_box_item_other, chan_diff_other; auto. simpl. apply Hn; auto.
Qed.

Lemma push_all : forall c log vis m ids,
  wf_log log -> NoDup (map eid log) -> server_ok c -> Inv c log m -> Inv2 log m -> Hun c vis m ->
  Inv2 log (push c log vis m ids) /\ Hun c vis (push c log vis m ids).
Proof.
  intros c log vis m ids Hwf Hu Hok HI H2 Hn. unfold push.
  set (items := isort route_key (flat_map (find_entry log) ids)).
  assert (Hitems : forall e, In e items -> In e log).
  { intros e He. unfold items in He. rewrite isort_in in He. rewrite in_flat_map in He.
    destruct He as (id & _ & He). eapply find_entry_in; eauto. }
  assert (Hfold : Inv c log (fold_left (push_item c log vis) items m) /\ Inv2 log (fold_left (push_item c log vis) items m)
                  /\ Hun c vis (fold_left (push_item c log vis) items m)).
  { clearbody items. revert m HI H2 Hn. induction items as [|e t IH]; intros m HI H2 Hn; simpl; auto.
    apply IH.
    - intros; apply Hitems; simpl; auto.
    - apply push_item_inv; auto. apply Hitems; simpl; auto.
    - apply push_item_inv2; auto. apply Hitems; simpl; auto.
    - apply push_item_Hun; auto. }
  destruct Hfold as (_ & HF & HH). split; [|exact HH].
  assert (E : seq_delivers (map (fun e => Deliver (-1) (eid e)) (filter (fun e => eseq e <? 0) items)) = []).
  { induction (filter (fun e => eseq e <? 0) items); simpl; auto. }
  apply (inv2_step log (fold_left (push_item c log vis) items m) _ (map (fun e => Deliver (-1) (eid e)) (filter (fun e => eseq e <? 0) items))); auto.
  - intros; simpl; lia.
  - rewrite E. constructor.
  - intros s id Hi. rewrite E in Hi. destruct Hi.
Qed.

Lemma pushc_apply_inv2 : forall c log vis m cid sq ids p,
  wf_log log -> NoDup (map eid log) -> server_ok c -> Inv c log m -> Inv2 log m -> Hun c vis m ->
  Inv2 log (fst (fst (pushc_apply c log vis m cid sq ids p))).
Proof.
  intros c log vis m cid sq ids p Hwf Hu Hok HI H2 Hn. unfold pushc_apply.
  destruct (sq =? 0); [simpl; apply push_all; auto|].
  destruct (handle _ _) as [sb evs]. simpl.
  assert (H0 : Inv c log (add_cont m cid ids p) /\ Inv2 log (add_cont m cid ids p) /\ Hun c vis (add_cont m cid ids p)).
  { split; [apply add_cont_inv; auto|]. split; [apply add_cont_inv2; auto|exact Hn]. }
  revert H0. generalize (add_cont m cid ids p). induction (dlv_upds evs) as [|u t IHl]; intros m0 (A & B & C); simpl; auto.
  apply IHl. split; [apply push_inv; auto|]. apply push_all; auto.
Qed.

Lemma mstep_inv2 : forall c log m o,
  wf_log log -> NoDup (map eid log) -> server_ok c -> Inv c log m -> Inv2 log m ->
  (forall s, 0 <= s < Z.max 2 (nseq c) -> bstate (mbox m s) <= op_vis o s) -> mid_ok c log m o ->
  Inv2 log (mstep c log m o).
Proof.
  intros c log m o Hwf Hu Hok HI H2 Hv Hmid. destruct o; cbn [mstep]; simpl in Hv.
  - assert (Hn : Hun c vis m) by (intros s Hs _; apply Hv; lia).
    pose proof (pushc_apply_inv2 c log vis m cid sq ids p Hwf Hu Hok HI H2 Hn) as H.
    simpl in Hmid.
    destruct (pushc_apply c log vis m cid sq ids p) as [[m1 rc] sb]. simpl in H, Hmid.
    assert (H3 : Inv2 log (if rc then get_diff (fuel_of log) c log vis m1 else m1)).
    { destruct rc; auto. destruct (Hmid eq_refl). apply get_diff_inv2; auto. }
    destruct sb; auto. apply set_box_seq_inv2; auto.
  - apply get_diff_inv2; auto; apply Hv; lia.
  - destruct ((2 <=? s) && (s <? nseq c) && mtracked m s) eqn:E; auto.
    rewrite !andb_true_iff, Z.leb_le, Z.ltb_lt in E. destruct E as [[E E'] _].
    apply chan_diff_inv2; auto; try lia. apply Hv; lia.
  - apply get_diff_inv2; auto; apply Hv; lia.
  - destruct ((2 <=? s) && (s <? nseq c) && mtracked m s) eqn:E; auto.
    rewrite !andb_true_iff, Z.leb_le, Z.ltb_lt in E. destruct E as [[E E'] _].
    apply chan_diff_inv2; auto; try lia. apply Hv; lia.
  - assert (H : Inv2 log (get_diff (fuel_of log) c log vis m)) by (apply get_diff_inv2; auto; apply Hv; lia).
    assert (Hv' : forall s, In s (filter (tracked0 c) (chan_seqs c)) -> 2 <= s /\ bstate (mbox (get_diff (fuel_of log) c log vis m) s) <= vis s).
    { intros s Hs. rewrite filter_In in Hs. destruct Hs as [Hs _].
      unfold chan_seqs in Hs. rewrite in_map_iff in Hs. destruct Hs as (i & <- & Hi).
      apply in_seq in Hi.
      split; [lia|]. rewrite get_diff_other; [|lia]. apply Hv; lia. }
    assert (Hnd : NoDup (filter (tracked0 c) (chan_seqs c))).
    { apply NoDup_filter. unfold chan_seqs. apply FinFun.Injective_map_NoDup; [|apply seq_NoDup]. intros a b E. lia. }
    revert H Hv' Hnd. generalize (get_diff (fuel_of log) c log vis m). induction (filter (tracked0 c) (chan_seqs c)) as [|s t IHl]; intros m0 H0 Hv0 Hnd; cbn [fold_left]; auto.
    inversion Hnd; subst. apply IHl; auto.
    + apply chan_diff_inv2; auto; [destruct (Hv0 s (or_introl eq_refl)); lia|apply Hv0; simpl; auto].
    + intros s1 Hs1. destruct (Hv0 s1 (or_intror Hs1)) as [A B]. split; auto.
      rewrite chan_diff_other; auto. intros ->; contradiction.
  - apply (inv2_step log m _ []); auto.
    + intros s _. rewrite !bstate_clear_gaps. lia.
    + simpl. rewrite app_nil_r. reflexivity.
    + simpl. constructor.
    + intros s id [].
  - destruct (_ && _); auto. apply (inv2_step log m _ []); auto.
    + intros s1 _. rewrite !bstate_clear_gaps. lia.
    + simpl. rewrite app_nil_r. reflexivity.
    + simpl. constructor.
    + intros s1 id [].
  - unfold find_entry. destruct (find (fun e => eid e =? id) log) as [e|] eqn:F; simpl; [|exact H2].
    assert (He : In e log) by (apply find_some in F; tauto).
    unfold affected.
    destruct ((eseq e =? 0) || ((2 <=? eseq e) && (eseq e <? nseq c) && mtracked m (eseq e))) eqn:E; auto.
    assert (0 <= eseq e).
    { apply orb_true_iff in E. destruct E as [E|E]; [apply Z.eqb_eq in E; lia|].
      rewrite !andb_true_iff, Z.leb_le in E. lia. }
    eapply box_upd_inv2; eauto. exists e. auto.
Qed.

Lemma mrun_from_inv2 : forall c log ops m,
  wf_log log -> NoDup (map eid log) -> server_ok c -> Inv c log m -> Inv2 log m -> vis_ok c log m ops ->
  Inv2 log (fold_left (mstep c log) ops m).
Proof.
  intros c log ops. induction ops as [|o t IH]; intros m Hwf Hu Hok HI H2 Hv; simpl; auto.
  destruct Hv as (Hv1 & Hvm & Hv2). apply IH; auto.
  - apply mstep_inv; auto.
  - apply mstep_inv2; auto.
Qed.

(* C01 at the handler of the Manager: no sequenced update is delivered twice *)
Theorem manager_at_most_once : forall c log ops,
  wf_log log -> NoDup (map eid log) -> server_ok c -> vis_ok c log (mgr_init c) ops ->
  NoDup (seq_delivers (mtr (mrun c log ops))).
Proof.
  intros c log ops Hwf Hu Hok Hv. apply (inv2_nodup log).
  apply mrun_from_inv2; auto.
  - apply mgr_init_inv.
  - constructor; simpl; [intros s id _ []|constructor].
Qed.

(* ---------- the difference recursion terminates within its fuel ---------- *)
Lemma filter_len_le : forall A (f g : A -> bool) l,
  (forall x, g x = true -> f x = true) -> (length (filter g l) <= length (filter f l))%nat.
Proof.
  induction l as [|a t IH]; intros H; simpl; auto.
  destruct (g a) eqn:G.
  - rewrite (H a G). simpl. apply le_n_S. apply IH; auto.
  - destruct (f a); simpl; [apply le_S|]; apply IH; auto.
Qed.
Lemma filter_len_lt : forall A (f g : A -> bool) l x,
  (forall x, g x = true -> f x = true) -> In x l -> f x = true -> g x = false ->
  (length (filter g l) < length (filter f l))%nat.
Proof.
  induction l as [|a t IH]; intros x H Hin Hf Hg; [destruct Hin|]. simpl.
  destruct Hin as [->|Hin].
  - rewrite Hf, Hg. simpl. apply le_n_S. apply filter_len_le; auto.
  - destruct (g a) eqn:G.
    + rewrite (H a G). simpl. assert (length (filter g t) < length (filter f t))%nat by (eapply IH; eauto). lia.
    + assert (length (filter g t) < length (filter f t))%nat by (eapply IH; eauto). destruct (f a); simpl; lia.
Qed.
Lemma filter_disjoint_len : forall A (f g : A -> bool) l,
  (forall x, f x = true -> g x = false) -> (length (filter f l) + length (filter g l) <= length l)%nat.
Proof.
  induction l as [|a t IH]; intros H; simpl; auto.
  specialize (IH H). destruct (f a) eqn:F; [rewrite (H a F)|destruct (g a)]; simpl; lia.
Qed.
Definition rng (s a b : Z) (e : entry) : bool := (eseq e =? s) && (a <? epos e) && (epos e <=? b).
Lemma pend_length : forall log s a b, length (pend log s a b) = length (filter (rng s a b) log).
Proof. intros. unfold pend. apply Permutation_length, isort_perm. Qed.
Lemma pend_len_mono : forall log s a a' b, a <= a' -> (length (pend log s a' b) <= length (pend log s a b))%nat.
Proof.
  intros. rewrite !pend_length. apply filter_len_le. unfold rng. intros x Hx.
  rewrite !andb_true_iff, Z.eqb_eq, Z.ltb_lt, Z.leb_le in *. lia.
Qed.
Lemma pend_len_lt : forall log s a a' b x,
  a <= a' -> In x log -> eseq x = s -> a < epos x <= b -> epos x <= a' ->
  (length (pend log s a' b) < length (pend log s a b))%nat.
Proof.
  intros log s a a' b x Ha Hin Hs Hr Hx. rewrite !pend_length. apply (filter_len_lt _ _ _ log x); auto; unfold rng.
  - intros y Hy. rewrite !andb_true_iff, Z.eqb_eq, Z.ltb_lt, Z.leb_le in *. lia.
  - rewrite !andb_true_iff, Z.eqb_eq, Z.ltb_lt, Z.leb_le. lia.
  - rewrite !andb_false_iff, Z.ltb_ge. left. right. lia.
Qed.

Lemma pend_shrinks : forall log s a b lim cut,
  slice_cut lim (pend log s a b) b = (cut, true) ->
  (length (pend log s cut b) < length (pend log s a b))%nat.
Proof.
  intros log s a b lim cut H. unfold slice_cut in H.
  destruct ((0 <? lim) && (lim <? Z.of_nat (length (pend log s a b)))) eqn:Eb; inversion H; subst; clear H.
  apply andb_prop in Eb. destruct Eb as [Eb1 Eb2]. apply Z.ltb_lt in Eb1, Eb2.
  set (x := nth (Z.to_nat (lim - 1)) (pend log s a b) dflt_entry).
  assert (Hx : In x (pend log s a b)) by (apply nth_In; lia).
  rewrite pend_in in Hx. destruct Hx as (X1 & X2 & X3).
  apply (pend_len_lt log s a (epos x) b x); auto; lia.
Qed.

Lemma max_pos_ge : forall s l d, d <= max_pos s d l.
Proof.
  unfold max_pos. induction l as [|a t IH]; intros d; simpl; [lia|].
  destruct (eseq a =? s); [specialize (IH (Z.max d (epos a))); lia|apply IH].
Qed.
Lemma max_pos_elem : forall s l d x, In x l -> eseq x = s -> epos x <= max_pos s d l.
Proof.
  unfold max_pos. induction l as [|a t IH]; intros d x Hin Hs; [destruct Hin|]. simpl.
  destruct Hin as [->|Hin].
  - rewrite Hs, Z.eqb_refl. pose proof (max_pos_ge s t (Z.max d (epos x))). unfold max_pos in H. lia.
  - destruct (eseq a =? s); eapply IH; eauto.
Qed.

Lemma slice2_shrinks : forall lim log vis rp rq cut cutq,
  slice_cut2 lim log vis rp rq = (cut, cutq, true) ->
  rp <= cut /\ rq <= cutq /\
  (length (pend log 0%Z cut (vis 0%Z)) + length (pend log 1%Z cutq (vis 1%Z)) <
   length (pend log 0%Z rp (vis 0%Z)) + length (pend log 1%Z rq (vis 1%Z)))%nat.
Proof.
  intros lim log vis rp rq cut cutq H. unfold slice_cut2 in H.
  destruct ((0 <? lim) && (lim <? Z.of_nat (length (filter (in_range vis rp rq) log)))) eqn:Eb; inversion H; subst; clear H.
  apply andb_prop in Eb. destruct Eb as [Eb1 Eb2]. apply Z.ltb_lt in Eb1, Eb2.
  set (pre := firstn (Z.to_nat lim) (filter (in_range vis rp rq) log)).
  pose proof (max_pos_ge 0 pre rp) as G0. pose proof (max_pos_ge 1 pre rq) as G1.
  split; [exact G0|]. split; [exact G1|].
  destruct (filter (in_range vis rp rq) log) as [|x rest] eqn:Ef; [simpl in Eb2; lia|].
  assert (Hxp : In x pre).
  { unfold pre. destruct (Z.to_nat lim) eqn:En; [lia|]. simpl. auto. }
  assert (Hxf : In x (filter (in_range vis rp rq) log)) by (rewrite Ef; simpl; auto).
  rewrite filter_In in Hxf. destruct Hxf as [Hxl Hxr]. unfold in_range in Hxr.
  rewrite orb_true_iff, !andb_true_iff, !Z.eqb_eq, !Z.ltb_lt, !Z.leb_le in Hxr.
  pose proof (pend_len_mono log 0 rp (max_pos 0 rp pre) (vis 0) G0).
  pose proof (pend_len_mono log 1 rq (max_pos 1 rq pre) (vis 1) G1).
  destruct Hxr as [[[S0 A] B]|[[S1 A] B]].
  - pose proof (max_pos_elem 0 pre rp x Hxp S0).
    pose proof (pend_len_lt log 0 rp (max_pos 0 rp pre) (vis 0) x G0 Hxl S0 ltac:(lia) ltac:(lia)). lia.
  - pose proof (max_pos_elem 1 pre rq x Hxp S1).
    pose proof (pend_len_lt log 1 rq (max_pos 1 rq pre) (vis 1) x G1 Hxl S1 ltac:(lia) ltac:(lia)). lia.
Qed.

Definition tlb (c : config) (vis : Z -> Z) (m : mgr) : bool := tlf c vis (bstate (mbox m 0)).
Definition mu (log : list entry) (vis : Z -> Z) (m : mgr) : nat :=
  (length (pend log 0%Z (bstate (mbox m 0%Z)) (vis 0%Z)) + length (pend log 1%Z (bstate (mbox m 1%Z)) (vis 1%Z)))%nat.

Lemma get_diff_fuel : forall fuel c log vis m,
  server_ok c ->
  moof m = false -> (mu log vis m + (if tlb c vis m then 1 else 0) + 1 <= fuel)%nat ->
  moof (get_diff fuel c log vis m) = false.
Proof.
  induction fuel as [|f IH]; intros c log vis m Hok Hm Hf; [lia|].
  cbn [get_diff]. cbv zeta.
  set (m1 := clear_gaps (clear_gaps (clear_gaps m 0) 1) SEQ).
  assert (E0 : bstate (mbox m1 0) = bstate (mbox m 0)) by (unfold m1; rewrite !bstate_clear_gaps; reflexivity).
  assert (E1 : bstate (mbox m1 1) = bstate (mbox m 1)) by (unfold m1; rewrite !bstate_clear_gaps; reflexivity).
  rewrite E0, E1. unfold mu, tlb in Hf.
  destruct (_ ++ _); [exact Hm|].
  destruct (tlf c vis (bstate (mbox m 0))) eqn:Et.
  - apply IH; [exact Hok|exact Hm|]. unfold mu, tlb. bst. change (0 =? 0) with true. change (1 =? 0) with false. cbv iota.
    rewrite E1, pend_same_nil. simpl length. rewrite (tl_horizon c Hok). lia.
  - destruct (cutf c log vis (bstate (mbox m 0)) (bstate (mbox m 1))) as [[cut cutq] sliced] eqn:Ec.
    destruct sliced; [|exact Hm].
    apply (cut_progress c Hok) in Ec. destruct Ec as (G0 & G1 & Hlt).
    apply IH; [exact Hok|exact Hm|]. unfold mu, tlb. bst.
    change (0 =? SEQ) with false. change (1 =? SEQ) with false. change (0 =? 1) with false.
    change (1 =? 1) with true. change (0 =? 0) with true. cbv iota.
    rewrite (tl_mono c Hok vis _ cut Et G0). lia.
Qed.

Lemma chan_diff_fuel : forall fuel c log vis s m,
  server_ok c ->
  moof m = false -> (length (pend log s (bstate (mbox m s)) (vis s)) + 1 <= fuel)%nat ->
  moof (chan_diff fuel c log vis s m) = false.
Proof.
  induction fuel as [|f IH]; intros c log vis s m Hok Hm Hf; [lia|].
  cbn [chan_diff]. cbv zeta.
  rewrite !bstate_clear_gaps.
  destruct (pend log s (bstate (mbox m s)) (vis s)) as [|e0 l0] eqn:Ep; [exact Hm|].
  rewrite <- Ep in Hf |- *.
  destruct (ctlf _ _ _ _); [exact Hm|].
  destruct (ccutf c s (pend log s (bstate (mbox m s)) (vis s)) (vis s)) as [cut sliced] eqn:Ec.
  destruct sliced; [|exact Hm].
  apply IH; [exact Hok|exact Hm|].
  rewrite bstate_set_state, Z.eqb_refl. apply (ccut_progress c Hok) in Ec. lia.
Qed.

Lemma pend_le_log : forall log s a b, (length (pend log s a b) <= length log)%nat.
Proof.
  intros. rewrite pend_length. generalize (rng s a b).
  intros f. induction log as [|x t IH]; simpl; auto. destruct (f x); simpl; lia.
Qed.
Lemma mu_le_log : forall log vis m, (mu log vis m <= length log)%nat.
Proof.
  intros. unfold mu. rewrite !pend_length. apply filter_disjoint_len.
  unfold rng. intros x Hx. rewrite !andb_true_iff, Z.eqb_eq in Hx. destruct Hx as [[Hx _] _].
  rewrite Hx. reflexivity.
Qed.

Lemma moof_box_item : forall m s e, moof (box_item m s e) = moof m.
Proof. intros. unfold box_item, box_upd. destruct (handle _ _). reflexivity. Qed.
Lemma push_item_moof : forall c log vis m e, server_ok c -> moof m = false -> moof (push_item c log vis m e) = false.
Proof.
  intros c log vis m e Hok Hm. unfold push_item.
  destruct (_ && _); auto. destruct (_ || _); [rewrite moof_box_item; auto|].
  destruct (dormant _ _).
  { rewrite moof_box_item. apply chan_diff_fuel; [exact Hok|exact Hm|].
    unfold fuel_of. match goal with |- (length (pend ?l ?s ?a ?b) + 1 <= _)%nat => pose proof (pend_le_log l s a b) end. lia. }
  destruct (_ =? _); auto. rewrite moof_box_item. apply chan_diff_fuel; [exact Hok|exact Hm|].
  unfold fuel_of. match goal with |- (length (pend ?l ?s ?a ?b) + 1 <= _)%nat => pose proof (pend_le_log l s a b) end. lia.
Qed.
Lemma push_moof : forall c log vis m ids, server_ok c -> moof m = false -> moof (push c log vis m ids) = false.
Proof.
  intros c log vis m ids Hok Hm. unfold push. simpl.
  generalize (isort route_key (flat_map (find_entry log) ids)). intros items. revert m Hm.
  induction items as [|e t IH]; intros m Hm; simpl; auto. apply IH. apply push_item_moof; auto.
Qed.

Lemma get_diff_fuel_log : forall c log vis m, server_ok c -> moof m = false -> moof (get_diff (fuel_of log) c log vis m) = false.
Proof.
  intros. apply get_diff_fuel; auto. unfold fuel_of. pose proof (mu_le_log log vis m). destruct (tlb c vis m); lia.
Qed.
Lemma chan_diff_fuel_log : forall c log vis s m, server_ok c -> moof m = false -> moof (chan_diff (fuel_of log) c log vis s m) = false.
Proof.
  intros. apply chan_diff_fuel; auto. unfold fuel_of. pose proof (pend_le_log log s (bstate (mbox m s)) (vis s)). lia.
Qed.

Lemma mstep_moof : forall c log m o, server_ok c -> moof m = false -> moof (mstep c log m o) = false.
Proof.
  intros c log m o Hok Hm. destruct o; cbn [mstep].
  - assert (H : moof (fst (fst (pushc_apply c log vis m cid sq ids p))) = false).
    { unfold pushc_apply. destruct (sq =? 0); [simpl; apply push_moof; auto|].
      destruct (handle _ _) as [sb evs]. simpl.
      assert (H0 : moof (add_cont m cid ids p) = false) by exact Hm.
      revert H0. generalize (add_cont m cid ids p). induction (dlv_upds evs); intros m0 H0; simpl; auto.
      apply IHl. apply push_moof; auto. }
    destruct (pushc_apply c log vis m cid sq ids p) as [[m1 rc] sb]. simpl in H.
    assert (H2 : moof (if rc then get_diff (fuel_of log) c log vis m1 else m1) = false).
    { destruct rc; auto. apply get_diff_fuel_log; auto. }
    destruct sb; auto.
  - apply get_diff_fuel_log; auto.
  - destruct (_ && _); auto. apply chan_diff_fuel_log; auto.
  - apply get_diff_fuel_log; auto.
  - destruct (_ && _); auto. apply chan_diff_fuel_log; auto.
  - assert (H : moof (get_diff (fuel_of log) c log vis m) = false) by (apply get_diff_fuel_log; auto).
    revert H. generalize (get_diff (fuel_of log) c log vis m). induction (filter (tracked0 c) (chan_seqs c)) as [|s t IHl]; intros m0 H0; cbn [fold_left]; auto.
    apply IHl. apply chan_diff_fuel_log; auto.
  - exact Hm.
  - destruct (_ && _); auto.
  - unfold find_entry. destruct (find (fun e => eid e =? id) log) as [e|]; simpl; auto.
    unfold affected. destruct (_ || _); auto. unfold box_upd. destruct (handle _ _). exact Hm.
Qed.

Theorem never_out_of_fuel : forall c log ops, server_ok c -> moof (mrun c log ops) = false.
Proof.
  intros c log ops Hok. unfold mrun. generalize (eq_refl : moof (mgr_init c) = false). generalize (mgr_init c).
  induction ops as [|o t IH]; intros m Hm; simpl; auto. apply IH. apply mstep_moof; auto.
Qed.

(* unconditional forms *)
Theorem no_loss_common_total : forall c log ops vis,
  wf_log log -> server_ok c ->
  forall s e, (s = 0 \/ s = 1) -> In e log -> eseq e = s -> base c s < epos e <= vis s ->
              accounted s e (mtr (mrun c log (ops ++ [MTooLong vis]))).
Proof. intros. eapply no_loss_common; eauto. apply never_out_of_fuel; auto. Qed.
Theorem no_loss_channel_total : forall c log ops vis s,
  wf_log log -> server_ok c -> 2 <= s < nseq c -> mtracked (mrun c log ops) s = true ->
  forall e, In e log -> eseq e = s -> base c s < epos e <= vis s ->
            accounted s e (mtr (mrun c log (ops ++ [MChanTooLong vis s]))).
Proof. intros. eapply no_loss_channel; eauto. apply never_out_of_fuel; auto. Qed.
Theorem restart_common_total : forall c log ops pre post ops2 vis,
  wf_log log -> server_ok c -> mtr (mrun c log ops) = pre ++ post ->
  forall s e, (s = 0 \/ s = 1) -> In e log -> eseq e = s -> base c s < epos e <= vis s ->
              accounted s e pre \/
              accounted s e (mtr (mrun (rebase c (fun s => persisted c s pre)) log (ops2 ++ [MTooLong vis]))).
Proof. intros. eapply restart_common; eauto. apply never_out_of_fuel. apply rebase_ok; auto. Qed.
Theorem restart_channel_total : forall c log ops pre post ops2 vis s,
  wf_log log -> server_ok c -> 2 <= s < nseq c -> mtr (mrun c log ops) = pre ++ post ->
  mtracked (mrun (rebase c (fun s => persisted c s pre)) log ops2) s = true ->
  forall e, In e log -> eseq e = s -> base c s < epos e <= vis s ->
            accounted s e pre \/
            accounted s e (mtr (mrun (rebase c (fun s => persisted c s pre)) log (ops2 ++ [MChanTooLong vis s]))).
Proof. intros. eapply restart_channel; eauto. apply never_out_of_fuel. apply rebase_ok; auto. Qed.

(* the explicit recovery signal: an unnumbered container carrying updatePtsChanged always ends
   with a completed getDifference *)
Theorem no_loss_pts_changed : forall c log ops vis cid ids,
  wf_log log -> server_ok c ->
  forall s e, (s = 0 \/ s = 1) -> In e log -> eseq e = s -> base c s < epos e <= vis s ->
              accounted s e (mtr (mrun c log (ops ++ [MPushC vis cid 0 ids true]))).
Proof.
  intros c log ops vis cid ids Hwf Hok s e Hs H1 H2 H4.
  assert (HI : Inv c log (mrun c log (ops ++ [MPushC vis cid 0 ids true]))) by (apply mrun_inv; auto).
  pose proof (never_out_of_fuel c log (ops ++ [MPushC vis cid 0 ids true]) Hok) as Hf.
  rewrite mrun_snoc in *. cbn [mstep] in *.
  destruct (pushc_apply c log vis (mrun c log ops) cid 0 ids true) as [[m1 rc] sb] eqn:Ep.
  unfold pushc_apply in Ep. change (0 =? 0) with true in Ep. cbv iota in Ep. injection Ep as <- <- <-.
  assert (Hf' : moof (get_diff (fuel_of log) c log vis (push c log vis (mrun c log ops) ids)) = false) by exact Hf.
  pose proof (get_diff_drained _ _ _ _ _ Hok Hf') as Hd. apply app_eq_nil in Hd. destruct Hd as [Hd0 Hd1].
  destruct Hs as [->| ->].
  - apply (drained_cov c log _ 0 (vis 0) e HI Hd0 H1 H2); lia.
  - apply (drained_cov c log _ 1 (vis 1) e HI Hd1 H1 H2); lia.
Qed.
(* numbered containers: if applySeq applies a batch in which ANY container carries
   updatePtsChanged, a completed getDifference follows *)
Theorem no_loss_pts_changed_seq : forall c log ops vis cid sq ids p,
  wf_log log -> server_ok c -> sq <> 0 ->
  snd (fst (pushc_apply c log vis (mrun c log ops) cid sq ids p)) = true ->
  forall s e, (s = 0 \/ s = 1) -> In e log -> eseq e = s -> base c s < epos e <= vis s ->
              accounted s e (mtr (mrun c log (ops ++ [MPushC vis cid sq ids p]))).
Proof.
  intros c log ops vis cid sq ids p Hwf Hok Hsq Hrc s e Hs H1 H2 H4.
  assert (HI : Inv c log (mrun c log (ops ++ [MPushC vis cid sq ids p]))) by (apply mrun_inv; auto).
  pose proof (never_out_of_fuel c log (ops ++ [MPushC vis cid sq ids p]) Hok) as Hf.
  rewrite mrun_snoc in *. cbn [mstep] in *.
  destruct (pushc_apply c log vis (mrun c log ops) cid sq ids p) as [[m1 rc] sb] eqn:Ep. simpl in Hrc. subst rc.
  assert (Esb : exists b, sb = Some b).
  { unfold pushc_apply in Ep. destruct (Z.eqb_spec sq 0); [contradiction|]. destruct (handle _ _). inversion Ep. eauto. }
  destruct Esb as [b ->].
  assert (Hf' : moof (get_diff (fuel_of log) c log vis m1) = false) by exact Hf.
  pose proof (get_diff_drained _ _ _ _ _ Hok Hf') as Hd. apply app_eq_nil in Hd. destruct Hd as [Hd0 Hd1].
  assert (Hb : forall s1, 0 <= s1 -> mbox (set_box (get_diff (fuel_of log) c log vis m1) SEQ b) s1 = mbox (get_diff (fuel_of log) c log vis m1) s1).
  { intros s1 Hs1. apply set_box_other. unfold SEQ; lia. }
  destruct Hs as [->| ->].
  - apply (drained_cov c log _ 0 (vis 0) e HI); auto; try lia; rewrite Hb; auto; lia.
  - apply (drained_cov c log _ 1 (vis 1) e HI); auto; try lia; rewrite Hb; auto; lia.
Qed.

(* the harness's fake server (limits / thresholds) satisfies the contract *)
Lemma std_server_ok : forall n b tr dm sl tl csl ctl, server_ok (std_config n b tr dm sl tl csl ctl).
Proof.
  intros. constructor; simpl.
  - intros. eapply slice_cut2_final; eauto.
  - intros. eapply slice_cut2_bounds; eauto.
  - intros. eapply slice2_shrinks; eauto.
  - intros vis. apply andb_false_iff. destruct (Z.ltb_spec 0 tl); [right|left; reflexivity].
    rewrite Z.sub_diag, Z.gtb_ltb. apply Z.ltb_ge. lia.
  - intros vis rp a H Ha. apply andb_false_iff. apply andb_false_iff in H. destruct H as [H|H]; [left; exact H|right].
    rewrite Z.gtb_ltb in *. apply Z.ltb_ge in H. apply Z.ltb_ge. lia.
  - intros. eapply slice_cut_final; eauto.
  - intros log s req v a sl0 Hr H. unfold slice_cut in H.
    destruct ((0 <? csl) && (csl <? Z.of_nat (length (pend log s req v)))) eqn:Eb; inversion H; subst; [|lia].
    apply andb_prop in Eb. destruct Eb as [Eb1 Eb2]. apply Z.ltb_lt in Eb1, Eb2.
    assert (Hn : In (nth (Z.to_nat (csl - 1)) (pend log s req v) dflt_entry) (pend log s req v)) by (apply nth_In; lia).
    rewrite pend_in in Hn. lia.
  - intros. eapply pend_shrinks; eauto.
Qed.

(* ---------- the other recovery triggers: gap / idle timers, startup ---------- *)
Theorem no_loss_timer_common : forall c log ops vis,
  wf_log log -> server_ok c ->
  forall s e, (s = 0 \/ s = 1) -> In e log -> eseq e = s -> base c s < epos e <= vis s ->
              accounted s e (mtr (mrun c log (ops ++ [MTimerCommon vis]))).
Proof.
  intros c log ops vis Hwf Hok s e Hs H1 H2 H4.
  pose proof (no_loss_common_total c log ops vis Hwf Hok s e Hs H1 H2 H4) as P.
  rewrite mrun_snoc in *. exact P.
Qed.
Theorem no_loss_timer_channel : forall c log ops vis s,
  wf_log log -> server_ok c -> 2 <= s < nseq c -> mtracked (mrun c log ops) s = true ->
  forall e, In e log -> eseq e = s -> base c s < epos e <= vis s ->
            accounted s e (mtr (mrun c log (ops ++ [MTimerChan vis s]))).
Proof.
  intros c log ops vis s Hwf Hok Hs Ht e H1 H2 H4.
  pose proof (no_loss_channel_total c log ops vis s Hwf Hok Hs Ht e H1 H2 H4) as P.
  rewrite mrun_snoc in *. exact P.
Qed.

Lemma fold_chan_other : forall c log vis l m s1, ~ In s1 l ->
  mbox (fold_left (fun m s => chan_diff (fuel_of log) c log vis s m) l m) s1 = mbox m s1.
Proof.
  induction l as [|s t IH]; intros m s1 Hn; cbn [fold_left]; auto.
  rewrite IH; [|intro; apply Hn; simpl; auto]. apply chan_diff_other. intros ->; apply Hn; simpl; auto.
Qed.
Theorem no_loss_startup_common : forall c log ops vis,
  wf_log log -> server_ok c ->
  forall s e, (s = 0 \/ s = 1) -> In e log -> eseq e = s -> base c s < epos e <= vis s ->
              accounted s e (mtr (mrun c log (ops ++ [MStartup vis]))).
Proof.
  intros c log ops vis Hwf Hok s e Hs H1 H2 H4.
  assert (HI : Inv c log (mrun c log (ops ++ [MStartup vis]))) by (apply mrun_inv; auto).
  rewrite mrun_snoc in *. cbn [mstep] in *.
  assert (Hf : moof (get_diff (fuel_of log) c log vis (mrun c log ops)) = false).
  { apply get_diff_fuel_log; auto. apply never_out_of_fuel; auto. }
  pose proof (get_diff_drained _ _ _ _ _ Hok Hf) as Hd. apply app_eq_nil in Hd. destruct Hd as [Hd0 Hd1].
  assert (Hn : forall s1, s1 = 0 \/ s1 = 1 -> ~ In s1 (filter (tracked0 c) (chan_seqs c))).
  { intros s1 Hs1 Hin. rewrite filter_In in Hin. destruct Hin as [Hin _]. unfold chan_seqs in Hin.
    rewrite in_map_iff in Hin. destruct Hin as (i & E & _). lia. }
  destruct Hs as [->| ->].
  - apply (drained_cov c log _ 0 (vis 0) e HI); auto; try lia. rewrite fold_chan_other; auto.
  - apply (drained_cov c log _ 1 (vis 1) e HI); auto; try lia. rewrite fold_chan_other; auto.
Qed.

(* ---------- manager-level ordering (C01) at quiescent points ---------- *)
(* whatever has been delivered, everything of its sequence below its start has been delivered
   (or reported too long) too.  Inside one fetched difference the handler receives
   other_updates before new_messages; the positions in between are covered by that very
   difference, and by the time the difference is applied the set is downward closed. *)
Theorem manager_in_order : forall c log ops,
  wf_log log -> NoDup (map eid log) -> server_ok c -> vis_ok c log (mgr_init c) ops ->
  forall s e e', 0 <= s -> In e log -> eseq e = s -> In (Deliver s (eid e)) (mtr (mrun c log ops)) ->
                 In e' log -> eseq e' = s -> base c s < epos e' <= epos e - ecnt e ->
                 accounted s e' (mtr (mrun c log ops)).
Proof.
  intros c log ops Hwf Hu Hok Hv s e e' Hs H1 H2 Hd H1' H2' Hr.
  assert (HI : Inv c log (mrun c log ops)) by (apply mrun_inv; auto).
  assert (H2i : Inv2 log (mrun c log ops)).
  { apply mrun_from_inv2; auto; [apply mgr_init_inv|]. constructor; simpl; [intros s0 id _ []|constructor]. }
  destruct (inv2_old _ _ H2i s (eid e) Hs Hd) as (e0 & A1 & A2 & A3 & A4).
  assert (e0 = e) by (eapply eid_inj; eauto). subst e0.
  destruct (upd_of_cnt log e Hwf H1 ltac:(lia)) as [_ Hc].
  apply (inv_cov _ _ _ HI); auto. lia.
Qed.

(* ---------- C03 for the real, interleaved trace ---------- *)
Definition ev_seq (ev : tev) : Z := match ev with Deliver s _ | Persist s _ | TooLong s _ _ | Skip s _ => s end.
Definition proj (s : Z) (tr : list tev) : list tev := filter (fun ev => ev_seq ev =? s) tr.
Definition safe_seq (c : config) (log : list entry) (s : Z) (tr : list tev) : Prop :=
  forall e, In e log -> eseq e = s -> base c s < epos e <= persisted c s tr -> accounted s e tr.

Lemma persisted_proj : forall c s tr, persisted c s (proj s tr) = persisted c s tr.
Proof.
  intros c s tr. unfold persisted. generalize (base c s). induction tr as [|ev t IH]; intros d; simpl; auto.
  destruct ev as [s' id|s' v|s' f t0|s' id]; simpl; destruct (Z.eqb_spec s' s); simpl; try apply IH.
  subst. rewrite Z.eqb_refl. apply IH.
Qed.
Lemma in_proj : forall s ev tr, ev_seq ev = s -> (In ev (proj s tr) <-> In ev tr).
Proof.
  intros s ev tr H. unfold proj. rewrite filter_In. rewrite H, Z.eqb_refl. tauto.
Qed.
Lemma accounted_proj : forall s e tr, accounted s e (proj s tr) <-> accounted s e tr.
Proof.
  intros s e tr. unfold accounted. rewrite !in_proj by reflexivity.
  split; (intros [H|[H|(f & t & H & Hr)]]; [left; auto|right; left; auto|right; right; exists f, t; split; auto]);
    [rewrite in_proj in H by reflexivity|rewrite in_proj by reflexivity]; auto.
Qed.
Lemma safe_at_proj : forall c log tr, safe_at c log tr <-> (forall s, 0 <= s -> safe_seq c log s (proj s tr)).
Proof.
  intros c log tr. unfold safe_at, safe_seq. split.
  - intros H s Hs e H1 H2 H3. rewrite accounted_proj. rewrite persisted_proj in H3. apply H; auto.
  - intros H s e H1 H2 Hs H3. rewrite <- accounted_proj. apply (H s Hs e H1 H2). rewrite persisted_proj. auto.
Qed.
(* a prefix of a projection is the projection of a prefix *)
Lemma prefix_of_proj : forall s tr p q, proj s tr = p ++ q -> exists pre post, tr = pre ++ post /\ proj s pre = p.
Proof.
  intros s tr. induction tr as [|a t IH]; intros p q H; simpl in H.
  - symmetry in H. apply app_eq_nil in H. destruct H as [-> _]. exists [], []. auto.
  - destruct (ev_seq a =? s) eqn:E.
    + destruct p as [|b p'].
      * exists [], (a :: t). auto.
      * simpl in H. inversion H; subst. destruct (IH _ _ H2) as (pre & post & -> & Hp).
        exists (b :: pre), post. split; auto. simpl. rewrite E, Hp. reflexivity.
    + destruct (IH _ _ H) as (pre & post & -> & Hp).
      exists (a :: pre), post. split; auto. simpl. rewrite E. exact Hp.
Qed.

(* Any trace that has, per sequence, the program order of the model's trace (i.e. any
   interleaving of the main loop and the channel workers) is safe at every prefix. *)
Theorem prefix_safe_interleaved : forall c log ops tr',
  wf_log log ->
  (forall s, 0 <= s -> proj s tr' = proj s (mtr (mrun c log ops))) ->
  forall pre' post', tr' = pre' ++ post' -> safe_at c log pre'.
Proof.
  intros c log ops tr' Hwf Hp pre' post' E. rewrite safe_at_proj. intros s Hs.
  assert (E2 : proj s (mtr (mrun c log ops)) = proj s pre' ++ proj s post').
  { rewrite <- Hp by auto. rewrite E. unfold proj. apply filter_app. }
  destruct (prefix_of_proj _ _ _ _ E2) as (pre & post & Em & Epre).
  pose proof (prefix_safe c log ops pre post Hwf Em) as Hsafe.
  rewrite safe_at_proj in Hsafe. rewrite <- Epre. apply Hsafe; auto.
Qed.
