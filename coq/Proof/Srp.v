(* Proofs for C15: SRP.Hash = specification, server-side agreement (Z algebra), acceptance /
   rejection by the verifier, refusal of invalid groups. *)
From Coq Require Import ZArith List Bool Lia Zpow_facts.
From TD Require Import Lib.Bytes Lib.GoSem Lib.BeBytes Model.Srp Model.SrpSpec.
Import ListNotations.
Open Scope Z_scope.

(* ---------- encodings ---------- *)
Lemma pow256_2048 : 256 ^ 256 = 2 ^ 2048.
Proof. change 256 with (2 ^ 8) at 1. rewrite <- Z.pow_mul_r by lia. reflexivity. Qed.

Lemma le_enc_map n : forall v, le_enc n v = map (fun i => (v / 256 ^ Z.of_nat i) mod 256) (seq 0 n).
Proof.
  induction n as [|n IH]; intros v; [reflexivity|].
  cbn [le_enc]. rewrite IH. cbn [seq map]. change (Z.of_nat 0) with 0. rewrite Z.pow_0_r, Z.div_1_r. f_equal.
  rewrite <- seq_shift, map_map. apply map_ext. intros i.
  rewrite Nat2Z.inj_succ, Z.pow_succ_r by lia. rewrite Z.div_div by (try apply Z.pow_pos_nonneg; lia). reflexivity.
Qed.
Lemma rev_map_seq {A} (f : nat -> A) n : rev (map f (seq 0 n)) = map (fun i => f (n - 1 - i)%nat) (seq 0 n).
Proof.
  induction n as [|n IH]; [reflexivity|].
  rewrite seq_S at 1. rewrite map_app, rev_app_distr. simpl rev. simpl app.
  rewrite IH.
  change (seq 0 (S n)) with (0%nat :: seq 1 n). cbn [map].
  replace (S n - 1 - 0)%nat with n by lia. f_equal.
  rewrite <- seq_shift, map_map. apply map_ext. intros i. f_equal. lia.
Qed.
Lemma num2048_eq v : num2048 v = be_enc 256 v.
Proof.
  unfold num2048, be_enc. rewrite le_enc_map, rev_map_seq. apply map_ext_in. intros i Hi.
  replace (256 - 1 - i)%nat with (255 - i)%nat by lia. reflexivity.
Qed.
Lemma to_num_eq s : to_num s = be_dec s.
Proof. change (to_num s) with (be_horner s). apply be_horner_dec. Qed.
Lemma XOR_eq a b : SrpSpec.XOR a b = xor_bytes a b.
Proof. unfold SrpSpec.XOR; revert b; induction a as [|x a IH]; intros [|y b]; cbn; try reflexivity. f_equal; apply IH. Qed.

Lemma be_dec_zeros n : be_dec (repeat 0 n) = 0.
Proof.
  induction n as [|n IH]; [reflexivity|]. change (repeat 0 (S n)) with ([0] ++ repeat 0 n).
  rewrite be_dec_app, IH. unfold be_dec; cbn. lia.
Qed.
Lemma bytes_ok_zeros n : bytes_ok (repeat 0 n).
Proof. apply bytes_ok_repeat; unfold byte_ok; lia. Qed.

(* pad256 of any encoding of a number below 2^2048 is its canonical 256-byte form *)
Lemma pad256_canon b : bytes_ok b -> be_dec b < 256 ^ 256 -> pad256 b = be_enc 256 (be_dec b).
Proof.
  intros Hb Hlt. unfold pad256. destruct (Nat.leb_spec 256 (length b)) as [Hl|Hl].
  - set (hi := firstn (length b - 256) b). set (lo := skipn (length b - 256) b).
    assert (b = hi ++ lo) as Eb by (symmetry; apply firstn_skipn).
    assert (length lo = 256%nat) as Hlo by (unfold lo; rewrite skipn_length; lia).
    assert (bytes_ok hi) as Hhio by (apply bytes_ok_firstn; exact Hb).
    assert (bytes_ok lo) as Hloo by (apply bytes_ok_skipn; exact Hb).
    assert (be_dec b = be_dec hi * 256 ^ 256 + be_dec lo) as Ed
      by (rewrite Eb at 1; rewrite be_dec_app, Hlo; reflexivity).
    pose proof (be_dec_range hi Hhio) as [Hh0 _]. pose proof (be_dec_range lo Hloo) as [Hl0 _].
    assert (0 < 256 ^ 256) as Hpos by (apply Z.pow_pos_nonneg; lia).
    assert (be_dec hi = 0) as Ez by nia.
    rewrite Ed, Ez, Z.mul_0_l, Z.add_0_l.
    pose proof (be_enc_dec lo Hloo) as E. rewrite Hlo in E. symmetry; exact E.
  - assert (length (repeat 0 (256 - length b) ++ b) = 256%nat) as Hlen by (rewrite app_length, repeat_length; lia).
    assert (be_dec (repeat 0 (256 - length b) ++ b) = be_dec b) as E
      by (rewrite be_dec_app, be_dec_zeros; lia).
    assert (bytes_ok (repeat 0 (256 - length b) ++ b)) as Hzo
      by (apply bytes_ok_app; split; [apply bytes_ok_zeros|exact Hb]).
    pose proof (be_enc_dec _ Hzo) as E2. rewrite Hlen, E in E2. symmetry; exact E2.
Qed.

(* ---------- modular algebra ---------- *)
Lemma pow_mod_base a n m : 0 < m -> (a mod m) ^ n mod m = a ^ n mod m.
Proof. intros Hm. symmetry. apply Zpower_mod. lia. Qed.

(* the heart of SRP: client and server derive the same secret, for every modulus p > 0 *)
Theorem srp_secret_agree p g k x a b u :
  0 < p -> 0 <= x -> 0 <= a -> 0 <= b -> 0 <= u ->
  let v := g ^ x mod p in
  let B := (k * v + g ^ b) mod p in
  let A := g ^ a mod p in
  ((B - (k * v) mod p) mod p) ^ (a + u * x) mod p = (A * v ^ u) ^ b mod p.
Proof.
  intros Hp Hx Ha Hb Hu v B A.
  assert (((B - (k * v) mod p) mod p) = g ^ b mod p) as Ebase.
  { unfold B. rewrite Zminus_mod, !Z.mod_mod by lia. rewrite <- Zminus_mod.
    replace (k * v + g ^ b - k * v) with (g ^ b) by ring. reflexivity. }
  rewrite Ebase. rewrite pow_mod_base by exact Hp.
  rewrite <- (pow_mod_base (A * v ^ u)) by exact Hp.
  assert ((A * v ^ u) mod p = g ^ (a + x * u) mod p) as Eav.
  { unfold A, v. rewrite Zmult_mod, Z.mod_mod by lia. rewrite pow_mod_base by exact Hp.
    rewrite <- Zmult_mod. rewrite <- Z.pow_mul_r, <- Z.pow_add_r by nia. reflexivity. }
  rewrite Eav, pow_mod_base by exact Hp.
  rewrite <- !Z.pow_mul_r by nia. f_equal. f_equal. ring.
Qed.

Section SrpProofs.
  Variable H : list Z -> list Z.
  Variable pbkdf2 : list Z -> list Z -> list Z.
  Variable modexp : Z -> Z -> Z -> Z.
  Variable check_dh : Z -> Z -> bool.

  Notation hash_wf := (Srp.hash_wf H).
  Notation exp_is_pow := (Srp.exp_is_pow modexp).
  Notation check_dh_bounds := (Srp.check_dh_bounds check_dh).
  Notation srp_hash := (srp_hash H pbkdf2 modexp check_dh).
  Notation srp_new_hash := (srp_new_hash H pbkdf2 modexp check_dh).

  Lemma H_num x : hash_wf -> 0 <= be_dec (H x).
  Proof. intros Hw. apply be_dec_range. apply Hw. Qed.

  Lemma compute_x_spec password salt1 salt2 :
    compute_x H pbkdf2 password salt1 salt2 = spec_x H pbkdf2 password salt1 salt2.
  Proof. unfold compute_x, spec_x. rewrite to_num_eq. reflexivity. Qed.

  Lemma pad_big v : 0 <= v < 256 ^ 256 -> pad256_from_big v = Some (be_enc 256 v).
  Proof. intros Hv. unfold pad256_from_big. destruct (Z.ltb_spec v (256 ^ 256)); [reflexivity|lia]. Qed.

  (* C15_spec *)
  Theorem srp_hash_spec : hash_wf -> exp_is_pow -> check_dh_bounds ->
    forall password srpB random salt1 salt2 g P,
      bytes_ok P -> bytes_ok srpB -> bytes_ok random ->
      check_dh g (be_dec P) = true -> be_dec srpB < 2 ^ 2048 ->
      srp_hash password srpB random salt1 salt2 g P =
        Ok (spec_answer H pbkdf2 password salt1 salt2 (be_dec P) g (be_dec srpB) (be_dec random)).
  Proof.
    intros Hw He Hc password srpB random salt1 salt2 g P HP HB Ha Hchk HBlt.
    unfold Srp.exp_is_pow in He.
    destruct (Hc _ _ Hchk) as [Hg Hp]. set (p := be_dec P) in *.
    rewrite <- pow256_2048 in Hp, HBlt.
    assert (0 < 2 ^ 2047) as H2047 by (apply Z.pow_pos_nonneg; lia).
    assert (0 < p) as Hp0 by lia.
    pose proof (be_dec_range random Ha) as [Ha0 _]. pose proof (be_dec_range srpB HB) as [HB0 _].
    unfold Srp.srp_hash. fold p. rewrite Hchk. cbn [negb].
    rewrite pad_big by lia.
    rewrite Z.abs_eq by lia.
    rewrite He by lia.
    pose proof (Z.mod_pos_bound (g ^ be_dec random) p Hp0) as Hga.
    rewrite pad_big by lia.
    rewrite pad256_canon by assumption.
    rewrite compute_x_spec. set (x := spec_x H pbkdf2 password salt1 salt2).
    assert (0 <= x) as Hx0 by (unfold x, spec_x; rewrite to_num_eq; apply be_dec_range; apply Hw).
    rewrite (He g x p) by lia.
    set (u := be_dec (H (be_enc 256 (g ^ be_dec random mod p) ++ be_enc 256 (be_dec srpB)))).
    assert (0 <= u) as Hu0 by (apply H_num; exact Hw).
    set (k := be_dec (H (be_enc 256 p ++ be_enc 256 g))).
    set (kv := (k * (g ^ x mod p)) mod p).
    set (t := if be_dec srpB - kv <? 0 then be_dec srpB - kv + p else be_dec srpB - kv).
    rewrite (He t) by nia.
    pose proof (Z.mod_pos_bound (t ^ (u * x + be_dec random)) p Hp0) as Hsa.
    rewrite pad_big by lia.
    unfold spec_answer, spec_M1, spec_g_a, spec_u, spec_s_a, spec_k, spec_v.
    rewrite !num2048_eq, !to_num_eq, XOR_eq. fold x. fold u. fold k. fold kv.
    assert (t ^ (u * x + be_dec random) mod p = ((be_dec srpB - kv) mod p) ^ (be_dec random + u * x) mod p) as Et.
    { rewrite (pow_mod_base (be_dec srpB - kv)) by exact Hp0. rewrite (Z.add_comm (be_dec random)).
      unfold t. destruct (Z.ltb_spec (be_dec srpB - kv) 0); [|reflexivity].
      rewrite <- (pow_mod_base (be_dec srpB - kv + p)) by exact Hp0.
      rewrite <- (Z.mul_1_l p) at 1. rewrite Z_mod_plus_full. apply pow_mod_base; exact Hp0. }
    rewrite Et. reflexivity.
  Qed.

  (* C15_refuse *)
  Theorem srp_refuse : forall password srpB random salt1 salt2 g P rnd,
    check_dh g (be_dec P) = false ->
    srp_hash password srpB random salt1 salt2 g P = Err ERefuse /\
    srp_new_hash password salt1 salt2 g P rnd = Err ERefuse.
  Proof. intros. unfold Srp.srp_hash, Srp.srp_new_hash. rewrite H0. split; reflexivity. Qed.

  (* the answer is refused ONLY for groups the check rejects (under the hypotheses of the spec theorem) *)
  Theorem srp_hash_ok_iff : hash_wf -> exp_is_pow -> check_dh_bounds ->
    forall password srpB random salt1 salt2 g P,
      bytes_ok P -> bytes_ok srpB -> bytes_ok random -> be_dec srpB < 2 ^ 2048 ->
      (is_ok (srp_hash password srpB random salt1 salt2 g P) = true <-> check_dh g (be_dec P) = true).
  Proof.
    intros Hw He Hc password srpB random salt1 salt2 g P HP HB Ha HBlt.
    destruct (check_dh g (be_dec P)) eqn:E.
    - rewrite srp_hash_spec by assumption. split; reflexivity.
    - destruct (srp_refuse password srpB random salt1 salt2 g P [] E) as [-> _]. split; discriminate.
  Qed.

  (* NewHash = specification *)
  Theorem srp_new_hash_spec : hash_wf -> exp_is_pow -> check_dh_bounds ->
    forall password salt1 salt2 g P rnd,
      check_dh g (be_dec P) = true -> (32 <= length rnd)%nat ->
      srp_new_hash password salt1 salt2 g P rnd =
        Ok (spec_new_password_hash H pbkdf2 password salt1 (firstn 32 rnd) salt2 (be_dec P) g,
            salt1 ++ firstn 32 rnd).
  Proof.
    intros Hw He Hc password salt1 salt2 g P rnd Hchk Hr. unfold Srp.exp_is_pow in He.
    destruct (Hc _ _ Hchk) as [Hg Hp]. rewrite <- pow256_2048 in Hp.
    assert (0 < 2 ^ 2047) as H2047 by (apply Z.pow_pos_nonneg; lia).
    unfold Srp.srp_new_hash. rewrite Hchk. cbn [negb]. unfold read_full.
    destruct (Nat.leb_spec 32 (length rnd)); [|lia].
    rewrite compute_x_spec. set (x := spec_x H pbkdf2 password (salt1 ++ firstn 32 rnd) salt2).
    assert (0 <= x) as Hx0 by (unfold x, spec_x; rewrite to_num_eq; apply be_dec_range; apply Hw).
    rewrite He by lia.
    pose proof (Z.mod_pos_bound (g ^ x) (be_dec P) ltac:(lia)) as Hv.
    rewrite pad_big by lia. unfold spec_new_password_hash, spec_v. rewrite num2048_eq. reflexivity.
  Qed.
End SrpProofs.

(* ---------- the verifier ---------- *)
Section Verifier.
  Variable H : list Z -> list Z.
  Variable pbkdf2 : list Z -> list Z -> list Z.
  Notation hash_wf := (Srp.hash_wf H).

  Lemma to_num_nonneg x : hash_wf -> 0 <= to_num (H x).
  Proof. intros Hw. rewrite to_num_eq. apply be_dec_range. apply Hw. Qed.

  (* C15_verifier: the server that holds v = g^x mod p for THE SAME password (salts) accepts the
     specification's answer; any modulus 0 < p <= 2^2048, any g, a, b >= 0 *)
  Theorem verifier_accepts_right_password : hash_wf ->
    forall password salt1 salt2 p g a b,
      0 < p <= 2 ^ 2048 -> 0 <= a -> 0 <= b ->
      let x := spec_x H pbkdf2 password salt1 salt2 in
      let v := spec_v p g x in
      let B := spec_server_B H p g v b in
      let '(A, M1) := spec_answer H pbkdf2 password salt1 salt2 p g B a in
      spec_server_accepts H p g salt1 salt2 v b A M1.
  Proof.
    intros Hw password salt1 salt2 p g a b Hp Ha Hb x v B. unfold spec_answer. fold x.
    unfold spec_server_accepts. fold B.
    assert (0 <= x) as Hx by (unfold x, spec_x; apply to_num_nonneg; exact Hw).
    pose proof (Z.mod_pos_bound (g ^ a) p ltac:(lia)) as Hga.
    assert (to_num (num2048 (spec_g_a p g a)) = spec_g_a p g a) as Ega.
    { rewrite to_num_eq, num2048_eq. apply be_dec_enc. change (Z.of_nat 256) with 256.
      rewrite pow256_2048. unfold spec_g_a. lia. }
    rewrite Ega. f_equal.
    set (u := spec_u H (spec_g_a p g a) B).
    assert (0 <= u) as Hu by (unfold u, spec_u; apply to_num_nonneg; exact Hw).
    unfold spec_s_a, spec_s_b, B, spec_server_B, v, spec_v, spec_g_a.
    apply (srp_secret_agree p g (spec_k H p g) x a b u); lia.
  Qed.

  (* acceptance = equality of the session secrets, under collision-freedom of SHA-256 on the two
     particular pairs of inputs involved (explicit hypotheses) *)
  Theorem verifier_accepts_iff :
    forall p g salt1 salt2 v b g_a s_a,
      0 <= s_a < 2 ^ 2048 -> 0 <= g_a < 2 ^ 2048 ->
      let g_b := spec_server_B H p g v b in
      let u := spec_u H g_a g_b in
      let s_b := spec_s_b p v g_a u b in
      0 <= s_b < 2 ^ 2048 ->
      let prefix := SrpSpec.XOR (H (num2048 p)) (H (num2048 g)) ++ H salt1 ++ H salt2 ++ num2048 g_a ++ num2048 g_b in
      (* no SHA-256 collision between the two session-secret encodings, nor between the two M1 inputs *)
      (H (num2048 s_a) = H (num2048 s_b) -> num2048 s_a = num2048 s_b) ->
      (H (prefix ++ H (num2048 s_a)) = H (prefix ++ H (num2048 s_b)) ->
       prefix ++ H (num2048 s_a) = prefix ++ H (num2048 s_b)) ->
      (spec_server_accepts H p g salt1 salt2 v b (num2048 g_a) (spec_M1 H p g salt1 salt2 g_a g_b s_a)
       <-> s_a = s_b).
  Proof.
    intros p g salt1 salt2 v b g_a s_a Hsa Hga g_b u s_b Hsb prefix Hc1 Hc2.
    unfold spec_server_accepts.
    assert (to_num (num2048 g_a) = g_a) as Ega.
    { rewrite to_num_eq, num2048_eq. apply be_dec_enc. change (Z.of_nat 256) with 256. rewrite pow256_2048. exact Hga. }
    rewrite Ega. fold g_b. fold u. fold s_b. unfold spec_M1.
    repeat rewrite app_assoc in *.
    split.
    - intros E. unfold prefix in Hc2. repeat rewrite app_assoc in Hc2. apply Hc2 in E.
      apply app_inv_head in E. apply Hc1 in E. rewrite !num2048_eq in E.
      apply be_enc_inj in E; [exact E| |]; change (Z.of_nat 256) with 256; rewrite pow256_2048; assumption.
    - intros ->. reflexivity.
  Qed.
End Verifier.

(* ---------- end to end: answers computed from a password, by the specification and by the code model ---------- *)
Section EndToEnd.
  Variable H : list Z -> list Z.
  Variable pbkdf2 : list Z -> list Z -> list Z.
  Variable modexp : Z -> Z -> Z -> Z.
  Variable check_dh : Z -> Z -> bool.
  Notation hash_wf := (Srp.hash_wf H).
  Notation exp_is_pow := (Srp.exp_is_pow modexp).
  Notation check_dh_bounds := (Srp.check_dh_bounds check_dh).
  Notation srp_hash := (srp_hash H pbkdf2 modexp check_dh).

  (* the two SHA-256 no-collision premises for the session secrets s_a, s_b of one login attempt *)
  Definition no_collision (p g : Z) (salt1 salt2 : list Z) (g_a g_b s_a s_b : Z) : Prop :=
    let prefix := SrpSpec.XOR (H (num2048 p)) (H (num2048 g)) ++ H salt1 ++ H salt2 ++ num2048 g_a ++ num2048 g_b in
    (H (num2048 s_a) = H (num2048 s_b) -> num2048 s_a = num2048 s_b) /\
    (H (prefix ++ H (num2048 s_a)) = H (prefix ++ H (num2048 s_b)) ->
     prefix ++ H (num2048 s_a) = prefix ++ H (num2048 s_b)).

  (* An answer computed (by the specification) from ANY password, presented to a verifier holding ANY
     v: accepted iff the client's secret for that password equals the server's secret. *)
  Theorem answer_accept_iff :
    forall password salt1 salt2 p g v a b,
      0 < p <= 2 ^ 2048 ->
      let B := spec_server_B H p g v b in
      let g_a := spec_g_a p g a in
      let u := spec_u H g_a B in
      let s_a := spec_s_a H p g B a u (spec_x H pbkdf2 password salt1 salt2) in
      let s_b := spec_s_b p v g_a u b in
      no_collision p g salt1 salt2 g_a B s_a s_b ->
      let '(A, M1) := spec_answer H pbkdf2 password salt1 salt2 p g B a in
      (spec_server_accepts H p g salt1 salt2 v b A M1 <-> s_a = s_b).
  Proof.
    intros password salt1 salt2 p g v a b Hp B g_a u s_a s_b [Hc1 Hc2].
    unfold spec_answer. fold g_a. fold u. fold s_a.
    assert (forall z, 0 <= z mod p < 2 ^ 2048) as Hb by (intros z; pose proof (Z.mod_pos_bound z p ltac:(lia)); lia).
    apply verifier_accepts_iff; try assumption; unfold s_a, s_b, g_a, spec_s_a, spec_s_b, spec_g_a; apply Hb.
  Qed.

  (* the same for the answer computed by the CODE MODEL from [password], any encoding of B *)
  Theorem code_answer_accept_iff : hash_wf -> exp_is_pow -> check_dh_bounds ->
    forall password srpB random salt1 salt2 g P v b,
      bytes_ok P -> bytes_ok srpB -> bytes_ok random -> check_dh g (be_dec P) = true ->
      let p := be_dec P in
      let a := be_dec random in
      be_dec srpB = spec_server_B H p g v b ->
      let B := spec_server_B H p g v b in
      let g_a := spec_g_a p g a in
      let u := spec_u H g_a B in
      let s_a := spec_s_a H p g B a u (spec_x H pbkdf2 password salt1 salt2) in
      let s_b := spec_s_b p v g_a u b in
      no_collision p g salt1 salt2 g_a B s_a s_b ->
      exists A M1, srp_hash password srpB random salt1 salt2 g P = Ok (A, M1) /\
                   (spec_server_accepts H p g salt1 salt2 v b A M1 <-> s_a = s_b).
  Proof.
    intros Hw He Hc password srpB random salt1 salt2 g P v b HP HB Ha Hchk p a EB B g_a u s_a s_b Hnc.
    destruct (Hc _ _ Hchk) as [Hg Hp]. fold p in Hp.
    assert (0 < 2 ^ 2047) as H2047 by (apply Z.pow_pos_nonneg; lia).
    assert (be_dec srpB < 2 ^ 2048) as HBlt
      by (rewrite EB; unfold spec_server_B; pose proof (Z.mod_pos_bound (spec_k H p g * v + g ^ b) p ltac:(lia)); lia).
    rewrite (srp_hash_spec H pbkdf2 modexp check_dh Hw He Hc) by assumption.
    fold p. fold a. rewrite EB. fold B.
    pose proof (answer_accept_iff password salt1 salt2 p g v a b ltac:(lia) Hnc) as Hiff.
    fold B in Hiff. destruct (spec_answer H pbkdf2 password salt1 salt2 p g B a) as [A M1].
    exists A, M1. split; [reflexivity|exact Hiff].
  Qed.

  (* C15_verifier_code: the verifier made from the same password accepts the code model's answer *)
  Theorem code_verifier : hash_wf -> exp_is_pow -> check_dh_bounds ->
    forall password srpB random salt1 salt2 g P b,
      bytes_ok P -> bytes_ok srpB -> bytes_ok random -> check_dh g (be_dec P) = true -> 0 <= b ->
      let p := be_dec P in
      let v := spec_v p g (spec_x H pbkdf2 password salt1 salt2) in
      be_dec srpB = spec_server_B H p g v b ->
      exists A M1, srp_hash password srpB random salt1 salt2 g P = Ok (A, M1) /\
                   spec_server_accepts H p g salt1 salt2 v b A M1.
  Proof.
    intros Hw He Hc password srpB random salt1 salt2 g P b HP HB Ha Hchk Hb p v EB.
    destruct (Hc _ _ Hchk) as [Hg Hp]. fold p in Hp.
    assert (0 < 2 ^ 2047) as H2047 by (apply Z.pow_pos_nonneg; lia).
    assert (be_dec srpB < 2 ^ 2048) as HBlt
      by (rewrite EB; unfold spec_server_B; pose proof (Z.mod_pos_bound (spec_k H p g * v + g ^ b) p ltac:(lia)); lia).
    rewrite (srp_hash_spec H pbkdf2 modexp check_dh Hw He Hc) by assumption.
    fold p. rewrite EB.
    pose proof (be_dec_range random Ha) as [Ha0 _].
    pose proof (verifier_accepts_right_password H pbkdf2 Hw password salt1 salt2 p g (be_dec random) b ltac:(lia) Ha0 Hb) as Hacc.
    cbv zeta in Hacc. fold v in Hacc.
    destruct (spec_answer H pbkdf2 password salt1 salt2 p g (spec_server_B H p g v b) (be_dec random)) as [A M1].
    exists A, M1. split; [reflexivity|exact Hacc].
  Qed.

  (* specification restricted to valid server values *)
  Theorem srp_hash_spec_valid : hash_wf -> exp_is_pow -> check_dh_bounds ->
    forall password srpB random salt1 salt2 g P,
      bytes_ok P -> bytes_ok srpB -> bytes_ok random ->
      check_dh g (be_dec P) = true -> spec_valid_B (be_dec P) (be_dec srpB) ->
      srp_hash password srpB random salt1 salt2 g P =
        Ok (spec_answer H pbkdf2 password salt1 salt2 (be_dec P) g (be_dec srpB) (be_dec random)).
  Proof.
    intros Hw He Hc password srpB random salt1 salt2 g P HP HB Ha Hchk [HB0 HBp].
    destruct (Hc _ _ Hchk) as [_ Hp]. apply srp_hash_spec; try assumption. lia.
  Qed.
End EndToEnd.

(* ---------- non-vacuity instance ---------- *)
Definition nv_H (_ : list Z) : list Z := repeat 1 32.
Definition nv_pbkdf2 (_ _ : list Z) : list Z := repeat 2 64.
Definition nv_check (g p : Z) : bool := (2 <=? g) && (g <=? 7) && (2 ^ 2047 <=? p) && (p <? 2 ^ 2048).
Lemma nv_srp_hyps : hash_wf nv_H /\ exp_is_pow modexp_sm /\ check_dh_bounds nv_check.
Proof.
  split; [|split].
  - intros x; split; [apply repeat_length|apply bytes_ok_repeat; unfold byte_ok; lia].
  - intros b x m Hx Hm; apply modexp_sm_spec; assumption.
  - intros g p Hc. unfold nv_check in Hc. rewrite !andb_true_iff, !Z.leb_le, Z.ltb_lt in Hc. lia.
Qed.
