(* Non-degenerate non-vacuity witness for C14_hashed_roundtrip: a real SHA-1 (coq/Impl, wrapped so
   that well-formedness is provable for every input) on 220 bytes of data, where the collision
   premise has 15 genuine instances, all checked by evaluation. *)
From Coq Require Import ZArith List Bool Lia.
From TD Require Import Lib.Bytes Lib.GoSem Lib.BeBytes Impl.Sha1 Model.RsaPad Proof.RsaPad.
Import ListNotations.
Open Scope Z_scope.

(* Impl SHA-1 with the (always true, but unproved for the Gallina code) output shape enforced *)
Definition nv_sha1r (x : list Z) : list Z :=
  firstn 20 (map (fun b => b mod 256) (Sha1.sha1 x) ++ repeat 0 20).

Lemma nv_sha1r_wf : sha1_wf nv_sha1r.
Proof.
  intros x; unfold nv_sha1r; split.
  - rewrite firstn_length, app_length, repeat_length. lia.
  - apply bytes_ok_firstn. apply bytes_ok_app; split.
    + unfold bytes_ok. apply Forall_forall. intros b Hb. apply in_map_iff in Hb. destruct Hb as [y [<- _]].
      unfold byte_ok. apply Z.mod_pos_bound. lia.
    + apply bytes_ok_repeat; unfold byte_ok; lia.
Qed.

Definition nv_data : list Z := map Z.of_nat (seq 0 220).
Definition nv_stream : list Z := repeat 9 255.
Definition nv_padded : list Z := nv_data ++ skipn (20 + length nv_data) (firstn 255 nv_stream).

Definition nv_premise_b : bool :=
  forallb (fun i => negb (beqb (nv_sha1r (firstn i nv_padded)) (nv_sha1r nv_data))) (seq 221 15).

Lemma nv_premise : forall i, (length nv_data < i <= 235)%nat ->
  nv_sha1r (firstn i nv_padded) <> nv_sha1r nv_data.
Proof.
  assert (nv_premise_b = true) as Hb by (vm_compute; reflexivity).
  intros i Hi. change (length nv_data) with 220%nat in Hi.
  unfold nv_premise_b in Hb. rewrite forallb_forall in Hb.
  specialize (Hb i ltac:(apply in_seq; lia)). apply negb_true_iff in Hb. apply beqb_neq in Hb. exact Hb.
Qed.

Lemma nv_real_sha1_is_used : nv_sha1r nv_data = Sha1.sha1 nv_data.
Proof. vm_compute. reflexivity. Qed.

Lemma hashed_roundtrip_nonvacuous :
  sha1_wf nv_sha1r /\ modexp_is_pow modexp_sm nv_N /\ rsa_key_pair nv_N 1 1 /\
  (forall i, (length nv_data < i <= 235)%nat ->
     nv_sha1r (firstn i (nv_data ++ skipn (20 + length nv_data) (firstn 255 nv_stream))) <> nv_sha1r nv_data) /\
  exists c, rsa_encrypt_hashed nv_sha1r modexp_sm nv_N 1 nv_data nv_stream = Ok c /\
            rsa_decrypt_hashed nv_sha1r modexp_sm nv_N 1 c = Ok nv_data.
Proof.
  destruct nv_hyps as [_ [_ [_ [_ [_ [_ [He [Hk [HN _]]]]]]]]].
  assert (bytes_ok nv_data) as Hd by (apply bytes_okb_spec; vm_compute; reflexivity).
  assert (bytes_ok nv_stream) as Hr by (apply bytes_okb_spec; vm_compute; reflexivity).
  assert (length nv_data <= 235)%nat as Hl by (vm_compute; lia).
  split; [exact nv_sha1r_wf|split; [exact He|split; [exact Hk|split; [exact nv_premise|]]]].
  assert (0 < nv_N) as Hpos by (destruct HN as [HN _]; pose proof (Z.pow_pos_nonneg 256 255 ltac:(lia) ltac:(lia)); lia).
  pose proof (hashed_total nv_sha1r modexp_sm nv_N 1 nv_sha1r_wf He ltac:(lia) ltac:(lia) nv_data nv_stream) as Ht.
  destruct (rsa_encrypt_hashed nv_sha1r modexp_sm nv_N 1 nv_data nv_stream) as [c|[]|] eqn:E; try contradiction.
  - exists c. split; [reflexivity|].
    exact (hashed_roundtrip nv_sha1r modexp_sm nv_N 1 1 nv_sha1r_wf He Hk HN nv_data nv_stream c Hd Hr Hl nv_premise E).
  - exfalso. vm_compute in Ht. lia.
  - exfalso. destruct Ht as [_ Ht]. vm_compute in Ht. lia.
Qed.
