(* Proofs about the entity.Builder model (C35; reused by C37). *)
From Coq Require Import ZArith List Bool Lia Permutation.
From TD Require Import Lib.GoSem Lib.Utf Gen.EntityLess Gen.EntityUtf Model.EntitySort Proof.EntitySort Model.Entity.
Import ListNotations.
Open Scope Z_scope.

(* ---------- ComputeLength on valid text ---------- *)
Lemma utf16_go_eq c : c <= 1114111 -> utf16_rune_len_go c = utf16len c.
Proof.
  intros H; unfold utf16_rune_len_go, utf16len.
  destruct (65536 <=? c) eqn:E; cbn [andb]; [|reflexivity].
  replace (c <=? 1114111) with true by (symmetry; apply Z.leb_le; lia). reflexivity.
Qed.
Lemma cp_valid_le c : cp_valid c -> c <= 1114111.
Proof. intros H; apply cp_valid_iff in H; lia. Qed.
Lemma sum_u16_go_valid l : Forall cp_valid l -> sum_u16_go l = u16c l.
Proof.
  induction 1 as [|c l Hc _ IH]; [reflexivity|]. cbn [sum_u16_go u16c].
  rewrite IH, utf16_go_eq by (apply cp_valid_le; exact Hc). reflexivity.
Qed.
Lemma compute_length_encode x : Forall cp_valid x -> compute_length (utf8_encode x) = u16c x.
Proof. intros H; unfold compute_length; rewrite go_decode_encode, sum_u16_go_valid by exact H; reflexivity. Qed.

Lemma written_rune_valid r : cp_valid (written_rune r).
Proof. unfold written_rune, cp_valid; destruct (cp_validb r) eqn:E; [exact E|reflexivity]. Qed.
Lemma go_encode_rune_written r : go_encode_rune r = utf8_encode [written_rune r].
Proof.
  unfold go_encode_rune, written_rune; cbn [utf8_encode flat_map]; rewrite app_nil_r.
  destruct (cp_validb r); reflexivity.
Qed.
Lemma utf16_go_written r : utf16_rune_len_go r = utf16len (written_rune r).
Proof.
  unfold written_rune. destruct (cp_validb r) eqn:E.
  - apply utf16_go_eq, cp_valid_le; exact E.
  - unfold cp_validb in E. unfold utf16_rune_len_go, utf16len, rune_error.
    destruct (65536 <=? r) eqn:E1; destruct (r <=? 1114111) eqn:E2; cbn [andb]; try reflexivity.
    zb; lia.
Qed.

(* ---------- lengths and slices ---------- *)
Lemma len_app {A} (a b : list A) : len (a ++ b) = len a + len b.
Proof. unfold len; rewrite app_length; lia. Qed.
Lemma len_nonneg {A} (a : list A) : 0 <= len a.
Proof. unfold len; lia. Qed.
Lemma len_nil {A} : len (@nil A) = 0.
Proof. reflexivity. Qed.
Lemma len_map {A B} (f : A -> B) l : len (map f l) = len l.
Proof. unfold len; rewrite map_length; reflexivity. Qed.

Lemma go_slice_suffix {A} (a b : list A) : @go_slice unit A (a ++ b) (len a) (len (a ++ b)) = Ok b.
Proof.
  unfold go_slice. pose proof (len_nonneg a); pose proof (len_nonneg b). rewrite len_app.
  replace ((0 <=? len a) && (len a <=? len a + len b) && (len a + len b <=? Z.of_nat (length (a ++ b)))) with true.
  - f_equal. unfold len. rewrite Nat2Z.id, skipn_app, skipn_all, Nat.sub_diag. cbn [skipn app].
    replace (Z.of_nat (length a) + Z.of_nat (length b) - Z.of_nat (length a)) with (Z.of_nat (length b)) by lia.
    rewrite Nat2Z.id; apply firstn_all.
  - symmetry; repeat (apply andb_true_intro; split); apply Z.leb_le; try lia.
    fold (len (a ++ b)); rewrite len_app; lia.
Qed.
Lemma go_slice_prefix {A} (a b : list A) : @go_slice unit A (a ++ b) 0 (len a) = Ok a.
Proof.
  unfold go_slice. pose proof (len_nonneg a); pose proof (len_nonneg b).
  replace ((0 <=? 0) && (0 <=? len a) && (len a <=? Z.of_nat (length (a ++ b)))) with true.
  - f_equal. cbn [Z.to_nat skipn]. rewrite Z.sub_0_r. unfold len; rewrite Nat2Z.id.
    rewrite firstn_app, firstn_all, Nat.sub_diag; cbn [firstn]; apply app_nil_r.
  - symmetry; repeat (apply andb_true_intro; split); apply Z.leb_le; try lia.
    fold (len (a ++ b)); rewrite len_app; lia.
Qed.

(* ---------- UTF-16 length of prefixes ---------- *)
Lemma u16c_firstn_le k l : u16c (firstn k l) <= u16c l.
Proof.
  rewrite <- (firstn_skipn k l) at 2. rewrite u16c_app. pose proof (u16c_nonneg (skipn k l)); lia.
Qed.
Lemma u16c_firstn_lt k l : (k < length l)%nat -> u16c (firstn k l) < u16c l.
Proof.
  intros H. rewrite <- (firstn_skipn k l) at 2. rewrite u16c_app.
  pose proof (u16c_ge_length (skipn k l)). rewrite skipn_length in *. lia.
Qed.

(* ---------- the clamp computes the expected entity ---------- *)
Definition raw_ent (p : Z * list Z * list Z) : ent :=
  let '(tag, pre, mid) := p in mk_ent (u16c pre) (u16c mid) tag.

Lemma gtb_false a b : a <= b -> (a >? b) = false.
Proof. intros; rewrite Z.gtb_ltb; apply Z.ltb_ge; lia. Qed.
Lemma gtb_true a b : b < a -> (a >? b) = true.
Proof. intros; rewrite Z.gtb_ltb; apply Z.ltb_lt; lia. Qed.

Lemma clamp_expected nT tag pre mid post :
  clamp (u16c (firstn nT (pre ++ mid ++ post))) (raw_ent (tag, pre, mid)) = expected nT (tag, pre, mid).
Proof.
  unfold clamp, expected, raw_ent, mk_ent; cbn [e_off e_len e_tag].
  rewrite firstn_app, u16c_app.
  destruct (Nat.le_gt_cases (length pre) nT) as [Hle|Hgt].
  - (* the piece starts inside the final text *)
    rewrite (firstn_all2 pre) by lia.
    rewrite firstn_app, u16c_app.
    pose proof (u16c_nonneg (firstn (nT - length pre) mid)).
    pose proof (u16c_nonneg (firstn (nT - length pre - length mid) post)).
    rewrite (gtb_false (u16c pre)) by lia.
    destruct (Nat.le_gt_cases (length mid) (nT - length pre)) as [Hm|Hm].
    + rewrite (firstn_all2 mid) by lia. rewrite gtb_false by lia. reflexivity.
    + replace (nT - length pre - length mid)%nat with 0%nat by lia. cbn [firstn u16c].
      pose proof (u16c_firstn_lt _ _ Hm).
      rewrite gtb_true by lia. f_equal; lia.
  - (* the piece starts in the trimmed white space *)
    replace (nT - length pre)%nat with 0%nat by lia. cbn [firstn u16c app].
    pose proof (u16c_firstn_lt _ _ Hgt). rewrite Z.add_0_r.
    rewrite (gtb_true (u16c pre)) by lia.
    pose proof (u16c_nonneg mid).
    destruct (u16c (firstn nT pre) + u16c mid >? u16c (firstn nT pre)) eqn:E.
    + f_equal; lia.
    + rewrite Z.gtb_ltb in E; apply Z.ltb_ge in E. f_equal; lia.
Qed.

Lemma expected_all n tag pre mid : (length pre + length mid <= n)%nat -> expected n (tag, pre, mid) = raw_ent (tag, pre, mid).
Proof. intros H; unfold expected, raw_ent. rewrite !firstn_all2 by lia. reflexivity. Qed.

Lemma expected_within nT tag pre mid post :
  let e := expected nT (tag, pre, mid) in
  0 <= e_off e /\ 0 <= e_len e /\ e_off e + e_len e <= u16c (firstn nT (pre ++ mid ++ post)).
Proof.
  cbn zeta; unfold expected, mk_ent; cbn [e_off e_len].
  rewrite firstn_app, u16c_app, firstn_app, u16c_app.
  pose proof (u16c_nonneg (firstn nT pre)). pose proof (u16c_nonneg (firstn (nT - length pre) mid)).
  pose proof (u16c_nonneg (firstn (nT - length pre - length mid) post)). lia.
Qed.

(* ---------- ShrinkPreCode keeps ranges and kinds, and never adds entities ---------- *)
Lemma srk_refl e : same_range_kind e e.
Proof. unfold same_range_kind; auto. Qed.
Lemma srk_trans a b c : same_range_kind a b -> same_range_kind b c -> same_range_kind a c.
Proof. unfold same_range_kind; intros [? [? ?]] [? [? ?]]; repeat split; congruence. Qed.
Lemma srk_reset e : same_range_kind (reset_lang e) e.
Proof.
  unfold reset_lang; destruct (has_lang e); [|apply srk_refl].
  unfold same_range_kind, mk_ent, kind; cbn [e_off e_len e_tag]. repeat split.
  replace (e_tag e - 64) with (e_tag e + (-1) * 64) by lia. apply Z_mod_plus_full.
Qed.

Lemma shrink_loop_sim rest : forall prev kp x, In x (shrink_loop prev kp rest) ->
  exists e0, (e0 = prev \/ In e0 rest) /\ same_range_kind (fst x) e0.
Proof.
  induction rest as [|cur rest IH]; intros prev kp x Hx; cbn [shrink_loop] in Hx.
  - destruct Hx as [<-|[]]. exists prev; split; [left; reflexivity|apply srk_refl].
  - destruct (negb (is_pre_code prev) || negb (is_pre_code cur) || (kind (e_tag prev) =? kind (e_tag cur))).
    + destruct Hx as [<-|Hx]; [exists prev; split; [left; reflexivity|apply srk_refl]|].
      destruct (IH _ _ _ Hx) as [e0 [[->|Hin] Hs]]; eexists; (split; [|exact Hs]); right; [left; reflexivity|right; exact Hin].
    + destruct (negb (equal_range prev cur)).
      * destruct Hx as [<-|Hx]; [exists prev; split; [left; reflexivity|apply srk_reset]|].
        destruct (IH _ _ _ Hx) as [e0 [[->|Hin] Hs]].
        -- exists cur; split; [right; left; reflexivity|eapply srk_trans; [exact Hs|apply srk_reset]].
        -- exists e0; split; [right; right; exact Hin|exact Hs].
      * destruct Hx as [<-|Hx]; [exists prev; split; [left; reflexivity|apply srk_refl]|].
        destruct (IH _ _ _ Hx) as [e0 [[->|Hin] Hs]]; eexists; (split; [|exact Hs]); right; [left; reflexivity|right; exact Hin].
Qed.
Lemma shrink_loop_length rest : forall prev kp, length (shrink_loop prev kp rest) = S (length rest).
Proof.
  induction rest as [|cur rest IH]; intros prev kp; cbn [shrink_loop]; [reflexivity|].
  destruct (negb (is_pre_code prev) || negb (is_pre_code cur) || (kind (e_tag prev) =? kind (e_tag cur)));
    [|destruct (negb (equal_range prev cur))]; cbn [length]; rewrite IH; reflexivity.
Qed.

Lemma shrink_sim es e : In e (shrink_pre_code es) -> exists e0, In e0 es /\ same_range_kind e e0.
Proof.
  unfold shrink_pre_code. destruct (rev es) as [|e0 rest] eqn:E; [intros []|].
  intros H. apply in_map_iff in H. destruct H as [x [<- Hx]]. apply filter_In in Hx. destruct Hx as [Hx _].
  destruct (shrink_loop_sim _ _ _ _ Hx) as [e1 [Hin Hs]]. exists e1; split; [|exact Hs].
  apply in_rev. rewrite E. destruct Hin as [->|Hin]; [left; reflexivity|right; exact Hin].
Qed.
Lemma filter_length_le {A} (f : A -> bool) l : (length (filter f l) <= length l)%nat.
Proof. induction l as [|x l IH]; cbn [filter length]; [lia|]. destruct (f x); cbn [length]; lia. Qed.
Lemma shrink_length es : (length (shrink_pre_code es) <= length es)%nat.
Proof.
  unfold shrink_pre_code. destruct (rev es) as [|e0 rest] eqn:E; [cbn; lia|].
  rewrite map_length. etransitivity; [apply filter_length_le|].
  rewrite shrink_loop_length. rewrite <- (rev_length es), E. reflexivity.
Qed.

(* ---------- the relation between the builder and the specification state ---------- *)
Definition tok_of (pre : list Z) : tok := {| t_u8 := len (utf8_encode pre); t_u16 := u16c pre |}.
Definition is_prefix (pre text : list Z) : Prop := exists rest, text = pre ++ rest.
Definition piece_in (text : list Z) (p : Z * list Z * list Z) : Prop :=
  let '(_, pre, mid) := p in exists post, text = pre ++ mid ++ post.
Definition dflt_u : uent := {| u_off := 0; u_len := 0 |}.

Record Rel (stale : list tok) (b : bstate) (toks : list tok) (s : sstate) : Prop := {
  r_valid : Forall cp_valid (s_text s);
  r_msg : b_msg b = utf8_encode (s_text s);
  r_u16 : b_u16 b = u16c (s_text s);
  r_toks : toks = stale ++ map tok_of (s_toks s);
  r_tokpre : Forall (fun pre => is_prefix pre (s_text s)) (s_toks s);
  r_pieces : Forall (piece_in (s_text s)) (s_pieces s);
  r_exact : s_shrunk s = false -> b_ents b = map raw_ent (s_pieces s);
  r_sim : Forall (fun e => exists p, In p (s_pieces s) /\ same_range_kind e (raw_ent p)) (b_ents b);
  r_lfi_nn : 0 <= b_lfi b;
  r_lfi : b_lfi b < len (b_ents b) ->
          b_lens b <> [] /\
          exists preL l, is_prefix preL (s_text s) /\
                         last (b_lens b) dflt_u = {| u_off := len (utf8_encode preL); u_len := l |}
}.

Lemma is_prefix_grow pre text x : is_prefix pre text -> is_prefix pre (text ++ x).
Proof. intros [r ->]; exists (r ++ x); rewrite app_assoc; reflexivity. Qed.
Lemma piece_in_grow text x p : piece_in text p -> piece_in (text ++ x) p.
Proof. destruct p as [[t pre] mid]; intros [post ->]; exists (post ++ x); rewrite <- !app_assoc; reflexivity. Qed.

(* any writer that appends the encoding of valid code points x and counts u16c x *)
Lemma rel_grow stale b toks s b' x :
  Rel stale b toks s -> Forall cp_valid x ->
  b_msg b' = b_msg b ++ utf8_encode x -> b_u16 b' = b_u16 b + u16c x ->
  b_ents b' = b_ents b -> b_lens b' = b_lens b -> b_lfi b' = b_lfi b ->
  Rel stale b' toks (s_app s x).
Proof.
  intros R Hx Hm Hu He Hl Hf. destruct R. constructor; cbn [s_app s_text s_toks s_pieces s_shrunk].
  - apply Forall_app; split; assumption.
  - rewrite Hm, r_msg0, utf8_encode_app; reflexivity.
  - rewrite Hu, r_u17, u16c_app; reflexivity.
  - assumption.
  - eapply Forall_impl; [|exact r_tokpre0]. intros pre; apply is_prefix_grow.
  - eapply Forall_impl; [|exact r_pieces0]. intros p; apply piece_in_grow.
  - rewrite He; assumption.
  - rewrite He; assumption.
  - rewrite Hf; assumption.
  - rewrite He, Hl, Hf. intros H. destruct (r_lfi0 H) as [Hne [preL [l [Hp Hl']]]].
    split; [exact Hne|]. exists preL, l; split; [apply is_prefix_grow; exact Hp|exact Hl'].
Qed.

Lemma last_app_ne {A} (a b : list A) d : b <> [] -> last (a ++ b) d = last b d.
Proof.
  intros Hb. induction a as [|x a IH]; [reflexivity|]. cbn [app].
  destruct (a ++ b) eqn:E; [destruct a; [cbn in E; contradiction|discriminate]|].
  cbn [last]. exact IH.
Qed.

(* appendEntities for a piece (pre, mid) of the current text *)
Lemma rel_append stale b toks s pre mid u tags :
  Rel stale b toks s -> (exists post, s_text s = pre ++ mid ++ post) -> u_off u = len (utf8_encode pre) ->
  Rel stale (b_append_entities b (u16c pre) (u16c mid) u tags) toks
      (s_add s (map (fun t => (t, pre, mid)) tags)).
Proof.
  intros R Hp Hu. destruct R. constructor; cbn [s_add s_text s_toks s_pieces s_shrunk b_append_entities b_msg b_u16 b_ents b_lens b_lfi]; try assumption.
  - apply Forall_app; split; [assumption|]. apply Forall_forall. intros p Hin. apply in_map_iff in Hin.
    destruct Hin as [t [<- _]]. exact Hp.
  - intros Hs. rewrite (r_exact0 Hs), map_app, map_map. reflexivity.
  - apply Forall_app; split.
    + eapply Forall_impl; [|exact r_sim0]. intros e [p [Hin Hs]]. exists p; split; [apply in_or_app; left; exact Hin|exact Hs].
    + apply Forall_forall. intros e Hin. apply in_map_iff in Hin. destruct Hin as [t [<- Ht]].
      exists (t, pre, mid); split; [apply in_or_app; right; apply in_map_iff; exists t; auto|apply srk_refl].
  - apply len_nonneg.
  - rewrite len_app, len_map. intros H. assert (tags <> []) as Hne by (destruct tags; [cbn in H; lia|discriminate]).
    assert (map (fun _ : Z => u) tags <> []) as Hne' by (destruct tags; [contradiction|discriminate]).
    split; [destruct (b_lens b); [exact Hne'|discriminate]|].
    exists pre, (u_len u). split; [destruct Hp as [post ->]; exists (mid ++ post); reflexivity|].
    rewrite last_app_ne by exact Hne'.
    assert (forall l : list Z, l <> [] -> last (map (fun _ => u) l) dflt_u = u) as HL.
    { induction l as [|x [|y l] IH]; intros Hl; [contradiction|reflexivity|]. cbn [map last] in *. apply IH; discriminate. }
    rewrite HL by exact Hne. destruct u; cbn in *; subst; reflexivity.
Qed.

(* ---------- one well-formed operation preserves the relation ---------- *)
Lemma skipn_app_len {A} (a b : list A) : skipn (length a) (a ++ b) = b.
Proof. rewrite skipn_app, skipn_all, Nat.sub_diag; reflexivity. Qed.

Lemma utf8_encode_nil_iff x : utf8_encode x = [] <-> x = [].
Proof.
  split; [|intros ->; reflexivity]. destruct x as [|c x]; [reflexivity|].
  rewrite utf8_encode_cons. intros H. apply app_eq_nil in H. destruct H as [H _]. exfalso; exact (utf8_enc_nonempty c H).
Qed.

Lemma step_rel stale m s o :
  Rel stale (m_b m) (m_toks m) s -> uop_ok s o ->
  exists m', step m (enc_uop (length stale) o) = (m', None) /\ Rel stale (m_b m') (m_toks m') (sstep s o).
Proof.
  intros R Hok. destruct o as [x|x tags|x|bt|r| |k tags| ]; cbn [enc_uop step sstep uop_ok] in *.
  - (* Plain *)
    eexists; split; [reflexivity|]. cbn [with_b m_b m_toks].
    pose proof (rel_grow stale (m_b m) (m_toks m) s (b_write (m_b m) (utf8_encode x)) x R Hok) as R'.
    cbn [b_write b_msg b_u16 b_ents b_lens b_lfi] in R'. rewrite compute_length_encode in R' by exact Hok.
    specialize (R' eq_refl eq_refl eq_refl eq_refl eq_refl). destruct R'.
    constructor; cbn [b_plain b_write b_msg b_u16 b_ents b_lens b_lfi] in *; try assumption.
    + apply len_nonneg.
    + intros H; exfalso; lia.
  - (* Format *)
    destruct x as [|c x']; [eexists; split; [reflexivity|exact R]|].
    remember (c :: x') as x eqn:Ex.
    assert (utf8_encode x <> []) as Hne by (intros H; apply (proj1 (utf8_encode_nil_iff x)) in H; rewrite H in Ex; discriminate).
    clear Ex c x'.
    eexists; split; [reflexivity|]. cbn [with_b m_b m_toks].
    assert (b_format (m_b m) (utf8_encode x) tags =
            b_append_entities (b_write (m_b m) (utf8_encode x)) (u16c (s_text s)) (u16c x)
                              {| u_off := len (utf8_encode (s_text s)); u_len := len (utf8_encode x) |} tags) as ->.
    { unfold b_format. destruct (utf8_encode x) eqn:E; [contradiction|]. rewrite <- E.
      unfold b_write, b_append_entities; cbn [b_msg b_u16 b_ents b_lens b_lfi].
      rewrite compute_length_encode by exact Hok. destruct R. rewrite r_msg0, r_u17. reflexivity. }
    change (s_app (s_add s (map (fun t => (t, s_text s, x)) tags)) x)
      with (s_add (s_app s x) (map (fun t => (t, s_text s, x)) tags)).
    apply rel_append.
    + eapply rel_grow; [exact R|exact Hok|..]; cbn [b_write b_msg b_u16 b_ents b_lens b_lfi]; try reflexivity.
      rewrite compute_length_encode by exact Hok; reflexivity.
    + exists []. cbn [s_app s_text]. rewrite app_nil_r; reflexivity.
    + reflexivity.
  - (* Write *)
    eexists; split; [reflexivity|]. cbn [with_b m_b m_toks].
    eapply rel_grow; [exact R|exact Hok|..]; cbn [b_write b_msg b_u16 b_ents b_lens b_lfi]; try reflexivity.
    rewrite compute_length_encode by exact Hok; reflexivity.
  - (* WriteByte *)
    eexists; split; [reflexivity|]. cbn [with_b m_b m_toks].
    assert (cp_valid bt) as Hv by (apply cp_valid_iff; lia).
    eapply rel_grow; [exact R|constructor; [exact Hv|constructor]|..]; cbn [b_write_byte b_msg b_u16 b_ents b_lens b_lfi]; try reflexivity.
    + cbn [utf8_encode flat_map]. rewrite app_nil_r. unfold utf8_enc.
      replace (bt <? 128) with true by (symmetry; apply Z.ltb_lt; lia). reflexivity.
    + cbn [u16c]. unfold utf16len. replace (65536 <=? bt) with false by (symmetry; apply Z.leb_gt; lia). lia.
  - (* WriteRune *)
    eexists; split; [reflexivity|]. cbn [with_b m_b m_toks].
    eapply rel_grow; [exact R|constructor; [apply written_rune_valid|constructor]|..]; cbn [b_write_rune b_msg b_u16 b_ents b_lens b_lfi]; try reflexivity.
    + rewrite go_encode_rune_written; reflexivity.
    + cbn [u16c]. rewrite utf16_go_written. lia.
  - (* Token *)
    eexists; split; [reflexivity|]. cbn [m_b m_toks]. destruct R.
    constructor; cbn [s_text s_toks s_pieces s_shrunk]; try assumption.
    + rewrite r_toks0, map_app, app_assoc. cbn [map]. unfold b_token, tok_of. rewrite r_msg0, r_u17. reflexivity.
    + apply Forall_app; split; [assumption|]. constructor; [|constructor]. exists []; rewrite app_nil_r; reflexivity.
  - (* Apply *)
    destruct (nth_error (s_toks s) k) as [pre|] eqn:Ek; [|apply nth_error_None in Ek; lia].
    assert (nth_error (m_toks m) (length stale + k) = Some (tok_of pre)) as ->.
    { destruct R. rewrite r_toks0, nth_error_app2 by lia.
      replace (length stale + k - length stale)%nat with k by lia. apply map_nth_error; exact Ek. }
    eexists; split; [reflexivity|]. cbn [with_b m_b m_toks].
    assert (is_prefix pre (s_text s)) as [rest Hrest].
    { destruct R. rewrite Forall_forall in r_tokpre0. apply r_tokpre0. eapply nth_error_In; exact Ek. }
    assert (skipn (length pre) (s_text s) = rest) as -> by (rewrite Hrest; apply skipn_app_len).
    assert (b_apply (m_b m) (tok_of pre) tags =
            b_append_entities (m_b m) (u16c pre) (u16c rest)
                              {| u_off := len (utf8_encode pre); u_len := len (b_msg (m_b m)) - len (utf8_encode pre) |} tags) as ->.
    { unfold b_apply, tok_of; cbn [t_u8 t_u16]. destruct R. rewrite r_u17, Hrest, u16c_app. f_equal; lia. }
    apply rel_append; [exact R| |reflexivity]. exists []; rewrite app_nil_r; exact Hrest.
  - (* Shrink *)
    eexists; split; [reflexivity|]. cbn [with_b m_b m_toks]. destruct R.
    constructor; cbn [b_shrink b_msg b_u16 b_ents b_lens b_lfi s_text s_toks s_pieces s_shrunk]; try assumption.
    + discriminate.
    + apply Forall_forall. intros e He. destruct (shrink_sim _ _ He) as [e0 [Hin Hs]].
      rewrite Forall_forall in r_sim0. destruct (r_sim0 _ Hin) as [p [Hp Hs']].
      exists p; split; [exact Hp|eapply srk_trans; eassumption].
    + intros H. apply r_lfi0. pose proof (shrink_length (b_ents (m_b m))). unfold len in *. lia.
Qed.

(* a whole build *)
Lemma exec_rel stale ops : forall m s,
  Rel stale (m_b m) (m_toks m) s -> build_ok s ops ->
  exists m', exec m (map (enc_uop (length stale)) ops) = (m', []) /\
             Rel stale (m_b m') (m_toks m') (fold_left sstep ops s).
Proof.
  induction ops as [|o ops IH]; intros m s R Hok; [exists m; split; [reflexivity|exact R]|].
  destruct Hok as [Ho Hrest]. destruct (step_rel _ _ _ _ R Ho) as [m1 [E1 R1]].
  destruct (IH _ _ R1 Hrest) as [m' [E' R']]. exists m'; split; [|exact R'].
  cbn [map exec]. rewrite E1. exact E'.
Qed.

(* ---------- Complete ---------- *)
Lemma srk_clamp t a b : same_range_kind a b -> same_range_kind (clamp t a) (clamp t b).
Proof.
  unfold same_range_kind, clamp, mk_ent; cbn [e_off e_len e_tag]. intros [-> [-> ->]]. auto.
Qed.

Lemma piece_len text p : piece_in text p ->
  let '(_, pre, mid) := p in (length pre + length mid <= length text)%nat.
Proof. destruct p as [[t pre] mid]. intros [post ->]. rewrite !app_length; lia. Qed.

Lemma srk_within e p nT text :
  piece_in text p -> same_range_kind e (expected nT p) ->
  0 <= e_off e /\ 0 <= e_len e /\ e_off e + e_len e <= u16c (firstn nT text).
Proof.
  destruct p as [[t pre] mid]. intros [post ->] [Ho [Hl _]]. rewrite Ho, Hl.
  apply (expected_within nT t pre mid post).
Qed.

Lemma finish_noclamp stale b toks s :
  Rel stale b toks s -> complete_spec s (length (s_text s)) (go_isort less_go (b_ents b)).
Proof.
  intros R. destruct R. unfold complete_spec.
  assert (forall p, In p (s_pieces s) -> expected (length (s_text s)) p = raw_ent p) as Hexp.
  { intros [[t pre] mid] Hin. rewrite Forall_forall in r_pieces0. pose proof (piece_len _ _ (r_pieces0 _ Hin)).
    apply expected_all; assumption. }
  assert (Forall (fun e => exists p, In p (s_pieces s) /\ same_range_kind e (expected (length (s_text s)) p))
                 (go_isort less_go (b_ents b))) as Hsim.
  { apply Forall_forall. intros e He. apply (Permutation_in _ (go_isort_perm_any less_go (b_ents b))) in He.
    rewrite Forall_forall in r_sim0. destruct (r_sim0 _ He) as [p [Hp Hs]]. exists p; split; [exact Hp|].
    rewrite Hexp by exact Hp. exact Hs. }
  split; [lia|]. split; [rewrite skipn_all; constructor|]. split; [|split; [exact Hsim|]].
  - intros Hs. rewrite go_isort_perm_any, (r_exact0 Hs).
    rewrite (map_ext_in _ _ _ Hexp). reflexivity.
  - rewrite Forall_forall in *. intros e He. destruct (Hsim _ He) as [p [Hp Hs]].
    eapply srk_within; [apply r_pieces0; exact Hp|exact Hs].
Qed.

Lemma finish_clamp stale b toks s nT :
  Rel stale b toks s -> (nT <= length (s_text s))%nat -> Forall is_space (skipn nT (s_text s)) ->
  complete_spec s nT (go_isort less_go (map (clamp (u16c (firstn nT (s_text s)))) (b_ents b))).
Proof.
  intros R HnT Hsp. destruct R. unfold complete_spec.
  set (total := u16c (firstn nT (s_text s))).
  assert (forall p, In p (s_pieces s) -> clamp total (raw_ent p) = expected nT p) as Hexp.
  { intros [[t pre] mid] Hin. rewrite Forall_forall in r_pieces0. destruct (r_pieces0 _ Hin) as [post Hpost].
    unfold total. rewrite Hpost. apply clamp_expected. }
  assert (Forall (fun e => exists p, In p (s_pieces s) /\ same_range_kind e (expected nT p))
                 (go_isort less_go (map (clamp total) (b_ents b)))) as Hsim.
  { apply Forall_forall. intros e He. apply (Permutation_in _ (go_isort_perm_any less_go _)) in He.
    apply in_map_iff in He. destruct He as [e0 [<- He0]].
    rewrite Forall_forall in r_sim0. destruct (r_sim0 _ He0) as [p [Hp Hs]]. exists p; split; [exact Hp|].
    rewrite <- Hexp by exact Hp. apply srk_clamp; exact Hs. }
  split; [exact HnT|]. split; [exact Hsp|]. split; [|split; [exact Hsim|]].
  - intros Hs. rewrite go_isort_perm_any, (r_exact0 Hs), map_map.
    rewrite (map_ext_in _ _ _ Hexp). reflexivity.
  - rewrite Forall_forall in *. intros e He. destruct (Hsim _ He) as [p [Hp Hs]].
    eapply srk_within; [apply r_pieces0; exact Hp|exact Hs].
Qed.

Lemma fresh_reset b : 0 <= b_lfi b -> fresh (b_reset b).
Proof. unfold fresh, b_reset; cbn; auto. Qed.

Theorem complete_rel stale b toks s :
  Rel stale b toks s ->
  exists nT es,
    b_complete b = (b_reset b, Ok (utf8_encode (firstn nT (s_text s)), es)) /\ complete_spec s nT es.
Proof.
  intros R. pose proof R as R0. destruct R.
  unfold b_complete, b_raw, fix_entities. cbn [b_reset b_lens b_lfi].
  destruct ((len (b_lens b) =? 0) || (b_lfi b >=? len (b_ents b))) eqn:G.
  { exists (length (s_text s)), (go_isort less_go (b_ents b)). cbn [bind fst snd].
    rewrite firstn_all, r_msg0. split; [reflexivity|eapply finish_noclamp; exact R0]. }
  apply orb_false_elim in G. destruct G as [_ G]. rewrite Z.geb_leb in G. apply Z.leb_gt in G.
  destruct (r_lfi0 G) as [_ [preL [l [[restL Htext] Hlast]]]].
  unfold dflt_u in Hlast. cbv zeta. rewrite Hlast; cbn [u_off u_len].
  assert (Forall cp_valid preL /\ Forall cp_valid restL) as [HvL HvR] by (rewrite Htext in r_valid0; apply Forall_app; exact r_valid0).
  assert (utf8_encode (s_text s) = utf8_encode preL ++ utf8_encode restL) as Emsg
    by (rewrite Htext; apply utf8_encode_app).
  rewrite r_msg0, Emsg, go_slice_suffix. cbn [bind].
  rewrite trim_bytes_encode by exact HvR.
  destruct (trim_cps_split restL) as [w [Hw Hsp]].
  destruct ((l >=? len (utf8_encode restL)) && negb (len (utf8_encode (trim_cps restL)) =? len (utf8_encode restL))) eqn:C.
  - (* trailing white space of the last block is cut *)
    set (T := preL ++ trim_cps restL).
    assert (s_text s = T ++ w) as HT by (unfold T; rewrite <- app_assoc, <- Hw; exact Htext).
    assert (utf8_encode preL ++ utf8_encode restL = utf8_encode T ++ utf8_encode w) as ->
      by (rewrite <- !utf8_encode_app, <- Htext, HT; reflexivity).
    replace (len (utf8_encode preL) + len (utf8_encode (trim_cps restL))) with (len (utf8_encode T))
      by (unfold T; rewrite utf8_encode_app, len_app; reflexivity).
    rewrite go_slice_prefix. cbn [bind fst snd].
    assert (firstn (length T) (s_text s) = T) as HfT by (rewrite HT, firstn_app, firstn_all, Nat.sub_diag; cbn [firstn]; apply app_nil_r).
    exists (length T), (go_isort less_go (map (clamp (compute_length (utf8_encode T))) (b_ents b))).
    rewrite HfT. split; [reflexivity|].
    assert (Forall cp_valid T) as HvT by (unfold T; apply Forall_app; split; [exact HvL|apply trim_cps_valid; exact HvR]).
    rewrite compute_length_encode by exact HvT.
    replace (u16c T) with (u16c (firstn (length T) (s_text s))) by (rewrite HfT; reflexivity).
    eapply finish_clamp; [exact R0|rewrite HT, app_length; lia|].
    rewrite HT, skipn_app, skipn_all, Nat.sub_diag; cbn [skipn app]; exact Hsp.
  - exists (length (s_text s)), (go_isort less_go (b_ents b)). cbn [bind fst snd].
    rewrite firstn_all, <- Emsg. split; [reflexivity|eapply finish_noclamp; exact R0].
Qed.

(* ---------- whole builds ---------- *)
Lemma rel_init m : fresh (m_b m) -> Rel (m_toks m) (m_b m) (m_toks m) s_init.
Proof.
  intros [Hm [He [Hu Hl]]]. constructor; cbn [s_init s_text s_toks s_pieces s_shrunk].
  - constructor.
  - rewrite Hm; reflexivity.
  - rewrite Hu; reflexivity.
  - cbn [map]; rewrite app_nil_r; reflexivity.
  - constructor.
  - constructor.
  - intros _; rewrite He; reflexivity.
  - rewrite He; constructor.
  - exact Hl.
  - rewrite He; cbn. intros H; exfalso; lia.
Qed.

Lemma exec_app_silent a : forall m m' b, exec m a = (m', []) -> exec m (a ++ b) = exec m' b.
Proof.
  induction a as [|o a IH]; intros m m' b H; cbn [app exec] in *; [inversion H; reflexivity|].
  destruct (step m o) as [m1 [r|]].
  - destruct r as [x|e|]; [|destruct e|discriminate]; destruct (exec m1 a); discriminate.
  - apply IH; exact H.
Qed.

Theorem build_complete m ops :
  fresh (m_b m) -> build_ok s_init ops ->
  exists m' nT es,
    exec m (map (enc_uop (length (m_toks m))) ops ++ [OComplete])
      = (m', [Ok (utf8_encode (firstn nT (s_text (srun ops))), es)]) /\
    fresh (m_b m') /\ complete_spec (srun ops) nT es.
Proof.
  intros Hf Hok. destruct (exec_rel (m_toks m) ops m s_init (rel_init m Hf) Hok) as [m1 [E1 R1]].
  destruct (complete_rel _ _ _ _ R1) as [nT [es [Ec Hs]]].
  exists (with_b m1 (b_reset (m_b m1))), nT, es. split; [|split; [|exact Hs]].
  - rewrite (exec_app_silent _ _ _ _ E1). cbn [exec step]. rewrite Ec. reflexivity.
  - cbn [with_b m_b]. apply fresh_reset. destruct R1; assumption.
Qed.

Theorem all_builds builds : forall m,
  fresh (m_b m) -> Forall (build_ok s_init) builds ->
  Forall2 (fun ops o => exists nT es,
             o = Ok (utf8_encode (firstn nT (s_text (srun ops))), es) /\ complete_spec (srun ops) nT es)
          builds (run_builds m builds).
Proof.
  induction builds as [|ops rest IH]; intros m Hf Hall; [constructor|].
  inversion Hall as [|? ? Hok Hrest]; subst.
  destruct (build_complete m ops Hf Hok) as [m' [nT [es [E [Hf' Hs]]]]].
  cbn [run_builds]. rewrite E. cbn [app]. constructor; [exists nT, es; split; [reflexivity|exact Hs]|].
  apply IH; assumption.
Qed.

Lemma fresh_init : fresh (m_b m_init).
Proof. unfold fresh; cbn; repeat split; lia. Qed.

(* ---------- the same steps for callers that hold tokens themselves (HTML / Markdown parsers) ---------- *)
Lemma rel_write_valid stale b toks s x :
  Rel stale b toks s -> Forall cp_valid x -> Rel stale (b_write b (utf8_encode x)) toks (s_app s x).
Proof.
  intros R Hx. eapply rel_grow; [exact R|exact Hx|..]; cbn [b_write b_msg b_u16 b_ents b_lens b_lfi]; try reflexivity.
  rewrite compute_length_encode by exact Hx; reflexivity.
Qed.

Lemma rel_token stale b toks s : Rel stale b toks s -> b_token b = tok_of (s_text s).
Proof. intros R; destruct R. unfold b_token, tok_of. rewrite r_msg0, r_u17. reflexivity. Qed.

Lemma rel_apply_tok stale b toks s pre tags :
  Rel stale b toks s -> is_prefix pre (s_text s) ->
  Rel stale (b_apply b (tok_of pre) tags) toks
      (s_add s (map (fun t => (t, pre, skipn (length pre) (s_text s))) tags)).
Proof.
  intros R [rest Hrest].
  assert (skipn (length pre) (s_text s) = rest) as -> by (rewrite Hrest; apply skipn_app_len).
  assert (b_apply b (tok_of pre) tags =
          b_append_entities b (u16c pre) (u16c rest)
                            {| u_off := len (utf8_encode pre); u_len := len (b_msg b) - len (utf8_encode pre) |} tags) as ->.
  { unfold b_apply, tok_of; cbn [t_u8 t_u16]. destruct R. rewrite r_u17, Hrest, u16c_app. f_equal; lia. }
  apply rel_append; [exact R| |reflexivity]. exists []; rewrite app_nil_r; exact Hrest.
Qed.

Lemma rel_shrink stale b toks s :
  Rel stale b toks s ->
  Rel stale (b_shrink b) toks {| s_text := s_text s; s_toks := s_toks s; s_pieces := s_pieces s; s_shrunk := true |}.
Proof.
  intros R. destruct R.
  constructor; cbn [b_shrink b_msg b_u16 b_ents b_lens b_lfi s_text s_toks s_pieces s_shrunk]; try assumption.
  - discriminate.
  - apply Forall_forall. intros e He. destruct (shrink_sim _ _ He) as [e0 [Hin Hs]].
    rewrite Forall_forall in r_sim0. destruct (r_sim0 _ Hin) as [p [Hp Hs']].
    exists p; split; [exact Hp|eapply srk_trans; eassumption].
  - intros H. apply r_lfi0. pose proof (shrink_length (b_ents b)). unfold len in *. lia.
Qed.

Lemma Forall_firstn {A} (P : A -> Prop) n l : Forall P l -> Forall P (firstn n l).
Proof.
  revert l; induction n as [|n IH]; intros [|x l] H; cbn [firstn]; try constructor.
  - inversion H; assumption.
  - inversion H; apply IH; assumption.
Qed.

(* a completed build: no panic, and every entity lies within the returned text (as Go measures it) *)
Theorem complete_within stale b toks s :
  Rel stale b toks s ->
  exists text es, snd (b_complete b) = Ok (text, es) /\
    Forall (fun e => 0 <= e_off e /\ 0 <= e_len e /\ e_off e + e_len e <= compute_length text) es.
Proof.
  intros R. destruct (complete_rel _ _ _ _ R) as [nT [es [E [_ [_ [_ [_ Hw]]]]]]].
  exists (utf8_encode (firstn nT (s_text s))), es. rewrite E; cbn [snd]. split; [reflexivity|].
  rewrite compute_length_encode; [exact Hw|]. apply Forall_firstn. destruct R; assumption.
Qed.

(* ---------- audit round: valid text is returned; when Complete trims; byte-level no-panic ---------- *)
(* the returned text is valid UTF-8 and the bound is the UTF-16 length of its code points *)
Theorem complete_within_unicode stale b toks s :
  Rel stale b toks s ->
  exists cps es, Forall cp_valid cps /\ snd (b_complete b) = Ok (utf8_encode cps, es) /\
    Forall (fun e => 0 <= e_off e /\ 0 <= e_len e /\ e_off e + e_len e <= u16c cps) es.
Proof.
  intros R. destruct (complete_rel _ _ _ _ R) as [nT [es [E [_ [_ [_ [_ Hw]]]]]]].
  exists (firstn nT (s_text s)), es. rewrite E; cbn [snd]. split; [|split; [reflexivity|exact Hw]].
  apply Forall_firstn. destruct R; assumption.
Qed.

(* WHEN Complete trims: a build whose last operation is Format x tags (x, tags non-empty) returns
   everything written before x followed by x without its trailing white space ... *)
Lemma encode_len_eq_trim x : Forall cp_valid x ->
  len (utf8_encode (trim_cps x)) = len (utf8_encode x) -> trim_cps x = x.
Proof.
  intros Hv H. destruct (trim_cps_split x) as [w [Hw _]].
  rewrite Hw in H at 2. rewrite utf8_encode_app, len_app in H.
  assert (utf8_encode w = []) as E by (destruct (utf8_encode w); [reflexivity|unfold len in H; cbn [length] in H; lia]).
  apply (proj1 (utf8_encode_nil_iff w)) in E. rewrite E, app_nil_r in Hw. symmetry; exact Hw.
Qed.

Theorem complete_after_format stale b toks s x tags :
  Rel stale b toks s -> Forall cp_valid x -> x <> [] -> tags <> [] ->
  exists es, snd (b_complete (b_format b (utf8_encode x) tags)) = Ok (utf8_encode (s_text s ++ trim_cps x), es).
Proof.
  intros R Hv Hx Ht.
  assert (utf8_encode x <> []) as Hne by (intros H; apply (proj1 (utf8_encode_nil_iff x)) in H; contradiction).
  unfold b_format. destruct (utf8_encode x) as [|c0 r0] eqn:Ex; [contradiction|]. rewrite <- Ex.
  unfold b_complete, b_raw, fix_entities.
  cbn [b_write b_append_entities b_reset b_msg b_ents b_lens b_lfi b_u16 fst snd].
  assert (map (fun _ : Z => {| u_off := len (b_msg b); u_len := len (utf8_encode x) |}) tags <> []) as Hm
    by (destruct tags; [contradiction|discriminate]).
  replace ((len (b_lens b ++ map (fun _ : Z => {| u_off := len (b_msg b); u_len := len (utf8_encode x) |}) tags) =? 0)
           || (len (b_ents b) >=? len (b_ents b ++ map (mk_ent (b_u16 b) (compute_length (utf8_encode x))) tags)))
    with false.
  2:{ symmetry. apply orb_false_intro.
      - apply Z.eqb_neq. rewrite len_app, len_map. pose proof (len_nonneg (b_lens b)).
        destruct tags; [contradiction|]. unfold len at 2; cbn [length]. lia.
      - rewrite Z.geb_leb. apply Z.leb_gt. rewrite len_app, len_map.
        destruct tags; [contradiction|]. unfold len at 3; cbn [length]. lia. }
  cbv zeta. rewrite (last_app_ne _ _ _ Hm).
  assert (forall (u : uent) (l : list Z), l <> [] -> last (map (fun _ => u) l) {| u_off := 0; u_len := 0 |} = u) as HL.
  { intros u l. induction l as [|y [|z l] IH]; intros Hl; [contradiction|reflexivity|]. cbn [map last] in *. apply IH; discriminate. }
  rewrite HL by exact Ht. cbn [u_off u_len].
  rewrite go_slice_suffix. cbn [bind].
  rewrite trim_bytes_encode by exact Hv.
  replace (len (utf8_encode x) >=? len (utf8_encode x)) with true by (symmetry; rewrite Z.geb_leb; apply Z.leb_le; lia).
  cbn [andb]. rewrite (r_msg _ _ _ _ R).
  destruct (len (utf8_encode (trim_cps x)) =? len (utf8_encode x)) eqn:E; cbn [negb].
  - apply Z.eqb_eq in E. rewrite (encode_len_eq_trim x Hv E). cbn [bind fst snd].
    eexists. rewrite <- utf8_encode_app. reflexivity.
  - destruct (trim_cps_split x) as [w [Hw _]].
    assert (utf8_encode (s_text s) ++ utf8_encode x
            = (utf8_encode (s_text s) ++ utf8_encode (trim_cps x)) ++ utf8_encode w) as ->
      by (rewrite Hw at 1; rewrite utf8_encode_app, app_assoc; reflexivity).
    rewrite <- len_app, go_slice_prefix. cbn [bind fst snd].
    eexists. rewrite <- utf8_encode_app. reflexivity.
Qed.

(* ... and a build whose last operation is Plain x returns the whole text: nothing is trimmed *)
Theorem complete_after_plain stale b toks s x :
  Rel stale b toks s -> Forall cp_valid x ->
  exists es, snd (b_complete (b_plain b (utf8_encode x))) = Ok (utf8_encode (s_text s ++ x), es).
Proof.
  intros R Hv. unfold b_complete, b_raw, fix_entities, b_plain.
  cbn [b_write b_reset b_msg b_ents b_lens b_lfi b_u16 fst snd].
  replace (len (b_ents b) >=? len (b_ents b)) with true by (symmetry; rewrite Z.geb_leb; apply Z.leb_le; lia).
  rewrite orb_true_r. cbn [bind fst snd]. eexists. rewrite (r_msg _ _ _ _ R), <- utf8_encode_app. reflexivity.
Qed.

(* byte-level invariant that alone rules out the panics of Complete (no Unicode hypothesis) *)
Definition binv (b : bstate) : Prop :=
  b_lfi b < len (b_ents b) -> b_lens b <> [] /\ 0 <= u_off (last (b_lens b) dflt_u) <= len (b_msg b).

Lemma strip_prefix_len p : forall r r', strip_prefix p r = Some r' -> (length r' <= length r)%nat.
Proof. intros r r' H. apply strip_prefix_spec in H. subst. rewrite app_length; lia. Qed.
Lemma strip_any_len cands : forall r r', strip_any cands r = Some r' -> (length r' <= length r)%nat.
Proof.
  induction cands as [|c cs IH]; intros r r' H; cbn [strip_any] in H; [discriminate|].
  destruct (strip_prefix (rev (utf8_enc c)) r) eqn:E; [inversion H; subst; eapply strip_prefix_len; exact E|apply IH; exact H].
Qed.
Lemma trim_rev_bytes_len fuel : forall r, (length (trim_rev_bytes fuel r) <= length r)%nat.
Proof.
  induction fuel as [|f IH]; intros r; cbn [trim_rev_bytes]; [lia|].
  destruct (strip_any space_runes r) eqn:E; [|lia]. apply strip_any_len in E. specialize (IH l). lia.
Qed.
Lemma trim_bytes_len s : len (trim_bytes s) <= len s.
Proof. unfold len, trim_bytes. rewrite rev_length. pose proof (trim_rev_bytes_len (length s) (rev s)). rewrite rev_length in H. lia. Qed.

Lemma go_slice_ok {A} (s : list A) lo hi : 0 <= lo -> lo <= hi -> hi <= len s -> exists r, @go_slice unit A s lo hi = Ok r /\ len r = hi - lo.
Proof.
  intros H1 H2 H3. unfold go_slice, len in *.
  replace ((0 <=? lo) && (lo <=? hi) && (hi <=? Z.of_nat (length s))) with true
    by (symmetry; repeat (apply andb_true_intro; split); apply Z.leb_le; lia).
  eexists; split; [reflexivity|]. rewrite firstn_length, skipn_length. lia.
Qed.

Theorem complete_no_panic b : binv b -> snd (b_complete b) <> Panic.
Proof.
  intros H. unfold b_complete, b_raw, fix_entities. cbn [b_reset b_lens b_lfi fst snd].
  destruct ((len (b_lens b) =? 0) || (b_lfi b >=? len (b_ents b))) eqn:G; [cbn [bind]; discriminate|].
  apply orb_false_elim in G. destruct G as [_ G]. rewrite Z.geb_leb in G. apply Z.leb_gt in G.
  destruct (H G) as [_ Hb]. unfold dflt_u in Hb. cbv zeta.
  set (u := last (b_lens b) {| u_off := 0; u_len := 0 |}) in *.
  destruct (go_slice_ok (b_msg b) (u_off u) (len (b_msg b))) as [blk [E Hl]]; try lia. rewrite E. cbn [bind].
  destruct ((u_len u >=? len blk) && negb (len (trim_bytes blk) =? len blk)); [|cbn [bind]; discriminate].
  pose proof (trim_bytes_len blk). pose proof (len_nonneg (trim_bytes blk)).
  destruct (go_slice_ok (b_msg b) 0 (u_off u + len (trim_bytes blk))) as [m' [E' _]]; try lia.
  rewrite E'. cbn [bind]. discriminate.
Qed.

Lemma binv_shrink b : binv b -> binv (b_shrink b).
Proof.
  unfold binv; cbn [b_shrink b_lfi b_ents b_lens b_msg]. intros H G. apply H.
  pose proof (shrink_length (b_ents b)). unfold len in *. lia.
Qed.
Lemma binv_grow b b' : binv b -> b_ents b' = b_ents b -> b_lens b' = b_lens b -> b_lfi b' = b_lfi b ->
  len (b_msg b) <= len (b_msg b') -> binv b'.
Proof. unfold binv. intros H -> -> -> Hm G. destruct (H G) as [H1 H2]. split; [exact H1|lia]. Qed.
Lemma binv_apply b tk tags : 0 <= t_u8 tk <= len (b_msg b) -> binv (b_apply b tk tags).
Proof.
  intros Hk. unfold binv, b_apply, b_append_entities; cbn [b_lfi b_ents b_lens b_msg].
  rewrite len_app, len_map. intros G.
  assert (tags <> []) as Hne by (destruct tags; [cbn in G; lia|discriminate]).
  set (u := {| u_off := t_u8 tk; u_len := len (b_msg b) - t_u8 tk |}).
  assert (map (fun _ : Z => u) tags <> []) as Hm by (destruct tags; [contradiction|discriminate]).
  split; [destruct (b_lens b); [exact Hm|discriminate]|].
  rewrite (last_app_ne _ _ _ Hm).
  assert (forall l : list Z, l <> [] -> last (map (fun _ => u) l) dflt_u = u) as HL.
  { induction l as [|y [|z l] IH]; intros Hl; [contradiction|reflexivity|]. cbn [map last] in *. apply IH; discriminate. }
  rewrite HL by exact Hne. exact Hk.
Qed.
Lemma binv_init : binv b_init.
Proof. unfold binv; cbn. lia. Qed.

Theorem build_trims_after_format m ops x tags :
  fresh (m_b m) -> build_ok s_init ops -> Forall cp_valid x -> x <> [] -> tags <> [] ->
  exists es, snd (exec m (map (enc_uop (length (m_toks m))) (ops ++ [UFormat x tags]) ++ [OComplete]))
             = [Ok (utf8_encode (s_text (srun ops) ++ trim_cps x), es)].
Proof.
  intros Hf Hok Hv Hx Ht. destruct (exec_rel (m_toks m) ops m s_init (rel_init m Hf) Hok) as [m1 [E1 R1]].
  destruct (complete_after_format _ _ _ _ x tags R1 Hv Hx Ht) as [es E]. exists es.
  rewrite map_app, <- app_assoc, (exec_app_silent _ _ _ _ E1). cbn [map app enc_uop exec step with_b m_b].
  destruct (b_complete (b_format (m_b m1) (utf8_encode x) tags)) as [b' r] eqn:Ec. cbn [snd] in E. rewrite E. reflexivity.
Qed.

Theorem build_keeps_after_plain m ops x :
  fresh (m_b m) -> build_ok s_init ops -> Forall cp_valid x ->
  exists es, snd (exec m (map (enc_uop (length (m_toks m))) (ops ++ [UPlain x]) ++ [OComplete]))
             = [Ok (utf8_encode (s_text (srun ops) ++ x), es)].
Proof.
  intros Hf Hok Hv. destruct (exec_rel (m_toks m) ops m s_init (rel_init m Hf) Hok) as [m1 [E1 R1]].
  destruct (complete_after_plain _ _ _ _ x R1 Hv) as [es E]. exists es.
  rewrite map_app, <- app_assoc, (exec_app_silent _ _ _ _ E1). cbn [map app enc_uop exec step with_b m_b].
  destruct (b_complete (b_plain (m_b m1) (utf8_encode x))) as [b' r] eqn:Ec. cbn [snd] in E. rewrite E. reflexivity.
Qed.
