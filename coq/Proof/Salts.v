(* Proofs about Model/Salts.v (C41). *)
From Coq Require Import ZArith List Bool Lia.
From TD Require Import Gen.SaltConsts Model.Salts.
Import ListNotations.
Open Scope Z_scope.

Lemma valid_iff v d : salt_last_valid_go v d = true <-> v > d.
Proof. unfold salt_last_valid_go. rewrite Z.gtb_lt. lia. Qed.
Lemma keep_iff v d : salt_keep_go v d = true <-> v > d.
Proof. unfold salt_keep_go. rewrite Z.gtb_lt. lia. Qed.

Lemma last_opt_some l s : last_opt l = Some s -> exists l0, l = l0 ++ [s].
Proof.
  unfold last_opt. intros H. destruct (rev l) as [|x t] eqn:E; [discriminate|]. inversion H; subst.
  exists (rev t). rewrite <- (rev_involutive l), E. reflexivity.
Qed.
Lemma last_opt_none l : last_opt l = None -> l = [].
Proof.
  unfold last_opt. destruct (rev l) eqn:E; [|discriminate]. intros _.
  rewrite <- (rev_involutive l), E. reflexivity.
Qed.
Lemma last_opt_app l s : last_opt (l ++ [s]) = Some s.
Proof. unfold last_opt. rewrite rev_app_distr. reflexivity. Qed.

Definition kept (d : Z) (l : list fsalt) : list fsalt := filter (fun x => salt_keep_go (vu x) d) l.

Lemma kept_all_valid d l : Forall (fun x => vu x > d) (kept d l).
Proof. apply Forall_forall. intros x Hx. apply filter_In in Hx. apply keep_iff. tauto. Qed.

(* One round on a list whose members are all valid returns at once. *)
Lemma get_loop_valid f l d :
  Forall (fun x => vu x > d) l ->
  get_loop (S f) l d = match last_opt l with None => Some (None, l) | Some s => Some (Some (sv s), l) end.
Proof.
  intros Hall. simpl. destruct (last_opt l) as [s|] eqn:E; [|reflexivity].
  destruct (last_opt_some _ _ E) as (l0 & ->). rewrite Forall_forall in Hall.
  assert (V : vu s > d) by (apply Hall; apply in_or_app; right; left; reflexivity).
  apply valid_iff in V. rewrite V. reflexivity.
Qed.

Lemma get_loop_unfold f l d :
  get_loop (S f) l d =
  match last_opt l with
  | None => Some (None, l)
  | Some s => if salt_last_valid_go (vu s) d then Some (Some (sv s), l) else get_loop f (kept d l) d
  end.
Proof. reflexivity. Qed.

(* Complete characterisation of Get. *)
Lemma get_spec l d :
  (exists s0, last_opt l = Some s0 /\ vu s0 > d /\ get l d = Some (Some (sv s0), l)) \/
  (exists s0, last_opt (kept d l) = Some s0 /\ get l d = Some (Some (sv s0), kept d l) /\
              (forall s1, last_opt l = Some s1 -> vu s1 <= d)) \/
  (kept d l = [] /\ get l d = Some (None, kept d l)).
Proof.
  unfold get. change (2 + length l)%nat with (S (S (length l))).
  rewrite get_loop_unfold. destruct (last_opt l) as [s|] eqn:E.
  - destruct (salt_last_valid_go (vu s) d) eqn:V.
    + left. exists s. apply valid_iff in V. auto.
    + rewrite get_loop_valid by apply kept_all_valid.
      assert (NV : vu s <= d).
      { destruct (Z.le_gt_cases (vu s) d) as [G|G]; [exact G|]. apply Z.lt_gt, valid_iff in G. congruence. }
      destruct (last_opt (kept d l)) as [s0|] eqn:E2.
      * right. left. exists s0. repeat split; try reflexivity. intros s1 H1. congruence.
      * right. right. apply last_opt_none in E2. rewrite E2. split; reflexivity.
  - right. right. apply last_opt_none in E. subst. split; reflexivity.
Qed.

(* the fuel 2 + len is sufficient: Get always terminates with an answer *)
Lemma get_total l d : get l d <> None.
Proof.
  destruct (get_spec l d) as [(s0 & _ & _ & H)|[(s0 & _ & H & _)|(_ & H)]]; rewrite H; discriminate.
Qed.

Lemma in_last l (s : fsalt) : last_opt l = Some s -> In s l.
Proof. intros H. destruct (last_opt_some _ _ H) as (l0 & ->). apply in_or_app. right. left. reflexivity. Qed.

(* A salt returned by Get(d) belongs to the store with valid_until > d; the store afterwards
   still contains every salt that is valid beyond d and only salts it contained before. *)
Lemma get_some l d s l' :
  get l d = Some (Some s, l') ->
  (exists v, In (v, s) l /\ v > d /\ last_opt l' = Some (v, s)) /\
  (forall x, In x l' -> In x l) /\ (forall x, In x l -> vu x > d -> In x l').
Proof.
  intros H. destruct (get_spec l d) as [(s0 & E & V & G)|[(s0 & E & G & _)|(_ & G)]]; rewrite G in H; inversion H; subst.
  - split; [|split; auto]. exists (vu s0). destruct s0 as [v0 x0]. simpl in *. repeat split; auto. apply in_last. exact E.
  - pose proof (in_last _ _ E) as Hin. apply filter_In in Hin. destruct Hin as (Hin & K). apply keep_iff in K.
    split; [|split].
    + exists (vu s0). destruct s0 as [v0 x0]. simpl in *. repeat split; auto.
    + intros x Hx. apply filter_In in Hx. tauto.
    + intros x Hx Vx. apply filter_In. split; [exact Hx|apply keep_iff; exact Vx].
Qed.

Lemma get_none l d l' :
  get l d = Some (None, l') -> l' = [] /\ Forall (fun x => vu x <= d) l.
Proof.
  intros H. destruct (get_spec l d) as [(s0 & E & V & G)|[(s0 & E & G & _)|(K & G)]]; rewrite G in H; inversion H; subst.
  split; [exact K|]. apply Forall_forall. intros x Hx.
  destruct (Z.le_gt_cases (vu x) d) as [L|L]; [exact L|]. exfalso.
  assert (In x (kept d l)) by (apply filter_In; split; [exact Hx|apply keep_iff; lia]).
  rewrite K in H0. contradiction.
Qed.

(* ---------- Store only rearranges and drops ---------- *)
Lemma ins_in x y l : In y (ins x l) <-> y = x \/ In y l.
Proof.
  induction l as [|z t IH]; simpl; [intuition|].
  destruct (salt_less_go (vu x) (vu z)); simpl; [intuition|]. rewrite IH. intuition.
Qed.
Lemma sort_desc_in_gen l : forall acc y, In y (fold_left (fun acc x => ins x acc) l acc) <-> In y l \/ In y acc.
Proof.
  induction l as [|x t IH]; intros acc y; simpl; [intuition|].
  rewrite IH, ins_in. intuition.
Qed.
Lemma sort_desc_in l y : In y (sort_desc l) <-> In y l.
Proof. unfold sort_desc. rewrite sort_desc_in_gen. simpl. intuition. Qed.
Lemma dedup_incl l : forall seen y, In y (dedup seen l) -> In y l.
Proof.
  induction l as [|x t IH]; intros seen y; simpl; [tauto|].
  destruct (existsb (Z.eqb (sv x)) seen); simpl; [intros H; right; eapply IH; exact H|].
  intros [H|H]; [left; exact H|right; eapply IH; exact H].
Qed.
Lemma store_incl l new y : In y (store l new) -> In y l \/ In y new.
Proof. unfold store. rewrite sort_desc_in. intros H. apply dedup_incl in H. apply in_app_or. exact H. Qed.

(* ---------- updateSalt ---------- *)
Definition attach_ok (st : cstate) (now : Z) (st' : cstate) : Prop :=
  (* (A) a future salt from the store whose validity ends after the lookahead window *)
  (exists v, In (v, cur st') (salts st) /\ v > deadline now /\ cur_src st' = Future v) \/
  (* (B) nothing in the store is valid beyond the lookahead: the held salt is kept *)
  (cur st' = cur st /\ cur_src st' = cur_src st /\ salts st' = [] /\
   Forall (fun x => vu x <= deadline now) (salts st)).

Lemma find_vu_last l v s : last_opt l = Some (v, s) -> find_vu l s = v.
Proof.
  intros H. unfold find_vu. destruct (last_opt_some _ _ H) as (l0 & ->).
  rewrite rev_app_distr. simpl. rewrite Z.eqb_refl. reflexivity.
Qed.

Lemma update_salt_ok st now : attach_ok st now (update_salt now st).
Proof.
  unfold update_salt. destruct (get (salts st) (deadline now)) as [[[s|] l']|] eqn:G.
  - left. apply get_some in G. destruct G as ((v & I & V & L) & _). exists v. simpl.
    rewrite (find_vu_last _ _ _ L). auto.
  - right. apply get_none in G. destruct G as (-> & F). simpl. auto.
  - exfalso. exact (get_total _ _ G).
Qed.

(* updateSalt never forgets a salt that is valid beyond the lookahead, and adds none *)
Lemma update_salt_store st now :
  (forall x, In x (salts (update_salt now st)) -> In x (salts st)) /\
  (forall x, In x (salts st) -> vu x > deadline now -> In x (salts (update_salt now st))).
Proof.
  unfold update_salt. destruct (get (salts st) (deadline now)) as [[[s|] l']|] eqn:G; simpl.
  - apply get_some in G. tauto.
  - apply get_none in G. destruct G as (-> & F). split; [intros x []|].
    intros x Hx V. rewrite Forall_forall in F. specialize (F x Hx). lia.
  - exfalso. exact (get_total _ _ G).
Qed.

(* ---------- all histories ---------- *)
(* every salt in the store was announced by the server in some earlier OStore *)
Fixpoint announced (ops : list op) (x : fsalt) : Prop :=
  match ops with
  | [] => False
  | OStore new :: t => In x new \/ announced t x
  | _ :: t => announced t x
  end.

Lemma announced_app a b x : announced (a ++ b) x <-> announced a x \/ announced b x.
Proof. induction a as [|o t IH]; simpl; [tauto|]. destruct o; rewrite ?IH; tauto. Qed.

Lemma run_state_app st a b : run_state st (a ++ b) = run_state (run_state st a) b.
Proof. revert st; induction a as [|o t IH]; intros st; simpl; [reflexivity|]. apply IH. Qed.

Lemma store_announced ops : forall st,
  (forall x, In x (salts st) -> False) ->
  forall x, In x (salts (run_state st ops)) -> announced ops x.
Proof.
  intros st H0.
  assert (G : forall ops st, forall x, In x (salts (run_state st ops)) -> In x (salts st) \/ announced ops x).
  { clear. induction ops as [|o t IH]; intros st x Hx; simpl in *; [left; exact Hx|].
    apply IH in Hx. destruct Hx as [Hx|Hx]; [|destruct o; tauto].
    destruct o; simpl in Hx.
    - apply store_incl in Hx. tauto.
    - tauto.
    - contradiction.
    - apply update_salt_store in Hx. tauto. }
  intros x Hx. apply G in Hx. destruct Hx as [Hx|Hx]; [exfalso; eauto|exact Hx].
Qed.

(* Main statement on histories: at every attach, (A) or (B) holds w.r.t. the state reached
   by the operations before it; and every stored salt was announced by the server. *)
Theorem attach_history s0 pre now :
  let st := run_state (init s0) pre in
  let st' := fst (step st (OAttach now)) in
  snd (step st (OAttach now)) = Some (cur st') /\
  attach_ok st now st' /\
  (forall x, In x (salts st) -> announced pre x).
Proof.
  cbv zeta. simpl. split; [reflexivity|]. split; [apply update_salt_ok|].
  apply store_announced. simpl. tauto.
Qed.

(* provenance of the held salt over all histories *)
Fixpoint last_told (ops : list op) (acc : option Z) : option Z :=
  match ops with
  | [] => acc
  | OTold s :: t => last_told t (Some s)
  | _ :: t => last_told t acc
  end.

Definition prov_ok (s0 : Z) (told : option Z) (st : cstate) : Prop :=
  match cur_src st with
  | Initial => cur st = s0 /\ told = None
  | Told => told = Some (cur st)
  | Future _ => True
  end.

Lemma prov_step s0 told st o :
  prov_ok s0 told st -> prov_ok s0 (last_told [o] told) (fst (step st o)).
Proof.
  unfold prov_ok. destruct o; simpl; try tauto.
  destruct (update_salt_ok st now_ns) as [(v & _ & _ & E)|(E1 & E2 & _)].
  - rewrite E. tauto.
  - rewrite E1, E2. tauto.
Qed.

Lemma last_told_app a b acc : last_told (a ++ b) acc = last_told b (last_told a acc).
Proof. revert acc; induction a as [|o t IH]; intros acc; simpl; [reflexivity|]. destruct o; apply IH. Qed.

Theorem provenance s0 ops :
  prov_ok s0 (last_told ops None) (run_state (init s0) ops).
Proof.
  assert (G : forall ops st told, prov_ok s0 told st -> prov_ok s0 (last_told ops told) (run_state st ops)).
  { clear. induction ops as [|o t IH]; intros st told H; [exact H|].
    apply (prov_step s0 told st o) in H.
    change (o :: t) with ([o] ++ t). rewrite last_told_app, run_state_app.
    apply IH. exact H. }
  apply G. simpl. unfold prov_ok. simpl. auto.
Qed.

(* ---------- Invoke ---------- *)
Lemma retries_iff code : invoke_retries_go true code = true <-> code = c_codeIncorrectServerSalt.
Proof. unfold invoke_retries_go. simpl. apply Z.eqb_eq. Qed.

Lemma update_salt_empty now c s : update_salt now {| cur := c; cur_src := s; salts := [] |} = {| cur := c; cur_src := s; salts := [] |}.
Proof. reflexivity. Qed.

Theorem invoke_retry st now1 now2 r1 r2 :
  let '(sends, out, st') := invoke st now1 now2 r1 r2 in
  match r1 with
  | DoBad code ns =>
      if code =? c_codeIncorrectServerSalt
      then sends = [cur (update_salt now1 st); ns] /\ out = ret_of r2 /\ cur st' = ns /\ cur_src st' = Told
      else sends = [cur (update_salt now1 st)] /\ out = RetBad code
  | _ => sends = [cur (update_salt now1 st)] /\ out = ret_of r1
  end.
Proof.
  unfold invoke. destruct r1 as [|code ns|]; try (split; reflexivity).
  unfold invoke_retries_go. cbn [andb].
  destruct (code =? c_codeIncorrectServerSalt); [|split; reflexivity].
  rewrite update_salt_empty. simpl. auto.
Qed.

(* the lookahead of updateSalt is the 5 minutes of the property *)
Lemma deadline_5min now : deadline now = (now + 300 * 1000000000) / 1000000000.
Proof. reflexivity. Qed.

(* ---------- Invoke with an environment between the two sends ---------- *)
Lemma update_salt_nostore now st : salts st = [] -> update_salt now st = st.
Proof. destruct st as [c s l]. simpl. intros ->. reflexivity. Qed.

Lemma quiet_run env : forall st,
  salts st = [] -> forallb quiet env = true -> run_state st env = st.
Proof.
  induction env as [|o t IH]; intros st E Q; simpl in *; [reflexivity|].
  apply andb_true_iff in Q. destruct Q as (Q1 & Q2).
  destruct o; simpl in Q1; try discriminate; simpl.
  - (* OReset *) destruct st as [c s l]. simpl in *. subst. apply IH; [reflexivity|exact Q2].
  - (* OAttach *) rewrite update_salt_nostore by exact E. apply IH; assumption.
Qed.

Theorem invoke_retry_env st now1 ns env now2 r2 :
  let st2 := {| cur := ns; cur_src := Told; salts := [] |} in
  let '(sends, out, st') := invoke_env st now1 (DoBad c_codeIncorrectServerSalt ns) env now2 r2 in
  exists s2, sends = [cur (update_salt now1 st); s2] /\ out = ret_of r2 /\ s2 = cur st' /\
    attach_ok (run_state st2 env) now2 st' /\
    (forall x, In x (salts (run_state st2 env)) -> announced env x) /\
    (forallb quiet env = true -> s2 = ns /\ cur_src st' = Told).
Proof.
  cbv zeta. unfold invoke_env, invoke_retries_go. cbn [andb]. rewrite Z.eqb_refl.
  eexists. split; [reflexivity|]. split; [reflexivity|]. split; [reflexivity|].
  split; [apply update_salt_ok|]. split.
  - apply store_announced. simpl. tauto.
  - intros Q. rewrite quiet_run by (try reflexivity; exact Q). rewrite update_salt_empty. simpl. auto.
Qed.

(* ---------- the literal reading of "never a salt already expired" is refuted ---------- *)
Lemma expired_salt_kept :
  let pre := [OStore [(1000, 11)]; OAttach 100000000000; OAttach 900000000000] in
  let now := 1100000000000 in
  let st' := fst (step (run_state (init 5) pre) (OAttach now)) in
  snd (step (run_state (init 5) pre) (OAttach now)) = Some 11 /\ cur_src st' = Future 1000 /\ 1000 * 1000000000 <= now.
Proof. vm_compute. repeat split; discriminate. Qed.

(* the second copy of the retry condition (bindTempAuthKeyAttempt) is the same decision *)
Lemma bind_same_condition b code : bind_retries_go b code = invoke_retries_go b code.
Proof. reflexivity. Qed.
