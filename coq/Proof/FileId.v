(* Proofs for the fileid model: RLE and base64url round trips, FileID round trip over the
   TL primitives, totality of DecodeFileID. *)
From Coq Require Import ZArith List Bool Lia.
From TD Require Import Lib.Bytes Lib.GoSem Lib.GoSlice Gen.TlConsts Gen.FileIdConsts Model.TlPrim Proof.TlPrim Model.FileId.
Import ListNotations.
Open Scope Z_scope.

(* ================= RLE ================= *)

Lemma repeat_S_app (n : nat) (t : list Z) : repeat 0 (S n) ++ t = repeat 0 n ++ 0 :: t.
Proof. cbn [repeat]. rewrite repeat_cons, <- app_assoc. reflexivity. Qed.

Lemma rle_dec_pending b t : b <> 0 -> rle_dec t (Some b) = b :: rle_dec t None.
Proof. intros H. destruct t as [|c t]; destruct b; try congruence; reflexivity. Qed.

Lemma rle_dec_run n rest : rle_dec (0 :: n :: rest) None = repeat 0 (Z.to_nat n) ++ rle_dec rest None.
Proof. reflexivity. Qed.

Lemma rle_dec_flush c rest : 0 <= c -> rle_dec (rle_flush c ++ rest) None = repeat 0 (Z.to_nat c) ++ rle_dec rest None.
Proof.
  intros H. unfold rle_flush. destruct (Z.gtb_spec c 0).
  - cbn [app]. apply rle_dec_run.
  - replace c with 0 by lia. reflexivity.
Qed.

Lemma rle_rt_gen s : forall c, 0 <= c <= 254 -> rle_dec (rle_enc s c) None = repeat 0 (Z.to_nat c) ++ s.
Proof.
  induction s as [|cur t IH]; intros c Hc; cbn [rle_enc].
  - rewrite <- (app_nil_r (rle_flush c)), rle_dec_flush by lia. reflexivity.
  - destruct (Z.eqb_spec cur 0) as [->|N].
    + rewrite Z.mod_small by lia.
      destruct (Z.eqb_spec (c + 1) 255) as [E|E].
      * rewrite rle_dec_run, IH by lia. cbn [Z.to_nat repeat app].
        replace (Z.to_nat (c + 1)) with (S (Z.to_nat c)) by lia. apply repeat_S_app.
      * rewrite IH by lia. replace (Z.to_nat (c + 1)) with (S (Z.to_nat c)) by lia. apply repeat_S_app.
    + rewrite rle_dec_flush by lia. f_equal.
      change (rle_dec (cur :: rle_enc t 0) None) with (rle_dec (rle_enc t 0) (Some cur)).
      rewrite rle_dec_pending by exact N. rewrite IH by lia. reflexivity.
Qed.

Lemma rle_roundtrip s : rle_decode (rle_encode s) = s.
Proof. unfold rle_decode, rle_encode. rewrite rle_rt_gen by lia. reflexivity. Qed.

Lemma rle_flush_ok c : 0 <= c <= 255 -> bytes_ok (rle_flush c).
Proof. intros H. unfold rle_flush. destruct (c >? 0); repeat constructor; lia. Qed.
Lemma rle_enc_ok s : forall c, bytes_ok s -> 0 <= c <= 254 -> bytes_ok (rle_enc s c).
Proof.
  induction s as [|cur t IH]; intros c OK Hc; cbn [rle_enc].
  - apply rle_flush_ok; lia.
  - inversion OK as [|? ? Hb Ht]; subst. destruct (Z.eqb_spec cur 0).
    + rewrite Z.mod_small by lia. destruct (Z.eqb_spec (c + 1) 255).
      * constructor; [unfold byte_ok; lia|]. constructor; [unfold byte_ok; lia|]. apply IH; auto; lia.
      * apply IH; auto; lia.
    + apply bytes_ok_app. split; [apply rle_flush_ok; lia|]. constructor; [exact Hb|apply IH; auto; lia].
Qed.
Lemma rle_dec_ok s : forall last, bytes_ok s -> (forall b, last = Some b -> byte_ok b) -> bytes_ok (rle_dec s last).
Proof.
  induction s as [|cur t IH]; intros last OK HL; cbn [rle_dec].
  - destruct last as [b|]; [constructor; [apply HL; reflexivity|constructor]|constructor].
  - inversion OK as [|? ? Hb Ht]; subst.
    destruct last as [b|].
    + destruct b.
      * apply bytes_ok_app; split; [apply bytes_ok_repeat; unfold byte_ok; lia|apply IH; auto; discriminate].
      * constructor; [apply HL; reflexivity|apply IH; auto; intros ? [= <-]; exact Hb].
      * constructor; [apply HL; reflexivity|apply IH; auto; intros ? [= <-]; exact Hb].
    + apply IH; auto. intros ? [= <-]; exact Hb.
Qed.
Lemma rle_decode_ok s : bytes_ok s -> bytes_ok (rle_decode s).
Proof. intros H. apply rle_dec_ok; [exact H|discriminate]. Qed.

(* ================= base64url ================= *)

Definition sext_ok (i : Z) : Prop := 0 <= i < 64.

Lemma b64_index_char i : sext_ok i ->
  b64_index (b64_char i) = Some i /\ ((b64_char i =? 10) || (b64_char i =? 13)) = false.
Proof.
  intros H. unfold sext_ok in H.
  assert (G : forall n, (n < 64)%nat ->
    b64_index (b64_char (Z.of_nat n)) = Some (Z.of_nat n) /\
    ((b64_char (Z.of_nat n) =? 10) || (b64_char (Z.of_nat n) =? 13)) = false).
  { intros n Hn. do 64 (destruct n as [|n]; [vm_compute; split; reflexivity|]). lia. }
  specialize (G (Z.to_nat i) ltac:(lia)). rewrite Z2Nat.id in G by lia. exact G.
Qed.

Lemma b64_index_range c i : b64_index c = Some i -> sext_ok i.
Proof.
  unfold b64_index, sext_ok.
  destruct ((65 <=? c) && (c <=? 90)) eqn:E1; [apply andb_true_iff in E1; rewrite !Z.leb_le in E1; intros [= <-]; lia|].
  destruct ((97 <=? c) && (c <=? 122)) eqn:E2; [apply andb_true_iff in E2; rewrite !Z.leb_le in E2; intros [= <-]; lia|].
  destruct ((48 <=? c) && (c <=? 57)) eqn:E3; [apply andb_true_iff in E3; rewrite !Z.leb_le in E3; intros [= <-]; lia|].
  destruct (Z.eqb_spec c 45); [intros [= <-]; lia|]. destruct (Z.eqb_spec c 95); [intros [= <-]; lia|discriminate].
Qed.

Lemma b64_sextets_map x : Forall sext_ok x -> b64_sextets (map b64_char x) = Some x.
Proof.
  induction 1 as [|i x Hi _ IH]; [reflexivity|].
  cbn [map b64_sextets]. destruct (b64_index_char i Hi) as [A B]. rewrite B, A, IH. reflexivity.
Qed.
Lemma b64_sextets_range s x : b64_sextets s = Some x -> Forall sext_ok x.
Proof.
  revert x; induction s as [|c t IH]; intros x; cbn [b64_sextets].
  - intros [= <-]; constructor.
  - destruct ((c =? 10) || (c =? 13)); [apply IH|].
    destruct (b64_index c) as [i|] eqn:E; [|discriminate].
    destruct (b64_sextets t) as [l|]; [|discriminate]. intros [= <-].
    constructor; [eapply b64_index_range; eauto|apply IH; reflexivity].
Qed.

Lemma list_ind3 {A} (P : list A -> Prop) :
  P [] -> (forall a, P [a]) -> (forall a b, P [a; b]) -> (forall a b c t, P t -> P (a :: b :: c :: t)) ->
  forall l, P l.
Proof. intros H0 H1 H2 H3. fix IH 1. intros [|a [|b [|c t]]]; [exact H0|exact (H1 a)|exact (H2 a b)|exact (H3 a b c t (IH t))]. Qed.
Lemma list_ind4 {A} (P : list A -> Prop) :
  P [] -> (forall a, P [a]) -> (forall a b, P [a; b]) -> (forall a b c, P [a; b; c]) ->
  (forall a b c d t, P t -> P (a :: b :: c :: d :: t)) -> forall l, P l.
Proof. intros H0 H1 H2 H3 H4. fix IH 1. intros [|a [|b [|c [|d t]]]]; [exact H0|exact (H1 a)|exact (H2 a b)|exact (H3 a b c)|exact (H4 a b c d t (IH t))]. Qed.

Lemma b64_sext_range s : bytes_ok s -> Forall sext_ok (b64_sext s).
Proof.
  induction s as [|a|a b|a b c t IH] using list_ind3; intros OK; cbn [b64_sext].
  - constructor.
  - inversion OK as [|? ? Ha _]; subst. unfold byte_ok in *. repeat constructor; unfold sext_ok; Z.div_mod_to_equations; lia.
  - inversion OK as [|? ? Ha O1]; inversion O1 as [|? ? Hb _]; subst. unfold byte_ok in *.
    repeat constructor; unfold sext_ok; Z.div_mod_to_equations; lia.
  - inversion OK as [|? ? Ha O1]; inversion O1 as [|? ? Hb O2]; inversion O2 as [|? ? Hc O3]; subst. unfold byte_ok in *.
    repeat (constructor; [unfold sext_ok; Z.div_mod_to_equations; lia|]). apply IH, O3.
Qed.

Lemma b64_quad a b c : byte_ok a -> byte_ok b -> byte_ok c ->
  (a / 4) * 4 + ((a mod 4) * 16 + b / 16) / 16 = a /\
  (((a mod 4) * 16 + b / 16) mod 16) * 16 + ((b mod 16) * 4 + c / 64) / 4 = b /\
  (((b mod 16) * 4 + c / 64) mod 4) * 64 + c mod 64 = c.
Proof. unfold byte_ok. intros Ha Hb Hc. repeat split; Z.div_mod_to_equations; lia. Qed.

Lemma b64_groups_sext s : bytes_ok s -> b64_groups (b64_sext s) = Some s.
Proof.
  induction s as [|a|a b|a b c t IH] using list_ind3; intros OK; cbn [b64_sext b64_groups].
  - reflexivity.
  - inversion OK as [|? ? Ha _]; subst.
    destruct (b64_quad a 0 0 Ha ltac:(unfold byte_ok; lia) ltac:(unfold byte_ok; lia)) as [E _].
    change (0 / 16) with 0 in E. rewrite Z.add_0_r in E. rewrite E. reflexivity.
  - inversion OK as [|? ? Ha O1]; inversion O1 as [|? ? Hb _]; subst.
    destruct (b64_quad a b 0 Ha Hb ltac:(unfold byte_ok; lia)) as [E1 [E2 _]].
    change (0 / 64) with 0 in E2. rewrite Z.add_0_r in E2. rewrite E1, E2. reflexivity.
  - inversion OK as [|? ? Ha O1]; inversion O1 as [|? ? Hb O2]; inversion O2 as [|? ? Hc O3]; subst.
    rewrite IH by exact O3. destruct (b64_quad a b c Ha Hb Hc) as [E1 [E2 E3]]. rewrite E1, E2, E3. reflexivity.
Qed.

Lemma b64_roundtrip s : bytes_ok s -> b64_decode (b64_encode s) = Some s.
Proof.
  intros OK. unfold b64_decode, b64_encode.
  rewrite b64_sextets_map by (apply b64_sext_range, OK). apply b64_groups_sext, OK.
Qed.

Lemma b64_groups_ok x : Forall sext_ok x -> forall d, b64_groups x = Some d -> bytes_ok d.
Proof.
  induction x as [|a|a b|a b c|a b c e t IH] using list_ind4; intros OK d; cbn [b64_groups].
  - intros [= <-]; constructor.
  - discriminate.
  - inversion OK as [|? ? Ha O1]; inversion O1 as [|? ? Hb _]; subst. unfold sext_ok in *.
    intros [= <-]. repeat constructor; Z.div_mod_to_equations; lia.
  - inversion OK as [|? ? Ha O1]; inversion O1 as [|? ? Hb O2]; inversion O2 as [|? ? Hc _]; subst. unfold sext_ok in *.
    intros [= <-]. repeat constructor; Z.div_mod_to_equations; lia.
  - inversion OK as [|? ? Ha O1]; inversion O1 as [|? ? Hb O2]; inversion O2 as [|? ? Hc O3]; inversion O3 as [|? ? He O4]; subst.
    unfold sext_ok in *. destruct (b64_groups t) as [r|]; [|discriminate]. intros [= <-].
    repeat (constructor; [unfold byte_ok; Z.div_mod_to_equations; lia|]). apply IH; auto.
Qed.
Lemma b64_decode_ok s d : b64_decode s = Some d -> bytes_ok d.
Proof.
  unfold b64_decode. destruct (b64_sextets s) as [x|] eqn:E; [|discriminate].
  apply b64_groups_ok. eapply b64_sextets_range; eauto.
Qed.

(* ================= FileID ================= *)

Definition i64 (v : Z) : Prop := - 2 ^ 63 <= v < 2 ^ 63.
Definition i32 (v : Z) : Prop := - 2 ^ 31 <= v < 2 ^ 31.
Definition u32 (v : Z) : Prop := 0 <= v < 2 ^ 32.

(* photo size sources as the format stores them: the fields that belong to the type are
   in range, all other fields are zero (PhotoSize is never written by the encoder) *)
Inductive valid_pss : pss -> Prop :=
| VLegacy s : i64 s -> valid_pss (mkPss c_PhotoSizeSourceLegacy 0 0 s 0 0 0 0 0 0 0)
| VThumb ft th : u32 ft -> i32 th -> valid_pss (mkPss c_PhotoSizeSourceThumbnail 0 0 0 ft th 0 0 0 0 0)
| VDialog t d h : t = c_PhotoSizeSourceDialogPhotoSmall \/ t = c_PhotoSizeSourceDialogPhotoBig -> i64 d -> i64 h ->
    valid_pss (mkPss t 0 0 0 0 0 d h 0 0 0)
| VSet i h : i64 i -> i64 h -> valid_pss (mkPss c_PhotoSizeSourceStickerSetThumbnail 0 0 0 0 0 0 0 i h 0)
| VFull v l s : i64 v -> i32 l -> i64 s -> valid_pss (mkPss c_PhotoSizeSourceFullLegacy v l s 0 0 0 0 0 0 0)
| VDialogLegacy t d h v l : t = c_PhotoSizeSourceDialogPhotoSmallLegacy \/ t = c_PhotoSizeSourceDialogPhotoBigLegacy ->
    i64 d -> i64 h -> i64 v -> i32 l -> valid_pss (mkPss t v l 0 0 0 d h 0 0 0)
| VSetLegacy i h v l : i64 i -> i64 h -> i64 v -> i32 l ->
    valid_pss (mkPss c_PhotoSizeSourceStickerSetThumbnailLegacy v l 0 0 0 0 0 i h 0)
| VSetVersion i h ver : i64 i -> i64 h -> i32 ver ->
    valid_pss (mkPss c_PhotoSizeSourceStickerSetThumbnailVersion 0 0 0 0 0 0 0 i h ver).

Definition valid_file_id (f : file_id) : Prop :=
  0 <= f_type f < c_lastType /\ i32 (f_dc f) /\
  bytes_ok (f_ref f) /\ len (f_ref f) < 2 ^ 24 /\ bytes_ok (f_url f) /\ len (f_url f) < 2 ^ 24 /\
  (if len (f_url f) =? 0
   then i64 (f_id f) /\ i64 (f_hash f) /\
        (if is_photo_type (f_type f) then valid_pss (f_pss f) else f_pss f = pss0)
   else f_id f = 0 /\ f_hash f = 0 /\ f_pss f = pss0).

Lemma rd_long_rt v r : i64 v -> rd_long (encode_long v ++ r) = Ok (v, r).
Proof. intros H. unfold rd_long, wrap. rewrite decode_long_rt by exact H. reflexivity. Qed.
Lemma rd_int_rt v r : i32 v -> rd_int (encode_int v ++ r) = Ok (v, r).
Proof. intros H. unfold rd_int, wrap. rewrite decode_int_rt by exact H. reflexivity. Qed.
Lemma rd_u32_rt v r : u32 v -> wrap (decode_uint32 (encode_uint32 v ++ r)) = Ok (v, r).
Proof. intros H. unfold wrap. rewrite decode_uint32_rt by exact H. reflexivity. Qed.
Lemma rd_i32_rt v r : i32 v -> wrap (decode_int32 (encode_int32 v ++ r)) = Ok (v, r).
Proof. intros H. unfold wrap. rewrite decode_int32_rt by exact H. reflexivity. Qed.
Lemma rd_bytes_rt v r : len v < 2 ^ 24 -> wrap (decode_bytes (encode_bytes v ++ r)) = Ok (v, r).
Proof. intros H. unfold wrap. rewrite decode_bytes_rt by exact H. reflexivity. Qed.

Ltac rt_step :=
  first [ rewrite rd_long_rt by assumption | rewrite rd_int_rt by assumption
        | rewrite rd_u32_rt by assumption | rewrite rd_i32_rt by assumption ]; cbn [bind].

Lemma i32_small t : 0 <= t < 10 -> i32 t.
Proof. unfold i32; lia. Qed.

(* decode with the sub-version the encoder writes *)
Ltac unfold_pss_consts :=
  unfold c_PhotoSizeSourceLegacy, c_PhotoSizeSourceThumbnail, c_PhotoSizeSourceDialogPhotoSmall, c_PhotoSizeSourceDialogPhotoBig,
    c_PhotoSizeSourceStickerSetThumbnail, c_PhotoSizeSourceFullLegacy, c_PhotoSizeSourceDialogPhotoSmallLegacy,
    c_PhotoSizeSourceDialogPhotoBigLegacy, c_PhotoSizeSourceStickerSetThumbnailLegacy, c_PhotoSizeSourceStickerSetThumbnailVersion,
    c_lastPhotoSizeSourceType.
Lemma decode_pss_rt p r : valid_pss p -> decode_pss (encode_pss p ++ r) c_latestSubVersion = Ok p.
Proof.
  intros V. unfold decode_pss, c_latestSubVersion.
  change (34 <? 32) with false. change (34 >=? 4) with true. cbn [andb bind].
  unfold encode_pss, encode_dialog, encode_sticker_set, encode_local_volume.
  inversion V; subst; unfold_pss_consts; cbn [p_type p_volume p_local p_secret p_ftype p_thumb p_dialog p_dialog_hash p_set_id p_set_hash p_version];
    try match goal with H : _ = _ \/ _ = _ |- _ => destruct H; subst end;
    unfold_pss_consts; cbn [Z.eqb Pos.eqb orb andb];
    rewrite <- ?app_assoc;
    (rewrite rd_int_rt by (apply i32_small; lia)); cbn [bind Z.ltb Z.geb Z.compare Pos.compare Pos.compare_cont orb];
    unfold decode_pss_body, read_dialog, read_sticker_set, read_local_volume; unfold_pss_consts; cbn [Z.eqb Pos.eqb orb andb];
    rewrite <- ?app_assoc; repeat rt_step; reflexivity.
Qed.

Lemma tid_flags t (web rf : bool) : 0 <= t < 18 ->
  let tid := Z.lor (Z.lor t (if web then c_webLocationFlag else 0)) (if rf then c_fileReferenceFlag else 0) in
  u32 tid /\ negb (Z.land tid c_webLocationFlag =? 0) = web /\ negb (Z.land tid c_fileReferenceFlag =? 0) = rf /\
  Z.ldiff (Z.ldiff tid c_webLocationFlag) c_fileReferenceFlag = t.
Proof.
  intros H.
  assert (G : forall n, (n < 18)%nat ->
    let t := Z.of_nat n in
    let tid := Z.lor (Z.lor t (if web then c_webLocationFlag else 0)) (if rf then c_fileReferenceFlag else 0) in
    u32 tid /\ negb (Z.land tid c_webLocationFlag =? 0) = web /\ negb (Z.land tid c_fileReferenceFlag =? 0) = rf /\
    Z.ldiff (Z.ldiff tid c_webLocationFlag) c_fileReferenceFlag = t).
  { intros n Hn. do 18 (destruct n as [|n]; [destruct web, rf; vm_compute; repeat split; congruence|]). lia. }
  specialize (G (Z.to_nat t) ltac:(lia)). rewrite Z2Nat.id in G by lia. exact G.
Qed.

Lemma go_index_last {E} a x : @go_index E (a ++ [x]) (len (a ++ [x]) - 1) = Ok x.
Proof.
  rewrite len_app. change (len [x]) with 1. pose proof (len_nonneg a).
  rewrite go_index_ok by (rewrite len_app; change (len [x]) with 1; lia).
  replace (len a + 1 - 1) with (len a) by lia. unfold len. rewrite Nat2Z.id.
  rewrite app_nth2 by lia. rewrite Nat.sub_diag. reflexivity.
Qed.
Lemma go_index_last' {E} a x : @go_index E (a ++ [x]) (len a) = Ok x.
Proof. rewrite <- (go_index_last a x). f_equal. rewrite len_app. change (len [x]) with 1. lia. Qed.
Lemma go_index_some {E} (b : list Z) i : 0 <= i < len b -> exists x, @go_index E b i = Ok x.
Proof. intros H. rewrite go_index_ok by exact H. eauto. Qed.

Lemma len_encode_uint32 v : len (encode_uint32 v) = 4.
Proof. apply len_le_enc. Qed.

Lemma decode_latest_rt f : valid_file_id f -> decode_latest (encode_latest f) = Ok f.
Proof.
  destruct f as [t dc id hash rf url p]. unfold valid_file_id. cbn [f_type f_dc f_id f_hash f_ref f_url f_pss].
  intros (Ht & Hdc & Oref & Lref & Ourl & Lurl & Hrest).
  unfold decode_latest, encode_latest. cbn [f_type f_dc f_id f_hash f_ref f_url f_pss].
  set (web := negb (len url =? 0)). set (hasref := negb (len rf =? 0)).
  unfold c_lastType in Ht.
  destruct (tid_flags t web hasref Ht) as (Tu & Tw & Tr & Tt).
  set (tid := Z.lor (Z.lor t (if web then c_webLocationFlag else 0)) (if hasref then c_fileReferenceFlag else 0)) in *.
  set (tail := (if web then encode_string url else _)).
  set (whole := encode_uint32 tid ++ encode_uint32 dc ++ (if hasref then encode_bytes rf else []) ++ tail).
  assert (Lw : 8 <= len whole).
  { subst whole. rewrite !len_app, !len_encode_uint32.
    pose proof (len_nonneg (if hasref then encode_bytes rf else [])). pose proof (len_nonneg tail). lia. }
  destruct (Z.ltb_spec (len whole) 1); [lia|].
  (* the sub-version byte *)
  assert (Hsub : exists sub, @go_index fid_err whole (len whole - 1) = Ok sub /\ (web = false -> sub = c_latestSubVersion)).
  { destruct web eqn:W.
    - destruct (@go_index_some fid_err whole (len whole - 1) ltac:(lia)) as [x Hx]. exists x; split; [exact Hx|discriminate].
    - exists c_latestSubVersion. split; [|reflexivity]. subst whole tail. cbv iota.
      rewrite !app_assoc. apply go_index_last. }
  destruct Hsub as (sub & Hsub & Hsubv). rewrite Hsub. cbn [bind].
  subst whole. rewrite rd_u32_rt by exact Tu. cbn [bind]. rewrite Tw, Tr, Tt.
  unfold c_lastType. destruct (Z.geb_spec t 18); [lia|].
  change (encode_uint32 dc) with (encode_int32 dc). rewrite rd_i32_rt by exact Hdc. cbn [bind].
  assert (Eref : (if hasref then wrap (decode_bytes ((if hasref then encode_bytes rf else []) ++ tail)) else Ok ([], (if hasref then encode_bytes rf else []) ++ tail)) = Ok (rf, tail)).
  { subst hasref. destruct (Z.eqb_spec (len rf) 0) as [E|E]; cbn [negb].
    - apply len_zero_nil in E. subst rf. reflexivity.
    - apply rd_bytes_rt, Lref. }
  rewrite Eref. cbn [bind]. clear Eref.
  subst tail web. destruct (Z.eqb_spec (len url) 0) as [E|E]; cbn [negb] in *.
  - (* ordinary file *)
    apply len_zero_nil in E. subst url. destruct Hrest as (Hid & Hhash & Hp).
    rewrite <- ?app_assoc. rewrite rd_long_rt by exact Hid. cbn [bind].
    rewrite rd_long_rt by exact Hhash. cbn [bind].
    destruct (is_photo_type t).
    + rewrite (Hsubv eq_refl). rewrite decode_pss_rt by exact Hp. reflexivity.
    + subst p. reflexivity.
  - (* web location *)
    destruct Hrest as (-> & -> & ->).
    unfold decode_string, encode_string. rewrite <- (app_nil_r (encode_bytes url)).
    rewrite rd_bytes_rt by exact Lurl. reflexivity.
Qed.

Lemma bytes_ok_single x : 0 <= x < 256 -> bytes_ok [x].
Proof. intros H. apply Forall_cons; [exact H|apply Forall_nil]. Qed.
Lemma encode_pss_ok p : bytes_ok (encode_pss p).
Proof.
  unfold encode_pss, encode_dialog, encode_sticker_set, encode_local_volume, encode_long, encode_int, encode_int32, encode_uint32.
  repeat match goal with |- context [if ?c then _ else _] => destruct c end;
    rewrite ?bytes_ok_app; repeat split; try apply le_enc_ok; constructor.
Qed.
Lemma encode_latest_ok f : valid_file_id f -> bytes_ok (encode_latest f).
Proof.
  intros (Ht & Hdc & Oref & Lref & Ourl & Lurl & _). unfold encode_latest, encode_string.
  rewrite !bytes_ok_app. repeat split; try apply le_enc_ok.
  - destruct (negb (len (f_ref f) =? 0)); [apply encode_bytes_ok; auto|constructor].
  - destruct (negb (len (f_url f) =? 0)); [apply encode_bytes_ok; auto|].
    rewrite !bytes_ok_app. repeat split; try apply le_enc_ok.
    + destruct (is_photo_type (f_type f)); [apply encode_pss_ok|constructor].
    + apply bytes_ok_single. unfold c_latestSubVersion. lia.
Qed.

Lemma file_id_roundtrip f : valid_file_id f -> decode_file_id (encode_file_id f) = Ok f.
Proof.
  intros V. unfold decode_file_id, encode_file_id.
  set (body := encode_latest f ++ [c_persistentIDVersion]).
  assert (OKb : bytes_ok body).
  { subst body. apply bytes_ok_app. split; [apply encode_latest_ok, V|apply bytes_ok_single; unfold c_persistentIDVersion; lia]. }
  assert (OKr : bytes_ok (rle_encode body)) by (apply rle_enc_ok; [exact OKb|lia]).
  assert (D : b64_decode (b64_encode (rle_encode body)) = Some (rle_encode body)) by (apply b64_roundtrip, OKr).
  destruct (Z.eqb_spec (len (b64_encode (rle_encode body))) 0) as [E|_].
  { exfalso. apply len_zero_nil in E. rewrite E in D. change (b64_decode []) with (Some (@nil Z)) in D. injection D as D.
    pose proof (rle_roundtrip body) as R. rewrite <- D in R. change (rle_decode []) with (@nil Z) in R.
    subst body. destruct (encode_latest f); discriminate. }
  rewrite D, rle_roundtrip.
  assert (L8 : 8 <= len (encode_latest f)).
  { unfold encode_latest. rewrite !len_app, !len_encode_uint32.
    match goal with |- 8 <= 4 + (4 + (len ?a + len ?b)) => pose proof (len_nonneg a); pose proof (len_nonneg b) end. lia. }
  subst body. rewrite len_app. change (len [c_persistentIDVersion]) with 1.
  destruct (Z.ltb_spec (len (encode_latest f) + 1) 2); [lia|].
  replace (len (encode_latest f) + 1 - 1) with (len (encode_latest f)) by lia.
  rewrite go_index_last'. cbn [bind].
  change ((c_persistentIDVersion =? c_persistentIDVersionOld) || (c_persistentIDVersion =? c_persistentIDVersionMap)) with false.
  change (c_persistentIDVersion =? c_persistentIDVersion) with true. cbv iota.
  rewrite go_slice_prefix. cbn [bind]. apply decode_latest_rt, V.
Qed.

(* ================= totality ================= *)

Definition safe {A} (r : res fid_err (A * list Z)) : Prop :=
  match r with Ok (_, b) => bytes_ok b | Err _ => True | Panic => False end.

Lemma safe_bind {A B} (r : res fid_err (A * list Z)) (k : A * list Z -> res fid_err (B * list Z)) :
  safe r -> (forall a b, bytes_ok b -> safe (k (a, b))) -> safe (bind r k).
Proof. destruct r as [[a b]| |]; cbn; auto. Qed.
Lemma safe_bind_np {A B} (r : res fid_err (A * list Z)) (k : A * list Z -> res fid_err B) :
  safe r -> (forall a b, bytes_ok b -> k (a, b) <> Panic) -> bind r k <> Panic.
Proof. destruct r as [[a b]| |]; cbn; auto; discriminate. Qed.

Lemma safe_rd_long b : bytes_ok b -> safe (rd_long b).
Proof.
  intros OK. unfold rd_long, wrap. destruct (decode_long_spec b) as [[_ E]|[_ E]]; rewrite E; cbn [map_err safe]; auto.
  apply bytes_ok_skipn, OK.
Qed.
Lemma safe_rd_int b : bytes_ok b -> safe (rd_int b).
Proof.
  intros OK. unfold rd_int, wrap, decode_int. destruct (decode_int32_spec b) as [[_ E]|[_ E]]; rewrite E; cbn [map_err safe]; auto.
  apply bytes_ok_skipn, OK.
Qed.
Lemma safe_rd_i32 b : bytes_ok b -> safe (wrap (decode_int32 b)).
Proof. exact (safe_rd_int b). Qed.
Lemma safe_rd_u32 b : bytes_ok b -> safe (wrap (decode_uint32 b)).
Proof.
  intros OK. unfold wrap. destruct (decode_uint32_spec b) as [[_ E]|[_ E]]; rewrite E; cbn [map_err safe]; auto.
  apply bytes_ok_skipn, OK.
Qed.
Lemma safe_rd_bytes b : bytes_ok b -> safe (wrap (decode_bytes b)).
Proof.
  intros OK. unfold wrap. pose proof (decode_bytes_outcome b OK) as O.
  destruct (decode_bytes b) as [[v r]| |]; cbn [map_err safe]; auto; inversion O; subst.
  match goal with H : bytes_ok (_ ++ _ ++ _ ++ _) |- _ => rewrite !bytes_ok_app in H; tauto end.
Qed.

Ltac safe_tac :=
  repeat first
    [ apply safe_bind; [first [apply safe_rd_long | apply safe_rd_int | apply safe_rd_u32 | apply safe_rd_i32 | apply safe_rd_bytes]; assumption|intros ? ? ?]
    | progress cbn [safe] ]; auto.

Lemma safe_read_dialog p b : bytes_ok b -> safe (read_dialog p b).
Proof. intros OK. unfold read_dialog. safe_tac. Qed.
Lemma safe_read_sticker_set p b : bytes_ok b -> safe (read_sticker_set p b).
Proof. intros OK. unfold read_sticker_set. safe_tac. Qed.
Lemma safe_read_local_volume p b : bytes_ok b -> safe (read_local_volume p b).
Proof. intros OK. unfold read_local_volume. safe_tac. Qed.

Lemma safe_decode_pss_body p t b : bytes_ok b -> safe (decode_pss_body p t b).
Proof.
  intros OK. unfold decode_pss_body.
  repeat match goal with |- context [if ?c then _ else _] => destruct c end; try (cbn [safe]; exact OK);
    try (apply safe_read_dialog; exact OK); try (apply safe_read_sticker_set; exact OK);
    try (apply safe_bind; [first [apply safe_read_dialog|apply safe_read_sticker_set]; exact OK|intros ? ? ?;
         first [apply safe_read_local_volume; assumption|safe_tac]]);
    safe_tac.
Qed.

Lemma decode_pss_no_panic b sub : bytes_ok b -> decode_pss b sub <> Panic.
Proof.
  intros OK. unfold decode_pss.
  apply safe_bind_np.
  - destruct (sub <? 32); [safe_tac|cbn [safe]; exact OK].
  - intros p b1 OK1. destruct ((sub <? 32) && (sub <? 22)).
    + apply safe_bind_np; [apply safe_rd_long, OK1|]. intros v b2 OK2.
      apply safe_bind_np; [apply safe_rd_int, OK2|]. intros; discriminate.
    + apply safe_bind_np.
      * destruct (sub >=? 4); [apply safe_rd_int, OK1|cbn [safe]; exact OK1].
      * intros t b2 OK2. destruct ((t <? 0) || (t >=? c_lastPhotoSizeSourceType)); [discriminate|].
        apply safe_bind_np; [apply safe_decode_pss_body, OK2|]. intros p2 b3 OK3.
        destruct ((sub <? 32) && (sub >=? 22)); [|discriminate].
        apply safe_bind_np; [apply safe_rd_int, OK3|]. intros; discriminate.
Qed.

Lemma decode_latest_no_panic b : bytes_ok b -> decode_latest b <> Panic.
Proof.
  intros OK. unfold decode_latest. pose proof (len_nonneg b).
  destruct (Z.ltb_spec (len b) 1); [discriminate|].
  rewrite go_index_ok by lia. cbn [bind].
  apply safe_bind_np; [apply safe_rd_u32, OK|]. intros tid b1 OK1.
  match goal with |- context [if ?c then Err FUnknownType else _] => destruct c; [discriminate|] end.
  apply safe_bind_np; [apply safe_rd_i32, OK1|]. intros dc b2 OK2.
  apply safe_bind_np.
  { match goal with |- context [if ?c then _ else _] => destruct c end; [apply safe_rd_bytes, OK2|cbn [safe]; exact OK2]. }
  intros reference b3 OK3.
  match goal with |- context [if ?c then _ else _] => destruct c end.
  - apply safe_bind_np; [apply safe_rd_bytes, OK3|]. intros; discriminate.
  - apply safe_bind_np; [apply safe_rd_long, OK3|]. intros id b4 OK4.
    apply safe_bind_np; [apply safe_rd_long, OK4|]. intros hash b5 OK5.
    match goal with |- context [if ?c then _ else _] => destruct c end; [|discriminate].
    pose proof (decode_pss_no_panic b5 (nth (Z.to_nat (len b - 1)) b 0) OK5) as NP.
    destruct (decode_pss b5 _); cbn [bind]; congruence.
Qed.

Lemma decode_file_id_no_panic s : decode_file_id s <> Panic.
Proof.
  unfold decode_file_id. destruct (len s =? 0); [discriminate|].
  destruct (b64_decode s) as [d|] eqn:D; [|discriminate].
  pose proof (rle_decode_ok d (b64_decode_ok s d D)) as OK.
  set (data := rle_decode d) in *. pose proof (len_nonneg data).
  destruct (Z.ltb_spec (len data) 2); [discriminate|].
  rewrite go_index_ok by lia. cbn [bind].
  match goal with |- context [if ?c then Err FUnsupported else _] => destruct c; [discriminate|] end.
  match goal with |- context [if ?c then _ else Err FUnknownVersion] => destruct c; [|discriminate] end.
  rewrite go_slice_ok by lia. cbn [bind].
  apply decode_latest_no_panic. apply bytes_ok_firstn, bytes_ok_skipn, OK.
Qed.
