(* Proofs about the Markdown renderer model (C37). *)
From Coq Require Import ZArith List Bool Lia.
From TD Require Import Lib.GoSem Lib.Utf Model.EntitySort Model.Entity Proof.Entity Model.Html Model.Markdown.
Import ListNotations.
Open Scope Z_scope.

Scheme mdi_mut := Induction for mdi Sort Prop
  with mdis_mut := Induction for mdis Sort Prop.
Scheme mdb_mut := Induction for mdb Sort Prop
  with mdbs_mut := Induction for mdbs Sort Prop.

Section Render.
Variable stale : list tok.
Variable toks0 : list tok.

(* the specification text only grows *)
Definition ext (s s' : sstate) : Prop := exists x, s_text s' = s_text s ++ x.
Lemma ext_refl s : ext s s.
Proof. exists []; rewrite app_nil_r; reflexivity. Qed.
Lemma ext_trans a b c : ext a b -> ext b c -> ext a c.
Proof. intros [x Hx] [y Hy]. exists (x ++ y). rewrite Hy, Hx, app_assoc; reflexivity. Qed.
Lemma ext_app s x : ext s (s_app s x).
Proof. exists x; reflexivity. Qed.

Definition good (b : bstate) (s : sstate) : Prop := Rel stale b toks0 s.

Lemma write_valid b s x : good b s -> utf8_validb x = true -> exists s', good (b_write b x) s' /\ ext s s'.
Proof.
  intros R V. apply utf8_validb_sound in V. destruct V as [cps [Hc ->]].
  exists (s_app s cps); split; [apply rel_write_valid; assumption|apply ext_app].
Qed.

Lemma write_nl b s : good b s -> exists s', good (b_write_byte b 10) s' /\ ext s s'.
Proof.
  intros R. exists (s_app s [10]); split; [|apply ext_app].
  eapply rel_grow; [exact R|repeat constructor|..]; cbn [b_write_byte b_msg b_u16 b_ents b_lens b_lfi]; reflexivity.
Qed.

Lemma apply_if_good b0 s0 b s tag :
  good b0 s0 -> good b s -> ext s0 s -> exists s', good (apply_if (b_token b0) b tag) s' /\ ext s0 s'.
Proof.
  intros R0 R [x Hx]. unfold apply_if. destruct (b_u16 b - t_u16 (b_token b0) >? 0); [|exists s; split; [exact R|exists x; exact Hx]].
  rewrite (rel_token _ _ _ _ R0). eexists; split.
  - apply rel_apply_tok; [exact R|exists x; exact Hx].
  - exists x; exact Hx.
Qed.

Lemma write_raw_good :
  forall n b s, good b s -> mdi_ok n -> exists s', good (write_raw b n) s' /\ ext s s'.
Proof.
  apply (mdi_mut
    (fun n => forall b s, good b s -> mdi_ok n -> exists s', good (write_raw b n) s' /\ ext s s')
    (fun l => forall b s, good b s -> mdis_ok l -> exists s', good (write_raws b l) s' /\ ext s s'));
    cbn [write_raw write_raws mdi_ok mdis_ok].
  - intros raw unesc brk b s R Hok. apply write_valid; tauto.
  - intros bs b s R Hok. apply write_valid; assumption.
  - intros kids IH b s R Hok; auto.
  - intros tag kids IH b s R Hok; auto.
  - intros kids IH f b s R Hok; auto.
  - intros kids IH b s R Hok; auto.
  - intros b s R Hok. exists s; split; [assumption|apply ext_refl].
  - intros h IHh t IHt b s R [Hh Ht]. destruct (IHh _ _ R Hh) as [s1 [R1 E1]]. destruct (IHt _ _ R1 Ht) as [s2 [R2 E2]].
    exists s2; split; [exact R2|eapply ext_trans; eassumption].
Qed.
Lemma write_raws_good l b s : good b s -> mdis_ok l -> exists s', good (write_raws b l) s' /\ ext s s'.
Proof.
  revert b s; induction l as [|h t IH]; cbn [write_raws mdis_ok]; intros b s R Hok.
  - exists s; split; [assumption|apply ext_refl].
  - destruct Hok as [Hh Ht]. destruct (write_raw_good h _ _ R Hh) as [s1 [R1 E1]]. destruct (IH _ _ R1 Ht) as [s2 [R2 E2]].
    exists s2; split; [exact R2|eapply ext_trans; eassumption].
Qed.

Definition safe (r : res unit bstate) (s : sstate) : Prop :=
  r <> Panic /\ forall b', r = Ok b' -> exists s', good b' s' /\ ext s s'.

Lemma safe_ok b s s0 : good b s -> ext s0 s -> safe (Ok b) s0.
Proof. intros R E; split; [discriminate|]. intros b' H; inversion H; subst. exists s; auto. Qed.

Lemma render_inl_safe :
  forall n b s, good b s -> mdi_ok n -> safe (render_inl b n) s.
Proof.
  apply (mdi_mut
    (fun n => forall b s, good b s -> mdi_ok n -> safe (render_inl b n) s)
    (fun l => forall b s, good b s -> mdis_ok l -> safe (render_inls b l) s));
    cbn [render_inl render_inls mdi_ok mdis_ok].
  - intros raw unesc brk b s R [_ Hu]. destruct (write_valid _ _ _ R Hu) as [s1 [R1 E1]].
    destruct brk; [|eapply safe_ok; eassumption].
    destruct (write_nl _ _ R1) as [s2 [R2 E2]]. eapply safe_ok; [exact R2|eapply ext_trans; eassumption].
  - intros bs b s R Hok. destruct (write_valid _ _ _ R Hok) as [s1 [R1 E1]]. eapply safe_ok; eassumption.
  - intros kids IH b s R Hok. destruct (write_raws_good _ _ _ R Hok) as [s1 [R1 E1]].
    destruct (apply_if_good _ _ _ _ T_code R R1 E1) as [s2 [R2 E2]]. eapply safe_ok; eassumption.
  - intros tag kids IH b s R Hok. destruct (IH _ _ R Hok) as [Hnp Hk].
    destruct (render_inls b kids) as [b1|e|]; cbn [bind]; [|split; discriminate|contradiction].
    destruct (Hk b1 eq_refl) as [s1 [R1 E1]].
    destruct (apply_if_good _ _ _ _ tag R R1 E1) as [s2 [R2 E2]]. eapply safe_ok; eassumption.
  - intros kids IH f b s R Hok. destruct (IH _ _ R Hok) as [Hnp Hk].
    destruct (render_inls b kids) as [b1|e|]; cbn [bind]; [|split; discriminate|contradiction].
    destruct (Hk b1 eq_refl) as [s1 [R1 E1]].
    destruct (b_u16 b1 - t_u16 (b_token b) =? 0); [eapply safe_ok; eassumption|].
    destruct (f <? 0); [split; discriminate|].
    destruct (f =? 0); [eapply safe_ok; eassumption|].
    rewrite (rel_token _ _ _ _ R). destruct E1 as [x Hx].
    eapply safe_ok; [apply rel_apply_tok; [exact R1|exists x; exact Hx]|exists x; exact Hx].
  - intros kids IH b s R Hok; auto.
  - intros b s R Hok. eapply safe_ok; [eassumption|apply ext_refl].
  - intros h IHh t IHt b s R [Hh Ht]. destruct (IHh _ _ R Hh) as [Hnp Hk].
    destruct (render_inl b h) as [b1|e|]; cbn [bind]; [|split; discriminate|contradiction].
    destruct (Hk b1 eq_refl) as [s1 [R1 E1]]. destruct (IHt _ _ R1 Ht) as [Hnp2 Hok2].
    split; [exact Hnp2|]. intros b' Hb'. destruct (Hok2 b' Hb') as [s2 [R2 E2]].
    exists s2; split; [exact R2|eapply ext_trans; eassumption].
Qed.
Lemma render_inls_safe l : forall b s, good b s -> mdis_ok l -> safe (render_inls b l) s.
Proof.
  induction l as [|h t IH]; cbn [render_inls mdis_ok]; intros b s R Hok.
  - eapply safe_ok; [eassumption|apply ext_refl].
  - destruct Hok as [Hh Ht]. destruct (render_inl_safe h _ _ R Hh) as [Hnp Hok].
    destruct (render_inl b h) as [b1|e|]; cbn [bind]; [|split; discriminate|contradiction].
    destruct (Hok b1 eq_refl) as [s1 [R1 E1]]. destruct (IH _ _ R1 Ht) as [Hnp2 Hok2].
    split; [exact Hnp2|]. intros b' Hb'. destruct (Hok2 b' Hb') as [s2 [R2 E2]].
    exists s2; split; [exact R2|eapply ext_trans; eassumption].
Qed.

Lemma sep_good b s (first : bool) :
  good b s -> exists s', good (if first then b else b_write b [10; 10]) s' /\ ext s s'.
Proof.
  intros R. destruct first; [exists s; split; [exact R|apply ext_refl]|].
  apply write_valid; [exact R|reflexivity].
Qed.

Lemma render_block_safe :
  forall n b s, good b s -> mdb_ok n -> safe (render_block b n) s.
Proof.
  apply (mdb_mut
    (fun n => forall b s, good b s -> mdb_ok n -> safe (render_block b n) s)
    (fun l => forall first b s, good b s -> mdbs_ok l -> safe (render_blocks b l first) s));
    cbn [render_block render_blocks mdb_ok mdbs_ok].
  - intros kids b s R Hok. apply render_inls_safe; assumption.
  - intros kids IH b s R Hok. destruct (IH true _ _ R Hok) as [Hnp Hk].
    destruct (render_blocks b kids true) as [b1|e|]; cbn [bind]; [|split; discriminate|contradiction].
    destruct (Hk b1 eq_refl) as [s1 [R1 E1]].
    destruct (apply_if_good _ _ _ _ T_blockquote R R1 E1) as [s2 [R2 E2]]. eapply safe_ok; eassumption.
  - intros lines lang b s R Hok. destruct (write_valid _ _ _ R Hok) as [s1 [R1 E1]].
    destruct (apply_if_good _ _ _ _ (if lang then T_pre_lang else T_pre) R R1 E1) as [s2 [R2 E2]].
    eapply safe_ok; eassumption.
  - intros kids IH b s R Hok; auto.
  - intros first b s R Hok. eapply safe_ok; [eassumption|apply ext_refl].
  - intros h IHh t IHt first b s R [Hh Ht]. destruct (sep_good _ _ first R) as [s0 [R0 E0]].
    destruct (IHh _ _ R0 Hh) as [Hnp Hk].
    destruct (render_block (if first then b else b_write b [10; 10]) h) as [b1|e|]; cbn [bind];
      [|split; discriminate|contradiction].
    destruct (Hk b1 eq_refl) as [s1 [R1 E1]]. destruct (IHt false _ _ R1 Ht) as [Hnp2 Hok2].
    split; [exact Hnp2|]. intros b' Hb'. destruct (Hok2 b' Hb') as [s2 [R2 E2]].
    exists s2; split; [exact R2|]. eapply ext_trans; [exact E0|]. eapply ext_trans; eassumption.
Qed.
Lemma render_blocks_safe l : forall first b s, good b s -> mdbs_ok l -> safe (render_blocks b l first) s.
Proof.
  induction l as [|h t IH]; cbn [render_blocks mdbs_ok]; intros first b s R Hok.
  - eapply safe_ok; [eassumption|apply ext_refl].
  - destruct Hok as [Hh Ht]. destruct (sep_good _ _ first R) as [s0 [R0 E0]].
    destruct (render_block_safe h _ _ R0 Hh) as [Hnp Hok].
    destruct (render_block (if first then b else b_write b [10; 10]) h) as [b1|e|]; cbn [bind];
      [|split; discriminate|contradiction].
    destruct (Hok b1 eq_refl) as [s1 [R1 E1]]. destruct (IH false _ _ R1 Ht) as [Hnp2 Hok2].
    split; [exact Hnp2|]. intros b' Hb'. destruct (Hok2 b' Hb') as [s2 [R2 E2]].
    exists s2; split; [exact R2|]. eapply ext_trans; [exact E0|]. eapply ext_trans; eassumption.
Qed.

Theorem markdown_complete_safe src_valid b s doc :
  good b s -> mdbs_ok doc ->
  markdown_complete src_valid b doc <> Panic /\
  forall text es, markdown_complete src_valid b doc = Ok (text, es) -> Forall (within_text text) es.
Proof.
  intros R Hok. unfold markdown_complete. destruct src_valid; [|split; discriminate].
  destruct (render_blocks_safe doc true _ _ R Hok) as [Hnp Hk].
  destruct (render_blocks b doc true) as [b1|e|]; cbn [bind]; [|split; discriminate|contradiction].
  destruct (Hk b1 eq_refl) as [s1 [R1 _]].
  destruct (complete_within _ _ _ _ (rel_shrink _ _ _ _ R1)) as [text [es [E Hw]]].
  rewrite E. split; [discriminate|]. intros text' es' Heq; inversion Heq; subst. exact Hw.
Qed.
End Render.

Theorem markdown_from_init src_valid doc :
  mdbs_ok doc ->
  markdown_complete src_valid b_init doc <> Panic /\
  forall text es, markdown_complete src_valid b_init doc = Ok (text, es) -> Forall (within_text text) es.
Proof. apply (markdown_complete_safe [] [] src_valid b_init s_init doc). apply (rel_init m_init fresh_init). Qed.

(* ---------- no panic without any hypothesis on the bytes goldmark yields ---------- *)
Definition nsafe (r : res unit bstate) (b : bstate) : Prop :=
  r <> Panic /\ forall b', r = Ok b' -> binv b' /\ len (b_msg b) <= len (b_msg b').
Definition ngood (b0 b : bstate) : Prop := binv b /\ len (b_msg b0) <= len (b_msg b).

Lemma ngood_refl b : binv b -> ngood b b.
Proof. intros H; split; [exact H|lia]. Qed.
Lemma ngood_write b0 b x : ngood b0 b -> ngood b0 (b_write b x).
Proof.
  intros [H L]. split.
  - eapply binv_grow; [exact H|reflexivity..|]. cbn [b_write b_msg]. rewrite len_app. pose proof (len_nonneg x). lia.
  - cbn [b_write b_msg]. rewrite len_app. pose proof (len_nonneg x). lia.
Qed.
Lemma ngood_write_byte b0 b c : ngood b0 b -> ngood b0 (b_write_byte b c).
Proof.
  intros [H L]. split.
  - eapply binv_grow; [exact H|reflexivity..|]. cbn [b_write_byte b_msg]. rewrite len_app. unfold len at 3; cbn. lia.
  - cbn [b_write_byte b_msg]. rewrite len_app. unfold len at 3; cbn. lia.
Qed.
Lemma ngood_apply_if b0 b tag : ngood b0 b -> ngood b0 (apply_if (b_token b0) b tag).
Proof.
  intros [H L]. unfold apply_if. destruct (b_u16 b - t_u16 (b_token b0) >? 0); [|split; assumption].
  split; [apply binv_apply; cbn [b_token t_u8]; pose proof (len_nonneg (b_msg b0)); lia|exact L].
Qed.
Lemma ngood_trans a b c : ngood a b -> len (b_msg b) <= len (b_msg c) -> binv c -> ngood a c.
Proof. intros [_ L] L' H; split; [exact H|lia]. Qed.

Lemma write_raw_ngood :
  forall n b0 b, ngood b0 b -> ngood b0 (write_raw b n).
Proof.
  apply (mdi_mut
    (fun n => forall b0 b, ngood b0 b -> ngood b0 (write_raw b n))
    (fun l => forall b0 b, ngood b0 b -> ngood b0 (write_raws b l))); cbn [write_raw write_raws].
  - intros raw unesc brk b0 b H. apply ngood_write; exact H.
  - intros bs b0 b H. apply ngood_write; exact H.
  - intros kids IH b0 b H; auto.
  - intros tag kids IH b0 b H; auto.
  - intros kids IH f b0 b H; auto.
  - intros kids IH b0 b H; auto.
  - intros b0 b H; exact H.
  - intros h IHh t IHt b0 b H. apply IHt, IHh, H.
Qed.
Lemma write_raws_ngood l : forall b0 b, ngood b0 b -> ngood b0 (write_raws b l).
Proof. induction l as [|h t IH]; cbn [write_raws]; intros b0 b H; [exact H|apply IH, write_raw_ngood, H]. Qed.

Lemma nsafe_ok b0 b : ngood b0 b -> nsafe (Ok b) b0.
Proof. intros H; split; [discriminate|]. intros b' E; inversion E; subst; exact H. Qed.

Lemma render_inl_nsafe :
  forall n b, binv b -> nsafe (render_inl b n) b.
Proof.
  apply (mdi_mut
    (fun n => forall b, binv b -> nsafe (render_inl b n) b)
    (fun l => forall b, binv b -> nsafe (render_inls b l) b)); cbn [render_inl render_inls].
  - intros raw unesc brk b H. apply nsafe_ok.
    destruct brk; [apply ngood_write_byte|]; apply ngood_write, ngood_refl, H.
  - intros bs b H. apply nsafe_ok, ngood_write, ngood_refl, H.
  - intros kids IH b H. apply nsafe_ok, ngood_apply_if, write_raws_ngood, ngood_refl, H.
  - intros tag kids IH b H. destruct (IH b H) as [Hnp Hk].
    destruct (render_inls b kids) as [b1|e|]; cbn [bind]; [|split; discriminate|contradiction].
    apply nsafe_ok, ngood_apply_if. exact (Hk b1 eq_refl).
  - intros kids IH f b H. destruct (IH b H) as [Hnp Hk].
    destruct (render_inls b kids) as [b1|e|]; cbn [bind]; [|split; discriminate|contradiction].
    pose proof (Hk b1 eq_refl) as G.
    destruct (b_u16 b1 - t_u16 (b_token b) =? 0); [apply nsafe_ok, G|].
    destruct (f <? 0); [split; discriminate|]. destruct (f =? 0); [apply nsafe_ok, G|].
    apply nsafe_ok. destruct G as [_ L]. split; [|exact L].
    apply binv_apply; cbn [b_token t_u8]; pose proof (len_nonneg (b_msg b)); lia.
  - intros kids IH b H; auto.
  - intros b H. apply nsafe_ok, ngood_refl, H.
  - intros h IHh t IHt b H. destruct (IHh b H) as [Hnp Hk].
    destruct (render_inl b h) as [b1|e|]; cbn [bind]; [|split; discriminate|contradiction].
    destruct (Hk b1 eq_refl) as [H1 L1]. destruct (IHt b1 H1) as [Hnp2 Hk2].
    split; [exact Hnp2|]. intros b' E. destruct (Hk2 b' E) as [H2 L2]. split; [exact H2|lia].
Qed.
Lemma render_inls_nsafe l : forall b, binv b -> nsafe (render_inls b l) b.
Proof.
  induction l as [|h t IH]; cbn [render_inls]; intros b H; [apply nsafe_ok, ngood_refl, H|].
  destruct (render_inl_nsafe h b H) as [Hnp Hk].
  destruct (render_inl b h) as [b1|e|]; cbn [bind]; [|split; discriminate|contradiction].
  destruct (Hk b1 eq_refl) as [H1 L1]. destruct (IH b1 H1) as [Hnp2 Hk2].
  split; [exact Hnp2|]. intros b' E. destruct (Hk2 b' E) as [H2 L2]. split; [exact H2|lia].
Qed.

Lemma render_block_nsafe :
  forall n b, binv b -> nsafe (render_block b n) b.
Proof.
  apply (mdb_mut
    (fun n => forall b, binv b -> nsafe (render_block b n) b)
    (fun l => forall first b, binv b -> nsafe (render_blocks b l first) b)); cbn [render_block render_blocks].
  - intros kids b H. apply render_inls_nsafe, H.
  - intros kids IH b H. destruct (IH true b H) as [Hnp Hk].
    destruct (render_blocks b kids true) as [b1|e|]; cbn [bind]; [|split; discriminate|contradiction].
    apply nsafe_ok, ngood_apply_if. exact (Hk b1 eq_refl).
  - intros lines lang b H. apply nsafe_ok, ngood_apply_if, ngood_write, ngood_refl, H.
  - intros kids IH b H; auto.
  - intros first b H. apply nsafe_ok, ngood_refl, H.
  - intros h IHh t IHt first b H.
    assert (ngood b (if first then b else b_write b [10; 10])) as [H0 L0]
      by (destruct first; [apply ngood_refl, H|apply ngood_write, ngood_refl, H]).
    destruct (IHh _ H0) as [Hnp Hk].
    destruct (render_block (if first then b else b_write b [10; 10]) h) as [b1|e|]; cbn [bind];
      [|split; discriminate|contradiction].
    destruct (Hk b1 eq_refl) as [H1 L1]. destruct (IHt false b1 H1) as [Hnp2 Hk2].
    split; [exact Hnp2|]. intros b' E. destruct (Hk2 b' E) as [H2 L2]. split; [exact H2|lia].
Qed.
Lemma render_blocks_nsafe l : forall first b, binv b -> nsafe (render_blocks b l first) b.
Proof.
  induction l as [|h t IH]; cbn [render_blocks]; intros first b H; [apply nsafe_ok, ngood_refl, H|].
  assert (ngood b (if first then b else b_write b [10; 10])) as [H0 L0]
    by (destruct first; [apply ngood_refl, H|apply ngood_write, ngood_refl, H]).
  destruct (render_block_nsafe h _ H0) as [Hnp Hk].
  destruct (render_block (if first then b else b_write b [10; 10]) h) as [b1|e|]; cbn [bind];
    [|split; discriminate|contradiction].
  destruct (Hk b1 eq_refl) as [H1 L1]. destruct (IH false b1 H1) as [Hnp2 Hk2].
  split; [exact Hnp2|]. intros b' E. destruct (Hk2 b' E) as [H2 L2]. split; [exact H2|lia].
Qed.

Theorem markdown_no_panic src_valid doc : markdown_complete src_valid b_init doc <> Panic.
Proof.
  unfold markdown_complete. destruct src_valid; [|discriminate].
  destruct (render_blocks_nsafe doc true b_init binv_init) as [Hnp Hk].
  destruct (render_blocks b_init doc true) as [b1|e|]; cbn [bind]; [|discriminate|contradiction].
  destruct (Hk b1 eq_refl) as [H1 _]. apply complete_no_panic, binv_shrink, H1.
Qed.

(* within the text, with the text shown to be valid UTF-8 and the bound in code-point terms *)
Theorem markdown_within_unicode src_valid doc text es :
  mdbs_ok doc -> markdown_complete src_valid b_init doc = Ok (text, es) ->
  exists cps, Forall cp_valid cps /\ text = utf8_encode cps /\
    Forall (fun e => 0 <= e_off e /\ 0 <= e_len e /\ e_off e + e_len e <= u16c cps) es.
Proof.
  intros Hok. unfold markdown_complete. destruct src_valid; [|discriminate].
  destruct (render_blocks_safe [] [] doc true b_init s_init (rel_init m_init fresh_init) Hok) as [Hnp Hk].
  destruct (render_blocks b_init doc true) as [b1|e|]; cbn [bind]; [|discriminate|contradiction].
  destruct (Hk b1 eq_refl) as [s1 [R1 _]].
  destruct (complete_within_unicode _ _ _ _ (rel_shrink _ _ _ _ R1)) as [cps [es' [Hv [E Hw]]]].
  rewrite E. intros Heq; inversion Heq; subst. exists cps; auto.
Qed.
