(* transport/obfuscated.go + transport/detect_codec.go: the accepted obfuscated connection
   replays the protocol tag recovered from the header, and the listener's codec detection then
   picks the codec the client announced. *)
From Coq Require Import ZArith List Bool.
From TD Require Import Lib.GoSem Gen.CodecConsts Model.Codec Proof.CodecRT.
From TD Require Model.Obfs2.
Import ListNotations.
Open Scope Z_scope.

(* TaggedCodec.ObfuscatedTag *)
Definition obf_tag (c : codec) : bytes :=
  match c with
  | Abridged => let d := hd 0 v_AbridgedClientStart in [d; d; d; d]
  | _ => header c
  end.

Lemma obf_listener_detect c s :
  c <> Full -> detect (Obfs2.replay_tag (obf_tag c) ++ s) = Ok (c, s).
Proof.
  intros Hc. destruct c; try contradiction.
  - change (Obfs2.replay_tag (obf_tag Abridged)) with (header Abridged). apply detect_tagged; discriminate.
  - change (Obfs2.replay_tag (obf_tag Intermediate)) with (header Intermediate). apply detect_tagged; discriminate.
  - change (Obfs2.replay_tag (obf_tag Padded)) with (header Padded). apply detect_tagged; discriminate.
Qed.
