(* transport/obfuscated.go + transport/detect_codec.go: the accepted obfuscated connection
   replays the protocol tag recovered from the header, and the listener's codec detection then
   picks the codec the client announced. *)
From Coq Require Import ZArith List Bool.
From TD Require Import Lib.GoSem Gen.CodecConsts Model.Codec Proof.CodecRT.
From TD Require Model.Obfs2 Proof.Obfs2.
Import ListNotations.
Open Scope Z_scope.

(* TaggedCodec.ObfuscatedTag *)
Definition obf_tag (c : codec) : bytes :=
  match c with
  | Abridged => let d := hd 0 v_AbridgedClientStart in [d; d; d; d]
  | _ => header c
  end.

Lemma obf_listener_detect c s :
  c <> Full -> detect (Obfs2.replay_tag (obf_tag c) ++ s) = Ok (c, s).
Proof.
  intros Hc. destruct c; try contradiction.
  - change (Obfs2.replay_tag (obf_tag Abridged)) with (header Abridged). apply detect_tagged; discriminate.
  - change (Obfs2.replay_tag (obf_tag Intermediate)) with (header Intermediate). apply detect_tagged; discriminate.
  - change (Obfs2.replay_tag (obf_tag Padded)) with (header Padded). apply detect_tagged; discriminate.
Qed.

(* composed with the handshake: a client that announces codec c (protocol := ObfuscatedTag of c)
   is served by a connection on which detectCodec picks c *)
Lemma obf_session_detect ks sha256 fuel rnd c dc secret hdr cep rest wire s :
  c <> Full ->
  Obfs2.client_handshake ks sha256 fuel rnd (obf_tag c) dc secret = Ok (hdr, cep, rest) ->
  exists p d sep, Obfs2.server_accept ks sha256 (hdr ++ wire) secret = Ok ((p, d), sep, wire) /\
                  detect (Obfs2.replay_tag p ++ s) = Ok (c, s).
Proof.
  intros Hc H.
  assert (length (obf_tag c) = 4%nat) as Hl by (destruct c; reflexivity || contradiction).
  destruct (Proof.Obfs2.handshake_accept ks sha256 _ _ _ _ _ _ _ _ wire Hl H) as (Ha & _).
  do 3 eexists. split; [exact Ha|]. apply obf_listener_detect; exact Hc.
Qed.
