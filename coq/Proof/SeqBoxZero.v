(* A pts-bearing update that consumes no position (count = 0, e.g. updateWebPage with
   pts_count = 0 or a channel read mark) and whose position equals the current one is
   APPLIED by a box that is in sync (no gaps, nothing pending): it is delivered alone, the
   position stays.  No difference can return such an update (it occupies no slot), so this
   delivery is the only one it ever gets (C02: "pushed ... is delivered").
   [check_gap_go] is regenerated from telegram/updates/gap_check.go on every run. *)
From Coq Require Import ZArith List Bool Lia.
From TD Require Import Gen.GapCheck Model.SeqBox.
Import ListNotations.
Open Scope Z_scope.

Lemma check_gap_zero_count_in_sync : forall st, check_gap_go st st 0 = c_gapApply.
Proof.
  intros st. unfold check_gap_go.
  destruct (Z.eqb st 0) eqn:E0; [reflexivity|].
  rewrite Z.add_0_r, Z.eqb_refl. reflexivity.
Qed.

Lemma handle_zero_count_in_sync : forall st u,
  ucnt u = 0 -> ust u = st ->
  handle (box_init st) u = (box_init st, [Dlv st [u]]).
Proof.
  intros st u Hc Hs. unfold handle, box_init. cbn [bstate bgaps bpending].
  rewrite Hc, Hs, check_gap_zero_count_in_sync.
  unfold c_gapApply, c_gapIgnore. cbn. reflexivity.
Qed.

(* ... and it is never classified as outdated or as a gap, whatever is buffered. *)
Lemma zero_count_at_position_not_ignored : forall st,
  check_gap_go st st 0 <> c_gapIgnore /\ check_gap_go st st 0 <> c_gapRefetch.
Proof.
  intros st. rewrite check_gap_zero_count_in_sync. unfold c_gapApply, c_gapIgnore, c_gapRefetch. split; discriminate.
Qed.
