(* Proofs for the N-invocation model (Model/ClientRetryN.v): projection to the
   single-invocation model, independence, shared environment. *)
From Coq Require Import List ZArith Bool Arith Lia.
From TD Require Import Model.ClientRetry Model.ClientRetryN Proof.ClientRetry.
Import ListNotations.

Lemma step_all_nth ms e ms' i s :
  step_all ms e = Some ms' -> nth_error ms i = Some s ->
  exists s', step s e = Some s' /\ nth_error ms' i = Some s'.
Proof.
  revert ms' i; induction ms as [|a t IH]; intros ms' i H N; [destruct i; discriminate|].
  cbn in H. destruct (step a e) as [a'|] eqn:Ea; try discriminate.
  destruct (step_all t e) as [t'|] eqn:Et; try discriminate. inversion H; subst.
  destruct i; cbn in *.
  - inversion N; subst. eauto.
  - eapply IH; eauto.
Qed.
Lemma step_all_length ms e ms' : step_all ms e = Some ms' -> length ms' = length ms.
Proof.
  revert ms'; induction ms as [|a t IH]; intros ms' H; cbn in H.
  - inversion H; reflexivity.
  - destruct (step a e); try discriminate. destruct (step_all t e) eqn:E; try discriminate.
    inversion H; subst; cbn. rewrite (IH _ eq_refl). reflexivity.
Qed.
Lemma step_nth_same ms i e ms' s :
  step_nth ms i e = Some ms' -> nth_error ms i = Some s ->
  exists s', step s e = Some s' /\ nth_error ms' i = Some s'.
Proof.
  revert i ms'; induction ms as [|a t IH]; intros i ms' H N; [destruct i; discriminate|].
  destruct i; cbn in *.
  - inversion N; subst. destruct (step s e) eqn:E; try discriminate. inversion H; subst. eauto.
  - destruct (step_nth t i e) eqn:E; try discriminate. inversion H; subst. cbn. eapply IH; eauto.
Qed.
(* independence: a step of invocation i leaves every other invocation's state untouched *)
Lemma step_nth_other ms i e ms' j :
  step_nth ms i e = Some ms' -> j <> i -> nth_error ms' j = nth_error ms j.
Proof.
  revert i ms' j; induction ms as [|a t IH]; intros i ms' j H N; [destruct i; discriminate|].
  destruct i; cbn in H.
  - destruct (step a e); try discriminate. inversion H; subst. destruct j; [congruence|reflexivity].
  - destruct (step_nth t i e) eqn:E; try discriminate. inversion H; subst.
    destruct j; [reflexivity|]. cbn. eapply IH; eauto.
Qed.
Lemma step_nth_length ms i e ms' : step_nth ms i e = Some ms' -> length ms' = length ms.
Proof.
  revert i ms'; induction ms as [|a t IH]; intros i ms' H; [destruct i; discriminate|].
  destruct i; cbn in H.
  - destruct (step a e); try discriminate. inversion H; reflexivity.
  - destruct (step_nth t i e) eqn:E; try discriminate. inversion H; subst; cbn. rewrite (IH _ _ E). reflexivity.
Qed.

(* projection: in any joint run, invocation i goes through a run of the single-invocation
   model over its own events and the environment events *)
Lemma proj_run : forall mes ms ms' i s,
  mrun ms mes = Some ms' -> nth_error ms i = Some s ->
  exists s', run s (proj i mes) = Some s' /\ nth_error ms' i = Some s'.
Proof.
  induction mes as [|me t IH]; intros ms ms' i s H N; cbn in H.
  - inversion H; subst. exists s; auto.
  - destruct (mstep ms me) as [ms1|] eqn:E; try discriminate.
    destruct me as [j e|e]; cbn in E.
    + destruct (env_event e); try discriminate. cbn [proj].
      destruct (Nat.eqb_spec i j).
      * subst j. destruct (step_nth_same _ _ _ _ _ E N) as [s1 [S1 N1]].
        cbn [run]. rewrite S1. eapply IH; eauto.
      * rewrite <- (step_nth_other _ _ _ _ i E n) in N. eapply IH; eauto.
    + destruct (env_event e); try discriminate. cbn [proj run].
      destruct (step_all_nth _ _ _ _ _ E N) as [s1 [S1 N1]]. rewrite S1. eapply IH; eauto.
Qed.
Lemma nth_minit n i : i < n -> nth_error (minit n) i = Some init.
Proof. unfold minit. revert i; induction n; intros i H; [lia|]. destruct i; cbn; auto. apply IHn; lia. Qed.

Lemma proj_reachable n mes ms i :
  mrun (minit n) mes = Some ms -> i < n ->
  exists s, nth_error ms i = Some s /\ run init (proj i mes) = Some s.
Proof.
  intros H L. destruct (proj_run _ _ _ i init H (nth_minit n i L)) as [s [R N]]. eauto.
Qed.

(* the environment is shared: all invocations see the same generations / pause / close *)
Lemma env_event_frame s e s' :
  env_event e = false -> step s e = Some s' -> env_of s' = env_of s.
Proof.
  intros O H. unfold env_of. destruct e; try discriminate; cbn -[Nat.ltb] in H;
    destruct (ph s) as [|g c|g|r]; try discriminate; try (destruct c; try discriminate);
    repeat match type of H with (if ?c then _ else _) = _ => destruct c eqn:?; try discriminate end;
    inversion H; subst; cbn; congruence.
Qed.
Lemma env_step_same_env s1 s2 e s1' s2' :
  env_event e = true -> env_of s1 = env_of s2 -> step s1 e = Some s1' -> step s2 e = Some s2' ->
  env_of s1' = env_of s2'.
Proof.
  intros O E H1 H2. unfold env_of in *. inversion E as [[E1 E2 E3 E4]].
  destruct e; try discriminate; cbn in H1, H2; unfold unusable, is_dead in *; rewrite <- ?E1, <- ?E2, <- ?E3, <- ?E4 in H2;
    repeat match type of H1 with (if ?c then _ else _) = _ => destruct c eqn:?; try discriminate end;
    destruct (ph s1); destruct (ph s2); inversion H1; inversion H2; subst; cbn; rewrite ?E1, ?E2, ?E3, ?E4; reflexivity.
Qed.

Definition agree (ms : mstate) : Prop :=
  forall i j s t, nth_error ms i = Some s -> nth_error ms j = Some t -> env_of s = env_of t.

Lemma step_nth_back ms i e ms' k s' :
  env_event e = false -> step_nth ms i e = Some ms' -> nth_error ms' k = Some s' ->
  exists s, nth_error ms k = Some s /\ env_of s' = env_of s.
Proof.
  intros O H N. destruct (Nat.eq_dec k i) as [->|D].
  - assert (L : i < length ms) by (rewrite <- (step_nth_length _ _ _ _ H); apply nth_error_Some; congruence).
    destruct (nth_error ms i) as [s|] eqn:E; [|apply nth_error_None in E; lia].
    destruct (step_nth_same _ _ _ _ _ H E) as [s1 [S1 N1]]. rewrite N in N1; inversion N1; subst.
    exists s; split; auto. eapply env_event_frame; eauto.
  - rewrite (step_nth_other _ _ _ _ k H D) in N. exists s'; auto.
Qed.
Lemma step_all_back ms e ms' k s' :
  step_all ms e = Some ms' -> nth_error ms' k = Some s' ->
  exists s, nth_error ms k = Some s /\ step s e = Some s'.
Proof.
  revert ms' k; induction ms as [|a t IH]; intros ms' k H N; cbn in H.
  - inversion H; subst. destruct k; discriminate.
  - destruct (step a e) as [a'|] eqn:Ea; try discriminate.
    destruct (step_all t e) as [t'|] eqn:Et; try discriminate. inversion H; subst.
    destruct k; cbn in *.
    + inversion N; subst. eauto.
    + eapply IH; eauto.
Qed.

Lemma mstep_agree ms me ms' : agree ms -> mstep ms me = Some ms' -> agree ms'.
Proof.
  intros A H. destruct me as [i e|e]; cbn in H.
  - destruct (env_event e) eqn:O; try discriminate.
    intros a b s t Na Nb.
    destruct (step_nth_back _ _ _ _ _ _ O H Na) as [s0 [N0 E0]].
    destruct (step_nth_back _ _ _ _ _ _ O H Nb) as [t0 [M0 F0]].
    rewrite E0, F0. eapply A; eauto.
  - destruct (env_event e) eqn:O; try discriminate.
    intros a b s t Na Nb.
    destruct (step_all_back _ _ _ _ _ H Na) as [s0 [N0 S0]].
    destruct (step_all_back _ _ _ _ _ H Nb) as [t0 [M0 T0]].
    exact (env_step_same_env s0 t0 e s t O (A _ _ _ _ N0 M0) S0 T0).
Qed.
Lemma agree_minit n : agree (minit n).
Proof.
  intros i j s t Hi Hj. unfold minit in *.
  apply nth_error_In, repeat_spec in Hi. apply nth_error_In, repeat_spec in Hj. subst; reflexivity.
Qed.
Lemma env_shared n : forall mes ms, mrun (minit n) mes = Some ms -> agree ms.
Proof.
  intros mes. assert (G : forall ms0 ms, agree ms0 -> mrun ms0 mes = Some ms -> agree ms).
  { induction mes as [|me t IH]; intros ms0 ms A H; cbn in H.
    - inversion H; subst; exact A.
    - destruct (mstep ms0 me) eqn:E; try discriminate. eapply IH; [eapply mstep_agree; eauto|exact H]. }
  intros ms H. eapply G; [apply agree_minit|exact H].
Qed.

(* ---- the single-invocation theorems hold for every invocation of every interleaving ---- *)
Lemma n_acked_never_resent n mes1 mes2 ms1 ms2 i s1 s2 :
  mrun (minit n) mes1 = Some ms1 -> mrun ms1 mes2 = Some ms2 -> i < n ->
  nth_error ms1 i = Some s1 -> nth_error ms2 i = Some s2 -> acked s1 = true ->
  nsends s2 = nsends s1 /\ acked s2 = true /\ ackphase (ph s2).
Proof.
  intros H1 H2 L N1 N2 A.
  destruct (proj_reachable _ _ _ _ H1 L) as [s [Ns R1]]. rewrite N1 in Ns; inversion Ns; subst s.
  destruct (proj_run _ _ _ i s1 H2 N1) as [s' [R2 Ns']]. rewrite N2 in Ns'; inversion Ns'; subst s'.
  eapply acked_never_resent; eauto.
Qed.
Lemma n_sends_bounded n mes ms i s :
  mrun (minit n) mes = Some ms -> i < n -> nth_error ms i = Some s -> nsends s <= S (cur_gen s).
Proof.
  intros H L N. destruct (proj_reachable _ _ _ _ H L) as [s0 [Ns R]]. rewrite N in Ns; inversion Ns; subst.
  eapply sends_bounded; eauto.
Qed.
Lemma n_open_returns n mes ms i s r :
  mrun (minit n) mes = Some ms -> i < n -> nth_error ms i = Some s ->
  ph s = Returned r -> closed s = false -> cancelled s = false ->
  (exists v, r = RRes v) \/ (r = RErrAcked /\ acked s = true).
Proof.
  intros H L N P C X. destruct (proj_reachable _ _ _ _ H L) as [s0 [Ns R]]. rewrite N in Ns; inversion Ns; subst.
  eapply open_returns_result_or_acked_error; eauto.
Qed.
Lemma n_waits_only_on_dead n mes ms i s g :
  mrun (minit n) mes = Some ms -> i < n -> nth_error ms i = Some s -> ph s = Waiting g ->
  is_dead s g = true /\ g <= cur_gen s.
Proof.
  intros H L N P. destruct (proj_reachable _ _ _ _ H L) as [s0 [Ns R]]. rewrite N in Ns; inversion Ns; subst.
  eapply waits_only_on_dead; eauto.
Qed.
Lemma n_closed_partial n mes ms i s pw :
  mrun (minit n) mes = Some ms -> i < n -> nth_error ms i = Some s -> closed s = true ->
  returned (run_own pw 6 s) = true \/
  (paused (run_own pw 6 s) = true /\
   exists s2, step (run_own pw 6 s) EStart = Some s2 /\ returned (run_own pw 6 s2) = true).
Proof.
  intros H L N C. destruct (proj_reachable _ _ _ _ H L) as [s0 [Ns R]]. rewrite N in Ns; inversion Ns; subst.
  eapply closed_returns_partial; eauto.
Qed.
