(* Proofs for Model/Iter.v (C39). *)
From Coq Require Import ZArith List Bool Lia Permutation Sorted.
From TD Require Import Model.Iter.
Import ListNotations.
Open Scope Z_scope.

(* ---------- generic list facts ---------- *)

Lemma skipn_cons_nth {A} (d : A) : forall n (l : list A) x xs,
  skipn n l = x :: xs -> nth n l d = x /\ skipn (S n) l = xs.
Proof.
  induction n as [|n IH]; intros [|y l] x xs H; cbn in *; try discriminate.
  - inversion H; subst; split; reflexivity.
  - destruct (IH l x xs H) as [H1 H2]; split; [exact H1|].
    exact H2.
Qed.

Lemma skipn_nil_len {A} : forall n (l : list A), skipn n l = [] -> (length l <= n)%nat.
Proof.
  induction n as [|n IH]; intros [|y l] H; cbn in *; try lia; try discriminate.
  apply IH in H; lia.
Qed.

Lemma skipn_skipn_add {A} : forall b a (l : list A), skipn a (skipn b l) = skipn (b + a) l.
Proof.
  induction b as [|b IH]; intros a l; [reflexivity|].
  destruct l; cbn; [destruct a; reflexivity|apply IH].
Qed.

Lemma filter_filter_imp {A} (f g : A -> bool) :
  (forall x, f x = true -> g x = true) -> forall l, filter f (filter g l) = filter f l.
Proof.
  intros Hi; induction l as [|x l IH]; cbn; [reflexivity|].
  destruct (g x) eqn:G; cbn; [rewrite IH; reflexivity|].
  destruct (f x) eqn:F; [apply Hi in F; congruence|exact IH].
Qed.

Lemma filter_all_true {A} (f : A -> bool) : forall l, Forall (fun x => f x = true) l -> filter f l = l.
Proof.
  induction l as [|x l IH]; intros H; cbn; [reflexivity|].
  inversion H; subst. rewrite H2, IH; auto.
Qed.

Lemma filter_all_false {A} (f : A -> bool) : forall l, Forall (fun x => f x = false) l -> filter f l = [].
Proof.
  induction l as [|x l IH]; intros H; cbn; [reflexivity|].
  inversion H; subst. rewrite H2, IH; auto.
Qed.

(* In a list strictly descending w.r.t. an asymmetric order, the elements below [m] are
   exactly those after [m]. *)
Lemma filter_below {A} (ltb : A -> A -> bool) :
  (forall a b, ltb a b = true -> ltb b a = false) ->
  forall pre m t,
    StronglySorted (fun a b => ltb b a = true) (pre ++ m :: t) ->
    filter (fun x => ltb x m) (pre ++ m :: t) = t.
Proof.
  intros Hasym pre m t; induction pre as [|p pre IH]; intros Hs; cbn.
  - inversion Hs as [|? ? Ht Hall]; subst.
    assert (ltb m m = false) as ->.
    { destruct (ltb m m) eqn:E; [apply Hasym in E as E'; congruence|reflexivity]. }
    apply filter_all_true; exact Hall.
  - inversion Hs as [|? ? Ht Hall]; subst.
    assert (ltb p m = false) as ->.
    { apply Hasym. rewrite Forall_forall in Hall; apply Hall, in_or_app; right; left; reflexivity. }
    apply IH; exact Ht.
Qed.

Lemma StronglySorted_filter {A} (R : A -> A -> Prop) (f : A -> bool) :
  forall l, StronglySorted R l -> StronglySorted R (filter f l).
Proof.
  induction l as [|x l IH]; intros H; cbn; [constructor|].
  inversion H as [|? ? Hl Hall]; subst.
  destruct (f x); [|apply IH; exact Hl].
  constructor; [apply IH; exact Hl|].
  rewrite Forall_forall in *; intros y Hy; apply filter_In in Hy; apply Hall, Hy.
Qed.

Lemma StronglySorted_app_l {A} (R : A -> A -> Prop) : forall a b, StronglySorted R (a ++ b) -> StronglySorted R a.
Proof.
  induction a as [|x a IH]; intros b H; [constructor|].
  cbn in H; inversion H as [|? ? Hl Hall]; subst.
  constructor; [eapply IH; exact Hl|].
  rewrite Forall_forall in *; intros y Hy; apply Hall, in_or_app; left; exact Hy.
Qed.

Lemma firstn_skipn_last {A} (d : A) : forall n (l : list A),
  firstn n l <> [] -> exists pre, firstn n l = pre ++ [last (firstn n l) d].
Proof.
  intros n l H. exists (removelast (firstn n l)). apply app_removelast_last; exact H.
Qed.

(* ---------- sort_desc on a permutation of a strictly descending list ---------- *)

Lemma ins_desc_perm x l : Permutation (ins_desc x l) (x :: l).
Proof.
  induction l as [|y t IH]; cbn; [reflexivity|].
  destruct (x >? y); [reflexivity|]. rewrite IH; apply perm_swap.
Qed.
Lemma sort_desc_perm l : Permutation (sort_desc l) l.
Proof.
  induction l as [|x l IH]; cbn; [reflexivity|].
  rewrite ins_desc_perm; constructor; exact IH.
Qed.
Lemma ins_desc_sorted x l : StronglySorted Z.ge l -> StronglySorted Z.ge (ins_desc x l).
Proof.
  induction l as [|y t IH]; intros H; cbn; [repeat constructor|].
  inversion H as [|? ? Ht Hall]; subst.
  destruct (x >? y) eqn:E.
  - apply Z.gtb_lt in E. constructor; [exact H|].
    constructor; [lia|]. rewrite Forall_forall in *; intros z Hz; specialize (Hall z Hz); lia.
  - assert (x <= y) by (destruct (Z.gtb_spec x y); [discriminate|lia]).
    constructor; [apply IH; exact Ht|].
    rewrite Forall_forall in *; intros z Hz.
    apply (Permutation_in _ (ins_desc_perm x t)) in Hz; destruct Hz as [->|Hz]; [lia|auto].
Qed.
Lemma sort_desc_sorted l : StronglySorted Z.ge (sort_desc l).
Proof. induction l; cbn; [constructor|apply ins_desc_sorted; assumption]. Qed.

Lemma sorted_ge_perm_eq : forall a b, StronglySorted Z.ge a -> StronglySorted Z.ge b -> Permutation a b -> a = b.
Proof.
  induction a as [|x a IH]; intros b Ha Hb Hp.
  - apply Permutation_nil in Hp; subst; reflexivity.
  - destruct b as [|y b]; [apply Permutation_sym, Permutation_nil in Hp; discriminate|].
    inversion Ha as [|? ? Ha' Hxa]; inversion Hb as [|? ? Hb' Hyb]; subst.
    assert (x = y).
    { assert (In x (y :: b)) as Hx by (eapply Permutation_in; [exact Hp|left; reflexivity]).
      assert (In y (x :: a)) as Hy by (eapply Permutation_in; [apply Permutation_sym; exact Hp|left; reflexivity]).
      rewrite Forall_forall in Hxa, Hyb.
      destruct Hx as [->|Hx]; [reflexivity|]. destruct Hy as [->|Hy]; [reflexivity|].
      specialize (Hxa _ Hy); specialize (Hyb _ Hx); lia. }
    subst y. f_equal. apply IH; auto. eapply Permutation_cons_inv; exact Hp.
Qed.

Lemma gt_sorted_ge l : StronglySorted Z.gt l -> StronglySorted Z.ge l.
Proof.
  induction 1; constructor; auto. rewrite Forall_forall in *; intros y Hy; specialize (H0 y Hy); lia.
Qed.

Lemma sort_desc_of_perm p l : StronglySorted Z.gt l -> Permutation p l -> sort_desc p = l.
Proof.
  intros Hs Hp. apply sorted_ge_perm_eq; [apply sort_desc_sorted|apply gt_sorted_ge; exact Hs|].
  rewrite sort_desc_perm; exact Hp.
Qed.

(* ---------- messages ---------- *)

Definition m_hist_ok (h : list Z) : Prop := StronglySorted Z.gt h /\ Forall (fun x => 0 < x) h.

(* The contract between the iterator and the server of the property. *)
Definition m_honest (h : list Z) (limit : Z) (srv : mserver) : Prop :=
  forall off,
    Permutation (mr_msgs (srv off limit)) (m_page h off limit) /\
    (mr_kind (srv off limit) = KMessages -> m_complete h off limit = true).

Definition m_rest (s : mstate) : list Z := skipn (Z.to_nat (m_cur s + 1)) (m_buf s).
Definition m_set_cur (s : mstate) (c : Z) : mstate :=
  {| m_buf := m_buf s; m_cur := c; m_last := m_last s; m_off := m_off s; m_count := m_count s; m_got := m_got s |}.

Definition m_yield (r : list Z * list Z * mstate * bool) : list Z := fst (fst (fst r)).
Definition m_final (r : list Z * list Z * mstate * bool) : mstate := snd (fst r).
Definition m_fin (r : list Z * list Z * mstate * bool) : bool := snd r.

Lemma m_below_sorted off h : StronglySorted Z.gt h -> StronglySorted Z.gt (m_below off h).
Proof. intros H; unfold m_below; destruct (off =? 0); [exact H|apply StronglySorted_filter; exact H]. Qed.

Lemma m_below_in off h x : In x (m_below off h) -> In x h /\ (off <> 0 -> x < off).
Proof.
  unfold m_below; destruct (off =? 0) eqn:E; intros H.
  - apply Z.eqb_eq in E; split; [exact H|lia].
  - apply filter_In in H; destruct H as [H1 H2]; apply Z.ltb_lt in H2; auto.
Qed.

Lemma m_below_step h off pre m t :
  m_hist_ok h -> m_below off h = pre ++ m :: t -> m_below m h = t.
Proof.
  intros [Hs Hp] Hb.
  assert (In m (m_below off h)) as Hin by (rewrite Hb; apply in_or_app; right; left; reflexivity).
  apply m_below_in in Hin; destruct Hin as [Hmh Hlt].
  rewrite Forall_forall in Hp; specialize (Hp _ Hmh).
  assert (StronglySorted Z.gt (pre ++ m :: t)) as Hst by (rewrite <- Hb; apply m_below_sorted; exact Hs).
  assert (filter (fun x => x <? m) (pre ++ m :: t) = t) as Hf.
  { apply (filter_below (fun a b => a <? b)).
    - intros a b H; apply Z.ltb_lt in H; apply Z.ltb_ge; lia.
    - eapply StronglySorted_ind with (P := fun l => StronglySorted (fun a b => (b <? a) = true) l); [constructor| |exact Hst].
      intros a l _ IH Hall; constructor; [exact IH|].
      rewrite Forall_forall in *; intros y Hy; apply Z.ltb_lt; specialize (Hall y Hy); lia. }
  unfold m_below at 1. replace (m =? 0) with false by (symmetry; apply Z.eqb_neq; lia).
  rewrite <- Hf, <- Hb. unfold m_below; destruct (off =? 0) eqn:E; [reflexivity|].
  symmetry; apply filter_filter_imp. intros x Hx; apply Z.ltb_lt in Hx; apply Z.ltb_lt.
  apply Z.eqb_neq in E; specialize (Hlt E); lia.
Qed.

Section Messages.
Variable srv : mserver.
Variable limit : Z.

Lemma m_next_drain s x xs :
  -1 <= m_cur s -> m_rest s = x :: xs ->
  m_next srv limit s = (true, m_set_cur s (m_cur s + 1), None) /\
  m_value (m_set_cur s (m_cur s + 1)) = x /\ m_rest (m_set_cur s (m_cur s + 1)) = xs.
Proof.
  intros Hc Hr. unfold m_rest in Hr.
  destruct (skipn_cons_nth 0 _ _ _ _ Hr) as [Hn Hsk].
  assert (Z.to_nat (m_cur s + 1) < length (m_buf s))%nat as Hlen.
  { destruct (Nat.lt_ge_cases (Z.to_nat (m_cur s + 1)) (length (m_buf s))) as [|Hge]; [assumption|].
    rewrite skipn_all2 in Hr by exact Hge; discriminate. }
  unfold m_next, m_bufnext, zlen.
  destruct (Z.of_nat (length (m_buf s)) - 1 <=? m_cur s) eqn:E; [apply Z.leb_le in E; lia|].
  split; [reflexivity|]. unfold m_value, m_rest, m_set_cur; cbn.
  split; [exact Hn|]. replace (Z.to_nat (m_cur s + 1 + 1)) with (S (Z.to_nat (m_cur s + 1))) by lia. exact Hsk.
Qed.

Lemma m_bufnext_some s x xs :
  -1 <= m_cur s -> m_rest s = x :: xs -> m_bufnext s = Some (m_set_cur s (m_cur s + 1)).
Proof.
  intros Hc Hr. unfold m_rest in Hr.
  assert (Z.to_nat (m_cur s + 1) < length (m_buf s))%nat as Hlen.
  { destruct (Nat.lt_ge_cases (Z.to_nat (m_cur s + 1)) (length (m_buf s))) as [|Hge]; [assumption|].
    rewrite skipn_all2 in Hr by exact Hge; discriminate. }
  unfold m_bufnext, zlen.
  destruct (Z.of_nat (length (m_buf s)) - 1 <=? m_cur s) eqn:E; [apply Z.leb_le in E; lia|reflexivity].
Qed.

Lemma m_bufnext_none s : -1 <= m_cur s -> m_rest s = [] -> m_bufnext s = None.
Proof.
  intros Hc Hr. apply skipn_nil_len in Hr. unfold m_bufnext, zlen.
  destruct (Z.of_nat (length (m_buf s)) - 1 <=? m_cur s) eqn:E; [reflexivity|apply Z.leb_gt in E; lia].
Qed.

(* draining the buffer: the buffered ids come out first, in order *)
Lemma m_iterate_drain : forall xs s fuel,
  -1 <= m_cur s -> m_rest s = xs ->
  exists s', m_buf s' = m_buf s /\ m_last s' = m_last s /\ m_off s' = m_off s /\
             -1 <= m_cur s' /\ m_rest s' = [] /\
    forall r, m_iterate srv limit fuel s' = r ->
      m_yield (m_iterate srv limit (length xs + fuel) s) = xs ++ m_yield r /\
      m_final (m_iterate srv limit (length xs + fuel) s) = m_final r /\
      m_fin (m_iterate srv limit (length xs + fuel) s) = m_fin r.
Proof.
  induction xs as [|x xs IH]; intros s fuel Hc Hr.
  - exists s; do 5 (split; [auto|]). intros r Hrr; subst r; repeat split; reflexivity.
  - destruct (m_next_drain s x xs Hc Hr) as (Hn & Hv & Hr').
    destruct (IH (m_set_cur s (m_cur s + 1)) fuel) as (s' & Hb & Hl & Ho & Hc' & Hrs & Hit);
      [cbn; lia|exact Hr'|].
    cbn [m_set_cur m_buf m_last m_off] in Hb, Hl, Ho.
    exists s'; do 5 (split; [assumption|]).
    intros r Hrr; specialize (Hit r Hrr); destruct Hit as (H1 & H2 & H3).
    cbn [length Nat.add m_iterate]; rewrite Hn.
    destruct (m_iterate srv limit (length xs + fuel) (m_set_cur s (m_cur s + 1))) as [[[ys os] sf] fin].
    unfold m_yield, m_final, m_fin in *; cbn [fst snd] in *. rewrite Hv.
    repeat split; cbn [fst snd app]; congruence.
Qed.

(* a finished iterator stays finished *)
Lemma m_done_stays s :
  -1 <= m_cur s -> m_rest s = [] -> m_last s = true ->
  m_next srv limit s = (false, s, Some (m_off s)).
Proof.
  intros Hc Hr Hl. unfold m_next. rewrite (m_bufnext_none s Hc Hr).
  unfold m_apply; rewrite Hl. rewrite (m_bufnext_none s Hc Hr). reflexivity.
Qed.
Lemma m_done_all_false s n :
  -1 <= m_cur s -> m_rest s = [] -> m_last s = true -> m_all_false srv limit n s = true.
Proof.
  intros Hc Hr Hl; induction n as [|n IH]; cbn; [reflexivity|].
  rewrite (m_done_stays s Hc Hr Hl); cbn; exact IH.
Qed.

Variable h : list Z.
Hypothesis Hh : m_hist_ok h.
Hypothesis Hlimit : 1 <= limit.
Hypothesis Hsrv : m_honest h limit srv.

Definition m_done (s : mstate) : Prop := -1 <= m_cur s /\ m_rest s = [] /\ m_last s = true.

(* exhausted buffer, more pages may follow: the rest of the history comes out, then false *)
Lemma m_iterate_from : forall n t s,
  (length t <= n)%nat ->
  -1 <= m_cur s -> m_rest s = [] -> m_last s = false -> m_below (m_off s) h = t ->
  forall fuel, (length t + 1 <= fuel)%nat ->
    m_yield (m_iterate srv limit fuel s) = t /\ m_fin (m_iterate srv limit fuel s) = true /\
    m_done (m_final (m_iterate srv limit fuel s)).
Proof.
  induction n as [|n IH]; intros t s Hn Hc Hr Hl Hb fuel Hf.
  - destruct t; [|cbn in Hn; lia].
    destruct fuel as [|fuel]; [cbn in Hf; lia|].
    cbn [m_iterate]. unfold m_next. rewrite (m_bufnext_none s Hc Hr).
    destruct (Hsrv (m_off s)) as [Hperm _].
    unfold m_page in Hperm; rewrite Hb, firstn_nil in Hperm. apply Permutation_sym, Permutation_nil in Hperm.
    unfold m_apply; rewrite Hl, Hperm; cbn [sort_desc fold_right].
    match goal with |- context [m_bufnext ?s1] => assert (m_bufnext s1 = None) as -> by (apply m_bufnext_none; cbn; auto) end.
    unfold m_yield, m_fin, m_final, m_done; cbn. repeat split; auto.
  - destruct t as [|x0 t0].
    { apply (IH [] s); cbn; auto; lia. }
    set (t := x0 :: t0) in *.
    destruct fuel as [|fuel]; [lia|].
    destruct (Hsrv (m_off s)) as [Hperm Hkind].
    assert (StronglySorted Z.gt t) as Hst by (rewrite <- Hb; apply m_below_sorted, Hh).
    set (page := firstn (Z.to_nat limit) t) in *.
    assert (m_page h (m_off s) limit = page) as Hpg by (unfold m_page; rewrite Hb; reflexivity).
    rewrite Hpg in Hperm.
    assert (StronglySorted Z.gt page) as Hsp.
    { apply StronglySorted_app_l with (b := skipn (Z.to_nat limit) t). unfold page; rewrite firstn_skipn; exact Hst. }
    assert (sort_desc (mr_msgs (srv (m_off s) limit)) = page) as Hsort by (apply sort_desc_of_perm; assumption).
    assert (exists p0 ps, page = p0 :: ps) as (p0 & ps & Hpage).
    { unfold page, t. destruct (Z.to_nat limit) eqn:E; [lia|]. cbn. eauto. }
    assert (zlen (mr_msgs (srv (m_off s) limit)) = zlen page) as Hlen
      by (unfold zlen; rewrite (Permutation_length Hperm); reflexivity).
    (* first step: the query and the first element *)
    set (lb := match mr_kind (srv (m_off s) limit) with KMessages => true | _ => zlen page <? limit end).
    set (cnt := match mr_kind (srv (m_off s) limit) with KMessages => zlen page | _ => mr_count (srv (m_off s) limit) end).
    set (s1 := {| m_buf := page; m_cur := -1; m_last := lb; m_off := last page 0; m_count := cnt; m_got := true |}).
    assert (m_apply limit (srv (m_off s) limit) s = s1) as Hap.
    { unfold m_apply; rewrite Hl, Hsort, Hlen. fold lb cnt. rewrite Hpage at 1. reflexivity. }
    assert (m_rest s1 = page) as Hr1 by reflexivity.
    destruct (m_iterate_drain page s1 (fuel - length page)) as (s3 & Hb3 & Hl3 & Ho3 & Hc3 & Hr3 & Hit);
      [cbn; lia|exact Hr1|].
    (* unfold one step of the iteration on s so that it coincides with the iteration on s1 *)
    assert (length page <= length t)%nat as Hpl by (unfold page; rewrite firstn_length; lia).
    assert (m_iterate srv limit (S fuel) s =
            let '(ys, os, sf, fin) := m_iterate srv limit (S fuel) s1 in (ys, m_off s :: os, sf, fin)) as Hshift.
    { cbn [m_iterate]. unfold m_next at 1. rewrite (m_bufnext_none s Hc Hr), Hap.
      destruct (m_next_drain s1 p0 ps) as (Hn1 & Hv1 & Hrr1); [cbn; lia|rewrite Hr1; exact Hpage|].
      assert (m_bufnext s1 = Some (m_set_cur s1 (m_cur s1 + 1))) as Hbn
        by (apply (m_bufnext_some s1 p0 ps); [cbn; lia|rewrite Hr1; exact Hpage]).
      rewrite Hbn. unfold m_next. rewrite Hbn.
      destruct (m_iterate srv limit fuel (m_set_cur s1 (m_cur s1 + 1))) as [[[ys os] sf] fin]. reflexivity. }
    assert (S fuel = length page + (S fuel - length page))%nat as Hfe by lia.
    pose proof (Hit' := Hit).
    replace (fuel - length page)%nat with (fuel - length page)%nat in Hit by reflexivity.
    (* the iteration on s1: page, then whatever follows from s3 *)
    destruct (m_iterate_drain page s1 (S fuel - length page)) as (s4 & Hb4 & Hl4 & Ho4 & Hc4 & Hr4 & Hit4);
      [cbn; lia|exact Hr1|].
    specialize (Hit4 _ eq_refl). rewrite <- Hfe in Hit4. destruct Hit4 as (Y1 & Y2 & Y3).
    assert (m_yield (m_iterate srv limit (S fuel) s) = m_yield (m_iterate srv limit (S fuel) s1) /\
            m_final (m_iterate srv limit (S fuel) s) = m_final (m_iterate srv limit (S fuel) s1) /\
            m_fin (m_iterate srv limit (S fuel) s) = m_fin (m_iterate srv limit (S fuel) s1)) as (Z1 & Z2 & Z3).
    { rewrite Hshift. destruct (m_iterate srv limit (S fuel) s1) as [[[ys os] sf] fin]. repeat split. }
    rewrite Z1, Z2, Z3, Y1, Y2, Y3. clear Z1 Z2 Z3 Y1 Y2 Y3 Hit Hit' s3 Hb3 Hl3 Ho3 Hc3 Hr3 Hshift.
    cbn [m_last m_off m_buf s1] in Hl4, Ho4.
    (* two cases: this was the last batch, or a full page with more to come *)
    assert (t = page ++ skipn (Z.to_nat limit) t) as Hsplit by (unfold page; rewrite firstn_skipn; reflexivity).
    destruct lb eqn:Elb.
    + (* last batch: page = t *)
      assert (page = t) as Hpt.
      { unfold lb in Elb. destruct (mr_kind (srv (m_off s) limit)) eqn:Ek.
        - specialize (Hkind eq_refl). unfold m_complete in Hkind; rewrite Hb in Hkind. apply Z.leb_le in Hkind.
          unfold page; apply firstn_all2; unfold zlen in Hkind; lia.
        - apply Z.ltb_lt in Elb. unfold page in *; unfold zlen in Elb; rewrite firstn_length in Elb.
          apply firstn_all2; lia.
        - apply Z.ltb_lt in Elb. unfold page in *; unfold zlen in Elb; rewrite firstn_length in Elb.
          apply firstn_all2; lia. }
      destruct (S fuel - length page)%nat as [|f'] eqn:Ef; [rewrite Hpt in Ef; lia|].
      cbn [m_iterate]. rewrite (m_done_stays s4 Hc4 Hr4 Hl4).
      unfold m_yield, m_fin, m_final, m_done; cbn. rewrite app_nil_r. repeat split; auto.
    + (* full page *)
      assert (zlen page = limit) as Hfull.
      { unfold lb in Elb. assert (zlen page <? limit = false) as E' by (destruct (mr_kind _); [discriminate|exact Elb|exact Elb]).
        apply Z.ltb_ge in E'. unfold zlen, page in *. rewrite firstn_length in *. lia. }
      set (t' := skipn (Z.to_nat limit) t) in *.
      destruct (firstn_skipn_last 0 (Z.to_nat limit) t) as [pre Hpre]; [fold page; rewrite Hpage; discriminate|].
      fold page in Hpre.
      assert (m_below (m_off s4) h = t') as Hb4'.
      { rewrite Ho4. apply (m_below_step h (m_off s) pre (last page 0) t' Hh).
        rewrite Hb, Hsplit at 1. rewrite Hpre at 1. rewrite <- app_assoc. reflexivity. }
      assert (length t = length page + length t')%nat as Hlt by (rewrite Hsplit at 1; apply app_length).
      assert (length page >= 1)%nat by (rewrite Hpage; cbn; lia).
      destruct (IH t' s4) with (fuel := (S fuel - length page)%nat) as (W1 & W2 & W3); auto; try lia.
      rewrite W1, W2. split; [symmetry; exact Hsplit|]. split; [reflexivity|exact W3].
Qed.

Theorem m_iterate_correct :
  forall fuel, (length h + 1 <= fuel)%nat ->
    m_yield (m_iterate srv limit fuel m_init) = h /\
    m_fin (m_iterate srv limit fuel m_init) = true /\
    forall n, m_all_false srv limit n (m_final (m_iterate srv limit fuel m_init)) = true.
Proof.
  intros fuel Hf.
  destruct (m_iterate_from (length h) h m_init) with (fuel := fuel) as (H1 & H2 & (H3 & H4 & H5)); auto; try reflexivity; try (cbn; lia).
  repeat split; auto. intros n; apply m_done_all_false; assumption.
Qed.
End Messages.

(* ---------- dialogs ---------- *)

Definition lexlt (a b : Z * Z * Z) : Prop :=
  let '(ad, ai, ap) := a in let '(bd, bi, bp) := b in
  ad < bd \/ (ad = bd /\ (ai < bi \/ (ai = bi /\ ap < bp))).
Lemma key_ltb_spec a b : key_ltb a b = true <-> lexlt a b.
Proof.
  destruct a as [[ad ai] ap], b as [[bd bi] bp]; unfold key_ltb, lexlt.
  rewrite !orb_true_iff, !andb_true_iff, !orb_true_iff, !andb_true_iff, !Z.ltb_lt, !Z.eqb_eq. tauto.
Qed.
Lemma key_ltb_asym a b : key_ltb a b = true -> key_ltb b a = false.
Proof.
  intros H. destruct (key_ltb b a) eqn:E; [|reflexivity].
  apply key_ltb_spec in H, E. destruct a as [[ad ai] ap], b as [[bd bi] bp]; unfold lexlt in *; lia.
Qed.
Lemma key_ltb_trans a b c : key_ltb a b = true -> key_ltb b c = true -> key_ltb a c = true.
Proof.
  intros H1 H2. apply key_ltb_spec in H1, H2. apply key_ltb_spec.
  destruct a as [[ad ai] ap], b as [[bd bi] bp], c as [[cd ci] cp]; unfold lexlt in *; lia.
Qed.

Definition d_sorted (h : list dlg) : Prop := StronglySorted (fun a b => key_ltb (d_key b) (d_key a) = true) h.
Definition d_hist_ok (h : list dlg) : Prop := d_sorted h /\ Forall (fun d => 0 < d_date d) h.

Definition d_honest (h : list dlg) (limit : Z) (srv : dserver) : Prop :=
  forall od oi op,
    dr_dialogs (srv od oi op limit) = d_page h od oi op limit /\
    (dr_kind (srv od oi op limit) = DDialogs -> d_complete h od oi op limit = true).

(* the last dialog of every page carries its top message *)
Definition d_ends_ok (limit : Z) (t : list dlg) : Prop :=
  forall k, let pg := firstn (Z.to_nat limit) (skipn (k * Z.to_nat limit) t) in
            pg <> [] -> d_has (last pg d_dummy) = true.

Definition d_rest (s : dstate) : list dlg := skipn (Z.to_nat (x_cur s + 1)) (x_buf s).
Definition d_set_cur (s : dstate) (c : Z) : dstate :=
  {| x_buf := x_buf s; x_cur := c; x_last := x_last s; x_od := x_od s; x_oi := x_oi s; x_op := x_op s;
     x_count := x_count s |}.
Definition d_yield (r : list dlg * list (Z * Z * Z) * dstate * bool) : list dlg := fst (fst (fst r)).
Definition d_final (r : list dlg * list (Z * Z * Z) * dstate * bool) : dstate := snd (fst r).
Definition d_fin (r : list dlg * list (Z * Z * Z) * dstate * bool) : bool := snd r.

Lemma d_below_sorted od oi op h : d_sorted h -> d_sorted (d_below od oi op h).
Proof. intros H; unfold d_below; destruct (od =? 0); [exact H|apply StronglySorted_filter; exact H]. Qed.

Lemma d_below_in od oi op h x :
  In x (d_below od oi op h) -> In x h /\ (od <> 0 -> key_ltb (d_key x) (od, oi, op) = true).
Proof.
  unfold d_below; destruct (od =? 0) eqn:E; intros H.
  - apply Z.eqb_eq in E; split; [exact H|lia].
  - apply filter_In in H; destruct H as [H1 H2]; auto.
Qed.

Lemma d_below_step h od oi op pre m t :
  d_hist_ok h -> d_below od oi op h = pre ++ m :: t -> d_below (d_date m) (d_mid m) (d_peer m) h = t.
Proof.
  intros [Hs Hp] Hb.
  assert (In m (d_below od oi op h)) as Hin by (rewrite Hb; apply in_or_app; right; left; reflexivity).
  apply d_below_in in Hin; destruct Hin as [Hmh Hlt].
  rewrite Forall_forall in Hp; specialize (Hp _ Hmh).
  assert (d_sorted (pre ++ m :: t)) as Hst by (rewrite <- Hb; apply d_below_sorted; exact Hs).
  assert (filter (fun x => key_ltb (d_key x) (d_key m)) (pre ++ m :: t) = t) as Hf.
  { apply (filter_below (fun a b => key_ltb (d_key a) (d_key b))); [intros a b; apply key_ltb_asym|exact Hst]. }
  unfold d_below at 1. replace (d_date m =? 0) with false by (symmetry; apply Z.eqb_neq; lia).
  change (d_date m, d_mid m, d_peer m) with (d_key m).
  rewrite <- Hf, <- Hb. unfold d_below; destruct (od =? 0) eqn:E; [reflexivity|].
  symmetry; apply filter_filter_imp. intros x Hx. eapply key_ltb_trans; [exact Hx|].
  apply Hlt. apply Z.eqb_neq in E; exact E.
Qed.

Section Dialogs.
Variable srv : dserver.
Variable limit : Z.

Lemma d_bufnext_some s x xs :
  -1 <= x_cur s -> d_rest s = x :: xs -> d_bufnext s = Some (d_set_cur s (x_cur s + 1)).
Proof.
  intros Hc Hr. unfold d_rest in Hr.
  assert (Z.to_nat (x_cur s + 1) < length (x_buf s))%nat as Hlen.
  { destruct (Nat.lt_ge_cases (Z.to_nat (x_cur s + 1)) (length (x_buf s))) as [|Hge]; [assumption|].
    rewrite skipn_all2 in Hr by exact Hge; discriminate. }
  unfold d_bufnext, zlen.
  destruct (Z.of_nat (length (x_buf s)) - 1 <=? x_cur s) eqn:E; [apply Z.leb_le in E; lia|reflexivity].
Qed.

Lemma d_bufnext_none s : -1 <= x_cur s -> d_rest s = [] -> d_bufnext s = None.
Proof.
  intros Hc Hr. apply skipn_nil_len in Hr. unfold d_bufnext, zlen.
  destruct (Z.of_nat (length (x_buf s)) - 1 <=? x_cur s) eqn:E; [reflexivity|apply Z.leb_gt in E; lia].
Qed.

Lemma d_next_drain s x xs :
  -1 <= x_cur s -> d_rest s = x :: xs ->
  d_next srv limit s = (true, d_set_cur s (x_cur s + 1), None) /\
  d_value (d_set_cur s (x_cur s + 1)) = x /\ d_rest (d_set_cur s (x_cur s + 1)) = xs.
Proof.
  intros Hc Hr. unfold d_next. rewrite (d_bufnext_some s x xs Hc Hr).
  unfold d_rest in Hr. destruct (skipn_cons_nth d_dummy _ _ _ _ Hr) as [Hn Hsk].
  split; [reflexivity|]. unfold d_value, d_rest, d_set_cur; cbn.
  split; [exact Hn|]. replace (Z.to_nat (x_cur s + 1 + 1)) with (S (Z.to_nat (x_cur s + 1))) by lia. exact Hsk.
Qed.

Lemma d_iterate_drain : forall xs s fuel,
  -1 <= x_cur s -> d_rest s = xs ->
  exists s', x_last s' = x_last s /\ x_od s' = x_od s /\ x_oi s' = x_oi s /\ x_op s' = x_op s /\
             -1 <= x_cur s' /\ d_rest s' = [] /\
    forall r, d_iterate srv limit fuel s' = r ->
      d_yield (d_iterate srv limit (length xs + fuel) s) = xs ++ d_yield r /\
      d_final (d_iterate srv limit (length xs + fuel) s) = d_final r /\
      d_fin (d_iterate srv limit (length xs + fuel) s) = d_fin r.
Proof.
  induction xs as [|x xs IH]; intros s fuel Hc Hr.
  - exists s; do 6 (split; [auto|]). intros r Hrr; subst r; repeat split; reflexivity.
  - destruct (d_next_drain s x xs Hc Hr) as (Hn & Hv & Hr').
    destruct (IH (d_set_cur s (x_cur s + 1)) fuel) as (s' & Hl & Ho1 & Ho2 & Ho3 & Hc' & Hrs & Hit);
      [cbn; lia|exact Hr'|].
    cbn [d_set_cur x_last x_od x_oi x_op] in Hl, Ho1, Ho2, Ho3.
    exists s'; do 6 (split; [assumption|]).
    intros r Hrr; specialize (Hit r Hrr); destruct Hit as (H1 & H2 & H3).
    cbn [length Nat.add d_iterate]; rewrite Hn.
    destruct (d_iterate srv limit (length xs + fuel) (d_set_cur s (x_cur s + 1))) as [[[ys os] sf] fin].
    unfold d_yield, d_final, d_fin in *; cbn [fst snd] in *. rewrite Hv.
    repeat split; cbn [fst snd app]; congruence.
Qed.

Lemma d_done_stays s :
  -1 <= x_cur s -> d_rest s = [] -> x_last s = true ->
  d_next srv limit s = (false, s, Some (x_od s, x_oi s, x_op s)).
Proof.
  intros Hc Hr Hl. unfold d_next. rewrite (d_bufnext_none s Hc Hr).
  unfold d_apply; rewrite Hl. rewrite (d_bufnext_none s Hc Hr). reflexivity.
Qed.
Lemma d_done_all_false s n :
  -1 <= x_cur s -> d_rest s = [] -> x_last s = true -> d_all_false srv limit n s = true.
Proof.
  intros Hc Hr Hl; induction n as [|n IH]; cbn; [reflexivity|].
  rewrite (d_done_stays s Hc Hr Hl); cbn; exact IH.
Qed.

Variable h : list dlg.
Hypothesis Hh : d_hist_ok h.
Hypothesis Hlimit : 1 <= limit.
Hypothesis Hsrv : d_honest h limit srv.

Definition d_done (s : dstate) : Prop := -1 <= x_cur s /\ d_rest s = [] /\ x_last s = true.

Lemma d_ends_ok_skip t : d_ends_ok limit t -> d_ends_ok limit (skipn (Z.to_nat limit) t).
Proof.
  intros H k. specialize (H (S k)). cbn zeta in *. rewrite skipn_skipn_add.
  replace (Z.to_nat limit + k * Z.to_nat limit)%nat with (S k * Z.to_nat limit)%nat by lia. exact H.
Qed.

Lemma d_iterate_from : forall n t s,
  (length t <= n)%nat ->
  -1 <= x_cur s -> d_rest s = [] -> x_last s = false ->
  d_below (x_od s) (x_oi s) (x_op s) h = t -> d_ends_ok limit t ->
  forall fuel, (length t + 1 <= fuel)%nat ->
    d_yield (d_iterate srv limit fuel s) = t /\ d_fin (d_iterate srv limit fuel s) = true /\
    d_done (d_final (d_iterate srv limit fuel s)).
Proof.
  induction n as [|n IH]; intros t s Hn Hc Hr Hl Hb He fuel Hf.
  - destruct t; [|cbn in Hn; lia].
    destruct fuel as [|fuel]; [cbn in Hf; lia|].
    cbn [d_iterate]. unfold d_next. rewrite (d_bufnext_none s Hc Hr).
    destruct (Hsrv (x_od s) (x_oi s) (x_op s)) as [Hpg _].
    unfold d_page in Hpg; rewrite Hb, firstn_nil in Hpg.
    unfold d_apply; rewrite Hl, Hpg.
    assert (forall k, (match k with DDialogs => true | DSlice => zlen (@nil dlg) =? 0 end) = true) as Hlb by (intros []; reflexivity).
    rewrite Hlb. cbn [negb andb].
    match goal with |- context [d_bufnext ?s1] => assert (d_bufnext s1 = None) as -> by (apply d_bufnext_none; cbn; auto; lia) end.
    unfold d_yield, d_fin, d_final, d_done; cbn. repeat split; auto; lia.
  - destruct t as [|x0 t0].
    { apply (IH [] s); cbn; auto; lia. }
    set (t := x0 :: t0) in *.
    destruct fuel as [|fuel]; [lia|].
    destruct (Hsrv (x_od s) (x_oi s) (x_op s)) as [Hpg Hkind].
    set (page := firstn (Z.to_nat limit) t) in *.
    assert (d_page h (x_od s) (x_oi s) (x_op s) limit = page) as Hpg' by (unfold d_page; rewrite Hb; reflexivity).
    rewrite Hpg' in Hpg.
    assert (exists p0 ps, page = p0 :: ps) as (p0 & ps & Hpage).
    { unfold page, t. destruct (Z.to_nat limit) eqn:E; [lia|]. cbn. eauto. }
    assert (0 <? zlen page = true) as Hpos by (rewrite Hpage; reflexivity).
    assert (zlen page =? 0 = false) as Hnz by (rewrite Hpage; reflexivity).
    assert (d_has (last page d_dummy) = true) as Hhas.
    { specialize (He 0%nat). cbn zeta in He. rewrite Nat.mul_0_l in He. cbn [skipn] in He. apply He.
      fold page; rewrite Hpage; discriminate. }
    set (lb := match dr_kind (srv (x_od s) (x_oi s) (x_op s) limit) with DDialogs => true | DSlice => false end).
    set (cnt := match dr_kind (srv (x_od s) (x_oi s) (x_op s) limit) with
                | DDialogs => zlen (filter d_has page) | DSlice => dr_count (srv (x_od s) (x_oi s) (x_op s) limit) end).
    set (l := last page d_dummy) in *.
    set (s1 := if lb then {| x_buf := page; x_cur := -1; x_last := true; x_od := x_od s; x_oi := x_oi s; x_op := x_op s; x_count := cnt |}
               else {| x_buf := page; x_cur := -1; x_last := false; x_od := d_date l; x_oi := d_mid l; x_op := d_peer l; x_count := cnt |}).
    assert (d_apply (srv (x_od s) (x_oi s) (x_op s) limit) s = s1) as Hap.
    { unfold d_apply; rewrite Hl, Hpg. unfold s1, lb, cnt.
      destruct (dr_kind (srv (x_od s) (x_oi s) (x_op s) limit)); cbn [negb andb].
      - reflexivity.
      - rewrite Hnz, Hpos; cbn [negb andb]. fold l. rewrite Hhas. reflexivity. }
    assert (x_buf s1 = page /\ x_cur s1 = -1 /\ x_last s1 = lb) as (Hb1 & Hc1 & Hl1) by (unfold s1; destruct lb; auto).
    assert (d_rest s1 = page) as Hr1 by (unfold d_rest; rewrite Hb1, Hc1; reflexivity).
    assert (length page <= length t)%nat as Hpl by (unfold page; rewrite firstn_length; lia).
    assert (d_iterate srv limit (S fuel) s =
            let '(ys, os, sf, fin) := d_iterate srv limit (S fuel) s1 in (ys, (x_od s, x_oi s, x_op s) :: os, sf, fin)) as Hshift.
    { cbn [d_iterate]. unfold d_next at 1. rewrite (d_bufnext_none s Hc Hr), Hap.
      assert (d_bufnext s1 = Some (d_set_cur s1 (x_cur s1 + 1))) as Hbn
        by (apply (d_bufnext_some s1 p0 ps); [lia|rewrite Hr1; exact Hpage]).
      rewrite Hbn. unfold d_next. rewrite Hbn.
      destruct (d_iterate srv limit fuel (d_set_cur s1 (x_cur s1 + 1))) as [[[ys os] sf] fin]. reflexivity. }
    assert (S fuel = length page + (S fuel - length page))%nat as Hfe by lia.
    destruct (d_iterate_drain page s1 (S fuel - length page)) as (s4 & Hl4 & Ho41 & Ho42 & Ho43 & Hc4 & Hr4 & Hit4);
      [lia|exact Hr1|].
    specialize (Hit4 _ eq_refl). rewrite <- Hfe in Hit4. destruct Hit4 as (Y1 & Y2 & Y3).
    assert (d_yield (d_iterate srv limit (S fuel) s) = d_yield (d_iterate srv limit (S fuel) s1) /\
            d_final (d_iterate srv limit (S fuel) s) = d_final (d_iterate srv limit (S fuel) s1) /\
            d_fin (d_iterate srv limit (S fuel) s) = d_fin (d_iterate srv limit (S fuel) s1)) as (Z1 & Z2 & Z3).
    { rewrite Hshift. destruct (d_iterate srv limit (S fuel) s1) as [[[ys os] sf] fin]. repeat split. }
    rewrite Z1, Z2, Z3, Y1, Y2, Y3. clear Z1 Z2 Z3 Y1 Y2 Y3 Hshift.
    rewrite Hl1 in Hl4.
    assert (t = page ++ skipn (Z.to_nat limit) t) as Hsplit by (unfold page; rewrite firstn_skipn; reflexivity).
    destruct lb eqn:Elb.
    + assert (page = t) as Hpt.
      { unfold lb in Elb. destruct (dr_kind (srv (x_od s) (x_oi s) (x_op s) limit)) eqn:Ek; [|discriminate].
        specialize (Hkind eq_refl). unfold d_complete in Hkind; rewrite Hb in Hkind. apply Z.leb_le in Hkind.
        unfold page; apply firstn_all2; unfold zlen in Hkind; lia. }
      destruct (S fuel - length page)%nat as [|f'] eqn:Ef; [rewrite Hpt in Ef; lia|].
      cbn [d_iterate]. rewrite (d_done_stays s4 Hc4 Hr4 Hl4).
      unfold d_yield, d_fin, d_final, d_done; cbn. rewrite app_nil_r. repeat split; auto.
    + set (t' := skipn (Z.to_nat limit) t) in *.
      destruct (firstn_skipn_last d_dummy (Z.to_nat limit) t) as [pre Hpre]; [fold page; rewrite Hpage; discriminate|].
      fold page in Hpre. fold l in Hpre.
      assert (x_od s1 = d_date l /\ x_oi s1 = d_mid l /\ x_op s1 = d_peer l) as (E1 & E2 & E3) by (unfold s1; auto).
      assert (d_below (x_od s4) (x_oi s4) (x_op s4) h = t') as Hb4'.
      { rewrite Ho41, Ho42, Ho43, E1, E2, E3.
        apply (d_below_step h (x_od s) (x_oi s) (x_op s) pre l t' Hh).
        rewrite Hb, Hsplit at 1. rewrite Hpre at 1. rewrite <- app_assoc. reflexivity. }
      assert (length t = length page + length t')%nat as Hlt by (rewrite Hsplit at 1; apply app_length).
      assert (length page >= 1)%nat by (rewrite Hpage; cbn; lia).
      destruct (IH t' s4) with (fuel := (S fuel - length page)%nat) as (W1 & W2 & W3); auto; try lia.
      { apply d_ends_ok_skip; exact He. }
      rewrite W1, W2. split; [symmetry; exact Hsplit|]. split; [reflexivity|exact W3].
Qed.

Theorem d_iterate_correct :
  d_ends_ok limit h ->
  forall fuel, (length h + 1 <= fuel)%nat ->
    d_yield (d_iterate srv limit fuel d_init) = h /\
    d_fin (d_iterate srv limit fuel d_init) = true /\
    forall n, d_all_false srv limit n (d_final (d_iterate srv limit fuel d_init)) = true.
Proof.
  intros He fuel Hf.
  destruct (d_iterate_from (length h) h d_init) with (fuel := fuel) as (H1 & H2 & (H3 & H4 & H5)); auto; try reflexivity; try (cbn; lia).
  repeat split; auto. intros n; apply d_done_all_false; assumption.
Qed.
End Dialogs.

Lemma d_all_has_ends_ok limit h : Forall (fun d => d_has d = true) h -> d_ends_ok limit h.
Proof.
  intros H k pg Hne. rewrite Forall_forall in H. apply H.
  assert (In (last pg d_dummy) pg) as Hin.
  { destruct (exists_last Hne) as (p & a & ->). rewrite last_last. apply in_or_app; right; left; reflexivity. }
  unfold pg in Hin.
  assert (forall n (l : list dlg) x, In x (firstn n l) -> In x l) as Hf
    by (intros n l x Hx; rewrite <- (firstn_skipn n l); apply in_or_app; left; exact Hx).
  assert (forall n (l : list dlg) x, In x (skipn n l) -> In x l) as Hs
    by (intros n l x Hx; rewrite <- (firstn_skipn n l); apply in_or_app; right; exact Hx).
  eapply Hs, Hf; exact Hin.
Qed.

(* ---------- the policy servers of the differential run satisfy the contract ---------- *)

Lemma m_policy_honest h limit pol cnt rv :
  0 <= pol <= 3 -> m_honest h limit (m_policy_server h pol cnt rv).
Proof.
  intros Hp off. unfold m_policy_server; cbn [mr_msgs mr_kind]. split.
  - destruct rv; [apply Permutation_sym, Permutation_rev|reflexivity].
  - destruct (pol =? 0) eqn:E0; [discriminate|]. destruct (pol =? 1) eqn:E1; [discriminate|].
    destruct (pol =? 2) eqn:E2; [destruct (m_complete h off limit); [reflexivity|discriminate]|].
    destruct (pol =? 3) eqn:E3; [destruct (m_complete h off limit); [reflexivity|discriminate]|].
    apply Z.eqb_neq in E0, E1, E2, E3; lia.
Qed.

Lemma d_policy_honest h limit pol cnt :
  0 <= pol <= 1 -> d_honest h limit (d_policy_server h pol cnt).
Proof.
  intros Hp od oi op. unfold d_policy_server; cbn [dr_dialogs dr_kind]. split; [reflexivity|].
  destruct (pol =? 0) eqn:E0; [discriminate|].
  destruct (pol =? 1) eqn:E1; [destruct (d_complete h od oi op limit); [reflexivity|discriminate]|].
  apply Z.eqb_neq in E0, E1; lia.
Qed.

(* ---------- the witness for dialogs whose page ends in a dialog without top message ---------- *)

Definition mkd (date mid peer : Z) (has : bool) : dlg := {| d_date := date; d_mid := mid; d_peer := peer; d_has := has |}.
Definition d_witness : list dlg := [mkd 40 4 104 true; mkd 30 3 103 true; mkd 20 2 102 true; mkd 10 1 101 false].

Lemma d_witness_ok : d_hist_ok d_witness.
Proof.
  split; unfold d_witness, d_sorted; repeat constructor.
Qed.

Lemma d_witness_repeats :
  map d_peer (d_yield (d_iterate (d_policy_server d_witness 0 4) 2 8 d_init)) = [104; 103; 102; 101; 102; 101; 102; 101].
Proof. vm_compute. reflexivity. Qed.

(* ---------- Value() never indexes outside the buffer after a true Next ---------- *)
Lemma m_next_true_in_range srv limit s s' q :
  -1 <= m_cur s -> m_next srv limit s = (true, s', q) ->
  0 <= m_cur s' < zlen (m_buf s') /\ -1 <= m_cur s'.
Proof.
  intros Hc H. unfold m_next in H.
  assert (forall t t', -1 <= m_cur t -> m_bufnext t = Some t' -> 0 <= m_cur t' < zlen (m_buf t')) as Hb.
  { intros t t' Ht E. unfold m_bufnext in E. destruct (Z.leb_spec (zlen (m_buf t) - 1) (m_cur t)); [discriminate|].
    inversion E; subst; cbn. lia. }
  destruct (m_bufnext s) as [s0|] eqn:E0.
  - inversion H; subst. pose proof (Hb _ _ Hc E0). lia.
  - set (s1 := m_apply limit (srv (m_off s) limit) s) in *.
    assert (-1 <= m_cur s1) as H1.
    { unfold s1, m_apply. destruct (m_last s); [exact Hc|]. destruct (sort_desc _); cbn; lia. }
    destruct (m_bufnext s1) as [s2|] eqn:E1; inversion H; subst. pose proof (Hb _ _ H1 E1). lia.
Qed.

Lemma d_next_true_in_range srv limit s s' q :
  -1 <= x_cur s -> d_next srv limit s = (true, s', q) ->
  0 <= x_cur s' < zlen (x_buf s') /\ -1 <= x_cur s'.
Proof.
  intros Hc H. unfold d_next in H.
  assert (forall t t', -1 <= x_cur t -> d_bufnext t = Some t' -> 0 <= x_cur t' < zlen (x_buf t')) as Hb.
  { intros t t' Ht E. unfold d_bufnext in E. destruct (Z.leb_spec (zlen (x_buf t) - 1) (x_cur t)); [discriminate|].
    inversion E; subst; cbn. lia. }
  destruct (d_bufnext s) as [s0|] eqn:E0.
  - inversion H; subst. pose proof (Hb _ _ Hc E0). lia.
  - set (s1 := d_apply (srv (x_od s) (x_oi s) (x_op s) limit) s) in *.
    assert (-1 <= x_cur s1) as H1.
    { unfold s1, d_apply. destruct (x_last s); [exact Hc|].
      destruct (negb _ && _); cbn; lia. }
    destruct (d_bufnext s1) as [s2|] eqn:E1; inversion H; subst. pose proof (Hb _ _ H1 E1). lia.
Qed.

(* ---------- Total / FetchTotal do not disturb the iteration ---------- *)
Definition m_core (s : mstate) := (m_buf s, m_cur s, m_last s, m_off s).

Lemma m_total_core srv s k :
  m_core (snd (fst (if k =? 0 then m_total srv s else m_fetch_total srv s))) = m_core s.
Proof. unfold m_total, m_fetch_total. destruct (k =? 0); [destruct (m_got s)|]; reflexivity. Qed.

Lemma m_do_calls_core srv calls n s :
  m_core (snd (m_do_calls srv calls n s)) = m_core s.
Proof.
  unfold m_do_calls.
  assert (forall acc, m_core (snd acc) = m_core s ->
     m_core (snd (fold_left (fun acc c => let '(cs, qs, st) := acc in
        if Nat.eqb (fst c) n then
          let '(cnt, st', q) := if snd c =? 0 then m_total srv st else m_fetch_total srv st in
          (cs ++ [cnt], qs ++ match q with Some o => [o] | None => [] end, st')
        else acc) calls acc)) = m_core s) as H.
  { induction calls as [|c calls IH]; intros acc Ha; [exact Ha|]. cbn [fold_left]. apply IH.
    destruct acc as [[cs qs] st]. destruct (Nat.eqb (fst c) n); [|exact Ha].
    pose proof (m_total_core srv st (snd c)) as Hc.
    destruct (if snd c =? 0 then m_total srv st else m_fetch_total srv st) as [[cnt st'] q]. cbn in *. congruence. }
  apply H. reflexivity.
Qed.

Lemma m_next_core srv limit s1 s2 :
  m_core s1 = m_core s2 ->
  fst (fst (m_next srv limit s1)) = fst (fst (m_next srv limit s2)) /\
  snd (m_next srv limit s1) = snd (m_next srv limit s2) /\
  m_core (snd (fst (m_next srv limit s1))) = m_core (snd (fst (m_next srv limit s2))) /\
  m_value (snd (fst (m_next srv limit s1))) = m_value (snd (fst (m_next srv limit s2))).
Proof.
  destruct s1 as [b1 c1 l1 o1 n1 g1], s2 as [b2 c2 l2 o2 n2 g2]. unfold m_core; cbn. intros H; inversion H; subst.
  unfold m_next, m_bufnext; cbn.
  destruct (zlen b2 - 1 <=? c2); [|repeat split].
  unfold m_apply; cbn. destruct l2; cbn.
  - destruct (zlen b2 - 1 <=? c2); repeat split.
  - destruct (sort_desc (mr_msgs (srv o2 limit))) as [|x xs]; cbn.
    + destruct (zlen b2 - 1 <=? c2); repeat split.
    + destruct (zlen (x :: xs) - 1 <=? -1); repeat split.
Qed.

Theorem m_iterate_t_yields srv limit calls : forall fuel n s1 s2,
  m_core s1 = m_core s2 ->
  let '(ys, _, _, _, fin) := m_iterate_t srv limit calls fuel n s1 in
  ys = m_yield (m_iterate srv limit fuel s2) /\ fin = m_fin (m_iterate srv limit fuel s2).
Proof.
  induction fuel as [|f IH]; intros n s1 s2 Hc.
  - cbn [m_iterate_t m_iterate]. destruct (m_do_calls srv calls n s1) as [[cs0 q0] s0]. split; reflexivity.
  - cbn [m_iterate_t m_iterate].
    pose proof (m_do_calls_core srv calls n s1) as Hd.
    destruct (m_do_calls srv calls n s1) as [[cs0 q0] s0]. cbn [snd] in Hd.
    destruct (m_next_core srv limit s0 s2 ltac:(congruence)) as (N1 & N2 & N3 & N4).
    destruct (m_next srv limit s0) as [[b1 s1'] q1]. destruct (m_next srv limit s2) as [[b2 s2'] q2].
    cbn [fst snd] in *. subst b2 q2. destruct b1.
    + specialize (IH (S n) s1' s2' N3).
      destruct (m_iterate_t srv limit calls f (S n) s1') as [[[[ys os] cs] sf] fin].
      destruct (m_iterate srv limit f s2') as [[[ys2 os2] sf2] fin2].
      unfold m_yield, m_fin in *. cbn [fst snd] in *. destruct IH as [-> ->]. rewrite N4. split; reflexivity.
    + match goal with |- context [fold_left ?F calls ?A] => destruct (fold_left F calls A) as [[cs1 q1'] s1''] end.
      unfold m_yield, m_fin. cbn. split; reflexivity.
Qed.
