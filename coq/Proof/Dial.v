(* Proofs about Model/Dial.v, parametric in the number n of racing dials. *)
From Coq Require Import List Arith Bool Lia.
From TD Require Import Model.Dial.
Import ListNotations.

Definition returned (m : mstat) : Prop := match m with Running _ => False | _ => True end.
Definition errs_of (m : mstat) : option (list nat) :=
  match m with Running e | RetErr e => Some e | _ => None end.

Record Inv (s : state) : Prop := {
  i_n : 1 <= d_n s;
  i_ret : forall i, d_main s = RetConn i -> d_st s i = Delivered true;
  i_del : forall j, d_st s j = Delivered true -> d_main s = RetConn j;
  i_dctx : returned (d_main s) -> d_dialctx s = true;
  i_ctx : d_ctx s = true -> d_dialctx s = true;
  i_errs : forall e, errs_of (d_main s) = Some e ->
             NoDup e /\ (forall j, In j e <-> d_st s j = Delivered false) /\ (forall j, In j e -> j < d_n s);
  i_lt : forall j, d_st s j <> Dialing -> j < d_n s;
  i_run : forall e, d_main s = Running e -> length e < d_n s;
  i_all : forall e, d_main s = RetErr e -> length e = d_n s;
  i_retctx : d_main s = RetCtx -> d_ctx s = true
}.

Lemma inv_init : forall n, 1 <= n -> Inv (init n).
Proof.
  intros n H. constructor; simpl; intros; try congruence; try tauto; try lia.
  - injection H0 as <-. split; [constructor|]. split; [|intros j []]. intros j; split; [intros [] | congruence].
  - injection H0 as <-. simpl. lia.
Qed.

Ltac inv_step H :=
  unfold step in H;
  repeat match type of H with
  | (if ?X then _ else _) = Some _ => let E := fresh "G" in destruct X eqn:E; try discriminate H
  | match ?X with _ => _ end = Some _ => let E := fresh "G" in destruct X eqn:E; try discriminate H
  end;
  try (injection H as H; subst).

Ltac upd := unfold upd in *;
  repeat match goal with
  | H : context [Nat.eqb ?a ?b] |- _ => destruct (Nat.eqb_spec a b); subst
  | |- context [Nat.eqb ?a ?b] => destruct (Nat.eqb_spec a b); subst
  end.

Ltac errs_tac Jerrs :=
  match goal with
  | H : errs_of _ = Some ?e |- _ =>
      let A := fresh "A" in let B := fresh "B" in let C := fresh "C" in
      destruct (Jerrs _ H) as (A & B & C); split; [assumption|]; split; [|assumption];
      let j := fresh "j" in intros j; upd; [|apply B]; rewrite B; split; congruence
  end.

Lemma inv_step_all : forall s e s', Inv s -> step s e = Some s' -> Inv s'.
Proof.
  intros s e s' I H. destruct I as [Jn Jret Jdel Jdctx Jctx Jerrs Jlt Jrun Jall Jrc]. destruct e; inv_step H.
  - (* EDialDone *)
    apply Nat.ltb_lt in G.
    constructor; simpl; intros; upd; try congruence; auto; try solve [errs_tac Jerrs].
    all: try solve [exfalso; match goal with H : d_main _ = RetConn _ |- _ => apply Jret in H; congruence end].
  - (* EDeliver success *)
    constructor; simpl; intros; upd; try congruence; auto; try discriminate.
    all: try solve [exfalso; match goal with H : d_st _ _ = Delivered true |- _ => apply Jdel in H; congruence end].
    all: try solve [apply Jlt; congruence].
  - (* EDeliver failure, last one *)
    apply Nat.eqb_eq in G2. pose proof (Jrun _ eq_refl) as L. simpl in G2.
    destruct (Jerrs _ eq_refl) as (A & B & C). simpl in *.
    assert (NI : ~ In i errs) by (rewrite B; congruence).
    assert (Li : i < d_n s) by (apply Jlt; congruence).
    constructor; simpl; intros; upd; try congruence; auto; try discriminate; try tauto.
    all: try solve [exfalso; match goal with H : d_st _ _ = Delivered true |- _ => apply Jdel in H; congruence end].
    all: try solve [apply Jlt; congruence].
    all: try solve [match goal with H : Some _ = Some _ |- _ => injection H as <- end; simpl; lia].
    all: try solve [match goal with H : _ = RetErr _ |- _ => injection H as <- end; simpl; lia].
    all: try solve [match goal with H : _ = Running _ |- _ => injection H as <- end; simpl; lia].
    all: try solve [match goal with H : Some _ = Some _ |- _ => injection H as <- end;
                    split; [constructor; assumption|]; split;
                    [ intros j; simpl; upd; [tauto|]; rewrite B; intuition congruence
                    | intros j [<-|Hj]; [assumption | auto] ]].
  - (* EDeliver failure, more to come *)
    apply Nat.eqb_neq in G2. pose proof (Jrun _ eq_refl) as L. simpl in G2.
    destruct (Jerrs _ eq_refl) as (A & B & C). simpl in *.
    assert (NI : ~ In i errs) by (rewrite B; congruence).
    assert (Li : i < d_n s) by (apply Jlt; congruence).
    constructor; simpl; intros; upd; try congruence; auto; try discriminate; try tauto.
    all: try solve [exfalso; match goal with H : d_st _ _ = Delivered true |- _ => apply Jdel in H; congruence end].
    all: try solve [apply Jlt; congruence].
    all: try solve [match goal with H : Some _ = Some _ |- _ => injection H as <- end; simpl; lia].
    all: try solve [match goal with H : _ = RetErr _ |- _ => injection H as <- end; simpl; lia].
    all: try solve [match goal with H : _ = Running _ |- _ => injection H as <- end; simpl; lia].
    all: try solve [match goal with H : Some _ = Some _ |- _ => injection H as <- end;
                    split; [constructor; assumption|]; split;
                    [ intros j; simpl; upd; [tauto|]; rewrite B; intuition congruence
                    | intros j [<-|Hj]; [assumption | auto] ]].
  - (* ELeave *)
    constructor; simpl; intros; upd; try congruence; auto; try solve [errs_tac Jerrs].
    all: try solve [exfalso; match goal with H : d_main _ = RetConn _ |- _ => apply Jret in H; congruence end].
    all: try solve [apply Jlt; congruence].
  - (* ECallerCancel *)
    constructor; simpl; intros; auto.
  - (* EMainCtx *)
    constructor; simpl; intros; try congruence; auto; try discriminate.
    all: try solve [exfalso; match goal with H : d_st _ _ = Delivered true |- _ => apply Jdel in H; congruence end].

Qed.
Lemma inv_run : forall l s s', Inv s -> run s l = Some s' -> Inv s'.
Proof.
  induction l as [|e t IH]; simpl; intros s s' I H.
  - congruence.
  - destruct (step s e) eqn:E; [|discriminate]. eapply IH; [|eassumption]. eapply inv_step_all; eassumption.
Qed.
Theorem inv_reachable : forall n s, 1 <= n -> reachable n s -> Inv s.
Proof. intros n s N [l H]. apply (inv_run l (init n) s); [apply inv_init; assumption | assumption]. Qed.

Lemma step_n : forall s e s', step s e = Some s' -> d_n s' = d_n s.
Proof. intros s e s' H. destruct e; inv_step H; reflexivity. Qed.
Lemma run_n : forall l s s', run s l = Some s' -> d_n s' = d_n s.
Proof.
  induction l as [|e t IH]; simpl; intros s s' H; [congruence|].
  destruct (step s e) eqn:E; [|discriminate]. rewrite (IH _ _ H). eapply step_n; eassumption.
Qed.

(* pigeonhole: a duplicate-free list of n numbers below n contains every number below n *)
Lemma all_below : forall n e, NoDup e -> (forall j, In j e -> j < n) -> length e = n -> forall j, j < n -> In j e.
Proof.
  intros n e ND LT LEN j Hj.
  assert (incl (seq 0 n) e).
  { apply NoDup_length_incl; [assumption | rewrite seq_length; lia |].
    intros x Hx. apply in_seq. specialize (LT x Hx). lia. }
  apply H. apply in_seq. lia.
Qed.

(* exactly one result, and what it is *)
Theorem result : forall n s, 1 <= n -> reachable n s ->
  match d_main s with
  | Running _ => True
  | RetConn i => i < n /\ d_st s i = Delivered true /\ (forall j, d_st s j = Delivered true -> j = i)
  | RetErr e => NoDup e /\ (forall j, j < n -> In j e /\ d_st s j = Delivered false) /\ (forall j, ~ established s j)
  | RetCtx => d_ctx s = true
  end.
Proof.
  intros n s N R. pose proof (inv_reachable _ _ N R) as I. destruct R as [l R].
  pose proof (run_n _ _ _ R) as E. simpl in E. destruct I as [Jn Jret Jdel Jdctx Jctx Jerrs Jlt Jrun Jall Jrc]. destruct (d_main s) eqn:M; auto.
  - split; [|split].
    + rewrite <- E. apply Jlt. rewrite (Jret _ eq_refl). discriminate.
    + apply Jret; reflexivity.
    + intros j Hj. specialize (Jdel _ Hj). congruence.
  - destruct (Jerrs _ eq_refl) as (A & B & C). split; [assumption|].
    assert (ALL : forall j, j < n -> In j errs).
    { intros j Hj. apply (all_below (d_n s)); auto. lia. }
    split.
    + intros j Hj. split; [auto | apply B; auto].
    + intros j [H|[H|H]].
      * assert (j < d_n s) by (apply Jlt; congruence). assert (In j errs) by (apply ALL; lia).
        apply B in H1. congruence.
      * specialize (Jdel _ H). congruence.
      * assert (j < d_n s) by (apply Jlt; congruence). assert (In j errs) by (apply ALL; lia).
        apply B in H1. congruence.
Qed.

(* a return is final *)
Theorem return_final : forall s e s', step s e = Some s' -> returned (d_main s) -> d_main s' = d_main s.
Proof.
  intros s e s' H R. destruct e; inv_step H; simpl in *; try reflexivity; contradiction.
Qed.

(* the returned connection is never closed; every other established connection is closed or its owner
   can close it right now (its <-ctx.Done() branch is enabled) *)
Theorem others_closed : forall n s, 1 <= n -> reachable n s -> returned (d_main s) ->
  forall j, established s j ->
    (d_main s = RetConn j /\ open_conn s j) \/ closed_conn s j \/
    (d_st s j = Done true /\ exists s', step s (ELeave j) = Some s' /\ closed_conn s' j).
Proof.
  intros n s N R RET j [H|[H|H]]; destruct (inv_reachable _ _ N R) as [Jn Jret Jdel Jdctx Jctx Jerrs Jlt Jrun Jall Jrc].
  - right; right. split; [assumption|]. unfold step. rewrite H, (Jdctx RET). eexists. split; [reflexivity|].
    unfold closed_conn. simpl. unfold upd. rewrite Nat.eqb_refl. reflexivity.
  - left. split; [apply Jdel; assumption | right; assumption].
  - right; left. assumption.
Qed.

(* a dial that completes after connect returned (or after the caller cancelled) can be closed at once *)
Theorem late_dial_closed : forall n s j s1, 1 <= n -> reachable n s -> d_dialctx s = true ->
  step s (EDialDone j true) = Some s1 -> exists s2, step s1 (ELeave j) = Some s2 /\ closed_conn s2 j.
Proof.
  intros n s j s1 N R D H. inv_step H. unfold step. simpl. unfold upd. rewrite Nat.eqb_refl, D.
  eexists. split; [reflexivity|]. unfold closed_conn. simpl. unfold upd. rewrite Nat.eqb_refl. reflexivity.
Qed.

(* fair completion: when nothing but never-returning dials is left, exactly the returned connection is open *)
Theorem quiescent_open : forall n s, 1 <= n -> reachable n s -> quiescent s ->
  (forall j, open_conn s j <-> d_main s = RetConn j) /\ (d_ctx s = true -> returned (d_main s)).
Proof.
  intros n s N R Q. destruct (inv_reachable _ _ N R) as [Jn Jret Jdel Jdctx Jctx Jerrs Jlt Jrun Jall Jrc]. split.
  - intros j. split.
    + intros [H|H]; [|apply Jdel; assumption]. exfalso.
      destruct (d_main s) eqn:M.
      * destruct (Q (EDeliver j) (set_main (set_st s j (Delivered true)) (RetConn j) true)) as [(i & ok & E)|E]; try discriminate.
        unfold step. rewrite H, M. reflexivity.
      * destruct (Q (ELeave j) (set_st s j (Left true))) as [(i0 & ok & E)|E]; try discriminate.
        unfold step. rewrite H, Jdctx; simpl; auto.
      * destruct (Q (ELeave j) (set_st s j (Left true))) as [(i0 & ok & E)|E]; try discriminate.
        unfold step. rewrite H, Jdctx; simpl; auto.
      * destruct (Q (ELeave j) (set_st s j (Left true))) as [(i0 & ok & E)|E]; try discriminate.
        unfold step. rewrite H, Jdctx; simpl; auto.
    + intros M. right. apply Jret; assumption.
  - intros C. destruct (d_main s) eqn:M; simpl; auto.
    destruct (Q EMainCtx (set_main s RetCtx true)) as [(i0 & ok & E)|E]; try discriminate.
    unfold step. rewrite M, C. reflexivity.
Qed.

(* a connection is closed at most once: once its owner left with it, no step touches it again; and the
   returned connection is never closed by the resolver *)
Theorem no_double_close : forall s e s' j, step s e = Some s' -> closed_conn s j -> closed_conn s' j /\ e <> ELeave j.
Proof.
  intros s e s' j H C. unfold closed_conn in *.
  destruct e; inv_step H; simpl; unfold upd; try (destruct (Nat.eqb_spec j i); subst; try congruence);
    split; try assumption; try congruence; try discriminate.
Qed.
Theorem returned_never_closed : forall n s i, 1 <= n -> reachable n s -> d_main s = RetConn i -> ~ closed_conn s i.
Proof.
  intros n s i N R M C. destruct (inv_reachable _ _ N R) as [Jn Jret Jdel Jdctx Jctx Jerrs Jlt Jrun Jall Jrc].
  unfold closed_conn in C. rewrite (Jret _ M) in C. discriminate.
Qed.
