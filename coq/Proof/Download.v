(* Proofs for Model/Download.v (C33). *)
From Coq Require Import ZArith List Bool Lia Permutation Arith.
From TD Require Import Model.Download.
Import ListNotations.
Open Scope nat_scope.

(* ---------- generic list facts ---------- *)

Lemma skipn_add {B} : forall a b (l : list B), skipn (a + b) l = skipn b (skipn a l).
Proof.
  induction a as [|a IH]; intros b l; [reflexivity|].
  destruct l; cbn; [destruct b; reflexivity|apply IH].
Qed.

Lemma nth_error_skipn {B} : forall o (l : list B) j, nth_error (skipn o l) j = nth_error l (o + j).
Proof.
  induction o as [|o IH]; intros l j; [reflexivity|].
  destruct l; cbn; [destruct j; reflexivity|apply IH].
Qed.

Lemma nth_error_firstn_lt {B} : forall n (l : list B) j, j < n -> nth_error (firstn n l) j = nth_error l j.
Proof.
  induction n as [|n IH]; intros l j H; [lia|].
  destruct l; [destruct j; reflexivity|]. destruct j; [reflexivity|]. cbn. apply IH. lia.
Qed.

Lemma firstn_short_all {B} : forall n (l : list B), length (firstn n l) < n -> firstn n l = l.
Proof. intros n l H. rewrite firstn_length in H. apply firstn_all2. lia. Qed.

(* ---------- stream ---------- *)

Section Stream.
Context {B T : Type}.
Variable file : list B.
Variable tag : nat -> T.
Variable p : nat.
Hypothesis Hp : 1 <= p.

Notation sloop := (stream_loop (blk file p) lempty (is_last p) tag).

Fixpoint all_full (w : list (list B)) : Prop :=
  match w with
  | [] => True
  | c :: t => match t with [] => 0 < length c <= p | _ => length c = p /\ all_full t end
  end.

(* whatever the retry pattern: if the loop finishes, the chunks written are the rest of the file
   from block [i] on, all but the last are full, the type is the served one, and nextPlain handed
   out i, i+1, i+2, ... (offsets i*p, (i+1)*p, ...) each once: one more than the full chunks *)
Lemma stream_loop_spec : forall fuel i env w t offs reqs,
  sloop fuel i env = SDone w t offs reqs ->
  concat w = skipn (i * p) file /\ all_full w /\ t = tag (i + length (skipn (i * p) file) / p) /\
  offs = seq i (length offs) /\
  length offs = S (length (skipn (i * p) file) / p).
Proof.
  induction fuel as [|f IH]; intros i env w t offs reqs H; cbn [stream_loop] in H; [discriminate|].
  destruct (fetch_retry env) as [[env' retries]|]; [|discriminate].
  change (blk file p i) with (firstn p (skipn (i * p) file)) in H.
  set (rest := skipn (i * p) file) in *.
  destruct (firstn p rest) as [|b0 d0] eqn:Ed; cbn [lempty] in H.
  - inversion H; subst. assert (rest = []) as Hr.
    { apply length_zero_iff_nil. pose proof (f_equal (@length B) Ed) as Hl. rewrite firstn_length in Hl. cbn in Hl. lia. }
    rewrite Hr. cbn [concat all_full length]. rewrite Nat.div_0_l by lia. rewrite Nat.add_0_r. repeat split; auto.
  - rewrite <- Ed in H. destruct (is_last p (firstn p rest)) eqn:El.
    + inversion H; subst. unfold is_last in El. apply Nat.ltb_lt in El.
      pose proof (firstn_short_all p rest El) as Hall. rewrite Hall in *.
      cbn [concat all_full]. rewrite app_nil_r. split; [reflexivity|].
      assert (0 < length rest) as Hpos by (rewrite Ed; cbn; lia).
      split; [lia|]. rewrite Nat.div_small by lia. rewrite Nat.add_0_r.
      split; [reflexivity|]. split; [reflexivity|]. reflexivity.
    + unfold is_last in El. apply Nat.ltb_ge in El.
      assert (length (firstn p rest) = p) as Hlen by (rewrite firstn_length in *; lia).
      destruct (sloop f (S i) env') as [w' t' o' r'|w'] eqn:Er; [|discriminate].
      inversion H; subst. destruct (IH _ _ _ _ _ _ Er) as (C & F & Tg & O & L).
      replace (S i * p) with (i * p + p) in C, L, Tg by lia.
      rewrite skipn_add in C, L, Tg. fold rest in C, L, Tg.
      split; [cbn [concat]; rewrite C; apply firstn_skipn|].
      split.
      { cbn [all_full]. destruct w'; [|split; assumption].
        cbn in C. rewrite <- (firstn_skipn p rest) in El at 1. rewrite <- C, app_nil_r in El.
        rewrite Hlen. lia. }
      assert (p <= length rest) as Hpl by (rewrite firstn_length in Hlen; lia).
      assert (length rest / p = S (length (skipn p rest) / p)) as Hdiv.
      { rewrite skipn_length. replace (length rest) with ((length rest - p) + 1 * p) at 1 by lia.
        rewrite Nat.div_add by lia. lia. }
      split; [rewrite Tg, Hdiv; f_equal; lia|]. split.
      { cbn [length seq]. f_equal. exact O. }
      cbn [length]. rewrite L, Hdiv. reflexivity.
Qed.

Lemma stream_loop_S f i env :
  sloop (S f) i (false :: env) =
  if lempty (blk file p i) then SDone [] (tag i) [i] [i]
  else if is_last p (blk file p i) then SDone [blk file p i] (tag i) [i] [i]
  else match sloop f (S i) env with
       | SDone w t o r => SDone (blk file p i :: w) t (i :: o) ([i] ++ r)
       | SEnv w => SEnv (blk file p i :: w)
       end.
Proof. reflexivity. Qed.

(* with enough fuel and an environment that answers, the loop does finish *)
Lemma stream_completes : forall n i,
  length (skipn (i * p) file) <= n ->
  exists w t offs reqs, sloop (S n) i (repeat false (S n)) = SDone w t offs reqs.
Proof.
  induction n as [|n IH]; intros i Hn.
  - change (repeat false 1) with [false]. rewrite stream_loop_S. change (blk file p i) with (firstn p (skipn (i * p) file)).
    assert (skipn (i * p) file = []) as -> by (destruct (skipn (i * p) file); [reflexivity|cbn in Hn; lia]).
    rewrite firstn_nil. cbn [lempty]. eauto.
  - change (repeat false (S (S n))) with (false :: repeat false (S n)). rewrite stream_loop_S. change (blk file p i) with (firstn p (skipn (i * p) file)).
    set (rest := skipn (i * p) file) in *.
    destruct (firstn p rest) as [|b0 d0] eqn:Ed; cbn [lempty]; [eauto|]. rewrite <- Ed.
    destruct (is_last p (firstn p rest)) eqn:El; [eauto|].
    unfold is_last in El. apply Nat.ltb_ge in El. rewrite firstn_length in El.
    destruct (IH (S i)) as (w & t & o & r & E).
    { replace (S i * p) with (i * p + p) by lia. rewrite skipn_add. fold rest. rewrite skipn_length. lia. }
    rewrite E. eauto.
Qed.
End Stream.

(* ---------- parallel ---------- *)

Lemma Permutation_filter {B} (f : B -> bool) : forall l l', Permutation l l' -> Permutation (filter f l) (filter f l').
Proof.
  induction 1; cbn.
  - constructor.
  - destruct (f x); [constructor|]; assumption.
  - destruct (f x), (f y); try reflexivity. apply perm_swap.
  - etransitivity; eassumption.
Qed.

Definition hl (w : wstate) : list nat := match w with WHold i => [i] | _ => [] end.
Definition il (w : wstate) : list nat := match w with WHold i | WSent i => [i] | _ => [] end.
Definition held (ws : list wstate) : list nat := flat_map hl ws.
Definition inflight (ws : list wstate) : list nat := flat_map il ws.

Lemma flat_set_nth (f : wstate -> list nat) : forall ws w x y,
  nth_error ws w = Some x -> Permutation (f x ++ flat_map f (set_nth w y ws)) (f y ++ flat_map f ws).
Proof.
  induction ws as [|a ws IH]; intros w x y H; [destruct w; discriminate|].
  destruct w as [|w]; cbn in H.
  - inversion H; subst. cbn [set_nth flat_map]. rewrite !app_assoc. apply Permutation_app_tail. apply Permutation_app_comm.
  - cbn [set_nth flat_map].
    specialize (IH w x y H).
    rewrite (Permutation_app_comm (f a)). rewrite app_assoc, IH, <- app_assoc.
    apply Permutation_app_head. apply Permutation_app_comm.
Qed.

Lemma set_nth_length {B} : forall (l : list B) i x, length (set_nth i x l) = length l.
Proof. induction l as [|a l IH]; intros [|i] x; cbn; auto. Qed.

Lemma set_nth_in {B} : forall (l : list B) i x a, In a (set_nth i x l) -> a = x \/ In a l.
Proof.
  induction l as [|b l IH]; intros [|i] x a H; cbn in *; auto.
  - destruct H as [->|H]; auto.
  - destruct H as [->|H]; auto. destruct (IH i x a H); auto.
Qed.

Lemma set_nth_has {B} : forall (l : list B) i x y, nth_error l i = Some y -> In x (set_nth i x l).
Proof.
  induction l as [|b l IH]; intros [|i] x y H; cbn in *; try discriminate; auto.
  right. eapply IH; exact H.
Qed.

Section Parallel.
Context {B T : Type}.
Variable file : list B.
Variable tag : nat -> T.
Variable p : nat.
Variable threads : nat.
Hypothesis Hp : 1 <= p.
Hypothesis Hthreads : 1 <= threads.

Notation size := (length file).
Notation blk := (blk file p).
Notation bempty := (fun i => lempty (blk i)).
Notation blast := (fun i => is_last p (blk i)).
Definition ne (i : nat) : bool := i * p <? size.

Lemma blk_length i : length (blk i) = Nat.min p (size - i * p).
Proof. unfold Download.blk, serve. rewrite firstn_length, skipn_length. reflexivity. Qed.

Lemma lempty_nil (c : list B) : lempty c = true <-> c = [].
Proof. destruct c; cbn; split; intros; congruence. Qed.

Lemma blk_nil i : blk i = [] <-> ne i = false.
Proof.
  unfold ne. rewrite Nat.ltb_ge. split.
  - intros H. pose proof (blk_length i) as L. rewrite H in L. cbn in L. lia.
  - intros H. apply length_zero_iff_nil. rewrite blk_length. lia.
Qed.

Lemma blk_last i : is_last p (blk i) = true <-> size < (i + 1) * p.
Proof. unfold is_last. rewrite Nat.ltb_lt, blk_length. lia. Qed.

(* a block is the file's bytes at its offset *)
Lemma blk_nth i j : j < length (blk i) -> nth_error (blk i) j = nth_error file (i * p + j).
Proof.
  intros H. rewrite blk_length in H. unfold Download.blk, serve.
  rewrite nth_error_firstn_lt by lia. apply nth_error_skipn.
Qed.

Record PInv (s : pstate T) : Prop := {
  v_len : length (p_workers s) = threads;
  v_perm : Permutation (filter ne (held (p_workers s)) ++ p_queue s ++ p_written s) (filter ne (seq 0 (p_next s)));
  v_held : Forall (fun i => i < p_next s) (inflight (p_workers s));
  v_ready : p_ready s = true -> exists j, j < p_next s /\ size < (j + 1) * p;
  v_exit : In WExit (p_workers s) -> p_ready s = true;
  v_typ : (p_ready s = true -> p_typ s <> None) /\
          (forall t, p_typ s = Some t -> exists j, j < p_next s /\ size < (j + 1) * p /\ t = tag j)
}.

Lemma nth_in_flat (f : wstate -> list nat) : forall ws w x i, nth_error ws w = Some x -> In i (f x) -> In i (flat_map f ws).
Proof.
  induction ws as [|a ws IH]; intros [|w] x i En Hi; cbn in *; try discriminate.
  - inversion En; subst. apply in_or_app; left; exact Hi.
  - apply in_or_app; right. eapply IH; eassumption.
Qed.

(* replacing worker w (in state x) by y: what the invariant needs about the two flat maps *)
Lemma swap_worker (s : pstate T) w x y :
  nth_error (p_workers s) w = Some x ->
  hl x = hl y -> (forall i, In i (il y) -> In i (il x)) ->
  Permutation (held (set_nth w y (p_workers s))) (held (p_workers s)) /\
  (forall n, Forall (fun i => i < n) (inflight (p_workers s)) -> Forall (fun i => i < n) (inflight (set_nth w y (p_workers s)))).
Proof.
  intros En Hh Hi. split.
  - pose proof (flat_set_nth hl _ _ _ y En) as Pm. rewrite Hh in Pm. eapply Permutation_app_inv_l; exact Pm.
  - intros n F. pose proof (flat_set_nth il _ _ _ y En) as Pm.
    assert (Forall (fun i => i < n) (il y ++ inflight (p_workers s))) as F2.
    { apply Forall_app; split; [|exact F]. rewrite Forall_forall in *. intros i Hy. apply F.
      eapply nth_in_flat; [exact En|apply Hi; exact Hy]. }
    eapply Permutation_Forall in F2; [|apply Permutation_sym; exact Pm]. apply Forall_app in F2. exact (proj2 F2).
Qed.

Theorem p_step_inv s e : PInv s -> PInv (p_step bempty blast tag threads s e).
Proof.
  intros I. destruct I as [Ilen Iperm Iheld Iready Iexit Ityp].
  assert (forall i, i < p_next s -> size < (i + 1) * p ->
            (match p_typ s with Some t => Some t | None => Some (tag i) end <> None) /\
            (forall t', match p_typ s with Some t => Some t | None => Some (tag i) end = Some t' ->
                        exists j, j < p_next s /\ size < (j + 1) * p /\ t' = tag j)) as Htyp.
  { intros i Hi1 Hi2. destruct (p_typ s) eqn:Et.
    - split; [discriminate|]. intros t' Ht. inversion Ht; subst. apply (proj2 Ityp). reflexivity.
    - split; [discriminate|]. intros t' Ht. inversion Ht; subst. exists i. auto. }
  destruct e as [w|w|w|w|w|]; cbn [p_step].
  - (* PCheck *)
    destruct (nth_error (p_workers s) w) as [[| |i|i|]|] eqn:En; try (constructor; assumption).
    destruct (p_ready s) eqn:Er.
    + destruct (swap_worker s w WIdle WExit En eq_refl ltac:(cbn; tauto)) as [Pm Fa].
      constructor; unfold p_set; cbn [p_next p_workers p_ready p_typ p_queue p_written]; rewrite ?Er; auto;
        try (rewrite set_nth_length; exact Ilen);
        try (rewrite (Permutation_filter ne _ _ Pm); exact Iperm).
    + destruct (swap_worker s w WIdle WGo En eq_refl ltac:(cbn; tauto)) as [Pm Fa].
      constructor; unfold p_set; cbn [p_next p_workers p_ready p_typ p_queue p_written]; rewrite ?Er; auto;
        try (rewrite set_nth_length; exact Ilen);
        try (rewrite (Permutation_filter ne _ _ Pm); exact Iperm);
        try (intros Hin; apply set_nth_in in Hin; destruct Hin as [Hin|Hin]; [discriminate|]; apply Iexit in Hin; congruence).
  - (* PAlloc *)
    destruct (nth_error (p_workers s) w) as [[| |i|i|]|] eqn:En; try (constructor; assumption).
    pose proof (flat_set_nth hl _ _ _ (WHold (p_next s)) En) as HS. cbn [hl app] in HS.
    pose proof (flat_set_nth il _ _ _ (WHold (p_next s)) En) as HI. cbn [il app] in HI.
    constructor; unfold p_set; cbn [p_next p_workers p_ready p_typ p_queue p_written].
    + rewrite set_nth_length; exact Ilen.
    + fold (held (set_nth w (WHold (p_next s)) (p_workers s))) in HS. fold (held (p_workers s)) in HS.
      rewrite (Permutation_filter ne _ _ HS). rewrite seq_S, filter_app. cbn [filter plus].
      destruct (ne (p_next s)); cbn [app].
      * rewrite Iperm. apply Permutation_cons_append.
      * rewrite app_nil_r. exact Iperm.
    + eapply Permutation_Forall; [apply Permutation_sym; exact HI|].
      constructor; [lia|]. eapply Forall_impl; [|exact Iheld]. intros; cbn in *; lia.
    + intros Hr. destruct (Iready Hr) as (j & Hj1 & Hj2). exists j. split; [lia|exact Hj2].
    + intros Hin. apply set_nth_in in Hin. destruct Hin as [Hin|Hin]; [discriminate|]. apply Iexit; exact Hin.
    + split; [exact (proj1 Ityp)|]. intros t Ht. destruct (proj2 Ityp t Ht) as (j & J1 & J2 & J3). exists j. split; [lia|auto].
  - constructor; assumption.
  - (* PSend *)
    destruct (nth_error (p_workers s) w) as [[| |i|i|]|] eqn:En; try (constructor; assumption).
    assert (i < p_next s) as Hlt.
    { rewrite Forall_forall in Iheld; apply Iheld. eapply (nth_in_flat il); [exact En|left; reflexivity]. }
    destruct (lempty (blk i)) eqn:Eb.
    + (* empty block: stop *)
      apply lempty_nil, blk_nil in Eb.
      pose proof (flat_set_nth hl _ _ _ WExit En) as HS. cbn [hl app] in HS.
      fold (held (set_nth w WExit (p_workers s))) in HS. fold (held (p_workers s)) in HS.
      pose proof (flat_set_nth il _ _ _ WExit En) as HI. cbn [il app] in HI.
      constructor; unfold p_stop; cbn [p_next p_workers p_ready p_typ p_queue p_written].
      * rewrite set_nth_length; exact Ilen.
      * rewrite <- Iperm. apply Permutation_app_tail.
        rewrite <- (Permutation_filter ne _ _ HS). cbn [filter]. rewrite Eb. reflexivity.
      * assert (Forall (fun j => j < p_next s) (i :: inflight (set_nth w WExit (p_workers s)))) as F
          by (eapply Permutation_Forall; [apply Permutation_sym; exact HI|exact Iheld]).
        inversion F; assumption.
      * intros _. exists i. split; [exact Hlt|]. unfold ne in Eb. apply Nat.ltb_ge in Eb. nia.
      * reflexivity.
      * assert (size < (i + 1) * p) as Hsz by (unfold ne in Eb; apply Nat.ltb_ge in Eb; nia).
        destruct (Htyp i Hlt Hsz) as [T1 T2]. split; [intros _; exact T1|exact T2].
    + assert (ne i = true) as Hne.
      { destruct (ne i) eqn:E; [reflexivity|]. apply blk_nil, lempty_nil in E. congruence. }
      destruct (length (p_queue s) <? threads) eqn:Eq; [|constructor; assumption].
      pose proof (flat_set_nth hl _ _ _ (WSent i) En) as HS. cbn [hl app] in HS.
      fold (held (set_nth w (WSent i) (p_workers s))) in HS. fold (held (p_workers s)) in HS.
      pose proof (flat_set_nth il _ _ _ (WSent i) En) as HI. cbn [il app] in HI.
      constructor; unfold p_set; cbn [p_next p_workers p_ready p_typ p_queue p_written].
      * rewrite set_nth_length; exact Ilen.
      * rewrite <- Iperm. rewrite <- (Permutation_filter ne _ _ HS). cbn [filter]. rewrite Hne.
        cbn [app].
        match goal with |- Permutation (?A ++ (?Q ++ [?x]) ++ ?W) _ =>
          replace (A ++ (Q ++ [x]) ++ W) with ((A ++ Q) ++ x :: W) by (rewrite <- !app_assoc; reflexivity) end.
        apply Permutation_sym, Permutation_cons_app. rewrite <- app_assoc. reflexivity.
      * apply Permutation_cons_inv in HI. eapply Permutation_Forall; [apply Permutation_sym; exact HI|exact Iheld].
      * exact Iready.
      * intros Hex. apply set_nth_in in Hex. destruct Hex as [Hex|Hex]; [discriminate|]. apply Iexit; exact Hex.
      * exact Ityp.
  - (* PAfter *)
    destruct (nth_error (p_workers s) w) as [[| |i|i|]|] eqn:En; try (constructor; assumption).
    assert (i < p_next s) as Hlt.
    { rewrite Forall_forall in Iheld; apply Iheld. eapply (nth_in_flat il); [exact En|left; reflexivity]. }
    destruct (is_last p (blk i)) eqn:El.
    + apply blk_last in El.
      destruct (swap_worker s w (WSent i) WExit En eq_refl ltac:(cbn; tauto)) as [Pm Fa].
      constructor; unfold p_stop; cbn [p_next p_workers p_ready p_typ p_queue p_written]; auto;
        try (rewrite set_nth_length; exact Ilen);
        try (rewrite (Permutation_filter ne _ _ Pm); exact Iperm);
        try (intros _; exists i; split; [exact Hlt|exact El]);
        try (destruct (Htyp i Hlt El) as [T1 T2]; split; [intros _; exact T1|exact T2]).
    + destruct (swap_worker s w (WSent i) WIdle En eq_refl ltac:(cbn; tauto)) as [Pm Fa].
      constructor; unfold p_set; cbn [p_next p_workers p_ready p_typ p_queue p_written]; auto;
        try (rewrite set_nth_length; exact Ilen);
        try (rewrite (Permutation_filter ne _ _ Pm); exact Iperm);
        try (intros Hex; apply set_nth_in in Hex; destruct Hex as [Hex|Hex]; [discriminate|]; apply Iexit; exact Hex).
  - (* PWrite *)
    destruct (p_queue s) as [|i q] eqn:Eq; [constructor; rewrite ?Eq; assumption|].
    constructor; cbn [p_next p_workers p_ready p_typ p_queue p_written]; auto.
    rewrite <- Iperm. apply Permutation_app_head. cbn [app].
    rewrite app_assoc. apply Permutation_sym. apply Permutation_cons_app. rewrite app_nil_r. reflexivity.
Qed.

Lemma held_idle n : held (repeat WIdle n) = [].
Proof. induction n; cbn; auto. Qed.
Lemma inflight_idle n : inflight (repeat WIdle n) = [].
Proof. induction n; cbn; auto. Qed.

Lemma p_init_inv : PInv (p_init T threads).
Proof.
  constructor; unfold p_init; cbn [p_next p_workers p_ready p_typ p_queue p_written]; rewrite ?held_idle, ?inflight_idle.
  - apply repeat_length.
  - constructor.
  - constructor.
  - discriminate.
  - intros H. apply repeat_spec in H. discriminate.
  - split; discriminate.
Qed.

Theorem p_run_inv evs : PInv (p_run bempty blast tag threads (p_init T threads) evs).
Proof.
  unfold p_run. generalize p_init_inv. generalize (p_init T threads).
  induction evs as [|e evs IH]; intros s I; [exact I|]. cbn [fold_left]. apply IH. apply p_step_inv; exact I.
Qed.

(* a list of WriteAt calls with genuine blocks, in any order *)
Definition apply_writes (l : list nat) : wbuf B :=
  fold_left (fun f i => write_at f (i * p) (blk i)) l wempty.

Lemma apply_writes_spec : forall l (f0 : wbuf B) x,
  fold_left (fun f i => write_at f (i * p) (blk i)) l f0 x =
  if existsb (fun i => (i * p <=? x) && (x <? i * p + length (blk i))) l then nth_error file x else f0 x.
Proof.
  induction l as [|i l IH]; intros f0 x; [reflexivity|].
  cbn [fold_left existsb]. rewrite IH. unfold write_at.
  destruct (existsb (fun i0 => (i0 * p <=? x) && (x <? i0 * p + length (blk i0))) l); [rewrite orb_true_r; reflexivity|].
  rewrite orb_false_r. destruct ((i * p <=? x) && (x <? i * p + length (blk i))) eqn:E; [|reflexivity].
  apply andb_true_iff in E. destruct E as [E1 E2]. apply Nat.leb_le in E1. apply Nat.ltb_lt in E2.
  rewrite blk_nth by lia. f_equal. lia.
Qed.

(* parallel(): when g.Wait() returns nil the WriteAt calls are exactly one per non-empty block
   (no duplicate, none missing), the resulting output is the file, the type is the served one *)
Theorem p_terminal_correct evs :
  let s := p_run bempty blast tag threads (p_init T threads) evs in
  p_terminal s = true ->
  NoDup (p_written s) /\ 
  (forall i, In i (p_written s) <-> i * p < size) /\ 
  (forall x, apply_writes (p_written s) x = nth_error file x) /\ 
  (exists j, j < p_next s /\ size < (j + 1) * p /\ p_typ s = Some (tag j)) /\ 
  (forall i, i * p <= size -> i < p_next s).
Proof.
  intros s Ht. pose proof (p_run_inv evs) as I. fold s in I.
  destruct I as [Ilen Iperm Iheld Iready Iexit Ityp].
  unfold p_terminal in Ht. apply andb_true_iff in Ht. destruct Ht as [Hall Hq].
  destruct (p_queue s) eqn:Eq; [|discriminate]. rewrite forallb_forall in Hall.
  assert (held (p_workers s) = []) as Hh.
  { clear -Hall. induction (p_workers s) as [|a ws IH]; [reflexivity|]. cbn.
    assert (a = WExit) as -> by (specialize (Hall a (or_introl eq_refl)); destruct a; try discriminate; reflexivity).
    cbn. apply IH. intros x Hx. apply Hall. right; exact Hx. }
  assert (p_ready s = true) as Hr.
  { apply Iexit. destruct (p_workers s) as [|a ws]; [cbn in Ilen; lia|].
    specialize (Hall a (or_introl eq_refl)). destruct a; try discriminate. left; reflexivity. }
  destruct (Iready Hr) as (j & Hj1 & Hj2). rewrite Hh in Iperm. cbn [filter app] in Iperm.
  assert (forall i, i * p <= size -> i < p_next s) as Hall2 by (intros i Hi; nia).
  assert (forall i, In i (p_written s) <-> i * p < size) as Hin.
  { intros i. split.
    - intros H. eapply Permutation_in in H; [|exact Iperm]. apply filter_In in H. destruct H as [_ H].
      unfold ne in H. apply Nat.ltb_lt in H. exact H.
    - intros H. eapply Permutation_in; [apply Permutation_sym; exact Iperm|]. apply filter_In. split.
      + apply in_seq. specialize (Hall2 i ltac:(lia)). lia.
      + unfold ne; apply Nat.ltb_lt; exact H. }
  split.
  { eapply Permutation_NoDup; [apply Permutation_sym; exact Iperm|]. apply NoDup_filter, seq_NoDup. }
  split; [exact Hin|]. split.
  { intros x. unfold apply_writes. rewrite apply_writes_spec. unfold wempty.
    destruct (existsb _ (p_written s)) eqn:Ex; [reflexivity|].
    destruct (nth_error file x) eqn:Enth; [|reflexivity]. exfalso.
    assert (x < size) as Hx by (apply nth_error_Some; congruence).
    pose proof (Nat.mul_div_le x p ltac:(lia)) as H1.
    pose proof (Nat.mul_succ_div_gt x p ltac:(lia)) as H2.
    assert (In (x / p) (p_written s)) as Hi by (apply Hin; lia).
    assert (existsb (fun i => (i * p <=? x) && (x <? i * p + length (blk i))) (p_written s) = true) as Ex'.
    { apply existsb_exists. exists (x / p). split; [exact Hi|].
      apply andb_true_iff; split; [apply Nat.leb_le; lia|apply Nat.ltb_lt; rewrite blk_length; lia]. }
    congruence. }
  split; [|exact Hall2].
  destruct (p_typ s) as [t|] eqn:Et; [|exfalso; apply (proj1 Ityp Hr); reflexivity].
  destruct (proj2 Ityp t eq_refl) as (j0 & J1 & J2 & J3). exists j0. split; [lia|]. split; [exact J2|]. rewrite J3; reflexivity.
Qed.
End Parallel.
