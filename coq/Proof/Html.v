(* Proofs about the HTML parser model (C37). *)
From Coq Require Import ZArith List Bool Lia String.
From TD Require Import Lib.GoSem Lib.Utf Lib.RunLib Model.EntitySort Model.Entity Proof.Entity Model.Html.
Import ListNotations.
Open Scope string_scope.
Open Scope Z_scope.
Notation length := List.length (only parsing).

(* ---------- telegramUnescape works in place: it never writes past what it has read ---------- *)
Lemma scan_num_bound hex l : forall x n, (n <= snd (scan_num hex x l n) <= n + length l)%nat.
Proof.
  induction l as [|c t IH]; intros x n; cbn [scan_num snd length]; [lia|].
  destruct (if hex then hex_val c else if is_dec c then Some (c - 48) else None).
  - specialize (IH (wrap32 ((if hex then 16 else 10) * x + z)) (S n)). lia.
  - destruct (c =? 59); cbn [snd]; lia.
Qed.
Lemma scan_name_bound l : forall n, (n <= scan_name l n <= n + length l)%nat.
Proof.
  induction l as [|c t IH]; intros n; cbn [scan_name length]; [lia|].
  destruct (is_alnum c); [specialize (IH (S n)); lia|]. destruct (c =? 59); lia.
Qed.
Lemma go_encode_rune_length r : (length (go_encode_rune r) <= 4)%nat.
Proof. unfold go_encode_rune; destruct (cp_validb r); apply utf8_enc_length. Qed.

Theorem unescape_entity_fits s : s <> [] ->
  let '(em, n) := unescape_entity s in (1 <= n <= length s)%nat /\ (length em <= n)%nat.
Proof.
  intros Hs. unfold unescape_entity.
  destruct s as [|c0 [|c1 t1]]; [contradiction|cbn; lia|].
  destruct (c1 =? 35).
  - destruct (length (c0 :: c1 :: t1) <=? 3)%nat eqn:E3; [cbn [length]; lia|].
    apply Nat.leb_gt in E3. destruct t1 as [|c2 t2]; [cbn [length]; lia|].
    set (hex := (c2 =? 120) || (c2 =? 88)).
    destruct (scan_num hex 0 (if hex then t2 else c2 :: t2) 0) as [x n] eqn:En.
    pose proof (scan_num_bound hex (if hex then t2 else c2 :: t2) 0 0) as Hb. rewrite En in Hb; cbn [snd] in Hb.
    destruct ((if hex then 3 else 2) + n <=? 3)%nat eqn:Ei; [cbn [length]; lia|].
    apply Nat.leb_gt in Ei.
    destruct ((x =? 0) || (x >=? 1114111)); [cbn [length]; lia|].
    pose proof (go_encode_rune_length x). cbn [length] in *. destruct hex; cbn [length] in *; lia.
  - pose proof (scan_name_bound (c1 :: t1) 0) as Hb. cbn [length] in Hb.
    set (i := (1 + scan_name (c1 :: t1) 0)%nat) in *.
    assert (1 <= i <= length (c0 :: c1 :: t1))%nat by (cbn [length]; lia).
    repeat match goal with |- context [if ?c then _ else _] => destruct c end;
      try (cbn [length] in *; lia).
    split; [assumption|]. rewrite firstn_length; lia.
Qed.

(* ---------- the parser only performs well-formed builder operations ---------- *)
Definition toks_ok (s : sstate) (ts : list tok) : Prop :=
  Forall (fun t => exists pre, is_prefix pre (s_text s) /\ t = tok_of pre) ts.
Definition stack_ok (s : sstate) (stk : list selem) : Prop := toks_ok s (map se_tok stk).

Lemma toks_ok_app s ts x : toks_ok s ts -> toks_ok (s_app s x) ts.
Proof.
  unfold toks_ok. intros H; eapply Forall_impl; [|exact H]. intros t [pre [Hp Ht]].
  exists pre; split; [apply is_prefix_grow; exact Hp|exact Ht].
Qed.
Lemma toks_ok_text s s' ts : s_text s' = s_text s -> toks_ok s ts -> toks_ok s' ts.
Proof. unfold toks_ok. intros E H; eapply Forall_impl; [|exact H]. intros t [pre [Hp Ht]]. exists pre; rewrite E; auto. Qed.

Lemma set_top_fmt_toks stk f : map se_tok (set_top_fmt stk f) = map se_tok stk.
Proof. destruct stk; reflexivity. Qed.

Lemma start_tag_shape utab st name hasattr attrs :
  h_b (start_tag utab st name hasattr attrs) = h_b st /\
  map se_tok (h_stack (start_tag utab st name hasattr attrs)) = b_token (h_b st) :: map se_tok (h_stack st).
Proof.
  unfold start_tag.
  repeat match goal with
         | |- context [if ?c then _ else _] => destruct c
         | |- context [match ?l with [] => _ | _ :: _ => _ end] => destruct l
         end; cbn [h_b h_stack map se_tok]; rewrite ?set_top_fmt_toks; split; reflexivity.
Qed.

Section Parser.
Variable utab : list (list Z * Z).
Variable stale : list tok.
Variable toks0 : list tok.

Definition hinv (st : hstate) (s : sstate) : Prop :=
  Rel stale (h_b st) toks0 s /\ stack_ok s (h_stack st).

Lemma start_tag_inv st s name hasattr attrs :
  hinv st s -> hinv (start_tag utab st name hasattr attrs) s.
Proof.
  intros [R Hs]. destruct (start_tag_shape utab st name hasattr attrs) as [Eb Et].
  split; [rewrite Eb; exact R|]. unfold stack_ok. rewrite Et. constructor; [|exact Hs].
  exists (s_text s); split; [exists []; rewrite app_nil_r; reflexivity|eapply rel_token; exact R].
Qed.

Lemma end_tag_inv st s name chk :
  hinv st s ->
  end_tag utab st name chk <> Panic /\
  forall st', end_tag utab st name chk = Ok st' -> exists s', hinv st' s'.
Proof.
  intros [R Hs]. unfold end_tag. destruct (h_stack st) as [|e rest] eqn:Estk; [split; [discriminate|discriminate]|].
  destruct (chk && negb (beq (se_tag e) name)); [split; discriminate|].
  unfold stack_ok in Hs. cbn [map] in Hs. inversion Hs as [|? ? [pre [Hpre Htok]] Hrest]; subst.
  set (b := h_b st) in *.
  assert (hinv (with_hb st b rest) s) as Hdone by (split; [exact R|exact Hrest]).
  assert (forall t, exists s', hinv (with_hb st (b_apply b (se_tok e) [t]) rest) s') as Happly.
  { intros t. eexists. split; cbn [with_hb h_b h_stack].
    - rewrite Htok. apply rel_apply_tok; [exact R|exact Hpre].
    - eapply toks_ok_text; [|exact Hrest]. reflexivity. }
  assert (forall f,
    match f with
    | Some t => if b_u16 b - t_u16 (se_tok e) =? 0 then Ok (with_hb st b rest)
                else Ok (with_hb st (b_apply b (se_tok e) [t]) rest)
    | None => @Ok unit hstate (with_hb st b rest)
    end <> Panic /\
    forall st', match f with
    | Some t => if b_u16 b - t_u16 (se_tok e) =? 0 then Ok (with_hb st b rest)
                else Ok (with_hb st (b_apply b (se_tok e) [t]) rest)
    | None => @Ok unit hstate (with_hb st b rest)
    end = Ok st' -> exists s', hinv st' s') as Hfin.
  { intros [t|]; [destruct (b_u16 b - t_u16 (se_tok e) =? 0)|]; (split; [discriminate|]); intros st' H; inversion H; subst;
      [exists s; exact Hdone|apply Happly|exists s; exact Hdone]. }
  destruct (is_str (se_tag e) "a").
  - destruct (beq (se_attr e) []); [|apply Hfin].
    destruct Hpre as [rst Hrst].
    assert (go_slice (b_msg b) (t_u8 (se_tok e)) (len (b_msg b)) = @Ok unit _ (utf8_encode rst)) as ->.
    { rewrite Htok, (r_msg _ _ _ _ R), Hrst, utf8_encode_app. cbn [tok_of t_u8]. apply go_slice_suffix. }
    cbn [bind]. destruct (url_fmt utab (utf8_encode rst)) as [z|]; [apply (Hfin (Some z))|apply Hfin].
  - destruct (is_str (se_tag e) "code"); [|apply Hfin].
    destruct (rev (b_ents b)) as [|l ?]; [apply Hfin|].
    destruct ((kind (e_tag l) =? KPre) && (e_off l =? t_u16 (se_tok e)) && (e_len l =? b_u16 b - t_u16 (se_tok e)));
      [|apply Hfin].
    split; [discriminate|]. intros st' H; inversion H; subst. exists s; exact Hdone.
Qed.

Lemma parse_inv disable toks : forall st s,
  hinv st s ->
  parse disable utab st toks <> Panic /\
  forall st', parse disable utab st toks = Ok st' -> exists s', hinv st' s'.
Proof.
  induction toks as [|t toks IH]; intros st s H; cbn [parse].
  - split; [discriminate|]. intros st' E; inversion E; subst; exists s; exact H.
  - destruct t as [raw txt|name hasattr attrs|name|raw| |eof].
    + set (text := if disable then txt else telegram_unescape raw).
      destruct (utf8_validb text) eqn:V; [|split; discriminate].
      apply utf8_validb_sound in V. destruct V as [cps [Hc ->]].
      apply (IH _ (s_app s cps)). destruct H as [R Hs]. split; cbn [with_hb h_b h_stack].
      * apply rel_write_valid; assumption.
      * apply toks_ok_app; exact Hs.
    + apply (IH _ s), start_tag_inv, H.
    + destruct (end_tag_inv st s name true H) as [Hnp Hok].
      destruct (end_tag utab st name true) as [st1|e|]; cbn [bind]; [|split; discriminate|contradiction].
      destruct (Hok st1 eq_refl) as [s1 H1]. apply (IH _ s1 H1).
    + destruct (is_empty_close raw); [|apply (IH _ s H)].
      destruct (end_tag_inv st s [] false H) as [Hnp Hok].
      destruct (end_tag utab st [] false) as [st1|e|]; cbn [bind]; [|split; discriminate|contradiction].
      destruct (Hok st1 eq_refl) as [s1 H1]. apply (IH _ s1 H1).
    + apply (IH _ s H).
    + destruct eof; [|split; discriminate]. split; [discriminate|]. intros st' E; inversion E; subst; exists s; exact H.
Qed.

Theorem html_complete_safe disable b s toks :
  Rel stale b toks0 s ->
  html_complete disable utab b toks <> Panic /\
  forall text es, html_complete disable utab b toks = Ok (text, es) -> Forall (within_text text) es.
Proof.
  intros R. unfold html_complete, html_on.
  assert (hinv {| h_b := b; h_stack := []; h_attr := [] |} s) as H0 by (split; [exact R|constructor]).
  destruct (parse_inv disable toks _ _ H0) as [Hnp Hok].
  destruct (parse disable utab {| h_b := b; h_stack := []; h_attr := [] |} toks) as [st|e|]; cbn [bind];
    [|split; discriminate|contradiction].
  destruct (Hok st eq_refl) as [s' [R' _]].
  destruct (complete_within _ _ _ _ (rel_shrink _ _ _ _ R')) as [text [es [E Hw]]].
  rewrite E. split; [discriminate|]. intros text' es' Heq; inversion Heq; subst. exact Hw.
Qed.
End Parser.

Theorem html_from_init disable utab toks :
  html_complete disable utab b_init toks <> Panic /\
  forall text es, html_complete disable utab b_init toks = Ok (text, es) -> Forall (within_text text) es.
Proof. apply (html_complete_safe utab [] [] disable b_init s_init toks). apply (rel_init m_init fresh_init). Qed.

Theorem html_after_build disable utab toks m ops :
  fresh (m_b m) -> build_ok s_init ops ->
  let b := m_b (fst (exec m (map (enc_uop (length (m_toks m))) ops))) in
  html_complete disable utab b toks <> Panic /\
  forall text es, html_complete disable utab b toks = Ok (text, es) -> Forall (within_text text) es.
Proof.
  intros Hf Hok. destruct (exec_rel (m_toks m) ops m s_init (rel_init m Hf) Hok) as [m1 [E1 R1]].
  cbn zeta. rewrite E1. cbn [fst]. eapply html_complete_safe; exact R1.
Qed.

(* the returned text is valid UTF-8 and the bound is the UTF-16 length of its code points *)
Theorem html_within_unicode disable utab toks text es :
  html_complete disable utab b_init toks = Ok (text, es) ->
  exists cps, Forall cp_valid cps /\ text = utf8_encode cps /\
    Forall (fun e => 0 <= e_off e /\ 0 <= e_len e /\ e_off e + e_len e <= u16c cps) es.
Proof.
  unfold html_complete, html_on.
  assert (hinv [] [] {| h_b := b_init; h_stack := []; h_attr := [] |} s_init) as H0
    by (split; [apply (rel_init m_init fresh_init)|constructor]).
  destruct (parse_inv utab [] [] disable toks _ _ H0) as [Hnp Hok].
  destruct (parse disable utab {| h_b := b_init; h_stack := []; h_attr := [] |} toks) as [st|e|]; cbn [bind];
    [|discriminate|contradiction].
  destruct (Hok st eq_refl) as [s' [R' _]].
  destruct (complete_within_unicode _ _ _ _ (rel_shrink _ _ _ _ R')) as [cps [es' [Hv [E Hw]]]].
  rewrite E. intros Heq; inversion Heq; subst. exists cps; auto.
Qed.
