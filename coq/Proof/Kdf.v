(* Proofs for C06: the Go-shaped key derivation of Model/MsgCrypto.v equals the
   specification text transcribed in Model/MTProtoSpec.v; the special binding message
   decrypts (receiver's view written from the specification) to the bound fields. *)
From Coq Require Import ZArith List Bool Lia.
From TD Require Import Lib.Bytes Lib.GoSem Gen.CipherConsts Model.MsgCrypto Model.MTProtoSpec Proof.MsgCrypto.
Import ListNotations.
Open Scope Z_scope.

(* encrypting side -> direction of the message *)
Definition dir_of (s : side) : Spec.direction :=
  match s with Client => Spec.ClientToServer | Server => Spec.ServerToClient end.
Definition xdir (s : side) : nat := Spec.x_of_dir (dir_of s).

(* turn [H : length l = n] (n a literal) into l = [x0; ...; x(n-1)] *)
Ltac explode l H :=
  repeat (destruct l as [|? l]; [simpl in H; discriminate H|]);
  destruct l; [|simpl in H; discriminate H]; clear H.

Section Kdf2.
  Variable sha256 : list Z -> list Z.
  Hypothesis sha256_len : forall m, length (sha256 m) = 32%nat.

  Theorem message_key_eq_spec key pt s :
    message_key sha256 key pt s = Spec.msg_key sha256 key pt (xdir s).
  Proof.
    unfold message_key, msg_key_large, Spec.msg_key, Spec.msg_key_large, message_key_of_large.
    assert (gslice key (88 + x_of s) (32 + 88 + x_of s) = Spec.substr key (88 + xdir s) 32) as ->
      by (destruct s; reflexivity).
    remember (sha256 (Spec.substr key (88 + xdir s) 32 ++ pt)) as h eqn:E.
    assert (length h = 32%nat) as L by (subst h; apply sha256_len). clear E.
    explode h L. reflexivity.
  Qed.

  Theorem keys_eq_spec key mk s :
    keys sha256 key mk s = (Spec.aes_key sha256 key mk (xdir s), Spec.aes_iv sha256 key mk (xdir s)).
  Proof.
    unfold keys, Spec.aes_key, Spec.aes_iv, sha256a, sha256b, Spec.sha256_a, Spec.sha256_b.
    assert (gslice key (x_of s) (x_of s + 36) = Spec.substr key (xdir s) 36) as -> by (destruct s; reflexivity).
    assert (gslice key (40 + x_of s) (40 + x_of s + 36) = Spec.substr key (40 + xdir s) 36) as ->
      by (destruct s; reflexivity).
    remember (sha256 (mk ++ Spec.substr key (xdir s) 36)) as a eqn:Ea.
    remember (sha256 (Spec.substr key (40 + xdir s) 36 ++ mk)) as b eqn:Eb.
    assert (length a = 32%nat) as La by (subst a; apply sha256_len).
    assert (length b = 32%nat) as Lb by (subst b; apply sha256_len).
    clear Ea Eb. explode a La. explode b Lb. reflexivity.
  Qed.
End Kdf2.

(* the specification's IGE pass equals the model of github.com/gotd/ige DecryptBlocks *)
Lemma spec_xor_eq a b : Spec.xor a b = xor_bytes a b.
Proof. revert b; induction a as [|x a IH]; intros [|y b]; cbn; try reflexivity. unfold Spec.xor in IH. rewrite IH. reflexivity. Qed.
Lemma spec_ige_fold D bs : forall c m out,
  snd (fold_left (Spec.ige_step D) bs (c, m, out)) = out ++ concat (ige_dec_blocks D c m bs).
Proof.
  induction bs as [|y t IH]; intros c m out; cbn [fold_left ige_dec_blocks concat].
  - cbn. rewrite app_nil_r. reflexivity.
  - unfold Spec.ige_step at 2. rewrite IH, !spec_xor_eq, app_assoc. reflexivity.
Qed.
Lemma spec_ige_eq D iv data : Spec.ige_decrypt D iv data = ige_dec_raw D iv data.
Proof. unfold Spec.ige_decrypt, ige_dec_raw, Spec.substr. cbn [skipn]. apply spec_ige_fold. Qed.

Section Kdf1.
  Variable sha1 : list Z -> list Z.
  Hypothesis sha1_len : forall m, length (sha1 m) = 20%nat.

  Theorem message_key_v1_eq_spec pt : message_key_v1 sha1 pt = Spec.msg_key_v1 sha1 pt.
  Proof.
    unfold message_key_v1, Spec.msg_key_v1.
    remember (sha1 pt) as h eqn:E. assert (length h = 20%nat) as L by (subst h; apply sha1_len). clear E.
    explode h L. reflexivity.
  Qed.

  Lemma v1_keys_generic key mk (x : Z) (xn : nat) :
    gslice key x (x + 32) = Spec.substr key xn 32 ->
    gslice key (32 + x) (32 + x + 16) = Spec.substr key (32 + xn) 16 ->
    gslice key (48 + x) (48 + x + 16) = Spec.substr key (48 + xn) 16 ->
    gslice key (64 + x) (64 + x + 32) = Spec.substr key (64 + xn) 32 ->
    gslice key (96 + x) (96 + x + 32) = Spec.substr key (96 + xn) 32 ->
    (aes_key_v1_go (sha1a sha1 key mk x) (sha1b sha1 key mk x) (sha1c sha1 key mk x),
     aes_iv_v1_go (sha1a sha1 key mk x) (sha1b sha1 key mk x) (sha1c sha1 key mk x) (sha1d sha1 key mk x))
    = (Spec.aes_key_v1 sha1 key mk xn, Spec.aes_iv_v1 sha1 key mk xn).
  Proof.
    intros E1 E2 E3 E4 E5.
    unfold sha1a, sha1b, sha1c, sha1d, Spec.aes_key_v1, Spec.aes_iv_v1, Spec.sha1_a, Spec.sha1_b, Spec.sha1_c, Spec.sha1_d.
    rewrite E1, E2, E3, E4, E5.
    remember (sha1 (mk ++ Spec.substr key xn 32)) as a eqn:Ea.
    remember (sha1 (Spec.substr key (32 + xn) 16 ++ mk ++ Spec.substr key (48 + xn) 16)) as b eqn:Eb.
    remember (sha1 (Spec.substr key (64 + xn) 32 ++ mk)) as c eqn:Ec.
    remember (sha1 (mk ++ Spec.substr key (96 + xn) 32)) as d eqn:Ed.
    assert (length a = 20%nat) as La by (subst a; apply sha1_len).
    assert (length b = 20%nat) as Lb by (subst b; apply sha1_len).
    assert (length c = 20%nat) as Lc by (subst c; apply sha1_len).
    assert (length d = 20%nat) as Ld by (subst d; apply sha1_len).
    clear Ea Eb Ec Ed. explode a La. explode b Lb. explode c Lc. explode d Ld. reflexivity.
  Qed.

  Theorem keys_v1_eq_spec key mk :
    keys_v1 sha1 key mk = (Spec.aes_key_v1 sha1 key mk 0, Spec.aes_iv_v1 sha1 key mk 0).
  Proof. unfold keys_v1. apply v1_keys_generic; reflexivity. Qed.

  Theorem old_keys_eq_spec key mk s :
    old_keys sha1 key mk s = (Spec.aes_key_v1 sha1 key mk (xdir s), Spec.aes_iv_v1 sha1 key mk (xdir s)).
  Proof. unfold old_keys. apply v1_keys_generic; destruct s; reflexivity. Qed.

  Lemma spec_iv_v1_length key mk x : length (Spec.aes_iv_v1 sha1 key mk x) = 32%nat.
  Proof.
    unfold Spec.aes_iv_v1, Spec.substr. rewrite !app_length, !firstn_length, !skipn_length.
    unfold Spec.sha1_a, Spec.sha1_b, Spec.sha1_c, Spec.sha1_d. rewrite !sha1_len. reflexivity.
  Qed.
  Lemma spec_msg_key_v1_length pt : length (Spec.msg_key_v1 sha1 pt) = 16%nat.
  Proof. unfold Spec.msg_key_v1, Spec.substr. rewrite firstn_length, skipn_length, sha1_len. reflexivity. Qed.

  (* ---- the binding message ---- *)
  Variables aes_enc aes_dec : list Z -> list Z -> list Z.
  Hypothesis Haes : aes_inverse aes_enc aes_dec.

  Lemma encode_bind_inner_length b : length (encode_bind_inner b) = 40%nat.
  Proof. unfold encode_bind_inner. rewrite !app_length, !le_enc_length. reflexivity. Qed.

  Lemma s64_at l pre v rest off :
    l = pre ++ le_enc 8 v ++ rest -> length pre = off -> - 2 ^ 63 <= v < 2 ^ 63 -> Spec.s64 l off = v.
  Proof. exact (get_i64_at l pre v rest off). Qed.
  Lemma s32_at l pre v rest off :
    l = pre ++ le_enc 4 v ++ rest -> length pre = off -> - 2 ^ 31 <= v < 2 ^ 31 -> Spec.s32 l off = v.
  Proof. exact (get_i32_at l pre v rest off). Qed.

  Theorem bind_decrypts rnd k msg_id b :
    length (ak_id k) = 8%nat -> authkey_zero k = false -> (24 <= length rnd)%nat ->
    - 2 ^ 63 <= msg_id < 2 ^ 63 -> bind_inner_ok b ->
    exists ct,
      encrypt_bind sha1 aes_enc rnd k msg_id b = Ok ct /\ length ct = 104%nat /\
      Spec.open_bind sha1 aes_dec (ak_value k) (ak_id k) ct =
      Ok {| Spec.bd_msg_id := msg_id; Spec.bd_seq_no := 0; Spec.bd_nonce := b_nonce b;
            Spec.bd_temp_key_id := b_temp_key_id b; Spec.bd_perm_key_id := b_perm_key_id b;
            Spec.bd_temp_session := b_temp_session b; Spec.bd_expires := b_expires b |}.
  Proof.
    intros Hk Hz Hr Hm (B1 & B2 & B3 & B4 & B5).
    unfold encrypt_bind. rewrite Hz.
    destruct (Z.ltb_spec (Z.of_nat (length rnd)) 16); [lia|].
    pose proof (encode_bind_inner_length b) as Lp.
    set (payload := encode_bind_inner b) in *.
    set (random := firstn 16 rnd). set (rnd' := skipn 16 rnd).
    assert (length random = 16%nat) as Lr by (unfold random; rewrite firstn_length; lia).
    assert (8 <= length rnd')%nat as Lr' by (unfold rnd'; rewrite skipn_length; lia).
    rewrite Lp. change (Z.of_nat 40) with 40.
    set (pt := random ++ le_enc 8 msg_id ++ le_enc 4 0 ++ le_enc 4 40 ++ payload).
    assert (length pt = 72%nat) as Lpt by (unfold pt; rewrite !app_length, !le_enc_length, Lr, Lp; reflexivity).
    rewrite Lpt. change (Z.rem (Z.of_nat 72) 16) with 8. cbn [Z.eqb negb].
    change (16 - 8) with 8.
    destruct (Z.ltb_spec (Z.of_nat (length rnd')) 8); [lia|]. cbn [bind].
    change (Z.to_nat 8) with 8%nat.
    set (pad := firstn 8 rnd').
    assert (length pad = 8%nat) as Lpad by (unfold pad; rewrite firstn_length; lia).
    set (padded := pt ++ pad).
    assert (length padded = (16 * 5)%nat) as Lpd by (unfold padded; rewrite app_length, Lpt, Lpad; reflexivity).
    rewrite keys_v1_eq_spec, message_key_v1_eq_spec.
    set (mk := Spec.msg_key_v1 sha1 pt).
    pose proof (spec_msg_key_v1_length pt) as Lmk. fold mk in Lmk.
    set (key := Spec.aes_key_v1 sha1 (ak_value k) mk 0).
    set (iv := Spec.aes_iv_v1 sha1 (ak_value k) mk 0).
    pose proof (spec_iv_v1_length (ak_value k) mk 0) as Liv. fold iv in Liv.
    unfold ige_enc. rewrite (ige_guard_true iv padded 5 Liv Lpd). cbn [bind].
    assert (forall x, length x = 16%nat -> aes_dec key (aes_enc key x) = x) as gf by (intros x Hx; apply Haes, Hx).
    assert (forall x, length x = 16%nat -> length (aes_enc key x) = 16%nat) as flen by (intros x Hx; apply Haes, Hx).
    pose proof (ige_enc_raw_length (aes_enc key) flen iv padded 5 Liv Lpd) as Lct.
    set (data := ige_enc_raw (aes_enc key) iv padded) in *.
    eexists. split; [reflexivity|]. split.
    { rewrite !app_length, Hk, Lmk, Lct, Lpd. reflexivity. }
    unfold Spec.open_bind.
    assert (length (ak_id k ++ mk ++ data) = 104%nat) as Lall by (rewrite !app_length, Hk, Lmk, Lct, Lpd; reflexivity).
    rewrite Lall. change (104 <? 24 + 32)%nat with false. cbv iota.
    assert (Spec.substr (ak_id k ++ mk ++ data) 0 8 = ak_id k) as -> by (apply firstn_app_len; exact Hk).
    assert (Spec.substr (ak_id k ++ mk ++ data) 8 16 = mk) as ->.
    { unfold Spec.substr. rewrite (skipn_app_len 8 (ak_id k)) by exact Hk. apply firstn_app_len; exact Lmk. }
    assert (skipn 24 (ak_id k ++ mk ++ data) = data) as ->.
    { rewrite app_assoc. apply skipn_app_len. rewrite app_length, Hk, Lmk. reflexivity. }
    rewrite bytes_eqb_refl. cbn [negb].
    rewrite Lct, Lpd. change (Nat.eqb ((16 * 5) mod 16) 0) with true. cbn [negb].
    fold key iv. unfold data. rewrite spec_ige_eq.
    rewrite (ige_raw_dec_enc (aes_enc key) (aes_dec key) gf flen iv padded 5 Liv Lpd).
    assert (Spec.s32 padded 28 = 40) as ->.
    { apply (s32_at padded (random ++ le_enc 8 msg_id ++ le_enc 4 0) 40 (payload ++ pad)).
      - unfold padded, pt. rewrite <- !app_assoc. reflexivity.
      - rewrite !app_length, !le_enc_length, Lr. reflexivity.
      - lia. }
    rewrite Lpd. change ((40 <? 0) || (Z.of_nat (16 * 5) - 32 <? 40) || (15 <? Z.of_nat (16 * 5) - 32 - 40)) with false.
    cbv iota. change (32 + Z.to_nat 40)%nat with 72%nat.
    assert (firstn 72 padded = pt) as -> by (apply firstn_app_len; exact Lpt).
    fold mk. rewrite bytes_eqb_refl. cbn [negb].
    assert (skipn 32 pt = payload) as ->.
    { unfold pt. rewrite !app_assoc. apply skipn_app_len. rewrite !app_length, !le_enc_length, Lr. reflexivity. }
    assert (Spec.u_le payload 0 4 = 0x75a3f765) as ->.
    { unfold Spec.u_le, Spec.substr, payload, encode_bind_inner. cbn [skipn].
      rewrite firstn_le_enc_app, le_dec_enc_mod. reflexivity. }
    change ((40 =? 40) && (0x75a3f765 =? 0x75a3f765)) with true. cbn [negb].
    f_equal. f_equal.
    - apply (s64_at padded random msg_id (le_enc 4 0 ++ le_enc 4 40 ++ payload ++ pad));
        [unfold padded, pt; rewrite <- !app_assoc; reflexivity|exact Lr|exact Hm].
    - apply (s32_at padded (random ++ le_enc 8 msg_id) 0 (le_enc 4 40 ++ payload ++ pad));
        [unfold padded, pt; rewrite <- !app_assoc; reflexivity|rewrite app_length, le_enc_length, Lr; reflexivity|lia].
    - apply (s64_at payload (le_enc 4 c_BindAuthKeyInnerTypeID) (b_nonce b)
                    (le_enc 8 (b_temp_key_id b) ++ le_enc 8 (b_perm_key_id b) ++ le_enc 8 (b_temp_session b) ++ le_enc 4 (b_expires b)));
        [reflexivity|reflexivity|exact B1].
    - apply (s64_at payload (le_enc 4 c_BindAuthKeyInnerTypeID ++ le_enc 8 (b_nonce b)) (b_temp_key_id b)
                    (le_enc 8 (b_perm_key_id b) ++ le_enc 8 (b_temp_session b) ++ le_enc 4 (b_expires b)));
        [unfold payload, encode_bind_inner; rewrite <- !app_assoc; reflexivity|reflexivity|exact B2].
    - apply (s64_at payload (le_enc 4 c_BindAuthKeyInnerTypeID ++ le_enc 8 (b_nonce b) ++ le_enc 8 (b_temp_key_id b)) (b_perm_key_id b)
                    (le_enc 8 (b_temp_session b) ++ le_enc 4 (b_expires b)));
        [unfold payload, encode_bind_inner; rewrite <- !app_assoc; reflexivity|reflexivity|exact B3].
    - apply (s64_at payload (le_enc 4 c_BindAuthKeyInnerTypeID ++ le_enc 8 (b_nonce b) ++ le_enc 8 (b_temp_key_id b) ++ le_enc 8 (b_perm_key_id b))
                    (b_temp_session b) (le_enc 4 (b_expires b)));
        [unfold payload, encode_bind_inner; rewrite <- !app_assoc; reflexivity|reflexivity|exact B4].
    - apply (s32_at payload (le_enc 4 c_BindAuthKeyInnerTypeID ++ le_enc 8 (b_nonce b) ++ le_enc 8 (b_temp_key_id b) ++ le_enc 8 (b_perm_key_id b) ++ le_enc 8 (b_temp_session b))
                    (b_expires b) []);
        [unfold payload, encode_bind_inner; rewrite <- !app_assoc, app_nil_r; reflexivity|reflexivity|exact B5].
  Qed.
End Kdf1.
