(* Proofs about Model/ExchangeAnswer.v (C11). *)
From Coq Require Import ZArith List Bool Lia.
From TD Require Import Lib.GoSem Lib.RunLib Gen.DataWithHash Model.ExchangeAnswer.
Import ListNotations.
Open Scope Z_scope.

Lemma zlist_eqb_eq a b : zlist_eqb a b = true <-> a = b.
Proof.
  unfold zlist_eqb; revert b; induction a as [|x a IH]; intros [|y b]; cbn; split; intro H;
    try reflexivity; try discriminate.
  - apply andb_true_iff in H as [H1 H2]. apply Z.eqb_eq in H1. apply IH in H2. subst; reflexivity.
  - injection H as -> ->. rewrite Z.eqb_refl. apply IH. reflexivity.
Qed.

(* ---------- paddedLen16 (generated) ---------- *)
Lemma padded_len16_spec l : 0 <= l ->
  l <= padded_len16 l < l + 16 /\ padded_len16 l mod 16 = 0.
Proof.
  intros Hl. unfold padded_len16.
  rewrite Z.quot_div_nonneg by lia.
  pose proof (Z.div_mod l 16 ltac:(lia)) as Hdm.
  pose proof (Z.mod_pos_bound l 16 ltac:(lia)) as Hb.
  destruct (Z.ltb_spec (16 * (l / 16)) l) as [H|H].
  - split; [lia|]. replace (16 * (l / 16) + 16) with ((l / 16 + 1) * 16) by lia. apply Z_mod_mult.
  - split; [lia|]. rewrite Z.mul_comm. apply Z_mod_mult.
Qed.

Section AnswerProofs.
  Variable sha1 : list Z -> list Z.
  Variable ige_dec ige_enc : list Z -> list Z -> list Z -> list Z.

  Notation cand := ExchangeAnswer.cand.
  Notation guess_loop := (guess_loop sha1).
  Notation guess := (guess_data_with_hash sha1).
  Notation decrypt := (decrypt_answer sha1 ige_dec).

  (* soundness + minimality of the search *)
  Lemma guess_loop_some n : forall i dwh v d,
    guess_loop n i dwh v = Some d ->
    exists j, (i <= j < i + n)%nat /\ (sha1_size + j <= length dwh)%nat /\
              d = cand dwh j /\ sha1 d = v /\
              forall j', (i <= j' < j)%nat -> sha1 (cand dwh j') <> v.
  Proof.
    induction n as [|n IH]; intros i dwh v d H; cbn [ExchangeAnswer.guess_loop] in H; [discriminate|].
    destruct (Nat.ltb_spec (length dwh - i) sha1_size) as [Hl|Hl]; [discriminate|].
    destruct (zlist_eqb (sha1 (cand dwh i)) v) eqn:E.
    - injection H as <-. apply zlist_eqb_eq in E.
      exists i. split; [lia|]. split; [unfold sha1_size in *; lia|]. split; [reflexivity|]. split; [exact E|].
      intros j' Hj'; lia.
    - apply IH in H as (j & Hj & Hlen & Hd & Hs & Hmin).
      exists j. split; [lia|]. split; [exact Hlen|]. split; [exact Hd|]. split; [exact Hs|].
      intros j' Hj'. destruct (Nat.eq_dec j' i) as [->|Hne].
      + intro Hc. apply zlist_eqb_eq in Hc. congruence.
      + apply Hmin; lia.
  Qed.

  (* completeness: None means no candidate inside the window and inside the slice matches *)
  Lemma guess_loop_none n : forall i dwh v,
    guess_loop n i dwh v = None ->
    forall j, (i <= j < i + n)%nat -> (sha1_size + j <= length dwh)%nat -> sha1 (cand dwh j) <> v.
  Proof.
    induction n as [|n IH]; intros i dwh v H j Hj Hlen; [lia|].
    cbn [ExchangeAnswer.guess_loop] in H.
    destruct (Nat.ltb_spec (length dwh - i) sha1_size) as [Hl|Hl]; [unfold sha1_size in *; lia|].
    destruct (zlist_eqb (sha1 (cand dwh i)) v) eqn:E; [discriminate|].
    destruct (Nat.eq_dec j i) as [->|Hne].
    - intro Hc. apply zlist_eqb_eq in Hc. congruence.
    - eapply IH; eauto; lia.
  Qed.

  Definition matches (p : list Z) (j : nat) : Prop :=
    (j < 16)%nat /\ (sha1_size + j <= length p)%nat /\ sha1 (cand p j) = firstn sha1_size p.

  Lemma guess_some p d : guess p = Some d ->
    exists j, matches p j /\ d = cand p j /\ forall j', (j' < j)%nat -> ~ matches p j'.
  Proof.
    unfold guess_data_with_hash. destruct (Nat.leb_spec (length p) sha1_size); [discriminate|].
    intros Hg. apply guess_loop_some in Hg as (j & Hj & Hlen & Hd & Hs & Hmin).
    exists j. split; [|split].
    - unfold matches. subst d. repeat split; auto; lia.
    - exact Hd.
    - intros j' Hj' (_ & _ & Hm). exact (Hmin j' ltac:(lia) Hm).
  Qed.

  Lemma guess_none p : guess p = None -> forall j, ~ (matches p j /\ (sha1_size < length p)%nat).
  Proof.
    unfold guess_data_with_hash. destruct (Nat.leb_spec (length p) sha1_size) as [Hs|Hs].
    - intros _ j (_ & Hl). lia.
    - intros Hg j ((Hj & Hlen & Hm) & _). exact (guess_loop_none _ _ _ _ Hg j ltac:(lia) Hlen Hm).
  Qed.

  (* ---------- C11: the acceptance characterisation, for ALL inputs ---------- *)
  Theorem decrypt_ok_or_err data key iv :
    match decrypt data key iv with
    | Ok d =>
        let p := ige_dec key iv data in
        d <> [] /\
        exists i, (i < 16)%nat /\ (sha1_size + length d + i = length p)%nat /\
                  d = cand p i /\ sha1 d = firstn sha1_size p
    | Err _ => True
    | Panic => length iv <> 32%nat
    end.
  Proof.
    unfold decrypt_answer.
    destruct (aes_key_ok key); cbn [negb]; [|exact I].
    destruct (Z.of_nat (length data) mod 16 =? 0); cbn [negb]; [|exact I].
    destruct (Nat.eqb_spec (length iv) 32) as [Hiv|Hiv]; cbn [negb]; [|exact Hiv].
    destruct (guess (ige_dec key iv data)) as [[|x t]|] eqn:G; try exact I.
    apply guess_some in G as (j & (Hj & Hlen & Hm) & Hd & _).
    cbn zeta. split; [discriminate|].
    exists j. split; [exact Hj|]. split; [|split].
    - rewrite Hd. unfold ExchangeAnswer.cand. rewrite firstn_length, skipn_length. unfold sha1_size in *. lia.
    - exact Hd.
    - rewrite Hd. exact Hm.
  Qed.

  Theorem decrypt_no_panic data key iv : length iv = 32%nat -> decrypt data key iv <> Panic.
  Proof.
    intros Hiv. unfold decrypt_answer.
    destruct (aes_key_ok key); cbn [negb]; [|discriminate].
    destruct (Z.of_nat (length data) mod 16 =? 0); cbn [negb]; [|discriminate].
    rewrite Hiv; cbn [Nat.eqb negb].
    destruct (guess (ige_dec key iv data)) as [[|x t]|]; discriminate.
  Qed.

  (* every mismatch is reported: if no padding length 0..15 gives a non-empty candidate whose
     hash is the embedded one, the result is not Ok *)
  Theorem decrypt_mismatch_is_error data key iv :
    (forall i, matches (ige_dec key iv data) i -> cand (ige_dec key iv data) i = []) ->
    is_ok (decrypt data key iv) = false.
  Proof.
    intros H. pose proof (decrypt_ok_or_err data key iv) as T.
    destruct (decrypt data key iv) as [d| |]; try reflexivity.
    cbn zeta in T. destruct T as (Hne & i & Hi & Hlen & Hd & Hs).
    exfalso. apply Hne. rewrite Hd. apply H. unfold matches. repeat split; try lia. rewrite <- Hd. exact Hs.
  Qed.

  (* and conversely a well-formed answer is accepted (exact acceptance condition) *)
  Theorem decrypt_accepts data key iv :
    aes_key_ok key = true -> Z.of_nat (length data) mod 16 = 0 -> length iv = 32%nat ->
    forall i, matches (ige_dec key iv data) i ->
              (forall j, (j <= i)%nat -> matches (ige_dec key iv data) j -> cand (ige_dec key iv data) j <> []) ->
    exists j, (j <= i)%nat /\ decrypt data key iv = Ok (cand (ige_dec key iv data) j).
  Proof.
    intros Hk Hl Hiv i Hm Hne. unfold decrypt_answer.
    rewrite Hk, Hl, Hiv; cbn [negb Z.eqb Nat.eqb].
    set (p := ige_dec key iv data) in *.
    destruct (guess p) as [d|] eqn:G.
    - apply guess_some in G as (j & Hmj & Hd & Hmin).
      assert (Hji : (j <= i)%nat).
      { destruct (le_lt_dec j i); [assumption|]. exfalso. exact (Hmin i l Hm). }
      specialize (Hne j Hji Hmj). rewrite <- Hd in Hne.
      exists j. split; [exact Hji|]. destruct d; [congruence|]. rewrite Hd. reflexivity.
    - exfalso. apply (guess_none _ G i). split; [exact Hm|].
      destruct Hm as (Hi & Hlen & Hs).
      assert (cand p i <> []) as Hc by (apply Hne; [lia|unfold matches; auto]).
      unfold ExchangeAnswer.cand in Hc. unfold sha1_size in *.
      destruct (Nat.eq_dec (length p - i - 20) 0) as [E|E]; [rewrite E in Hc; cbn in Hc; congruence|lia].
  Qed.

  (* ---------- round trip with EncryptExchangeAnswer ---------- *)
  Section RoundTrip.
    Hypothesis sha1_len : forall x, length (sha1 x) = sha1_size.
    Hypothesis ige_inv : forall k iv p, ige_dec k iv (ige_enc k iv p) = p.
    Hypothesis ige_len : forall k iv p, length (ige_enc k iv p) = length p.

    Lemma pad_len_bound a : (pad_len a < 16)%nat /\ Z.of_nat (sha1_size + length a + pad_len a) mod 16 = 0.
    Proof.
      unfold pad_len, sha1_size.
      pose proof (padded_len16_spec (Z.of_nat (length a) + 20) ltac:(lia)) as (Hb & Hm).
      split; [lia|].
      replace (Z.of_nat (20 + length a + Z.to_nat (padded_len16 (Z.of_nat (length a) + 20) - Z.of_nat (length a) - 20)))
        with (padded_len16 (Z.of_nat (length a) + 20)) by lia.
      exact Hm.
    Qed.

    Theorem decrypt_encrypt rnd a key iv :
      aes_key_ok key = true -> length iv = 32%nat -> a <> [] -> (15 <= length rnd)%nat ->
      (* no truncation of data+padding collides with the data under SHA-1 *)
      (forall j, sha1 (a ++ firstn j rnd) = sha1 a -> a ++ firstn j rnd = a) ->
      decrypt (encrypt_answer sha1 ige_enc rnd a key iv) key iv = Ok a.
    Proof.
      intros Hk Hiv Ha Hr Hcoll.
      unfold encrypt_answer, decrypt_answer. rewrite Hk, Hiv, ige_inv, ige_len; cbn [negb Nat.eqb].
      destruct (pad_len_bound a) as (Hpl & Hmod).
      set (pad := firstn (pad_len a) rnd).
      assert (Hpadlen : length pad = pad_len a) by (unfold pad; rewrite firstn_length; lia).
      unfold data_with_hash. fold pad.
      set (p := sha1 a ++ a ++ pad).
      assert (Hplen : length p = (sha1_size + length a + pad_len a)%nat)
        by (unfold p; rewrite !app_length, sha1_len; lia).
      rewrite Hplen, Hmod; cbn [Z.eqb negb].
      assert (Hcand : forall j, (j <= pad_len a)%nat -> cand p j = a ++ firstn (pad_len a - j) rnd).
      { intros j Hj. unfold ExchangeAnswer.cand, p.
        rewrite <- (sha1_len a) at 2. rewrite skipn_app, skipn_all, Nat.sub_diag. cbn [app skipn].
        rewrite !app_length, sha1_len, Hpadlen.
        replace (sha1_size + (length a + pad_len a) - j - sha1_size)%nat with (length a + (pad_len a - j))%nat by lia.
        rewrite firstn_app_2. f_equal. unfold pad. rewrite firstn_firstn. f_equal. lia. }
      assert (Hpre : firstn sha1_size p = sha1 a).
      { unfold p. rewrite <- (sha1_len a). rewrite firstn_app, Nat.sub_diag, firstn_all. cbn. apply app_nil_r. }
      assert (Hm : matches p (pad_len a)).
      { unfold matches. repeat split; [lia|lia|]. rewrite Hcand by lia. rewrite Nat.sub_diag, Hpre. cbn [firstn]. rewrite app_nil_r. reflexivity. }
      destruct (guess p) as [d|] eqn:G.
      - apply guess_some in G as (j & (Hj & Hlen & Hs) & Hd & Hmin).
        assert (Hjle : (j <= pad_len a)%nat).
        { destruct (le_lt_dec j (pad_len a)); [assumption|]. exfalso. exact (Hmin _ l Hm). }
        rewrite Hcand in Hd, Hs by exact Hjle. rewrite Hpre in Hs.
        apply Hcoll in Hs. rewrite Hs in Hd. subst d. destruct a; [congruence|reflexivity].
      - exfalso. apply (guess_none _ G (pad_len a)). split; [exact Hm|].
        rewrite Hplen. destruct a; [congruence|]. cbn [length]. lia.
    Qed.
  End RoundTrip.
End AnswerProofs.
