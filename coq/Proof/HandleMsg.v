(* Proofs for Model/HandleMsg.v (C23): handleMessage never panics, fuel = payload length
   suffices for container nesting, and every NotifyResult / NotifyError effect names the
   request id found in the (sub)message that caused it. *)
From Coq Require Import ZArith List Bool Lia.
From TD Require Import Lib.Bytes Lib.GoSem Lib.GoSlice Gen.TlConsts Gen.HandleConsts Model.TlPrim Proof.TlPrim Proof.TlSchema Model.HandleMsg.
Import ListNotations.
Open Scope Z_scope.

(* ---------- decoders: no panic, rests are byte strings that do not grow ---------- *)
Definition good {A} (b : list Z) (r : dres A) : Prop :=
  r <> Panic /\ (forall v r', r = Ok (v, r') -> bytes_ok r' /\ len r' <= len b).

Lemma decode_all_good ks : forall b, bytes_ok b -> good b (decode_all ks b).
Proof.
  induction ks as [|k ks IH]; intros b OK; cbn [decode_all].
  - split; [discriminate|]. intros v r E; inversion E; subst. split; [assumption|lia].
  - destruct (tlprim_good k b OK) as [NP HS].
    destruct (TlPrim.decode_prim k b) as [[p r0]|e|]; cbn [bind]; [|split; [discriminate|intros; discriminate]|congruence].
    destruct (HS p r0 eq_refl) as [OK0 L0]. destruct (IH r0 OK0) as [NP' HS'].
    destruct (decode_all ks r0) as [[ps r1]|e|]; cbn [bind]; [|split; [discriminate|intros; discriminate]|congruence].
    split; [discriminate|]. intros v r E; inversion E; subst. destruct (HS' ps r eq_refl). split; [assumption|lia].
Qed.

Ltac err_good := split; [discriminate|intros; discriminate].
Ltac dps ps a := destruct ps as [|[a|a|a|a|a|a|a|a] ps]; try err_good.

(* id + fixed fields + a total continuation that only inspects the decoded primitives *)
Lemma id_then_all_good {A} id ks (k : list prim -> list Z -> dres A) b :
  bytes_ok b ->
  (forall ps r, bytes_ok r -> len r <= len b -> good b (k ps r)) ->
  good b (do b1 <- consume_id id b; do (ps, r) <- decode_all ks b1; k ps r).
Proof.
  intros OK Hk. destruct (consume_id_good id b OK) as [NP HS].
  destruct (consume_id id b) as [b1|e|]; cbn [bind]; [|err_good|congruence].
  destruct (HS b1 eq_refl) as [OK1 L1]. destruct (decode_all_good ks b1 OK1) as [NP' HS'].
  destruct (decode_all ks b1) as [[ps r]|e|]; cbn [bind]; [|err_good|congruence].
  destruct (HS' ps r eq_refl). apply Hk; [assumption|lia].
Qed.

Lemma dec_session_good b : bytes_ok b -> good b (dec_session b).
Proof.
  intros OK. unfold dec_session. apply id_then_all_good; [exact OK|]. intros ps r OKr L.
  dps ps a1. dps ps a2. dps ps a3.
  destruct ps; [|err_good]. split; [discriminate|]. intros x r' E; inversion E; subst. auto.
Qed.
Lemma dec_pong_good b : bytes_ok b -> good b (dec_pong b).
Proof.
  intros OK. unfold dec_pong. apply id_then_all_good; [exact OK|]. intros ps r OKr L.
  dps ps a1. dps ps a2.
  destruct ps; [|err_good]. split; [discriminate|]. intros x r' E; inversion E; subst. auto.
Qed.
Lemma dec_rpc_error_good b : bytes_ok b -> good b (dec_rpc_error b).
Proof.
  intros OK. unfold dec_rpc_error. apply id_then_all_good; [exact OK|]. intros ps r OKr L.
  dps ps a1. dps ps a2.
  destruct ps; [|err_good]. split; [discriminate|]. intros x r' E; inversion E; subst. auto.
Qed.

Lemma id_long_all_good {A} id ks (k : Z -> list prim -> list Z -> dres A) b :
  bytes_ok b ->
  (forall i ps r, bytes_ok r -> len r <= len b -> good b (k i ps r)) ->
  good b (do b1 <- consume_id id b; do (i, b2) <- decode_long b1; do (ps, r) <- decode_all ks b2; k i ps r).
Proof.
  intros OK Hk. destruct (consume_id_good id b OK) as [NP HS].
  destruct (consume_id id b) as [b1|e|]; cbn [bind]; [|err_good|congruence].
  destruct (HS b1 eq_refl) as [OK1 L1]. destruct (decode_long_good b1 OK1) as [NP1 HS1].
  destruct (decode_long b1) as [[i b2]|e|]; cbn [bind]; [|err_good|congruence].
  destruct (HS1 i b2 eq_refl) as [OK2 L2]. destruct (decode_all_good ks b2 OK2) as [NP' HS'].
  destruct (decode_all ks b2) as [[ps r]|e|]; cbn [bind]; [|err_good|congruence].
  destruct (HS' ps r eq_refl). apply Hk; [assumption|lia].
Qed.
Lemma dec_bad_msg_good b : bytes_ok b -> good b (dec_bad_msg b).
Proof.
  intros OK. unfold dec_bad_msg. apply id_long_all_good; [exact OK|]. intros i ps r OKr L.
  dps ps a1. dps ps a2.
  destruct ps; [|err_good]. split; [discriminate|]. intros x r' E; inversion E; subst. auto.
Qed.
Lemma dec_bad_salt_good b : bytes_ok b -> good b (dec_bad_salt b).
Proof.
  intros OK. unfold dec_bad_salt. apply id_long_all_good; [exact OK|]. intros i ps r OKr L.
  dps ps a1. dps ps a2. dps ps a3.
  destruct ps; [|err_good]. split; [discriminate|]. intros x r' E; inversion E; subst. auto.
Qed.

Lemma dec_result_spec b :
  dec_result b <> Panic /\
  (forall i body r, dec_result b = Ok ((i, body), r) ->
     peek_id b = Ok c_ResultTypeID /\ decode_long (skipn 4 b) = Ok (i, body) /\ (bytes_ok b -> bytes_ok body)).
Proof.
  unfold dec_result.
  destruct (consume_id_spec c_ResultTypeID b) as [[_ E]|[[_ [_ E]]|[L [Eid E]]]]; rewrite E; cbn [bind].
  1,2: split; [discriminate|intros; discriminate].
  pose proof (decode_long_no_panic (skipn 4 b)) as NP.
  destruct (decode_long (skipn 4 b)) as [[i b2]|e|] eqn:EL; cbn [bind]; [|split; [discriminate|intros; discriminate]|congruence].
  split; [discriminate|]. intros i' body r H; inversion H; subst.
  split; [destruct (peek_id_spec b) as [[L' _]|[_ E']]; [lia|rewrite E', Eid; reflexivity]|].
  split; [reflexivity|]. intros OK. destruct (decode_long_good (skipn 4 b) (bytes_ok_skipn 4 b OK)) as [_ HS].
  rewrite EL in HS. apply (HS i' body eq_refl).
Qed.

Lemma dec_longs_good : forall k n b, bytes_ok b -> good b (dec_longs k n b).
Proof.
  induction k as [|k IH]; intros n b OK; cbn [dec_longs].
  - destruct (n <=? 0); [|err_good]. split; [discriminate|]. intros v r E; inversion E; subst. split; [assumption|lia].
  - destruct (n <=? 0); [split; [discriminate|]; intros v r E; inversion E; subst; split; [assumption|lia]|].
    destruct (decode_long_good b OK) as [NP HS].
    destruct (decode_long b) as [[v0 b1]|e|]; cbn [bind]; [|err_good|congruence].
    destruct (HS v0 b1 eq_refl) as [OK1 L1]. destruct (IH (n - 1) b1 OK1) as [NP' HS'].
    destruct (dec_longs k (n - 1) b1) as [[l b2]|e|]; cbn [bind]; [|err_good|congruence].
    split; [discriminate|]. intros v r E; inversion E; subst. destruct (HS' l r eq_refl). split; [assumption|lia].
Qed.
Lemma dec_acks_good b : bytes_ok b -> good b (dec_acks b).
Proof.
  intros OK. unfold dec_acks. destruct (consume_id_good c_mt_MsgsAckTypeID b OK) as [NP HS].
  destruct (consume_id c_mt_MsgsAckTypeID b) as [b1|e|]; cbn [bind]; [|err_good|congruence].
  destruct (HS b1 eq_refl) as [OK1 L1]. destruct (decode_vector_header_good b1 OK1) as [NP1 HS1].
  destruct (decode_vector_header b1) as [[n b2]|e|]; cbn [bind]; [|err_good|congruence].
  destruct (HS1 n b2 eq_refl) as [OK2 L2]. destruct (dec_longs_good (S (length b2)) n b2 OK2) as [NP2 HS2].
  split; [exact NP2|]. intros v r E. destruct (HS2 v r E). split; [assumption|lia].
Qed.
Lemma dec_salts_good : forall k n b, bytes_ok b -> good b (dec_salts k n b).
Proof.
  induction k as [|k IH]; intros n b OK; cbn [dec_salts].
  - destruct (n <=? 0); [|err_good]. split; [discriminate|]. intros v r E; inversion E; subst. split; [assumption|lia].
  - destruct (n <=? 0); [split; [discriminate|]; intros v r E; inversion E; subst; split; [assumption|lia]|].
    destruct (decode_all_good [KInt; KInt; KLong] b OK) as [NP HS].
    destruct (decode_all [KInt; KInt; KLong] b) as [[ps b3]|e|]; cbn [bind]; [|err_good|congruence].
    destruct (HS ps b3 eq_refl) as [OK3 L3].
    dps ps a1. dps ps a2. dps ps a3.
  destruct ps; [|err_good]. destruct (IH (n - 1) b3 OK3) as [NP' HS'].
    destruct (dec_salts k (n - 1) b3) as [[l b4]|e|]; cbn [bind]; [|err_good|congruence].
    split; [discriminate|]. intros x r E; inversion E; subst. destruct (HS' l r eq_refl). split; [assumption|lia].
Qed.
Lemma dec_future_salts_good b : bytes_ok b -> good b (dec_future_salts b).
Proof.
  intros OK. unfold dec_future_salts. apply id_then_all_good; [exact OK|]. intros ps r OKr L.
  dps ps a1. dps ps a2. dps ps a3.
  destruct ps; [|err_good]. destruct (dec_salts_good (S (length r)) a3 r OKr) as [NP HS].
  split; [exact NP|]. intros x r' E. destruct (HS x r' E). split; [assumption|lia].
Qed.

(* one container message: the body is a byte string, and body + rest fit into the input with
   16 bytes of header to spare *)
Lemma dec_msg_good b : bytes_ok b ->
  dec_msg b <> Panic /\
  (forall m r, dec_msg b = Ok (m, r) -> bytes_ok m /\ bytes_ok r /\ len m + len r + 16 <= len b).
Proof.
  intros OK. unfold dec_msg.
  assert (G : decode_all [KLong; KInt; KInt] b <> Panic /\
              forall ps r, decode_all [KLong; KInt; KInt] b = Ok (ps, r) -> bytes_ok r /\ len r + 16 <= len b).
  { cbn [decode_all].
    destruct (tlprim_good KLong b OK) as [NP0 HS0]. cbn [TlPrim.decode_prim] in *. unfold lift in *.
    destruct (decode_long_spec b) as [[_ E]|[L E]]; rewrite E in *; cbn [bind] in *; [err_good|].
    set (b1 := skipn 8 b) in *. assert (OK1 : bytes_ok b1) by (apply bytes_ok_skipn, OK).
    assert (L1 : len b1 + 8 <= len b) by (unfold b1; rewrite len_skipn; unfold len in *; lia).
    destruct (tlprim_good KInt b1 OK1) as [NP1 HS1]. cbn [TlPrim.decode_prim] in *. unfold lift in *.
    destruct (decode_int b1) as [[v1 b2]|e|]; cbn [bind] in *; [|err_good|congruence].
    destruct (HS1 (PInt v1) b2 eq_refl) as [OK2 L2].
    destruct (tlprim_good KInt b2 OK2) as [NP2 HS2]. cbn [TlPrim.decode_prim] in *. unfold lift in *.
    destruct (decode_int b2) as [[v2 b3]|e|]; cbn [bind] in *; [|err_good|congruence].
    destruct (HS2 (PInt v2) b3 eq_refl) as [OK3 L3].
    split; [discriminate|]. intros ps r H; inversion H; subst. split; [assumption|lia]. }
  destruct G as [NP HS]. destruct (decode_all [KLong; KInt; KInt] b) as [[ps b3]|e|]; cbn [bind]; [|err_good|congruence].
  destruct (HS ps b3 eq_refl) as [OK3 L3].
  dps ps a1. dps ps a2. dps ps a3.
  destruct ps; [|err_good].
  destruct (msg_bytes_invalid a3) eqn:R; [err_good|].
  unfold msg_bytes_invalid in R. apply orb_false_iff in R. destruct R as [R0 _]. apply Z.ltb_ge in R0.
  split; [apply take_no_panic; lia|]. intros m r E. destruct (take_ok_inv a3 b3 m r R0 E) as [S Lm].
  subst b3. apply bytes_ok_app in OK3. destruct OK3. rewrite len_app in L3. repeat split; try assumption; try lia.
Qed.
Lemma dec_msgs_good : forall k n b, bytes_ok b ->
  dec_msgs k n b <> Panic /\
  (forall l r, dec_msgs k n b = Ok (l, r) -> Forall (fun m => bytes_ok m /\ len m + 16 <= len b) l).
Proof.
  induction k as [|k IH]; intros n b OK; cbn [dec_msgs].
  - destruct (n <=? 0); [|err_good]. split; [discriminate|]. intros l r E; inversion E; subst. constructor.
  - destruct (n <=? 0); [split; [discriminate|]; intros l r E; inversion E; subst; constructor|].
    destruct (dec_msg_good b OK) as [NP HS].
    destruct (dec_msg b) as [[m b1]|e|]; cbn [bind]; [|err_good|congruence].
    destruct (HS m b1 eq_refl) as [OKm [OK1 L1]]. destruct (IH (n - 1) b1 OK1) as [NP' HS'].
    destruct (dec_msgs k (n - 1) b1) as [[l b2]|e|]; cbn [bind]; [|err_good|congruence].
    split; [discriminate|]. intros l' r E; inversion E; subst. constructor.
    + split; [assumption|]. pose proof (len_nonneg b1). lia.
    + specialize (HS' l r eq_refl). eapply Forall_impl; [|exact HS']. intros a [Ha La]. split; [assumption|]. pose proof (len_nonneg m). lia.
Qed.
Lemma dec_container_good b : bytes_ok b ->
  dec_container b <> Panic /\
  (forall l r, dec_container b = Ok (l, r) -> Forall (fun m => bytes_ok m /\ len m + 24 <= len b) l).
Proof.
  intros OK. unfold dec_container. destruct (consume_id_good c_MessageContainerTypeID b OK) as [NP HS].
  destruct (consume_id c_MessageContainerTypeID b) as [b1|e|]; cbn [bind]; [|err_good|congruence].
  destruct (HS b1 eq_refl) as [OK1 L1]. destruct (decode_int_good b1 OK1) as [NP1 HS1].
  destruct (decode_int b1) as [[n b2]|e|]; cbn [bind]; [|err_good|congruence].
  destruct (HS1 n b2 eq_refl) as [OK2 L2]. destruct (n <? 0); [err_good|].
  destruct (dec_msgs_good (S (length b2)) n b2 OK2) as [NP2 HS2].
  split; [exact NP2|]. intros l r E. specialize (HS2 l r E). eapply Forall_impl; [|exact HS2].
  intros a [Ha La]. split; [assumption|lia].
Qed.

Section HandleProofs.
  Variable gunzip : list Z -> option (list Z).
  Variable notify_ok : Z -> list Z -> bool.
  Variable on_message_ok : list Z -> bool.
  Variable on_session_ok : Z -> bool.
  Notation handle := (handle gunzip notify_ok on_message_ok on_session_ok).
  Notation dec_gzip := (dec_gzip gunzip).

  Lemma dec_gzip_good b : bytes_ok b ->
    dec_gzip b <> Panic /\ (forall d, dec_gzip b = Ok d -> bytes_ok d /\ len d < c_maxUncompressedSize).
  Proof.
    intros OK. unfold HandleMsg.dec_gzip. destruct (consume_id_good c_GZIPTypeID b OK) as [NP HS].
    destruct (consume_id c_GZIPTypeID b) as [b1|e|]; cbn [bind]; [|split; [discriminate|intros; discriminate]|congruence].
    destruct (HS b1 eq_refl) as [OK1 _]. destruct (decode_bytes_good b1 OK1) as [NP1 _].
    destruct (decode_bytes b1) as [[z r]|e|]; cbn [bind]; [|split; [discriminate|intros; discriminate]|congruence].
    destruct (gunzip z) as [d|]; [|split; [discriminate|intros; discriminate]].
    destruct (bytes_okb d) eqn:Eb; cbn [andb]; [|split; [discriminate|intros; discriminate]].
    destruct (Z.ltb_spec (len d) c_maxUncompressedSize); [|split; [discriminate|intros; discriminate]].
    split; [discriminate|]. intros d' E; inversion E; subst. split; [apply bytes_okb_spec, Eb|assumption].
  Qed.

  (* ---------- leaves never panic ---------- *)
  Definition np (r : hres) : Prop := snd r <> SPanic.
  Lemma lift_np {A} (d : res tl_err A) k : d <> Panic -> (forall a, d = Ok a -> np (k a)) -> np (lift_status d k).
  Proof. intros NP H. unfold lift_status. destruct d; [apply H; reflexivity|cbn; discriminate|congruence]. Qed.

  Lemma handle_pong_np b : bytes_ok b -> np (handle_pong b).
  Proof. intros OK. apply lift_np; [apply dec_pong_good, OK|]. intros [p r] _. cbn. discriminate. Qed.
  Lemma handle_session_np b : bytes_ok b -> np (handle_session on_session_ok b).
  Proof. intros OK. apply lift_np; [apply dec_session_good, OK|]. intros [[[f u] s] r] _. cbn. destruct (on_session_ok s); discriminate. Qed.
  Lemma peek_np b : peek_id b <> Panic.
  Proof. destruct (peek_id_spec b) as [[_ E]|[_ E]]; rewrite E; discriminate. Qed.
  Lemma handle_bad_msg_np b : bytes_ok b -> np (handle_bad_msg b).
  Proof.
    intros OK. apply lift_np; [apply peek_np|].
    intros id _. destruct (id =? c_mt_BadMsgNotificationTypeID).
    - apply lift_np; [apply dec_bad_msg_good, OK|]. intros [[i c] r] _. cbn. discriminate.
    - destruct (id =? c_mt_BadServerSaltTypeID); [|cbn; discriminate].
      apply lift_np; [apply dec_bad_salt_good, OK|]. intros [[i c] r] _. cbn. discriminate.
  Qed.
  Lemma handle_future_salts_np b : bytes_ok b -> np (handle_future_salts b).
  Proof. intros OK. apply lift_np; [apply dec_future_salts_good, OK|]. intros [l r] _. cbn. discriminate. Qed.
  Lemma handle_ack_np b : bytes_ok b -> np (handle_ack b).
  Proof. intros OK. apply lift_np; [apply dec_acks_good, OK|]. intros [l r] _. cbn. discriminate. Qed.
  Lemma route_result_np req id c : bytes_ok c -> np (route_result notify_ok req id c).
  Proof.
    intros OK. unfold route_result. destruct (id =? c_mt_RPCErrorTypeID).
    - apply lift_np; [apply dec_rpc_error_good, OK|]. intros [code r] _. cbn. discriminate.
    - destruct (id =? c_mt_PongTypeID); [apply handle_pong_np, OK|]. cbn. destruct (notify_ok req c); discriminate.
  Qed.
  Lemma handle_result_np b : bytes_ok b -> np (handle_result gunzip notify_ok b).
  Proof.
    intros OK. destruct (dec_result_spec b) as [NP HS]. apply lift_np; [exact NP|].
    intros [[req body] r] E. destruct (HS req body r E) as [_ [_ OKb]]. specialize (OKb OK).
    apply lift_np; [apply peek_np|]. intros id _. destruct (id =? c_GZIPTypeID); [|apply route_result_np, OKb].
    destruct (dec_gzip_good body OKb) as [NPg HSg]. apply lift_np; [exact NPg|]. intros content Ec.
    apply lift_np; [apply peek_np|]. intros id' _. apply route_result_np, (HSg content Ec).
  Qed.

  (* ---------- the whole handler: no panic, depth within the budget ---------- *)
  Definition np3 (r : dres3) : Prop := snd (fst r) <> SPanic.
  Lemma lift_np3 {A} (d : res tl_err A) k : d <> Panic -> (forall a, d = Ok a -> np3 (k a)) -> np3 (lift_status_d d k).
  Proof. intros NP H. unfold lift_status_d. destruct d; [apply H; reflexivity|cbn; discriminate|congruence]. Qed.
  Lemma run_msgs_np h msgs : Forall (fun m => np3 (h m)) msgs -> np3 (run_msgs_d h msgs).
  Proof.
    induction 1 as [|m l Hm Hl IH]; cbn [run_msgs_d]; [cbn; discriminate|].
    unfold np3 in *. destruct (h m) as [[e1 s1] d1]. cbn [fst snd] in Hm. destruct s1; cbn [fst snd]; try assumption.
    destruct (run_msgs_d h l) as [[e2 s2] d2]. cbn [fst snd] in *. exact IH.
  Qed.

  Ltac leaf_np OK :=
    lazymatch goal with
    | |- np3 (leaf (handle_session _ _)) => apply handle_session_np, OK
    | |- np3 (leaf (handle_bad_msg _)) => apply handle_bad_msg_np, OK
    | |- np3 (leaf (handle_future_salts _)) => apply handle_future_salts_np, OK
    | |- np3 (leaf (handle_result _ _ _)) => apply handle_result_np, OK
    | |- np3 (leaf (handle_pong _)) => apply handle_pong_np, OK
    | |- np3 (leaf (handle_ack _)) => apply handle_ack_np, OK
    | |- np3 (leaf ([], _)) => cbn; discriminate
    | |- np3 (leaf ([EOnMessage _], _)) => cbn; destruct (on_message_ok _); discriminate
    | _ => idtac
    end.

  Theorem handle_np : forall budget msg_id b, bytes_ok b -> np3 (handle budget msg_id b).
  Proof.
    induction budget as [|k IH]; intros msg_id b OK; cbn [HandleMsg.handle];
      (apply lift_np3; [apply peek_np|]); intros id _; destruct (handle_dispatch id); leaf_np OK.
    - destruct (dec_container_good b OK) as [NPc HSc]. apply lift_np3; [exact NPc|]. intros [msgs r] E.
      assert (H : np3 (run_msgs_d (handle k msg_id) msgs)).
      { apply run_msgs_np. specialize (HSc msgs r E). eapply Forall_impl; [|exact HSc]. intros m [OKm _]. apply IH, OKm. }
      unfold np3 in *. destruct (run_msgs_d (handle k msg_id) msgs) as [r0 d0]. exact H.
    - destruct (dec_gzip_good b OK) as [NPg HSg]. apply lift_np3; [exact NPg|]. intros content E.
      pose proof (IH msg_id content (proj1 (HSg content E))) as H.
      unfold np3 in *. destruct (handle k msg_id content) as [r0 d0]. exact H.
  Qed.

  (* the deepest nesting level the handler reaches never exceeds the budget *)
  Lemma run_msgs_depth h msgs n : (forall m, (snd (h m) <= n)%nat) -> (snd (run_msgs_d h msgs) <= n)%nat.
  Proof.
    intros H. induction msgs as [|m l IH]; cbn [run_msgs_d]; [cbn; lia|].
    specialize (H m). destruct (h m) as [[e1 s1] d1]. cbn [snd] in H.
    destruct s1; cbn [snd]; try exact H.
    destruct (run_msgs_d h l) as [[e2 s2] d2]. cbn [snd] in *. lia.
  Qed.
  Theorem handle_depth : forall budget msg_id b, (snd (handle budget msg_id b) <= budget)%nat.
  Proof.
    induction budget as [|k IH]; intros msg_id b; cbn [HandleMsg.handle]; unfold lift_status_d;
      destruct (peek_id b) as [id| |]; try (cbn; lia); destruct (handle_dispatch id); try (cbn; lia).
    - destruct (dec_container b) as [[msgs r]| |]; try (cbn; lia).
      pose proof (run_msgs_depth (handle k msg_id) msgs k (IH msg_id)) as H.
      destruct (run_msgs_d (handle k msg_id) msgs) as [r0 d0]. cbn [snd] in *. lia.
    - destruct (HandleMsg.dec_gzip gunzip b) as [content| |]; try (cbn; lia).
      pose proof (IH msg_id content) as H. destruct (handle k msg_id content) as [r0 d0]. cbn [snd] in *. lia.
  Qed.
End HandleProofs.

(* ---------- C23_routing ---------- *)
Lemma dispatch_container id : handle_dispatch id = T_handleContainer -> id = c_MessageContainerTypeID.
Proof.
  unfold handle_dispatch, c_MessageContainerTypeID.
  repeat match goal with |- context [if ?x =? ?k then _ else _] => destruct (Z.eqb_spec x k) end;
    intros H; try discriminate H; subst; reflexivity.
Qed.
Lemma dispatch_gzip id : handle_dispatch id = T_handleGZIP -> id = c_GZIPTypeID.
Proof.
  unfold handle_dispatch, c_GZIPTypeID.
  repeat match goal with |- context [if ?x =? ?k then _ else _] => destruct (Z.eqb_spec x k) end;
    intros H; try discriminate H; subst; reflexivity.
Qed.

Section Routing.
  Variable gunzip : list Z -> option (list Z).
  Variable notify_ok : Z -> list Z -> bool.
  Variable on_message_ok : list Z -> bool.
  Variable on_session_ok : Z -> bool.
  Notation handle := (handle gunzip notify_ok on_message_ok on_session_ok).
  Notation submsg := (submsg gunzip).
  Notation routed := (routed gunzip).
  Notation caused_by := (caused_by gunzip).

  Lemma submsg_trans a b c : submsg a b -> submsg b c -> submsg a c.
  Proof.
    induction 1 as [b|b msgs rest m x P D I S IH|b content x P D S IH]; intros H; [exact H| |].
    - eapply sub_container; eauto.
    - eapply sub_gzip; eauto.
  Qed.
  Lemma routed_sub b m e : submsg b m -> routed m e -> routed b e.
  Proof.
    intros S. destruct e; cbn [HandleMsg.routed]; try (intros; exact I).
    - intros [x [Sx N]]. exists x. split; [eapply submsg_trans; eauto|exact N].
    - intros [x [Sx N]]. exists x. split; [eapply submsg_trans; eauto|exact N].
  Qed.

  Definition all_routed (b : list Z) (r : hres) : Prop := Forall (routed b) (fst r).

  Lemma lift_routed {A} b (d : res tl_err A) k : (forall a, d = Ok a -> all_routed b (k a)) -> all_routed b (lift_status d k).
  Proof. intros H. unfold lift_status. destruct d; [apply H; reflexivity|constructor|constructor]. Qed.

  Lemma pong_routed b c : all_routed b (handle_pong c).
  Proof. apply lift_routed. intros [p r] _. repeat constructor. Qed.
  Lemma session_routed b : all_routed b (handle_session on_session_ok b).
  Proof. apply lift_routed. intros [[[f u] s] r] _. repeat constructor. Qed.
  Lemma salts_routed b : all_routed b (handle_future_salts b).
  Proof. apply lift_routed. intros [l r] _. repeat constructor. Qed.
  Lemma ack_routed b : all_routed b (handle_ack b).
  Proof. apply lift_routed. intros [l r] _. repeat constructor. Qed.

  Lemma bad_msg_routed b : all_routed b (handle_bad_msg b).
  Proof.
    apply lift_routed. intros id Eid. destruct (id =? c_mt_BadMsgNotificationTypeID).
    - apply lift_routed. intros [[i c] r] E. constructor; [|constructor]. cbn [HandleMsg.routed].
      exists b. split; [apply sub_self|]. right; left. exists r. exact E.
    - destruct (id =? c_mt_BadServerSaltTypeID); [|constructor].
      apply lift_routed. intros [[i c] r] E. constructor; [|constructor]. cbn [HandleMsg.routed].
      exists b. split; [apply sub_self|]. right; right. exists r. exact E.
  Qed.

  (* handleResult: the routed content is the body of THIS rpc_result or its decompression *)
  Lemma route_result_routed b req body rest id content :
    dec_result b = Ok ((req, body), rest) -> result_content gunzip body content -> peek_id content = Ok id ->
    all_routed b (route_result notify_ok req id content).
  Proof.
    intros D RC P. unfold route_result. destruct (Z.eqb_spec id c_mt_RPCErrorTypeID).
    - apply lift_routed. intros [code r] E. constructor; [|constructor]. cbn [HandleMsg.routed].
      exists b. split; [apply sub_self|]. left. exists body, rest, content, r. subst id. auto.
    - destruct (id =? c_mt_PongTypeID); [apply pong_routed|].
      constructor; [|constructor]. cbn [HandleMsg.routed]. exists b. split; [apply sub_self|].
      exists body, rest. auto.
  Qed.
  Lemma result_routed b : all_routed b (handle_result gunzip notify_ok b).
  Proof.
    apply lift_routed. intros [[req body] r] E.
    apply lift_routed. intros id P. destruct (Z.eqb_spec id c_GZIPTypeID).
    - subst id. apply lift_routed. intros content G. apply lift_routed. intros id' P'.
      apply (route_result_routed b req body r id' content E); [right; split; assumption|exact P'].
    - apply (route_result_routed b req body r id body E); [left; reflexivity|exact P].
  Qed.

  Definition all_routed3 (b : list Z) (r : dres3) : Prop := Forall (routed b) (fst (fst r)).
  Lemma lift_routed3 {A} b (d : res tl_err A) k : (forall a, d = Ok a -> all_routed3 b (k a)) -> all_routed3 b (lift_status_d d k).
  Proof. intros H. unfold lift_status_d. destruct d; [apply H; reflexivity|constructor|constructor]. Qed.
  Lemma run_msgs_routed b h msgs :
    Forall (fun m => submsg b m /\ all_routed3 m (h m)) msgs -> all_routed3 b (run_msgs_d h msgs).
  Proof.
    induction 1 as [|m l [Sm Hm] Hl IH]; cbn [run_msgs_d]; [constructor|].
    unfold all_routed3 in *. destruct (h m) as [[e1 s1] d1]. cbn [fst] in Hm.
    assert (H1 : Forall (routed b) e1).
    { eapply Forall_impl; [|exact Hm]. intros e He. eapply routed_sub; eauto. }
    destruct s1; cbn [fst]; try exact H1.
    destruct (run_msgs_d h l) as [[e2 s2] d2]. cbn [fst] in *. apply Forall_app. split; assumption.
  Qed.

  Ltac leaf_rt :=
    lazymatch goal with
    | |- all_routed3 _ (leaf (handle_session _ _)) => apply session_routed
    | |- all_routed3 _ (leaf (handle_bad_msg _)) => apply bad_msg_routed
    | |- all_routed3 _ (leaf (handle_future_salts _)) => apply salts_routed
    | |- all_routed3 _ (leaf (handle_result _ _ _)) => apply result_routed
    | |- all_routed3 _ (leaf (handle_pong _)) => apply pong_routed
    | |- all_routed3 _ (leaf (handle_ack _)) => apply ack_routed
    | |- all_routed3 _ (leaf ([], _)) => constructor
    | |- all_routed3 _ (leaf ([EOnMessage _], _)) => repeat constructor
    | _ => idtac
    end.

  Theorem handle_routed : forall budget msg_id b, all_routed3 b (handle budget msg_id b).
  Proof.
    induction budget as [|k IH]; intros msg_id b; cbn [HandleMsg.handle];
      apply lift_routed3; intros id Eid; destruct (handle_dispatch id) eqn:D; leaf_rt.
    - apply dispatch_container in D. subst id. apply lift_routed3. intros [msgs r] E.
      assert (H : all_routed3 b (run_msgs_d (handle k msg_id) msgs)).
      { apply run_msgs_routed. apply Forall_forall. intros m Im. split; [|apply IH].
        eapply sub_container; [exact Eid|exact E|exact Im|apply sub_self]. }
      unfold all_routed3 in *. destruct (run_msgs_d (handle k msg_id) msgs) as [r0 d0]. exact H.
    - apply dispatch_gzip in D. subst id. apply lift_routed3. intros content E.
      assert (H : all_routed3 b (handle k msg_id content)).
      { unfold all_routed3. eapply Forall_impl; [|apply (IH msg_id content)].
        intros e He. eapply routed_sub; [eapply sub_gzip; [exact Eid|exact E|apply sub_self]|exact He]. }
      unfold all_routed3 in *. destruct (handle k msg_id content) as [r0 d0]. exact H.
  Qed.
End Routing.

(* ---------- waiter registries: close + delete never closes twice ---------- *)
Lemma reg_find_open r id s : all_open r -> reg_find r id = Some s -> s = ChOpen.
Proof.
  induction r as [|[i st] t IH]; cbn [reg_find]; [discriminate|]. intros H. inversion H as [|? ? Hh Ht]; subst.
  destruct (i =? id); [intros E; inversion E; subst; exact Hh|apply IH, Ht].
Qed.
Lemma reg_delete_open r id : all_open r -> all_open (reg_delete r id).
Proof.
  induction r as [|[i st] t IH]; cbn [reg_delete]; intros H; [constructor|]. inversion H as [|? ? Hh Ht]; subst.
  destruct (i =? id); [apply IH, Ht|constructor; [exact Hh|apply IH, Ht]].
Qed.
Theorem close_all_no_panic ids : forall r, all_open r -> exists r', close_all r ids = Ok r' /\ all_open r'.
Proof.
  induction ids as [|id t IH]; intros r H; cbn [close_all]; [exists r; auto|].
  unfold close_delete. destruct (reg_find r id) as [s|] eqn:E; [|apply IH, H].
  rewrite (reg_find_open r id s H E). apply IH, reg_delete_open, H.
Qed.

