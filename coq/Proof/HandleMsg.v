(* Proofs for Model/HandleMsg.v (C23): handleMessage never panics, fuel = payload length
   suffices for container nesting, and every NotifyResult / NotifyError effect names the
   request id found in the (sub)message that caused it. *)
From Coq Require Import ZArith List Bool Lia.
From TD Require Import Lib.Bytes Lib.GoSem Lib.GoSlice Gen.TlConsts Gen.HandleConsts Model.TlPrim Proof.TlPrim Proof.TlSchema Model.HandleMsg.
Import ListNotations.
Open Scope Z_scope.

(* ---------- decoders: no panic, rests are byte strings that do not grow ---------- *)
Definition good {A} (b : list Z) (r : dres A) : Prop :=
  r <> Panic /\ (forall v r', r = Ok (v, r') -> bytes_ok r' /\ len r' <= len b).

Lemma decode_all_good ks : forall b, bytes_ok b -> good b (decode_all ks b).
Proof.
  induction ks as [|k ks IH]; intros b OK; cbn [decode_all].
  - split; [discriminate|]. intros v r E; inversion E; subst. split; [assumption|lia].
  - destruct (tlprim_good k b OK) as [NP HS].
    destruct (TlPrim.decode_prim k b) as [[p r0]|e|]; cbn [bind]; [|split; [discriminate|intros; discriminate]|congruence].
    destruct (HS p r0 eq_refl) as [OK0 L0]. destruct (IH r0 OK0) as [NP' HS'].
    destruct (decode_all ks r0) as [[ps r1]|e|]; cbn [bind]; [|split; [discriminate|intros; discriminate]|congruence].
    split; [discriminate|]. intros v r E; inversion E; subst. destruct (HS' ps r eq_refl). split; [assumption|lia].
Qed.

Ltac err_good := split; [discriminate|intros; discriminate].
Ltac dps ps a := destruct ps as [|[a|a|a|a|a|a|a|a] ps]; try err_good.

(* id + fixed fields + a total continuation that only inspects the decoded primitives *)
Lemma id_then_all_good {A} id ks (k : list prim -> list Z -> dres A) b :
  bytes_ok b ->
  (forall ps r, bytes_ok r -> len r <= len b -> good b (k ps r)) ->
  good b (do b1 <- consume_id id b; do (ps, r) <- decode_all ks b1; k ps r).
Proof.
  intros OK Hk. destruct (consume_id_good id b OK) as [NP HS].
  destruct (consume_id id b) as [b1|e|]; cbn [bind]; [|err_good|congruence].
  destruct (HS b1 eq_refl) as [OK1 L1]. destruct (decode_all_good ks b1 OK1) as [NP' HS'].
  destruct (decode_all ks b1) as [[ps r]|e|]; cbn [bind]; [|err_good|congruence].
  destruct (HS' ps r eq_refl). apply Hk; [assumption|lia].
Qed.

Lemma dec_session_good b : bytes_ok b -> good b (dec_session b).
Proof.
  intros OK. unfold dec_session. apply id_then_all_good; [exact OK|]. intros ps r OKr L.
  dps ps a1. dps ps a2. dps ps a3.
  destruct ps; [|err_good]. split; [discriminate|]. intros x r' E; inversion E; subst. auto.
Qed.
Lemma dec_pong_good b : bytes_ok b -> good b (dec_pong b).
Proof.
  intros OK. unfold dec_pong. apply id_then_all_good; [exact OK|]. intros ps r OKr L.
  dps ps a1. dps ps a2.
  destruct ps; [|err_good]. split; [discriminate|]. intros x r' E; inversion E; subst. auto.
Qed.
Lemma dec_rpc_error_good b : bytes_ok b -> good b (dec_rpc_error b).
Proof.
  intros OK. unfold dec_rpc_error. apply id_then_all_good; [exact OK|]. intros ps r OKr L.
  dps ps a1. dps ps a2.
  destruct ps; [|err_good]. split; [discriminate|]. intros x r' E; inversion E; subst. auto.
Qed.

Lemma id_long_all_good {A} id ks (k : Z -> list prim -> list Z -> dres A) b :
  bytes_ok b ->
  (forall i ps r, bytes_ok r -> len r <= len b -> good b (k i ps r)) ->
  good b (do b1 <- consume_id id b; do (i, b2) <- decode_long b1; do (ps, r) <- decode_all ks b2; k i ps r).
Proof.
  intros OK Hk. destruct (consume_id_good id b OK) as [NP HS].
  destruct (consume_id id b) as [b1|e|]; cbn [bind]; [|err_good|congruence].
  destruct (HS b1 eq_refl) as [OK1 L1]. destruct (decode_long_good b1 OK1) as [NP1 HS1].
  destruct (decode_long b1) as [[i b2]|e|]; cbn [bind]; [|err_good|congruence].
  destruct (HS1 i b2 eq_refl) as [OK2 L2]. destruct (decode_all_good ks b2 OK2) as [NP' HS'].
  destruct (decode_all ks b2) as [[ps r]|e|]; cbn [bind]; [|err_good|congruence].
  destruct (HS' ps r eq_refl). apply Hk; [assumption|lia].
Qed.
Lemma dec_bad_msg_good b : bytes_ok b -> good b (dec_bad_msg b).
Proof.
  intros OK. unfold dec_bad_msg. apply id_long_all_good; [exact OK|]. intros i ps r OKr L.
  dps ps a1. dps ps a2.
  destruct ps; [|err_good]. split; [discriminate|]. intros x r' E; inversion E; subst. auto.
Qed.
Lemma dec_bad_salt_good b : bytes_ok b -> good b (dec_bad_salt b).
Proof.
  intros OK. unfold dec_bad_salt. apply id_long_all_good; [exact OK|]. intros i ps r OKr L.
  dps ps a1. dps ps a2. dps ps a3.
  destruct ps; [|err_good]. split; [discriminate|]. intros x r' E; inversion E; subst. auto.
Qed.

Lemma dec_result_spec b :
  dec_result b <> Panic /\
  (forall i body r, dec_result b = Ok ((i, body), r) ->
     peek_id b = Ok c_ResultTypeID /\ decode_long (skipn 4 b) = Ok (i, body) /\ (bytes_ok b -> bytes_ok body)).
Proof.
  unfold dec_result.
  destruct (consume_id_spec c_ResultTypeID b) as [[_ E]|[[_ [_ E]]|[L [Eid E]]]]; rewrite E; cbn [bind].
  1,2: split; [discriminate|intros; discriminate].
  pose proof (decode_long_no_panic (skipn 4 b)) as NP.
  destruct (decode_long (skipn 4 b)) as [[i b2]|e|] eqn:EL; cbn [bind]; [|split; [discriminate|intros; discriminate]|congruence].
  split; [discriminate|]. intros i' body r H; inversion H; subst.
  split; [destruct (peek_id_spec b) as [[L' _]|[_ E']]; [lia|rewrite E', Eid; reflexivity]|].
  split; [reflexivity|]. intros OK. destruct (decode_long_good (skipn 4 b) (bytes_ok_skipn 4 b OK)) as [_ HS].
  rewrite EL in HS. apply (HS i' body eq_refl).
Qed.

Lemma dec_longs_good : forall k n b, bytes_ok b -> good b (dec_longs k n b).
Proof.
  induction k as [|k IH]; intros n b OK; cbn [dec_longs].
  - destruct (n <=? 0); [|err_good]. split; [discriminate|]. intros v r E; inversion E; subst. split; [assumption|lia].
  - destruct (n <=? 0); [split; [discriminate|]; intros v r E; inversion E; subst; split; [assumption|lia]|].
    destruct (decode_long_good b OK) as [NP HS].
    destruct (decode_long b) as [[v0 b1]|e|]; cbn [bind]; [|err_good|congruence].
    destruct (HS v0 b1 eq_refl) as [OK1 L1]. destruct (IH (n - 1) b1 OK1) as [NP' HS'].
    destruct (dec_longs k (n - 1) b1) as [[l b2]|e|]; cbn [bind]; [|err_good|congruence].
    split; [discriminate|]. intros v r E; inversion E; subst. destruct (HS' l r eq_refl). split; [assumption|lia].
Qed.
Lemma dec_acks_good b : bytes_ok b -> good b (dec_acks b).
Proof.
  intros OK. unfold dec_acks. destruct (consume_id_good c_mt_MsgsAckTypeID b OK) as [NP HS].
  destruct (consume_id c_mt_MsgsAckTypeID b) as [b1|e|]; cbn [bind]; [|err_good|congruence].
  destruct (HS b1 eq_refl) as [OK1 L1]. destruct (decode_vector_header_good b1 OK1) as [NP1 HS1].
  destruct (decode_vector_header b1) as [[n b2]|e|]; cbn [bind]; [|err_good|congruence].
  destruct (HS1 n b2 eq_refl) as [OK2 L2]. destruct (dec_longs_good (S (length b2)) n b2 OK2) as [NP2 HS2].
  split; [exact NP2|]. intros v r E. destruct (HS2 v r E). split; [assumption|lia].
Qed.
Lemma dec_salts_good : forall k n b, bytes_ok b -> good b (dec_salts k n b).
Proof.
  induction k as [|k IH]; intros n b OK; cbn [dec_salts].
  - destruct (n <=? 0); [|err_good]. split; [discriminate|]. intros v r E; inversion E; subst. split; [assumption|lia].
  - destruct (n <=? 0); [split; [discriminate|]; intros v r E; inversion E; subst; split; [assumption|lia]|].
    destruct (decode_all_good [KInt; KInt; KLong] b OK) as [NP HS].
    destruct (decode_all [KInt; KInt; KLong] b) as [[ps b3]|e|]; cbn [bind]; [|err_good|congruence].
    destruct (HS ps b3 eq_refl) as [OK3 L3].
    dps ps a1. dps ps a2. dps ps a3.
  destruct ps; [|err_good]. destruct (IH (n - 1) b3 OK3) as [NP' HS'].
    destruct (dec_salts k (n - 1) b3) as [[l b4]|e|]; cbn [bind]; [|err_good|congruence].
    split; [discriminate|]. intros x r E; inversion E; subst. destruct (HS' l r eq_refl). split; [assumption|lia].
Qed.
Lemma dec_future_salts_good b : bytes_ok b -> good b (dec_future_salts b).
Proof.
  intros OK. unfold dec_future_salts. apply id_then_all_good; [exact OK|]. intros ps r OKr L.
  dps ps a1. dps ps a2. dps ps a3.
  destruct ps; [|err_good]. destruct (dec_salts_good (S (length r)) a3 r OKr) as [NP HS].
  split; [exact NP|]. intros x r' E. destruct (HS x r' E). split; [assumption|lia].
Qed.

(* one container message: the body is a byte string, and body + rest fit into the input with
   16 bytes of header to spare *)
Lemma dec_msg_good b : bytes_ok b ->
  dec_msg b <> Panic /\
  (forall m r, dec_msg b = Ok (m, r) -> bytes_ok m /\ bytes_ok r /\ len m + len r + 16 <= len b).
Proof.
  intros OK. unfold dec_msg.
  assert (G : decode_all [KLong; KInt; KInt] b <> Panic /\
              forall ps r, decode_all [KLong; KInt; KInt] b = Ok (ps, r) -> bytes_ok r /\ len r + 16 <= len b).
  { cbn [decode_all].
    destruct (tlprim_good KLong b OK) as [NP0 HS0]. cbn [TlPrim.decode_prim] in *. unfold lift in *.
    destruct (decode_long_spec b) as [[_ E]|[L E]]; rewrite E in *; cbn [bind] in *; [err_good|].
    set (b1 := skipn 8 b) in *. assert (OK1 : bytes_ok b1) by (apply bytes_ok_skipn, OK).
    assert (L1 : len b1 + 8 <= len b) by (unfold b1; rewrite len_skipn; unfold len in *; lia).
    destruct (tlprim_good KInt b1 OK1) as [NP1 HS1]. cbn [TlPrim.decode_prim] in *. unfold lift in *.
    destruct (decode_int b1) as [[v1 b2]|e|]; cbn [bind] in *; [|err_good|congruence].
    destruct (HS1 (PInt v1) b2 eq_refl) as [OK2 L2].
    destruct (tlprim_good KInt b2 OK2) as [NP2 HS2]. cbn [TlPrim.decode_prim] in *. unfold lift in *.
    destruct (decode_int b2) as [[v2 b3]|e|]; cbn [bind] in *; [|err_good|congruence].
    destruct (HS2 (PInt v2) b3 eq_refl) as [OK3 L3].
    split; [discriminate|]. intros ps r H; inversion H; subst. split; [assumption|lia]. }
  destruct G as [NP HS]. destruct (decode_all [KLong; KInt; KInt] b) as [[ps b3]|e|]; cbn [bind]; [|err_good|congruence].
  destruct (HS ps b3 eq_refl) as [OK3 L3].
  dps ps a1. dps ps a2. dps ps a3.
  destruct ps; [|err_good].
  destruct ((a3 <? 0) || (a3 >? max_message_bytes)) eqn:R; [err_good|].
  apply orb_false_iff in R. destruct R as [R0 _]. apply Z.ltb_ge in R0.
  split; [apply take_no_panic; lia|]. intros m r E. destruct (take_ok_inv a3 b3 m r R0 E) as [S Lm].
  subst b3. apply bytes_ok_app in OK3. destruct OK3. rewrite len_app in L3. repeat split; try assumption; try lia.
Qed.
Lemma dec_msgs_good : forall k n b, bytes_ok b ->
  dec_msgs k n b <> Panic /\
  (forall l r, dec_msgs k n b = Ok (l, r) -> Forall (fun m => bytes_ok m /\ len m + 16 <= len b) l).
Proof.
  induction k as [|k IH]; intros n b OK; cbn [dec_msgs].
  - destruct (n <=? 0); [|err_good]. split; [discriminate|]. intros l r E; inversion E; subst. constructor.
  - destruct (n <=? 0); [split; [discriminate|]; intros l r E; inversion E; subst; constructor|].
    destruct (dec_msg_good b OK) as [NP HS].
    destruct (dec_msg b) as [[m b1]|e|]; cbn [bind]; [|err_good|congruence].
    destruct (HS m b1 eq_refl) as [OKm [OK1 L1]]. destruct (IH (n - 1) b1 OK1) as [NP' HS'].
    destruct (dec_msgs k (n - 1) b1) as [[l b2]|e|]; cbn [bind]; [|err_good|congruence].
    split; [discriminate|]. intros l' r E; inversion E; subst. constructor.
    + split; [assumption|]. pose proof (len_nonneg b1). lia.
    + specialize (HS' l r eq_refl). eapply Forall_impl; [|exact HS']. intros a [Ha La]. split; [assumption|]. pose proof (len_nonneg m). lia.
Qed.
Lemma dec_container_good b : bytes_ok b ->
  dec_container b <> Panic /\
  (forall l r, dec_container b = Ok (l, r) -> Forall (fun m => bytes_ok m /\ len m + 24 <= len b) l).
Proof.
  intros OK. unfold dec_container. destruct (consume_id_good c_MessageContainerTypeID b OK) as [NP HS].
  destruct (consume_id c_MessageContainerTypeID b) as [b1|e|]; cbn [bind]; [|err_good|congruence].
  destruct (HS b1 eq_refl) as [OK1 L1]. destruct (decode_int_good b1 OK1) as [NP1 HS1].
  destruct (decode_int b1) as [[n b2]|e|]; cbn [bind]; [|err_good|congruence].
  destruct (HS1 n b2 eq_refl) as [OK2 L2]. destruct (n <? 0); [err_good|].
  destruct (dec_msgs_good (S (length b2)) n b2 OK2) as [NP2 HS2].
  split; [exact NP2|]. intros l r E. specialize (HS2 l r E). eapply Forall_impl; [|exact HS2].
  intros a [Ha La]. split; [assumption|lia].
Qed.

Section HandleProofs.
  Variable gunzip : list Z -> option (list Z).
  Variable notify_ok : Z -> list Z -> bool.
  Variable on_message_ok : list Z -> bool.
  Variable on_session_ok : Z -> bool.
  Notation handle := (handle gunzip notify_ok on_message_ok on_session_ok).
  Notation dec_gzip := (dec_gzip gunzip).

  Lemma dec_gzip_good b : bytes_ok b ->
    dec_gzip b <> Panic /\ (forall d, dec_gzip b = Ok d -> bytes_ok d).
  Proof.
    intros OK. unfold HandleMsg.dec_gzip. destruct (consume_id_good c_GZIPTypeID b OK) as [NP HS].
    destruct (consume_id c_GZIPTypeID b) as [b1|e|]; cbn [bind]; [|split; [discriminate|intros; discriminate]|congruence].
    destruct (HS b1 eq_refl) as [OK1 _]. destruct (decode_bytes_good b1 OK1) as [NP1 _].
    destruct (decode_bytes b1) as [[z r]|e|]; cbn [bind]; [|split; [discriminate|intros; discriminate]|congruence].
    destruct (gunzip z) as [d|]; [|split; [discriminate|intros; discriminate]].
    destruct (bytes_okb d) eqn:Eb; cbn [andb]; [|split; [discriminate|intros; discriminate]].
    destruct (len d <? c_maxUncompressedSize); [|split; [discriminate|intros; discriminate]].
    split; [discriminate|]. intros d' E; inversion E; subst. apply bytes_okb_spec, Eb.
  Qed.

  (* ---------- leaves never panic ---------- *)
  Definition np (r : hres) : Prop := snd r <> SPanic.
  Definition nf (r : hres) : Prop := snd r <> SErr HFuel.
  Lemma lift_np {A} (d : res tl_err A) k : d <> Panic -> (forall a, d = Ok a -> np (k a)) -> np (lift_status d k).
  Proof. intros NP H. unfold lift_status. destruct d; [apply H; reflexivity|cbn; discriminate|congruence]. Qed.
  Lemma lift_nf {A} (d : res tl_err A) k : (forall a, d = Ok a -> nf (k a)) -> nf (lift_status d k).
  Proof. intros H. unfold lift_status. destruct d; [apply H; reflexivity|cbn; discriminate|cbn; discriminate]. Qed.

  Lemma handle_pong_np b : bytes_ok b -> np (handle_pong b).
  Proof. intros OK. apply lift_np; [apply dec_pong_good, OK|]. intros [p r] _. cbn. discriminate. Qed.
  Lemma handle_session_np b : bytes_ok b -> np (handle_session on_session_ok b).
  Proof. intros OK. apply lift_np; [apply dec_session_good, OK|]. intros [[[f u] s] r] _. cbn. destruct (on_session_ok s); discriminate. Qed.
  Lemma handle_bad_msg_np b : bytes_ok b -> np (handle_bad_msg b).
  Proof.
    intros OK. apply lift_np; [destruct (peek_id_spec b) as [[_ E]|[_ E]]; rewrite E; discriminate|].
    intros id _. destruct (id =? c_mt_BadMsgNotificationTypeID).
    - apply lift_np; [apply dec_bad_msg_good, OK|]. intros [[i c] r] _. cbn. discriminate.
    - destruct (id =? c_mt_BadServerSaltTypeID); [|cbn; discriminate].
      apply lift_np; [apply dec_bad_salt_good, OK|]. intros [[i c] r] _. cbn. discriminate.
  Qed.
  Lemma handle_future_salts_np b : bytes_ok b -> np (handle_future_salts b).
  Proof. intros OK. apply lift_np; [apply dec_future_salts_good, OK|]. intros [l r] _. cbn. discriminate. Qed.
  Lemma handle_ack_np b : bytes_ok b -> np (handle_ack b).
  Proof. intros OK. apply lift_np; [apply dec_acks_good, OK|]. intros [l r] _. cbn. discriminate. Qed.
  Lemma route_result_np req id c : bytes_ok c -> np (route_result notify_ok req id c).
  Proof.
    intros OK. unfold route_result. destruct (id =? c_mt_RPCErrorTypeID).
    - apply lift_np; [apply dec_rpc_error_good, OK|]. intros [code r] _. cbn. discriminate.
    - destruct (id =? c_mt_PongTypeID); [apply handle_pong_np, OK|]. cbn. destruct (notify_ok req c); discriminate.
  Qed.
  Lemma peek_np b : peek_id b <> Panic.
  Proof. destruct (peek_id_spec b) as [[_ E]|[_ E]]; rewrite E; discriminate. Qed.
  Lemma handle_result_np b : bytes_ok b -> np (handle_result gunzip notify_ok b).
  Proof.
    intros OK. destruct (dec_result_spec b) as [NP HS]. apply lift_np; [exact NP|].
    intros [[req body] r] E. destruct (HS req body r E) as [_ [_ OKb]]. specialize (OKb OK).
    apply lift_np; [apply peek_np|]. intros id _. destruct (id =? c_GZIPTypeID); [|apply route_result_np, OKb].
    destruct (dec_gzip_good body OKb) as [NPg HSg]. apply lift_np; [exact NPg|]. intros content Ec.
    apply lift_np; [apply peek_np|]. intros id' _. apply route_result_np, (HSg content Ec).
  Qed.

  Lemma run_msgs_np h msgs : Forall (fun m => np (h m)) msgs -> np (run_msgs h msgs).
  Proof.
    induction 1 as [|m l Hm Hl IH]; cbn [run_msgs]; [cbn; discriminate|].
    unfold np in *. destruct (h m) as [e1 s1]. cbn [snd] in Hm. destruct s1; cbn [snd]; try assumption.
    destruct (run_msgs h l) as [e2 s2]. cbn [snd] in *. exact IH.
  Qed.
  Lemma run_msgs_nf h msgs : Forall (fun m => nf (h m)) msgs -> nf (run_msgs h msgs).
  Proof.
    induction 1 as [|m l Hm Hl IH]; cbn [run_msgs]; [cbn; discriminate|].
    unfold nf in *. destruct (h m) as [e1 s1]. cbn [snd] in Hm. destruct s1; cbn [snd]; try assumption.
    destruct (run_msgs h l) as [e2 s2]. cbn [snd] in *. exact IH.
  Qed.

  (* ---------- leaves never run out of fuel ---------- *)
  Lemma handle_pong_nf b : nf (handle_pong b).
  Proof. apply lift_nf. intros [p r] _. cbn. discriminate. Qed.
  Lemma handle_session_nf b : nf (handle_session on_session_ok b).
  Proof. apply lift_nf. intros [[[f u] s] r] _. cbn. destruct (on_session_ok s); discriminate. Qed.
  Lemma handle_bad_msg_nf b : nf (handle_bad_msg b).
  Proof.
    apply lift_nf. intros id _. destruct (id =? c_mt_BadMsgNotificationTypeID).
    - apply lift_nf. intros [[i c] r] _. cbn. discriminate.
    - destruct (id =? c_mt_BadServerSaltTypeID); [|cbn; discriminate]. apply lift_nf. intros [[i c] r] _. cbn. discriminate.
  Qed.
  Lemma handle_future_salts_nf b : nf (handle_future_salts b).
  Proof. apply lift_nf. intros [l r] _. cbn. discriminate. Qed.
  Lemma handle_ack_nf b : nf (handle_ack b).
  Proof. apply lift_nf. intros [l r] _. cbn. discriminate. Qed.
  Lemma route_result_nf req id c : nf (route_result notify_ok req id c).
  Proof.
    unfold route_result. destruct (id =? c_mt_RPCErrorTypeID).
    - apply lift_nf. intros [code r] _. cbn. discriminate.
    - destruct (id =? c_mt_PongTypeID); [apply handle_pong_nf|]. cbn. destruct (notify_ok req c); discriminate.
  Qed.
  Lemma handle_result_nf b : nf (handle_result gunzip notify_ok b).
  Proof.
    apply lift_nf. intros [[req body] r] _. apply lift_nf. intros id _.
    destruct (id =? c_GZIPTypeID); [|apply route_result_nf].
    apply lift_nf. intros content _. apply lift_nf. intros id' _. apply route_result_nf.
  Qed.

  (* ---------- C23_total ---------- *)
  Ltac leaf_np OK :=
    lazymatch goal with
    | |- np (handle_session _ _) => apply handle_session_np, OK
    | |- np (handle_bad_msg _) => apply handle_bad_msg_np, OK
    | |- np (handle_future_salts _) => apply handle_future_salts_np, OK
    | |- np (handle_result _ _ _) => apply handle_result_np, OK
    | |- np (handle_pong _) => apply handle_pong_np, OK
    | |- np (handle_ack _) => apply handle_ack_np, OK
    | |- np ([], SOk) => cbn; discriminate
    | |- np ([EOnMessage _], _) => cbn; destruct (on_message_ok _); discriminate
    | _ => idtac
    end.
  Ltac leaf_nf :=
    lazymatch goal with
    | |- nf (handle_session _ _) => apply handle_session_nf
    | |- nf (handle_bad_msg _) => apply handle_bad_msg_nf
    | |- nf (handle_future_salts _) => apply handle_future_salts_nf
    | |- nf (handle_result _ _ _) => apply handle_result_nf
    | |- nf (handle_pong _) => apply handle_pong_nf
    | |- nf (handle_ack _) => apply handle_ack_nf
    | |- nf ([], SOk) => cbn; discriminate
    | |- nf ([EOnMessage _], _) => cbn; destruct (on_message_ok _); discriminate
    | _ => idtac
    end.

  Theorem handle_np : forall gz fuel msg_id b, bytes_ok b -> np (handle gz fuel msg_id b).
  Proof.
    induction gz as [|gz IHgz]; induction fuel as [|fuel IHf]; intros msg_id b OK; cbn [HandleMsg.handle];
      (apply lift_np; [apply peek_np|]); intros id _; destruct (handle_dispatch id); leaf_np OK.
    (* container / gzip, for each of the four (gz, fuel) shapes *)
    all: lazymatch goal with
         | |- np (lift_status (dec_container _) _) =>
             destruct (dec_container_good b OK) as [NPc HSc]; apply lift_np; [exact NPc|]; intros [msgs r] E;
             first [ cbn; discriminate
                   | apply run_msgs_np; specialize (HSc msgs r E); eapply Forall_impl; [|exact HSc];
                     intros m [OKm _]; apply IHf, OKm ]
         | |- np (lift_status (HandleMsg.dec_gzip _ _) _) =>
             destruct (dec_gzip_good b OK) as [NPg HSg]; apply lift_np; [exact NPg|]; intros content E;
             first [ cbn; discriminate | apply IHgz, (HSg content E) ]
         end.
  Qed.

  Theorem handle_nf : forall gz fuel msg_id b, bytes_ok b -> len b <= Z.of_nat fuel -> nf (handle gz fuel msg_id b).
  Proof.
    induction gz as [|gz IHgz]; induction fuel as [|fuel IHf]; intros msg_id b OK LB; cbn [HandleMsg.handle];
      apply lift_nf; intros id Eid;
      (assert (L4 : 4 <= len b) by (destruct (peek_id_spec b) as [[_ E]|[L _]]; [rewrite E in Eid; discriminate|exact L]));
      try (exfalso; change (Z.of_nat 0) with 0 in LB; lia);
      destruct (handle_dispatch id); leaf_nf.
    all: lazymatch goal with
         | |- nf (lift_status (dec_container _) _) =>
             apply lift_nf; intros [msgs r] E; destruct (dec_container_good b OK) as [_ HSc]; specialize (HSc msgs r E);
             apply run_msgs_nf; eapply Forall_impl; [|exact HSc]; intros m [OKm Lm]; apply IHf; [exact OKm|lia]
         | |- nf (lift_status (HandleMsg.dec_gzip _ _) _) =>
             apply lift_nf; intros content E;
             first [ cbn; discriminate
                   | destruct (dec_gzip_good b OK) as [_ HSg]; apply IHgz; [apply (HSg content E)|unfold len; lia] ]
         end.
  Qed.
End HandleProofs.

(* ---------- C23_routing ---------- *)
Lemma dispatch_result id : handle_dispatch id = T_handleResult -> id = c_ResultTypeID.
Proof.
  unfold handle_dispatch, c_ResultTypeID.
  repeat match goal with |- context [if ?x =? ?k then _ else _] => destruct (Z.eqb_spec x k) end;
    intros H; try discriminate H; subst; reflexivity.
Qed.
Lemma dispatch_container id : handle_dispatch id = T_handleContainer -> id = c_MessageContainerTypeID.
Proof.
  unfold handle_dispatch, c_MessageContainerTypeID.
  repeat match goal with |- context [if ?x =? ?k then _ else _] => destruct (Z.eqb_spec x k) end;
    intros H; try discriminate H; subst; reflexivity.
Qed.
Lemma dispatch_gzip id : handle_dispatch id = T_handleGZIP -> id = c_GZIPTypeID.
Proof.
  unfold handle_dispatch, c_GZIPTypeID.
  repeat match goal with |- context [if ?x =? ?k then _ else _] => destruct (Z.eqb_spec x k) end;
    intros H; try discriminate H; subst; reflexivity.
Qed.

Lemma consume_id_ok id b b1 : consume_id id b = Ok b1 -> peek_id b = Ok id /\ b1 = skipn 4 b.
Proof.
  intros H. destruct (consume_id_spec id b) as [[_ E]|[[_ [_ E]]|[L [Eid E]]]]; rewrite E in H; try discriminate.
  inversion H; subst. split; [|reflexivity].
  destruct (peek_id_spec b) as [[L' _]|[_ E']]; [lia|rewrite E'; reflexivity].
Qed.

Section Routing.
  Variable gunzip : list Z -> option (list Z).
  Variable notify_ok : Z -> list Z -> bool.
  Variable on_message_ok : list Z -> bool.
  Variable on_session_ok : Z -> bool.
  Notation handle := (handle gunzip notify_ok on_message_ok on_session_ok).
  Notation submsg := (submsg gunzip).
  Notation routed := (routed gunzip).

  Lemma submsg_trans a b c : submsg a b -> submsg b c -> submsg a c.
  Proof.
    induction 1 as [b|b msgs rest m x P D I S IH|b content x P D S IH]; intros H; [exact H| |].
    - eapply sub_container; eauto.
    - eapply sub_gzip; eauto.
  Qed.
  Lemma routed_sub b m e : submsg b m -> routed m e -> routed b e.
  Proof.
    intros S. destruct e; cbn [HandleMsg.routed]; try (intros; exact I).
    - intros [x [Sx N]]. exists x. split; [eapply submsg_trans; eauto|exact N].
    - intros [x [Sx N]]. exists x. split; [eapply submsg_trans; eauto|exact N].
  Qed.

  Definition all_routed (b : list Z) (r : hres) : Prop := Forall (routed b) (fst r).

  Lemma lift_routed {A} b (d : res tl_err A) k : (forall a, d = Ok a -> all_routed b (k a)) -> all_routed b (lift_status d k).
  Proof. intros H. unfold lift_status. destruct d; [apply H; reflexivity|constructor|constructor]. Qed.

  Lemma pong_routed b c : all_routed b (handle_pong c).
  Proof. apply lift_routed. intros [p r] _. repeat constructor. Qed.
  Lemma session_routed b : all_routed b (handle_session on_session_ok b).
  Proof. apply lift_routed. intros [[[f u] s] r] _. repeat constructor. Qed.
  Lemma salts_routed b : all_routed b (handle_future_salts b).
  Proof. apply lift_routed. intros [l r] _. repeat constructor. Qed.
  Lemma ack_routed b : all_routed b (handle_ack b).
  Proof. apply lift_routed. intros [l r] _. repeat constructor. Qed.

  Lemma bad_msg_routed b : all_routed b (handle_bad_msg b).
  Proof.
    apply lift_routed. intros id Eid. destruct (id =? c_mt_BadMsgNotificationTypeID).
    - apply lift_routed. intros [[i c] r] E. constructor; [|constructor]. cbn [HandleMsg.routed].
      exists b. split; [apply sub_self|]. right; left. unfold dec_bad_msg in E.
      destruct (consume_id c_mt_BadMsgNotificationTypeID b) as [b1|e|] eqn:EC; cbn [bind] in E; try discriminate.
      destruct (consume_id_ok _ _ _ EC) as [P ->].
      destruct (decode_long (skipn 4 b)) as [[i' b2]|e|] eqn:EL; cbn [bind] in E; try discriminate.
      destruct (decode_all [KInt; KInt] b2) as [[ps r']|e|]; cbn [bind] in E; try discriminate.
      dps ps a1; try discriminate. dps ps a2; try discriminate. destruct ps; try discriminate.
      inversion E; subst. split; [exact P|]. unfold id_field. rewrite EL. reflexivity.
    - destruct (id =? c_mt_BadServerSaltTypeID); [|constructor].
      apply lift_routed. intros [[i c] r] E. constructor; [|constructor]. cbn [HandleMsg.routed].
      exists b. split; [apply sub_self|]. right; right. unfold dec_bad_salt in E.
      destruct (consume_id c_mt_BadServerSaltTypeID b) as [b1|e|] eqn:EC; cbn [bind] in E; try discriminate.
      destruct (consume_id_ok _ _ _ EC) as [P ->].
      destruct (decode_long (skipn 4 b)) as [[i' b2]|e|] eqn:EL; cbn [bind] in E; try discriminate.
      destruct (decode_all [KInt; KInt; KLong] b2) as [[ps r']|e|]; cbn [bind] in E; try discriminate.
      dps ps a1; try discriminate. dps ps a2; try discriminate. dps ps a3; try discriminate. destruct ps; try discriminate.
      inversion E; subst. split; [exact P|]. unfold id_field. rewrite EL. reflexivity.
  Qed.

  Lemma route_result_routed b req id c : names b c_ResultTypeID req -> all_routed b (route_result notify_ok req id c).
  Proof.
    intros N. unfold route_result. destruct (id =? c_mt_RPCErrorTypeID).
    - apply lift_routed. intros [code r] _. constructor; [|constructor]. cbn [HandleMsg.routed].
      exists b. split; [apply sub_self|left; exact N].
    - destruct (id =? c_mt_PongTypeID); [apply pong_routed|].
      constructor; [|constructor]. cbn [HandleMsg.routed]. exists b. split; [apply sub_self|exact N].
  Qed.
  Lemma result_routed b : all_routed b (handle_result gunzip notify_ok b).
  Proof.
    apply lift_routed. intros [[req body] r] E.
    destruct (dec_result_spec b) as [_ HS]. destruct (HS req body r E) as [P [EL _]].
    assert (N : names b c_ResultTypeID req) by (split; [exact P|unfold id_field; rewrite EL; reflexivity]).
    apply lift_routed. intros id _. destruct (id =? c_GZIPTypeID); [|apply route_result_routed, N].
    apply lift_routed. intros content _. apply lift_routed. intros id' _. apply route_result_routed, N.
  Qed.

  Lemma run_msgs_routed b h msgs :
    Forall (fun m => submsg b m /\ all_routed m (h m)) msgs -> all_routed b (run_msgs h msgs).
  Proof.
    induction 1 as [|m l [Sm Hm] Hl IH]; cbn [run_msgs]; [constructor|].
    unfold all_routed in *. destruct (h m) as [e1 s1]. cbn [fst] in Hm.
    assert (H1 : Forall (routed b) e1).
    { eapply Forall_impl; [|exact Hm]. intros e He. eapply routed_sub; eauto. }
    destruct s1; cbn [fst]; try exact H1.
    destruct (run_msgs h l) as [e2 s2]. cbn [fst] in *. apply Forall_app. split; assumption.
  Qed.

  Ltac leaf_rt :=
    lazymatch goal with
    | |- all_routed _ (handle_session _ _) => apply session_routed
    | |- all_routed _ (handle_bad_msg _) => apply bad_msg_routed
    | |- all_routed _ (handle_future_salts _) => apply salts_routed
    | |- all_routed _ (handle_result _ _ _) => apply result_routed
    | |- all_routed _ (handle_pong _) => apply pong_routed
    | |- all_routed _ (handle_ack _) => apply ack_routed
    | |- all_routed _ ([], SOk) => constructor
    | |- all_routed _ ([EOnMessage _], _) => repeat constructor
    | _ => idtac
    end.

  Theorem handle_routed : forall gz fuel msg_id b, all_routed b (handle gz fuel msg_id b).
  Proof.
    induction gz as [|gz IHgz]; induction fuel as [|fuel IHf]; intros msg_id b; cbn [HandleMsg.handle];
      apply lift_routed; intros id Eid; destruct (handle_dispatch id) eqn:D; leaf_rt.
    all: lazymatch goal with
         | |- all_routed _ (lift_status (dec_container _) _) =>
             apply dispatch_container in D; subst id; apply lift_routed; intros [msgs r] E;
             first [ constructor
                   | apply run_msgs_routed; apply Forall_forall; intros m Im; split;
                     [eapply sub_container; [exact Eid|exact E|exact Im|apply sub_self]|apply IHf] ]
         | |- all_routed _ (lift_status (HandleMsg.dec_gzip _ _) _) =>
             apply dispatch_gzip in D; subst id; apply lift_routed; intros content E;
             first [ constructor
                   | unfold all_routed; eapply Forall_impl; [|apply (IHgz (length content) msg_id content)];
                     intros e He; eapply routed_sub; [eapply sub_gzip; [exact Eid|exact E|apply sub_self]|exact He] ]
         end.
  Qed.
End Routing.
