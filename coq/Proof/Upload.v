(* Proofs for Model/Upload.v (C32). *)
From Coq Require Import ZArith List Bool Lia Permutation.
From TD Require Import Gen.UploadPart Model.Upload.
Import ListNotations.
Open Scope Z_scope.

(* ---------- computeParts = ceiling division ---------- *)

Lemma compute_parts_nonpos p total : total <= 0 -> compute_parts_go p total = 0.
Proof. intros H; unfold compute_parts_go. destruct (Z.leb_spec total 0); [reflexivity|lia]. Qed.

Lemma compute_parts_spec p total :
  0 < p -> 0 < total ->
  (compute_parts_go p total - 1) * p < total <= compute_parts_go p total * p.
Proof.
  intros Hp Ht. unfold compute_parts_go.
  destruct (Z.leb_spec total 0); [lia|].
  rewrite Z.quot_div_nonneg, Z.rem_mod_nonneg by lia.
  pose proof (Z.div_mod total p ltac:(lia)) as Hdm. pose proof (Z.mod_pos_bound total p Hp) as Hb.
  destruct (Z.eqb_spec (total mod p) 0) as [E|E]; cbn [negb]; nia.
Qed.

Lemma compute_parts_ceil p total : 0 < p -> 0 < total -> compute_parts_go p total = (total + p - 1) / p.
Proof.
  intros Hp Ht. pose proof (compute_parts_spec p total Hp Ht) as H.
  apply Z.div_unique with (r := total + p - 1 - p * compute_parts_go p total); lia.
Qed.

Lemma compute_parts_mono p q total : 0 < p -> p <= q -> 0 < total -> compute_parts_go q total <= compute_parts_go p total.
Proof.
  intros Hp Hq Ht. pose proof (compute_parts_spec p total Hp Ht) as H1. pose proof (compute_parts_spec q total ltac:(lia) Ht) as H2.
  set (a := compute_parts_go p total) in *. set (b := compute_parts_go q total) in *.
  destruct (Z_le_gt_dec b a) as [|Hgt]; [assumption|exfalso].
  assert (0 < a) by nia.
  assert (a * p <= (b - 1) * q) by (apply Z.mul_le_mono_nonneg; lia). lia.
Qed.

(* ---------- computePartSize ---------- *)

Lemma cps_loop_S f ps total :
  cps_loop (S f) ps total =
  if compute_part_size_cond ps total then cps_loop f (compute_part_size_step ps total) total else Some ps.
Proof. reflexivity. Qed.

Definition valid_auto_size (ps : Z) : Prop := ps = 131072 \/ ps = 262144 \/ ps = 524288.

(* the loop terminates for every total (64 is more than enough: at most two doublings), the
   result is one of the three valid sizes, it keeps the file within the parts limit whenever
   any valid size does, and it is the smallest such size *)
Lemma cps_correct total :
  exists ps, compute_part_size total = Some ps /\ valid_auto_size ps /\ check_part_size_go ps = 0 /\
    (total <= c_partsLimit * c_MaximumPartSize -> compute_parts_go ps total <= c_partsLimit) /\
    (c_defaultPartSize < ps -> c_partsLimit < compute_parts_go (ps / 2) total).
Proof.
  unfold compute_part_size, compute_part_size_init. rewrite cps_loop_S.
  unfold compute_part_size_cond at 1.
  destruct (compute_parts_go c_defaultPartSize total >? c_partsLimit) eqn:E1.
  - replace (c_defaultPartSize <? c_MaximumPartSize) with true by reflexivity. cbn [andb].
    rewrite cps_loop_S. unfold compute_part_size_cond at 1.
    replace (compute_part_size_step c_defaultPartSize total) with 262144 by reflexivity.
    destruct (compute_parts_go 262144 total >? c_partsLimit) eqn:E2.
    + replace (262144 <? c_MaximumPartSize) with true by reflexivity. cbn [andb].
      rewrite cps_loop_S. unfold compute_part_size_cond at 1.
      replace (compute_part_size_step 262144 total) with 524288 by reflexivity.
      replace (524288 <? c_MaximumPartSize) with false by reflexivity. cbn [andb].
      exists 524288. split; [reflexivity|]. split; [right; right; reflexivity|]. split; [reflexivity|].
      split.
      * intros Hle. unfold c_partsLimit, c_MaximumPartSize in *.
        destruct (Z_le_gt_dec total 0) as [Hn|Hpos]; [rewrite compute_parts_nonpos by lia; lia|].
        pose proof (compute_parts_spec 524288 total ltac:(lia) ltac:(lia)). nia.
      * intros _. replace (524288 / 2) with 262144 by reflexivity. apply Z.gtb_lt in E2. lia.
    + rewrite andb_false_r. exists 262144. split; [reflexivity|]. split; [right; left; reflexivity|].
      split; [reflexivity|]. split.
      * intros _. destruct (Z.gtb_spec (compute_parts_go 262144 total) c_partsLimit); [discriminate|lia].
      * intros _. replace (262144 / 2) with c_defaultPartSize by reflexivity. apply Z.gtb_lt in E1. lia.
  - rewrite andb_false_r. exists c_defaultPartSize. split; [reflexivity|]. split; [left; reflexivity|].
    split; [reflexivity|]. split.
    + intros _. destruct (Z.gtb_spec (compute_parts_go c_defaultPartSize total) c_partsLimit); [discriminate|lia].
    + unfold c_defaultPartSize; lia.
Qed.

Lemma cps_terminates total : compute_part_size total <> None.
Proof. destruct (cps_correct total) as (ps & H & _). congruence. Qed.

(* ---------- checkPartSize ---------- *)

Lemma check_part_size_ok ps :
  check_part_size_go ps = 0 <-> ps <> 0 /\ Z.rem ps c_paddingPartSize = 0 /\ Z.rem c_MaximumPartSize ps = 0.
Proof.
  unfold check_part_size_go.
  destruct (Z.eqb_spec ps 0); [split; [discriminate|intros [? _]; contradiction]|].
  destruct (Z.eqb_spec (Z.rem ps c_paddingPartSize) 0); cbn [negb];
    [|split; [discriminate|intros (_ & ? & _); contradiction]].
  destruct (Z.eqb_spec (Z.rem c_MaximumPartSize ps) 0); cbn [negb];
    [|split; [discriminate|intros (_ & _ & ?); contradiction]].
  split; auto.
Qed.

(* a valid part size is a positive multiple of 1 KiB of at most 512 KiB *)
Lemma check_part_size_range ps : check_part_size_go ps = 0 -> 0 < ps -> 1024 <= ps <= 524288.
Proof.
  intros H Hpos. apply check_part_size_ok in H. destruct H as (_ & H1 & H2).
  unfold c_paddingPartSize, c_MaximumPartSize in *.
  rewrite Z.rem_mod_nonneg in H1, H2 by lia.
  apply Z.mod_divide in H1, H2; try lia. destruct H1 as [a Ha], H2 as [b Hb].
  assert (0 < a) by nia. assert (0 < b) by nia. split; nia.
Qed.

(* ---------- the plan of Uploader.Upload ---------- *)

Lemma upload_plan_inv auto cfg total ps big tp :
  upload_plan auto cfg total = Plan ps big tp ->
  check_part_size_go ps = 0 /\
  (if auto && (total >? 0) then compute_part_size total = Some ps else ps = cfg) /\
  (total = -1 -> big = true /\ tp = -1) /\
  (total <> -1 -> big = (total >? c_bigFileLimit) /\ tp = compute_parts_go ps total /\
                  (big = false -> tp <= c_partsLimit)).
Proof.
  unfold upload_plan. intros H.
  destruct (if auto && (total >? 0) then compute_part_size total else Some cfg) as [ps0|] eqn:Eps; [|discriminate].
  destruct (check_part_size_go ps0 =? 0) eqn:Ec; cbn [negb] in H; [|discriminate].
  apply Z.eqb_eq in Ec.
  destruct (init_upload_too_many (init_upload_big total) (compute_parts_go ps0 total)) eqn:Et; [discriminate|].
  unfold init_upload_too_many, init_upload_big in *.
  destruct (total =? -1) eqn:E1; inversion H; subst; clear H.
  - apply Z.eqb_eq in E1. split; [exact Ec|]. split.
    + destruct (auto && (total >? 0)); [exact Eps|congruence].
    + split; [auto|intros; contradiction].
  - apply Z.eqb_neq in E1. split; [exact Ec|]. split.
    + destruct (auto && (total >? 0)); [exact Eps|congruence].
    + split; [intros; contradiction|]. intros _. split; [reflexivity|]. split; [reflexivity|].
      intros Hb. rewrite Hb in Et. cbn [negb andb] in Et.
      match type of Et with (?x >? _) = false => destruct (Z.gtb_spec x c_partsLimit); [discriminate|lia] end.
Qed.

(* ---------- io.ReadFull chunking ---------- *)

Section Chunks.
Context {B : Type}.
Variable p : nat.
Hypothesis Hp : (1 <= p)%nat.

Lemma chunks_fuel_concat : forall fuel (src : list B), (length src <= fuel)%nat -> concat (chunks_fuel fuel p src) = src.
Proof.
  induction fuel as [|f IH]; intros src Hl.
  - destruct src; [reflexivity|cbn in Hl; lia].
  - destruct src as [|x t]; [reflexivity|]. cbn [chunks_fuel concat].
    rewrite IH; [apply firstn_skipn|]. rewrite skipn_length. cbn [length] in *. lia.
Qed.

Theorem chunks_concat (src : list B) : concat (chunks p src) = src.
Proof. apply chunks_fuel_concat; lia. Qed.

(* all parts but the last have length p, the last one is non-empty and at most p *)
Fixpoint wf_chunks (cs : list (list B)) : Prop :=
  match cs with
  | [] => True
  | c :: t => match t with
              | [] => (0 < length c <= p)%nat
              | _ => length c = p /\ wf_chunks t
              end
  end.

Lemma chunks_fuel_wf : forall fuel (src : list B), (length src <= fuel)%nat -> wf_chunks (chunks_fuel fuel p src).
Proof.
  induction fuel as [|f IH]; intros src Hl; [exact I|].
  destruct src as [|x t]; [exact I|].
  assert (length (skipn p (x :: t)) <= f)%nat as Hsk by (rewrite skipn_length; cbn [length] in *; lia).
  specialize (IH (skipn p (x :: t)) Hsk).
  cbn [chunks_fuel wf_chunks].
  destruct (chunks_fuel f p (skipn p (x :: t))) as [|c2 t2] eqn:E.
  - rewrite firstn_length. cbn [length]. lia.
  - split; [|exact IH].
    rewrite firstn_length. apply Nat.min_l.
    destruct (Nat.le_gt_cases p (length (x :: t))) as [|Hlt]; [assumption|].
    assert (skipn p (x :: t) = []) as Hnil by (apply skipn_all2; lia).
    rewrite Hnil in E. destruct f; discriminate.
Qed.

Theorem chunks_wf (src : list B) : wf_chunks (chunks p src).
Proof. apply chunks_fuel_wf; lia. Qed.
End Chunks.

(* ---------- parts with an abstract payload ---------- *)

Section Parts.
Variable A : Type.
Variable alen : A -> Z.
Variable p : Z.
Hypothesis Hp : 0 < p.

Fixpoint wf_parts (cs : list A) : Prop :=
  match cs with
  | [] => True
  | c :: t => match t with
              | [] => 0 < alen c <= p
              | _ => alen c = p /\ wf_parts t
              end
  end.

Fixpoint total_len (cs : list A) : Z :=
  match cs with [] => 0 | c :: t => alen c + total_len t end.

Lemma total_len_app a b : total_len (a ++ b) = total_len a + total_len b.
Proof. induction a; cbn; lia. Qed.

Lemma wf_parts_tail c t : wf_parts (c :: t) -> wf_parts t.
Proof. cbn. destruct t; [intros; exact I|intros [_ H]; exact H]. Qed.

Lemma wf_parts_skipn k cs : wf_parts cs -> wf_parts (skipn k cs).
Proof.
  revert cs; induction k as [|k IH]; intros cs H; [exact H|].
  destruct cs; [exact I|]. cbn [skipn]. apply IH. eapply wf_parts_tail; exact H.
Qed.

Lemma wf_parts_short_last c t : wf_parts (c :: t) -> alen c < p -> t = [].
Proof. cbn. destruct t; [reflexivity|intros [H _]; lia]. Qed.

Lemma wf_parts_head c t : wf_parts (c :: t) -> 0 < alen c <= p.
Proof. cbn. destruct t; [auto|intros [H _]; lia]. Qed.

(* the number of parts is the ceiling of size / p *)
Lemma wf_parts_count cs :
  wf_parts cs -> cs <> [] ->
  0 < total_len cs /\ (Z.of_nat (length cs) - 1) * p < total_len cs <= Z.of_nat (length cs) * p.
Proof.
  induction cs as [|c t IH]; intros Hw Hne; [contradiction|].
  destruct t as [|c2 t2].
  - cbn [wf_parts total_len length] in *. change (Z.of_nat 1) with 1. lia.
  - destruct Hw as [Hc Hw]. destruct (IH Hw ltac:(discriminate)) as [H1 H2].
    cbn [total_len length] in *. rewrite Hc. nia.
Qed.

Lemma wf_parts_compute cs : wf_parts cs -> compute_parts_go p (total_len cs) = Z.of_nat (length cs).
Proof.
  intros Hw. destruct cs as [|c t] eqn:E; [reflexivity|]. rewrite <- E in *.
  destruct (wf_parts_count cs Hw ltac:(subst; discriminate)) as [H1 H2].
  pose proof (compute_parts_spec p (total_len cs) Hp H1) as H3.
  set (a := compute_parts_go p (total_len cs)) in *. set (n := Z.of_nat (length cs)) in *. nia.
Qed.

Lemma wf_parts_quot cs : wf_parts cs -> cs <> [] -> Z.quot (total_len cs + p - 1) p = Z.of_nat (length cs).
Proof.
  intros Hw Hne. destruct (wf_parts_count cs Hw Hne) as [H1 H2].
  rewrite Z.quot_div_nonneg by lia. rewrite <- compute_parts_ceil by lia. apply wf_parts_compute; exact Hw.
Qed.
End Parts.

(* chunks of a byte list are well-formed parts *)
Lemma chunks_wf_parts {B} (p : nat) (src : list B) :
  (1 <= p)%nat -> wf_parts (list B) (fun c => Z.of_nat (length c)) (Z.of_nat p) (chunks p src).
Proof.
  intros Hp. pose proof (chunks_wf p Hp src) as H. induction (chunks p src) as [|c t IH]; [exact I|].
  cbn in *. destruct t; [lia|]. destruct H as [H1 H2]. split; [lia|apply IH; exact H2].
Qed.

Lemma total_len_concat {B} (cs : list (list B)) :
  total_len (list B) (fun c => Z.of_nat (length c)) cs = Z.of_nat (length (concat cs)).
Proof. induction cs as [|c t IH]; [reflexivity|]. cbn. rewrite app_length, IH. lia. Qed.

Theorem chunks_count {B} (p : nat) (src : list B) :
  (1 <= p)%nat -> Z.of_nat (length (chunks p src)) = compute_parts_go (Z.of_nat p) (Z.of_nat (length src)).
Proof.
  intros Hp. symmetry. rewrite <- (chunks_concat p Hp src) at 1. rewrite <- total_len_concat.
  apply wf_parts_compute; [lia|apply chunks_wf_parts; exact Hp].
Qed.

(* ---------- smallLoop ---------- *)

Section Small.
Variable A : Type.

Definition is_true (r : resp) : bool := match r with RTrue => true | _ => false end.
Definition s_acc (l : list (sreq A)) : list (Z * A) :=
  map (fun q => (sq_part q, sq_data q)) (filter (fun q => is_true (sq_resp q)) l).

Lemma s_acc_app a b : s_acc (a ++ b) = s_acc a ++ s_acc b.
Proof. unfold s_acc. rewrite filter_app, map_app. reflexivity. Qed.

(* one part: every request carries this part; exactly one is accepted iff the loop left with Done *)
Lemma small_part_spec id c : forall env l e o,
  small_part id c env = (l, e, o) ->
  Forall (fun q => sq_part q = Z.rem id c_partsLimit /\ sq_data q = c) l /\
  s_acc l = (if match o with Done => true | _ => false end then [(Z.rem id c_partsLimit, c)] else []) /\
  (o = Done -> exists k, l = k ++ [{| sq_part := Z.rem id c_partsLimit; sq_data := c; sq_resp := RTrue |}] /\
                         Forall (fun q => sq_resp q = RFalse \/ sq_resp q = RFlood) k).
Proof.
  induction env as [|r env IH]; intros l e o H; cbn [small_part] in H.
  - inversion H; subst. repeat split; auto. discriminate.
  - destruct r.
    + inversion H; subst. split; [repeat constructor|]. split; [reflexivity|]. intros _. exists []. split; [reflexivity|constructor].
    + destruct (small_part id c env) as [[l1 e1] o1] eqn:E. inversion H; subst.
      destruct (IH _ _ _ eq_refl) as (F & Ac & K). split; [constructor; auto|]. split; [exact Ac|].
      intros Ho. destruct (K Ho) as (k & -> & Fk). eexists (_ :: k). split; [reflexivity|]. constructor; auto.
    + destruct (small_part id c env) as [[l1 e1] o1] eqn:E. inversion H; subst.
      destruct (IH _ _ _ eq_refl) as (F & Ac & K). split; [constructor; auto|]. split; [exact Ac|].
      intros Ho. destruct (K Ho) as (k & -> & Fk). eexists (_ :: k). split; [reflexivity|]. constructor; auto.
    + inversion H; subst. split; [repeat constructor|]. split; [reflexivity|]. discriminate.
Qed.

Definition rem_ids (l : list (Z * A)) : list (Z * A) := map (fun ic => (Z.rem (fst ic) c_partsLimit, snd ic)) l.

(* the whole loop: the accepted requests are the parts read so far, in order, each exactly once;
   when the loop returns nil they are all the parts and sentParts counts them *)
Lemma small_loop_spec : forall (cs : list A) sent env log n o,
  small_loop cs sent env = (log, n, o) ->
  exists k, (k <= length cs)%nat /\ s_acc log = rem_ids (firstn k (index_from sent cs)) /\ n = sent + Z.of_nat k /\
            (o = Done -> k = length cs).
Proof.
  induction cs as [|c cs IH]; intros sent env log n o H; cbn [small_loop] in H.
  - inversion H; subst. exists 0%nat. split; [cbn; lia|]. split; [reflexivity|]. split; [lia|reflexivity].
  - destruct (small_part sent c env) as [[l e] o1] eqn:E.
    destruct (small_part_spec _ _ _ _ _ _ E) as (F & Ac & _).
    destruct o1.
    + destruct (small_loop cs (sent + 1) e) as [[l' s'] o'] eqn:E2. inversion H; subst.
      destruct (IH _ _ _ _ _ E2) as (k & Hk & Ac2 & Hn & Hd).
      exists (S k). split; [cbn; lia|]. split.
      * rewrite s_acc_app, Ac, Ac2. reflexivity.
      * split; [lia|]. intros Ho; cbn [length]; f_equal; auto.
    + inversion H; subst. exists 0%nat. split; [lia|]. split; [exact Ac|]. split; [lia|discriminate].
    + inversion H; subst. exists 0%nat. split; [lia|]. split; [exact Ac|]. split; [lia|discriminate].
Qed.

Lemma index_from_ids : forall (cs : list A) i, map fst (index_from i cs) = map (fun k => i + Z.of_nat k) (seq 0 (length cs)).
Proof.
  induction cs as [|c cs IH]; intros i; [reflexivity|].
  cbn [index_from map length seq fst]. f_equal; [lia|].
  rewrite IH, <- seq_shift, map_map. apply map_ext. intros; lia.
Qed.

Lemma index_from_data : forall (cs : list A) i, map snd (index_from i cs) = cs.
Proof. induction cs as [|c cs IH]; intros i; [reflexivity|]. cbn. f_equal. apply IH. Qed.

Lemma rem_ids_small : forall (cs : list A) i, 0 <= i -> i + Z.of_nat (length cs) <= c_partsLimit -> rem_ids (index_from i cs) = index_from i cs.
Proof.
  induction cs as [|c cs IH]; intros i Hi Hl; [reflexivity|].
  cbn [index_from rem_ids map fst snd length] in *. f_equal.
  - f_equal. apply Z.rem_small. lia.
  - apply IH; lia.
Qed.
End Small.

(* ---------- bigLoop ---------- *)

Lemma remove_nth_perm {B} : forall i (l : list B) x, nth_error l i = Some x -> Permutation l (x :: remove_nth i l).
Proof.
  induction i as [|i IH]; intros [|y l] x H; cbn in *; try discriminate.
  - inversion H; subst; reflexivity.
  - rewrite (IH l x H) at 1. apply perm_swap.
Qed.

Section Big.
Variable A : Type.
Variable alen : A -> Z.
Variables p threads : Z.
Hypothesis Hp : 0 < p.
Variable cs : list A.                 (* all parts of the source *)
Hypothesis Hwf : wf_parts A alen p cs.
Variable T0 : Z.                      (* upload.totalParts when the loop starts *)
Hypothesis HT0 : T0 = -1 \/ T0 = Z.of_nat (length cs).

Notation bstate := (bstate A).
Notation N := (Z.of_nat (length cs)).
Definition idx := index_from 0 cs.

Definition b_acc (l : list (breq A)) : list (Z * A) :=
  map (fun q => (bq_part q, bq_data q)) (filter (fun q => is_true (bq_resp q)) l).
Lemma b_acc_app a b : b_acc (a ++ b) = b_acc a ++ b_acc b.
Proof. unfold b_acc. rewrite filter_app, map_app. reflexivity. Qed.

Definition pend_list (s : bstate) : list (Z * A) :=
  match b_pending s with Some (id, c, _) => [(id, c)] | None => [] end.

Definition total_ok (t : Z) : Prop := t = T0 \/ (T0 = -1 /\ t = N).

Record Inv (s : bstate) (k : nat) : Prop := {
  i_src : b_src s = skipn k cs;
  i_k : (k <= length cs)%nat;
  i_perm : Permutation (b_acked s ++ b_hold s ++ b_queue s ++ pend_list s) (firstn k idx);
  i_sent : b_sent s = Z.of_nat k - zlen (pend_list s);
  i_pend : match b_pending s with
           | Some (id, c, last) => id = b_sent s /\ last = (alen c <? p) /\ (last = true -> b_src s = [])
           | None => True end;
  i_stream : b_stream s = total_len A alen (firstn k cs);
  i_closed : b_closed s = true -> b_src s = [] /\ b_pending s = None;
  i_acc : b_acc (b_log s) = b_acked s;
  i_log : Forall (fun q => In (bq_part q, bq_data q) idx /\ total_ok (bq_total q)) (b_log s);
  i_total : total_ok (b_total s);
  (* the count is learned exactly when the short last part has been read *)
  i_known : T0 = -1 -> (b_total s = N <-> (exists c, nth_error cs (length cs - 1) = Some c /\ alen c < p) /\ k = length cs)
}.

Lemma index_from_firstn_S : forall (l : list A) i k c rest,
  skipn k l = c :: rest -> firstn (S k) (index_from i l) = firstn k (index_from i l) ++ [(i + Z.of_nat k, c)].
Proof.
  induction l as [|x l IH]; intros i k c rest H.
  - destruct k; discriminate.
  - destruct k as [|k].
    + cbn in H. inversion H; subst. cbn. rewrite Z.add_0_r. reflexivity.
    + cbn [skipn] in H. cbn [index_from]. rewrite !firstn_cons. cbn [app]. f_equal.
      rewrite (IH (i + 1) k c rest H). replace (i + 1 + Z.of_nat k) with (i + Z.of_nat (S k)) by lia. reflexivity.
Qed.

Lemma index_from_length : forall (l : list A) i, length (index_from i l) = length l.
Proof. induction l; intros; cbn; auto. Qed.

Lemma skipn_cons_S {B} : forall k (l : list B) c rest, skipn k l = c :: rest -> skipn (S k) l = rest /\ (k < length l)%nat.
Proof.
  induction k as [|k IH]; intros [|x l] c rest H; cbn in *; try discriminate.
  - inversion H; subst; split; [reflexivity|lia].
  - destruct (IH l c rest H) as [H1 H2]. split; [exact H1|lia].
Qed.

Lemma firstn_S_skipn {B} : forall k (l : list B) c rest, skipn k l = c :: rest -> firstn (S k) l = firstn k l ++ [c].
Proof.
  induction k as [|k IH]; intros [|x l] c rest H; cbn in *; try discriminate.
  - inversion H; subst; reflexivity.
  - f_equal. eapply IH; exact H.
Qed.

Lemma last_part_nth : forall (l : list A) k c, skipn k l = [c] -> nth_error l (length l - 1) = Some c /\ S k = length l.
Proof.
  induction l as [|x l IH]; intros k c H.
  - destruct k; discriminate.
  - destruct k as [|k].
    + cbn in H. inversion H; subst. cbn. split; reflexivity.
    + cbn [skipn] in H. destruct (IH k c H) as [H1 H2]. split; [|cbn; lia].
      cbn [length]. destruct l as [|y l]; [destruct k; discriminate|].
      replace (S (length (y :: l)) - 1)%nat with (S (length (y :: l) - 1)) by (cbn; lia). exact H1.
Qed.

Lemma nth_last_full : forall (l : list A) c, wf_parts A alen p l -> nth_error l (length l - 1) = Some c -> 0 < alen c <= p.
Proof.
  induction l as [|x l IH]; intros c Hw H; [destruct (length (@nil A) - 1)%nat; discriminate|].
  destruct l as [|y l].
  - cbn in H. inversion H; subst. exact Hw.
  - destruct Hw as [_ Hw]. apply (IH c Hw).
    replace (length (x :: y :: l) - 1)%nat with (S (length (y :: l) - 1)) in H by (cbn; lia). exact H.
Qed.

Theorem step_inv s k e : Inv s k -> exists k', Inv (b_step alen p threads s e) k'.
Proof.
  intros I. unfold b_step. destruct (b_failed s) eqn:Ef; [exists k; exact I|].
  destruct I as [Isrc Ik Iperm Isent Ipend Istream Iclosed Iacc Ilog Itotal Iknown].
  destruct e as [| | |i r].
  - (* ERead *)
    destruct (b_pending s) as [pd|] eqn:Epd; [exists k; constructor; auto; rewrite ?Epd; auto|].
    destruct (b_closed s) eqn:Ecl; [exists k; constructor; auto; rewrite ?Epd; auto|].
    destruct (b_src s) as [|c rest] eqn:Es.
    + exists k. constructor; cbn; auto.
      * unfold pend_list in *; cbn; rewrite Epd in Iperm; exact Iperm.
      * unfold pend_list in *; cbn; rewrite Epd in Isent; exact Isent.
    + symmetry in Isrc. destruct (skipn_cons_S _ _ _ _ Isrc) as [Hsk Hlt].
      assert (wf_parts A alen p (c :: rest)) as Hwc by (rewrite <- Isrc; apply wf_parts_skipn; exact Hwf).
      unfold pend_list in Iperm, Isent; rewrite Epd in Iperm, Isent. unfold zlen in Isent; cbn [length] in Isent.
      exists (S k). constructor; cbn [b_src b_pending b_queue b_closed b_sent b_total b_stream b_hold b_acked b_log b_failed].
      * symmetry; exact Hsk.
      * lia.
      * unfold pend_list; cbn [b_pending]. unfold idx. rewrite (index_from_firstn_S cs 0 k c rest Isrc).
        rewrite !app_assoc. apply Permutation_app; [|replace (b_sent s) with (0 + Z.of_nat k) by lia; reflexivity].
        rewrite <- !app_assoc. rewrite !app_nil_r in Iperm. exact Iperm.
      * unfold pend_list, zlen; cbn [b_pending length]. lia.
      * split; [reflexivity|]. split; [reflexivity|]. intros Hl. apply Z.ltb_lt in Hl.
        eapply wf_parts_short_last; eauto.
      * rewrite (firstn_S_skipn k cs c rest Isrc), total_len_app, Istream. cbn. lia.
      * discriminate.
      * exact Iacc.
      * exact Ilog.
      * (* total *)
        destruct (alen c <? p) eqn:El; cbn [andb]; [|exact Itotal].
        destruct (b_total s =? -1) eqn:Et; [|exact Itotal].
        apply Z.ltb_lt in El. apply Z.eqb_eq in Et.
        assert (rest = []) as -> by (eapply wf_parts_short_last; eauto).
        destruct (last_part_nth cs k c Isrc) as [_ Hk].
        right. split.
        { destruct Itotal as [Ht|[Ht _]]; [|exact Ht]. destruct HT0 as [|HT]; [assumption|]. lia. }
        rewrite Istream. replace (total_len A alen (firstn k cs) + alen c) with (total_len A alen cs).
        { apply wf_parts_quot; auto. intros ->. destruct k; discriminate. }
        { rewrite <- (firstn_skipn k cs) at 1. rewrite total_len_app, Isrc. cbn. lia. }
      * intros HT. specialize (Iknown HT).
        destruct (alen c <? p) eqn:El; cbn [andb].
        { apply Z.ltb_lt in El.
          assert (rest = []) as -> by (eapply wf_parts_short_last; eauto).
          destruct (last_part_nth cs k c Isrc) as [Hn Hk].
          assert (b_total s = -1) as Hm1.
          { destruct Itotal as [Ht|[_ Ht]]; [lia|]. apply Iknown in Ht. destruct Ht as [_ Ht]. lia. }
          rewrite Hm1. cbn [Z.eqb].
          rewrite Istream. replace (total_len A alen (firstn k cs) + alen c) with (total_len A alen cs)
            by (rewrite <- (firstn_skipn k cs) at 1; rewrite total_len_app, Isrc; cbn; lia).
          rewrite wf_parts_quot; auto; [|intros ->; destruct k; discriminate].
          split; [intros _|reflexivity]. split; [exists c; auto|exact Hk]. }
        { apply Z.ltb_ge in El. split.
          - intros Ht. apply Iknown in Ht. destruct Ht as [_ Ht]. lia.
          - intros [[c' [Hn Hc']] Hk].
            destruct rest as [|c2 rest2].
            + destruct (last_part_nth cs k c Isrc) as [Hn2 _]. rewrite Hn in Hn2. inversion Hn2; subst. lia.
            + exfalso. assert (length (skipn k cs) = 2 + length rest2)%nat as Hl2 by (rewrite Isrc; reflexivity).
              rewrite skipn_length in Hl2. lia. }
  - (* EQueue *)
    destruct (b_pending s) as [[[id c] last]|] eqn:Epd; [|exists k; constructor; auto; rewrite ?Epd; auto].
    destruct (zlen (b_queue s) <? threads) eqn:Eq; [|exists k; constructor; auto; rewrite ?Epd; auto].
    unfold pend_list in Iperm, Isent; rewrite Epd in Iperm, Isent. unfold zlen in Isent; cbn [length] in Isent.
    destruct Ipend as (Hid & Hlast & Hsrc).
    exists k. constructor; cbn [b_src b_pending b_queue b_closed b_sent b_total b_stream b_hold b_acked b_log b_failed]; auto.
    + unfold pend_list; cbn [b_pending]. rewrite app_nil_r. exact Iperm.
    + unfold pend_list, zlen; cbn [b_pending length]. lia.
  - (* ETake *)
    destruct (b_queue s) as [|x q] eqn:Eq; [exists k; constructor; auto; rewrite ?Eq; auto|].
    destruct (zlen (b_hold s) <? threads) eqn:Eh; [|exists k; constructor; auto; rewrite ?Eq; auto].
    exists k. constructor; cbn [b_src b_pending b_queue b_closed b_sent b_total b_stream b_hold b_acked b_log b_failed]; auto.
    unfold pend_list in *; cbn [b_pending]. rewrite <- Iperm.
    apply Permutation_app_head. rewrite <- !app_assoc. apply Permutation_app_head. reflexivity.
  - (* ESend *)
    destruct (nth_error (b_hold s) i) as [[id c]|] eqn:En; [|exists k; constructor; auto].
    assert (In (id, c) idx) as Hin.
    { assert (In (id, c) (firstn k idx)) as H1.
      { eapply Permutation_in; [exact Iperm|]. apply in_or_app; right; apply in_or_app; left.
        eapply nth_error_In; exact En. }
      rewrite <- (firstn_skipn k idx). apply in_or_app; left; exact H1. }
    assert (Forall (fun q => In (bq_part q, bq_data q) idx /\ total_ok (bq_total q))
                   (b_log s ++ [{| bq_part := id; bq_data := c; bq_total := b_total s; bq_resp := r |}])) as Hlog'
      by (apply Forall_app; split; [exact Ilog|constructor; [split; [exact Hin|exact Itotal]|constructor]]).
    destruct r; exists k; constructor;
      cbn [b_src b_pending b_queue b_closed b_sent b_total b_stream b_hold b_acked b_log b_failed]; auto;
      try (rewrite b_acc_app, Iacc; cbn; rewrite ?app_nil_r; reflexivity).
    unfold pend_list in *; cbn [b_pending].
    rewrite <- Iperm. rewrite (remove_nth_perm i (b_hold s) (id, c) En) at 2.
    rewrite <- !app_assoc. apply Permutation_app_head. cbn [app]. reflexivity.
Qed.

Lemma init_inv : Inv (b_init cs T0) 0.
Proof.
  constructor; cbn; auto; try reflexivity; try lia.
  - left; reflexivity.
  - intros HT. split.
    + intros Ht. exfalso. rewrite HT in Ht. lia.
    + intros [[c [Hc _]] Hk]. destruct cs; [|discriminate]. cbn in Hc. discriminate.
Qed.

Theorem run_inv evs : exists k, Inv (b_run alen p threads (b_init cs T0) evs) k.
Proof.
  unfold b_run. assert (exists k, Inv (b_init cs T0) k) as H by (exists 0%nat; exact init_inv).
  revert H. generalize (b_init cs T0). induction evs as [|e evs IH]; intros s [k Hk]; [exists k; exact Hk|].
  cbn [fold_left]. apply IH. eapply step_inv; exact Hk.
Qed.

(* when bigLoop returns nil: every part of the source was confirmed exactly once with its own
   number and bytes, every accepted request is one of these confirmations, sentParts = n *)
Theorem big_terminal evs :
  let s := b_run alen p threads (b_init cs T0) evs in
  b_terminal s = true ->
  Permutation (b_acked s) idx /\ b_acc (b_log s) = b_acked s /\ b_sent s = N /\
  Forall (fun q => In (bq_part q, bq_data q) idx) (b_log s).
Proof.
  intros s Ht. destruct (run_inv evs) as [k I]. fold s in I.
  unfold b_terminal in Ht. apply andb_true_iff in Ht. destruct Ht as [Ht Hq].
  apply andb_true_iff in Ht. destruct Ht as [Hc Hf].
  destruct (b_queue s) eqn:Eq; [|discriminate]. destruct (b_hold s) eqn:Eh; [|discriminate].
  destruct (b_pending s) eqn:Epd; [discriminate|].
  destruct I as [Isrc Ik Iperm Isent Ipend Istream Iclosed Iacc Ilog Itotal Iknown].
  destruct (Iclosed Hc) as [Hsrc _]. rewrite Hsrc in Isrc.
  assert (k = length cs) as Hk.
  { symmetry in Isrc. assert (length (skipn k cs) = 0%nat) as H0 by (rewrite Isrc; reflexivity).
    rewrite skipn_length in H0. lia. }
  unfold pend_list in *. rewrite Eq, Eh, Epd in *. rewrite !app_nil_r in Iperm.
  split; [|split; [exact Iacc|split]].
  - rewrite Iperm. rewrite firstn_all2; [reflexivity|]. unfold idx; rewrite index_from_length; lia.
  - cbn in Isent. lia.
  - eapply Forall_impl; [|exact Ilog]. intros q [H _]; exact H.
Qed.

(* total: every request carries either the initial value or the true count; it never changes
   once it is not -1; and a request sent when it is known carries it *)
Lemma step_total_stable s e : b_total s <> -1 -> b_total (b_step alen p threads s e) = b_total s.
Proof.
  intros H. unfold b_step. destruct (b_failed s); [reflexivity|].
  destruct e as [| | |i r].
  - destruct (b_pending s); [reflexivity|]. destruct (b_closed s); [reflexivity|].
    destruct (b_src s); [reflexivity|]. cbn.
    destruct (b_total s =? -1) eqn:E; [apply Z.eqb_eq in E; contradiction|]. rewrite andb_false_r. reflexivity.
  - destruct (b_pending s) as [[[? ?] ?]|]; [|reflexivity]. destruct (zlen (b_queue s) <? threads); reflexivity.
  - destruct (b_queue s); [reflexivity|]. destruct (zlen (b_hold s) <? threads); reflexivity.
  - destruct (nth_error (b_hold s) i) as [[? ?]|]; [|reflexivity]. destruct r; reflexivity.
Qed.

Lemma step_log s e :
  b_log (b_step alen p threads s e) = b_log s \/
  exists q, b_log (b_step alen p threads s e) = b_log s ++ [q] /\ bq_total q = b_total s.
Proof.
  unfold b_step. destruct (b_failed s); [left; reflexivity|].
  destruct e as [| | |i r].
  - destruct (b_pending s); [left; reflexivity|]. destruct (b_closed s); [left; reflexivity|].
    destruct (b_src s); left; reflexivity.
  - destruct (b_pending s) as [[[? ?] ?]|]; [|left; reflexivity]. destruct (zlen (b_queue s) <? threads); left; reflexivity.
  - destruct (b_queue s); [left; reflexivity|]. destruct (zlen (b_hold s) <? threads); left; reflexivity.
  - destruct (nth_error (b_hold s) i) as [[id c]|]; [|left; reflexivity].
    right. destruct r; eexists; split; reflexivity.
Qed.

Theorem run_total_known s evs :
  b_total s <> -1 ->
  b_total (b_run alen p threads s evs) = b_total s /\
  exists l, b_log (b_run alen p threads s evs) = b_log s ++ l /\ Forall (fun q => bq_total q = b_total s) l.
Proof.
  revert s. induction evs as [|e evs IH]; intros s H.
  - split; [reflexivity|]. exists []. rewrite app_nil_r. split; [reflexivity|constructor].
  - cbn [b_run fold_left]. pose proof (step_total_stable s e H) as Hs.
    destruct (IH (b_step alen p threads s e) ltac:(rewrite Hs; exact H)) as (H1 & l & H2 & H3).
    fold (b_run alen p threads (b_step alen p threads s e) evs). rewrite Hs in *.
    split; [exact H1|].
    destruct (step_log s e) as [Hl|(q & Hl & Hq)]; rewrite Hl in H2.
    + exists l; auto.
    + exists (q :: l). rewrite <- app_assoc in H2. split; [exact H2|]. constructor; auto.
Qed.
End Big.

(* ---------- assembled statements ---------- *)

Lemma chunks_wf_parts_Z ps (src : list Z) : 0 < ps -> wf_parts (list Z) blen ps (chunks (Z.to_nat ps) src).
Proof.
  intros Hps. pose proof (chunks_wf_parts (Z.to_nat ps) src ltac:(lia)) as H.
  rewrite Z2Nat.id in H by lia. exact H.
Qed.

Lemma chunks_count_Z ps (src : list Z) :
  0 < ps -> Z.of_nat (length (chunks (Z.to_nat ps) src)) = compute_parts_go ps (Z.of_nat (length src)).
Proof. intros Hps. rewrite chunks_count by lia. rewrite Z2Nat.id by lia. reflexivity. Qed.

Section Assembled.
Variable H : Type.
Variable md5 : list Z -> H.

(* small files *)
Theorem small_upload_correct auto cfg (src : list Z) ps tp env log d :
  upload_plan auto cfg (Z.of_nat (length src)) = Plan ps false tp ->
  0 < ps ->
  upload_small H md5 ps src env = (log, Some d) ->
  let cs := chunks (Z.to_nat ps) src in
  s_acc (list Z) log = index_from 0 cs /\                 (* accepted requests: parts 0..n-1, once each, in order *)
  concat (map snd (s_acc (list Z) log)) = src /\           (* their bytes are the source *)
  wf_chunks (Z.to_nat ps) cs /\                            (* all but the last have the part size *)
  tp = Z.of_nat (length cs) /\ tp <= c_partsLimit /\
  Z.of_nat (length src) <= c_bigFileLimit /\
  d = InputFile tp (md5 src).
Proof.
  intros Hplan Hps Hup cs.
  destruct (upload_plan_inv _ _ _ _ _ _ Hplan) as (Hck & _ & _ & Hrest).
  destruct Hrest as (Hbig & Htp & Hlim); [lia|]. specialize (Hlim eq_refl).
  assert (tp = Z.of_nat (length cs)) as Hn by (unfold cs; rewrite chunks_count_Z by exact Hps; exact Htp).
  unfold upload_small in Hup. fold cs in Hup.
  destruct (small_loop cs 0 env) as [[l n] o] eqn:E. destruct o; inversion Hup; subst log d; clear Hup.
  destruct (small_loop_spec _ _ _ _ _ _ _ E) as (k & Hk & Hacc & Hnn & Hd). specialize (Hd eq_refl). subst k.
  rewrite firstn_all2 in Hacc by (rewrite index_from_length; lia).
  rewrite rem_ids_small in Hacc by lia.
  split; [exact Hacc|]. split.
  { rewrite Hacc, index_from_data. apply chunks_concat. lia. }
  split; [apply chunks_wf; lia|]. split; [exact Hn|]. split; [exact Hlim|]. split.
  { symmetry in Hbig. destruct (Z.gtb_spec (Z.of_nat (length src)) c_bigFileLimit); [discriminate|lia]. }
  f_equal; [lia|]. f_equal. apply chunks_concat. lia.
Qed.

(* big files and streams, every schedule and every pattern of false / FLOOD_WAIT answers *)
Theorem big_upload_correct auto cfg total (src : list Z) ps tp threads evs s d :
  upload_plan auto cfg total = Plan ps true tp ->
  total = -1 \/ total = Z.of_nat (length src) ->
  0 < ps ->
  upload_big H ps threads tp src evs = (s, Some d) ->
  let cs := chunks (Z.to_nat ps) src in
  Permutation (b_acked s) (index_from 0 cs) /\             (* confirmed parts = parts 0..n-1, once each *)
  b_acc (list Z) (b_log s) = b_acked s /\                  (* confirmations = accepted requests *)
  Forall (fun q => In (bq_part q, bq_data q) (index_from 0 cs)) (b_log s) /\   (* every request is a genuine part *)
  concat cs = src /\ wf_chunks (Z.to_nat ps) cs /\
  (total = -1 \/ c_bigFileLimit < total) /\
  d = InputFileBig (Z.of_nat (length cs)).
Proof.
  intros Hplan Htot Hps Hup cs.
  destruct (upload_plan_inv _ _ _ _ _ _ Hplan) as (Hck & _ & Hunk & Hknown).
  assert (tp = -1 \/ tp = Z.of_nat (length cs)) as HT0.
  { destruct (Z.eq_dec total (-1)) as [E|E]; [left; apply Hunk; exact E|right].
    destruct (Hknown E) as (_ & Htp & _). destruct Htot as [|Ht]; [contradiction|].
    unfold cs. rewrite chunks_count_Z by exact Hps. rewrite <- Ht. exact Htp. }
  unfold upload_big in Hup. fold cs in Hup.
  destruct (b_terminal (b_run blen ps threads (b_init cs tp) evs)) eqn:Et; inversion Hup; subst s d; clear Hup.
  destruct (big_terminal (list Z) blen ps threads Hps cs (chunks_wf_parts_Z ps src Hps) tp HT0 evs Et) as (P1 & P2 & P3 & P4).
  split; [exact P1|]. split; [exact P2|]. split; [exact P4|].
  split; [apply chunks_concat; lia|]. split; [apply chunks_wf; lia|]. split.
  { destruct (Z.eq_dec total (-1)) as [E|E]; [left; exact E|right].
    destruct (Hknown E) as (Hb & _ & _). symmetry in Hb. apply Z.gtb_lt in Hb. lia. }
  rewrite P3. reflexivity.
Qed.

(* total parts: every request carries -1 (only when the size is unknown) or the true count;
   from the moment the count is known every later request carries it *)
Theorem big_total_parts ps threads tp (src : list Z) evs1 evs2 :
  0 < ps ->
  let cs := chunks (Z.to_nat ps) src in
  tp = -1 \/ tp = Z.of_nat (length cs) ->
  let s1 := b_run blen ps threads (b_init cs tp) evs1 in
  let s2 := b_run blen ps threads s1 evs2 in
  Forall (fun q => bq_total q = tp \/ bq_total q = Z.of_nat (length cs)) (b_log s2) /\
  (b_total s1 <> -1 ->
     b_total s1 = Z.of_nat (length cs) /\
     exists l, b_log s2 = b_log s1 ++ l /\ Forall (fun q => bq_total q = Z.of_nat (length cs)) l).
Proof.
  intros Hps cs HT0 s1 s2.
  assert (s2 = b_run blen ps threads (b_init cs tp) (evs1 ++ evs2)) as Hs2
    by (unfold s2, s1, b_run; rewrite fold_left_app; reflexivity).
  destruct (run_inv (list Z) blen ps threads Hps cs (chunks_wf_parts_Z ps src Hps) tp HT0 (evs1 ++ evs2)) as [k2 I2].
  destruct (run_inv (list Z) blen ps threads Hps cs (chunks_wf_parts_Z ps src Hps) tp HT0 evs1) as [k1 I1].
  rewrite <- Hs2 in I2. fold s1 in I1. split.
  - eapply Forall_impl; [|exact (i_log _ _ _ _ _ _ _ I2)]. intros q [_ [Hq|[_ Hq]]]; auto.
  - intros Hk. assert (b_total s1 = Z.of_nat (length cs)) as Hv.
    { destruct (i_total _ _ _ _ _ _ _ I1) as [Ht|[_ Ht]]; [|exact Ht]. destruct HT0 as [E|E]; [congruence|congruence]. }
    split; [exact Hv|]. destruct (run_total_known (list Z) blen ps threads s1 evs2 Hk) as (_ & l & Hl & Hf).
    exists l. rewrite Hv in Hf. auto.
Qed.

(* unknown size: the count becomes known exactly when the short last part has been read; for a
   source whose size is an exact multiple of the part size (no short part) it is never known *)
Theorem big_total_learned ps threads (src : list Z) evs :
  0 < ps ->
  let cs := chunks (Z.to_nat ps) src in
  let s := b_run blen ps threads (b_init cs (-1)) evs in
  (b_total s = -1 \/ b_total s = Z.of_nat (length cs)) /\
  (b_total s <> -1 -> exists c, nth_error cs (length cs - 1) = Some c /\ blen c < ps) /\
  (b_terminal s = true -> (exists c, nth_error cs (length cs - 1) = Some c /\ blen c < ps) -> b_total s = Z.of_nat (length cs)).
Proof.
  intros Hps cs s.
  destruct (run_inv (list Z) blen ps threads Hps cs (chunks_wf_parts_Z ps src Hps) (-1) (or_introl eq_refl) evs) as [k I].
  fold s in I. pose proof (i_known _ _ _ _ _ _ _ I eq_refl) as Hk.
  assert (b_total s = -1 \/ b_total s = Z.of_nat (length cs)) as Hv
    by (destruct (i_total _ _ _ _ _ _ _ I) as [Ht|[_ Ht]]; auto).
  split; [exact Hv|]. split.
  - intros Hn. destruct Hv as [|Hv]; [contradiction|]. apply Hk in Hv. exact (proj1 Hv).
  - intros Ht Hshort. apply Hk. split; [exact Hshort|].
    unfold b_terminal in Ht. apply andb_true_iff in Ht. destruct Ht as [Ht _]. apply andb_true_iff in Ht. destruct Ht as [Hc _].
    destruct (i_closed _ _ _ _ _ _ _ I Hc) as [Hsrc _]. pose proof (i_src _ _ _ _ _ _ _ I) as Isrc. rewrite Hsrc in Isrc.
    pose proof (i_k _ _ _ _ _ _ _ I) as Hkk. assert (length (skipn k cs) = 0%nat) as Hz by (rewrite <- Isrc; reflexivity).
    rewrite skipn_length in Hz. lia.
Qed.
End Assembled.

(* ---------- a terminal state is reachable for every source (one worker suffices) ---------- *)
Section BigReach.
Variable A : Type.
Variable alen : A -> Z.
Variables p threads : Z.
Hypothesis Hp : 0 < p.
Hypothesis Hthreads : 1 <= threads.

Definition sched (cs : list A) : list bevent :=
  flat_map (fun _ => [ERead; EQueue; ETake; ESend 0 RTrue]) cs ++ [ERead].

Definition clean (s : bstate A) : Prop :=
  b_pending s = None /\ b_queue s = [] /\ b_hold s = [] /\ b_failed s = false.

Lemma big_reach : forall cs s,
  clean s -> b_src s = cs -> wf_parts A alen p cs -> b_closed s = false ->
  b_terminal (b_run alen p threads s (sched cs)) = true.
Proof.
  assert ((0 <? threads) = true) as Ht by (apply Z.ltb_lt; lia).
  induction cs as [|c rest IH]; intros s (Hpd & Hq & Hh & Hf) Hsrc Hwf Hcl;
    destruct s as [src pd q cl sent tot str hold ack lg fl]; cbn in Hpd, Hq, Hh, Hf, Hsrc, Hcl; subst.
  - reflexivity.
  - unfold sched. cbn [flat_map app]. unfold b_run. cbn [fold_left].
    set (s4 := b_step alen p threads (b_step alen p threads (b_step alen p threads
                 (b_step alen p threads _ ERead) EQueue) ETake) (ESend 0 RTrue)).
    assert (clean s4 /\ b_src s4 = rest /\ b_closed s4 = (alen c <? p)) as (Hc4 & Hs4 & Hcl4).
    { unfold s4, b_step, zlen; cbn -[Z.ltb Z.quot Z.add Z.eqb]. rewrite Ht. cbn -[Z.ltb Z.quot Z.add Z.eqb].
      rewrite Ht. cbn -[Z.ltb Z.quot Z.add Z.eqb]. repeat split. }
    destruct (alen c <? p) eqn:El.
    + apply Z.ltb_lt in El. assert (rest = []) as -> by (eapply wf_parts_short_last; eauto).
      cbn [flat_map app fold_left]. destruct Hc4 as (P1 & P2 & P3 & P4).
      unfold b_step at 1. rewrite P4, P1, Hcl4. unfold b_terminal. rewrite Hcl4, P4, P2, P3, P1. reflexivity.
    + apply (IH s4 Hc4 Hs4); [eapply wf_parts_tail; exact Hwf|exact Hcl4].
Qed.

Theorem big_terminal_reachable cs T0 :
  wf_parts A alen p cs -> exists evs, b_terminal (b_run alen p threads (b_init cs T0) evs) = true.
Proof.
  intros Hwf. exists (sched cs). apply big_reach; auto. repeat split.
Qed.
End BigReach.
