(* The two errRetryableOnNewConn functions, as generated from the current source
   (Gen/RpcClass.v), on the error classes rpc.Engine.Do can return. Kept apart from
   Proof/Rpc.v so that a change of a classification function breaks exactly this obligation. *)
From Coq Require Import ZArith Bool.
From TD Require Import Gen.RpcClass Model.Rpc.
Open Scope Z_scope.

Lemma c26_functions : forall r,
  retryable r = is_engine_closed r /\ retryable_tg r = is_engine_closed r.
Proof. intros r; split; destruct r; reflexivity. Qed.

(* in particular the non-retryable close error (acknowledged request) and the caller's own
   cancellation are never classified as safe to resend *)
Lemma c26_acked_not_retryable :
  retryable RClosedAcked = false /\ retryable_tg RClosedAcked = false /\
  retryable RCtx = false /\ retryable_tg RCtx = false.
Proof. repeat split; reflexivity. Qed.
