(* Proofs about Model/FakeTls.v (C19): FakeTLS carries every sequence of writes intact for every
   sequence of read buffer sizes; acceptance of the server hello. *)
From Coq Require Import ZArith List Bool Lia.
From TD Require Import Lib.Bytes Lib.GoSem Lib.RunLib Gen.FakeTlsConsts Model.FakeTls.
Import ListNotations.
Open Scope Z_scope.
Arguments skipn : simpl never.
Arguments firstn : simpl never.

Lemma zlen_nonneg (l : bytes) : 0 <= zlen l.
Proof. unfold zlen; lia. Qed.
Lemma zlen_app (a b : bytes) : zlen (a ++ b) = zlen a + zlen b.
Proof. unfold zlen; rewrite app_length; lia. Qed.

Lemma read_full_app (a b : bytes) : 0 < zlen a -> read_full (zlen a) (a ++ b) = Ok (a, b).
Proof.
  intros H. unfold read_full. destruct (Z.leb_spec (zlen a) 0); [lia|].
  destruct (Z.leb_spec (zlen a) (zlen (a ++ b))); [|rewrite zlen_app in *; pose proof (zlen_nonneg b); lia].
  unfold zlen; rewrite Nat2Z.id, firstn_app_exact, skipn_app_exact; reflexivity.
Qed.
Lemma read_full_app_k k (a b : bytes) : k = zlen a -> 0 < k -> read_full k (a ++ b) = Ok (a, b).
Proof. intros -> H; apply read_full_app; exact H. Qed.
Lemma read_full_zero (s : bytes) : read_full 0 s = Ok ([], s).
Proof. reflexivity. Qed.
Lemma read_full_data (d t : bytes) : read_full (zlen d) (d ++ t) = Ok (d, t).
Proof.
  destruct d as [|x d]; [reflexivity|]. apply read_full_app. unfold zlen; cbn [length]; lia.
Qed.

Lemma zlist_eqb_refl (a : list Z) : zlist_eqb a a = true.
Proof. induction a as [|x a IH]; cbn; [reflexivity|]. rewrite Z.eqb_refl, IH; reflexivity. Qed.
Lemma zlist_eqb_eq (a b : list Z) : zlist_eqb a b = true <-> a = b.
Proof.
  split; [|intros ->; apply zlist_eqb_refl].
  revert b; induction a as [|x a IH]; intros [|y b]; cbn; try discriminate; auto.
  rewrite andb_true_iff, Z.eqb_eq. intros [-> H]; f_equal; auto.
Qed.

(* ---------- one record ---------- *)
Lemma be16_dec_enc n : 0 <= n < 65536 -> be16_dec (be16 n) = n.
Proof.
  intros H. unfold be16_dec, be16. cbn [nth].
  rewrite (Z.mod_small (n / 256)) by (split; [apply Z.div_pos; lia|apply Z.div_lt_upper_bound; lia]).
  pose proof (Z.div_mod n 256); lia.
Qed.

Definition rec12 (typ : Z) (d : bytes) : bytes := write_record typ version12 d.

Lemma read_record_rec12 typ d t :
  0 <= typ < 256 -> zlen d <= c_maxTLSRecordDataLength ->
  read_record (rec12 typ d ++ t) = Ok (typ, d, rec12 typ d, t).
Proof.
  intros Ht Hd. pose proof (zlen_nonneg d). cbv [c_maxTLSRecordDataLength] in Hd.
  unfold rec12, write_record, version12, v_Version12Bytes, read_record.
  rewrite (Z.mod_small typ) by lia. rewrite (Z.mod_small (zlen d)) by lia.
  set (h := [typ; 3; 3] ++ be16 (zlen d)).
  change (((typ :: (3 :: 3 :: nil)%list ++ be16 (zlen d) ++ d) ++ t)) with (h ++ (d ++ t)).
  rewrite (read_full_app_k 5 h) by (cbn; lia). cbn [bind].
  change (firstn 2 (skipn 1 h)) with [3; 3]. change (version_ok [3; 3]) with true. cbn [negb].
  change (skipn 3 h) with (be16 (zlen d)). rewrite be16_dec_enc by lia.
  rewrite read_full_data. cbn [bind]. reflexivity.
Qed.

(* ---------- the wire as a list of items ---------- *)
Inductive item := ICcs | IApp (d : bytes).
Definition item_wire (it : item) : bytes :=
  match it with
  | ICcs => rec12 c_RecordTypeChangeCipherSpec [1]
  | IApp d => rec12 c_RecordTypeApplication d
  end.
Definition wire (its : list item) : bytes := concat (map item_wire its).
Definition item_data (it : item) : bytes := match it with ICcs => [] | IApp d => d end.
Definition data (its : list item) : bytes := concat (map item_data its).
Definition item_ok (it : item) : Prop :=
  match it with ICcs => True | IApp d => zlen d <= c_maxTLSRecordDataLength end.
Definition item_record (it : item) : Z * bytes :=
  match it with ICcs => (c_RecordTypeChangeCipherSpec, [1]) | IApp d => (c_RecordTypeApplication, d) end.

Lemma read_record_item it its t :
  item_ok it ->
  read_record (wire (it :: its) ++ t) = Ok (fst (item_record it), snd (item_record it), item_wire it, wire its ++ t).
Proof.
  intros Hok. unfold wire; cbn [map concat]. rewrite <- app_assoc.
  destruct it as [|d]; cbn [item_wire item_record fst snd].
  - apply read_record_rec12; [cbv [c_RecordTypeChangeCipherSpec]; lia|cbv; congruence].
  - apply read_record_rec12; [cbv [c_RecordTypeApplication]; lia|exact Hok].
Qed.

Lemma item_wire_len it : (5 <= length (item_wire it))%nat.
Proof. destruct it; unfold item_wire, rec12, write_record, version12, v_Version12Bytes; cbn [length app be16]; lia. Qed.
Lemma wire_len its : (length its <= length (wire its))%nat.
Proof.
  induction its as [|it t IH]; [cbn; lia|]. unfold wire in *; cbn [map concat length].
  rewrite app_length. pose proof (item_wire_len it). lia.
Qed.

(* first non-empty application record *)
Fixpoint first_data (its : list item) : option (bytes * list item) :=
  match its with
  | [] => None
  | ICcs :: t => first_data t
  | IApp [] :: t => first_data t
  | IApp d :: t => Some (d, t)
  end.

Lemma fill_spec : forall its f,
  Forall item_ok its -> (length its < f)%nat ->
  fill f (wire its) = match first_data its with
                      | Some (d, t) => Ok (d, wire t)
                      | None => Err TEof
                      end.
Proof.
  induction its as [|it t IH]; intros f Hok Hf.
  - destruct f; [cbn in Hf; lia|]. reflexivity.
  - destruct f as [|f]; [cbn in Hf; lia|]. inversion Hok as [|? ? H1 H2]; subst.
    cbn [fill]. rewrite <- (app_nil_r (wire (it :: t))). rewrite (read_record_item it t [] H1).
    rewrite app_nil_r. cbn [bind]. cbn [length] in Hf.
    destruct it as [|d]; cbn [item_record fst snd first_data].
    + change (c_RecordTypeChangeCipherSpec =? c_RecordTypeChangeCipherSpec) with true. cbv iota.
      apply IH; [exact H2|lia].
    + change (c_RecordTypeApplication =? c_RecordTypeChangeCipherSpec) with false.
      change (c_RecordTypeApplication =? c_RecordTypeApplication) with true. cbv iota.
      destruct d; [apply IH; [exact H2|lia]|reflexivity].
Qed.

Lemma first_data_none its : first_data its = None -> data its = [].
Proof.
  induction its as [|[|[|x d]] t IH]; cbn [first_data]; intros H; try discriminate; auto.
Qed.
Lemma first_data_some its d t :
  first_data its = Some (d, t) -> data its = d ++ data t /\ d <> [] /\ (Forall item_ok its -> Forall item_ok t).
Proof.
  induction its as [|[|[|x d']] t' IH]; cbn [first_data]; intros H; try discriminate.
  - destruct (IH H) as (A & B & C). split; [exact A|split; [exact B|intros X; inversion X; auto]].
  - destruct (IH H) as (A & B & C). split; [exact A|split; [exact B|intros X; inversion X; auto]].
  - inversion H; subst. split; [reflexivity|split; [discriminate|intros X; inversion X; auto]].
Qed.

(* ---------- Read calls with arbitrary positive buffer sizes ---------- *)
Lemma drain_spec ks (Hks : forall j, 1 <= ks j) :
  forall fuel buf its i,
    Forall item_ok its -> (length (buf ++ data its) < fuel)%nat ->
    drain fuel ks i (buf, wire its) = (buf ++ data its, TEof).
Proof.
  induction fuel as [|f IH]; intros buf its i Hok Hf; [lia|].
  cbn [drain]. unfold ftls_read.
  assert (forall (b : bytes) (t : list item), b <> [] -> Forall item_ok t -> (length (b ++ data t) < S f)%nat ->
            (let '(ds, e) := drain f ks (S i) (skipn (Z.to_nat (ks i)) b, wire t) in (firstn (Z.to_nat (ks i)) b ++ ds, e))
            = (b ++ data t, TEof)) as Hstep.
  { intros b t Hb Ht Hl. rewrite IH; [|exact Ht|].
    - rewrite app_assoc, firstn_skipn; reflexivity.
    - rewrite app_length in *. rewrite skipn_length. specialize (Hks i).
      destruct b; [congruence|]. cbn [length] in *. lia. }
  destruct buf as [|x buf].
  - rewrite fill_spec by (auto; pose proof (wire_len its); lia).
    destruct (first_data its) as [[d t]|] eqn:Efd.
    + destruct (first_data_some _ _ _ Efd) as (Hd & Hne & Ht). cbn [bind].
      cbn [app] in *. rewrite Hd in *. apply Hstep; auto.
    + cbn [bind]. rewrite (first_data_none _ Efd). reflexivity.
  - cbn [bind]. apply Hstep; [discriminate|exact Hok|exact Hf].
Qed.

(* ---------- all records of a well-formed wire ---------- *)
Lemma parse_records_wire : forall its f,
  Forall item_ok its -> (length its < f)%nat ->
  parse_records f (wire its) = (map item_record its, None).
Proof.
  induction its as [|it t IH]; intros f Hok Hf.
  - destruct f; [cbn in Hf; lia|]. reflexivity.
  - destruct f as [|f]; [cbn in Hf; lia|]. inversion Hok as [|? ? H1 H2]; subst.
    cbn [parse_records]. destruct (wire (it :: t)) eqn:Ew.
    { pose proof (wire_len (it :: t)) as X. rewrite Ew in X. cbn in X. lia. }
    rewrite <- Ew. rewrite <- (app_nil_r (wire (it :: t))). rewrite (read_record_item it t [] H1), app_nil_r.
    cbn [length] in Hf. rewrite IH by (auto; lia). destruct it; reflexivity.
Qed.

(* ---------- Write ---------- *)
Lemma write_chunks_spec : forall fuel b,
  (length b < fuel)%nat ->
  exists ds, write_chunks fuel b = Ok (wire (map IApp ds)) /\ concat ds = b /\
             Forall (fun d => zlen d <= c_maxTLSRecordDataLength) ds.
Proof.
  induction fuel as [|f IH]; intros b Hf; [lia|]. cbn [write_chunks]. unfold chunk_too_long_go.
  destruct (Z.gtb_spec (zlen b) c_maxTLSRecordDataLength) as [Hgt|Hle].
  - set (m := Z.to_nat c_maxTLSRecordDataLength).
    assert (length (firstn m b) = m) as Hl.
    { rewrite firstn_length. unfold zlen in Hgt. subst m. lia. }
    rewrite Hl. destruct (skipn m b) as [|y r] eqn:Er.
    { exfalso. assert (length (skipn m b) = 0%nat) by (rewrite Er; reflexivity).
      rewrite skipn_length in H. unfold zlen in Hgt. subst m. cbv [c_maxTLSRecordDataLength] in *. lia. }
    rewrite <- Er. destruct (IH (skipn m b)) as (ds & Hw & Hc & Hall).
    { rewrite skipn_length. subst m. unfold zlen in Hgt. cbv [c_maxTLSRecordDataLength] in *. lia. }
    rewrite Hw. cbn [bind]. exists (firstn m b :: ds). split; [|split].
    + unfold wire; cbn [map concat item_wire]. reflexivity.
    + cbn [concat]. rewrite Hc. apply firstn_skipn.
    + constructor; [|exact Hall]. unfold zlen; rewrite Hl. subst m. rewrite Z2Nat.id; cbv; congruence.
  - rewrite skipn_all. exists [b]. split; [|split].
    + unfold wire; cbn [map concat item_wire]. rewrite app_nil_r. reflexivity.
    + cbn; apply app_nil_r.
    + constructor; [exact Hle|constructor].
Qed.

Lemma data_app a b : data (a ++ b) = data a ++ data b.
Proof. unfold data; rewrite map_app, concat_app; reflexivity. Qed.
Lemma wire_app a b : wire (a ++ b) = wire a ++ wire b.
Proof. unfold wire; rewrite map_app, concat_app; reflexivity. Qed.
Lemma data_apps ds : data (map IApp ds) = concat ds.
Proof. unfold data. rewrite map_map. cbn [item_data]. rewrite map_id. reflexivity. Qed.
Lemma apps_ok ds : Forall (fun d => zlen d <= c_maxTLSRecordDataLength) ds -> Forall item_ok (map IApp ds).
Proof. intros H; apply Forall_map. exact H. Qed.

Lemma write_all_spec : forall ws fd,
  exists its, ftls_write_all fd ws = Ok (wire its) /\ data its = concat ws /\ Forall item_ok its /\
              Forall (fun it => it = ICcs \/ exists d, it = IApp d) its.
Proof.
  induction ws as [|b t IH]; intros fd.
  - exists []; split; [reflexivity|split; [reflexivity|split; constructor]].
  - cbn [ftls_write_all]. unfold ftls_write.
    destruct (write_chunks_spec (S (length b)) b ltac:(lia)) as (ds & Hw & Hc & Hall).
    rewrite Hw. cbn [bind]. destruct (IH true) as (its & Hi & Hd & Hok & Hk). rewrite Hi. cbn [bind].
    exists ((if fd then [] else [ICcs]) ++ map IApp ds ++ its). split; [|split; [|split]].
    + rewrite !wire_app. destruct fd; [reflexivity|].
      rewrite <- app_assoc. reflexivity.
    + rewrite !data_app, data_apps, Hd, Hc. destruct fd; reflexivity.
    + apply Forall_app; split; [destruct fd; repeat constructor|]. apply Forall_app; split; [apply apps_ok; exact Hall|exact Hok].
    + apply Forall_app; split; [destruct fd; repeat constructor; auto|]. apply Forall_app; split; [|exact Hk].
      apply Forall_map. apply Forall_forall. intros d _. right; eexists; reflexivity.
Qed.

(* every sequence of writes, every sequence of positive read buffer sizes *)
Lemma ftls_stream ws ks fuel :
  (forall j, 1 <= ks j) -> (length (concat ws) < fuel)%nat ->
  exists w, ftls_write_all false ws = Ok w /\
            drain fuel ks 0 ([], w) = (concat ws, TEof) /\
            exists recs, parse_records (S (length w)) w = (recs, None) /\
                         Forall (fun r => zlen (snd r) <= c_maxTLSRecordDataLength /\
                                          (fst r = c_RecordTypeChangeCipherSpec \/ fst r = c_RecordTypeApplication)) recs /\
                         concat (map snd (filter (fun r => fst r =? c_RecordTypeApplication) recs)) = concat ws.
Proof.
  intros Hks Hf. destruct (write_all_spec ws false) as (its & Hw & Hd & Hok & Hk).
  exists (wire its); split; [exact Hw|]. split.
  - rewrite (drain_spec ks Hks fuel [] its 0 Hok); cbn [app]; rewrite Hd; [reflexivity|exact Hf].
  - exists (map item_record its). split; [apply parse_records_wire; [exact Hok|pose proof (wire_len its); lia]|]. split.
    + apply Forall_map. rewrite Forall_forall in *. intros it Hin. specialize (Hok it Hin).
      destruct it as [|d]; cbn [item_record fst snd]; [split; [cbv; congruence|auto]|split; [exact Hok|auto]].
    + rewrite <- Hd. clear. induction its as [|[|d] t IH]; [reflexivity| |].
      * cbn [map filter item_record fst]. change (c_RecordTypeChangeCipherSpec =? c_RecordTypeApplication) with false.
        cbv iota. exact IH.
      * cbn [map filter item_record fst]. change (c_RecordTypeApplication =? c_RecordTypeApplication) with true.
        cbv iota. cbn [map concat snd]. unfold data in *. cbn [map concat item_data]. rewrite IH. reflexivity.
Qed.

(* ---------- server hello ---------- *)
Lemma read_full_char k s a b :
  read_full k s = Ok (a, b) <-> s = a ++ b /\ ((k <= 0 /\ a = []) \/ (0 < k /\ zlen a = k)).
Proof.
  unfold read_full. split.
  - destruct (Z.leb_spec k 0); [intros E; inversion E; subst; auto|].
    destruct (Z.leb_spec k (zlen s)); [|destruct s; discriminate].
    intros E; inversion E; subst. split; [symmetry; apply firstn_skipn|right; split; [lia|]].
    unfold zlen in *; rewrite firstn_length; lia.
  - intros (-> & [[Hk ->]|[Hk Hl]]).
    + destruct (Z.leb_spec k 0); [reflexivity|lia].
    + destruct (Z.leb_spec k 0); [lia|]. rewrite zlen_app. pose proof (zlen_nonneg b).
      destruct (Z.leb_spec k (zlen a + zlen b)); [|lia].
      rewrite <- Hl. unfold zlen; rewrite Nat2Z.id, firstn_app_exact, skipn_app_exact; reflexivity.
Qed.

Definition record_parts (typ : Z) (d h : bytes) : Prop :=
  zlen h = 5 /\ typ = nth 0 h 0 /\ version_ok (firstn 2 (skipn 1 h)) = true /\
  ((be16_dec (skipn 3 h) <= 0 /\ d = []) \/ (0 < be16_dec (skipn 3 h) /\ zlen d = be16_dec (skipn 3 h))).

Lemma read_record_char s typ d raw s' :
  read_record s = Ok (typ, d, raw, s') <->
  exists h, raw = h ++ d /\ s = raw ++ s' /\ record_parts typ d h.
Proof.
  unfold read_record, record_parts. split.
  - destruct (read_full 5 s) as [[h s1]| |] eqn:E1; cbn [bind]; try discriminate.
    destruct (version_ok (firstn 2 (skipn 1 h))) eqn:Ev; cbn [negb]; [|discriminate].
    destruct (read_full (be16_dec (skipn 3 h)) s1) as [[d' s2]| |] eqn:E2; cbn [bind]; try discriminate.
    intros E; inversion E; subst. apply read_full_char in E1. apply read_full_char in E2.
    destruct E1 as (-> & [[? _]|[_ Hh]]); [lia|]. destruct E2 as (-> & Hd).
    exists h. rewrite <- app_assoc. repeat split; auto.
  - intros (h & -> & -> & Hh & -> & Hv & Hd). rewrite <- app_assoc.
    rewrite (proj2 (read_full_char 5 (h ++ d ++ s') h (d ++ s'))) by (split; [reflexivity|right; lia]).
    cbn [bind]. rewrite Hv. cbn [negb].
    rewrite (proj2 (read_full_char _ (d ++ s') d s')) by (split; [reflexivity|exact Hd]).
    reflexivity.
Qed.

(* raw is exactly one well-formed record of the given type *)
Definition is_record (typ : Z) (raw : bytes) : Prop := exists d, read_record raw = Ok (typ, d, raw, []).

Lemma read_record_prefix s typ d raw s' :
  read_record s = Ok (typ, d, raw, s') -> s = raw ++ s' /\ is_record typ raw.
Proof.
  intros H. apply read_record_char in H. destruct H as (h & Hr & Hs & Hp). split; [exact Hs|].
  exists d. apply read_record_char. exists h. rewrite app_nil_r. auto.
Qed.
Lemma read_record_extend typ raw t :
  is_record typ raw -> exists d, read_record (raw ++ t) = Ok (typ, d, raw, t).
Proof.
  intros (d & H). apply read_record_char in H. destruct H as (h & Hr & _ & Hp).
  exists d. apply read_record_char. exists h. auto.
Qed.

(* the record sequence of a server hello, without the digest check *)
Definition hello_parse (s : bytes) : res terr (bytes * bytes) :=
  do (typ, _, raw1, s1) <- read_record s;
  if negb (typ =? c_RecordTypeHandshake) then Err TRecordType
  else if hello_too_short_go (zlen raw1) then Err TTooShort
  else
    do (raw2, s2) <- hello_loop (Z.to_nat c_maxHandshakeRecords) s1;
    do (typ3, _, raw3, s3) <- read_record s2;
    if negb (typ3 =? c_RecordTypeApplication) then Err TRecordType
    else Ok (raw1 ++ raw2 ++ raw3, s3).

Lemma hello_accept_iff hmac cr secret s rest :
  read_server_hello hmac cr secret s = Ok rest <->
  exists packet, hello_parse s = Ok (packet, rest) /\
                 hmac secret (cr ++ zero_digest packet) = digest_of packet.
Proof.
  unfold read_server_hello, hello_parse.
  destruct (read_record s) as [[[[typ d1] raw1] s1]| |]; cbn [bind]; try (split; [discriminate|intros (p & E & _); discriminate]).
  destruct (negb (typ =? c_RecordTypeHandshake)); try (split; [discriminate|intros (p & E & _); discriminate]).
  destruct (hello_too_short_go (zlen raw1)); try (split; [discriminate|intros (p & E & _); discriminate]).
  destruct (hello_loop _ s1) as [[raw2 s2]| |]; cbn [bind]; try (split; [discriminate|intros (p & E & _); discriminate]).
  destruct (read_record s2) as [[[[typ3 d3] raw3] s3]| |]; cbn [bind]; try (split; [discriminate|intros (p & E & _); discriminate]).
  destruct (negb (typ3 =? c_RecordTypeApplication)); try (split; [discriminate|intros (p & E & _); discriminate]).
  destruct (zlist_eqb _ _) eqn:Eq.
  - apply zlist_eqb_eq in Eq. split.
    + intros E; inversion E; subst. eexists; split; [reflexivity|exact Eq].
    + intros (p & E & _). inversion E; subst; reflexivity.
  - split; [discriminate|]. intros (p & E & Hm). inversion E; subst.
    apply zlist_eqb_eq in Hm. congruence.
Qed.

(* shape: handshake record of at least 43 bytes, at most 15 further handshake records,
   ChangeCipherSpec, application *)
Definition hello_shape (packet : bytes) : Prop :=
  exists r1 hs rc ra,
    packet = r1 ++ concat hs ++ rc ++ ra /\
    is_record c_RecordTypeHandshake r1 /\ c_serverRandomOffset + 32 <= zlen r1 /\
    Forall (is_record c_RecordTypeHandshake) hs /\ (length hs < Z.to_nat c_maxHandshakeRecords)%nat /\
    is_record c_RecordTypeChangeCipherSpec rc /\ is_record c_RecordTypeApplication ra.

Lemma hello_loop_sound : forall n s raw s',
  hello_loop n s = Ok (raw, s') ->
  s = raw ++ s' /\ exists hs rc, raw = concat hs ++ rc /\ Forall (is_record c_RecordTypeHandshake) hs /\
                                 (length hs < n)%nat /\ is_record c_RecordTypeChangeCipherSpec rc.
Proof.
  induction n as [|m IH]; intros s raw s' H; cbn [hello_loop] in H; [discriminate|].
  destruct (read_record s) as [[[[typ d] r] s1]| |] eqn:E; cbn [bind] in H; try discriminate.
  apply read_record_prefix in E. destruct E as (-> & Hr).
  destruct (Z.eqb_spec typ c_RecordTypeHandshake) as [->|_].
  - destruct (hello_loop m s1) as [[raw' s'']| |] eqn:E2; cbn [bind] in H; try discriminate.
    inversion H; subst. destruct (IH _ _ _ E2) as (-> & hs & rc & -> & Hhs & Hl & Hc).
    split; [rewrite <- !app_assoc; reflexivity|].
    exists (r :: hs), rc. cbn [concat length]. rewrite <- app_assoc. repeat split; auto. lia.
  - destruct (Z.eqb_spec typ c_RecordTypeChangeCipherSpec) as [->|_]; [|discriminate].
    inversion H; subst. split; [reflexivity|]. exists [], raw. cbn [concat app length]. repeat split; auto. lia.
Qed.

Lemma hello_loop_complete : forall hs n rc t,
  Forall (is_record c_RecordTypeHandshake) hs -> (length hs < n)%nat ->
  is_record c_RecordTypeChangeCipherSpec rc ->
  hello_loop n ((concat hs ++ rc) ++ t) = Ok (concat hs ++ rc, t).
Proof.
  induction hs as [|r hs IH]; intros n rc t Hhs Hn Hc; (destruct n as [|m]; [cbn in Hn; lia|]); cbn [hello_loop concat app].
  - destruct (read_record_extend _ rc t Hc) as (d & ->). cbn [bind].
    change (c_RecordTypeChangeCipherSpec =? c_RecordTypeHandshake) with false.
    change (c_RecordTypeChangeCipherSpec =? c_RecordTypeChangeCipherSpec) with true. reflexivity.
  - inversion Hhs as [|? ? H1 H2]; subst. rewrite <- !app_assoc.
    destruct (read_record_extend _ r (concat hs ++ rc ++ t) H1) as (d & ->). cbn [bind].
    change (c_RecordTypeHandshake =? c_RecordTypeHandshake) with true. cbv iota.
    rewrite app_assoc. rewrite IH by (auto; cbn [length] in Hn; lia). cbn [bind].
    rewrite <- ?app_assoc. reflexivity.
Qed.

Lemma hello_parse_sound s packet rest :
  hello_parse s = Ok (packet, rest) -> s = packet ++ rest /\ hello_shape packet.
Proof.
  unfold hello_parse.
  destruct (read_record s) as [[[[typ d1] raw1] s1]| |] eqn:E1; cbn [bind]; try discriminate.
  destruct (Z.eqb_spec typ c_RecordTypeHandshake) as [->|_]; cbn [negb]; [|discriminate].
  destruct (hello_too_short_go (zlen raw1)) eqn:Esh; [discriminate|].
  destruct (hello_loop _ s1) as [[raw2 s2]| |] eqn:E2; cbn [bind]; try discriminate.
  destruct (read_record s2) as [[[[typ3 d3] raw3] s3]| |] eqn:E3; cbn [bind]; try discriminate.
  destruct (Z.eqb_spec typ3 c_RecordTypeApplication) as [->|_]; cbn [negb]; [|discriminate].
  intros E; inversion E; subst.
  apply read_record_prefix in E1. destruct E1 as (-> & H1).
  apply hello_loop_sound in E2. destruct E2 as (-> & hs & rc & -> & Hhs & Hl & Hc).
  apply read_record_prefix in E3. destruct E3 as (-> & H3).
  split; [rewrite <- !app_assoc; reflexivity|].
  exists raw1, hs, rc, raw3. rewrite <- !app_assoc. repeat split; auto.
  unfold hello_too_short_go in Esh. apply Z.ltb_ge in Esh. exact Esh.
Qed.

Lemma hello_parse_complete packet rest :
  hello_shape packet -> hello_parse (packet ++ rest) = Ok (packet, rest).
Proof.
  intros (r1 & hs & rc & ra & -> & H1 & Hlen & Hhs & Hl & Hc & Ha). unfold hello_parse.
  rewrite <- !app_assoc.
  destruct (read_record_extend _ r1 (concat hs ++ rc ++ ra ++ rest) H1) as (d1 & ->). cbn [bind].
  change (c_RecordTypeHandshake =? c_RecordTypeHandshake) with true. cbn [negb].
  unfold hello_too_short_go. destruct (Z.ltb_spec (zlen r1) (c_serverRandomOffset + 32)); [lia|].
  replace (concat hs ++ rc ++ ra ++ rest) with ((concat hs ++ rc) ++ (ra ++ rest)) by (rewrite <- !app_assoc; reflexivity).
  rewrite hello_loop_complete by auto. cbn [bind].
  destruct (read_record_extend _ ra rest Ha) as (d3 & ->). cbn [bind].
  change (c_RecordTypeApplication =? c_RecordTypeApplication) with true. cbn [negb].
  rewrite <- !app_assoc. reflexivity.
Qed.

(* acceptance, characterised *)
Lemma hello_accept_char hmac cr secret s rest :
  read_server_hello hmac cr secret s = Ok rest <->
  exists packet, s = packet ++ rest /\ hello_shape packet /\
                 hmac secret (cr ++ zero_digest packet) = digest_of packet.
Proof.
  rewrite hello_accept_iff. split.
  - intros (p & Hp & Hm). apply hello_parse_sound in Hp. destruct Hp as (-> & Hs). eauto.
  - intros (p & -> & Hs & Hm). exists p. split; [apply hello_parse_complete; exact Hs|exact Hm].
Qed.
