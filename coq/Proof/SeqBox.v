(* Proofs about Model/SeqBox.v (C01). *)
From Coq Require Import ZArith List Bool Lia Sorted Permutation.
From TD Require Import Gen.GapCheck Model.SeqBox.
Import ListNotations.
Open Scope Z_scope.

(* ---------- checkGap (generated) ---------- *)
Lemma check_gap_cases : forall l r c,
  (check_gap_go l r c = c_gapApply /\ (r = 0 \/ l + c = r)) \/
  (check_gap_go l r c = c_gapIgnore /\ r <> 0 /\ l + c > r) \/
  (check_gap_go l r c = c_gapRefetch /\ r <> 0 /\ l + c < r).
Proof.
  intros l r c. unfold check_gap_go.
  destruct (Z.eqb_spec r 0); [left; auto|].
  destruct (Z.eqb_spec (l + c) r); [left; auto|].
  destruct (Z.gtb_spec (l + c) r); [right; left|right; right]; repeat split; auto; lia.
Qed.

Definition nz (u : upd) : Prop := ust u <> 0.
Definition wf (u : upd) : Prop := ust u <> 0 /\ 0 <= ucnt u.
Definition pend_nz (b : box) : Prop := Forall nz (bpending b).
Definition pend_wf (b : box) : Prop := Forall wf (bpending b).
Definition op_P (P : upd -> Prop) (o : op) : Prop := match o with Handle u => P u | _ => True end.

(* ---------- sorting preserves membership ---------- *)
Lemma ins_perm : forall u l, Permutation (ins_by_start u l) (u :: l).
Proof.
  induction l as [|v t IH]; simpl; auto.
  destruct (ustart u <? ustart v); auto.
  eapply perm_trans; [apply perm_skip, IH|apply perm_swap].
Qed.
Lemma sort_perm_gen : forall l acc,
  Permutation (fold_left (fun acc u => ins_by_start u acc) l acc) (acc ++ l).
Proof.
  induction l as [|u t IH]; intros acc; simpl.
  - rewrite app_nil_r; auto.
  - eapply perm_trans; [apply IH|].
    eapply perm_trans; [apply Permutation_app_tail, ins_perm|].
    simpl. apply Permutation_middle.
Qed.
Lemma sort_perm : forall l, Permutation (sort_by_start l) l.
Proof. intros; unfold sort_by_start. apply (sort_perm_gen l []). Qed.
Lemma sort_Forall : forall P l, Forall P l -> Forall P (sort_by_start l).
Proof.
  intros P l H. rewrite Forall_forall in *. intros x Hx. apply H.
  eapply Permutation_in; [apply sort_perm|exact Hx].
Qed.

(* ---------- chains ---------- *)
Lemma chain_app : forall us s m vs e, chain s us m -> chain m vs e -> chain s (us ++ vs) e.
Proof.
  induction us as [|u t IH]; simpl; intros s m vs e H1 H2.
  - subst; auto.
  - destruct H1 as [Ha Hb]. split; auto. eapply IH; eauto.
Qed.
Lemma chain_mono : forall us s e, Forall (fun u => 0 <= ucnt u) us -> chain s us e -> s <= e.
Proof.
  induction us as [|u t IH]; simpl; intros s e Hf Hc.
  - lia.
  - inversion Hf; subst. destruct Hc as [Ha Hb]. apply IH in Hb; auto. unfold ustart, uend in *. lia.
Qed.
Lemma chain_bounds : forall us s e, Forall (fun u => 0 <= ucnt u) us -> chain s us e ->
  Forall (fun u => s <= ustart u /\ uend u <= e) us.
Proof.
  induction us as [|u t IH]; simpl; intros s e Hf Hc; auto.
  inversion Hf; subst. destruct Hc as [Ha Hb].
  pose proof (chain_mono _ _ _ H2 Hb) as Hm.
  constructor; [unfold ustart, uend in *; lia|].
  eapply Forall_impl; [|eapply IH; eauto]. simpl. intros a [? ?]. unfold ustart, uend in *; lia.
Qed.

(* ---------- walk ---------- *)
Lemma walk_spec : forall l st, Forall nz l ->
  let '(s', acc, c) := walk st l in
  chain st acc s' /\ incl acc l /\ (acc = [] -> s' = st) /\ (c <= length l)%nat.
Proof.
  induction l as [|u t IH]; intros st Hf; simpl.
  - repeat split; auto using incl_nil_l.
  - inversion Hf as [|? ? Hu Ht]; subst.
    destruct (check_gap_cases st (ust u) (ucnt u)) as [[E C]|[[E C]|[E C]]]; rewrite E;
      change (c_gapApply =? c_gapApply) with true; change (c_gapIgnore =? c_gapApply) with false;
      change (c_gapIgnore =? c_gapIgnore) with true; change (c_gapRefetch =? c_gapApply) with false;
      change (c_gapRefetch =? c_gapIgnore) with false; change (c_gapRefetch =? c_gapRefetch) with true;
      cbv iota.
    + specialize (IH (ust u) Ht). destruct (walk (ust u) t) as [[s' acc] c].
      destruct IH as (Hc & Hi & _ & Hl). repeat split.
      * unfold ustart. unfold nz in Hu. lia.
      * exact Hc.
      * apply incl_cons; [left; auto|apply incl_tl; auto].
      * discriminate.
      * simpl; lia.
    + specialize (IH st Ht). destruct (walk st t) as [[s' acc] c].
      destruct IH as (Hc & Hi & He & Hl). repeat split; auto.
      * apply incl_tl; auto.
      * simpl; lia.
    + repeat split; auto using incl_nil_l. simpl; lia.
Qed.

(* ---------- one step ---------- *)
Definition step_ok (b : box) (o : op) (b' : box) (evs : list bev) : Prop :=
  (evs = [] /\ (bstate b' = bstate b \/ exists z, o = SetState z /\ bstate b' = z)) \/
  (exists s' us, evs = [Dlv s' us] /\ us <> [] /\ chain (bstate b) us s' /\ bstate b' = s' /\
                 (exists u, o = Handle u) /\ (forall P, Forall P (bpending b) -> op_P P o -> Forall P us)).

Lemma skipn_Forall : forall A (P : A -> Prop) n l, Forall P l -> Forall P (skipn n l).
Proof.
  induction n; intros l H; simpl; auto. destruct l; auto. inversion H; auto.
Qed.

Lemma apply_pending_spec : forall b u0, pend_nz b ->
  let '(b', evs) := apply_pending b in
  step_ok b (Handle u0) b' evs /\ bgaps b' = bgaps b /\
  (forall P, Forall P (bpending b) -> Forall P (bpending b')) /\
  (forall P s' us, evs = [Dlv s' us] -> Forall P (bpending b) -> Forall P us).
Proof.
  intros b u0 Hp. unfold apply_pending.
  pose proof (walk_spec (sort_by_start (bpending b)) (bstate b) (sort_Forall _ _ Hp)) as W.
  destruct (walk (bstate b) (sort_by_start (bpending b))) as [[s' acc] c].
  destruct W as (Hc & Hi & He & _).
  assert (Hall : forall P, Forall P (bpending b) -> Forall P acc).
  { intros P HP. apply sort_Forall in HP. rewrite Forall_forall in *. intros x Hx. apply HP, Hi, Hx. }
  destruct acc as [|a acc'].
  - split; [left; simpl; auto|]. split; auto. split.
    + intros P HP. simpl. apply skipn_Forall, sort_Forall, HP.
    + intros; discriminate.
  - split.
    + right. exists s', (a :: acc'). split; [reflexivity|]. split; [discriminate|]. split; [exact Hc|].
      split; [reflexivity|]. split; [eauto|]. intros P HP _. apply Hall, HP.
    + split; auto. split.
      * intros P HP. simpl. apply skipn_Forall, sort_Forall, HP.
      * intros P s1 us E HP. inversion E; subst. auto.
Qed.

Lemma Forall_snoc : forall A (P : A -> Prop) l x, Forall P l -> P x -> Forall P (l ++ [x]).
Proof. intros. apply Forall_app; split; auto. Qed.

Ltac snoc :=
  simpl;
  try match goal with
      | Pd : bpending _ = ?p :: ?ps |- Forall ?P (?p :: ?ps ++ [?u]) =>
        change (Forall P ((p :: ps) ++ [u])); rewrite <- Pd
      end;
  apply Forall_snoc; auto.

Lemma lift_ap : forall b b1 u, bstate b1 = bstate b -> pend_nz b1 ->
  (forall P, Forall P (bpending b) -> P u -> Forall P (bpending b1)) ->
  let '(b', evs) := apply_pending b1 in
  step_ok b (Handle u) b' evs /\ (forall P, Forall P (bpending b) -> P u -> Forall P (bpending b')).
Proof.
  intros b b1 u Hs H1 HP1.
  pose proof (apply_pending_spec b1 u H1) as S. destruct (apply_pending b1) as [b' evs].
  destruct S as (S1 & _ & S2 & S3). split.
  - destruct S1 as [S1|(s' & us & A1 & A2 & A3 & A4 & A5 & _)].
    + left. rewrite <- Hs. exact S1.
    + right. exists s', us. split; [exact A1|]. split; [exact A2|]. split; [rewrite <- Hs; exact A3|].
      split; [exact A4|]. split; [eauto|]. intros P HP Hop. simpl in Hop. eapply S3; eauto.
  - intros P HP Hu'. apply S2. apply HP1; auto.
Qed.

Lemma handle_spec : forall b u, pend_nz b -> nz u ->
  let '(b', evs) := handle b u in
  step_ok b (Handle u) b' evs /\ (forall P, Forall P (bpending b) -> P u -> Forall P (bpending b')).
Proof.
  intros b u Hp Hu. unfold handle.
  assert (Hsn : forall P, Forall P (bpending b) -> P u -> Forall P (bpending b ++ [u])).
  { intros; apply Forall_snoc; auto. }
  destruct (check_gap_cases (bstate b) (ust u) (ucnt u)) as [[E C]|[[E C]|[E C]]]; rewrite E;
    change (c_gapApply =? c_gapApply) with true; change (c_gapIgnore =? c_gapApply) with false;
    change (c_gapIgnore =? c_gapIgnore) with true; change (c_gapRefetch =? c_gapApply) with false;
    change (c_gapRefetch =? c_gapIgnore) with false; change (c_gapRefetch =? c_gapRefetch) with true;
    change (c_gapApply =? c_gapIgnore) with false; cbv iota.
  2:{ split; [left; auto|auto]. }
  - (* apply *)
    destruct (bgaps b) as [|g gs] eqn:G.
    + remember (bpending b) as pd eqn:Pd. destruct pd as [|p ps].
      * split; [|intros; simpl; auto].
        right. exists (ust u), [u]. split; [reflexivity|]. split; [discriminate|].
        split; [simpl; split; [unfold ustart; unfold nz in Hu; lia|reflexivity]|].
        split; [reflexivity|]. split; [eauto|]. intros P _ HP. simpl in HP. auto.
      * rewrite Pd in *. apply lift_ap; simpl; auto. unfold pend_nz; simpl. apply (Hsn nz); auto.
    + destruct (consume (g :: gs) u) as [gs' acc] eqn:Cn.
      destruct acc; simpl.
      * destruct gs' as [|g' gs''].
        -- apply lift_ap; simpl; auto. unfold pend_nz; simpl. apply (Hsn nz); auto.
        -- split; [left; auto|]. intros P HP Hu'. simpl. auto.
      * split; [left; auto|]. intros P HP Hu'. simpl. auto.
  - (* refetch *)
    destruct (bgaps b) as [|g gs] eqn:G.
    + destruct (consume_all [(bstate b, ustart u)] (bpending b ++ [u])) as [|g' gs''] eqn:G'.
      * apply lift_ap; simpl; auto. unfold pend_nz; simpl. apply (Hsn nz); auto.
      * split; [left; auto|]. intros P HP Hu'. simpl. auto.
    + destruct (consume (g :: gs) u) as [gs' acc] eqn:Cn.
      destruct acc; simpl.
      * destruct gs' as [|g' gs''].
        -- apply lift_ap; simpl; auto. unfold pend_nz; simpl. apply (Hsn nz); auto.
        -- split; [left; auto|]. intros P HP Hu'. simpl. auto.
      * split; [left; auto|]. intros P HP Hu'. simpl. auto.
Qed.

Lemma step_spec : forall b o, pend_nz b -> op_P nz o ->
  let '(b', evs) := step b o in
  step_ok b o b' evs /\ (forall P, Forall P (bpending b) -> op_P P o -> Forall P (bpending b')).
Proof.
  intros b o Hp Ho. destruct o as [u|z|]; simpl.
  - apply handle_spec; auto.
  - split; [left; split; auto; right; eauto|auto].
  - split; [left; auto|auto].
Qed.

(* ---------- runs ---------- *)
Definition rec_ok (r : box * op * box * list bev) : Prop :=
  let '(b, o, b', evs) := r in step_ok b o b' evs.

Lemma run_chain : forall ops b, pend_nz b -> Forall (op_P nz) ops -> Forall rec_ok (run b ops).
Proof.
  induction ops as [|o t IH]; intros b Hp Ho; simpl; auto.
  inversion Ho as [|? ? Ho1 Ho2]; subst.
  pose proof (step_spec b o Hp Ho1) as S. destruct (step b o) as [b' evs].
  destruct S as [S1 S2]. constructor; [exact S1|].
  apply IH; auto. apply S2; auto.
Qed.

(* "SetState never moves backwards" along the run *)
Fixpoint mono_ops (b : box) (ops : list op) : Prop :=
  match ops with
  | [] => True
  | o :: t => match o with SetState z => bstate b <= z | _ => True end /\ mono_ops (fst (step b o)) t
  end.

Definition advancing (tr : list fev) : list upd :=
  flat_map (fun e => match e with FD u => if 0 <? ucnt u then [u] else [] | FS _ => [] end) tr.
Definition before (u v : upd) : Prop := uend u <= ustart v.

Lemma advancing_app : forall a b, advancing (a ++ b) = advancing a ++ advancing b.
Proof. intros; unfold advancing; apply flat_map_app. Qed.

Lemma SSorted_app : forall A (R : A -> A -> Prop) l1 l2,
  StronglySorted R l1 -> StronglySorted R l2 ->
  (forall a b, In a l1 -> In b l2 -> R a b) -> StronglySorted R (l1 ++ l2).
Proof.
  induction l1 as [|x t IH]; intros l2 H1 H2 H; simpl; auto.
  inversion H1; subst. constructor.
  - apply IH; auto. intros; apply H; simpl; auto.
  - apply Forall_app; split; auto. rewrite Forall_forall. intros b Hb. apply H; simpl; auto.
Qed.

Lemma chain_adv_sorted : forall us s e, Forall (fun u => 0 <= ucnt u) us -> chain s us e ->
  StronglySorted before (advancing (map FD us)).
Proof.
  induction us as [|u t IH]; simpl; intros s e Hf Hc; [constructor|].
  inversion Hf; subst. destruct Hc as [Ha Hb].
  destruct (0 <? ucnt u); simpl; [|eapply IH; eauto].
  constructor; [eapply IH; eauto|].
  pose proof (chain_bounds _ _ _ H2 Hb) as B.
  rewrite Forall_forall in *. intros v Hv. unfold advancing in Hv. rewrite in_flat_map in Hv.
  destruct Hv as (e0 & He0 & Hv). rewrite in_map_iff in He0. destruct He0 as (w & <- & Hw).
  destruct (0 <? ucnt w); simpl in Hv; [|tauto]. destruct Hv as [<-|[]].
  unfold before. apply B in Hw. lia.
Qed.

Lemma adv_in_chain : forall us v, In v (advancing (map FD us)) -> In v us /\ 0 < ucnt v.
Proof.
  intros us v Hv. unfold advancing in Hv. rewrite in_flat_map in Hv.
  destruct Hv as (e0 & He0 & Hv). rewrite in_map_iff in He0. destruct He0 as (w & <- & Hw).
  destruct (Z.ltb_spec 0 (ucnt w)); simpl in Hv; [|tauto]. destruct Hv as [<-|[]]. auto.
Qed.

Lemma flat_trace_cons : forall b o t,
  flat_trace b (o :: t) = flat_step o (snd (step b o)) ++ flat_trace (fst (step b o)) t.
Proof.
  intros. unfold flat_trace. simpl. destruct (step b o) as [b' evs]. simpl. reflexivity.
Qed.

Lemma wf_nz : forall u, wf u -> nz u. Proof. intros u [H _]; exact H. Qed.
Lemma Forall_wf_nz : forall l, Forall wf l -> Forall nz l.
Proof. intros; eapply Forall_impl; [apply wf_nz|auto]. Qed.
Lemma ops_wf_nz : forall ops, Forall (op_P wf) ops -> Forall (op_P nz) ops.
Proof. intros; eapply Forall_impl; [|eauto]. intros [u| |]; simpl; auto using wf_nz. Qed.

Lemma at_most_once_gen : forall ops b h,
  pend_wf b -> Forall (op_P wf) ops -> mono_ops b ops ->
  StronglySorted before (advancing h) -> Forall (fun u => uend u <= bstate b) (advancing h) ->
  StronglySorted before (advancing (h ++ flat_trace b ops)).
Proof.
  induction ops as [|o t IH]; intros b h Hp Ho Hm Hs Hb.
  - unfold flat_trace; simpl. rewrite app_nil_r. auto.
  - rewrite flat_trace_cons. inversion Ho as [|? ? Ho1 Ho2]; subst. destruct Hm as [Hm1 Hm2].
    pose proof (step_spec b o (Forall_wf_nz _ Hp) (match o as o0 return op_P wf o0 -> op_P nz o0 with
                  Handle u => @wf_nz u | _ => fun x => x end Ho1)) as S.
    destruct (step b o) as [b' evs]. simpl in *. destruct S as [S1 S2].
    rewrite app_assoc. apply IH; auto.
    + apply (S2 wf); auto.
    + destruct S1 as [[-> _]|(s' & us & -> & _ & Hc & _ & [u ->] & HP)].
      * destruct o; simpl; rewrite ?app_nil_r; auto. rewrite advancing_app. simpl. rewrite app_nil_r; auto.
      * simpl. rewrite app_nil_r. rewrite advancing_app.
        assert (Hw : Forall wf us) by (apply HP; auto).
        assert (Hc0 : Forall (fun u => 0 <= ucnt u) us) by (eapply Forall_impl; [|exact Hw]; intros a [_ ?]; auto).
        apply SSorted_app; auto.
        -- eapply chain_adv_sorted; eauto.
        -- intros a v Ha Hv. rewrite Forall_forall in Hb. apply Hb in Ha.
           apply adv_in_chain in Hv. destruct Hv as [Hv _].
           pose proof (chain_bounds _ _ _ Hc0 Hc) as B. rewrite Forall_forall in B. apply B in Hv.
           unfold before. lia.
    + destruct S1 as [[-> Hst]|(s' & us & -> & _ & Hc & Hst & [u ->] & HP)].
      * assert (Hle : bstate b <= bstate b').
        { destruct Hst as [->|(z & -> & ->)]; [lia|exact Hm1]. }
        assert (E : advancing (h ++ flat_step o []) = advancing h).
        { destruct o; simpl; rewrite ?app_nil_r; auto. rewrite advancing_app. simpl. rewrite app_nil_r; auto. }
        rewrite E. eapply Forall_impl; [|exact Hb]. simpl; intros; lia.
      * simpl. rewrite app_nil_r. rewrite advancing_app.
        assert (Hw : Forall wf us) by (apply HP; auto).
        assert (Hc0 : Forall (fun u => 0 <= ucnt u) us) by (eapply Forall_impl; [|exact Hw]; intros a [_ ?]; auto).
        pose proof (chain_mono _ _ _ Hc0 Hc) as Hmn.
        apply Forall_app; split.
        -- eapply Forall_impl; [|exact Hb]. simpl; intros; lia.
        -- rewrite Forall_forall. intros v Hv. apply adv_in_chain in Hv. destruct Hv as [Hv _].
           pose proof (chain_bounds _ _ _ Hc0 Hc) as B. rewrite Forall_forall in B. apply B in Hv. lia.
Qed.

Theorem at_most_once : forall ops b,
  pend_wf b -> Forall (op_P wf) ops -> mono_ops b ops ->
  StronglySorted before (advancing (flat_trace b ops)).
Proof.
  intros. apply (at_most_once_gen ops b []); auto; constructor.
Qed.

Lemma SSorted_before_NoDup : forall l, Forall (fun u => 0 < ucnt u) l -> StronglySorted before l -> NoDup l.
Proof.
  induction l as [|u t IH]; intros Hf Hs; constructor.
  - inversion Hs; subst. inversion Hf; subst. intro Hin. rewrite Forall_forall in H2.
    apply H2 in Hin. unfold before, ustart, uend in Hin. lia.
  - inversion Hs; inversion Hf; subst; auto.
Qed.
Lemma advancing_pos : forall tr, Forall (fun u => 0 < ucnt u) (advancing tr).
Proof.
  intros tr. rewrite Forall_forall. intros v Hv. unfold advancing in Hv. rewrite in_flat_map in Hv.
  destruct Hv as (e & _ & Hv). destruct e; simpl in Hv; [|tauto].
  destruct (Z.ltb_spec 0 (ucnt u)); simpl in Hv; [|tauto]. destruct Hv as [<-|[]]. auto.
Qed.
Theorem no_redelivery : forall ops b,
  pend_wf b -> Forall (op_P wf) ops -> mono_ops b ops -> NoDup (advancing (flat_trace b ops)).
Proof.
  intros. apply SSorted_before_NoDup; [apply advancing_pos|apply at_most_once; auto].
Qed.

(* ---------- coverage ---------- *)
Definition covers (p : Z) (e : fev) : Prop :=
  match e with FD v => ustart v < p <= uend v | FS z => p <= z end.
Definition cov (h : list fev) (p : Z) : Prop := Exists (covers p) h.

Lemma cov_app_l : forall h h' p, cov h p -> cov (h ++ h') p.
Proof. intros; unfold cov in *; apply Exists_app; auto. Qed.
Lemma cov_app_r : forall h h' p, cov h' p -> cov (h ++ h') p.
Proof. intros; unfold cov in *; apply Exists_app; auto. Qed.

Lemma chain_cov_prefix : forall us1 s u us2 e p,
  chain s (us1 ++ u :: us2) e -> s < p <= ustart u -> cov (map FD us1) p.
Proof.
  induction us1 as [|a t IH]; simpl; intros s u us2 e p Hc Hp.
  - destruct Hc as [Ha _]. lia.
  - destruct Hc as [Ha Hb]. destruct (Z_le_gt_dec p (uend a)).
    + left. simpl. lia.
    + right. eapply IH; eauto. lia.
Qed.
Lemma chain_cov_all : forall us s e p, chain s us e -> s < p <= e -> cov (map FD us) p.
Proof.
  induction us as [|a t IH]; simpl; intros s e p Hc Hp.
  - lia.
  - destruct Hc as [Ha Hb]. destruct (Z_le_gt_dec p (uend a)).
    + left. simpl. lia.
    + right. eapply IH; eauto. lia.
Qed.

Lemma app_split : forall A (l1 l2 pre : list A) x post,
  l1 ++ l2 = pre ++ x :: post ->
  (exists post1, l1 = pre ++ x :: post1 /\ post = post1 ++ l2) \/
  (exists pre2, pre = l1 ++ pre2 /\ l2 = pre2 ++ x :: post).
Proof.
  induction l1 as [|a t IH]; intros l2 pre x post H.
  - right. exists pre. simpl in *. auto.
  - destruct pre as [|b pre']; simpl in *.
    + inversion H; subst. left. exists t. auto.
    + inversion H; subst. apply IH in H2. destruct H2 as [(post1 & -> & ->)|(pre2 & -> & ->)].
      * left. exists post1. auto.
      * right. exists pre2. auto.
Qed.

Lemma map_FD_split : forall us pre u post, map FD us = pre ++ FD u :: post ->
  exists us1 us2, us = us1 ++ u :: us2 /\ pre = map FD us1.
Proof.
  induction us as [|a t IH]; intros pre u post H.
  - destruct pre; discriminate.
  - destruct pre as [|b pre']; simpl in *.
    + inversion H; subst. exists [], t. auto.
    + inversion H; subst. apply IH in H2. destruct H2 as (us1 & us2 & -> & ->).
      exists (a :: us1), us2. auto.
Qed.

Lemma covered_gen : forall ops b h s0,
  pend_nz b -> Forall (op_P nz) ops ->
  (forall p, s0 < p <= bstate b -> cov h p) ->
  forall pre u post, flat_trace b ops = pre ++ FD u :: post ->
  forall p, s0 < p <= ustart u -> cov (h ++ pre) p.
Proof.
  induction ops as [|o t IH]; intros b h s0 Hp Ho Hinv pre u post Ht p Hpp.
  - unfold flat_trace in Ht; simpl in Ht. destruct pre; discriminate.
  - rewrite flat_trace_cons in Ht. inversion Ho as [|? ? Ho1 Ho2]; subst.
    pose proof (step_spec b o Hp Ho1) as S. destruct (step b o) as [b' evs]. simpl in *.
    destruct S as [S1 S2].
    apply app_split in Ht. destruct Ht as [(post1 & Hn & ->)|(pre2 & -> & Ht)].
    + (* u delivered by this very step *)
      destruct S1 as [[-> _]|(s' & us & -> & _ & Hc & _ & [u0 ->] & _)].
      * destruct o; simpl in Hn; destruct pre; try discriminate. inversion Hn. destruct pre; discriminate.
      * simpl in Hn. rewrite app_nil_r in Hn. apply map_FD_split in Hn.
        destruct Hn as (us1 & us2 & -> & ->).
        destruct (Z_le_gt_dec p (bstate b)).
        -- apply cov_app_l. apply Hinv. lia.
        -- apply cov_app_r. eapply chain_cov_prefix; eauto. lia.
    + rewrite app_assoc.
      apply (IH b' (h ++ flat_step o evs) s0) with (u := u) (post := post); auto.
      * apply (S2 nz); auto.
      * intros q Hq.
        destruct S1 as [[-> Hst]|(s' & us & -> & _ & Hc & Hst & [u0 ->] & _)].
        -- destruct Hst as [E|(z & -> & E)].
           ++ apply cov_app_l. apply Hinv. lia.
           ++ apply cov_app_r. simpl. left. simpl. lia.
        -- simpl. rewrite app_nil_r. destruct (Z_le_gt_dec q (bstate b)).
           ++ apply cov_app_l. apply Hinv. lia.
           ++ apply cov_app_r. eapply chain_cov_all; eauto. lia.
Qed.

Theorem covered : forall ops b, pend_nz b -> Forall (op_P nz) ops ->
  forall pre u post, flat_trace b ops = pre ++ FD u :: post ->
  forall p, bstate b < p <= ustart u -> cov pre p.
Proof.
  intros ops b Hp Ho pre u post Ht p Hpp.
  apply (covered_gen ops b [] (bstate b) Hp Ho) with (u := u) (post := post); auto.
  intros; lia.
Qed.
