(* Proofs for C13 (Model/DhCheck.v against the generated Gen/DhCheck.v). *)
From Coq Require Import ZArith List Bool Lia Znumtheory.
From TD Require Import Lib.GoSem Lib.BigIntSem Gen.DhCheck Model.DhCheck.
Import ListNotations.
Open Scope Z_scope.

(* ---------- CheckGP ---------- *)
Lemma check_subgroup_spec p d es : 0 <= p -> 0 < d ->
  check_subgroup p d es = existsb (Z.eqb (p mod d)) es.
Proof.
  intros Hp Hd. unfold check_subgroup. rewrite Z.rem_mod_nonneg by lia.
  destruct (existsb _ es); reflexivity.
Qed.

Ltac gp_case g k :=
  destruct (Z.eqb_spec g k) as [->|?].

Theorem check_gp_spec g p : 0 <= p -> (check_gp g p = 0 <-> gp_table g p).
Proof.
  intros Hp. unfold check_gp, gp_table.
  gp_case g 2; [|gp_case g 3; [|gp_case g 4; [|gp_case g 5; [|gp_case g 6; [|gp_case g 7]]]]];
    cbv zeta; rewrite ?check_subgroup_spec by lia; cbn [existsb orb negb];
    repeat match goal with |- context [?a =? ?b] => destruct (Z.eqb_spec a b) end;
    cbn [orb negb]; split; intros H; try lia; try discriminate.
Qed.

Lemma check_gp_11 g p : check_gp g p = 11 <-> ~ (2 <= g <= 7).
Proof.
  unfold check_gp.
  gp_case g 2; [|gp_case g 3; [|gp_case g 4; [|gp_case g 5; [|gp_case g 6; [|gp_case g 7]]]]];
    cbv zeta; repeat match goal with |- context [if ?b then _ else _] => destruct b end;
    split; intros H; try lia; try discriminate.
Qed.
Lemma check_gp_tri g p : check_gp g p = 0 \/ check_gp g p = 11 \/ check_gp g p = 12.
Proof.
  unfold check_gp.
  gp_case g 2; [|gp_case g 3; [|gp_case g 4; [|gp_case g 5; [|gp_case g 6; [|gp_case g 7]]]]];
    cbv zeta; repeat match goal with |- context [if ?b then _ else _] => destruct b end; auto.
Qed.
Theorem check_gp_codes g p : 0 <= p ->
  (check_gp g p = 11 <-> ~ (2 <= g <= 7)) /\
  (check_gp g p = 12 <-> 2 <= g <= 7 /\ ~ gp_table g p) /\
  (check_gp g p = 0 \/ check_gp g p = 11 \/ check_gp g p = 12).
Proof.
  intros Hp. pose proof (check_gp_spec g p Hp) as S. pose proof (check_gp_11 g p) as E.
  pose proof (check_gp_tri g p) as T.
  split; [exact E|]. split; [|exact T].
  split.
  - intros H. split.
    + destruct (Z_le_dec 2 g); destruct (Z_le_dec g 7); try lia;
        (assert (check_gp g p = 11) by (apply E; lia); lia).
    + intros Ht. apply S in Ht. lia.
  - intros [Hr Hn]. destruct T as [T|[T|T]]; [exfalso; apply Hn; apply S; exact T| |exact T].
    apply E in T. lia.
Qed.

(* the table depends only on the residue class of p modulo 840 *)
Lemma check_gp_mod840 g p : 0 <= p -> check_gp g p = check_gp g (p mod 840).
Proof.
  intros Hp. pose proof (Z.mod_pos_bound p 840 ltac:(lia)) as Hm.
  unfold check_gp.
  gp_case g 2; [|gp_case g 3; [|gp_case g 4; [|gp_case g 5; [|gp_case g 6; [|gp_case g 7]]]]];
    cbv zeta; rewrite ?check_subgroup_spec by lia; try reflexivity;
    rewrite ?(Zmod_div_mod 8 840 p), ?(Zmod_div_mod 3 840 p), ?(Zmod_div_mod 5 840 p),
            ?(Zmod_div_mod 24 840 p), ?(Zmod_div_mod 7 840 p)
      by (try lia; first [exists 105; reflexivity | exists 280; reflexivity | exists 168; reflexivity
                          | exists 35; reflexivity | exists 120; reflexivity]);
    reflexivity.
Qed.
Lemma classes_covered_true : classes_covered = true.
Proof. vm_compute. reflexivity. Qed.

(* ---------- CheckDH ---------- *)
Theorem check_dh_spec prime g p : 0 <= p ->
  (check_dh prime g p = 0 <->
   bitlen p = 2048 /\ gp_table g p /\ prime p = true /\ prime ((p - 1) / 2) = true).
Proof.
  intros Hp. unfold check_dh, check_prime, c_RSAKeyBits.
  destruct (Z.eqb_spec (bitlen p) 2048) as [Hb|Hb]; cbn [negb].
  2:{ split; [discriminate|]. intros [H _]; contradiction. }
  assert (Hp1 : 1 <= p).
  { destruct p; cbn in Hb; try lia. }
  rewrite Z.quot_div_nonneg by lia.
  pose proof (check_gp_spec g p Hp) as G.
  destruct (Z.eqb_spec (check_gp g p) 0) as [Hg|Hg]; cbn [negb].
  - destruct (prime p); cbn [negb].
    + destruct (prime ((p - 1) / 2)); cbn [negb].
      * split; [intros _|reflexivity]. repeat split; auto. apply G; exact Hg.
      * split; [discriminate|]. intros (_ & _ & _ & H); discriminate.
    + split; [discriminate|]. intros (_ & _ & H & _); discriminate.
  - split; [intros H; contradiction|]. intros (_ & H & _). apply G in H. contradiction.
Qed.

(* with a sound and complete primality oracle this is exactly "2048-bit safe prime + table" *)
Corollary check_dh_safe_prime (primeo : Z -> bool) g p :
  (forall n, primeo n = true <-> prime n) -> 0 <= p ->
  (check_dh primeo g p = 0 <->
   2 ^ 2047 <= p < 2 ^ 2048 /\ prime p /\ prime ((p - 1) / 2) /\ gp_table g p).
Proof.
  intros Ho Hp. rewrite check_dh_spec by exact Hp.
  rewrite (bitlen_range p 2048) by lia. rewrite Z.abs_eq by exact Hp.
  replace (2048 - 1) with 2047 by reflexivity. rewrite !Ho. tauto.
Qed.

(* ---------- InRange / CheckDHParams ---------- *)
Lemma in_range_spec x lo hi : in_range x lo hi = true <-> lo < x < hi.
Proof.
  unfold in_range. rewrite big_cmp_gt, big_cmp_lt, andb_true_iff, Z.gtb_ltb, !Z.ltb_lt. tauto.
Qed.

Theorem check_dh_params_spec p g ga gb :
  check_dh_params p g ga gb = 0 <-> dh_params_spec p g ga gb.
Proof.
  unfold check_dh_params, dh_params_spec.
  change (2 ^ (c_RSAKeyBits - 64)) with (2 ^ 1984).
  set (m := 2 ^ 1984). cbv zeta.
  repeat match goal with
         | |- context [in_range ?x ?a ?b] =>
             let H := fresh "R" in
             pose proof (in_range_spec x a b) as H; destruct (in_range x a b)
         end; cbn [negb];
    (split; [intros H0; try discriminate; repeat split; try (apply R; reflexivity);
                                           try (apply R0; reflexivity); try (apply R1; reflexivity);
                                           try (apply R2; reflexivity); try (apply R3; reflexivity)
            |intros (H1 & H2 & H3 & H4 & H5); try reflexivity; exfalso]).
  all: try (assert (false = true) as X by (first [apply R; lia | apply R0; lia | apply R1; lia | apply R2; lia | apply R3; lia]); discriminate X).
Qed.

(* ---------- trial-division primality: complete w.r.t. Znumtheory.prime ---------- *)
Lemma no_divisor_complete n : prime n -> forall fuel d, 2 <= d -> no_divisor_from fuel d n = true.
Proof.
  intros Hn. induction fuel as [|f IH]; intros d Hd; cbn [no_divisor_from]; [reflexivity|].
  destruct (Z.ltb_spec n (d * d)) as [|Hdd]; [reflexivity|].
  destruct (Z.eqb_spec (n mod d) 0) as [Hm|Hm].
  - exfalso. apply Z.mod_divide in Hm; [|lia].
    destruct (prime_divisors n Hn d Hm) as [?|[?|[?|?]]]; try lia. subst d. nia.
  - apply IH; lia.
Qed.
Lemma prime_primeb n : prime n -> primeb n = true.
Proof.
  intros Hn. unfold primeb. pose proof (prime_ge_2 n Hn).
  apply andb_true_iff; split; [apply Z.leb_le; lia|]. apply no_divisor_complete; [exact Hn|lia].
Qed.

(* ---------- modular power ---------- *)
Lemma modpow_pos_spec b e m : 0 < m -> modpow_pos b e m = b ^ Zpos e mod m.
Proof.
  intros Hm. induction e as [e IH|e IH|]; cbn [modpow_pos].
  - rewrite IH. rewrite Pos2Z.inj_xI.
    replace (2 * Z.pos e + 1) with (Z.pos e + Z.pos e + 1) by lia.
    rewrite !Z.pow_add_r by lia. rewrite Z.pow_1_r.
    rewrite <- Zmult_mod. rewrite Zmult_mod_idemp_l. reflexivity.
  - rewrite IH. rewrite Pos2Z.inj_xO.
    replace (2 * Z.pos e) with (Z.pos e + Z.pos e) by lia.
    rewrite Z.pow_add_r by lia. rewrite <- Zmult_mod. reflexivity.
  - rewrite Z.pow_1_r. reflexivity.
Qed.
Lemma modpow_spec b e m : 0 < m -> 0 <= e -> modpow b e m = b ^ e mod m.
Proof.
  intros Hm He. destruct e; cbn [modpow]; [reflexivity|apply modpow_pos_spec; exact Hm|lia].
Qed.

(* ---------- the residue rule is Euler's criterion, for every safe prime below the bound ---------- *)
Lemma zall_spec f n : forall s, zall f n s = true -> forall p, s <= p < s + Z.of_nat n -> f p = true.
Proof.
  induction n as [|n IH]; intros s H p Hp; [lia|].
  cbn [zall] in H. apply andb_true_iff in H as [H1 H2].
  destruct (Z.eq_dec p s) as [->|Hne]; [exact H1|].
  apply (IH (s + 1) H2). lia.
Qed.
Lemma all_safe_primes_agree_true : all_safe_primes_agree = true.
Proof. vm_compute. reflexivity. Qed.
Lemma qr_n_eq : Z.of_nat qr_n = qr_bound.
Proof. vm_compute. reflexivity. Qed.

Theorem residue_is_qr_bounded p g :
  6 < p < qr_bound -> safe_primeb p = true -> 2 <= g <= 7 ->
  (gp_table g p <-> g ^ ((p - 1) / 2) mod p = 1).
Proof.
  intros Hp Hs Hg.
  pose proof (zall_spec qr_chk qr_n 0 all_safe_primes_agree_true p) as A.
  rewrite qr_n_eq in A. assert (C : qr_chk p = true) by (apply A; lia). clear A.
  unfold qr_chk in C. rewrite Hs in C.
  assert (H6 : (6 <? p) = true) by (apply Z.ltb_lt; lia). rewrite H6 in C. cbn [andb] in C.
  unfold qr_agrees in C. rewrite forallb_forall in C.
  assert (In g [2; 3; 4; 5; 6; 7]) as Hgin by (cbn; lia).
  specialize (C g Hgin). apply eqb_prop in C.
  unfold euler_qr in C. rewrite modpow_spec in C by (try lia; apply Z.div_pos; lia).
  rewrite <- check_gp_spec by lia.
  rewrite <- Z.eqb_eq. rewrite C. apply Z.eqb_eq.
Qed.

Corollary residue_is_qr_bounded_prime p g :
  6 < p < qr_bound -> prime p -> prime ((p - 1) / 2) -> 2 <= g <= 7 ->
  (gp_table g p <-> g ^ ((p - 1) / 2) mod p = 1).
Proof.
  intros Hp H1 H2 Hg. apply residue_is_qr_bounded; auto.
  unfold safe_primeb. rewrite (prime_primeb _ H1), (prime_primeb _ H2). reflexivity.
Qed.

(* ---------- DecomposePQ: partial correctness ---------- *)
Definition ginv (what g : Z) : Prop := g = 0 \/ (g | what).

Lemma pq_inner_inv fuel : forall what v x y j lim g g',
  ginv what g -> pq_inner fuel what v x y j lim g = Some g' -> ginv what g'.
Proof.
  induction fuel as [|f IH]; intros what v x y j lim g g' Hg H; cbn [pq_inner] in H.
  - destruct (negb (j <? lim)); [injection H as <-; exact Hg|discriminate].
  - destruct (negb (j <? lim)); [injection H as <-; exact Hg|].
    cbv zeta in H.
    match type of H with context [Z.gcd ?z what] => set (zz := z) in * end.
    destruct (negb (Z.gcd zz what =? 1)).
    + injection H as <-. right. apply Z.gcd_divide_r.
    + eapply IH; [|exact H]. right. apply Z.gcd_divide_r.
Qed.

Lemma pq_outer_inv rounds fuel : forall what i g rnd g',
  ginv what g -> pq_outer rounds fuel what i g rnd = Ok g' -> 1 < g' < what /\ (g' | what).
Proof.
  induction rounds as [|r IH]; intros what i g rnd g' Hg H; cbn [pq_outer] in H.
  - destruct (Z.ltb_spec 1 g); cbn [andb] in H; [|discriminate].
    destruct (Z.ltb_spec g what); [|discriminate]. injection H as <-.
    split; [lia|]. destruct Hg; [lia|assumption].
  - destruct (Z.ltb_spec 1 g) as [H1|H1]; cbn [andb] in H.
    + destruct (Z.ltb_spec g what) as [H2|H2].
      * injection H as <-. split; [lia|]. destruct Hg; [lia|assumption].
      * destruct rnd as [|r1 [|r2 rnd']]; try discriminate.
        destruct (what =? 0); [discriminate|]. destruct (what - 1 =? 0); [discriminate|].
        cbv zeta in H.
        match type of H with context [pq_inner ?a ?b ?c ?d ?e ?f ?g0 ?h] =>
          destruct (pq_inner a b c d e f g0 h) as [g1|] eqn:E end; [|discriminate].
        eapply IH; [|exact H]. eapply pq_inner_inv; [|exact E]. exact Hg.
    + destruct rnd as [|r1 [|r2 rnd']]; try discriminate.
      destruct (what =? 0); [discriminate|]. destruct (what - 1 =? 0); [discriminate|].
      cbv zeta in H.
      match type of H with context [pq_inner ?a ?b ?c ?d ?e ?f ?g0 ?h] =>
        destruct (pq_inner a b c d e f g0 h) as [g1|] eqn:E end; [|discriminate].
      eapply IH; [|exact H]. eapply pq_inner_inv; [|exact E]. exact Hg.
Qed.

Theorem decompose_pq_partial isp rounds fuel pq rnd p q :
  decompose_pq isp rounds fuel pq rnd = Ok (p, q) -> p * q = pq /\ 1 < p <= q.
Proof.
  unfold decompose_pq. destruct ((pq <? 4) || isp); [discriminate|].
  destruct (pq_outer rounds fuel pq 0 0 rnd) as [g| |] eqn:E; try discriminate.
  apply pq_outer_inv in E; [|left; reflexivity]. destruct E as (Hr & k & Hk).
  assert (Hq : pq / g = k) by (subst pq; apply Z.div_mul; lia).
  cbv zeta. rewrite Hq.
  assert (1 < k) by nia.
  destruct (Z.gtb_spec g k); intros HH; injection HH as <- <-; split; nia.
Qed.

(* hence, for a semiprime, the two primes in ascending order *)
Corollary decompose_pq_semiprime isp rounds fuel a b rnd p q :
  prime a -> prime b -> a <= b ->
  decompose_pq isp rounds fuel (a * b) rnd = Ok (p, q) -> p = a /\ q = b.
Proof.
  intros Ha Hb Hab H. apply decompose_pq_partial in H as (Hpq & Hp).
  pose proof (prime_ge_2 a Ha). pose proof (prime_ge_2 b Hb).
  assert (Hd : (a | p * q)) by (rewrite Hpq; apply Z.divide_factor_l).
  destruct (prime_mult a Ha p q Hd) as [[k Hk]|[k Hk]].
  - assert (Hkq : k * q = b) by nia.
    assert (Hqb : (q | b)) by (exists k; lia).
    destruct (prime_divisors b Hb q Hqb) as [?|[?|[?|?]]]; try lia.
    subst q. assert (k = 1) by nia. subst k. lia.
  - assert (Hkp : p * k = b) by nia.
    assert (Hpb : (p | b)) by (exists k; lia).
    destruct (prime_divisors b Hb p Hpb) as [?|[?|[?|?]]]; try lia.
    subst p. assert (k = 1) by nia. subst k. lia.
Qed.

(* the guard makes the big.Int divisions by zero unreachable: no panic for ANY input *)
Lemma pq_outer_no_panic rounds fuel what : 4 <= what ->
  forall i g rnd, pq_outer rounds fuel what i g rnd <> Panic.
Proof.
  intros Hw. induction rounds as [|r IH]; intros i g rnd; cbn [pq_outer].
  - destruct ((1 <? g) && (g <? what)); discriminate.
  - destruct ((1 <? g) && (g <? what)); [discriminate|].
    destruct rnd as [|r1 [|r2 rnd']]; try discriminate.
    destruct (Z.eqb_spec what 0); [lia|]. destruct (Z.eqb_spec (what - 1) 0); [lia|].
    cbv zeta. destruct (pq_inner _ _ _ _ _ _ _ _); [apply IH|discriminate].
Qed.
Theorem decompose_pq_no_panic isp rounds fuel pq rnd : decompose_pq isp rounds fuel pq rnd <> Panic.
Proof.
  unfold decompose_pq. destruct (Z.ltb_spec pq 4); cbn [orb]; [discriminate|].
  destruct isp; [discriminate|].
  pose proof (pq_outer_no_panic rounds fuel pq H 0 0 rnd) as Hn.
  destruct (pq_outer rounds fuel pq 0 0 rnd) as [g| |]; [|discriminate|contradiction].
  cbv zeta. destruct (g >? pq / g); discriminate.
Qed.

(* a product of two primes is never rejected up front (the guard only refuses pq < 4 and primes) *)
Lemma pq_outer_not_reject rounds fuel what : forall i g rnd, pq_outer rounds fuel what i g rnd <> Err EReject.
Proof.
  induction rounds as [|r IH]; intros i g rnd; cbn [pq_outer].
  - destruct ((1 <? g) && (g <? what)); discriminate.
  - destruct ((1 <? g) && (g <? what)); [discriminate|].
    destruct rnd as [|r1 [|r2 rnd']]; try discriminate.
    destruct (what =? 0); [discriminate|]. destruct (what - 1 =? 0); [discriminate|].
    cbv zeta. destruct (pq_inner _ _ _ _ _ _ _ _); [apply IH|discriminate].
Qed.
Theorem semiprime_not_rejected isp rounds fuel a b rnd :
  prime a -> prime b -> (isp = true -> prime (a * b)) ->
  decompose_pq isp rounds fuel (a * b) rnd <> Err EReject.
Proof.
  intros Ha Hb Hisp. pose proof (prime_ge_2 a Ha). pose proof (prime_ge_2 b Hb).
  assert (Hnp : ~ prime (a * b)).
  { intros Hp. destruct (prime_divisors _ Hp a (Z.divide_factor_l a b)) as [?|[?|[?|?]]]; nia. }
  unfold decompose_pq. destruct (Z.ltb_spec (a * b) 4); [nia|]. cbn [orb].
  destruct isp; [exfalso; apply Hnp, Hisp; reflexivity|].
  pose proof (pq_outer_not_reject rounds fuel (a * b) 0 0 rnd) as Hn.
  destruct (pq_outer rounds fuel (a * b) 0 0 rnd) as [g|e|]; [|congruence|discriminate].
  cbv zeta. destruct (g >? a * b / g); discriminate.
Qed.

(* fuel adequacy of the inner loop: with fuel >= lim - j it never runs out, so EFuel can only come
   from the number of rounds *)
Lemma pq_inner_fuel_ok fuel : forall what v x y j lim g,
  lim - j <= Z.of_nat fuel -> pq_inner fuel what v x y j lim g <> None.
Proof.
  induction fuel as [|f IH]; intros what v x y j lim g H; cbn [pq_inner].
  - destruct (Z.ltb_spec j lim); cbn [negb]; [lia|discriminate].
  - destruct (Z.ltb_spec j lim); cbn [negb]; [|discriminate].
    cbv zeta. match goal with |- context [negb (?c =? 1)] => destruct (negb (c =? 1)) end; [discriminate|].
    apply IH. lia.
Qed.
