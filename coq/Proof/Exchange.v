(* Proofs for C09 / C10 (Model/Exchange.v). *)
From Coq Require Import ZArith List Bool Lia Znumtheory Zpow_facts.
From TD Require Import Lib.GoSem Lib.Bytes Lib.RunLib Lib.BigIntSem Gen.DhCheck Model.DhCheck Proof.DhCheck Model.ExchangeAnswer Proof.ExchangeAnswer Model.Exchange.
Import ListNotations.
Open Scope Z_scope.

(* ---------- small facts ---------- *)
Lemma zleqb_refl a : zlist_eqb a a = true.
Proof. unfold zlist_eqb. induction a as [|x a IH]; cbn; [reflexivity|]. rewrite Z.eqb_refl, IH. reflexivity. Qed.
Lemma zleqb_eq a b : zlist_eqb a b = true -> a = b.
Proof.
  unfold zlist_eqb. revert b. induction a as [|x a IH]; intros [|y b]; cbn; intros H; try reflexivity; try discriminate.
  apply andb_true_iff in H as [H1 H2]. apply Z.eqb_eq in H1. apply IH in H2. subst. reflexivity.
Qed.
Lemma neq_refl a : neq a a = false.
Proof. unfold neq. rewrite zleqb_refl. reflexivity. Qed.
Lemma neq_false a b : neq a b = false -> a = b.
Proof. unfold neq. intros H. apply zleqb_eq. destruct (zlist_eqb a b); [reflexivity|discriminate]. Qed.

Lemma gtb_false a b : a <= b -> (a >? b) = false.
Proof. intros H. rewrite Z.gtb_ltb. apply Z.ltb_ge. exact H. Qed.

Lemma pow_pow_mod g a b p : 0 < p -> 0 <= a -> 0 <= b ->
  (g ^ a mod p) ^ b mod p = g ^ (a * b) mod p.
Proof.
  intros Hp Ha Hb. rewrite <- Zpower_mod by exact Hp. rewrite <- Z.pow_mul_r by assumption. reflexivity.
Qed.

Lemma bitlen_le x n : 0 <= n -> 0 <= x < 2 ^ n -> bitlen x <= n.
Proof.
  intros Hn [H0 H1]. destruct x as [|q|q]; cbn [bitlen]; [lia| |lia].
  assert (Z.log2 (Z.pos q) < n) by (apply Z.log2_lt_pow2; lia). lia.
Qed.

Lemma be_enc_zero_inv n v : 0 <= v < 256 ^ Z.of_nat n -> be_enc n v = repeat 0 n -> v = 0.
Proof.
  intros Hv H. unfold be_enc in H.
  assert (E : le_enc n v = repeat 0 n).
  { rewrite <- (rev_involutive (le_enc n v)), H.
    clear. induction n as [|n IH]; [reflexivity|].
    cbn [repeat rev]. rewrite IH. clear. induction n; cbn; [reflexivity|]. f_equal. assumption. }
  rewrite <- (le_dec_enc n v Hv), E. clear. induction n; cbn; [reflexivity|]. rewrite IHn. reflexivity.
Qed.

Lemma check_dh_0 prime g p : check_dh prime g p = 0 ->
  bitlen p = 2048 /\ check_gp g p = 0 /\ prime p = true.
Proof.
  unfold check_dh, check_prime, c_RSAKeyBits.
  destruct (Z.eqb_spec (bitlen p) 2048) as [Hb|Hb]; cbn [negb]; [|discriminate].
  cbv zeta. destruct (Z.eqb_spec (check_gp g p) 0) as [Hg|Hg]; cbn [negb]; [|intros H; contradiction].
  destruct (prime p); cbn [negb]; [|discriminate]. intros _. auto.
Qed.

(* C09_nonzero: a successful client key is not the zero key (p prime by a sound oracle) *)
Lemma prime_pow_nonzero p x b : prime p -> 0 < x < p -> 0 <= b -> x ^ b mod p <> 0.
Proof.
  intros Hp Hx Hb Hz.
  assert (Hdiv : (p | x ^ b)) by (apply Z.mod_divide; [pose proof (prime_ge_2 p Hp); lia|exact Hz]).
  assert (Hnd : ~ (p | x)).
  { intros [k Hk]. pose proof (prime_ge_2 p Hp). assert (0 < k) by nia. nia. }
  revert Hdiv. pattern b. apply natlike_ind; [| |exact Hb].
  - rewrite Z.pow_0_r. intros [k Hk]. pose proof (prime_ge_2 p Hp). assert (0 < k) by nia. nia.
  - intros n Hn IH. rewrite Z.pow_succ_r by exact Hn. intros Hd.
    destruct (prime_mult p Hp _ _ Hd); [contradiction|auto].
Qed.

Section ExchangeProofs.
  Variables pubkey privkey cipher1 cipher2 cipher3 : Type.
  Variable pub_of : privkey -> pubkey.
  Variable fp : pubkey -> Z.
  Variable rsa_enc : pubkey -> pq_inner -> cipher1.
  Variable rsa_dec : privkey -> cipher1 -> option pq_inner.
  Variable ans_enc : nonce -> nonce -> sdh_inner -> cipher2.
  Variable ans_dec : nonce -> nonce -> cipher2 -> option sdh_inner.
  Variable cin_enc : nonce -> nonce -> cdh_inner -> cipher3.
  Variable cin_dec : nonce -> nonce -> cipher3 -> option cdh_inner.
  Variable powmod : Z -> Z -> Z -> Z.
  Variable prime : Z -> bool.
  Variable factor : Z -> option (Z * Z).
  Variable nonce_hash1 : nonce -> list Z -> list Z.
  Variable key_id : list Z -> list Z.

  Notation cstep3 := (client_step3 pubkey cipher1 fp rsa_enc factor).
  Notation cstep6 := (client_step6 pubkey cipher2 cipher3 ans_dec cin_enc powmod prime).
  Notation cstep8 := (client_step8 powmod nonce_hash1 key_id).
  Notation crun := (client_run pubkey cipher1 cipher2 cipher3 fp rsa_enc ans_dec cin_enc powmod prime factor nonce_hash1 key_id).
  Notation sstep2 := (server_step2 pubkey privkey pub_of fp).
  Notation sstep5 := (server_step5 privkey cipher1 cipher2 rsa_dec ans_enc powmod).
  Notation sstep8 := (server_step8 cipher3 cin_dec powmod nonce_hash1 key_id).
  Notation hrun := (honest_run pubkey privkey cipher1 cipher2 cipher3 pub_of fp rsa_enc rsa_dec ans_enc ans_dec
                               cin_enc cin_dec powmod prime factor nonce_hash1 key_id).
  Notation picka := (pick_a powmod).
  Notation selkey := (select_key pubkey fp).

  Lemma pick_a_some p : forall l a ga,
    picka p l = Some (a, ga) -> In a l /\ ga = powmod server_g a p /\ ga_ok p ga = true.
  Proof.
    induction l as [|x l IH]; intros a ga H; cbn [pick_a] in H; [discriminate|].
    cbv zeta in H. destruct (ga_ok p (powmod server_g x p)) eqn:E.
    - injection H as <- <-. cbn. auto.
    - apply IH in H as (H1 & H2 & H3). cbn. auto.
  Qed.

  Lemma select_trusted keys pk :
    In pk keys -> (forall k, In k keys -> fp k = fp pk -> k = pk) ->
    selkey keys [fp pk] = Some pk.
  Proof.
    intros Hin Huniq. unfold select_key.
    destruct (find _ keys) as [k|] eqn:F.
    - apply find_some in F as [Hk Hf]. cbn [existsb] in Hf. rewrite orb_false_r in Hf.
      apply Z.eqb_eq in Hf. f_equal. apply Huniq; assumption.
    - exfalso. pose proof (find_none _ _ F pk Hin) as Hn. cbn [existsb] in Hn.
      rewrite Z.eqb_refl in Hn. discriminate.
  Qed.

  (* ================= C09 ================= *)
  Section Honest.
    Hypothesis rsa_ok : forall sk x, rsa_dec sk (rsa_enc (pub_of sk) x) = Some x.
    Hypothesis ans_ok : forall nn sn x, ans_dec nn sn (ans_enc nn sn x) = Some x.
    Hypothesis cin_ok : forall nn sn x, cin_dec nn sn (cin_enc nn sn x) = Some x.
    Hypothesis pow_ok : forall g e p, powmod g e p = g ^ e mod p.

    Theorem honest_agree (ccf : cconf pubkey) (cr : crand) (scf : sconf privkey) (sr : srand) a ga :
      let pk := pub_of (sc_key privkey scf) in
      let p := sr_p sr in
      In pk (cc_keys pubkey ccf) ->
      (forall k, In k (cc_keys pubkey ccf) -> fp k = fp pk -> k = pk) ->
      sr_pq sr <= 2 ^ 63 -> factor (sr_pq sr) <> None ->
      cc_dc pubkey ccf = sc_dc privkey scf ->
      0 <= p -> check_dh prime server_g p = 0 ->
      picka p (sr_as sr) = Some (a, ga) -> 0 <= a ->
      0 <= cr_b cr -> ga_ok p (server_g ^ cr_b cr mod p) = true ->
      exists cres sres,
        hrun ccf cr scf sr = Done cres sres /\
        kr_key cres = kr_key sres /\
        kr_key cres = be_enc 256 (server_g ^ (a * cr_b cr) mod p) /\
        kr_id cres = kr_id sres /\
        kr_salt cres = kr_salt sres /\
        kr_salt cres = server_salt (cr_new_nonce cr) (sr_server_nonce sr).
    Proof.
      intros pk p Hin Huniq Hpq Hfac Hdc Hp0 Hdh Hpick Ha Hb Hgb. subst pk p.
      set (p := sr_p sr) in *. set (pk := pub_of (sc_key privkey scf)) in *.
      destruct (check_dh_0 _ _ _ Hdh) as (Hbl & Hgp & _).
      assert (Hprange : 2 ^ 2047 <= p < 2 ^ 2048).
      { apply (bitlen_range p 2048) in Hbl; [|lia]. rewrite Z.abs_eq in Hbl by exact Hp0. exact Hbl. }
      assert (Hppos : 0 < p) by (pose proof (Z.pow_pos_nonneg 2 2047); lia).
      destruct (pick_a_some _ _ _ _ Hpick) as (_ & Hga & Hgaok).
      destruct (factor (sr_pq sr)) as [[fpp fq]|] eqn:Hf; [|contradiction].
      unfold honest_run.
      (* step 3 *)
      unfold client_step3, server_step2. cbn [rp_nonce rp_fps rp_pq rp_server_nonce].
      rewrite neq_refl. fold pk. rewrite (select_trusted _ pk Hin Huniq).
      assert ((sr_pq sr >? 2 ^ 63) = false) as -> by (apply gtb_false; exact Hpq).
      rewrite Hf. cbv zeta.
      (* step 5 (server) *)
      unfold server_step5. cbn [rd_enc]. unfold pk at 1. rewrite rsa_ok. cbn [pi_dc pi_new_nonce].
      rewrite Hdc, Z.eqb_refl. cbn [negb]. fold p. cbv zeta. rewrite Hgp. cbn [Z.eqb negb].
      rewrite Hpick.
      (* step 6 *)
      unfold client_step6. cbn [c3_server_nonce]. rewrite !neq_refl. rewrite ans_ok.
      cbn [si_nonce si_server_nonce si_p si_g si_ga]. rewrite !neq_refl. cbv zeta.
      rewrite Hdh. cbn [Z.eqb negb].
      assert (Hcp : check_dh_params p server_g ga (powmod server_g (cr_b cr) p) = 0).
      { unfold check_dh_params. cbv zeta. rewrite pow_ok.
        unfold ga_ok in Hgaok, Hgb. apply andb_true_iff in Hgaok as [G1 G2]. apply andb_true_iff in Hgb as [B1 B2].
        assert (G0 : in_range server_g 1 (p - 1) = true).
        { unfold in_range, server_g. rewrite big_cmp_gt, big_cmp_lt. apply andb_true_iff. split; [reflexivity|].
          apply Z.ltb_lt. pose proof (Z.pow_le_mono_r 2 3 2047 ltac:(lia) ltac:(lia)) as X. change (2 ^ 3) with 8 in X. lia. }
        rewrite G0, G1, B1, G2, B2. reflexivity. }
      rewrite Hcp. cbn [Z.eqb negb].
      (* step 8 (server) *)
      unfold server_step8. cbn [ss_new_nonce sd_enc ss_a ss_nonce]. rewrite cin_ok. cbn [ci_gb]. cbv zeta.
      rewrite !pow_ok. fold p.
      set (ks := (server_g ^ cr_b cr mod p) ^ a mod p).
      assert (Hks : 0 <= ks < p) by (apply Z.mod_pos_bound; exact Hppos).
      assert (Hksbl : bitlen ks <= 2048) by (apply bitlen_le; lia).
      assert (((bitlen ks + 7) / 8 >? 256) = false) as ->.
      { apply gtb_false. apply Z.lt_succ_r. apply Z.div_lt_upper_bound; lia. }
      (* step 8 (client) *)
      unfold client_step8. cbn [c6_server_nonce c6_ga c6_p]. rewrite !neq_refl. rewrite pow_ok. cbv zeta.
      assert (Hkeq : ga ^ cr_b cr mod p = ks).
      { rewrite Hga, pow_ok. unfold ks. rewrite !pow_pow_mod by lia. f_equal. f_equal. lia. }
      rewrite Hkeq.
      assert ((bitlen ks >? 2048) = false) as -> by (apply gtb_false; exact Hksbl).
      rewrite zleqb_refl. cbn [negb].
      eexists; eexists. split; [reflexivity|].
      cbn [kr_key kr_id kr_salt]. repeat split.
      unfold ks. rewrite pow_pow_mod by lia. f_equal. f_equal. f_equal. lia.
    Qed.

    (* if the client's g^b falls outside the safety range (probability about 2^-63) the client
       aborts at CheckDHParams: no key on the client, and the server never reaches its result *)
    Theorem honest_abort (ccf : cconf pubkey) (cr : crand) (scf : sconf privkey) (sr : srand) a ga :
      let pk := pub_of (sc_key privkey scf) in
      let p := sr_p sr in
      In pk (cc_keys pubkey ccf) ->
      (forall k, In k (cc_keys pubkey ccf) -> fp k = fp pk -> k = pk) ->
      sr_pq sr <= 2 ^ 63 -> factor (sr_pq sr) <> None ->
      cc_dc pubkey ccf = sc_dc privkey scf ->
      0 <= p -> check_dh prime server_g p = 0 ->
      picka p (sr_as sr) = Some (a, ga) ->
      ga_ok p (server_g ^ cr_b cr mod p) = false ->
      exists c, (c = 43 \/ c = 45) /\ hrun ccf cr scf sr = ClientErr (EDHParams c).
    Proof.
      intros pk p Hin Huniq Hpq Hfac Hdc Hp0 Hdh Hpick Hgb. subst pk p.
      set (p := sr_p sr) in *. set (pk := pub_of (sc_key privkey scf)) in *.
      destruct (check_dh_0 _ _ _ Hdh) as (Hbl & Hgp & _).
      assert (Hprange : 2 ^ 2047 <= p < 2 ^ 2048).
      { apply (bitlen_range p 2048) in Hbl; [|lia]. rewrite Z.abs_eq in Hbl by exact Hp0. exact Hbl. }
      destruct (pick_a_some _ _ _ _ Hpick) as (_ & Hga & Hgaok).
      destruct (factor (sr_pq sr)) as [[fpp fq]|] eqn:Hf; [|contradiction].
      unfold honest_run.
      unfold client_step3, server_step2. cbn [rp_nonce rp_fps rp_pq rp_server_nonce].
      rewrite neq_refl. fold pk. rewrite (select_trusted _ pk Hin Huniq).
      assert ((sr_pq sr >? 2 ^ 63) = false) as -> by (apply gtb_false; exact Hpq).
      rewrite Hf. cbv zeta.
      unfold server_step5. cbn [rd_enc]. unfold pk at 1. rewrite rsa_ok. cbn [pi_dc pi_new_nonce].
      rewrite Hdc, Z.eqb_refl. cbn [negb]. fold p. cbv zeta. rewrite Hgp. cbn [Z.eqb negb].
      rewrite Hpick.
      unfold client_step6. cbn [c3_server_nonce]. rewrite !neq_refl. rewrite ans_ok.
      cbn [si_nonce si_server_nonce si_p si_g si_ga]. rewrite !neq_refl. cbv zeta.
      rewrite Hdh. cbn [Z.eqb negb].
      unfold ga_ok in Hgaok, Hgb. apply andb_true_iff in Hgaok as [G1 G2].
      assert (G0 : in_range server_g 1 (p - 1) = true).
      { unfold in_range, server_g. rewrite big_cmp_gt, big_cmp_lt. apply andb_true_iff. split; [reflexivity|].
        apply Z.ltb_lt. pose proof (Z.pow_le_mono_r 2 3 2047 ltac:(lia) ltac:(lia)) as X. change (2 ^ 3) with 8 in X. lia. }
      unfold check_dh_params. cbv zeta. rewrite pow_ok. rewrite G0, G1. cbn [negb].
      destruct (in_range (server_g ^ cr_b cr mod p) 1 (p - 1)) eqn:B1; cbn [negb].
      - rewrite G2. cbn [negb]. cbn [andb] in Hgb. rewrite Hgb. cbn [negb Z.eqb].
        exists 45. split; [right; reflexivity|reflexivity].
      - cbn [Z.eqb negb]. exists 43. split; [left; reflexivity|reflexivity].
    Qed.
  End Honest.

  (* the client never panics when exponentiation is reduced modulo a 2048-bit prime *)
  Theorem client_no_panic (ccf : cconf pubkey) cr m2 m5 m7 :
    (forall g e p, 0 < p -> 0 <= powmod g e p < p) ->
    crun ccf cr m2 m5 m7 <> Panic.
  Proof.
    intros Hpow. unfold client_run.
    destruct (cstep3 ccf cr m2) as [[m4 st3]|e|] eqn:E3; try discriminate.
    2:{ exfalso. revert E3. unfold client_step3.
        destruct (neq _ _); [discriminate|]. destruct (selkey _ _); [|discriminate].
        destruct (_ >? _); [discriminate|]. destruct (factor _) as [[? ?]|]; discriminate. }
    destruct (cstep6 cr st3 m5) as [[m6 st6]|e|] eqn:E6; try discriminate.
    2:{ exfalso. revert E6. unfold client_step6. destruct m5; try discriminate.
        destruct (neq _ _); [discriminate|]. destruct (neq _ _); [discriminate|].
        destruct (ans_dec _ _ _); [|discriminate].
        destruct (neq _ _); [discriminate|]. destruct (neq _ _); [discriminate|]. cbv zeta.
        destruct (negb _); [discriminate|]. destruct (negb _); discriminate. }
    (* step 6 succeeded: p passed CheckDH, hence the key fits *)
    assert (Hst : bitlen (c6_p st6) = 2048 /\ 0 < c6_p st6 \/ True) by (right; exact I). clear Hst.
    revert E6. unfold client_step6. destruct m5 as [n sn enc| |]; try discriminate.
    destruct (neq _ _); [discriminate|]. destruct (neq _ _); [discriminate|].
    destruct (ans_dec _ _ _) as [inner|]; [|discriminate].
    destruct (neq _ _); [discriminate|]. destruct (neq _ _); [discriminate|]. cbv zeta.
    destruct (Z.eqb_spec (check_dh prime (si_g inner) (si_p inner)) 0) as [Hdh|]; cbn [negb]; [|discriminate].
    destruct (Z.eqb_spec (check_dh_params (si_p inner) (si_g inner) (si_ga inner) (powmod (si_g inner) (cr_b cr) (si_p inner))) 0) as [Hcp|];
      cbn [negb]; [|discriminate].
    intros H. injection H as _ <-.
    unfold client_step8. destruct m7; try discriminate.
    destruct (neq _ _); [discriminate|]. destruct (neq _ _); [discriminate|]. cbn [c6_ga c6_p]. cbv zeta.
    destruct (check_dh_0 _ _ _ Hdh) as (Hbl & _ & _).
    (* from check_dh_params = 0: 1 < g < p - 1, so p > 0 *)
    assert (Hppos : 0 < si_p inner).
    { revert Hcp. unfold check_dh_params. cbv zeta.
      destruct (in_range (si_g inner) 1 (si_p inner - 1)) eqn:R; cbn [negb]; [|discriminate].
      intros _. unfold in_range in R. rewrite big_cmp_gt, big_cmp_lt in R.
      apply andb_true_iff in R as [R1 R2]. apply Z.gtb_lt in R1. apply Z.ltb_lt in R2. lia. }
    pose proof (Hpow (si_ga inner) (cr_b cr) (si_p inner) Hppos) as Hk.
    assert (Hrange : 2 ^ 2047 <= si_p inner < 2 ^ 2048).
    { apply (bitlen_range (si_p inner) 2048) in Hbl; [|lia]. rewrite Z.abs_eq in Hbl by lia. exact Hbl. }
    assert (Hle : bitlen (powmod (si_ga inner) (cr_b cr) (si_p inner)) <= 2048) by (apply bitlen_le; lia).
    assert ((bitlen (powmod (si_ga inner) (cr_b cr) (si_p inner)) >? 2048) = false) as -> by (apply gtb_false; exact Hle).
    destruct (negb _); discriminate.
  Qed.

  (* ================= C10: what an accepting client has checked ================= *)
  Definition accepted_checks (ccf : cconf pubkey) (cr : crand) (m2 : res_pq) (m5 : server_dh cipher2) (m7 : dh_gen)
             (r : kex_result) : Prop :=
    exists k pq_p pq_q n5 sn5 enc5 inner n7 sn7 h7,
      let sn := rp_server_nonce m2 in
      let nn := cr_new_nonce cr in
      let gb := powmod (si_g inner) (cr_b cr) (si_p inner) in
      let key := be_enc 256 (powmod (si_ga inner) (cr_b cr) (si_p inner)) in
      (* step 2 *)
      rp_nonce m2 = cr_nonce cr /\
      selkey (cc_keys pubkey ccf) (rp_fps m2) = Some k /\ In k (cc_keys pubkey ccf) /\ In (fp k) (rp_fps m2) /\
      rp_pq m2 <= 2 ^ 63 /\ factor (rp_pq m2) = Some (pq_p, pq_q) /\
      (* step 5 *)
      m5 = SdhOk cipher2 n5 sn5 enc5 /\ n5 = cr_nonce cr /\ sn5 = sn /\
      ans_dec nn sn enc5 = Some inner /\
      si_nonce inner = cr_nonce cr /\ si_server_nonce inner = sn /\
      check_dh prime (si_g inner) (si_p inner) = 0 /\
      check_dh_params (si_p inner) (si_g inner) (si_ga inner) gb = 0 /\
      (* step 7 *)
      m7 = GenOk n7 sn7 h7 /\ n7 = cr_nonce cr /\ sn7 = sn /\
      h7 = nonce_hash1 nn key /\
      (* result *)
      r = {| kr_key := key; kr_id := key_id key; kr_salt := server_salt nn sn |}.

  Theorem accept_only_if ccf cr m2 m5 m7 r :
    crun ccf cr m2 m5 m7 = Ok r -> accepted_checks ccf cr m2 m5 m7 r.
  Proof.
    unfold client_run.
    destruct (cstep3 ccf cr m2) as [[m4 st3]|e|] eqn:E3; try discriminate.
    destruct (cstep6 cr st3 m5) as [[m6 st6]|e|] eqn:E6; try discriminate.
    intros E8.
    (* step 3 *)
    revert E3. unfold client_step3.
    destruct (neq (rp_nonce m2) (cr_nonce cr)) eqn:N2; [discriminate|]. apply neq_false in N2.
    destruct (selkey (cc_keys pubkey ccf) (rp_fps m2)) as [k|] eqn:Sel; [|discriminate].
    destruct (Z.gtb_spec (rp_pq m2) (2 ^ 63)) as [|Hpq]; [discriminate|].
    destruct (factor (rp_pq m2)) as [[pp pq]|] eqn:Hf; [|discriminate].
    cbv zeta. intros H3. injection H3 as _ <-.
    (* step 6 *)
    revert E6. unfold client_step6. destruct m5 as [n5 sn5 enc5| |]; try discriminate.
    cbn [c3_server_nonce].
    destruct (neq n5 (cr_nonce cr)) eqn:N5; [discriminate|]. apply neq_false in N5.
    destruct (neq sn5 (rp_server_nonce m2)) eqn:S5; [discriminate|]. apply neq_false in S5.
    destruct (ans_dec (cr_new_nonce cr) (rp_server_nonce m2) enc5) as [inner|] eqn:A5; [|discriminate].
    destruct (neq (si_nonce inner) (cr_nonce cr)) eqn:N5i; [discriminate|]. apply neq_false in N5i.
    destruct (neq (si_server_nonce inner) (rp_server_nonce m2)) eqn:S5i; [discriminate|]. apply neq_false in S5i.
    cbv zeta.
    destruct (Z.eqb_spec (check_dh prime (si_g inner) (si_p inner)) 0) as [Hdh|]; cbn [negb]; [|discriminate].
    destruct (Z.eqb_spec (check_dh_params (si_p inner) (si_g inner) (si_ga inner) (powmod (si_g inner) (cr_b cr) (si_p inner))) 0) as [Hcp|];
      cbn [negb]; [|discriminate].
    intros H6. injection H6 as _ <-.
    (* step 8 *)
    revert E8. unfold client_step8. destruct m7 as [n7 sn7 h7| | |]; try discriminate.
    cbn [c6_server_nonce c6_ga c6_p].
    destruct (neq n7 (cr_nonce cr)) eqn:N7; [discriminate|]. apply neq_false in N7.
    destruct (neq sn7 (rp_server_nonce m2)) eqn:S7; [discriminate|]. apply neq_false in S7.
    cbv zeta. destruct (_ >? 2048); [discriminate|].
    destruct (zlist_eqb _ h7) eqn:H7; cbn [negb]; [|discriminate]. apply zleqb_eq in H7.
    intros H8. injection H8 as <-.
    pose proof (find_some _ _ Sel) as [Hk1 Hk2].
    exists k, pp, pq, n5, sn5, enc5, inner, n7, sn7, h7. cbv zeta.
    repeat split; auto; try lia.
    - apply existsb_exists in Hk2 as (x & Hx1 & Hx2). apply Z.eqb_eq in Hx2. rewrite Hx2. exact Hx1.
    - rewrite S7. reflexivity.
  Qed.

  (* ---------- corollaries: each adversary move is refused ---------- *)
  Section Moves.
    Variables (ccf : cconf pubkey) (cr : crand) (m2 : res_pq) (m5 : server_dh cipher2) (m7 : dh_gen).
    Notation rejected := (is_ok (crun ccf cr m2 m5 m7) = false).

    Ltac by_accept :=
      let r := fresh "r" in let E := fresh "E" in
      destruct (crun ccf cr m2 m5 m7) as [r| |] eqn:E; [exfalso|reflexivity|reflexivity];
      apply accept_only_if in E;
      destruct E as (k_ & pp_ & pq_ & n5_ & sn5_ & enc5_ & inner_ & n7_ & sn7_ & h7_ & E); cbv zeta in E;
      destruct E as (C1 & C2 & C3 & C4 & C5 & C6 & C7 & C8 & C9 & C10 & C11 & C12 & C13 & C14 & C15 & C16 & C17 & C18 & C19).

    (* altered client nonce in ResPQ *)
    Lemma move_respq_nonce : rp_nonce m2 <> cr_nonce cr -> rejected.
    Proof. intros H. by_accept. contradiction. Qed.
    (* the peer only offers fingerprints the client does not trust (e.g. its own RSA key) *)
    Lemma move_untrusted_key : (forall k, In k (cc_keys pubkey ccf) -> ~ In (fp k) (rp_fps m2)) -> rejected.
    Proof. intros H. by_accept. exact (H k_ C3 C4). Qed.
    Lemma move_big_pq : rp_pq m2 > 2 ^ 63 -> rejected.
    Proof. intros H. by_accept. lia. Qed.
    (* altered nonces in server_DH_params_ok *)
    Lemma move_sdh_nonce n sn enc : m5 = SdhOk cipher2 n sn enc -> n <> cr_nonce cr \/ sn <> rp_server_nonce m2 -> rejected.
    Proof.
      intros Hm H. by_accept. rewrite Hm in C7. injection C7 as -> -> ->.
      destruct H as [H|H]; [exact (H C8)|exact (H C9)].
    Qed.
    Lemma move_sdh_fail : m5 = SdhFail cipher2 \/ m5 = SdhOther cipher2 -> rejected.
    Proof. intros H. by_accept. destruct H as [H|H]; rewrite H in C7; discriminate. Qed.
    (* encrypted answer that does not authenticate under the keys derived from the client's
       new_nonce: tampered ciphertext, or produced by a peer that never learned new_nonce *)
    Lemma move_bad_answer n sn enc :
      m5 = SdhOk cipher2 n sn enc -> ans_dec (cr_new_nonce cr) (rp_server_nonce m2) enc = None -> rejected.
    Proof. intros Hm H. by_accept. rewrite Hm in C7. injection C7 as -> -> ->. congruence. Qed.
    (* whatever decrypts must carry the right nonces, a DH group that passes CheckDH, and a g_a
       (with the client's g_b) that passes CheckDHParams *)
    Lemma move_inner n sn enc inner :
      m5 = SdhOk cipher2 n sn enc -> ans_dec (cr_new_nonce cr) (rp_server_nonce m2) enc = Some inner ->
      si_nonce inner <> cr_nonce cr \/ si_server_nonce inner <> rp_server_nonce m2 \/
      check_dh prime (si_g inner) (si_p inner) <> 0 \/
      check_dh_params (si_p inner) (si_g inner) (si_ga inner) (powmod (si_g inner) (cr_b cr) (si_p inner)) <> 0 ->
      rejected.
    Proof.
      intros Hm Hd H. by_accept. rewrite Hm in C7. injection C7 as -> -> ->.
      rewrite Hd in C10. injection C10 as ->.
      destruct H as [H|[H|[H|H]]]; [exact (H C11)|exact (H C12)|exact (H C13)|exact (H C14)].
    Qed.
    (* dh_gen: altered nonces, retry / fail answers, wrong new_nonce_hash1 *)
    Lemma move_gen_nonce n sn h : m7 = GenOk n sn h -> n <> cr_nonce cr \/ sn <> rp_server_nonce m2 -> rejected.
    Proof.
      intros Hm H. by_accept. rewrite Hm in C15. injection C15 as -> -> ->.
      destruct H as [H|H]; [exact (H C16)|exact (H C17)].
    Qed.
    Lemma move_gen_not_ok : m7 = GenRetry \/ m7 = GenFail \/ m7 = GenOther -> rejected.
    Proof. intros H. by_accept. destruct H as [H|[H|H]]; rewrite H in C15; discriminate. Qed.
    Lemma move_gen_hash n sn h n5 sn5 enc inner :
      m7 = GenOk n sn h -> m5 = SdhOk cipher2 n5 sn5 enc ->
      ans_dec (cr_new_nonce cr) (rp_server_nonce m2) enc = Some inner ->
      h <> nonce_hash1 (cr_new_nonce cr) (be_enc 256 (powmod (si_ga inner) (cr_b cr) (si_p inner))) -> rejected.
    Proof.
      intros Hm7 Hm5 Hd H. by_accept. rewrite Hm7 in C15. injection C15 as -> -> ->.
      rewrite Hm5 in C7. injection C7 as -> -> ->. rewrite Hd in C10. injection C10 as ->. contradiction.
    Qed.
  End Moves.

  (* unsafe DH parameters are refused: direct from the C13 characterisations *)
  Theorem unsafe_group_rejected ccf cr m2 n sn enc inner m7 :
    ans_dec (cr_new_nonce cr) (rp_server_nonce m2) enc = Some inner ->
    0 <= si_p inner ->
    ~ (bitlen (si_p inner) = 2048 /\ gp_table (si_g inner) (si_p inner) /\
       prime (si_p inner) = true /\ prime ((si_p inner - 1) / 2) = true) ->
    is_ok (crun ccf cr m2 (SdhOk cipher2 n sn enc) m7) = false.
  Proof using pubkey cipher1 cipher2 cipher3 fp rsa_enc ans_dec cin_enc powmod prime factor nonce_hash1 key_id.
    intros Hd Hp Hn.
    apply (move_inner ccf cr m2 (SdhOk cipher2 n sn enc) m7 n sn enc inner eq_refl Hd).
    right; right; left. intros H; apply Hn.
    exact (proj1 (check_dh_spec prime (si_g inner) (si_p inner) Hp) H).
  Qed.
  Lemma not_ok_answers ccf cr m2 m5 m7 :
    (m5 = SdhFail cipher2 \/ m5 = SdhOther cipher2) \/ (m7 = GenRetry \/ m7 = GenFail \/ m7 = GenOther) ->
    is_ok (crun ccf cr m2 m5 m7) = false.
  Proof.
    intros [H|H]; [exact (move_sdh_fail ccf cr m2 m5 m7 H)|exact (move_gen_not_ok ccf cr m2 m5 m7 H)].
  Qed.

  (* with a sound AND complete primality oracle: anything but a 2048-bit safe prime with a generator
     obeying the residue table is refused *)
  Theorem unsafe_group_rejected_prime ccf cr m2 n sn enc inner m7 :
    (forall x, prime x = true <-> Znumtheory.prime x) ->
    ans_dec (cr_new_nonce cr) (rp_server_nonce m2) enc = Some inner ->
    0 <= si_p inner ->
    ~ (2 ^ 2047 <= si_p inner < 2 ^ 2048 /\ Znumtheory.prime (si_p inner) /\
       Znumtheory.prime ((si_p inner - 1) / 2) /\ gp_table (si_g inner) (si_p inner)) ->
    is_ok (crun ccf cr m2 (SdhOk cipher2 n sn enc) m7) = false.
  Proof using pubkey cipher1 cipher2 cipher3 fp rsa_enc ans_dec cin_enc powmod prime factor nonce_hash1 key_id.
    intros Ho Hd Hp Hn.
    apply (move_inner ccf cr m2 (SdhOk cipher2 n sn enc) m7 n sn enc inner eq_refl Hd).
    right; right; left. intros H; apply Hn.
    exact (proj1 (check_dh_safe_prime prime (si_g inner) (si_p inner) Ho Hp) H).
  Qed.

  (* C09_nonzero *)
  Theorem client_key_nonzero ccf cr m2 m5 m7 r :
    (forall g e p, powmod g e p = g ^ e mod p) ->
    (forall n, prime n = true -> Znumtheory.prime n) ->
    0 <= cr_b cr ->
    crun ccf cr m2 m5 m7 = Ok r -> kr_key r <> repeat 0 256.
  Proof.
    intros Hpow Hsound Hb E. apply accept_only_if in E.
    destruct E as (k_ & pp_ & pq_ & n5_ & sn5_ & enc5_ & inner & n7_ & sn7_ & h7_ & E); cbv zeta in E.
    destruct E as (_ & _ & _ & _ & _ & _ & _ & _ & _ & _ & _ & _ & Hdh & Hcp & _ & _ & _ & _ & ->).
    cbn [kr_key]. rewrite Hpow.
    destruct (check_dh_0 _ _ _ Hdh) as (Hbl & _ & Hpr). apply Hsound in Hpr.
    pose proof (prime_ge_2 _ Hpr) as Hp2.
    assert (Hrange : 2 ^ 2047 <= si_p inner < 2 ^ 2048).
    { apply (bitlen_range (si_p inner) 2048) in Hbl; [|lia]. rewrite Z.abs_eq in Hbl by lia. exact Hbl. }
    assert (Hga : 1 < si_ga inner < si_p inner - 1).
    { revert Hcp. unfold check_dh_params. cbv zeta.
      destruct (in_range (si_g inner) 1 (si_p inner - 1)); cbn [negb]; [|discriminate].
      destruct (in_range (si_ga inner) 1 (si_p inner - 1)) eqn:R; cbn [negb]; [|discriminate].
      intros _. unfold in_range in R. rewrite big_cmp_gt, big_cmp_lt in R.
      apply andb_true_iff in R as [R1 R2]. apply Z.gtb_lt in R1. apply Z.ltb_lt in R2. lia. }
    intros Hz. apply be_enc_zero_inv in Hz.
    - revert Hz. apply prime_pow_nonzero; [exact Hpr|lia|exact Hb].
    - pose proof (Z.mod_pos_bound (si_ga inner ^ cr_b cr) (si_p inner) ltac:(lia)) as Hm.
      change (256 ^ Z.of_nat 256) with (2 ^ 2048). lia.
  Qed.
End ExchangeProofs.

(* ================= C10 -> C11: the accepted answer is authenticated ================= *)
(* Instantiate the abstract [ans_dec] by C11's model of crypto.DecryptExchangeAnswer under the
   temporary keys derived from (new_nonce, server_nonce), followed by TL decoding.  Then "the
   client completed" implies C11's guarantee for the delivered ciphertext: the decoded bytes are
   non-empty, are the candidate plaintext[20 : len-i] for a padding length i < 16, and their SHA-1
   is the 20-byte prefix of the AES-IGE plaintext under THOSE keys -- i.e. the peer produced a
   ciphertext that verifies under keys only derivable from the client's secret new_nonce. *)
Section AnswerAuthenticated.
  Variables pubkey cipher1 cipher3 : Type.
  Variable fp : pubkey -> Z.
  Variable rsa_enc : pubkey -> pq_inner -> cipher1.
  Variable cin_enc : nonce -> nonce -> cdh_inner -> cipher3.
  Variable powmod : Z -> Z -> Z -> Z.
  Variable prime : Z -> bool.
  Variable factor : Z -> option (Z * Z).
  Variable nonce_hash1 : nonce -> list Z -> list Z.
  Variable key_id : list Z -> list Z.
  Variable sha1 : list Z -> list Z.
  Variable ige_dec : list Z -> list Z -> list Z -> list Z.
  Variables tmp_key tmp_iv : nonce -> nonce -> list Z.      (* crypto.TempAESKeys *)
  Variable decode : list Z -> option sdh_inner.             (* TL decoding of server_DH_inner_data *)

  Definition ans_dec_c11 (nn sn : nonce) (c : list Z) : option sdh_inner :=
    match decrypt_answer sha1 ige_dec c (tmp_key nn sn) (tmp_iv nn sn) with
    | Ok d => decode d
    | _ => None
    end.

  Theorem accepted_answer_authenticated ccf cr m2 m5 m7 r :
    client_run pubkey cipher1 (list Z) cipher3 fp rsa_enc ans_dec_c11 cin_enc powmod prime factor nonce_hash1 key_id
               ccf cr m2 m5 m7 = Ok r ->
    exists n sn enc d i inner,
      m5 = SdhOk (list Z) n sn enc /\
      let nn := cr_new_nonce cr in
      let sn2 := rp_server_nonce m2 in
      let plain := ige_dec (tmp_key nn sn2) (tmp_iv nn sn2) enc in
      d <> [] /\ (i < 16)%nat /\ d = ExchangeAnswer.cand plain i /\ sha1 d = firstn sha1_size plain /\
      decode d = Some inner /\ si_nonce inner = cr_nonce cr /\ si_server_nonce inner = sn2.
  Proof.
    intros E. apply accept_only_if in E.
    destruct E as (k_ & pp_ & pq_ & n5 & sn5 & enc5 & inner & n7_ & sn7_ & h7_ & E); cbv zeta in E.
    destruct E as (_ & _ & _ & _ & _ & _ & Hm5 & _ & _ & Hdec & Hn & Hs & _).
    unfold ans_dec_c11 in Hdec.
    pose proof (decrypt_ok_or_err sha1 ige_dec enc5 (tmp_key (cr_new_nonce cr) (rp_server_nonce m2))
                                  (tmp_iv (cr_new_nonce cr) (rp_server_nonce m2))) as C11.
    destruct (decrypt_answer sha1 ige_dec enc5 _ _) as [d| |]; try discriminate.
    cbv zeta in C11. destruct C11 as (Hne & i & Hi & _ & Hd & Hsha).
    exists n5, sn5, enc5, d, i, inner. cbv zeta. repeat split; auto.
  Qed.
End AnswerAuthenticated.
